(* Module-level structure is preserved by parse ; emit (no pass in between).
   Part A: attribute round trips of the generated plumbing (Gen/Attrs.v).
   Part B: per-section preservation. *)
From Coq Require Import List NArith ZArith Bool Arith Lia.
Import ListNotations.
From WV Require Import Gen.Ops Model.Common Model.IR Model.Arena Model.Traversal Model.EmitFn Model.Locals
                       Model.ParseFn Model.ModuleM Model.ParseM Model.EmitM Gen.Attrs.
From WV Require Import Proofs.Arena Proofs.Order Proofs.IndexMaps.
Local Open Scope nat_scope.

(* ====================================================================================== *)
(* Part A: attribute round trips                                                           *)
(* ====================================================================================== *)
Theorem attr_table_local_rt : forall t, gen_emit_table_local (gen_parse_table_local t) = t.
Proof. intros []; reflexivity. Qed.
Theorem attr_table_import_rt : forall t imp, gen_emit_table_import (gen_parse_table_import t imp) = t.
Proof. intros [] imp; reflexivity. Qed.
Theorem attr_memory_local_rt : forall t, gen_emit_memory_local (gen_parse_memory_local t) = t.
Proof. intros []; reflexivity. Qed.
Theorem attr_memory_import_rt : forall t imp, gen_emit_memory_import (gen_parse_memory_import t imp) = t.
Proof. intros [] imp; reflexivity. Qed.
Theorem attr_global_local_rt : forall g init, gen_emit_global_local (gen_parse_global_local g init) = g.
Proof. intros [] init; reflexivity. Qed.
Theorem attr_global_import_rt : forall g imp, gen_emit_global_import (gen_parse_global_import g imp) = g.
Proof. intros [] imp; reflexivity. Qed.
(* the bookkeeping fields the parsers add *)
Lemma attr_table_import_flag t imp : tb_import (gen_parse_table_import t imp) = Some imp. Proof. reflexivity. Qed.
Lemma attr_table_local_flag t : tb_import (gen_parse_table_local t) = None. Proof. reflexivity. Qed.
Lemma attr_memory_import_flag t imp : me_import (gen_parse_memory_import t imp) = Some imp. Proof. reflexivity. Qed.
Lemma attr_memory_local_flag t : me_import (gen_parse_memory_local t) = None. Proof. reflexivity. Qed.
Lemma attr_global_import_kind g imp : gl_kind (gen_parse_global_import g imp) = GK_Import imp. Proof. reflexivity. Qed.
Lemma attr_global_local_kind g c : gl_kind (gen_parse_global_local g c) = GK_Local c. Proof. reflexivity. Qed.
(* the import and local emitters read the same attributes *)
Lemma attr_table_emit_same t : gen_emit_table_import t = gen_emit_table_local t. Proof. reflexivity. Qed.
Lemma attr_memory_emit_same t : gen_emit_memory_import t = gen_emit_memory_local t. Proof. reflexivity. Qed.
Lemma attr_global_emit_same t : gen_emit_global_import t = gen_emit_global_local t. Proof. reflexivity. Qed.

(* ====================================================================================== *)
(* Part B: generic helpers                                                                 *)
(* ====================================================================================== *)
Lemma upd_map {A B} (g : A -> B) (f : A -> A) : (forall x, g (f x) = g x) ->
  forall (l : list A) n, map g (Arena.upd l n f) = map g l.
Proof.
  intros H. induction l as [|x r IH]; intros n; [destruct n; reflexivity|].
  destruct n; cbn [Arena.upd map]; [rewrite H; reflexivity|rewrite IH; reflexivity].
Qed.

Lemma aiter_nodead_snd {A} (a : tarena A) : dead a = [] -> map snd (aiter a) = items a.
Proof.
  intros D. unfold aiter, iter. rewrite D. generalize 0 as n. induction (items a) as [|x r IH]; intros n; [reflexivity|].
  cbn [iter_from existsb map snd]. rewrite IH. reflexivity.
Qed.
Lemma aiter_nodead_fst {A} (a : tarena A) : dead a = [] -> map fst (aiter a) = iota (length (items a)).
Proof.
  intros D. unfold aiter, iter, iota. rewrite D. generalize 0 as n. induction (items a) as [|x r IH]; intros n; [reflexivity|].
  cbn [iter_from existsb map fst length seq]. rewrite IH. reflexivity.
Qed.
Lemma aget_nodead {A} (a : tarena A) id : dead a = [] -> aget a id = nth_error (items a) (N.to_nat id).
Proof. intros D. unfold aget, index, get, is_dead. rewrite D. reflexivity. Qed.

(* ---------------------------------------------------------------- well-formed payload streams *)
Definition sec_tag (s : wsec) : option nat :=
  match s with
  | S_Types _ => Some 0 | S_Imports _ => Some 1 | S_Funcs _ => Some 2 | S_Tables _ => Some 3 | S_Mems _ => Some 4
  | S_Globals _ => Some 5 | S_Exports _ => Some 6 | S_Start _ => Some 7 | S_Elems _ => Some 8 | S_DataCount _ => Some 9
  | S_Code _ => Some 10 | S_Data _ => Some 11 | S_Custom _ => None
  end.
Definition has_tag (t : nat) (s : wsec) : bool := match sec_tag s with Some u => Nat.eqb u t | None => false end.
Definition tag_count (t : nat) (w : list wsec) : nat := length (filter (has_tag t) w).
(* each standard section at most once (custom sections are unconstrained, no order is required) *)
Definition once (t : nat) (w : list wsec) : Prop := tag_count t w <= 1.
Definition stream_wf (w : list wsec) : bool := forallb (fun t => tag_count t w <=? 1) (seq 0 12).
Lemma stream_wf_once w t : stream_wf w = true -> t < 12 -> once t w.
Proof.
  unfold stream_wf, once. rewrite forallb_forall. intros H Ht. apply Nat.leb_le, H, in_seq. lia.
Qed.

(* a per-section contribution that only sections with tag t make, summed over a stream in which
   that section occurs once, is the contribution of that section *)
Lemma once_flat_map {B} (f : wsec -> list B) t : (forall s, has_tag t s = false -> f s = []) ->
  forall w sec, once t w -> In sec w -> has_tag t sec = true -> flat_map f w = f sec.
Proof.
  intros Hf. unfold once, tag_count. induction w as [|x r IH]; intros sec Ho Hin Ht; [destruct Hin|].
  cbn [flat_map filter] in *. destruct (has_tag t x) eqn:Ex.
  - cbn [length] in Ho. assert (Hr : filter (has_tag t) r = []) by (destruct (filter (has_tag t) r); [reflexivity|cbn in Ho; lia]).
    assert (Hz : flat_map f r = []).
    { clear - Hf Hr. induction r as [|y r IH]; [reflexivity|]. cbn [filter flat_map] in *.
      destruct (has_tag t y) eqn:Ey; [discriminate|]. rewrite (Hf _ Ey), IH by exact Hr. reflexivity. }
    destruct Hin as [->|Hin]; [rewrite Hz, app_nil_r; reflexivity|].
    exfalso. assert (Hi : In sec (filter (has_tag t) r)) by (apply filter_In; auto). rewrite Hr in Hi. destruct Hi.
  - rewrite (Hf _ Ex). cbn [app]. destruct Hin as [->|Hin]; [congruence|]. apply IH; assumption.
Qed.

(* ---------------------------------------------------------------- frames: which fields a parser leaves alone *)
Definition F9 (m : wir) :=
  (m_imports m, m_tables m, m_funcs m, m_globals m, m_exports m, m_memories m, m_data m, m_elements m, m_start m).
Ltac f9 H := unfold F9 in H; wcbn; injection H; intros.

Lemma parse_types_F9 : forall ts m ids m' ids', parse_types m ids ts = (m', ids') -> F9 m' = F9 m.
Proof.
  induction ts as [|[ps rs] r IH]; intros m ids m' ids' E; cbn [parse_types] in E; [inversion E; reflexivity|].
  destruct (types_insert m _) as [m1 id] eqn:Et. apply IH in E. rewrite E.
  apply types_insert_dead in Et. destruct Et as [Et _]. rewrite Et. reflexivity.
Qed.
Lemma parse_funcs_F9 : forall l m ids m' ids', parse_funcs m ids l = POk (m', ids') -> F9 m' = F9 (set_funcs m (m_funcs m')).
Proof.
  induction l as [|i r IH]; intros m ids m' ids' E; cbn [parse_funcs] in E; [inversion E; reflexivity|].
  pinv E as t Et. wcbn. apply IH in E. rewrite E. reflexivity.
Qed.
Lemma parse_tables_F9 : forall l m ids m' ids', parse_tables m ids l = (m', ids') -> F9 m' = F9 (set_tables m (m_tables m')).
Proof.
  induction l as [|i r IH]; intros m ids m' ids' E; cbn [parse_tables] in E; [inversion E; reflexivity|].
  wcbn. apply IH in E. rewrite E. reflexivity.
Qed.
Lemma parse_mems_F9 : forall l m ids m' ids', parse_mems m ids l = (m', ids') -> F9 m' = F9 (set_memories m (m_memories m')).
Proof.
  induction l as [|i r IH]; intros m ids m' ids' E; cbn [parse_mems] in E; [inversion E; reflexivity|].
  wcbn. apply IH in E. rewrite E. reflexivity.
Qed.
Lemma parse_globals_F9 : forall l m ids m' ids', parse_globals m ids l = POk (m', ids') -> F9 m' = F9 (set_globals m (m_globals m')).
Proof.
  induction l as [|[g c] r IH]; intros m ids m' ids' E; cbn [parse_globals] in E; [inversion E; reflexivity|].
  pinv E as t Et. wcbn. apply IH in E. rewrite E. reflexivity.
Qed.
Lemma parse_exports_F9 : forall l m ids m', parse_exports m ids l = POk m' -> F9 m' = F9 (set_exports m (m_exports m')).
Proof.
  induction l as [|e r IH]; intros m ids m' E; cbn [parse_exports] in E; [inversion E; reflexivity|].
  pinv E as t Et. wcbn. apply IH in E. rewrite E. reflexivity.
Qed.
Lemma reserve_data_F9 : forall n m ids m' ids', reserve_data m ids n = (m', ids') -> F9 m' = F9 (set_data m (m_data m')).
Proof.
  induction n as [|n IH]; intros m ids m' ids' E; cbn [reserve_data] in E; [inversion E; reflexivity|].
  wcbn. apply IH in E. rewrite E. reflexivity.
Qed.
Lemma parse_imports_F9 : forall l m ids m' ids', parse_imports m ids l = POk (m', ids') ->
  m_exports m' = m_exports m /\ m_data m' = m_data m /\ m_elements m' = m_elements m /\ m_start m' = m_start m.
Proof.
  induction l as [|i r IH]; intros m ids m' ids' E; cbn [parse_imports] in E; [inversion E; auto|].
  pinv E as x Ex. destruct x as [m1 ids1]. apply IH in E. wcbn. destruct E as (E1 & E2 & E3 & E4).
  rewrite E1, E2, E3, E4. clear - Ex.
  unfold parse_import in Ex. destruct (wi_kind i); [pinv Ex as t Et|..]; wcbn; inversion Ex; auto.
Qed.

(* ---------------------------------------------------------------- tables and memories: the attributes *)
Definition isS {A} (o : option A) : bool := match o with Some _ => true | None => false end.
Definition tcore (t : mtable) : wtable * bool := (gen_emit_table_local t, isS (tb_import t)).
Definition mcore (t : mmem) : wmem * bool := (gen_emit_memory_local t, isS (me_import t)).
Definition K_tables (m : wir) := map tcore (items (m_tables m)).
Definition K_mems (m : wir) := map mcore (items (m_memories m)).

Definition imp_tables_w (l : list wimport) : list wtable :=
  flat_map (fun i => match wi_kind i with WI_Table t => [t] | _ => [] end) l.
Definition imp_mems_w (l : list wimport) : list wmem :=
  flat_map (fun i => match wi_kind i with WI_Mem t => [t] | _ => [] end) l.
(* what a payload contributes to the table / memory index space: (attributes, is-import) *)
Definition sec_tables (sec : wsec) : list (wtable * bool) :=
  match sec with
  | S_Tables l => map (fun t => (t, false)) l
  | S_Imports l => map (fun t => (t, true)) (imp_tables_w l)
  | _ => [] end.
Definition sec_mems (sec : wsec) : list (wmem * bool) :=
  match sec with
  | S_Mems l => map (fun t => (t, false)) l
  | S_Imports l => map (fun t => (t, true)) (imp_mems_w l)
  | _ => [] end.

Lemma tcore_imp_tables : forall l base, map tcore (imp_tables base l) = map (fun t => (t, true)) (imp_tables_w l).
Proof.
  induction l as [|i r IH]; intros base; [reflexivity|]. cbn [imp_tables imp_tables_w flat_map].
  fold (imp_tables_w r). rewrite !map_app, IH. f_equal. destruct (wi_kind i); try reflexivity.
  cbn [map]. unfold tcore. rewrite attr_table_local_flag || idtac. destruct t; reflexivity.
Qed.
Lemma mcore_imp_mems : forall l base, map mcore (imp_mems base l) = map (fun t => (t, true)) (imp_mems_w l).
Proof.
  induction l as [|i r IH]; intros base; [reflexivity|]. cbn [imp_mems imp_mems_w flat_map].
  fold (imp_mems_w r). rewrite !map_app, IH. f_equal. destruct (wi_kind i); try reflexivity.
  cbn [map]. unfold mcore. destruct m; reflexivity.
Qed.
Lemma tcore_local : forall l, map tcore (map gen_parse_table_local l) = map (fun t => (t, false)) l.
Proof. intros l. rewrite map_map. apply map_ext. intros []; reflexivity. Qed.
Lemma mcore_local : forall l, map mcore (map gen_parse_memory_local l) = map (fun t => (t, false)) l.
Proof. intros l. rewrite map_map. apply map_ext. intros []; reflexivity. Qed.

(* element segments register themselves in the table (tb_segs), data segments in the memory (me_segs) *)
Lemma parse_elem_step m ids e m1 ids1 : parse_elem m ids e = POk (m1, ids1) ->
  F9 m1 = F9 (set_elements (set_tables m (m_tables m1)) (m_elements m1)) /\ K_tables m1 = K_tables m.
Proof.
  intros Ex. unfold parse_elem in Ex. pinv Ex as its Eits. pinv Ex as mk Emk. destruct mk as [m2 kind].
  wcbn. inversion Ex; subst; clear Ex. unfold K_tables. wcbn.
  destruct (wel_kind e).
  - inversion Emk; subst; split; reflexivity.
  - inversion Emk; subst; split; reflexivity.
  - pinv Emk as tid Etid. pinv Emk as tb Etb. pinv Emk as o Eo. pinv Emk as ok Eok. destruct ok; [|discriminate].
    inversion Emk; subst; clear Emk. wcbn. split; [reflexivity|]. apply upd_map. intros x. reflexivity.
Qed.
Lemma parse_elems_step : forall l m ids m' ids', parse_elems m ids l = POk (m', ids') ->
  F9 m' = F9 (set_elements (set_tables m (m_tables m')) (m_elements m')) /\ K_tables m' = K_tables m.
Proof.
  induction l as [|e r IH]; intros m ids m' ids' E; cbn [parse_elems] in E; [inversion E; split; reflexivity|].
  pinv E as x Ex. destruct x as [m1 ids1]. apply IH in E. wcbn. destruct E as [E1 E2].
  apply parse_elem_step in Ex. destruct Ex as [X1 X2]. rewrite E1, E2, X2. split; [|reflexivity].
  f9 X1. unfold F9. wcbn. congruence.
Qed.
Lemma parse_data_from_step : forall l m ids pre i m' ids', parse_data_from m ids pre i l = POk (m', ids') ->
  F9 m' = F9 (set_data (set_memories m (m_memories m')) (m_data m')) /\ K_mems m' = K_mems m.
Proof.
  induction l as [|d r IH]; intros m ids pre i m' ids' E; cbn [parse_data_from] in E; [inversion E; split; reflexivity|].
  pinv E as x Ex. destruct x as [[m1 ids1] id]. pinv E as y Ey. destruct y as [m2 kind]. pinv E as u Eu.
  apply IH in E. clear IH Eu. destruct E as [E1 E2]. rewrite E1, E2. clear E1 E2.
  assert (H1 : F9 m1 = F9 (set_data m (m_data m1))).
  { destruct pre; [pinv Ex as z Ez; inversion Ex; reflexivity|]. wcbn. inversion Ex; reflexivity. }
  assert (H2 : F9 m2 = F9 (set_memories m1 (m_memories m2)) /\ K_mems m2 = K_mems m1).
  { destruct (wd_kind d).
    - inversion Ey; subst; split; reflexivity.
    - pinv Ey as mid Emid. pinv Ey as mm Emm. pinv Ey as o Eo. pinv Ey as ok Eok. destruct ok; [|discriminate].
      inversion Ey; subst; clear Ey. split; [reflexivity|]. unfold K_mems. wcbn. apply upd_map. intros x. reflexivity. }
  destruct H2 as [H2 H3]. f9 H1. f9 H2. unfold F9, K_mems in *. wcbn. split; congruence.
Qed.

Ltac frame_tm H :=
  f9 H; unfold K_tables, K_mems; cbn [sec_tables sec_mems]; rewrite ?app_nil_r; split; congruence.

Lemma parse_sec_TM s sec s' : parse_sec s sec = POk s' ->
  K_tables (ps_m s') = K_tables (ps_m s) ++ sec_tables sec /\ K_mems (ps_m s') = K_mems (ps_m s) ++ sec_mems sec.
Proof.
  intros E. unfold parse_sec in E. destruct sec.
  - destruct (parse_types _ _ _) as [m1 i1] eqn:Ep. inversion E; subst; clear E. wcbn.
    apply parse_types_F9 in Ep. frame_tm Ep.
  - pinv E as x Ex. destruct x as [m1 i1]. inversion E; subst; clear E. wcbn.
    apply parse_imports_spec in Ex. cbv zeta in Ex. destruct Ex as (X1 & X2 & _).
    unfold K_tables, K_mems. cbn [sec_tables sec_mems]. rewrite X1, X2, !map_app, tcore_imp_tables, mcore_imp_mems. auto.
  - pinv E as x Ex. destruct x as [m1 i1]. inversion E; subst; clear E. wcbn. apply parse_funcs_F9 in Ex. frame_tm Ex.
  - destruct (parse_tables _ _ _) as [m1 i1] eqn:Ep. inversion E; subst; clear E. wcbn.
    pose proof (parse_tables_spec _ _ _ _ _ Ep) as X. apply parse_tables_F9 in Ep. f9 Ep.
    unfold K_tables, K_mems. cbn [sec_tables sec_mems]. rewrite X, map_app, tcore_local, app_nil_r. split; congruence.
  - destruct (parse_mems _ _ _) as [m1 i1] eqn:Ep. inversion E; subst; clear E. wcbn.
    pose proof (parse_mems_spec _ _ _ _ _ Ep) as X. apply parse_mems_F9 in Ep. f9 Ep.
    unfold K_tables, K_mems. cbn [sec_tables sec_mems]. rewrite X, map_app, mcore_local, app_nil_r. split; congruence.
  - pinv E as x Ex. destruct x as [m1 i1]. inversion E; subst; clear E. wcbn. apply parse_globals_F9 in Ex. frame_tm Ex.
  - pinv E as x Ex. inversion E; subst; clear E. wcbn. apply parse_exports_F9 in Ex. frame_tm Ex.
  - pinv E as x Ex. inversion E; subst; clear E. wcbn. cbn [sec_tables sec_mems]. rewrite !app_nil_r. split; reflexivity.
  - pinv E as x Ex. destruct x as [m1 i1]. inversion E; subst; clear E. wcbn. apply parse_elems_step in Ex.
    destruct Ex as [X1 X2]. f9 X1. unfold K_mems. cbn [sec_tables sec_mems]. rewrite !app_nil_r. split; congruence.
  - destruct (reserve_data _ _ _) as [m1 i1] eqn:Ep. inversion E; subst; clear E. wcbn.
    apply reserve_data_F9 in Ep. frame_tm Ep.
  - inversion E; subst; clear E. wcbn. cbn [sec_tables sec_mems]. rewrite !app_nil_r. split; reflexivity.
  - pinv E as x Ex. destruct x as [m1 i1]. inversion E; subst; clear E. wcbn. unfold parse_data in Ex.
    apply parse_data_from_step in Ex. destruct Ex as [X1 X2]. f9 X1. unfold K_tables. cbn [sec_tables sec_mems].
    rewrite !app_nil_r. split; congruence.
  - inversion E; subst; clear E. cbn [sec_tables sec_mems]. rewrite !app_nil_r. unfold parse_custom.
    destruct c as [n d|n d|[n|]|[p|]]; wcbn; split; reflexivity.
Qed.

Theorem parse_secs_TM : forall w s s', parse_secs s w = POk s' ->
  K_tables (ps_m s') = K_tables (ps_m s) ++ flat_map sec_tables w /\
  K_mems (ps_m s') = K_mems (ps_m s) ++ flat_map sec_mems w.
Proof.
  induction w as [|x r IH]; intros s s' E; cbn [parse_secs flat_map] in *.
  - inversion E; subst. rewrite !app_nil_r. auto.
  - pinv E as s1 E1. apply IH in E. apply parse_sec_TM in E1. destruct E as [A1 A2], E1 as [B1 B2].
    rewrite A1, A2, B1, B2, <- !app_assoc. auto.
Qed.

(* ---------------------------------------------------------------- after the payload loop *)
Definition gcore (g : mglobal) : wglobalty * option mconst :=
  (gen_emit_global_local g, match gl_kind g with GK_Import _ => None | GK_Local c => Some c end).
Definition ecore (e : melem) : melemkind * melemitems := (el_kind e, el_items e).
Definition dcore (d : mdata) : mdatakind * list N := (da_kind d, da_value d).
Definition K_globals (m : wir) := map gcore (items (m_globals m)).
Definition K_elems (m : wir) := map ecore (items (m_elements m)).
Definition K_data (m : wir) := map dcore (items (m_data m)).
Definition K_funcs (m : wir) := map fn_kind (items (m_funcs m)).
(* everything structural except the function kinds (bodies are installed after the loop) *)
Definition KK (m : wir) :=
  (m_imports m, m_exports m, m_start m, K_tables m, K_mems m, K_globals m, K_elems m, K_data m).

Lemma F9_KK m m' : F9 m' = F9 (set_funcs m (m_funcs m')) -> KK m' = KK m.
Proof.
  intros H. f9 H. unfold KK, K_tables, K_mems, K_globals, K_elems, K_data. congruence.
Qed.
Lemma F9_KK0 m m' : F9 m' = F9 m -> KK m' = KK m /\ K_funcs m' = K_funcs m.
Proof.
  intros H. f9 H. unfold KK, K_tables, K_mems, K_globals, K_elems, K_data, K_funcs. split; congruence.
Qed.

Lemma add_locals_F9 : forall tys m ids fid pre m' ids' l, add_locals m ids fid tys pre = (m', ids', l) -> F9 m' = F9 m.
Proof.
  induction tys as [|t r IH]; intros m ids fid pre m' ids' l E; cbn [add_locals] in E; [inversion E; reflexivity|].
  wcbn. destruct (add_locals _ _ fid r pre) as [[m1 ids1] rest] eqn:Ea. inversion E; subst; clear E.
  apply IH in Ea. rewrite Ea. reflexivity.
Qed.
Lemma prepare_bodies_F9 : forall bs m ids ni i m' ids' ps, prepare_bodies m ids ni i bs = POk (m', ids', ps) -> F9 m' = F9 m.
Proof.
  induction bs as [|b r IH]; intros m ids ni i m' ids' ps E; cbn [prepare_bodies] in E; [inversion E; reflexivity|].
  pinv E as fid Efid. pinv E as f Ef. destruct (fn_kind f); try discriminate.
  pinv E as t Et.
  destruct (add_locals m ids fid (ty_params t) _) as [[m1 ids1] args] eqn:E1.
  destruct (types_insert m1 _) as [m2 tid] eqn:E2.
  destruct (add_locals m2 ids1 fid _ _) as [[m3 ids3] ls] eqn:E3.
  pinv E as x Ex. destruct x as [[m4 ids4] rest]. inversion E; subst; clear E.
  apply IH in Ex. rewrite Ex. apply add_locals_F9 in E3. rewrite E3.
  apply types_insert_dead in E2. destruct E2 as [E2 _]. rewrite E2.
  apply add_locals_F9 in E1. rewrite <- E1. reflexivity.
Qed.
Lemma install_bodies_F9 : forall ps m ids m', install_bodies m ids ps = POk m' -> F9 m' = F9 (set_funcs m (m_funcs m')).
Proof.
  induction ps as [|p r IH]; intros m ids m' E; cbn [install_bodies] in E; [inversion E; reflexivity|].
  pinv E as lf Elf. apply IH in E. rewrite E. reflexivity.
Qed.

Lemma apply_names_map {A B} (g : A -> B) (setn : A -> ModuleM.str -> A) (idx : list N) :
  (forall x n, g (setn x n) = g x) -> forall (l : namemap) (a : tarena A), map g (items (apply_names a idx setn l)) = map g (items a).
Proof.
  intros H. induction l as [|[i n] r IH]; intros a; cbn [apply_names]; [reflexivity|].
  destruct (nth_N idx i); [|apply IH]. rewrite IH. wcbn. apply upd_map. intros x. apply H.
Qed.
Lemma apply_local_names_F9 : forall l m ids m', apply_local_names m ids l = Some m' -> F9 m' = F9 m.
Proof.
  induction l as [|[fi names] r IH]; intros m ids m' E; cbn [apply_local_names] in E; [inversion E; reflexivity|].
  destruct (nth_N (ii_funcs ids) fi); [|apply IH in E; exact E]. apply IH in E. rewrite E. reflexivity.
Qed.

Lemma parse_names_KK m ids n : KK (parse_names m ids n) = KK m /\ K_funcs (parse_names m ids n) = K_funcs m.
Proof.
  unfold parse_names.
  set (m1 := match wn_module n with Some s => set_name m (Some s) | None => m end).
  assert (H1 : KK m1 = KK m /\ K_funcs m1 = K_funcs m) by (subst m1; destruct (wn_module n); split; reflexivity).
  clearbody m1. cbv zeta.
  match goal with |- context [apply_local_names ?mm _ _] => set (m2 := mm) end.
  assert (H2 : KK m2 = KK m1 /\ K_funcs m2 = K_funcs m1).
  { subst m2. split; [reflexivity|]. unfold K_funcs. wcbn. apply apply_names_map. reflexivity. }
  clearbody m2.
  destruct (apply_local_names m2 ids (wn_locals n)) as [m3|] eqn:E3; [|destruct H1, H2; split; congruence].
  apply apply_local_names_F9, F9_KK0 in E3. destruct E3 as [E3 E4], H1 as [H1 H1'], H2 as [H2 H2'].
  rewrite <- H1, <- H2, <- E3, <- H1', <- H2', <- E4. clear.
  unfold KK, K_funcs, K_tables, K_mems, K_globals, K_elems, K_data. wcbn.
  rewrite !apply_names_map by (intros; reflexivity). split; reflexivity.
Qed.

Definition pst0 (cf : config) : pst :=
  {| ps_m := empty_wir cf; ps_ids := empty_i2ids; ps_bodies := []; ps_names := []; ps_calls_on_parse := 0 |}.

(* parseM = the payload loop, then passes that leave the structural part alone *)
Theorem parseM_KK : forall cf ver w s, parseM cf ver w = POk s ->
  exists s1, parse_secs (pst0 cf) w = POk s1 /\ KK (ps_m s) = KK (ps_m s1).
Proof.
  intros cf ver w s E. unfold parseM in E. fold (pst0 cf) in E. pinv E as s1 E1. exists s1. split; [exact E1|].
  destruct (_ <? _)%N; [discriminate|].
  pinv E as x Ex. destruct x as [[m1 ids1] prepared]. pinv E as m2 E2. inversion E; subst; clear E. wcbn.
  apply prepare_bodies_F9, F9_KK0 in Ex. destruct Ex as [Ex _]. apply install_bodies_F9, F9_KK in E2.
  rewrite <- Ex, <- E2. clear.
  assert (H : forall l m, KK (fold_left (fun m n => parse_names m ids1 n) l m) = KK m).
  { induction l as [|n r IH]; intros m; cbn [fold_left]; [reflexivity|]. rewrite IH. apply parse_names_KK. }
  rewrite <- (H (ps_names s1) m2). reflexivity.
Qed.

Corollary parseM_tables : forall cf ver w s, parseM cf ver w = POk s ->
  K_tables (ps_m s) = flat_map sec_tables w /\ K_mems (ps_m s) = flat_map sec_mems w.
Proof.
  intros cf ver w s E. destruct (parseM_KK _ _ _ _ E) as [s1 [E1 EK]]. apply parse_secs_TM in E1.
  unfold KK in EK. injection EK; intros. destruct E1 as [A1 A2].
  change (K_tables (ps_m (pst0 cf))) with (@nil (wtable * bool)) in A1.
  change (K_mems (ps_m (pst0 cf))) with (@nil (wmem * bool)) in A2. cbn [app] in A1, A2. split; congruence.
Qed.

(* ---------------------------------------------------------------- emitM, taken apart *)
Lemma emitM_inv m ilen dw e : emitM m ilen dw = Ok e ->
  exists s_ty x1 s_im x2 s_fn x3 x4 x5 s_gl x6 s_ex s_st s_el x9 s_dc x10 s_co efs s_da rest,
    emit_types m empty_x2i = (s_ty, x1) /\ emit_imports m x1 = Ok (s_im, x2) /\ emit_func_section m x2 = Ok (s_fn, x3) /\
    x4 = snd (emit_tables m x3) /\ x5 = snd (emit_memories m x4) /\ emit_globals m x5 = Ok (s_gl, x6) /\
    emit_exports m x6 = Ok s_ex /\
    match m_start m with Some f => i <- get_idx x6 S_func f ;; Ok [S_Start i] | None => Ok [] end = Ok s_st /\
    emit_elements m x6 = Ok (s_el, x9) /\ emit_data_count m x9 = Ok (s_dc, x10) /\
    emit_code m x10 ilen = Ok (s_co, em_x2i e, efs) /\ emit_data m (em_x2i e) = Ok s_da /\
    em_secs e = s_ty ++ s_im ++ s_fn ++ fst (emit_tables m x3) ++ fst (emit_memories m x4) ++ s_gl ++ s_ex ++ s_st ++
                s_el ++ s_dc ++ s_co ++ s_da ++ rest.
Proof.
  intros H. unfold emitM, set_customs_take in H.
  destruct (emit_types m empty_x2i) as [s_ty x1] eqn:E1.
  rinv H as a2 E2. destruct a2 as [s_im x2].
  rinv H as a3 E3. destruct a3 as [s_fn x3].
  destruct (emit_tables m x3) as [s_tb x4] eqn:E4.
  destruct (emit_memories m x4) as [s_me x5] eqn:E5.
  rinv H as a6 E6. destruct a6 as [s_gl x6].
  rinv H as s_ex E7. rinv H as s_st E8.
  rinv H as a9 E9. destruct a9 as [s_el x9].
  rinv H as a10 E10. destruct a10 as [s_dc x10].
  rinv H as a11 E11. destruct a11 as [[s_co x11] efs].
  rinv H as s_da E12. rinv H as s_nm E13. inversion H; subst e; clear H. cbn [em_x2i em_secs].
  exists s_ty, x1, s_im, x2, s_fn, x3, x4, x5, s_gl, x6, s_ex, s_st, s_el, x9, s_dc, x10, s_co, efs, s_da.
  eexists. rewrite E4, E5. cbn [fst snd]. repeat split; try assumption.
Qed.

(* the emitters after the global section do not touch the func/table/memory/global/type maps *)
Lemma emitM_late_maps m x6 s_el x9 s_dc x10 ilen s_co x11 efs :
  emit_elements m x6 = Ok (s_el, x9) -> emit_data_count m x9 = Ok (s_dc, x10) -> emit_code m x10 ilen = Ok (s_co, x11, efs) ->
  forall S, S <> S_elem -> S <> S_data -> space_map x11 S = space_map x6 S.
Proof.
  intros E9 E10 E11 S H1 H2. rewrite (emit_code_x _ _ _ _ _ _ E11).
  apply emit_data_count_x in E10. apply emit_elements_x in E9. subst x9.
  rewrite E10. destruct (aiter (m_data m)).
  - apply push_all_other. congruence.
  - rewrite space_map_set_other by congruence. apply push_all_other. congruence.
Qed.

(* ---------------------------------------------------------------- 1. tables and memories *)
Definition tables_of (sec : wsec) : list wtable := match sec with S_Tables l => l | _ => [] end.
Definition mems_of (sec : wsec) : list wmem := match sec with S_Mems l => l | _ => [] end.

Lemma locals_of_tagged {W} (l : list W) : map fst (filter (fun c => negb (snd c)) (map (fun t => (t, false)) l)) = l.
Proof. induction l as [|x r IH]; [reflexivity|]. cbn. rewrite IH. reflexivity. Qed.
Lemma imports_of_tagged {W} (l : list W) : map fst (filter (fun c => negb (snd c)) (map (fun t => (t, true)) l)) = [].
Proof. induction l as [|x r IH]; [reflexivity|]. cbn. exact IH. Qed.

Lemma local_sec_tables : forall w, map fst (filter (fun c => negb (snd c)) (flat_map sec_tables w)) = flat_map tables_of w.
Proof.
  induction w as [|x r IH]; [reflexivity|]. cbn [flat_map]. rewrite filter_app, map_app, IH. f_equal.
  destruct x; try reflexivity; cbn [sec_tables tables_of]; [apply imports_of_tagged|apply locals_of_tagged].
Qed.
Lemma local_sec_mems : forall w, map fst (filter (fun c => negb (snd c)) (flat_map sec_mems w)) = flat_map mems_of w.
Proof.
  induction w as [|x r IH]; [reflexivity|]. cbn [flat_map]. rewrite filter_app, map_app, IH. f_equal.
  destruct x; try reflexivity; cbn [sec_mems mems_of]; [apply imports_of_tagged|apply locals_of_tagged].
Qed.

Lemma local_tables_core m : dead (m_tables m) = [] ->
  map (fun p => gen_emit_table_local (snd p)) (local_tables m) = map fst (filter (fun c => negb (snd c)) (K_tables m)).
Proof.
  intros D. unfold local_tables, K_tables. rewrite <- (aiter_nodead_snd _ D).
  induction (aiter (m_tables m)) as [|p r IH]; [reflexivity|]. cbn [filter map]. unfold tcore at 1. cbn [snd fst].
  destruct (tb_import (snd p)); cbn [isS negb map fst]; rewrite IH; reflexivity.
Qed.
Lemma local_memories_core m : dead (m_memories m) = [] ->
  map (fun p => gen_emit_memory_local (snd p)) (local_memories m) = map fst (filter (fun c => negb (snd c)) (K_mems m)).
Proof.
  intros D. unfold local_memories, K_mems. rewrite <- (aiter_nodead_snd _ D).
  induction (aiter (m_memories m)) as [|p r IH]; [reflexivity|]. cbn [filter map]. unfold mcore at 1. cbn [snd fst].
  destruct (me_import (snd p)); cbn [isS negb map fst]; rewrite IH; reflexivity.
Qed.

(* general form: the emitted table section is the concatenation of all input table sections
   (same attributes, same order); nothing from the import section leaks into it *)
Theorem structure_tables_gen : forall cf ver w s ilen dw e, parseM cf ver w = POk s -> emitM (ps_m s) ilen dw = Ok e ->
  flat_map tables_of w <> [] -> In (S_Tables (flat_map tables_of w)) (em_secs e).
Proof.
  intros cf ver w s ilen dw e Hp He Hne.
  pose proof (parseM_ids _ _ _ _ Hp) as Hid. destruct (parseM_tables _ _ _ _ Hp) as [HT _].
  destruct (emitM_inv _ _ _ _ He) as (s_ty & x1 & s_im & x2 & s_fn & x3 & x4 & x5 & s_gl & x6 & s_ex & s_st & s_el & x9 & s_dc & x10 & s_co & efs & s_da & rest & Ety & Eim & Efn & Ex4 & Ex5 & Egl & Eex & Est & Eel & Edc & Eco & Eda & Esecs).
  rewrite Esecs. rewrite emit_tables_entries.
  assert (D : dead (m_tables (ps_m s)) = []) by (unfold ids_consistent in Hid; tauto).
  pose proof (local_tables_core _ D) as L. rewrite HT, local_sec_tables in L.
  destruct (local_tables (ps_m s)) as [|p r] eqn:El; [cbn in L; congruence|].
  rewrite L. rewrite !in_app_iff. right; right; right; left. left. reflexivity.
Qed.
Theorem structure_mems_gen : forall cf ver w s ilen dw e, parseM cf ver w = POk s -> emitM (ps_m s) ilen dw = Ok e ->
  flat_map mems_of w <> [] -> In (S_Mems (flat_map mems_of w)) (em_secs e).
Proof.
  intros cf ver w s ilen dw e Hp He Hne.
  pose proof (parseM_ids _ _ _ _ Hp) as Hid. destruct (parseM_tables _ _ _ _ Hp) as [_ HT].
  destruct (emitM_inv _ _ _ _ He) as (s_ty & x1 & s_im & x2 & s_fn & x3 & x4 & x5 & s_gl & x6 & s_ex & s_st & s_el & x9 & s_dc & x10 & s_co & efs & s_da & rest & Ety & Eim & Efn & Ex4 & Ex5 & Egl & Eex & Est & Eel & Edc & Eco & Eda & Esecs).
  rewrite Esecs. rewrite emit_memories_entries.
  assert (D : dead (m_memories (ps_m s)) = []) by (unfold ids_consistent in Hid; tauto).
  pose proof (local_memories_core _ D) as L. rewrite HT, local_sec_mems in L.
  destruct (local_memories (ps_m s)) as [|p r] eqn:El; [cbn in L; congruence|].
  rewrite L. rewrite !in_app_iff. right; right; right; right; left. left. reflexivity.
Qed.

Theorem structure_tables : forall cf ver w s ilen dw e l, parseM cf ver w = POk s -> emitM (ps_m s) ilen dw = Ok e ->
  stream_wf w = true -> In (S_Tables l) w -> l <> [] -> In (S_Tables l) (em_secs e).
Proof.
  intros cf ver w s ilen dw e l Hp He Hwf Hin Hne.
  assert (E : flat_map tables_of w = l).
  { apply (once_flat_map tables_of 3) with (sec := S_Tables l); [|apply stream_wf_once; [exact Hwf|lia]|exact Hin|reflexivity].
    intros [] Hs; try reflexivity. discriminate. }
  rewrite <- E in *. eapply structure_tables_gen; eauto.
Qed.
Theorem structure_mems : forall cf ver w s ilen dw e l, parseM cf ver w = POk s -> emitM (ps_m s) ilen dw = Ok e ->
  stream_wf w = true -> In (S_Mems l) w -> l <> [] -> In (S_Mems l) (em_secs e).
Proof.
  intros cf ver w s ilen dw e l Hp He Hwf Hin Hne.
  assert (E : flat_map mems_of w = l).
  { apply (once_flat_map mems_of 4) with (sec := S_Mems l); [|apply stream_wf_once; [exact Hwf|lia]|exact Hin|reflexivity].
    intros [] Hs; try reflexivity. discriminate. }
  rewrite <- E in *. eapply structure_mems_gen; eauto.
Qed.

(* ====================================================================================== *)
(* the composite renumbering                                                               *)
(* ====================================================================================== *)
Definition ids_space (ids : i2ids) (S : space) : list N :=
  match S with S_func => ii_funcs ids | S_type => ii_types ids | S_table => ii_tables ids | S_memory => ii_memories ids
             | S_global => ii_globals ids | S_data => ii_data ids | S_elem => ii_elements ids | S_local => [] end.
(* rho S i = the emitted index of the entity that input index i of space S denotes *)
Definition rho (s : pst) (e : emitted) (S : space) (i : N) : res N :=
  match nth_error (ids_space (ps_ids s) S) (N.to_nat i) with Some id => get_idx (em_x2i e) S id | None => Panic end.

Lemma iota_nth_inv n k v : nth_error (iota n) k = Some v -> v = N.of_nat k /\ k < n.
Proof.
  intros H. assert (L : k < n) by (rewrite <- (iota_length n); apply nth_error_Some; congruence).
  rewrite iota_nth in H by exact L. split; [congruence|exact L].
Qed.
Lemma nth_N_iota n i v : nth_N (iota n) i = Some v -> v = i.
Proof. unfold nth_N. intros H. apply iota_nth_inv in H. destruct H as [H _]. rewrite N2Nat.id in H. exact H. Qed.

Lemma idc_space m ids S : ids_consistent m ids -> S <> S_type -> S <> S_local -> exists n, ids_space ids S = iota n.
Proof. intros H H1 H2. unfold ids_consistent in H. decompose [and] H. destruct S; cbn [ids_space]; try congruence; eauto. Qed.

(* outside the type space the parse-time id of input index i IS i (parseM_ids), so rho is just the
   emit-time map applied to the input index; the theorems below are stated with [get_idx (em_x2i e) S i] *)
Lemma rho_entity s e S i : ids_consistent (ps_m s) (ps_ids s) -> S <> S_type -> S <> S_local ->
  forall j, rho s e S i = Ok j -> get_idx (em_x2i e) S i = Ok j.
Proof.
  intros H H1 H2 j. unfold rho. destruct (idc_space _ _ S H H1 H2) as [n En]. rewrite En.
  destruct (nth_error (iota n) (N.to_nat i)) as [id|] eqn:E; [|discriminate].
  apply iota_nth_inv in E. destruct E as [E _]. rewrite N2Nat.id in E. subst id. auto.
Qed.
Lemma rho_entity_conv s e S i : ids_consistent (ps_m s) (ps_ids s) -> S <> S_type -> S <> S_local ->
  N.to_nat i < length (ids_space (ps_ids s) S) ->
  rho s e S i = get_idx (em_x2i e) S i.
Proof.
  intros H H1 H2 L. unfold rho. destruct (idc_space _ _ S H H1 H2) as [n En]. rewrite En in *.
  rewrite iota_length in L. rewrite iota_nth by exact L. rewrite N2Nat.id. reflexivity.
Qed.

(* ====================================================================================== *)
(* constants, globals, exports, start                                                      *)
(* ====================================================================================== *)
Definition cst0 (c : wconst) : mconst :=
  match c with
  | WC_I32 z => MC_Value (V_I32 z) | WC_I64 z => MC_Value (V_I64 z) | WC_F32 b => MC_Value (V_F32 b)
  | WC_F64 b => MC_Value (V_F64 b) | WC_V128 b => MC_Value (V_V128 b) | WC_GlobalGet i => MC_Global i
  | WC_RefNull t => MC_RefNull t | WC_RefFunc i => MC_RefFunc i | WC_Other => MC_Value (V_I32 0%Z)
  end.
Lemma eval_const_cst0 ids c o : (exists n, ii_globals ids = iota n) -> (exists n, ii_funcs ids = iota n) ->
  eval_const ids c = POk o -> o = cst0 c.
Proof.
  intros [ng Hg] [nf Hf] E. destruct c; cbn [eval_const cst0] in *; try (inversion E; reflexivity).
  - pinv E as rg Erg. apply of_opt_err_ok in Erg. rewrite Hg in Erg. apply nth_N_iota in Erg. subst. inversion E; reflexivity.
  - pinv E as rg Erg. apply of_opt_err_ok in Erg. rewrite Hf in Erg. apply nth_N_iota in Erg. subst. inversion E; reflexivity.
Qed.
(* the emitted constant is the input constant with global.get / ref.func renamed by the emit-time maps *)
Definition ren_const (x : x2i) (c wc : wconst) : Prop :=
  match c with
  | WC_GlobalGet i => exists j, get_idx x S_global i = Ok j /\ wc = WC_GlobalGet j
  | WC_RefFunc i => exists j, get_idx x S_func i = Ok j /\ wc = WC_RefFunc j
  | WC_Other => True
  | _ => wc = c
  end.
Lemma emit_const_ren x c wc : emit_const x (cst0 c) = Ok wc -> ren_const x c wc.
Proof.
  destruct c; cbn [cst0 emit_const ren_const]; intros H; try (inversion H; reflexivity); try exact I.
  - destruct (get_idx x S_global i) as [j| |]; cbn in H; inversion H. eauto.
  - destruct (get_idx x S_func i) as [j| |]; cbn in H; inversion H. eauto.
Qed.
Lemma ren_const_maps x x' c wc : space_map x' S_global = space_map x S_global -> space_map x' S_func = space_map x S_func ->
  ren_const x c wc -> ren_const x' c wc.
Proof. intros H1 H2. unfold ren_const, get_idx. rewrite H1, H2. auto. Qed.

Definition imp_globals_w (l : list wimport) : list wglobalty :=
  flat_map (fun i => match wi_kind i with WI_Global t => [t] | _ => [] end) l.
Definition sec_globals (sec : wsec) : list (wglobalty * option mconst) :=
  match sec with
  | S_Globals l => map (fun gc_sweep => (fst gc_sweep, Some (cst0 (snd gc_sweep)))) l
  | S_Imports l => map (fun g => (g, None)) (imp_globals_w l)
  | _ => [] end.
Definition exp_of (e : wexport) : mexport := {| ex_name := we_name e; ex_kind := we_kind e; ex_item := we_index e |}.
Definition sec_exports (sec : wsec) : list mexport := match sec with S_Exports l => map exp_of l | _ => [] end.
Definition sec_start (sec : wsec) (o : option N) : option N := match sec with S_Start f => Some f | _ => o end.

Lemma gcore_imp_globals : forall l base, map gcore (imp_globals base l) = map (fun t => (t, None)) (imp_globals_w l).
Proof.
  induction l as [|i r IH]; intros base; [reflexivity|]. cbn [imp_globals imp_globals_w flat_map].
  fold (imp_globals_w r). rewrite !map_app, IH. f_equal. destruct (wi_kind i); try reflexivity.
  cbn [map]. unfold gcore. destruct g; reflexivity.
Qed.

Lemma parse_globals_spec : forall l m ids m' ids',
  ii_globals ids = iota (length (items (m_globals m))) -> (exists n, ii_funcs ids = iota n) ->
  parse_globals m ids l = POk (m', ids') ->
  K_globals m' = K_globals m ++ map (fun gc_sweep => (fst gc_sweep, Some (cst0 (snd gc_sweep)))) l.
Proof.
  induction l as [|[g c] r IH]; intros m ids m' ids' Hg Hf E; cbn [parse_globals] in E.
  - inversion E; subst. rewrite app_nil_r. reflexivity.
  - pinv E as init Ei. apply eval_const_cst0 in Ei; [|eauto|exact Hf]. subst init. wcbn. apply IH in E.
    + rewrite E. unfold K_globals. wcbn. rewrite map_app, <- app_assoc. cbn [map app fst snd]. do 2 f_equal.
      destruct g; reflexivity.
    + wcbn. rewrite Hg. unfold anext, next_id. rewrite app_length. cbn [length]. rewrite Nat.add_1_r, iota_S. reflexivity.
    + wcbn. exact Hf.
Qed.
Lemma parse_exports_spec : forall l m ids m', (forall k, exists n, ids_of_kind ids k = iota n) ->
  parse_exports m ids l = POk m' -> items (m_exports m') = items (m_exports m) ++ map exp_of l.
Proof.
  induction l as [|e r IH]; intros m ids m' Hk E; cbn [parse_exports] in E.
  - inversion E; subst. rewrite app_nil_r. reflexivity.
  - pinv E as item Ei. apply of_opt_err_ok in Ei. destruct (Hk (we_kind e)) as [n Hn]. rewrite Hn in Ei.
    apply nth_N_iota in Ei. subst item. wcbn. apply IH in E; [|exact Hk]. rewrite E. wcbn.
    rewrite <- app_assoc. reflexivity.
Qed.
Lemma idc_kinds m ids : ids_consistent m ids -> forall k, exists n, ids_of_kind ids k = iota n.
Proof. intros H k. unfold ids_consistent in H. decompose [and] H. destruct k; cbn [ids_of_kind]; eauto. Qed.

Ltac frame_ges H :=
  f9 H; unfold K_globals; cbn [sec_globals sec_exports sec_start]; rewrite ?app_nil_r; repeat split; congruence.

Lemma parse_sec_GES s sec s' : ids_consistent (ps_m s) (ps_ids s) -> parse_sec s sec = POk s' ->
  K_globals (ps_m s') = K_globals (ps_m s) ++ sec_globals sec /\
  items (m_exports (ps_m s')) = items (m_exports (ps_m s)) ++ sec_exports sec /\
  m_start (ps_m s') = sec_start sec (m_start (ps_m s)).
Proof.
  intros Hid E. unfold parse_sec in E. destruct sec.
  - destruct (parse_types _ _ _) as [m1 i1] eqn:Ep. inversion E; subst; clear E. wcbn.
    apply parse_types_F9 in Ep. frame_ges Ep.
  - pinv E as x Ex. destruct x as [m1 i1]. inversion E; subst; clear E. wcbn.
    pose proof (parse_imports_F9 _ _ _ _ _ Ex) as (F1 & F2 & F3 & F4).
    apply parse_imports_spec in Ex. cbv zeta in Ex. destruct Ex as (_ & _ & X3 & _).
    unfold K_globals. cbn [sec_globals sec_exports sec_start]. rewrite X3, !map_app, gcore_imp_globals, F1, F4, app_nil_r. auto.
  - pinv E as x Ex. destruct x as [m1 i1]. inversion E; subst; clear E. wcbn. apply parse_funcs_F9 in Ex. frame_ges Ex.
  - destruct (parse_tables _ _ _) as [m1 i1] eqn:Ep. inversion E; subst; clear E. wcbn. apply parse_tables_F9 in Ep. frame_ges Ep.
  - destruct (parse_mems _ _ _) as [m1 i1] eqn:Ep. inversion E; subst; clear E. wcbn. apply parse_mems_F9 in Ep. frame_ges Ep.
  - pinv E as x Ex. destruct x as [m1 i1]. inversion E; subst; clear E. wcbn.
    pose proof (parse_globals_F9 _ _ _ _ _ Ex) as F. apply parse_globals_spec in Ex.
    + f9 F. cbn [sec_globals sec_exports sec_start]. rewrite Ex, app_nil_r. repeat split; congruence.
    + unfold ids_consistent in Hid. tauto.
    + unfold ids_consistent in Hid. decompose [and] Hid. eauto.
  - pinv E as x Ex. inversion E; subst; clear E. wcbn.
    pose proof (parse_exports_F9 _ _ _ _ Ex) as F. apply parse_exports_spec in Ex; [|apply (idc_kinds _ _ Hid)].
    f9 F. unfold K_globals. cbn [sec_globals sec_exports sec_start]. rewrite Ex, app_nil_r. repeat split; congruence.
  - pinv E as x Ex. inversion E; subst; clear E. wcbn. cbn [sec_globals sec_exports sec_start]. rewrite !app_nil_r.
    apply of_opt_err_ok in Ex. unfold ids_consistent in Hid. decompose [and] Hid. rewrite H in Ex. apply nth_N_iota in Ex. subst.
    repeat split; reflexivity.
  - pinv E as x Ex. destruct x as [m1 i1]. inversion E; subst; clear E. wcbn. apply parse_elems_step in Ex.
    destruct Ex as [X1 X2]. frame_ges X1.
  - destruct (reserve_data _ _ _) as [m1 i1] eqn:Ep. inversion E; subst; clear E. wcbn. apply reserve_data_F9 in Ep. frame_ges Ep.
  - inversion E; subst; clear E. wcbn. cbn [sec_globals sec_exports sec_start]. rewrite !app_nil_r. repeat split; reflexivity.
  - pinv E as x Ex. destruct x as [m1 i1]. inversion E; subst; clear E. wcbn. unfold parse_data in Ex.
    apply parse_data_from_step in Ex. destruct Ex as [X1 X2]. frame_ges X1.
  - inversion E; subst; clear E. cbn [sec_globals sec_exports sec_start]. rewrite !app_nil_r. unfold parse_custom.
    destruct c as [n d|n d|[n|]|[p|]]; wcbn; repeat split; reflexivity.
Qed.

Theorem parse_secs_GES : forall w s s', ids_consistent (ps_m s) (ps_ids s) -> parse_secs s w = POk s' ->
  K_globals (ps_m s') = K_globals (ps_m s) ++ flat_map sec_globals w /\
  items (m_exports (ps_m s')) = items (m_exports (ps_m s)) ++ flat_map sec_exports w /\
  m_start (ps_m s') = fold_left (fun o sec => sec_start sec o) w (m_start (ps_m s)).
Proof.
  induction w as [|x r IH]; intros s s' Hid E; cbn [parse_secs flat_map fold_left] in *.
  - inversion E; subst. rewrite !app_nil_r. auto.
  - pinv E as s1 E1. pose proof (parse_sec_idc _ _ _ Hid E1) as Hid1. apply IH in E; [|exact Hid1].
    apply parse_sec_GES in E1; [|exact Hid]. destruct E as (A1 & A2 & A3), E1 as (B1 & B2 & B3).
    rewrite A1, A2, A3, B1, B2, B3, <- !app_assoc. auto.
Qed.

Corollary parseM_GES : forall cf ver w s, parseM cf ver w = POk s ->
  K_globals (ps_m s) = flat_map sec_globals w /\
  items (m_exports (ps_m s)) = flat_map sec_exports w /\
  m_start (ps_m s) = fold_left (fun o sec => sec_start sec o) w None.
Proof.
  intros cf ver w s E. destruct (parseM_KK _ _ _ _ E) as [s1 [E1 EK]]. apply parse_secs_GES in E1; [|apply idc_empty].
  unfold KK in EK. injection EK; intros. destruct E1 as (A1 & A2 & A3).
  change (K_globals (ps_m (pst0 cf))) with (@nil (wglobalty * option mconst)) in A1.
  change (items (m_exports (ps_m (pst0 cf)))) with (@nil mexport) in A2.
  change (m_start (ps_m (pst0 cf))) with (@None N) in A3. cbn [app] in A1, A2. repeat split; congruence.
Qed.

(* ---------------------------------------------------------------- list helpers for the emit side *)
Lemma Forall2_map_l {A B C} (f : A -> B) (R : B -> C -> Prop) : forall l l',
  Forall2 R (map f l) l' <-> Forall2 (fun a c => R (f a) c) l l'.
Proof.
  induction l as [|a r IH]; intros l'; split; intros H; cbn [map] in *; inversion H; subst; constructor; auto;
    apply IH; assumption.
Qed.
Lemma Forall2_impl {A B} (R R' : A -> B -> Prop) : (forall a b, R a b -> R' a b) -> forall l l', Forall2 R l l' -> Forall2 R' l l'.
Proof. intros H l l' F. induction F; constructor; auto. Qed.
Lemma Forall2_length {A B} (R : A -> B -> Prop) l l' : Forall2 R l l' -> length l = length l'.
Proof. induction 1; cbn; congruence. Qed.

Ltac emitM_parts He :=
  destruct (emitM_inv _ _ _ _ He) as (s_ty & x1 & s_im & x2 & s_fn & x3 & x4 & x5 & s_gl & x6 & s_ex & s_st & s_el & x9 & s_dc & x10 & s_co & efs & s_da & rest & Ety & Eim & Efn & Ex4 & Ex5 & Egl & Eex & Est & Eel & Edc & Eco & Eda & Esecs).

(* ---------------------------------------------------------------- 5. start *)
Lemma no_tag_start : forall w o, filter (has_tag 7) w = [] -> fold_left (fun o sec => sec_start sec o) w o = o.
Proof.
  induction w as [|x r IH]; intros o H; [reflexivity|]. cbn [filter fold_left] in *.
  destruct (has_tag 7 x) eqn:Ex; [discriminate|]. rewrite IH by exact H. destruct x; try reflexivity. discriminate.
Qed.
Lemma once_start : forall w f o, once 7 w -> In (S_Start f) w -> fold_left (fun o sec => sec_start sec o) w o = Some f.
Proof.
  unfold once, tag_count. induction w as [|x r IH]; intros f o Ho Hin; [destruct Hin|].
  cbn [filter fold_left] in *. destruct (has_tag 7 x) eqn:Ex.
  - cbn [length] in Ho. assert (Hr : filter (has_tag 7) r = []) by (destruct (filter (has_tag 7) r); [reflexivity|cbn in Ho; lia]).
    rewrite no_tag_start by exact Hr. destruct Hin as [->|Hin]; [reflexivity|].
    exfalso. assert (Hi : In (S_Start f) (filter (has_tag 7) r)) by (apply filter_In; auto). rewrite Hr in Hi. destruct Hi.
  - destruct Hin as [->|Hin]; [discriminate|]. replace (sec_start x o) with o by (destruct x; try reflexivity; discriminate).
    apply IH; assumption.
Qed.

(* general: the start function is the one named by the LAST start payload *)
Theorem structure_start_gen : forall cf ver w s ilen dw e f, parseM cf ver w = POk s -> emitM (ps_m s) ilen dw = Ok e ->
  fold_left (fun o sec => sec_start sec o) w None = Some f ->
  exists f', get_idx (em_x2i e) S_func f = Ok f' /\ In (S_Start f') (em_secs e).
Proof.
  intros cf ver w s ilen dw e f Hp He Hf. destruct (parseM_GES _ _ _ _ Hp) as (_ & _ & HS). rewrite Hf in HS.
  emitM_parts He. rewrite HS in Est. rinv Est as i Ei. inversion Est; subst s_st; clear Est. exists i. split.
  - unfold get_idx in *. rewrite (emitM_late_maps _ _ _ _ _ _ _ _ _ _ Eel Edc Eco) by discriminate. exact Ei.
  - rewrite Esecs, !in_app_iff. do 7 right. left. left. reflexivity.
Qed.
Theorem structure_start : forall cf ver w s ilen dw e f, parseM cf ver w = POk s -> emitM (ps_m s) ilen dw = Ok e ->
  stream_wf w = true -> In (S_Start f) w ->
  exists f', get_idx (em_x2i e) S_func f = Ok f' /\ In (S_Start f') (em_secs e).
Proof.
  intros cf ver w s ilen dw e f Hp He Hwf Hin. eapply structure_start_gen; eauto.
  apply once_start; [apply stream_wf_once; [exact Hwf|lia]|exact Hin].
Qed.
(* no start payload: the start emitter contributes nothing *)
Theorem structure_start_none : forall cf ver w s, parseM cf ver w = POk s ->
  (forall f, ~ In (S_Start f) w) -> m_start (ps_m s) = None.
Proof.
  intros cf ver w s Hp Hn. destruct (parseM_GES _ _ _ _ Hp) as (_ & _ & HS). rewrite HS. apply no_tag_start.
  clear - Hn. induction w as [|x r IH]; [reflexivity|]. cbn [filter].
  destruct (has_tag 7 x) eqn:Ex.
  - destruct x; try discriminate. exfalso. apply (Hn f). left. reflexivity.
  - apply IH. intros f Hf. apply (Hn f). right. exact Hf.
Qed.

(* ---------------------------------------------------------------- 4. exports *)
Definition exports_of (sec : wsec) : list wexport := match sec with S_Exports l => l | _ => [] end.
Lemma sec_exports_of : forall w, flat_map sec_exports w = map exp_of (flat_map exports_of w).
Proof.
  induction w as [|x r IH]; [reflexivity|]. cbn [flat_map]. rewrite map_app, IH. f_equal. destruct x; reflexivity.
Qed.
Definition export_rt (e : emitted) (wi wo : wexport) : Prop :=
  we_name wo = we_name wi /\ we_kind wo = we_kind wi /\
  get_idx (em_x2i e) (kind_space (we_kind wi)) (we_index wi) = Ok (we_index wo).

Theorem structure_exports_gen : forall cf ver w s ilen dw e, parseM cf ver w = POk s -> emitM (ps_m s) ilen dw = Ok e ->
  flat_map exports_of w <> [] ->
  exists es, In (S_Exports es) (em_secs e) /\ Forall2 (export_rt e) (flat_map exports_of w) es.
Proof.
  intros cf ver w s ilen dw e Hp He Hne. destruct (parseM_GES _ _ _ _ Hp) as (_ & HE & _).
  pose proof (parseM_ids _ _ _ _ Hp) as Hid.
  assert (D : dead (m_exports (ps_m s)) = []) by (unfold ids_consistent in Hid; tauto).
  emitM_parts He. unfold emit_exports in Eex. rewrite (aiter_nodead_snd _ D), HE, sec_exports_of in Eex.
  destruct (flat_map exports_of w) as [|we0 wes] eqn:Ew; [congruence|]. cbn [map] in Eex.
  rinv Eex as es Ees. inversion Eex; subst s_ex; clear Eex. exists es. split.
  - rewrite Esecs, !in_app_iff. do 6 right. left. left. reflexivity.
  - apply rmapM_ok_inv in Ees. change (exp_of we0 :: map exp_of wes) with (map exp_of (we0 :: wes)) in Ees.
    apply Forall2_map_l in Ees. eapply Forall2_impl; [|exact Ees]. clear Ees. cbn beta. intros a b H.
    rinv H as i Ei. inversion H; subst b; clear H. cbn [exp_of ex_kind ex_item ex_name] in *. unfold export_rt. cbn [we_name we_kind we_index].
    split; [reflexivity|]. split; [reflexivity|]. unfold get_idx in *.
    rewrite (emitM_late_maps _ _ _ _ _ _ _ _ _ _ Eel Edc Eco) by (destruct (we_kind a); discriminate). exact Ei.
Qed.
Theorem structure_exports : forall cf ver w s ilen dw e l, parseM cf ver w = POk s -> emitM (ps_m s) ilen dw = Ok e ->
  stream_wf w = true -> In (S_Exports l) w -> l <> [] ->
  exists es, In (S_Exports es) (em_secs e) /\ Forall2 (export_rt e) l es.
Proof.
  intros cf ver w s ilen dw e l Hp He Hwf Hin Hne.
  assert (E : flat_map exports_of w = l).
  { apply (once_flat_map exports_of 6) with (sec := S_Exports l); [|apply stream_wf_once; [exact Hwf|lia]|exact Hin|reflexivity].
    intros [] Hs; try reflexivity. discriminate. }
  rewrite <- E in *. eapply structure_exports_gen; eauto.
Qed.

(* ---------------------------------------------------------------- 3. globals *)
Definition globals_of (sec : wsec) : list (wglobalty * wconst) := match sec with S_Globals l => l | _ => [] end.
Definition defined (k : wglobalty * option mconst) : list (wglobalty * mconst) :=
  match snd k with Some c => [(fst k, c)] | None => [] end.
Lemma sec_globals_of : forall w,
  flat_map defined (flat_map sec_globals w) = map (fun gc_sweep => (fst gc_sweep, cst0 (snd gc_sweep))) (flat_map globals_of w).
Proof.
  induction w as [|x r IH]; [reflexivity|]. cbn [flat_map]. rewrite flat_map_app, map_app, IH. f_equal.
  destruct x; try reflexivity; cbn [sec_globals globals_of].
  - induction (imp_globals_w is_) as [|a l IHl]; [reflexivity|]. exact IHl.
  - induction gs as [|a l IHl]; [reflexivity|]. cbn [map flat_map defined snd fst app]. rewrite <- IHl. reflexivity.
Qed.
Lemma local_globals_core m : dead (m_globals m) = [] ->
  map (fun t => (gen_emit_global_local (snd (fst t)), snd t)) (local_globals m) = flat_map defined (K_globals m).
Proof.
  intros D. unfold local_globals, K_globals. rewrite <- (aiter_nodead_snd _ D).
  induction (aiter (m_globals m)) as [|p r IH]; [reflexivity|]. cbn [flat_map map]. unfold gcore at 1, defined at 1. cbn [snd fst].
  rewrite map_app, IH. destruct (gl_kind (snd p)); reflexivity.
Qed.

Definition x_le (x x' : x2i) : Prop := forall S id i, get_idx x S id = Ok i -> get_idx x' S id = Ok i.
Lemma x_le_refl x : x_le x x. Proof. intros S id i H; exact H. Qed.
Lemma x_le_push x S id : x_le x (push_idx x S id).
Proof.
  intros S' id' i H. destruct S, S'; try exact H; unfold get_idx in *; cbn [push_idx set_space space_map] in *;
    apply pushed_lookup_old; exact H.
Qed.
Lemma x_le_trans x y z : x_le x y -> x_le y z -> x_le x z.
Proof. intros H1 H2 S id i H. apply H2, H1, H. Qed.
Lemma emit_const_mono x x' c wc : x_le x x' -> emit_const x c = Ok wc -> emit_const x' c = Ok wc.
Proof.
  intros L. destruct c as [v|g|t|f]; cbn [emit_const]; try (intros H; exact H).
  - destruct (get_idx x S_global g) as [j| |] eqn:E; cbn [rmap]; try discriminate. rewrite (L _ _ _ E). auto.
  - destruct (get_idx x S_func f) as [j| |] eqn:E; cbn [rmap]; try discriminate. rewrite (L _ _ _ E). auto.
Qed.
Lemma globals_go_entries' : forall l x r, globals_go l x = Ok r ->
  x_le x (snd r) /\
  Forall2 (fun t g => fst g = gen_emit_global_local (snd (fst t)) /\ emit_const (snd r) (snd t) = Ok (snd g)) l (fst r).
Proof.
  induction l as [|[[id g] c] l IH]; intros x r H; cbn [globals_go] in H.
  - inversion H; subst. split; [apply x_le_refl|constructor].
  - fold globals_go in H. rinv H as wc Ewc. rinv H as b Eb. inversion H; subst; clear H. cbn [fst snd].
    apply IH in Eb. destruct Eb as [L F]. split; [eapply x_le_trans; [apply x_le_push|exact L]|].
    constructor; [|exact F]. cbn [fst snd]. split; [reflexivity|]. eapply emit_const_mono; eauto.
Qed.

Definition global_rt (e : emitted) (wi wo : wglobalty * wconst) : Prop :=
  fst wo = fst wi /\ ren_const (em_x2i e) (snd wi) (snd wo).

Theorem structure_globals_gen : forall cf ver w s ilen dw e, parseM cf ver w = POk s -> emitM (ps_m s) ilen dw = Ok e ->
  flat_map globals_of w <> [] ->
  exists gs, In (S_Globals gs) (em_secs e) /\ Forall2 (global_rt e) (flat_map globals_of w) gs.
Proof.
  intros cf ver w s ilen dw e Hp He Hne. destruct (parseM_GES _ _ _ _ Hp) as (HG & _ & _).
  pose proof (parseM_ids _ _ _ _ Hp) as Hid.
  assert (D : dead (m_globals (ps_m s)) = []) by (unfold ids_consistent in Hid; tauto).
  pose proof (local_globals_core _ D) as L. rewrite HG, sec_globals_of in L.
  emitM_parts He. rewrite emit_globals_unfold in Egl.
  destruct (local_globals (ps_m s)) as [|p0 ps] eqn:El.
  { cbn [map] in L. destruct (flat_map globals_of w); [congruence|discriminate]. }
  rewrite <- El in *. clear El p0 ps. rinv Egl as r Er. inversion Egl; subst s_gl x6; clear Egl.
  exists (fst r). split; [rewrite Esecs, !in_app_iff; do 5 right; left; left; reflexivity|].
  apply globals_go_entries' in Er. destruct Er as [_ F].
  assert (F' : Forall2 (fun p g => fst g = fst p /\ emit_const (snd r) (snd p) = Ok (snd g))
                 (map (fun t => (gen_emit_global_local (snd (fst t)), snd t)) (local_globals (ps_m s))) (fst r)).
  { apply Forall2_map_l. eapply Forall2_impl; [|exact F]. cbn beta. intros a b H. exact H. }
  rewrite L in F'. apply Forall2_map_l in F'. eapply Forall2_impl; [|exact F']. cbn beta. intros a b [H1 H2]. cbn [fst snd] in *.
  split; [exact H1|]. apply emit_const_ren in H2.
  eapply ren_const_maps; [| |exact H2]; apply (emitM_late_maps _ _ _ _ _ _ _ _ _ _ Eel Edc Eco); discriminate.
Qed.
Theorem structure_globals : forall cf ver w s ilen dw e l, parseM cf ver w = POk s -> emitM (ps_m s) ilen dw = Ok e ->
  stream_wf w = true -> In (S_Globals l) w -> l <> [] ->
  exists gs, In (S_Globals gs) (em_secs e) /\ Forall2 (global_rt e) l gs.
Proof.
  intros cf ver w s ilen dw e l Hp He Hwf Hin Hne.
  assert (E : flat_map globals_of w = l).
  { apply (once_flat_map globals_of 5) with (sec := S_Globals l); [|apply stream_wf_once; [exact Hwf|lia]|exact Hin|reflexivity].
    intros [] Hs; try reflexivity. discriminate. }
  rewrite <- E in *. eapply structure_globals_gen; eauto.
Qed.

(* ====================================================================================== *)
(* 2. imports (and the function kinds / type ids they rely on)                              *)
(* ====================================================================================== *)
Definition fkcore (k : mfunckind) : N * bool :=
  match k with FK_Import _ ty => (ty, true) | FK_Local lf => (lf_ty lf, false) | FK_Uninit ty => (ty, false) end.
Definition fcore (f : mfunc) : N * bool := fkcore (fn_kind f).
Definition K_fty (m : wir) : list (N * bool) := map fcore (items (m_funcs m)).
Lemma K_fty_funcs m : K_fty m = map fkcore (K_funcs m).
Proof. unfold K_fty, K_funcs. rewrite map_map. reflexivity. Qed.
Lemma fcore_ty f : fst (fcore f) = func_ty f.
Proof. unfold fcore, func_ty. destruct (fn_kind f); reflexivity. Qed.

Lemma nth_app_last {A} (l : list A) x : nth_error (l ++ [x]) (length l) = Some x.
Proof. induction l as [|a l IH]; [reflexivity|exact IH]. Qed.
Lemma nth_error_app_some {A} (l a : list A) n x : nth_error l n = Some x -> nth_error (l ++ a) n = Some x.
Proof. intros H. rewrite nth_error_app1; [exact H|]. apply nth_error_Some. congruence. Qed.
Lemma aget_nth {A} (a : tarena A) id v : aget a id = Some v -> nth_error (items a) (N.to_nat id) = Some v.
Proof. unfold aget, index, get. destruct (is_dead a (N.to_nat id)); congruence. Qed.
Lemma upd_map_at {A B} (g : A -> B) (f : A -> A) : forall (l : list A) n,
  (forall x, nth_error l n = Some x -> g (f x) = g x) -> map g (Arena.upd l n f) = map g l.
Proof.
  induction l as [|x r IH]; intros n H; [destruct n; reflexivity|].
  destruct n; cbn [Arena.upd map].
  - rewrite H by reflexivity. reflexivity.
  - rewrite IH; [reflexivity|]. intros y Hy. apply H. exact Hy.
Qed.

(* --- ii_types is only touched by the type section, and only by appending *)
Lemma parse_types_ty : forall ts m ids m' ids', parse_types m ids ts = (m', ids') -> exists a, ii_types ids' = ii_types ids ++ a.
Proof.
  induction ts as [|[ps rs] r IH]; intros m ids m' ids' E; cbn [parse_types] in E.
  - inversion E; subst. exists []. rewrite app_nil_r. reflexivity.
  - destruct (types_insert m _) as [m1 id]. apply IH in E. wcbn. destruct E as [a Ea]. exists (id :: a).
    rewrite Ea, <- app_assoc. reflexivity.
Qed.
Lemma parse_funcs_ty : forall l m ids m' ids', parse_funcs m ids l = POk (m', ids') -> ii_types ids' = ii_types ids.
Proof.
  induction l as [|i r IH]; intros m ids m' ids' E; cbn [parse_funcs] in E; [inversion E; reflexivity|].
  pinv E as t Et. wcbn. apply IH in E. exact E.
Qed.
Lemma parse_tables_ty : forall l m ids m' ids', parse_tables m ids l = (m', ids') -> ii_types ids' = ii_types ids.
Proof.
  induction l as [|i r IH]; intros m ids m' ids' E; cbn [parse_tables] in E; [inversion E; reflexivity|].
  wcbn. apply IH in E. exact E.
Qed.
Lemma parse_mems_ty : forall l m ids m' ids', parse_mems m ids l = (m', ids') -> ii_types ids' = ii_types ids.
Proof.
  induction l as [|i r IH]; intros m ids m' ids' E; cbn [parse_mems] in E; [inversion E; reflexivity|].
  wcbn. apply IH in E. exact E.
Qed.
Lemma parse_globals_ty : forall l m ids m' ids', parse_globals m ids l = POk (m', ids') -> ii_types ids' = ii_types ids.
Proof.
  induction l as [|[g c] r IH]; intros m ids m' ids' E; cbn [parse_globals] in E; [inversion E; reflexivity|].
  pinv E as t Et. wcbn. apply IH in E. exact E.
Qed.
Lemma parse_elems_ty : forall l m ids m' ids', parse_elems m ids l = POk (m', ids') -> ii_types ids' = ii_types ids.
Proof.
  induction l as [|e r IH]; intros m ids m' ids' E; cbn [parse_elems] in E; [inversion E; reflexivity|].
  pinv E as x Ex. destruct x as [m1 ids1]. apply IH in E. wcbn. rewrite E. clear E IH.
  unfold parse_elem in Ex. pinv Ex as its Eits. pinv Ex as mk Emk. destruct mk as [m2 kind].
  wcbn. inversion Ex; subst; reflexivity.
Qed.
Lemma reserve_data_ty : forall n m ids m' ids', reserve_data m ids n = (m', ids') -> ii_types ids' = ii_types ids.
Proof.
  induction n as [|n IH]; intros m ids m' ids' E; cbn [reserve_data] in E; [inversion E; reflexivity|].
  wcbn. apply IH in E. exact E.
Qed.
Lemma parse_data_from_ty : forall l m ids pre i m' ids', parse_data_from m ids pre i l = POk (m', ids') -> ii_types ids' = ii_types ids.
Proof.
  induction l as [|d r IH]; intros m ids pre i m' ids' E; cbn [parse_data_from] in E; [inversion E; reflexivity|].
  pinv E as x Ex. destruct x as [[m1 ids1] id]. pinv E as y Ey. destruct y as [m2 kind]. pinv E as u Eu.
  apply IH in E. rewrite E. clear - Ex.
  destruct pre; [pinv Ex as z Ez; inversion Ex; reflexivity|]. wcbn. inversion Ex; reflexivity.
Qed.
Lemma add_locals_ty : forall tys m ids fid pre m' ids' l, add_locals m ids fid tys pre = (m', ids', l) -> ii_types ids' = ii_types ids.
Proof.
  induction tys as [|t r IH]; intros m ids fid pre m' ids' l E; cbn [add_locals] in E; [inversion E; reflexivity|].
  wcbn. destruct (add_locals _ _ fid r pre) as [[m1 ids1] rest] eqn:Ea. inversion E; subst; clear E.
  apply IH in Ea. exact Ea.
Qed.
Lemma prepare_bodies_ty : forall bs m ids ni i m' ids' ps, prepare_bodies m ids ni i bs = POk (m', ids', ps) -> ii_types ids' = ii_types ids.
Proof.
  induction bs as [|b r IH]; intros m ids ni i m' ids' ps E; cbn [prepare_bodies] in E; [inversion E; reflexivity|].
  pinv E as fid Efid. pinv E as f Ef. destruct (fn_kind f); try discriminate.
  pinv E as t Et.
  destruct (add_locals m ids fid (ty_params t) _) as [[m1 ids1] args] eqn:E1.
  destruct (types_insert m1 _) as [m2 tid] eqn:E2.
  destruct (add_locals m2 ids1 fid _ _) as [[m3 ids3] ls] eqn:E3.
  pinv E as x Ex. destruct x as [[m4 ids4] rest]. inversion E; subst; clear E.
  apply IH in Ex. apply add_locals_ty in E1, E3. congruence.
Qed.

(* --- function kinds: parse_funcs appends uninitialised functions of the declared types *)
Lemma parse_funcs_spec : forall l m ids m' ids', parse_funcs m ids l = POk (m', ids') ->
  exists a, K_fty m' = K_fty m ++ a /\ Forall2 (fun tyi c => nth_N (ii_types ids) tyi = Some (fst c) /\ snd c = false) l a.
Proof.
  induction l as [|i r IH]; intros m ids m' ids' E; cbn [parse_funcs] in E.
  - inversion E; subst. exists []. rewrite app_nil_r. split; [reflexivity|constructor].
  - pinv E as t Et. apply of_opt_err_ok in Et. wcbn. apply IH in E. destruct E as [a [Ea Fa]]. wcbn.
    exists ((t, false) :: a). split.
    + rewrite Ea. unfold K_fty. wcbn. clear. destruct (synth _ _ _); wcbn.
      * rewrite upd_map by (intros x; reflexivity). rewrite map_app, <- app_assoc. reflexivity.
      * rewrite map_app, <- app_assoc. reflexivity.
    + constructor; [split; [exact Et|reflexivity]|exact Fa].
Qed.

(* --- after the loop: the prepared entries point at uninitialised functions of type pr_ty *)
Lemma prepare_bodies_pr : forall bs m ids ni i m' ids' ps, prepare_bodies m ids ni i bs = POk (m', ids', ps) ->
  Forall (fun p => nth_error (K_fty m) (N.to_nat (pr_fid p)) = Some (pr_ty p, false)) ps.
Proof.
  induction bs as [|b r IH]; intros m ids ni i m' ids' ps E; cbn [prepare_bodies] in E; [inversion E; constructor|].
  pinv E as fid Efid. pinv E as f Ef. destruct (fn_kind f) eqn:Ek; try discriminate.
  pinv E as t Et.
  destruct (add_locals m ids fid (ty_params t) _) as [[m1 ids1] args] eqn:E1.
  destruct (types_insert m1 _) as [m2 tid] eqn:E2.
  destruct (add_locals m2 ids1 fid _ _) as [[m3 ids3] ls] eqn:E3.
  pinv E as x Ex. destruct x as [[m4 ids4] rest]. inversion E; subst; clear E.
  constructor.
  - cbn [pr_fid pr_ty]. apply of_opt_panic_ok, aget_nth in Ef. unfold K_fty. rewrite (map_nth_error fcore _ _ Ef).
    unfold fcore. rewrite Ek. reflexivity.
  - apply IH in Ex. assert (EK : K_fty m3 = K_fty m); [|rewrite EK in Ex; exact Ex].
    apply add_locals_F9 in E3. apply types_insert_dead in E2. destruct E2 as [E2 _]. apply add_locals_F9 in E1.
    rewrite E2 in E3. f9 E3. f9 E1. unfold K_fty. congruence.
Qed.
Lemma parse_one_body_ty m ids p lf : parse_one_body m ids p = POk lf -> lf_ty lf = pr_ty p.
Proof.
  unfold parse_one_body. intros E. pinv E as t Et. pinv E as ety Eety.
  destruct (parse_body _ _ _ _); try discriminate. inversion E; reflexivity.
Qed.
Lemma install_bodies_fty : forall ps m ids m',
  Forall (fun p => nth_error (K_fty m) (N.to_nat (pr_fid p)) = Some (pr_ty p, false)) ps ->
  install_bodies m ids ps = POk m' -> K_fty m' = K_fty m.
Proof.
  induction ps as [|p r IH]; intros m ids m' HF E; cbn [install_bodies] in E; [inversion E; reflexivity|].
  pinv E as lf Elf. apply parse_one_body_ty in Elf. inversion HF as [|p' r' Hp Hr]; subst.
  match type of E with install_bodies ?mm _ _ = _ => assert (EK : K_fty mm = K_fty m) end.
  { unfold K_fty at 1. wcbn. apply upd_map_at. intros x Hx. unfold K_fty in Hp. rewrite (map_nth_error fcore _ _ Hx) in Hp.
    unfold fcore at 1. cbn [fn_kind fkcore]. rewrite Elf. congruence. }
  apply IH in E; [congruence|]. rewrite EK. exact Hr.
Qed.

Theorem parseM_fty : forall cf ver w s, parseM cf ver w = POk s ->
  exists s1, parse_secs (pst0 cf) w = POk s1 /\ K_fty (ps_m s) = K_fty (ps_m s1) /\ ii_types (ps_ids s) = ii_types (ps_ids s1).
Proof.
  intros cf ver w s E. unfold parseM in E. fold (pst0 cf) in E. pinv E as s1 E1. exists s1. split; [exact E1|].
  destruct (_ <? _)%N; [discriminate|].
  pinv E as x Ex. destruct x as [[m1 ids1] prepared]. pinv E as m2 E2. inversion E; subst; clear E. wcbn.
  pose proof (prepare_bodies_pr _ _ _ _ _ _ _ _ Ex) as HF. pose proof (prepare_bodies_ty _ _ _ _ _ _ _ _ Ex) as HT.
  apply prepare_bodies_F9 in Ex. assert (EK : K_fty m1 = K_fty (ps_m s1)) by (f9 Ex; unfold K_fty; congruence).
  rewrite <- EK in HF. apply install_bodies_fty in E2; [|exact HF]. split; [|exact HT].
  rewrite <- EK, <- E2. clear.
  assert (H : forall l m, K_fty (fold_left (fun m n => parse_names m ids1 n) l m) = K_fty m).
  { induction l as [|n r IH]; intros m; cbn [fold_left]; [reflexivity|]. rewrite IH, !K_fty_funcs.
    f_equal. apply parse_names_KK. }
  rewrite <- (H (ps_names s1) m2). unfold K_fty. reflexivity.
Qed.

(* --- every payload only extends the index spaces *)
Definition ext (m : wir) (ids : i2ids) (m' : wir) (ids' : i2ids) : Prop :=
  (exists a, K_fty m' = K_fty m ++ a) /\ (exists a, K_tables m' = K_tables m ++ a) /\ (exists a, K_mems m' = K_mems m ++ a) /\
  (exists a, K_globals m' = K_globals m ++ a) /\ (exists a, ii_types ids' = ii_types ids ++ a).

Definition imports_of (sec : wsec) : list wimport := match sec with S_Imports l => l | _ => [] end.
(* the import record [mi] of the module stands for the input import [wi] *)
Definition imp_ok (m : wir) (ids : i2ids) (mi : mimport) (wi : wimport) : Prop :=
  im_module mi = wi_module wi /\ im_name mi = wi_name wi /\
  match im_kind mi, wi_kind wi with
  | MI_Func f, WI_Func tyi => exists ty, nth_N (ii_types ids) tyi = Some ty /\ nth_error (K_fty m) (N.to_nat f) = Some (ty, true)
  | MI_Table t, WI_Table wt => nth_error (K_tables m) (N.to_nat t) = Some (wt, true)
  | MI_Mem t, WI_Mem wm => nth_error (K_mems m) (N.to_nat t) = Some (wm, true)
  | MI_Global g, WI_Global wg => nth_error (K_globals m) (N.to_nat g) = Some (wg, None)
  | _, _ => False
  end.
Lemma imp_ok_ext m ids m' ids' mi wi : ext m ids m' ids' -> imp_ok m ids mi wi -> imp_ok m' ids' mi wi.
Proof.
  intros ([a1 H1] & [a2 H2] & [a3 H3] & [a4 H4] & [a5 H5]) (A & B & C). split; [exact A|]. split; [exact B|].
  rewrite H1, H2, H3, H4, H5. unfold nth_N.
  destruct (im_kind mi), (wi_kind wi); try exact C; try (apply nth_error_app_some; exact C).
  destruct C as [tyid [C1 C2]]. exists tyid. split; apply nth_error_app_some; assumption.
Qed.
Lemma ext_refl m ids : ext m ids m ids.
Proof. unfold ext. repeat split; exists []; rewrite app_nil_r; reflexivity. Qed.
Lemma ext_trans m0 i0 m1 i1 m2 i2 : ext m0 i0 m1 i1 -> ext m1 i1 m2 i2 -> ext m0 i0 m2 i2.
Proof.
  intros ([a1 H1] & [a2 H2] & [a3 H3] & [a4 H4] & [a5 H5]) ([b1 G1] & [b2 G2] & [b3 G3] & [b4 G4] & [b5 G5]).
  unfold ext. rewrite G1, G2, G3, G4, G5, H1, H2, H3, H4, H5, <- !app_assoc. repeat split; eexists; reflexivity.
Qed.

Lemma parse_import_step m ids i m1 ids1 : parse_import m ids i = POk (m1, ids1) ->
  ext m ids m1 ids1 /\ exists mi, items (m_imports m1) = items (m_imports m) ++ [mi] /\ imp_ok m1 ids1 mi i.
Proof.
  intros E. unfold parse_import in E. destruct (wi_kind i) eqn:Ek.
  - pinv E as t Et. apply of_opt_err_ok in Et. wcbn. inversion E; subst; clear E. split.
    + unfold ext, K_fty, K_tables, K_mems, K_globals. wcbn. rewrite map_app.
      repeat split; try (exists []; rewrite app_nil_r; reflexivity). eexists; reflexivity.
    + eexists. split; [wcbn; reflexivity|]. unfold imp_ok. cbn [im_module im_name im_kind]. rewrite Ek.
      split; [reflexivity|]. split; [reflexivity|]. exists t. wcbn. split; [exact Et|].
      unfold K_fty, anext, next_id. wcbn. rewrite Nat2N.id, map_app, <- (map_length fcore). apply nth_app_last.
  - wcbn. inversion E; subst; clear E. split.
    + unfold ext, K_fty, K_tables, K_mems, K_globals. wcbn. rewrite map_app.
      repeat split; try (exists []; rewrite app_nil_r; reflexivity). eexists; reflexivity.
    + eexists. split; [wcbn; reflexivity|]. unfold imp_ok. cbn [im_module im_name im_kind]. rewrite Ek.
      split; [reflexivity|]. split; [reflexivity|].
      unfold K_tables, anext, next_id. wcbn. rewrite Nat2N.id, map_app, <- (map_length tcore). cbn [map].
      replace (tcore (gen_parse_table_import t _)) with (t, true) by (destruct t; reflexivity). apply nth_app_last.
  - wcbn. inversion E; subst; clear E. split.
    + unfold ext, K_fty, K_tables, K_mems, K_globals. wcbn. rewrite map_app.
      repeat split; try (exists []; rewrite app_nil_r; reflexivity). eexists; reflexivity.
    + eexists. split; [wcbn; reflexivity|]. unfold imp_ok. cbn [im_module im_name im_kind]. rewrite Ek.
      split; [reflexivity|]. split; [reflexivity|].
      unfold K_mems, anext, next_id. wcbn. rewrite Nat2N.id, map_app, <- (map_length mcore). cbn [map].
      replace (mcore (gen_parse_memory_import m0 _)) with (m0, true) by (destruct m0; reflexivity). apply nth_app_last.
  - wcbn. inversion E; subst; clear E. split.
    + unfold ext, K_fty, K_tables, K_mems, K_globals. wcbn. rewrite map_app.
      repeat split; try (exists []; rewrite app_nil_r; reflexivity). eexists; reflexivity.
    + eexists. split; [wcbn; reflexivity|]. unfold imp_ok. cbn [im_module im_name im_kind]. rewrite Ek.
      split; [reflexivity|]. split; [reflexivity|].
      unfold K_globals, anext, next_id. wcbn. rewrite Nat2N.id, map_app, <- (map_length gcore). cbn [map].
      replace (gcore (gen_parse_global_import g _)) with (g, @None mconst) by (destruct g; reflexivity). apply nth_app_last.
Qed.
Lemma parse_imports_inv : forall l m ids m' ids' wis, parse_imports m ids l = POk (m', ids') ->
  Forall2 (imp_ok m ids) (items (m_imports m)) wis ->
  ext m ids m' ids' /\ Forall2 (imp_ok m' ids') (items (m_imports m')) (wis ++ l).
Proof.
  induction l as [|i r IH]; intros m ids m' ids' wis E F; cbn [parse_imports] in E.
  - inversion E; subst. rewrite app_nil_r. split; [apply ext_refl|exact F].
  - pinv E as x Ex. destruct x as [m1 ids1]. cbn [fst snd] in E. apply parse_import_step in Ex.
    destruct Ex as [X [mi [Hi Ho]]].
    apply (IH _ _ _ _ (wis ++ [i])) in E.
    + destruct E as [X' F']. rewrite <- app_assoc in F'. split; [eapply ext_trans; eauto|exact F'].
    + rewrite Hi. apply Forall2_app; [|constructor; [exact Ho|constructor]].
      eapply Forall2_impl; [|exact F]. intros a b. apply imp_ok_ext. exact X.
Qed.

Lemma parse_imports_ext : forall l m ids m' ids', parse_imports m ids l = POk (m', ids') -> ext m ids m' ids'.
Proof.
  induction l as [|i r IH]; intros m ids m' ids' E; cbn [parse_imports] in E.
  - inversion E; subst. apply ext_refl.
  - pinv E as x Ex. destruct x as [m1 ids1]. cbn [fst snd] in E. apply parse_import_step in Ex. destruct Ex as [X _].
    eapply ext_trans; [exact X|]. eapply IH; eauto.
Qed.

Ltac ex_nil := exists []; rewrite app_nil_r; first [reflexivity | congruence].
(* function kinds, type ids and the import arena, per payload *)
Lemma parse_sec_FT s sec s' : parse_sec s sec = POk s' ->
  (exists a, K_fty (ps_m s') = K_fty (ps_m s) ++ a) /\ (exists a, ii_types (ps_ids s') = ii_types (ps_ids s) ++ a) /\
  match sec with S_Imports _ => True | _ => m_imports (ps_m s') = m_imports (ps_m s) end.
Proof.
  intros E. unfold parse_sec in E. destruct sec.
  - destruct (parse_types _ _ _) as [m1 i1] eqn:Ep. inversion E; subst; clear E. wcbn.
    pose proof (parse_types_ty _ _ _ _ _ Ep) as T. apply parse_types_F9 in Ep. f9 Ep. unfold K_fty.
    split; [ex_nil|]. split; [exact T|congruence].
  - pinv E as x Ex. destruct x as [m1 i1]. inversion E; subst; clear E. wcbn.
    apply parse_imports_ext in Ex. destruct Ex as (X1 & _ & _ & _ & X5). auto.
  - pinv E as x Ex. destruct x as [m1 i1]. inversion E; subst; clear E. wcbn.
    pose proof (parse_funcs_ty _ _ _ _ _ Ex) as T. pose proof (parse_funcs_F9 _ _ _ _ _ Ex) as F.
    apply parse_funcs_spec in Ex. destruct Ex as [a [Ea _]]. f9 F. split; [eauto|]. split; [ex_nil|congruence].
  - destruct (parse_tables _ _ _) as [m1 i1] eqn:Ep. inversion E; subst; clear E. wcbn.
    pose proof (parse_tables_ty _ _ _ _ _ Ep) as T. apply parse_tables_F9 in Ep. f9 Ep. unfold K_fty.
    split; [ex_nil|]. split; [ex_nil|congruence].
  - destruct (parse_mems _ _ _) as [m1 i1] eqn:Ep. inversion E; subst; clear E. wcbn.
    pose proof (parse_mems_ty _ _ _ _ _ Ep) as T. apply parse_mems_F9 in Ep. f9 Ep. unfold K_fty.
    split; [ex_nil|]. split; [ex_nil|congruence].
  - pinv E as x Ex. destruct x as [m1 i1]. inversion E; subst; clear E. wcbn.
    pose proof (parse_globals_ty _ _ _ _ _ Ex) as T. apply parse_globals_F9 in Ex. f9 Ex. unfold K_fty.
    split; [ex_nil|]. split; [ex_nil|congruence].
  - pinv E as x Ex. inversion E; subst; clear E. wcbn. apply parse_exports_F9 in Ex. f9 Ex. unfold K_fty.
    split; [ex_nil|]. split; [ex_nil|congruence].
  - pinv E as x Ex. inversion E; subst; clear E. wcbn. split; [ex_nil|]. split; [ex_nil|reflexivity].
  - pinv E as x Ex. destruct x as [m1 i1]. inversion E; subst; clear E. wcbn.
    pose proof (parse_elems_ty _ _ _ _ _ Ex) as T. apply parse_elems_step in Ex. destruct Ex as [X1 _]. f9 X1. unfold K_fty.
    split; [ex_nil|]. split; [ex_nil|congruence].
  - destruct (reserve_data _ _ _) as [m1 i1] eqn:Ep. inversion E; subst; clear E. wcbn.
    pose proof (reserve_data_ty _ _ _ _ _ Ep) as T. apply reserve_data_F9 in Ep. f9 Ep. unfold K_fty.
    split; [ex_nil|]. split; [ex_nil|congruence].
  - inversion E; subst; clear E. wcbn. split; [ex_nil|]. split; [ex_nil|reflexivity].
  - pinv E as x Ex. destruct x as [m1 i1]. inversion E; subst; clear E. wcbn. unfold parse_data in Ex.
    pose proof (parse_data_from_ty _ _ _ _ _ _ _ Ex) as T. apply parse_data_from_step in Ex. destruct Ex as [X1 _]. f9 X1. unfold K_fty.
    split; [ex_nil|]. split; [ex_nil|congruence].
  - inversion E; subst; clear E. unfold parse_custom.
    destruct c as [n d|n d|[n|]|[p|]]; wcbn; (split; [ex_nil|]); (split; [ex_nil|reflexivity]).
Qed.

Lemma parse_sec_ext s sec s' : ids_consistent (ps_m s) (ps_ids s) -> parse_sec s sec = POk s' ->
  ext (ps_m s) (ps_ids s) (ps_m s') (ps_ids s').
Proof.
  intros Hid E. destruct (parse_sec_TM _ _ _ E) as [T1 T2]. destruct (parse_sec_GES _ _ _ Hid E) as (G1 & _ & _).
  destruct (parse_sec_FT _ _ _ E) as (F1 & F2 & _). unfold ext. rewrite T1, T2, G1. repeat split; eauto.
Qed.
Lemma parse_sec_imp s sec s' wis : ids_consistent (ps_m s) (ps_ids s) -> parse_sec s sec = POk s' ->
  Forall2 (imp_ok (ps_m s) (ps_ids s)) (items (m_imports (ps_m s))) wis ->
  Forall2 (imp_ok (ps_m s') (ps_ids s')) (items (m_imports (ps_m s'))) (wis ++ imports_of sec).
Proof.
  intros Hid E F. pose proof (parse_sec_ext _ _ _ Hid E) as X. pose proof (parse_sec_FT _ _ _ E) as (_ & _ & M).
  destruct sec;
    try (cbn [imports_of]; rewrite app_nil_r, M; eapply Forall2_impl; [|exact F]; intros a b; apply imp_ok_ext; exact X).
  unfold parse_sec in E. pinv E as x Ex. destruct x as [m1 i1]. inversion E; subst; clear E. wcbn. cbn [imports_of].
  apply (parse_imports_inv _ _ _ _ _ _ Ex F).
Qed.
Theorem parse_secs_imp : forall w s s' wis, ids_consistent (ps_m s) (ps_ids s) -> parse_secs s w = POk s' ->
  Forall2 (imp_ok (ps_m s) (ps_ids s)) (items (m_imports (ps_m s))) wis ->
  Forall2 (imp_ok (ps_m s') (ps_ids s')) (items (m_imports (ps_m s'))) (wis ++ flat_map imports_of w).
Proof.
  induction w as [|x r IH]; intros s s' wis Hid E F; cbn [parse_secs flat_map] in *.
  - inversion E; subst. rewrite app_nil_r. exact F.
  - pinv E as s1 E1. pose proof (parse_sec_idc _ _ _ Hid E1) as Hid1. rewrite app_assoc.
    eapply IH; [exact Hid1|exact E|]. exact (parse_sec_imp _ _ _ _ Hid E1 F).
Qed.
Theorem parseM_imports : forall cf ver w s, parseM cf ver w = POk s ->
  Forall2 (imp_ok (ps_m s) (ps_ids s)) (items (m_imports (ps_m s))) (flat_map imports_of w).
Proof.
  intros cf ver w s E. destruct (parseM_KK _ _ _ _ E) as [s1 [E1 EK]]. destruct (parseM_fty _ _ _ _ E) as [s1' [E1' [EF ET]]].
  rewrite E1 in E1'. inversion E1'; subst s1'; clear E1'.
  pose proof (parse_secs_imp w (pst0 cf) s1 [] (idc_empty cf) E1 (Forall2_nil _)) as F. cbn [app] in F.
  unfold KK in EK. injection EK; intros. replace (m_imports (ps_m s)) with (m_imports (ps_m s1)) by congruence.
  eapply Forall2_impl; [|exact F]. intros a b. apply imp_ok_ext. unfold ext. repeat split; ex_nil.
Qed.

(* emit side: what the import emitter writes for each import record *)
Definition import_emitted' (m : wir) (xt : list (N * N)) (i : mimport) (w : wimport) : Prop :=
  wi_module w = im_module i /\ wi_name w = im_name i /\
  match im_kind i with
  | MI_Func f => exists fn ti, aget (m_funcs m) f = Some fn /\ lookup_i xt (func_ty fn) = Ok ti /\ wi_kind w = WI_Func ti
  | MI_Table t => exists tb, aget (m_tables m) t = Some tb /\ wi_kind w = WI_Table (gen_emit_table_import tb)
  | MI_Mem mm => exists me, aget (m_memories m) mm = Some me /\ wi_kind w = WI_Mem (gen_emit_memory_import me)
  | MI_Global g => exists gl, aget (m_globals m) g = Some gl /\ wi_kind w = WI_Global (gen_emit_global_import gl)
  end.
Lemma emit_imports_l_entries' m : forall l x ws x', emit_imports_l m x l = Ok (ws, x') ->
  Forall2 (import_emitted' m (space_map x S_type)) l ws.
Proof.
  induction l as [|i r IH]; intros x ws x' H; cbn [emit_imports_l] in H.
  - inversion H; constructor.
  - rinv H as a Ea. rinv H as b Eb. inversion H; subst; clear H. destruct a as [w x1], b as [ws' x2]. cbn [fst snd] in *.
    constructor.
    + clear IH Eb. unfold emit_import in Ea. unfold import_emitted'. destruct (im_kind i).
      * rinv Ea as fn Efn. rinv Ea as ti Eti. apply of_opt_ok in Efn. rewrite get_idx_push_other in Eti by discriminate.
        inversion Ea; subst; cbn [wi_module wi_name wi_kind]. split; [reflexivity|]. split; [reflexivity|].
        exists fn, ti. split; [exact Efn|]. split; [exact Eti|reflexivity].
      * rinv Ea as tb Etb. apply of_opt_ok in Etb. inversion Ea; subst; cbn; eauto.
      * rinv Ea as tb Etb. apply of_opt_ok in Etb. inversion Ea; subst; cbn; eauto.
      * rinv Ea as tb Etb. apply of_opt_ok in Etb. inversion Ea; subst; cbn; eauto.
    + apply IH in Eb. apply emit_import_x in Ea. subst x1. rewrite push_import_space in Eb.
      replace (imp_id S_type i) with (@nil N) in Eb by (unfold imp_id; destruct (im_kind i); reflexivity). exact Eb.
Qed.

Lemma Forall2_compose {A B C} (R1 : A -> B -> Prop) (R2 : A -> C -> Prop) : forall l lb lc,
  Forall2 R1 l lb -> Forall2 R2 l lc -> Forall2 (fun b c => exists a, R1 a b /\ R2 a c) lb lc.
Proof.
  induction l as [|a l IH]; intros lb lc H1 H2; inversion H1; inversion H2; subst; constructor; eauto.
Qed.

Definition import_rt (s : pst) (e : emitted) (wi wo : wimport) : Prop :=
  wi_module wo = wi_module wi /\ wi_name wo = wi_name wi /\
  match wi_kind wi with
  | WI_Func tyi => exists ti, rho s e S_type tyi = Ok ti /\ wi_kind wo = WI_Func ti
  | k => wi_kind wo = k
  end.

(* the emitted import section: same (module, field) pairs, same order, same kind, same table / memory / global
   type; the type index of a function import is rho S_type of the input's *)
Theorem structure_imports_gen : forall cf ver w s ilen dw e, parseM cf ver w = POk s -> emitM (ps_m s) ilen dw = Ok e ->
  flat_map imports_of w <> [] ->
  exists ws, In (S_Imports ws) (em_secs e) /\ Forall2 (import_rt s e) (flat_map imports_of w) ws.
Proof.
  intros cf ver w s ilen dw e Hp He Hne. pose proof (parseM_imports _ _ _ _ Hp) as FI.
  pose proof (parseM_ids _ _ _ _ Hp) as Hid.
  assert (D : dead (m_imports (ps_m s)) = []) by (unfold ids_consistent in Hid; tauto).
  destruct (emitM_x2i _ _ _ _ He) as [fs [_ [HXT _]]].
  emitM_parts He.
  assert (XT : space_map x1 S_type = xi_types (em_x2i e)).
  { pose proof (emit_types_x (ps_m s) empty_x2i) as F1. rewrite Ety in F1. cbn [snd] in F1. rewrite F1, HXT.
    rewrite push_all_same by discriminate. apply fold_push_number. }
  unfold emit_imports in Eim. rewrite (aiter_nodead_snd _ D) in Eim.
  destruct (items (m_imports (ps_m s))) as [|mi0 mis] eqn:Ei.
  { inversion FI as [E0|]. congruence. }
  rewrite <- Ei in *. clear Ei mi0 mis.
  rinv Eim as a Ea. destruct a as [ws xx]. inversion Eim; subst s_im x2; clear Eim. cbn [fst snd] in *.
  exists ws. split; [rewrite Esecs, !in_app_iff; right; left; left; reflexivity|].
  apply emit_imports_l_entries' in Ea. rewrite XT in Ea.
  pose proof (Forall2_compose _ _ _ _ _ FI Ea) as F. eapply Forall2_impl; [|exact F]. clear F FI Ea.
  intros wi wo [mi [(A1 & A2 & A3) (B1 & B2 & B3)]]. unfold import_rt.
  split; [congruence|]. split; [congruence|].
  unfold ids_consistent in Hid. decompose [and] Hid. clear Hid.
  destruct (im_kind mi), (wi_kind wi); try contradiction.
  - destruct A3 as [tyid [C1 C2]]. destruct B3 as [fn [ti [G1 [G2 G3]]]]. exists ti. split; [|exact G3].
    apply aget_nth in G1. unfold K_fty in C2. rewrite (map_nth_error fcore _ _ G1) in C2.
    assert (Ety' : func_ty fn = tyid) by (rewrite <- fcore_ty; inversion C2 as [C3]; rewrite C3; reflexivity).
    unfold rho. cbn [ids_space]. unfold nth_N in C1. rewrite C1. unfold get_idx. cbn [space_map]. congruence.
  - destruct B3 as [tb [G1 G3]]. apply aget_nth in G1. unfold K_tables in A3. rewrite (map_nth_error tcore _ _ G1) in A3.
    rewrite G3, attr_table_emit_same. unfold tcore in A3. congruence.
  - destruct B3 as [tb [G1 G3]]. apply aget_nth in G1. unfold K_mems in A3. rewrite (map_nth_error mcore _ _ G1) in A3.
    rewrite G3, attr_memory_emit_same. unfold mcore in A3. congruence.
  - destruct B3 as [tb [G1 G3]]. apply aget_nth in G1. unfold K_globals in A3. rewrite (map_nth_error gcore _ _ G1) in A3.
    rewrite G3, attr_global_emit_same. unfold gcore in A3. congruence.
Qed.
Theorem structure_imports : forall cf ver w s ilen dw e l, parseM cf ver w = POk s -> emitM (ps_m s) ilen dw = Ok e ->
  stream_wf w = true -> In (S_Imports l) w -> l <> [] ->
  exists ws, In (S_Imports ws) (em_secs e) /\ Forall2 (import_rt s e) l ws.
Proof.
  intros cf ver w s ilen dw e l Hp He Hwf Hin Hne.
  assert (E : flat_map imports_of w = l).
  { apply (once_flat_map imports_of 1) with (sec := S_Imports l); [|apply stream_wf_once; [exact Hwf|lia]|exact Hin|reflexivity].
    intros [] Hs; try reflexivity. discriminate. }
  rewrite <- E in *. eapply structure_imports_gen; eauto.
Qed.

(* ====================================================================================== *)
(* 8. nothing is added, dropped or duplicated (tables, memories, imports, exports, globals) *)
(* ====================================================================================== *)
Theorem structure_counts : forall cf ver w s ilen dw e, parseM cf ver w = POk s -> emitM (ps_m s) ilen dw = Ok e ->
  (flat_map tables_of w <> [] -> exists l, In (S_Tables l) (em_secs e) /\ length l = length (flat_map tables_of w)) /\
  (flat_map mems_of w <> [] -> exists l, In (S_Mems l) (em_secs e) /\ length l = length (flat_map mems_of w)) /\
  (flat_map imports_of w <> [] -> exists l, In (S_Imports l) (em_secs e) /\ length l = length (flat_map imports_of w)) /\
  (flat_map exports_of w <> [] -> exists l, In (S_Exports l) (em_secs e) /\ length l = length (flat_map exports_of w)) /\
  (flat_map globals_of w <> [] -> exists l, In (S_Globals l) (em_secs e) /\ length l = length (flat_map globals_of w)) /\
  (* and the index spaces of the module have exactly the input's sizes *)
  length (items (m_tables (ps_m s))) = length (flat_map sec_tables w) /\
  length (items (m_memories (ps_m s))) = length (flat_map sec_mems w) /\
  length (items (m_globals (ps_m s))) = length (flat_map sec_globals w) /\
  length (items (m_imports (ps_m s))) = length (flat_map imports_of w) /\
  length (items (m_exports (ps_m s))) = length (flat_map exports_of w).
Proof.
  intros cf ver w s ilen dw e Hp He.
  destruct (parseM_tables _ _ _ _ Hp) as [T1 T2]. destruct (parseM_GES _ _ _ _ Hp) as (G1 & G2 & _).
  pose proof (parseM_imports _ _ _ _ Hp) as FI.
  repeat split.
  - intros H. eexists. split; [eapply structure_tables_gen; eauto|reflexivity].
  - intros H. eexists. split; [eapply structure_mems_gen; eauto|reflexivity].
  - intros H. destruct (structure_imports_gen _ _ _ _ _ _ _ Hp He H) as [l [H1 H2]]. exists l. split; [exact H1|].
    symmetry. eapply Forall2_length; eauto.
  - intros H. destruct (structure_exports_gen _ _ _ _ _ _ _ Hp He H) as [l [H1 H2]]. exists l. split; [exact H1|].
    symmetry. eapply Forall2_length; eauto.
  - intros H. destruct (structure_globals_gen _ _ _ _ _ _ _ Hp He H) as [l [H1 H2]]. exists l. split; [exact H1|].
    symmetry. eapply Forall2_length; eauto.
  - rewrite <- T1. unfold K_tables. rewrite map_length. reflexivity.
  - rewrite <- T2. unfold K_mems. rewrite map_length. reflexivity.
  - rewrite <- G1. unfold K_globals. rewrite map_length. reflexivity.
  - eapply Forall2_length; eauto.
  - rewrite G2, sec_exports_of, map_length. reflexivity.
Qed.

(* ====================================================================================== *)
(* 6 (element segments): same count, order, mode, form; indices renamed by the emit-time maps *)
(* ====================================================================================== *)
Definition elem_of (e : welem) : melemkind * melemitems :=
  (match wel_kind e with
   | WEK_Passive => ELK_Passive | WEK_Declared => ELK_Declared
   | WEK_Active tbl off => ELK_Active (match tbl with Some t => t | None => 0%N end) (cst0 off) end,
   match wel_items e with WEI_Funcs fs => ELI_Funcs fs | WEI_Exprs t es => ELI_Exprs t (map cst0 es) end).
Definition elems_of (sec : wsec) : list welem := match sec with S_Elems l => l | _ => [] end.

Lemma map_pres_iota n : forall fs fl, map_pres (fun f => of_opt_err (nth_N (iota n) f)) fs = POk fl -> fl = fs.
Proof.
  induction fs as [|f r IH]; intros fl E; cbn [map_pres] in E; [inversion E; reflexivity|].
  pinv E as y Ey. pinv E as ys Eys. inversion E; subst. apply of_opt_err_ok, nth_N_iota in Ey. subst.
  f_equal. apply IH. exact Eys.
Qed.
Lemma map_pres_cst0 ids : (exists n, ii_globals ids = iota n) -> (exists n, ii_funcs ids = iota n) ->
  forall es el, map_pres (eval_const ids) es = POk el -> el = map cst0 es.
Proof.
  intros Hg Hf. induction es as [|c r IH]; intros el E; cbn [map_pres] in E; [inversion E; reflexivity|].
  pinv E as y Ey. pinv E as ys Eys. inversion E; subst. apply eval_const_cst0 in Ey; [|exact Hg|exact Hf]. subst.
  cbn [map]. f_equal. apply IH. exact Eys.
Qed.
Definition ids3 (ids : i2ids) : Prop :=
  (exists n, ii_globals ids = iota n) /\ (exists n, ii_funcs ids = iota n) /\ (exists n, ii_tables ids = iota n).
Lemma parse_elem_spec m ids e m1 ids1 : ids3 ids -> parse_elem m ids e = POk (m1, ids1) ->
  K_elems m1 = K_elems m ++ [elem_of e] /\ ids3 ids1.
Proof.
  intros (Hg & [nf Hf] & [nt Ht]) Ex. unfold parse_elem in Ex. pinv Ex as its Eits. pinv Ex as mk Emk. destruct mk as [m2 kind].
  wcbn. inversion Ex; subst; clear Ex. split; [|unfold ids3; wcbn; eauto].
  unfold K_elems, elem_of. wcbn. rewrite map_app. cbn [map ecore el_kind el_items].
  assert (EI : its = match wel_items e with WEI_Funcs fs => ELI_Funcs fs | WEI_Exprs t es => ELI_Exprs t (map cst0 es) end).
  { destruct (wel_items e).
    - pinv Eits as fl Efl. rewrite Hf in Efl. apply map_pres_iota in Efl. inversion Eits; subst; reflexivity.
    - pinv Eits as el Eel. apply map_pres_cst0 in Eel; [|exact Hg|eauto]. inversion Eits; subst; reflexivity. }
  rewrite <- EI. clear EI Eits.
  destruct (wel_kind e).
  - inversion Emk; subst; reflexivity.
  - inversion Emk; subst; reflexivity.
  - pinv Emk as tid Etid. pinv Emk as tb Etb. pinv Emk as o Eo. pinv Emk as ok Eok. destruct ok; [|discriminate].
    inversion Emk; subst; clear Emk. wcbn. apply of_opt_err_ok in Etid. rewrite Ht in Etid. apply nth_N_iota in Etid.
    apply eval_const_cst0 in Eo; [|exact Hg|eauto]. subst. reflexivity.
Qed.
Lemma parse_elems_spec : forall l m ids m' ids', ids3 ids -> parse_elems m ids l = POk (m', ids') ->
  K_elems m' = K_elems m ++ map elem_of l.
Proof.
  induction l as [|e r IH]; intros m ids m' ids' H E; cbn [parse_elems] in E.
  - inversion E; subst. rewrite app_nil_r. reflexivity.
  - pinv E as x Ex. destruct x as [m1 ids1]. cbn [fst snd] in E. apply parse_elem_spec in Ex; [|exact H].
    destruct Ex as [X1 X2]. apply IH in E; [|exact X2]. rewrite E, X1, <- app_assoc. reflexivity.
Qed.
Lemma idc_ids3 m ids : ids_consistent m ids -> ids3 ids.
Proof. intros H. unfold ids_consistent in H. decompose [and] H. unfold ids3. repeat split; eauto. Qed.

Lemma parse_sec_E s sec s' : ids_consistent (ps_m s) (ps_ids s) -> parse_sec s sec = POk s' ->
  K_elems (ps_m s') = K_elems (ps_m s) ++ map elem_of (elems_of sec).
Proof.
  intros Hid E. unfold parse_sec in E. destruct sec; cbn [elems_of map]; rewrite ?app_nil_r.
  - destruct (parse_types _ _ _) as [m1 i1] eqn:Ep. inversion E; subst; clear E. wcbn.
    apply parse_types_F9 in Ep. f9 Ep. unfold K_elems. congruence.
  - pinv E as x Ex. destruct x as [m1 i1]. inversion E; subst; clear E. wcbn.
    apply parse_imports_F9 in Ex. destruct Ex as (_ & _ & X & _). unfold K_elems. congruence.
  - pinv E as x Ex. destruct x as [m1 i1]. inversion E; subst; clear E. wcbn. apply parse_funcs_F9 in Ex. f9 Ex. unfold K_elems. congruence.
  - destruct (parse_tables _ _ _) as [m1 i1] eqn:Ep. inversion E; subst; clear E. wcbn. apply parse_tables_F9 in Ep. f9 Ep. unfold K_elems. congruence.
  - destruct (parse_mems _ _ _) as [m1 i1] eqn:Ep. inversion E; subst; clear E. wcbn. apply parse_mems_F9 in Ep. f9 Ep. unfold K_elems. congruence.
  - pinv E as x Ex. destruct x as [m1 i1]. inversion E; subst; clear E. wcbn. apply parse_globals_F9 in Ex. f9 Ex. unfold K_elems. congruence.
  - pinv E as x Ex. inversion E; subst; clear E. wcbn. apply parse_exports_F9 in Ex. f9 Ex. unfold K_elems. congruence.
  - pinv E as x Ex. inversion E; subst; clear E. wcbn. reflexivity.
  - pinv E as x Ex. destruct x as [m1 i1]. inversion E; subst; clear E. wcbn.
    apply parse_elems_spec in Ex; [exact Ex|apply (idc_ids3 _ _ Hid)].
  - destruct (reserve_data _ _ _) as [m1 i1] eqn:Ep. inversion E; subst; clear E. wcbn. apply reserve_data_F9 in Ep. f9 Ep. unfold K_elems. congruence.
  - inversion E; subst; clear E. wcbn. reflexivity.
  - pinv E as x Ex. destruct x as [m1 i1]. inversion E; subst; clear E. wcbn. unfold parse_data in Ex.
    apply parse_data_from_step in Ex. destruct Ex as [X1 _]. f9 X1. unfold K_elems. congruence.
  - inversion E; subst; clear E. unfold parse_custom. destruct c as [n d|n d|[n|]|[p|]]; wcbn; reflexivity.
Qed.
Theorem parse_secs_E : forall w s s', ids_consistent (ps_m s) (ps_ids s) -> parse_secs s w = POk s' ->
  K_elems (ps_m s') = K_elems (ps_m s) ++ map elem_of (flat_map elems_of w).
Proof.
  induction w as [|x r IH]; intros s s' Hid E; cbn [parse_secs flat_map] in *.
  - inversion E; subst. rewrite app_nil_r. reflexivity.
  - pinv E as s1 E1. pose proof (parse_sec_idc _ _ _ Hid E1) as Hid1. apply IH in E; [|exact Hid1].
    apply parse_sec_E in E1; [|exact Hid]. rewrite E, E1, map_app, <- app_assoc. reflexivity.
Qed.
Corollary parseM_elems : forall cf ver w s, parseM cf ver w = POk s -> K_elems (ps_m s) = map elem_of (flat_map elems_of w).
Proof.
  intros cf ver w s E. destruct (parseM_KK _ _ _ _ E) as [s1 [E1 EK]]. apply parse_secs_E in E1; [|apply idc_empty].
  unfold KK in EK. injection EK; intros. change (K_elems (ps_m (pst0 cf))) with (@nil (melemkind * melemitems)) in E1.
  cbn [app] in E1. congruence.
Qed.

(* emit side *)
Lemma rmapM_mono {A B} (f g : A -> res B) : (forall a b, f a = Ok b -> g a = Ok b) -> forall l bs, rmapM f l = Ok bs -> rmapM g l = Ok bs.
Proof.
  intros H. induction l as [|a r IH]; intros bs E; cbn [rmapM] in *; [exact E|].
  rinv E as y Ey. rinv E as ys Eys. rewrite (H _ _ Ey), (IH _ Eys). exact E.
Qed.
Lemma emit_elem_mono x x' e we : x_le x x' -> emit_elem x e = Ok we -> emit_elem x' e = Ok we.
Proof.
  intros L E. unfold emit_elem in *. rinv E as its Eits. rinv E as k Ek.
  assert (E1 : match el_items e with
               | ELI_Funcs fs => rmap WEI_Funcs (rmapM (get_idx x' S_func) fs)
               | ELI_Exprs t es => rmap (WEI_Exprs t) (rmapM (emit_const x') es) end = Ok its).
  { destruct (el_items e).
    - destruct (rmapM (get_idx x S_func) fs) as [l| |] eqn:El; try discriminate.
      rewrite (rmapM_mono _ _ (fun a b => L S_func a b) _ _ El). exact Eits.
    - destruct (rmapM (emit_const x) es) as [l| |] eqn:El; try discriminate.
      rewrite (rmapM_mono _ _ (fun a b => emit_const_mono x x' a b L) _ _ El). exact Eits. }
  assert (E2 : match el_kind e with
               | ELK_Passive => Ok WEK_Passive | ELK_Declared => Ok WEK_Declared
               | ELK_Active t off => ti <- get_idx x' S_table t ;; o <- emit_const x' off ;;
                                     Ok (WEK_Active (if N.eqb ti 0 then None else Some ti) o) end = Ok k).
  { destruct (el_kind e); try exact Ek. rinv Ek as ti Eti. rinv Ek as o Eo.
    rewrite (L _ _ _ Eti). cbn [rbind]. rewrite (emit_const_mono _ _ _ _ L Eo). exact Ek. }
  rewrite E1. cbn [rbind]. rewrite E2. exact E.
Qed.
Lemma elems_go_entries' : forall l x r, elems_go l x = Ok r ->
  x_le x (snd r) /\ Forall2 (fun p we => emit_elem (snd r) (snd p) = Ok we) l (fst r).
Proof.
  induction l as [|[id e] l IH]; intros x r H; cbn [elems_go] in H.
  - inversion H; subst. split; [apply x_le_refl|constructor].
  - fold elems_go in H. rinv H as we Ewe. rinv H as b Eb. inversion H; subst; clear H. cbn [fst snd].
    apply IH in Eb. destruct Eb as [L F]. split; [eapply x_le_trans; [apply x_le_push|exact L]|].
    constructor; [|exact F]. cbn [snd]. eapply emit_elem_mono; eauto.
Qed.

(* what the output element segment is, relative to the input one, for maps x *)
Definition elem_rt (x : x2i) (wi wo : welem) : Prop :=
  match wel_kind wi, wel_kind wo with
  | WEK_Passive, WEK_Passive => True
  | WEK_Declared, WEK_Declared => True
  | WEK_Active tbl off, WEK_Active tbl' off' =>
      (exists ti, get_idx x S_table (match tbl with Some t => t | None => 0%N end) = Ok ti /\
                  tbl' = (if N.eqb ti 0 then None else Some ti)) /\ ren_const x off off'
  | _, _ => False
  end /\
  match wel_items wi, wel_items wo with
  | WEI_Funcs fs, WEI_Funcs fs' => Forall2 (fun f f' => get_idx x S_func f = Ok f') fs fs'
  | WEI_Exprs t es, WEI_Exprs t' es' => t' = t /\ Forall2 (ren_const x) es es'
  | _, _ => False
  end.
Lemma emit_elem_rt x wi wo : emit_elem x {| el_kind := fst (elem_of wi); el_items := snd (elem_of wi); el_name := None |} = Ok wo \/
                             (exists nm, emit_elem x {| el_kind := fst (elem_of wi); el_items := snd (elem_of wi); el_name := nm |} = Ok wo) ->
  elem_rt x wi wo.
Proof.
  intros H. assert (E : exists nm, emit_elem x {| el_kind := fst (elem_of wi); el_items := snd (elem_of wi); el_name := nm |} = Ok wo)
    by (destruct H; eauto). clear H. destruct E as [nm E].
  unfold emit_elem in E. cbn [el_kind el_items elem_of fst snd] in E. rinv E as its Eits. rinv E as k Ek.
  inversion E; subst wo; clear E. unfold elem_rt. cbn [wel_kind wel_items]. split.
  - destruct (wel_kind wi); try (inversion Ek; exact I).
    rinv Ek as ti Eti. rinv Ek as o Eo. inversion Ek; subst. split; [eauto|]. apply emit_const_ren. exact Eo.
  - destruct (wel_items wi).
    + destruct (rmapM (get_idx x S_func) fs) as [l| |] eqn:El; try discriminate. inversion Eits; subst.
      apply rmapM_ok_inv. exact El.
    + destruct (rmapM (emit_const x) (map cst0 es)) as [l| |] eqn:El; try discriminate. inversion Eits; subst.
      split; [reflexivity|]. apply rmapM_ok_inv, Forall2_map_l in El. eapply Forall2_impl; [|exact El].
      intros a b. apply emit_const_ren.
Qed.

Theorem structure_elems_gen : forall cf ver w s ilen dw e, parseM cf ver w = POk s -> emitM (ps_m s) ilen dw = Ok e ->
  flat_map elems_of w <> [] ->
  exists es, In (S_Elems es) (em_secs e) /\ Forall2 (elem_rt (em_x2i e)) (flat_map elems_of w) es.
Proof.
  intros cf ver w s ilen dw e Hp He Hne. pose proof (parseM_elems _ _ _ _ Hp) as HK.
  pose proof (parseM_ids _ _ _ _ Hp) as Hid.
  assert (D : dead (m_elements (ps_m s)) = []) by (unfold ids_consistent in Hid; tauto).
  emitM_parts He. rewrite emit_elements_unfold in Eel.
  assert (HA : map (fun p => ecore (snd p)) (aiter (m_elements (ps_m s))) = map elem_of (flat_map elems_of w)).
  { rewrite <- HK. unfold K_elems. rewrite <- (aiter_nodead_snd _ D), map_map. reflexivity. }
  destruct (aiter (m_elements (ps_m s))) as [|p0 ps] eqn:Ea.
  { cbn [map] in HA. destruct (flat_map elems_of w); [congruence|discriminate]. }
  rewrite <- Ea in *. clear Ea p0 ps. rinv Eel as r Er. inversion Eel; subst s_el x9; clear Eel.
  exists (fst r). split; [rewrite Esecs, !in_app_iff; do 8 right; left; left; reflexivity|].
  apply elems_go_entries' in Er. destruct Er as [_ F].
  assert (XL : forall S, S <> S_data -> space_map (em_x2i e) S = space_map (snd r) S).
  { intros S HS. rewrite (emit_code_x _ _ _ _ _ _ Eco). apply emit_data_count_x in Edc. rewrite Edc.
    destruct (aiter (m_data (ps_m s))); [reflexivity|]. apply space_map_set_other. congruence. }
  assert (F' : Forall2 (fun c we => exists nm, emit_elem (snd r) {| el_kind := fst c; el_items := snd c; el_name := nm |} = Ok we)
                 (map (fun p => ecore (snd p)) (aiter (m_elements (ps_m s)))) (fst r)).
  { apply Forall2_map_l. eapply Forall2_impl; [|exact F]. cbn beta. intros a b H. exists (el_name (snd a)).
    unfold ecore. cbn [fst snd]. destruct (snd a); exact H. }
  rewrite HA in F'. apply Forall2_map_l in F'. eapply Forall2_impl; [|exact F']. cbn beta. intros a b H.
  assert (R : elem_rt (snd r) a b) by (apply emit_elem_rt; right; exact H).
  clear - R XL. unfold elem_rt, ren_const, get_idx in *. rewrite !XL by discriminate. exact R.
Qed.
Theorem structure_elems : forall cf ver w s ilen dw e l, parseM cf ver w = POk s -> emitM (ps_m s) ilen dw = Ok e ->
  stream_wf w = true -> In (S_Elems l) w -> l <> [] ->
  exists es, In (S_Elems es) (em_secs e) /\ Forall2 (elem_rt (em_x2i e)) l es.
Proof.
  intros cf ver w s ilen dw e l Hp He Hwf Hin Hne.
  assert (E : flat_map elems_of w = l).
  { apply (once_flat_map elems_of 8) with (sec := S_Elems l); [|apply stream_wf_once; [exact Hwf|lia]|exact Hin|reflexivity].
    intros [] Hs; try reflexivity. discriminate. }
  rewrite <- E in *. eapply structure_elems_gen; eauto.
Qed.

(* ---------------------------------------------------------------- stream_wf is satisfiable by a non-trivial stream *)
Definition ex_table : wtable := {| wt_elem := RT_Funcref; wt_64 := false; wt_init := 1%N; wt_max := Some 2%N |}.
Definition ex_mem : wmem := {| wm_64 := false; wm_shared := false; wm_init := 1%N; wm_max := None; wm_page := None |}.
Definition ex_stream : list wsec :=
  [ S_Custom (CS_Raw [1%N] []);
    S_Types [([], [])];
    S_Imports [ {| wi_module := [109%N]; wi_name := [116%N]; wi_kind := WI_Table ex_table |};
                {| wi_module := [109%N]; wi_name := [102%N]; wi_kind := WI_Func 0%N |} ];
    S_Tables [ex_table; ex_table];
    S_Mems [ex_mem];
    S_Globals [({| wg_ty := VT_I32; wg_mut := true; wg_shared := false |}, WC_I32 7%Z)];
    S_Exports [ {| we_name := [101%N]; we_kind := EK_Table; we_index := 1%N |} ];
    S_Start 0%N;
    S_Custom (CS_Raw [2%N] [3%N]) ].
Example ex_stream_wf : stream_wf ex_stream = true.
Proof. reflexivity. Qed.
Example ex_stream_not_wf : stream_wf (S_Tables [ex_table] :: ex_stream) = false.
Proof. reflexivity. Qed.

Print Assumptions attr_table_local_rt.
Print Assumptions attr_table_import_rt.
Print Assumptions attr_memory_local_rt.
Print Assumptions attr_memory_import_rt.
Print Assumptions attr_global_local_rt.
Print Assumptions attr_global_import_rt.
Print Assumptions structure_tables.
Print Assumptions structure_mems.
Print Assumptions structure_tables_gen.
Print Assumptions structure_mems_gen.
Print Assumptions structure_imports.
Print Assumptions structure_imports_gen.
Print Assumptions structure_start.
Print Assumptions structure_start_gen.
Print Assumptions structure_start_none.
Print Assumptions structure_exports.
Print Assumptions structure_exports_gen.
Print Assumptions structure_globals.
Print Assumptions structure_globals_gen.
Print Assumptions structure_counts.
Print Assumptions structure_elems.
Print Assumptions structure_elems_gen.
Print Assumptions rho_entity.
Print Assumptions rho_entity_conv.
