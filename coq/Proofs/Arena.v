(* Proofs about Model/Arena.v : invariants over every history of operations. *)
From Coq Require Import List NArith Bool Arith Lia Sorted Permutation.
Import ListNotations.
From WV Require Import Model.Arena.

Section ArenaProofs.
  Variable A : Type.
  Variable on_delete : A -> A.
  Variable eqA : A -> A -> bool.

  Notation tarena := (tarena A).
  Notation step := (step on_delete eqA).
  Notation run := (run on_delete eqA).

  Implicit Types a : tarena.

  Definition Inv (a : tarena) : Prop :=
    NoDup (dead a) /\ Forall (fun d => d < length (items a)) (dead a).

  Lemma inv_empty : Inv (@empty A).
  Proof. split; constructor. Qed.

  Lemma is_dead_In a id : is_dead a id = true <-> In id (dead a).
  Proof.
    unfold is_dead. rewrite existsb_exists. split.
    - intros [x [Hin Hx]]. apply Nat.eqb_eq in Hx. subst. exact Hin.
    - intros H. exists id. split; [exact H|apply Nat.eqb_refl].
  Qed.

  Lemma is_dead_false a id : is_dead a id = false <-> ~ In id (dead a).
  Proof.
    rewrite <- is_dead_In. destruct (is_dead a id); split; intros H; congruence.
  Qed.

  Lemma upd_length (l : list A) n f : length (upd l n f) = length l.
  Proof. revert n; induction l as [|x r IH]; intros [|n]; cbn; auto. Qed.

  Lemma upd_nth_ne (l : list A) n m f : n <> m -> nth_error (upd l n f) m = nth_error l m.
  Proof.
    revert n m; induction l as [|x r IH]; intros [|n] [|m] H; cbn; auto; try congruence.
  Qed.

  Lemma upd_nth_eq (l : list A) n f v :
    nth_error l n = Some v -> nth_error (upd l n f) n = Some (f v).
  Proof.
    revert n; induction l as [|x r IH]; intros [|n]; cbn; try discriminate.
    - intros H; inversion H; reflexivity.
    - apply IH.
  Qed.

  (* ---- one step preserves the invariant ---- *)
  Lemma contains_spec a id :
    contains a id = true <-> id < length (items a) /\ ~ In id (dead a).
  Proof.
    unfold contains. destruct (nth_error (items a) id) eqn:E.
    - assert (id < length (items a)) by (apply nth_error_Some; congruence).
      rewrite negb_true_iff, is_dead_false. tauto.
    - apply nth_error_None in E. split; [congruence|lia].
  Qed.

  Lemma delete_inv a id a' : Inv a -> delete on_delete a id = Some a' -> Inv a'.
  Proof.
    intros [Hnd Hb] H. unfold delete in H.
    destruct (contains a id) eqn:C; [|discriminate]. inversion H; subst; clear H.
    apply contains_spec in C. destruct C as [Hlt Hni].
    split; cbn.
    - constructor; assumption.
    - rewrite upd_length. constructor; [exact Hlt|exact Hb].
  Qed.

  Lemma alloc_inv a v : Inv a -> Inv (fst (alloc a v)).
  Proof.
    intros [Hnd Hb]. split; cbn; [exact Hnd|].
    rewrite app_length; cbn. eapply Forall_impl; [|exact Hb]. cbn; intros; lia.
  Qed.

  Lemma step_inv a o : Inv a -> Inv (fst (step a o)).
  Proof.
    intros H. destruct o as [v|id|id|id| | |w| ]; cbn; try exact H.
    - apply alloc_inv; exact H.
    - destruct (delete on_delete a id) eqn:E; cbn; [eapply delete_inv; eauto|exact H].
  Qed.

  Lemma run_cons a o r :
    run a (o :: r) = (fst (run (fst (step a o)) r), snd (step a o) :: snd (run (fst (step a o)) r)).
  Proof.
    cbn [Arena.run]. destruct (step a o) as [a' x]. cbn [fst snd].
    destruct (Arena.run on_delete eqA a' r) as [a'' xs]. reflexivity.
  Qed.

  Lemma run_inv ops : forall a, Inv a -> Inv (fst (run a ops)).
  Proof.
    induction ops as [|o r IH]; intros a H; [exact H|].
    rewrite run_cons. cbn [fst]. apply IH, step_inv, H.
  Qed.

  (* ---- identifiers: fresh, strictly increasing, never recycled ---- *)
  Definition ids_of (outs : list (out A)) : list nat :=
    flat_map (fun x => match x with RId id => [id] | _ => [] end) outs.
  Definition n_allocs (ops : list (op A)) : nat :=
    length (filter (fun o => match o with OAlloc _ => true | _ => false end) ops).

  Lemma step_next_id a o :
    next_id (fst (step a o)) = next_id a + (match o with OAlloc _ => 1 | _ => 0 end).
  Proof.
    unfold next_id. destruct o as [v|id|id|id| | |w| ]; cbn; try lia.
    - rewrite app_length; cbn; lia.
    - unfold delete. destruct (contains a id); cbn; [rewrite upd_length|]; lia.
  Qed.

  Lemma step_ids a o :
    ids_of [snd (step a o)] = match o with OAlloc _ => [next_id a] | _ => [] end.
  Proof.
    destruct o as [v|id|id|id| | |w| ]; cbn; try reflexivity.
    - destruct (delete on_delete a id); reflexivity.
    - destruct (index a id); reflexivity.
    - destruct (len a); reflexivity.
  Qed.

  Lemma ids_of_cons x xs : ids_of (x :: xs) = ids_of [x] ++ ids_of xs.
  Proof. unfold ids_of. cbn. rewrite app_nil_r. reflexivity. Qed.

  Theorem ids_fresh ops : forall a,
    ids_of (snd (run a ops)) = seq (next_id a) (n_allocs ops).
  Proof.
    induction ops as [|o r IH]; intros a; [reflexivity|].
    rewrite run_cons. cbn [snd].
    rewrite ids_of_cons, IH, step_ids, step_next_id. unfold n_allocs.
    destruct o; cbn [filter length seq app]; rewrite ?Nat.add_0_r, ?Nat.add_1_r; reflexivity.
  Qed.

  Corollary ids_nodup a ops : NoDup (ids_of (snd (run a ops))).
  Proof. rewrite ids_fresh. apply seq_NoDup. Qed.

  Corollary ids_not_recycled a ops id :
    In id (ids_of (snd (run a ops))) -> next_id a <= id.
  Proof. rewrite ids_fresh, in_seq. lia. Qed.

  (* ---- stability: an id denotes its item until that id is deleted ---- *)
  Lemma index_lt a id v : index a id = Some v -> id < length (items a).
  Proof.
    unfold index, get. destruct (is_dead a id); [discriminate|].
    intros H. apply nth_error_Some. congruence.
  Qed.

  Lemma step_stable a o id v :
    index a id = Some v -> o <> ODelete id -> index (fst (step a o)) id = Some v.
  Proof.
    intros H Hne. pose proof (index_lt _ _ _ H) as Hlt.
    destruct o as [w|d|d|d| | |w'| ]; cbn; try exact H.
    - unfold index, get, is_dead in *; cbn. destruct (existsb _ _); [discriminate|].
      rewrite nth_error_app1; assumption.
    - unfold delete. destruct (contains a d) eqn:C; cbn; [|exact H].
      assert (d <> id) as Hd by congruence.
      unfold index, get, is_dead in *; cbn.
      destruct (Nat.eqb_spec id d); [congruence|]. cbn.
      destruct (existsb _ _); [discriminate|]. rewrite upd_nth_ne; auto.
  Qed.

  Theorem run_stable ops : forall a id v,
    index a id = Some v -> ~ In (ODelete id) ops -> index (fst (run a ops)) id = Some v.
  Proof.
    induction ops as [|o r IH]; intros a id v H Hn; [exact H|].
    rewrite run_cons. cbn [fst]. apply IH.
    - apply step_stable; [exact H|]. intros ->. apply Hn. left; reflexivity.
    - intros Hin. apply Hn. right; exact Hin.
  Qed.

  (* ---- deletion: dead forever, isolated ---- *)
  Lemma delete_dead a id a' : delete on_delete a id = Some a' -> is_dead a' id = true.
  Proof.
    unfold delete. destruct (contains a id); [|discriminate]. intros H; inversion H.
    unfold is_dead; cbn. rewrite Nat.eqb_refl. reflexivity.
  Qed.

  Lemma delete_isolated a id a' id' :
    delete on_delete a id = Some a' -> id' <> id -> index a' id' = index a id'.
  Proof.
    unfold delete. destruct (contains a id); [|discriminate]. intros H Hne; inversion H.
    unfold index, get, is_dead; cbn.
    destruct (Nat.eqb_spec id' id); [congruence|]. cbn.
    rewrite upd_nth_ne; auto.
  Qed.

  Lemma step_dead a o id : is_dead a id = true -> is_dead (fst (step a o)) id = true.
  Proof.
    intros H. destruct o as [w|d|d|d| | |w'| ]; cbn; try exact H.
    - unfold delete. destruct (contains a d); cbn; [|exact H].
      unfold is_dead in *; cbn. rewrite H. apply orb_true_r.
  Qed.

  Theorem run_dead ops : forall a id,
    is_dead a id = true -> is_dead (fst (run a ops)) id = true.
  Proof.
    induction ops as [|o r IH]; intros a id H; [exact H|].
    rewrite run_cons. cbn [fst]. apply IH, step_dead, H.
  Qed.

  Corollary dead_absent a id :
    is_dead a id = true -> index a id = None /\ contains a id = false.
  Proof.
    intros H. unfold index, get, contains. rewrite H.
    split; [reflexivity|]. destruct (nth_error _ _); reflexivity.
  Qed.

  (* ---- iteration: exactly the live items, in creation order ---- *)
  Lemma iter_from_spec (l : list A) d n id v :
    In (id, v) (iter_from n l d) <->
    (n <= id /\ nth_error l (id - n) = Some v /\ existsb (Nat.eqb id) d = false).
  Proof.
    revert n; induction l as [|x r IH]; intros n; cbn [iter_from].
    - split; [intros []|]. intros [_ [H _]]. destruct (id - n); discriminate.
    - destruct (existsb (Nat.eqb n) d) eqn:E.
      + rewrite IH. split.
        * intros [Hle [Hn Hd]]. split; [lia|]. split; [|exact Hd].
          replace (id - n) with (S (id - S n)) by lia. exact Hn.
        * intros [Hle [Hn Hd]].
          destruct (Nat.eq_dec id n) as [->|Hne]; [congruence|].
          split; [lia|]. split; [|exact Hd].
          replace (id - n) with (S (id - S n)) in Hn by lia. exact Hn.
      + cbn [In]. rewrite IH. split.
        * intros [H|[Hle [Hn Hd]]].
          -- inversion H; subst. rewrite Nat.sub_diag. auto.
          -- split; [lia|]. split; [|exact Hd].
             replace (id - n) with (S (id - S n)) by lia. exact Hn.
        * intros [Hle [Hn Hd]].
          destruct (Nat.eq_dec id n) as [->|Hne].
          -- rewrite Nat.sub_diag in Hn. cbn in Hn. left. congruence.
          -- right. split; [lia|]. split; [|exact Hd].
             replace (id - n) with (S (id - S n)) in Hn by lia. exact Hn.
  Qed.

  Theorem iter_live a id v : In (id, v) (iter a) <-> index a id = Some v.
  Proof.
    unfold iter. rewrite iter_from_spec, Nat.sub_0_r.
    unfold index, get, is_dead. destruct (existsb (Nat.eqb id) (dead a)).
    - split; [intros [_ [_ H]]; discriminate|discriminate].
    - split; [tauto|]. intros H. split; [lia|auto].
  Qed.

  Lemma iter_from_sorted (l : list A) d : forall n,
    StronglySorted lt (map fst (iter_from n l d)) /\
    Forall (fun i => n <= i) (map fst (iter_from n l d)).
  Proof.
    induction l as [|x r IH]; intros n; cbn [iter_from].
    - split; constructor.
    - destruct (IH (S n)) as [Hs Hf].
      destruct (existsb (Nat.eqb n) d).
      + split; [exact Hs|]. eapply Forall_impl; [|exact Hf]. cbn; intros; lia.
      + cbn [map fst]. split.
        * constructor; [exact Hs|]. eapply Forall_impl; [|exact Hf]. cbn; intros; lia.
        * constructor; [lia|]. eapply Forall_impl; [|exact Hf]. cbn; intros; lia.
  Qed.

  Theorem iter_creation_order a : StronglySorted lt (map fst (iter a)).
  Proof. apply iter_from_sorted. Qed.

  (* ---- len = number of live items ---- *)
  Lemma iter_from_ids (l : list A) d : forall n,
    map fst (iter_from n l d) =
    filter (fun i => negb (existsb (Nat.eqb i) d)) (seq n (length l)).
  Proof.
    induction l as [|x r IH]; intros n; cbn [iter_from length seq filter]; [reflexivity|].
    destruct (existsb (Nat.eqb n) d); cbn [negb map fst]; rewrite IH; reflexivity.
  Qed.

  Lemma nodup_app (X : Type) (l1 l2 : list X) :
    NoDup l1 -> NoDup l2 -> (forall x, In x l1 -> ~ In x l2) -> NoDup (l1 ++ l2).
  Proof.
    induction l1 as [|x r IH]; intros H1 H2 Hd; [exact H2|].
    inversion H1; subst. cbn. constructor.
    - rewrite in_app_iff. intros [Hin|Hin]; [contradiction|].
      apply (Hd x); [left; reflexivity|exact Hin].
    - apply IH; auto. intros y Hy. apply Hd. right; exact Hy.
  Qed.

  Lemma live_count d n :
    NoDup d -> Forall (fun i => i < n) d ->
    length (filter (fun i => negb (existsb (Nat.eqb i) d)) (seq 0 n)) + length d = n.
  Proof.
    intros Hnd Hb.
    set (L := filter (fun i => negb (existsb (Nat.eqb i) d)) (seq 0 n)).
    assert (HinL : forall i, In i L <-> i < n /\ ~ In i d).
    { intros i. unfold L. rewrite filter_In, in_seq, negb_true_iff.
      assert (existsb (Nat.eqb i) d = false <-> ~ In i d) as ->.
      { destruct (existsb (Nat.eqb i) d) eqn:E.
        - apply existsb_exists in E. destruct E as [y [Hy He]]. apply Nat.eqb_eq in He; subst.
          split; [discriminate|]. intros Hn; contradiction.
        - split; [|reflexivity]. intros _ Hin.
          assert (existsb (Nat.eqb i) d = true) as E'
            by (apply existsb_exists; exists i; split; [exact Hin|apply Nat.eqb_refl]).
          congruence. }
      split; [intros [[_ H1] H2]; split; [cbn in H1; lia|exact H2]|intros [H1 H2]; split; [lia|exact H2]]. }
    assert (Hp : length (L ++ d) = length (seq 0 n)).
    { apply Permutation.Permutation_length, Permutation.NoDup_Permutation.
      - apply nodup_app; [apply NoDup_filter, seq_NoDup|exact Hnd|].
        intros x Hx. apply HinL in Hx. tauto.
      - apply seq_NoDup.
      - intros x. rewrite in_app_iff, HinL, in_seq. rewrite Forall_forall in Hb. split.
        + intros [[H _]|H]; [lia|]. apply Hb in H. lia.
        + intros [_ H]. cbn in H. destruct (in_dec Nat.eq_dec x d); [right; assumption|left; tauto]. }
    rewrite app_length, seq_length in Hp. exact Hp.
  Qed.

  Theorem len_live a : Inv a -> len a = Some (length (iter a)).
  Proof.
    intros [Hnd Hb]. unfold len.
    pose proof (live_count (dead a) (length (items a)) Hnd Hb) as H.
    assert (length (iter a) = length (filter (fun i => negb (existsb (Nat.eqb i) (dead a))) (seq 0 (length (items a))))) as E.
    { unfold iter. rewrite <- iter_from_ids, map_length. reflexivity. }
    rewrite <- E in H.
    destruct (Nat.leb_spec (length (dead a)) (length (items a))); [f_equal; lia|lia].
  Qed.

  (* ---- find: the first live item (creation order) with an equal key ---- *)
  Theorem find_sound a v id :
    find_id eqA v (iter a) = Some id -> exists v0, index a id = Some v0 /\ eqA v0 v = true.
  Proof.
    unfold find_id. destruct (find _ (iter a)) as [[i x]|] eqn:E; [|discriminate].
    intros H; inversion H; subst. apply find_some in E. destruct E as [Hin He].
    exists x. split; [apply iter_live; exact Hin|exact He].
  Qed.

  Theorem find_complete a v :
    find_id eqA v (iter a) = None -> forall id v0, index a id = Some v0 -> eqA v0 v = false.
  Proof.
    unfold find_id. destruct (find _ (iter a)) as [p|] eqn:E; [discriminate|].
    intros _ id v0 Hi. apply iter_live in Hi.
    apply (find_none _ _ E) in Hi. exact Hi.
  Qed.
End ArenaProofs.
