(* C08, module level fixpoint, part 30: the prefix premise of ModFix27's content lemmas, packaged. *)
From Coq Require Import List NArith ZArith Bool Arith Lia.
Import ListNotations.
From WV Require Import Gen.Ops Model.Common Model.IR Model.Arena Model.Traversal Model.EmitFn Model.Locals
                       Model.ParseFn Model.ModuleM Model.ParseM Model.EmitM Gen.Attrs.
From WV Require Import Proofs.Arena Proofs.Order Proofs.IndexMaps Proofs.CustomsCfg Proofs.Structure Proofs.Structure2
                       Proofs.Totality Proofs.Renumbering Proofs.ParseTotal Proofs.ModFix Proofs.ModFix4 Proofs.ModFix2 Proofs.ModFix16
                       Proofs.ModFix23 Proofs.ModFix26 Proofs.ModFix27.
Local Open Scope nat_scope.

Theorem prefix_content_ok m ilen e pre s post : emitM m ilen [] = Ok e -> em_secs e = pre ++ s :: post ->
  sec_tag s = Some 8 \/ sec_tag s = Some 11 ->
  flat_map sec_globs pre = flat_map sec_globs (em_secs e) /\ flat_map sec_tabs pre = flat_map sec_tabs (em_secs e) /\
  flat_map sec_mems64 pre = flat_map sec_mems64 (em_secs e).
Proof.
  intros He E Ht. pose proof (emitted_order_ok _ _ _ He) as Ho. rewrite E in Ho.
  destruct (order_b_suffix _ _ _ _ Ho) as [l' Ho']. cbn [order_b] in Ho'.
  assert (Hr : exists r, rank s = Some r /\ 9 <= r).
  { destruct Ht as [Ht|Ht]; destruct s; try discriminate Ht; eexists; (split; [reflexivity|lia]). }
  destruct Hr as (r & Hr & Hr9). rewrite Hr in Ho'. apply andb_true_iff in Ho'. destruct Ho' as [_ Ho'].
  pose proof (order_b_after _ _ Ho') as Hafter.
  assert (Hs : sec_globs s = [] /\ sec_tabs s = [] /\ sec_mems64 s = []).
  { destruct Ht as [Ht|Ht]; destruct s; try discriminate Ht; repeat split. }
  destruct Hs as (S1 & S2 & S3).
  assert (Hp : forall s', In s' post -> sec_globs s' = [] /\ sec_tabs s' = [] /\ sec_mems64 s' = []).
  { intros s' Hin. destruct s'; try (repeat split; fail); pose proof (Hafter _ _ Hin eq_refl); lia. }
  rewrite E, !flat_map_app; cbn [flat_map]; rewrite S1, S2, S3; cbn [app].
  rewrite (flat_map_nil sec_globs post), (flat_map_nil sec_tabs post), (flat_map_nil sec_mems64 post) by (intros s' Hin; apply (Hp s' Hin)).
  rewrite !app_nil_r. repeat split.
Qed.

Theorem data_offsets_holds : forall cf ver w s1 ilen e1, parseM cf ver w = POk s1 -> emitM (ps_m s1) ilen [] = Ok e1 ->
  ModFix26.offsets_ok (ps_m s1) ->
  forall pre l post d, em_secs e1 = pre ++ S_Data l :: post -> In d l -> ModFix23.data_off (ModFix16.ctx_after pre) d.
Proof.
  intros cf ver w s1 ilen e1 HP HE [_ HO] pre l post d E Hd.
  destruct (prefix_content_ok _ _ _ _ _ _ HE E (or_intror eq_refl)) as (PG & _ & PM).
  pose proof HE as HE'. emitM_parts2 HE'.
  assert (Hin : In (S_Data l) s_da).
  { destruct (Etags (S_Data l) 11) as [[]|H]; [rewrite E; apply in_or_app; right; left; reflexivity|reflexivity|exact H]. }
  unfold emit_data in Eda. destruct (aiter (m_data (ps_m s1))) as [|p0 ps] eqn:El; [inversion Eda; subst; destruct Hin|].
  rewrite <- El in *. rinv Eda as ds Eds. inversion Eda; subst s_da; clear Eda. destruct Hin as [Hin|[]]. inversion Hin; subst ds; clear Hin.
  destruct (rmapM_in _ _ _ Eds _ Hd) as ([id da] & Hp & Hf). cbn [snd] in Hf. unfold data_off.
  destruct (da_kind da) as [|mem off] eqn:Ek; [inversion Hf; subst; exact I|].
  rinv Hf as mi Emi. rinv Hf as o Eo. inversion Hf; subst d; clear Hf. cbn [wd_kind]. intros is64 Hn.
  destruct (HO id da mem off Hp Ek) as (me & Hme & Hok).
  rewrite (prefix_mem_flag _ _ _ _ _ _ _ _ _ _ HP HE PM Emi Hme) in Hn. inversion Hn; subst is64; clear Hn.
  destruct off as [v|g|t|f]; cbn [offset_ok emit_const] in *; try discriminate Hok.
  - destruct v; inversion Eo; subst o; cbn [offset_valid]; inversion Hok; try reflexivity; try discriminate.
  - destruct (get_idx (em_x2i e1) S_global g) as [j| |] eqn:Ej; cbn [rmap] in Eo; inversion Eo; subst o. cbn [offset_valid].
    unfold global_ty in Hok. destruct (aget (m_globals (ps_m s1)) g) as [gl|] eqn:Eg; cbn [option_map of_opt_panic pbind] in Hok; [|discriminate Hok].
    rewrite (prefix_glob_type _ _ _ _ _ _ _ _ _ _ HP HE PG Ej Eg). inversion Hok as [Hb]. destruct (gl_ty gl); try discriminate Hb; reflexivity.
Qed.

Print Assumptions data_offsets_holds.
Theorem elem_offsets_holds : forall cf ver w s1 ilen e1, parseM cf ver w = POk s1 -> emitM (ps_m s1) ilen [] = Ok e1 ->
  ModFix26.offsets_ok (ps_m s1) ->
  forall pre l post we, em_secs e1 = pre ++ S_Elems l :: post -> In we l -> ModFix23.elem_off (ModFix16.ctx_after pre) we.
Proof.
  intros cf ver w s1 ilen e1 HP HE [HO _] pre l post we E Hw.
  destruct (prefix_content_ok _ _ _ _ _ _ HE E (or_introl eq_refl)) as (PG & PT & _).
  pose proof HE as HE'. emitM_parts2 HE'.
  pose proof (emitM_late_maps _ _ _ _ _ _ _ _ _ _ Eel Edc Eco) as Hlate.
  assert (Hin : In (S_Elems l) s_el).
  { destruct (Etags (S_Elems l) 8) as [[]|H]; [rewrite E; apply in_or_app; right; left; reflexivity|reflexivity|exact H]. }
  rewrite emit_elements_unfold in Eel. destruct (aiter (m_elements (ps_m s1))) as [|p0 ps] eqn:El; [inversion Eel; subst; destruct Hin|].
  rewrite <- El in *. rinv Eel as r Er. inversion Eel; subst s_el x9; clear Eel. destruct Hin as [Hin|[]]. inversion Hin; subst l; clear Hin.
  pose proof (elems_go_x _ _ _ Er) as X9. apply elems_go_entries' in Er. destruct Er as [_ F].
  assert (Hx : forall S id, S <> S_elem -> S <> S_data -> get_idx (snd r) S id = get_idx (em_x2i e1) S id).
  { intros S id H1 H2. unfold get_idx. rewrite X9, push_all_other by congruence. rewrite Hlate by assumption. reflexivity. }
  assert (exists p, In p (aiter (m_elements (ps_m s1))) /\ emit_elem (snd r) (snd p) = Ok we) as ([id el] & Hp & Hf).
  { clear - F Hw. induction F as [|a b la lb Hab _ IH]; [destruct Hw|]. destruct Hw as [<-|Hw].
    - exists a. split; [left; reflexivity|exact Hab].
    - destruct (IH Hw) as (p & Hp & Hf). exists p. split; [right; exact Hp|exact Hf]. }
  cbn [snd] in Hf. unfold emit_elem in Hf. rinv Hf as its Eits. rinv Hf as kind Ekind. inversion Hf; subst we; clear Hf. unfold elem_off. cbn [wel_kind].
  destruct (el_kind el) as [| |t off] eqn:Ek; try (inversion Ekind; subst kind; exact I).
  rinv Ekind as ti Eti. rinv Ekind as o Eo. inversion Ekind; subst kind; clear Ekind.
  assert (Etb : tbl0 (if N.eqb ti 0 then None else Some ti) = ti) by (destruct (N.eqb_spec ti 0%N) as [->|]; reflexivity).
  rewrite Etb. intros is64 Hn.
  destruct (HO id el t off Hp Ek) as (tb & Htb & Hok).
  rewrite Hx in Eti by discriminate.
  rewrite (prefix_tab_flag _ _ _ _ _ _ _ _ _ _ HP HE PT Eti Htb) in Hn. inversion Hn; subst is64; clear Hn.
  destruct off as [v|g|ty|f]; cbn [offset_ok emit_const] in *; try discriminate Hok.
  - destruct v; inversion Eo; subst o; cbn [offset_valid]; inversion Hok; try reflexivity; try discriminate.
  - rewrite Hx in Eo by discriminate.
    destruct (get_idx (em_x2i e1) S_global g) as [j| |] eqn:Ej; cbn [rmap] in Eo; inversion Eo; subst o. cbn [offset_valid].
    unfold global_ty in Hok. destruct (aget (m_globals (ps_m s1)) g) as [gl|] eqn:Eg; cbn [option_map of_opt_panic pbind] in Hok; [|discriminate Hok].
    rewrite (prefix_glob_type _ _ _ _ _ _ _ _ _ _ HP HE PG Ej Eg). inversion Hok as [Hb]. destruct (gl_ty gl); try discriminate Hb; reflexivity.
Qed.

Print Assumptions elem_offsets_holds.
Theorem emitted_valid_b_from_offsets : forall cf ver w s1 ilen e1, parseM cf ver w = POk s1 -> emitM (ps_m s1) ilen [] = Ok e1 ->
  ModFix26.offsets_ok (ps_m s1) -> valid_from_b ctx0 (em_secs e1) = true.
Proof.
  intros cf ver w s1 ilen e1 HP HE HO. apply (emitted_valid_b_full2 _ _ _ _ _ _ HP HE).
  - exact (elem_offsets_holds _ _ _ _ _ _ HP HE HO).
  - exact (data_offsets_holds _ _ _ _ _ _ HP HE HO).
Qed.

Print Assumptions emitted_valid_b_from_offsets.
Print Assumptions prefix_content_ok.
