(* Debug names stay attached to the same entities: parse (apply_names / parse_names) -> emit
   (named / emit_names), with no pass in between.
   Part A: what apply_names does to an arena.
   Part B: what named / emit_names produce.
   Part C: the composition parseM ; emitM.
   Part D: the module name. *)
From Coq Require Import List NArith ZArith Bool Arith Lia Permutation Sorted.
Import ListNotations.
From WV Require Import Gen.Ops Model.Common Model.IR Model.Arena Model.Traversal Model.EmitFn Model.Locals
                       Model.ParseFn Model.ModuleM Model.ParseM Model.EmitM Gen.Attrs.
From WV Require Import Proofs.Arena Proofs.Order Proofs.IndexMaps.
Local Open Scope nat_scope.

Notation nstr := ModuleM.str.

(* ====================================================================================== *)
(* Part A: apply_names                                                                      *)
(* ====================================================================================== *)

(* the name the section gives to the entity [id]: the LAST entry whose index resolves to [id] *)
Fixpoint last_for (idx2id : list N) (l : namemap) (id : N) : option nstr :=
  match l with
  | [] => None
  | (i, n) :: r =>
      match last_for idx2id r id with
      | Some x => Some x
      | None => match nth_N idx2id i with
                | Some id' => if N.eqb id' id then Some n else None
                | None => None
                end
      end
  end.

(* the last entry with index [k] *)
Fixpoint last_name (l : namemap) (k : N) : option nstr :=
  match l with
  | [] => None
  | (i, n) :: r => match last_name r k with Some x => Some x | None => if N.eqb i k then Some n else None end
  end.

Definition renamed {A} (setn : A -> nstr -> A) (o : option nstr) (old : A) : A :=
  match o with Some n => setn old n | None => old end.

Lemma upd_nth_none {A} (l : list A) n f : nth_error l n = None -> nth_error (Arena.upd l n f) n = None.
Proof. intros H. apply nth_error_None. rewrite upd_length. apply nth_error_None. exact H. Qed.

(* general: any index vector (used as is for the type arena, whose vector is not injective) *)
Theorem apply_names_nth {A} (setn : A -> nstr -> A) (idx2id : list N)
  (Hset : forall x a b, setn (setn x a) b = setn x b) :
  forall (l : namemap) (a : tarena A) (k : nat),
    nth_error (items (apply_names a idx2id setn l)) k =
    option_map (renamed setn (last_for idx2id l (N.of_nat k))) (nth_error (items a) k).
Proof.
  induction l as [|[i n] r IH]; intros a k; cbn [apply_names last_for].
  - destruct (nth_error (items a) k); reflexivity.
  - destruct (nth_N idx2id i) as [id|] eqn:Ei.
    + rewrite IH. cbn [aset_at items].
      destruct (N.eqb_spec id (N.of_nat k)) as [Heq|Hne].
      * subst id. rewrite Nat2N.id. destruct (nth_error (items a) k) as [v|] eqn:Ev.
        -- rewrite (upd_nth_eq _ _ _ _ _ Ev). cbn [option_map].
           destruct (last_for idx2id r (N.of_nat k)); cbn [renamed]; [rewrite Hset|]; reflexivity.
        -- rewrite upd_nth_none by exact Ev. reflexivity.
      * rewrite upd_nth_ne by (intros Hc; apply Hne; rewrite <- Hc, N2Nat.id; reflexivity).
        destruct (last_for idx2id r (N.of_nat k)); reflexivity.
    + rewrite IH. destruct (last_for idx2id r (N.of_nat k)); reflexivity.
Qed.

Lemma nth_N_iota n i : nth_N (iota n) i = if N.to_nat i <? n then Some i else None.
Proof.
  unfold nth_N. destruct (Nat.ltb_spec (N.to_nat i) n) as [H|H].
  - rewrite iota_nth by exact H. rewrite N2Nat.id. reflexivity.
  - apply nth_error_None. rewrite iota_length. exact H.
Qed.

Lemma last_for_iota n l id : last_for (iota n) l id = if N.to_nat id <? n then last_name l id else None.
Proof.
  induction l as [|[i s] r IH]; cbn [last_for last_name].
  - destruct (N.to_nat id <? n); reflexivity.
  - rewrite IH, nth_N_iota.
    destruct (Nat.ltb_spec (N.to_nat id) n) as [H|H].
    + destruct (last_name r id); [reflexivity|].
      destruct (Nat.ltb_spec (N.to_nat i) n) as [Hi|Hi]; [reflexivity|].
      destruct (N.eqb_spec i id) as [->|_]; [lia|reflexivity].
    + destruct (Nat.ltb_spec (N.to_nat i) n) as [Hi|Hi]; [|reflexivity].
      destruct (N.eqb_spec i id) as [->|_]; [lia|reflexivity].
Qed.

(* entries whose index does not resolve are skipped (Rust: a warning) *)
Lemma apply_names_skip {A} (setn : A -> nstr -> A) idx2id i n r (a : tarena A) :
  nth_N idx2id i = None -> apply_names a idx2id setn ((i, n) :: r) = apply_names a idx2id setn r.
Proof. intros H. cbn [apply_names]. rewrite H. reflexivity. Qed.

Lemma apply_names_filter {A} (setn : A -> nstr -> A) idx2id : forall l (a : tarena A),
  apply_names a idx2id setn l =
  apply_names a idx2id setn (filter (fun p => match nth_N idx2id (fst p) with Some _ => true | None => false end) l).
Proof.
  induction l as [|[i n] r IH]; intros a; cbn [apply_names filter fst]; [reflexivity|].
  destruct (nth_N idx2id i) eqn:E; cbn [apply_names]; [rewrite E|]; apply IH.
Qed.

Lemma apply_names_app {A} (setn : A -> nstr -> A) idx2id : forall l1 l2 (a : tarena A),
  apply_names a idx2id setn (l1 ++ l2) = apply_names (apply_names a idx2id setn l1) idx2id setn l2.
Proof.
  induction l1 as [|[i n] r IH]; intros l2 a; cbn [apply_names app]; [reflexivity|].
  destruct (nth_N idx2id i); apply IH.
Qed.

(* Theorem A: identity index vector over an arena with n items *)
Theorem apply_names_spec {A} (setn : A -> nstr -> A) (a : tarena A) (l : namemap)
  (Hset : forall x s t, setn (setn x s) t = setn x t) :
  let a' := apply_names a (iota (length (items a))) setn l in
  length (items a') = length (items a) /\ dead a' = dead a /\
  (forall k old, nth_error (items a) k = Some old ->
     nth_error (items a') k = Some (renamed setn (last_name l (N.of_nat k)) old)) /\
  a' = apply_names a (iota (length (items a))) setn (filter (fun p => N.to_nat (fst p) <? length (items a)) l).
Proof.
  cbv zeta. destruct (apply_names_shape setn (iota (length (items a))) l a) as [HL HD].
  split; [exact HL|]. split; [exact HD|]. split.
  - intros k old Hk. rewrite (apply_names_nth setn _ Hset), Hk. cbn [option_map].
    rewrite last_for_iota, Nat2N.id.
    assert (Hlt : k < length (items a)) by (apply nth_error_Some; congruence).
    apply Nat.ltb_lt in Hlt. rewrite Hlt. reflexivity.
  - rewrite apply_names_filter. f_equal. apply filter_ext. intros [i n]. cbn [fst]. rewrite nth_N_iota.
    destruct (N.to_nat i <? length (items a)); reflexivity.
Qed.

(* the same through the arena accessor (dead ids stay dead, live ones are renamed) *)
Lemma aget_apply_names {A} (setn : A -> nstr -> A) idx2id (l : namemap) (a : tarena A) id
  (Hset : forall x s t, setn (setn x s) t = setn x t) :
  aget (apply_names a idx2id setn l) id = option_map (renamed setn (last_for idx2id l id)) (aget a id).
Proof.
  unfold aget, index, get, is_dead. rewrite (proj2 (apply_names_shape setn idx2id l a)).
  destruct (existsb _ (dead a)); [reflexivity|].
  rewrite (apply_names_nth setn idx2id Hset), N2Nat.id. reflexivity.
Qed.

Lemma aget_nth {A} (a : tarena A) id v : aget a id = Some v -> nth_error (items a) (N.to_nat id) = Some v.
Proof. unfold aget, index, get, is_dead. destruct (existsb _ (dead a)); [discriminate|]. intros H; exact H. Qed.

(* ---------------------------------------------------------------- the setters parse_names uses *)
Definition set_fn_name (f : mfunc) (s : nstr) : mfunc := {| fn_kind := fn_kind f; fn_name := Some s |}.
Definition set_tb_name (t : mtable) (s : nstr) : mtable :=
  {| tb_64 := tb_64 t; tb_init := tb_init t; tb_max := tb_max t; tb_elem := tb_elem t; tb_import := tb_import t;
     tb_segs := tb_segs t; tb_name := Some s |}.
Definition set_me_name (t : mmem) (s : nstr) : mmem :=
  {| me_shared := me_shared t; me_64 := me_64 t; me_init := me_init t; me_max := me_max t; me_page := me_page t;
     me_import := me_import t; me_segs := me_segs t; me_name := Some s |}.
Definition set_gl_name (g : mglobal) (s : nstr) : mglobal :=
  {| gl_ty := gl_ty g; gl_mut := gl_mut g; gl_shared := gl_shared g; gl_kind := gl_kind g; gl_name := Some s |}.
Definition set_el_name (e : melem) (s : nstr) : melem := {| el_kind := el_kind e; el_items := el_items e; el_name := Some s |}.
Definition set_da_name (d : mdata) (s : nstr) : mdata := {| da_kind := da_kind d; da_value := da_value d; da_name := Some s |}.

Lemma set_fn_name_idem x s t : set_fn_name (set_fn_name x s) t = set_fn_name x t. Proof. reflexivity. Qed.
Lemma set_tb_name_idem x s t : set_tb_name (set_tb_name x s) t = set_tb_name x t. Proof. reflexivity. Qed.
Lemma set_me_name_idem x s t : set_me_name (set_me_name x s) t = set_me_name x t. Proof. reflexivity. Qed.
Lemma set_gl_name_idem x s t : set_gl_name (set_gl_name x s) t = set_gl_name x t. Proof. reflexivity. Qed.
Lemma set_el_name_idem x s t : set_el_name (set_el_name x s) t = set_el_name x t. Proof. reflexivity. Qed.
Lemma set_da_name_idem x s t : set_da_name (set_da_name x s) t = set_da_name x t. Proof. reflexivity. Qed.
Lemma set_type_name_idem x s t : set_type_name (set_type_name x s) t = set_type_name x t. Proof. reflexivity. Qed.

(* Per-kind instances of Theorem A (identity vector over the arena) *)
Definition apply_names_funcs a l := apply_names_spec set_fn_name a l set_fn_name_idem.
Definition apply_names_tables a l := apply_names_spec set_tb_name a l set_tb_name_idem.
Definition apply_names_memories a l := apply_names_spec set_me_name a l set_me_name_idem.
Definition apply_names_globals a l := apply_names_spec set_gl_name a l set_gl_name_idem.
Definition apply_names_elements a l := apply_names_spec set_el_name a l set_el_name_idem.
Definition apply_names_data a l := apply_names_spec set_da_name a l set_da_name_idem.
(* types: the vector is the (non-injective) ii_types, so the general form *)
Definition apply_names_types idx a l k := apply_names_nth set_type_name idx set_type_name_idem l a k.

(* ---------------------------------------------------------------- parse_names, field by field *)
(* Name::Local with a function index out of range: the entry is skipped (a warning), like the
   out-of-range entries of every other subsection.  (Before the repair in the code it aborted the rest
   of the name section; this file then carried a predicate [locals_abort] and an effective entry list
   [eff]; both are gone: [locals_abort] is constantly false and [eff g ids n = g n].) *)
Lemma apply_local_names_some : forall l m ids, exists m', apply_local_names m ids l = Some m'.
Proof.
  induction l as [|[fi names] r IH]; intros m ids; cbn [apply_local_names]; [eauto|].
  destruct (nth_N (ii_funcs ids) fi); apply IH.
Qed.

Lemma apply_local_names_frame : forall l m ids m', apply_local_names m ids l = Some m' ->
  m_funcs m' = m_funcs m /\ m_tables m' = m_tables m /\ m_memories m' = m_memories m /\ m_globals m' = m_globals m /\
  m_elements m' = m_elements m /\ m_data m' = m_data m /\ m_types m' = m_types m /\ m_name m' = m_name m /\
  m_config m' = m_config m.
Proof.
  induction l as [|[fi names] r IH]; intros m ids m' E; cbn [apply_local_names] in E.
  - inversion E; subst. auto 10.
  - destruct (nth_N (ii_funcs ids) fi); [|apply IH in E; exact E]. apply IH in E. wcbn. exact E.
Qed.

Ltac pn_field :=
  unfold parse_names; cbv zeta;
  match goal with |- context [apply_local_names ?mm ?ids (wn_locals ?n)] =>
    let m3 := fresh "m3" in let E3 := fresh "E3" in
    destruct (apply_local_names_some (wn_locals n) mm ids) as [m3 E3]; rewrite E3;
    apply apply_local_names_frame in E3; destruct E3 as (E1 & E2 & E3 & E4 & E5 & E6 & E7 & E8 & E9); wcbn;
    rewrite ?E1, ?E2, ?E3, ?E4, ?E5, ?E6, ?E7, ?E8, ?E9; wcbn; destruct (wn_module n); reflexivity
  end.

Lemma parse_names_funcs m ids n :
  m_funcs (parse_names m ids n) = apply_names (m_funcs m) (ii_funcs ids) set_fn_name (wn_funcs n).
Proof. pn_field. Qed.

Lemma parse_names_tables m ids n :
  m_tables (parse_names m ids n) = apply_names (m_tables m) (ii_tables ids) set_tb_name (wn_tables n).
Proof. pn_field. Qed.
Lemma parse_names_memories m ids n :
  m_memories (parse_names m ids n) = apply_names (m_memories m) (ii_memories ids) set_me_name (wn_mems n).
Proof. pn_field. Qed.
Lemma parse_names_globals m ids n :
  m_globals (parse_names m ids n) = apply_names (m_globals m) (ii_globals ids) set_gl_name (wn_globals n).
Proof. pn_field. Qed.
Lemma parse_names_elements m ids n :
  m_elements (parse_names m ids n) = apply_names (m_elements m) (ii_elements ids) set_el_name (wn_elems n).
Proof. pn_field. Qed.
Lemma parse_names_data m ids n :
  m_data (parse_names m ids n) = apply_names (m_data m) (ii_data ids) set_da_name (wn_data n).
Proof. pn_field. Qed.
Lemma parse_names_types m ids n :
  Arena.arena (m_types (parse_names m ids n)) =
  apply_names (Arena.arena (m_types m)) (ii_types ids) set_type_name (wn_types n).
Proof. pn_field. Qed.
Lemma parse_names_config m ids n : m_config (parse_names m ids n) = m_config m.
Proof. pn_field. Qed.
Lemma parse_names_name m ids n :
  m_name (parse_names m ids n) = match wn_module n with Some s => Some s | None => m_name m end.
Proof. pn_field. Qed.

(* several name sections: the entries are applied section after section *)
Definition parse_all_names (ids : i2ids) (ns : list wnames) (m : wir) : wir := fold_left (fun m n => parse_names m ids n) ns m.

Lemma fold_names_gen {A} (proj : wir -> tarena A) idx (setn : A -> nstr -> A) (g : wnames -> namemap) ids :
  (forall m n, proj (parse_names m ids n) = apply_names (proj m) idx setn (g n)) ->
  forall ns m, proj (parse_all_names ids ns m) = apply_names (proj m) idx setn (flat_map g ns).
Proof.
  intros H. unfold parse_all_names. induction ns as [|n r IH]; intros m; cbn [fold_left flat_map]; [reflexivity|].
  rewrite IH, H, apply_names_app. reflexivity.
Qed.

Lemma all_names_funcs ids ns m :
  m_funcs (parse_all_names ids ns m) = apply_names (m_funcs m) (ii_funcs ids) set_fn_name (flat_map wn_funcs ns).
Proof. apply (fold_names_gen m_funcs). intros; apply parse_names_funcs. Qed.
Lemma all_names_tables ids ns m :
  m_tables (parse_all_names ids ns m) = apply_names (m_tables m) (ii_tables ids) set_tb_name (flat_map wn_tables ns).
Proof. apply (fold_names_gen m_tables). intros; apply parse_names_tables. Qed.
Lemma all_names_memories ids ns m :
  m_memories (parse_all_names ids ns m) = apply_names (m_memories m) (ii_memories ids) set_me_name (flat_map wn_mems ns).
Proof. apply (fold_names_gen m_memories). intros; apply parse_names_memories. Qed.
Lemma all_names_globals ids ns m :
  m_globals (parse_all_names ids ns m) = apply_names (m_globals m) (ii_globals ids) set_gl_name (flat_map wn_globals ns).
Proof. apply (fold_names_gen m_globals). intros; apply parse_names_globals. Qed.
Lemma all_names_elements ids ns m :
  m_elements (parse_all_names ids ns m) = apply_names (m_elements m) (ii_elements ids) set_el_name (flat_map wn_elems ns).
Proof. apply (fold_names_gen m_elements). intros; apply parse_names_elements. Qed.
Lemma all_names_data ids ns m :
  m_data (parse_all_names ids ns m) = apply_names (m_data m) (ii_data ids) set_da_name (flat_map wn_data ns).
Proof. apply (fold_names_gen m_data). intros; apply parse_names_data. Qed.
Lemma all_names_types ids ns m :
  Arena.arena (m_types (parse_all_names ids ns m)) =
  apply_names (Arena.arena (m_types m)) (ii_types ids) set_type_name (flat_map wn_types ns).
Proof. apply (fold_names_gen (fun m => Arena.arena (m_types m))). intros; apply parse_names_types. Qed.
Lemma all_names_config ids ns : forall m, m_config (parse_all_names ids ns m) = m_config m.
Proof.
  unfold parse_all_names. induction ns as [|n r IH]; intros m; cbn [fold_left]; [reflexivity|].
  rewrite IH. apply parse_names_config.
Qed.
(* the module name: the last section that has one wins *)
Fixpoint last_module_name (ns : list wnames) : option nstr :=
  match ns with
  | [] => None
  | n :: r => match last_module_name r with Some s => Some s | None => wn_module n end
  end.
Lemma all_names_name ids ns : forall m,
  m_name (parse_all_names ids ns m) = match last_module_name ns with Some s => Some s | None => m_name m end.
Proof.
  unfold parse_all_names. induction ns as [|n r IH]; intros m; cbn [fold_left last_module_name]; [reflexivity|].
  rewrite IH, parse_names_name. destruct (last_module_name r); [reflexivity|]. destruct (wn_module n); reflexivity.
Qed.

(* ---------------------------------------------------------------- before the name sections are read, nothing has a name *)
Definition unnamed (m : wir) : Prop :=
  m_name m = None /\
  (cf_synthetic_names (m_config m) = false -> Forall (fun f => fn_name f = None) (items (m_funcs m))) /\
  Forall (fun t => tb_name t = None) (items (m_tables m)) /\
  Forall (fun t => me_name t = None) (items (m_memories m)) /\
  Forall (fun t => gl_name t = None) (items (m_globals m)) /\
  Forall (fun t => el_name t = None) (items (m_elements m)) /\
  Forall (fun t => da_name t = None) (items (m_data m)) /\
  Forall (fun t => ty_name t = None) (items (Arena.arena (m_types m))) /\
  (cf_synthetic_names (m_config m) = false -> Forall (fun t => lo_name t = None) (items (m_locals m))).

Lemma Forall_upd {A} (P : A -> Prop) f : (forall x, P x -> P (f x)) -> forall l n, Forall P l -> Forall P (Arena.upd l n f).
Proof.
  intros Hf. induction l as [|x r IH]; intros n H; destruct n; cbn [Arena.upd]; try exact H; inversion H; subst; constructor; auto.
Qed.

Ltac un_split :=
  repeat match goal with
         | H : unnamed _ |- _ => unfold unnamed in H; decompose [and] H; clear H
         end;
  unfold unnamed; wcbn;
  repeat match goal with |- _ /\ _ => split end.
Ltac un_one :=
  try (let Hs := fresh "Hsyn" in intros Hs;
       repeat match goal with H : _ = false -> _ |- _ => specialize (H Hs) end);
  first [ assumption
        | congruence
        | apply Forall_app; split; [assumption | constructor; [first [reflexivity | assumption] | constructor]]
        | apply Forall_upd; [intros ? Hx; exact Hx | assumption] ].
Ltac un_solve := un_split; un_one.

Lemma un_empty cf : unnamed (empty_wir cf).
Proof. unfold unnamed. cbn. repeat split; auto. Qed.

Lemma types_insert_un m t m1 id : unnamed m -> ty_name t = None -> types_insert m t = (m1, id) -> unnamed m1.
Proof.
  intros H Ht. unfold types_insert, insert. destruct (lookup mtype_eqb (already (m_types m)) t).
  - intros E; inversion E; subst; clear E. un_solve.
  - wcbn. intros E; inversion E; subst; clear E. un_solve.
Qed.

Lemma parse_types_un : forall ts m ids m' ids', unnamed m -> parse_types m ids ts = (m', ids') -> unnamed m'.
Proof.
  induction ts as [|[ps rs] r IH]; intros m ids m' ids' H E; cbn [parse_types] in E.
  - inversion E; subst; exact H.
  - destruct (types_insert m _) as [m1 id] eqn:Et.
    eapply IH; [|exact E]. eapply types_insert_un; [exact H| |exact Et]. reflexivity.
Qed.

Lemma parse_import_un m ids i m' ids' : unnamed m -> parse_import m ids i = POk (m', ids') -> unnamed m'.
Proof.
  intros H E. unfold parse_import in E. destruct (wi_kind i).
  - pinv E. wcbn. inversion E; subst; clear E. un_solve.
  - wcbn. inversion E; subst; clear E. un_solve.
  - wcbn. inversion E; subst; clear E. un_solve.
  - wcbn. inversion E; subst; clear E. un_solve.
Qed.
Lemma parse_imports_un : forall l m ids m' ids', unnamed m -> parse_imports m ids l = POk (m', ids') -> unnamed m'.
Proof.
  induction l as [|i r IH]; intros m ids m' ids' H E; cbn [parse_imports] in E.
  - inversion E; subst; exact H.
  - pinv E. destruct a as [m1 ids1]. eapply IH; [|exact E]. eapply parse_import_un; eauto.
Qed.

Lemma parse_funcs_un : forall l m ids m' ids', unnamed m -> parse_funcs m ids l = POk (m', ids') -> unnamed m'.
Proof.
  induction l as [|ty r IH]; intros m ids m' ids' H E; cbn [parse_funcs] in E.
  - inversion E; subst; exact H.
  - pinv E. wcbn. eapply IH; [|exact E]. clear E IH.
    unfold synth. destruct (cf_synthetic_names (m_config m)) eqn:Esyn; un_solve.
Qed.

Lemma parse_tables_un : forall l m ids m' ids', unnamed m -> parse_tables m ids l = (m', ids') -> unnamed m'.
Proof.
  induction l as [|t r IH]; intros m ids m' ids' H E; cbn [parse_tables] in E.
  - inversion E; subst; exact H.
  - wcbn. eapply IH; [|exact E]. clear E IH. un_solve.
Qed.
Lemma parse_mems_un : forall l m ids m' ids', unnamed m -> parse_mems m ids l = (m', ids') -> unnamed m'.
Proof.
  induction l as [|t r IH]; intros m ids m' ids' H E; cbn [parse_mems] in E.
  - inversion E; subst; exact H.
  - wcbn. eapply IH; [|exact E]. clear E IH. un_solve.
Qed.
Lemma parse_globals_un : forall l m ids m' ids', unnamed m -> parse_globals m ids l = POk (m', ids') -> unnamed m'.
Proof.
  induction l as [|[g c] r IH]; intros m ids m' ids' H E; cbn [parse_globals] in E.
  - inversion E; subst; exact H.
  - pinv E. wcbn. eapply IH; [|exact E]. clear E IH. un_solve.
Qed.
Lemma parse_exports_un : forall l m ids m', unnamed m -> parse_exports m ids l = POk m' -> unnamed m'.
Proof.
  induction l as [|e r IH]; intros m ids m' H E; cbn [parse_exports] in E.
  - inversion E; subst; exact H.
  - pinv E. wcbn. eapply IH; [|exact E]. clear E IH. un_solve.
Qed.
Lemma parse_elem_un m ids e m' ids' : unnamed m -> parse_elem m ids e = POk (m', ids') -> unnamed m'.
Proof.
  intros H E. unfold parse_elem in E. pinv E as its Eits. pinv E as mk Emk. destruct mk as [m1 kind].
  wcbn. inversion E; subst; clear E.
  assert (H1 : unnamed m1).
  { destruct (wel_kind e).
    - inversion Emk; subst; exact H.
    - inversion Emk; subst; exact H.
    - pinv Emk as tid Etid. pinv Emk as tb Etb. pinv Emk as o Eo. pinv Emk as ok Eok. destruct ok; [|discriminate].
      inversion Emk; subst; clear Emk. clear - H. un_solve. }
  clear - H1. un_solve.
Qed.
Lemma parse_elems_un : forall l m ids m' ids', unnamed m -> parse_elems m ids l = POk (m', ids') -> unnamed m'.
Proof.
  induction l as [|i r IH]; intros m ids m' ids' H E; cbn [parse_elems] in E.
  - inversion E; subst; exact H.
  - pinv E. destruct a as [m1 ids1]. eapply IH; [|exact E]. eapply parse_elem_un; eauto.
Qed.
Lemma reserve_data_un : forall n m ids m' ids', unnamed m -> reserve_data m ids n = (m', ids') -> unnamed m'.
Proof.
  induction n as [|n IH]; intros m ids m' ids' H E; cbn [reserve_data] in E.
  - inversion E; subst; exact H.
  - wcbn. eapply IH; [|exact E]. clear E IH. un_solve.
Qed.
Lemma parse_data_from_un : forall l m ids pre i m' ids',
  unnamed m -> parse_data_from m ids pre i l = POk (m', ids') -> unnamed m'.
Proof.
  induction l as [|d r IH]; intros m ids pre i m' ids' H E; cbn [parse_data_from] in E.
  - inversion E; subst; exact H.
  - pinv E as x Ex. destruct x as [[m1 ids1] id]. pinv E as y Ey. destruct y as [m2 kind]. pinv E as u Eu.
    eapply IH; [|exact E]. clear E IH Eu.
    assert (H1 : unnamed m1).
    { destruct pre.
      - pinv Ex as z Ez. inversion Ex; subst; exact H.
      - wcbn. inversion Ex; subst; clear Ex. clear - H. un_solve. }
    assert (H2 : unnamed m2).
    { destruct (wd_kind d).
      - inversion Ey; subst; exact H1.
      - pinv Ey as mid Emid. pinv Ey as mm Emm. pinv Ey as o Eo. pinv Ey as ok Eok. destruct ok; [|discriminate].
        inversion Ey; subst; clear Ey. clear - H1. un_solve. }
    clear - H2. un_solve.
Qed.

Definition sec_names (sec : wsec) : list wnames :=
  match sec with S_Custom (CS_Name (Some n)) => [n] | _ => [] end.
(* the name sections of the input, in order *)
Definition name_sections (w : wmod) : list wnames := flat_map sec_names w.

Lemma parse_sec_un s sec s' : unnamed (ps_m s) -> parse_sec s sec = POk s' ->
  unnamed (ps_m s') /\ ps_names s' = ps_names s ++ sec_names sec.
Proof.
  intros H E. unfold parse_sec in E. destruct sec; cbn [sec_names]; rewrite ?app_nil_r.
  - destruct (parse_types _ _ _) as [m1 i1] eqn:Ep. inversion E; subst; clear E. wcbn. split; [|reflexivity].
    eapply parse_types_un; eauto.
  - pinv E. destruct a as [m1 i1]. inversion E; subst; clear E. wcbn. split; [|reflexivity]. eapply parse_imports_un; eauto.
  - pinv E. destruct a as [m1 i1]. inversion E; subst; clear E. wcbn. split; [|reflexivity]. eapply parse_funcs_un; eauto.
  - destruct (parse_tables _ _ _) as [m1 i1] eqn:Ep. inversion E; subst; clear E. wcbn. split; [|reflexivity].
    eapply parse_tables_un; eauto.
  - destruct (parse_mems _ _ _) as [m1 i1] eqn:Ep. inversion E; subst; clear E. wcbn. split; [|reflexivity].
    eapply parse_mems_un; eauto.
  - pinv E. destruct a as [m1 i1]. inversion E; subst; clear E. wcbn. split; [|reflexivity]. eapply parse_globals_un; eauto.
  - pinv E. inversion E; subst; clear E. wcbn. split; [|reflexivity]. eapply parse_exports_un; eauto.
  - pinv E. inversion E; subst; clear E. wcbn. split; [|reflexivity]. clear - H. un_solve.
  - pinv E. destruct a as [m1 i1]. inversion E; subst; clear E. wcbn. split; [|reflexivity]. eapply parse_elems_un; eauto.
  - destruct (reserve_data _ _ _) as [m1 i1] eqn:Ep. inversion E; subst; clear E. wcbn. split; [|reflexivity].
    eapply reserve_data_un; eauto.
  - inversion E; subst; clear E. wcbn. split; [exact H|reflexivity].
  - pinv E. destruct a as [m1 i1]. inversion E; subst; clear E. wcbn. split; [|reflexivity].
    unfold parse_data in E0. eapply parse_data_from_un; eauto.
  - inversion E; subst; clear E. unfold parse_custom.
    destruct c as [n d|n d|[n|]|[p|]]; wcbn; rewrite ?app_nil_r; (split; [|reflexivity]); try exact H; clear - H; un_solve.
Qed.

Lemma parse_secs_un : forall w s s', unnamed (ps_m s) -> parse_secs s w = POk s' ->
  unnamed (ps_m s') /\ ps_names s' = ps_names s ++ name_sections w.
Proof.
  induction w as [|x r IH]; intros s s' H E; cbn [parse_secs] in E.
  - inversion E; subst. unfold name_sections. cbn. rewrite app_nil_r. auto.
  - pinv E. destruct (parse_sec_un _ _ _ H E0) as [H1 N1]. destruct (IH _ _ H1 E) as [H2 N2].
    split; [exact H2|]. rewrite N2, N1, <- app_assoc. reflexivity.
Qed.

Lemma add_locals_un : forall tys m ids fid pre m' ids' l,
  unnamed m -> add_locals m ids fid tys pre = (m', ids', l) -> unnamed m'.
Proof.
  induction tys as [|t r IH]; intros m ids fid pre m' ids' l H E; cbn [add_locals] in E.
  - inversion E; subst; exact H.
  - wcbn. destruct (add_locals _ _ fid r pre) as [[m1 ids1] rest] eqn:Ea.
    inversion E; subst; clear E. eapply IH; [|exact Ea]. clear Ea IH.
    unfold synth. destruct (cf_synthetic_names (m_config m)) eqn:Esyn; un_solve.
Qed.
Lemma prepare_bodies_un : forall bs m ids ni i m' ids' ps,
  unnamed m -> prepare_bodies m ids ni i bs = POk (m', ids', ps) -> unnamed m'.
Proof.
  induction bs as [|b r IH]; intros m ids ni i m' ids' ps H E; cbn [prepare_bodies] in E.
  - inversion E; subst; exact H.
  - pinv E as fid Efid. pinv E as f Ef. destruct (fn_kind f); try discriminate.
    pinv E as t Et.
    destruct (add_locals m ids fid (ty_params t) _) as [[m1 ids1] args] eqn:E1.
    destruct (types_insert m1 _) as [m2 tid] eqn:E2.
    destruct (add_locals m2 ids1 fid _ _) as [[m3 ids3] ls] eqn:E3.
    pinv E as x Ex. destruct x as [[m4 ids4] rest]. inversion E; subst; clear E.
    eapply IH; [|exact Ex].
    eapply add_locals_un; [|exact E3]. eapply types_insert_un; [| |exact E2]; [|reflexivity].
    eapply add_locals_un; [|exact E1]. exact H.
Qed.
Lemma install_bodies_un : forall ps m ids m', unnamed m -> install_bodies m ids ps = POk m' -> unnamed m'.
Proof.
  induction ps as [|p r IH]; intros m ids m' H E; cbn [install_bodies] in E.
  - inversion E; subst; exact H.
  - pinv E as lf Elf. eapply IH; [|exact E]. clear - H. un_solve.
Qed.

(* Module::parse, as far as names are concerned: an unnamed module [m0] whose index vectors are the
   identity, then every name section of the input applied in order, then the producers field *)
Theorem parseM_names_structure : forall cf ver w s, parseM cf ver w = POk s ->
  exists m0, ids_consistent m0 (ps_ids s) /\ unnamed m0 /\
    ps_m s = set_producers (parse_all_names (ps_ids s) (name_sections w) m0)
               (producers_field (m_producers (parse_all_names (ps_ids s) (name_sections w) m0)) s_processed_by s_walrus ver).
Proof.
  intros cf ver w s E. unfold parseM in E. pinv E as s1 E1.
  pose proof E1 as I1. apply parse_secs_ids in I1; [|apply idc_empty].
  pose proof E1 as U1. apply parse_secs_un in U1; [|apply un_empty]. destruct U1 as [U1 N1]. cbn [ps_names app] in N1.
  destruct (_ <? _)%N; [discriminate|].
  pinv E as x Ex. destruct x as [[m1 ids1] prepared]. pinv E as m2 E2. inversion E; subst; clear E. wcbn.
  exists m2. split; [|split].
  - eapply install_bodies_idc; [|exact E2]. eapply prepare_bodies_idc; [|exact Ex]. exact I1.
  - eapply install_bodies_un; [|exact E2]. eapply prepare_bodies_un; [|exact Ex]. exact U1.
  - rewrite N1. reflexivity.
Qed.

(* ---------------------------------------------------------------- the configuration is the one parseM was given *)
Lemma types_insert_cf m t m1 id : types_insert m t = (m1, id) -> m_config m1 = m_config m.
Proof.
  unfold types_insert, insert. destruct (lookup mtype_eqb (already (m_types m)) t).
  - intros E; inversion E; subst; reflexivity.
  - wcbn. intros E; inversion E; subst; reflexivity.
Qed.
Lemma parse_types_cf : forall ts m ids m' ids', parse_types m ids ts = (m', ids') -> m_config m' = m_config m.
Proof.
  induction ts as [|[ps rs] r IH]; intros m ids m' ids' E; cbn [parse_types] in E.
  - inversion E; subst; reflexivity.
  - destruct (types_insert m _) as [m1 id] eqn:Et. apply IH in E. apply types_insert_cf in Et. congruence.
Qed.
Lemma parse_import_cf m ids i m' ids' : parse_import m ids i = POk (m', ids') -> m_config m' = m_config m.
Proof.
  intros E. unfold parse_import in E. destruct (wi_kind i).
  - pinv E. wcbn. inversion E; subst; reflexivity.
  - wcbn. inversion E; subst; reflexivity.
  - wcbn. inversion E; subst; reflexivity.
  - wcbn. inversion E; subst; reflexivity.
Qed.
Lemma parse_imports_cf : forall l m ids m' ids', parse_imports m ids l = POk (m', ids') -> m_config m' = m_config m.
Proof.
  induction l as [|i r IH]; intros m ids m' ids' E; cbn [parse_imports] in E.
  - inversion E; subst; reflexivity.
  - pinv E. destruct a as [m1 ids1]. apply IH in E. apply parse_import_cf in E0. cbn [fst] in E. congruence.
Qed.
Lemma parse_funcs_cf : forall l m ids m' ids', parse_funcs m ids l = POk (m', ids') -> m_config m' = m_config m.
Proof.
  induction l as [|ty r IH]; intros m ids m' ids' E; cbn [parse_funcs] in E.
  - inversion E; subst; reflexivity.
  - pinv E. wcbn. apply IH in E. wcbn. exact E.
Qed.
Lemma parse_tables_cf : forall l m ids m' ids', parse_tables m ids l = (m', ids') -> m_config m' = m_config m.
Proof.
  induction l as [|t r IH]; intros m ids m' ids' E; cbn [parse_tables] in E.
  - inversion E; subst; reflexivity.
  - wcbn. apply IH in E. wcbn. exact E.
Qed.
Lemma parse_mems_cf : forall l m ids m' ids', parse_mems m ids l = (m', ids') -> m_config m' = m_config m.
Proof.
  induction l as [|t r IH]; intros m ids m' ids' E; cbn [parse_mems] in E.
  - inversion E; subst; reflexivity.
  - wcbn. apply IH in E. wcbn. exact E.
Qed.
Lemma parse_globals_cf : forall l m ids m' ids', parse_globals m ids l = POk (m', ids') -> m_config m' = m_config m.
Proof.
  induction l as [|[g c] r IH]; intros m ids m' ids' E; cbn [parse_globals] in E.
  - inversion E; subst; reflexivity.
  - pinv E. wcbn. apply IH in E. wcbn. exact E.
Qed.
Lemma parse_exports_cf : forall l m ids m', parse_exports m ids l = POk m' -> m_config m' = m_config m.
Proof.
  induction l as [|e r IH]; intros m ids m' E; cbn [parse_exports] in E.
  - inversion E; subst; reflexivity.
  - pinv E. wcbn. apply IH in E. wcbn. exact E.
Qed.
Lemma parse_elem_cf m ids e m' ids' : parse_elem m ids e = POk (m', ids') -> m_config m' = m_config m.
Proof.
  intros E. unfold parse_elem in E. pinv E as its Eits. pinv E as mk Emk. destruct mk as [m1 kind].
  wcbn. inversion E; subst; clear E. wcbn.
  destruct (wel_kind e).
  - inversion Emk; subst; reflexivity.
  - inversion Emk; subst; reflexivity.
  - pinv Emk as tid Etid. pinv Emk as tb Etb. pinv Emk as o Eo. pinv Emk as ok Eok. destruct ok; [|discriminate].
    inversion Emk; subst; reflexivity.
Qed.
Lemma parse_elems_cf : forall l m ids m' ids', parse_elems m ids l = POk (m', ids') -> m_config m' = m_config m.
Proof.
  induction l as [|i r IH]; intros m ids m' ids' E; cbn [parse_elems] in E.
  - inversion E; subst; reflexivity.
  - pinv E. destruct a as [m1 ids1]. apply IH in E. apply parse_elem_cf in E0. cbn [fst] in E. congruence.
Qed.
Lemma reserve_data_cf : forall n m ids m' ids', reserve_data m ids n = (m', ids') -> m_config m' = m_config m.
Proof.
  induction n as [|n IH]; intros m ids m' ids' E; cbn [reserve_data] in E.
  - inversion E; subst; reflexivity.
  - wcbn. apply IH in E. wcbn. exact E.
Qed.
Lemma parse_data_from_cf : forall l m ids pre i m' ids',
  parse_data_from m ids pre i l = POk (m', ids') -> m_config m' = m_config m.
Proof.
  induction l as [|d r IH]; intros m ids pre i m' ids' E; cbn [parse_data_from] in E.
  - inversion E; subst; reflexivity.
  - pinv E as x Ex. destruct x as [[m1 ids1] id]. pinv E as y Ey. destruct y as [m2 kind]. pinv E as u Eu.
    apply IH in E. wcbn. rewrite E. clear E IH Eu.
    assert (H1 : m_config m1 = m_config m).
    { destruct pre.
      - pinv Ex as z Ez. inversion Ex; subst; reflexivity.
      - wcbn. inversion Ex; subst; reflexivity. }
    rewrite <- H1. destruct (wd_kind d).
    + inversion Ey; subst; reflexivity.
    + pinv Ey as mid Emid. pinv Ey as mm Emm. pinv Ey as o Eo. pinv Ey as ok Eok. destruct ok; [|discriminate].
      inversion Ey; subst; reflexivity.
Qed.
Lemma parse_sec_cf s sec s' : parse_sec s sec = POk s' -> m_config (ps_m s') = m_config (ps_m s).
Proof.
  intros E. unfold parse_sec in E. destruct sec.
  - destruct (parse_types _ _ _) as [m1 i1] eqn:Ep. inversion E; subst; clear E. wcbn. eapply parse_types_cf; eauto.
  - pinv E. destruct a as [m1 i1]. inversion E; subst; clear E. wcbn. eapply parse_imports_cf; eauto.
  - pinv E. destruct a as [m1 i1]. inversion E; subst; clear E. wcbn. eapply parse_funcs_cf; eauto.
  - destruct (parse_tables _ _ _) as [m1 i1] eqn:Ep. inversion E; subst; clear E. wcbn. eapply parse_tables_cf; eauto.
  - destruct (parse_mems _ _ _) as [m1 i1] eqn:Ep. inversion E; subst; clear E. wcbn. eapply parse_mems_cf; eauto.
  - pinv E. destruct a as [m1 i1]. inversion E; subst; clear E. wcbn. eapply parse_globals_cf; eauto.
  - pinv E. inversion E; subst; clear E. wcbn. eapply parse_exports_cf; eauto.
  - pinv E. inversion E; subst; clear E. reflexivity.
  - pinv E. destruct a as [m1 i1]. inversion E; subst; clear E. wcbn. eapply parse_elems_cf; eauto.
  - destruct (reserve_data _ _ _) as [m1 i1] eqn:Ep. inversion E; subst; clear E. wcbn. eapply reserve_data_cf; eauto.
  - inversion E; subst; clear E. reflexivity.
  - pinv E. destruct a as [m1 i1]. inversion E; subst; clear E. wcbn. unfold parse_data in E0. eapply parse_data_from_cf; eauto.
  - inversion E; subst; clear E. unfold parse_custom. destruct c as [n d|n d|[n|]|[p|]]; reflexivity.
Qed.
Lemma parse_secs_cf : forall w s s', parse_secs s w = POk s' -> m_config (ps_m s') = m_config (ps_m s).
Proof.
  induction w as [|x r IH]; intros s s' E; cbn [parse_secs] in E.
  - inversion E; subst; reflexivity.
  - pinv E. apply IH in E. apply parse_sec_cf in E0. congruence.
Qed.
Lemma add_locals_cf : forall tys m ids fid pre m' ids' l,
  add_locals m ids fid tys pre = (m', ids', l) -> m_config m' = m_config m.
Proof.
  induction tys as [|t r IH]; intros m ids fid pre m' ids' l E; cbn [add_locals] in E.
  - inversion E; subst; reflexivity.
  - wcbn. destruct (add_locals _ _ fid r pre) as [[m1 ids1] rest] eqn:Ea.
    inversion E; subst; clear E. apply IH in Ea. wcbn. exact Ea.
Qed.
Lemma prepare_bodies_cf : forall bs m ids ni i m' ids' ps,
  prepare_bodies m ids ni i bs = POk (m', ids', ps) -> m_config m' = m_config m.
Proof.
  induction bs as [|b r IH]; intros m ids ni i m' ids' ps E; cbn [prepare_bodies] in E.
  - inversion E; subst; reflexivity.
  - pinv E as fid Efid. pinv E as f Ef. destruct (fn_kind f); try discriminate.
    pinv E as t Et.
    destruct (add_locals m ids fid (ty_params t) _) as [[m1 ids1] args] eqn:E1.
    destruct (types_insert m1 _) as [m2 tid] eqn:E2.
    destruct (add_locals m2 ids1 fid _ _) as [[m3 ids3] ls] eqn:E3.
    pinv E as x Ex. destruct x as [[m4 ids4] rest]. inversion E; subst; clear E.
    apply IH in Ex. apply add_locals_cf in E1. apply types_insert_cf in E2. apply add_locals_cf in E3. congruence.
Qed.
Lemma install_bodies_cf : forall ps m ids m', install_bodies m ids ps = POk m' -> m_config m' = m_config m.
Proof.
  induction ps as [|p r IH]; intros m ids m' E; cbn [install_bodies] in E.
  - inversion E; subst; reflexivity.
  - pinv E as lf Elf. apply IH in E. wcbn. exact E.
Qed.

Theorem parseM_config : forall cf ver w s, parseM cf ver w = POk s -> m_config (ps_m s) = cf.
Proof.
  intros cf ver w s E. unfold parseM in E. pinv E as s1 E1. apply parse_secs_cf in E1. cbn [ps_m empty_wir m_config] in E1.
  destruct (_ <? _)%N; [discriminate|].
  pinv E as x Ex. destruct x as [[m1 ids1] prepared]. pinv E as m2 E2. injection E as Es. subst s. wcbn.
  apply prepare_bodies_cf in Ex. apply install_bodies_cf in E2.
  change (m_config (parse_all_names ids1 (ps_names s1) m2) = cf). rewrite all_names_config. congruence.
Qed.

(* ====================================================================================== *)
(* Part B: named / emit_names                                                               *)
(* ====================================================================================== *)

(* the (index, name) pairs of the entities that have a name and an index, in arena order *)
Definition name_pairs {A} (x : x2i) (s : space) (getn : A -> option nstr) (l : list (N * A)) : namemap :=
  flat_map (fun p => match getn (snd p), get_idx x s (fst p) with Some n, Ok i => [(i, n)] | _, _ => [] end) l.

(* [named] panics when a named entity has no index; otherwise it is the sorted pair list *)
Lemma named_ok {A} x s (getn : A -> option nstr) l r : named x s getn l = Ok r ->
  r = sort_nm (name_pairs x s getn l) /\
  (forall p n, In p l -> getn (snd p) = Some n -> exists i, get_idx x s (fst p) = Ok i).
Proof.
  unfold named. intros H. rinv H as rs Ers. inversion H; subst r; clear H.
  assert (G : concat rs = name_pairs x s getn l /\
              (forall p n, In p l -> getn (snd p) = Some n -> exists i, get_idx x s (fst p) = Ok i)).
  { revert rs Ers. induction l as [|p l IH]; intros rs Ers; cbn [rmapM] in Ers.
    - inversion Ers; subst. split; [reflexivity|]. intros p n [].
    - rinv Ers as y Ey. rinv Ers as ys Eys. inversion Ers; subst rs; clear Ers.
      destruct (IH _ Eys) as [IH1 IH2]. cbn [concat name_pairs flat_map]. fold (name_pairs x s getn l). rewrite IH1.
      destruct (getn (snd p)) as [n|] eqn:En.
      + rinv Ey as i Ei. inversion Ey; subst y; clear Ey. rewrite Ei. split; [reflexivity|].
        intros p' n' [<-|Hin] Hn; [eauto|eauto].
      + inversion Ey; subst y; clear Ey. split; [reflexivity|].
        intros p' n' [<-|Hin] Hn; [congruence|eauto]. }
  destruct G as [G1 G2]. rewrite G1. auto.
Qed.

Lemma name_pairs_in {A} x s (getn : A -> option nstr) l j nm :
  In (j, nm) (name_pairs x s getn l) <-> exists id a, In (id, a) l /\ getn a = Some nm /\ get_idx x s id = Ok j.
Proof.
  unfold name_pairs. rewrite in_flat_map. split.
  - intros [[id a] [Hin H]]. cbn [fst snd] in H. destruct (getn a) as [n|] eqn:En; [|destruct H].
    destruct (get_idx x s id) as [i| |] eqn:Ei; try destruct H; [|destruct H]. inversion H; subst. eauto.
  - intros (id & a & Hin & Hn & Hi). exists (id, a). split; [exact Hin|]. cbn [fst snd]. rewrite Hn, Hi. left; reflexivity.
Qed.

Lemma lookup_inj l id id' i : wf_map l -> lookup_i l id = Ok i -> lookup_i l id' = Ok i -> id = id'.
Proof. intros W H1 H2. apply (wf_lookup _ _ _ W) in H1. apply (wf_lookup _ _ _ W) in H2. congruence. Qed.

Lemma name_pairs_NoDup {A} x s (getn : A -> option nstr) l :
  wf_map (space_map x s) -> NoDup (map fst l) -> NoDup (map fst (name_pairs x s getn l)).
Proof.
  intros W. induction l as [|[id a] l IH]; intros ND; cbn [name_pairs flat_map]; [constructor|].
  fold (name_pairs x s getn l). inversion ND; subst. cbn [fst snd].
  destruct (getn a) as [n|]; [|auto]. destruct (get_idx x s id) as [i| |] eqn:Ei; auto.
  cbn [app map fst]. constructor; [|auto]. intros Hin. apply in_map_iff in Hin. destruct Hin as [[j nm] [Hj Hin]].
  cbn [fst] in Hj. subst j. apply name_pairs_in in Hin. destruct Hin as (id' & a' & Hin & _ & Hi).
  unfold get_idx in *. pose proof (lookup_inj _ _ _ _ W Ei Hi) as ->. apply H1. apply in_map_iff. exists (id', a'). auto.
Qed.

Lemma le_sorted_NoDup_lt {A} (r : list (N * A)) :
  StronglySorted (fun a b => fst a <= fst b)%N r -> NoDup (map fst r) -> StronglySorted N.lt (map fst r).
Proof.
  induction 1 as [|a r S IH F]; intros ND; cbn [map]; [constructor|]. inversion ND; subst. constructor; [auto|].
  rewrite Forall_forall in *. intros j Hj. apply in_map_iff in Hj. destruct Hj as [b [<- Hb]].
  specialize (F b Hb). assert (fst a <> fst b) by (intros Heq; apply H1; rewrite Heq; apply in_map; exact Hb). lia.
Qed.

(* Theorem B, generic: membership; sorted; no duplicate index; and it panics rather than drop a name *)
Theorem named_spec {A} x s (getn : A -> option nstr) l r : named x s getn l = Ok r ->
  (forall j nm, In (j, nm) r <-> exists id a, In (id, a) l /\ getn a = Some nm /\ get_idx x s id = Ok j) /\
  StronglySorted (fun a b => fst a <= fst b)%N r /\
  (forall id a nm, In (id, a) l -> getn a = Some nm -> exists j, get_idx x s id = Ok j /\ In (j, nm) r) /\
  (wf_map (space_map x s) -> NoDup (map fst l) -> StronglySorted N.lt (map fst r)).
Proof.
  intros H. apply named_ok in H. destruct H as [-> Htot].
  assert (M : forall j nm, In (j, nm) (sort_nm (name_pairs x s getn l)) <->
                           exists id a, In (id, a) l /\ getn a = Some nm /\ get_idx x s id = Ok j).
  { intros j nm. rewrite <- name_pairs_in. split; intros Hin.
    - eapply Permutation_in; [apply sort_nm_perm|exact Hin].
    - eapply Permutation_in; [apply Permutation_sym, sort_nm_perm|exact Hin]. }
  split; [exact M|]. split; [apply sort_nm_sorted|]. split.
  - intros id a nm Hin Hn. destruct (Htot (id, a) nm Hin Hn) as [j Hj]. cbn [fst] in Hj. exists j. split; [exact Hj|].
    apply M. eauto.
  - intros W ND. apply le_sorted_NoDup_lt; [apply sort_nm_sorted|].
    eapply Permutation_NoDup; [apply Permutation_sym, Permutation_map, sort_nm_perm|]. apply name_pairs_NoDup; assumption.
Qed.

(* emit_names: what the section contains. When everything is empty no section is written. *)
Definition empty_names : wnames :=
  {| wn_module := None; wn_funcs := []; wn_locals := []; wn_types := []; wn_tables := []; wn_mems := [];
     wn_globals := []; wn_elems := []; wn_data := [] |}.
Definition names_of (secs : list wsec) : wnames :=
  match secs with [S_Custom (CS_Name (Some n))] => n | _ => empty_names end.

Theorem emit_names_fields m x efs secs : emit_names m x efs = Ok secs ->
  wn_module (names_of secs) = m_name m /\
  named x S_func fn_name (aiter (m_funcs m)) = Ok (wn_funcs (names_of secs)) /\
  named x S_type ty_name (live_types m) = Ok (wn_types (names_of secs)) /\
  named x S_table tb_name (aiter (m_tables m)) = Ok (wn_tables (names_of secs)) /\
  named x S_memory me_name (aiter (m_memories m)) = Ok (wn_mems (names_of secs)) /\
  named x S_global gl_name (aiter (m_globals m)) = Ok (wn_globals (names_of secs)) /\
  named x S_elem el_name (aiter (m_elements m)) = Ok (wn_elems (names_of secs)) /\
  named x S_data da_name (aiter (m_data m)) = Ok (wn_data (names_of secs)) /\
  (secs = [] \/ secs = [S_Custom (CS_Name (Some (names_of secs)))]).
Proof.
  unfold emit_names. intros H.
  rinv H as funcs E1. rinv H as locals E2. rinv H as types E3. rinv H as tables E4. rinv H as mems E5.
  rinv H as globals E6. rinv H as elems E7. rinv H as data E8.
  rewrite E3, E4, E5, E6, E7, E8.
  destruct (m_name m); [inversion H; subst; cbn; auto 12|].
  destruct funcs; [|inversion H; subst; cbn; auto 12].
  destruct (sort_nm (concat locals)); [|inversion H; subst; cbn; auto 12].
  destruct types; [|inversion H; subst; cbn; auto 12].
  destruct tables; [|inversion H; subst; cbn; auto 12].
  destruct mems; [|inversion H; subst; cbn; auto 12].
  destruct globals; [|inversion H; subst; cbn; auto 12].
  destruct elems; [|inversion H; subst; cbn; auto 12].
  destruct data; inversion H; subst; cbn; auto 12.
Qed.

(* emit_wasm writes that section (unless names are switched off) with the final maps *)
Theorem emitM_names m ilen dw e : emitM m ilen dw = Ok e ->
  em_module e = m /\
  exists s_nm pre post, em_secs e = pre ++ s_nm ++ post /\
    (if cf_skip_name (m_config m) then s_nm = [] else emit_names m (em_x2i e) (em_fns e) = Ok s_nm).
Proof.
  intros H. unfold emitM, set_customs_take in H.
  destruct (emit_types m empty_x2i) as [s_ty x1] eqn:E1.
  rinv H as a2 E2. destruct a2 as [s_im x2].
  rinv H as a3 E3. destruct a3 as [s_fn x3].
  destruct (emit_tables m x3) as [s_tb x4] eqn:E4.
  destruct (emit_memories m x4) as [s_me x5] eqn:E5.
  rinv H as a6 E6. destruct a6 as [s_gl x6].
  rinv H as s_ex E7. rinv H as s_st E8.
  rinv H as a9 E9. destruct a9 as [s_el x9].
  rinv H as a10 E10. destruct a10 as [s_dc x10].
  rinv H as a11 E11. destruct a11 as [[s_co x11] efs].
  rinv H as s_da E12. rinv H as s_nm E13. inversion H; subst e; clear H. cbn [em_x2i em_module em_secs em_fns].
  split; [reflexivity|].
  exists s_nm. eexists (s_ty ++ s_im ++ s_fn ++ s_tb ++ s_me ++ s_gl ++ s_ex ++ s_st ++ s_el ++ s_dc ++ s_co ++ s_da). eexists.
  split; [rewrite <- !app_assoc; reflexivity|].
  destruct (cf_skip_name (m_config m)); [inversion E13; reflexivity|exact E13].
Qed.

(* ====================================================================================== *)
(* Part C: composition                                                                      *)
(* ====================================================================================== *)

(* keep only the last entry of each index (a later entry for the same index overwrites) *)
Fixpoint dedupe_last (l : namemap) : namemap :=
  match l with
  | [] => []
  | (i, n) :: r => if existsb (fun p => N.eqb (fst p) i) r then dedupe_last r else (i, n) :: dedupe_last r
  end.

Lemma existsb_fst (l : namemap) i : existsb (fun p => N.eqb (fst p) i) l = true <-> In i (map fst l).
Proof.
  rewrite existsb_exists, in_map_iff. split.
  - intros [p [Hin He]]. apply N.eqb_eq in He. eauto.
  - intros [p [He Hin]]. exists p. split; [exact Hin|]. apply N.eqb_eq. exact He.
Qed.
Lemma last_name_none l k : last_name l k = None <-> ~ In k (map fst l).
Proof.
  induction l as [|[i n] r IH]; cbn [last_name map fst In]; [tauto|].
  destruct (last_name r k).
  - split; [discriminate|]. intros H. exfalso. apply H. right. apply Decidable.not_not; [|intros Hn; apply IH in Hn; discriminate].
    destruct (in_dec N.eq_dec k (map fst r)); [left|right]; assumption.
  - destruct (N.eqb_spec i k) as [->|Hne].
    + split; [discriminate|]. intros H; exfalso; apply H; left; reflexivity.
    + split; [|reflexivity]. intros _ [Heq|Hin]; [congruence|]. apply (proj1 IH); [reflexivity|exact Hin].
Qed.
Lemma dedupe_last_in l i nm : In (i, nm) (dedupe_last l) <-> last_name l i = Some nm.
Proof.
  induction l as [|[i0 n0] r IH]; cbn [dedupe_last last_name]; [split; [intros []|discriminate]|].
  destruct (existsb (fun p => N.eqb (fst p) i0) r) eqn:Ee.
  - rewrite IH. apply existsb_fst in Ee. destruct (last_name r i) eqn:El; [reflexivity|].
    destruct (N.eqb_spec i0 i) as [->|Hne]; [|reflexivity]. apply last_name_none in El. contradiction.
  - assert (Hni : ~ In i0 (map fst r)) by (rewrite <- existsb_fst; congruence).
    cbn [In]. rewrite IH. destruct (last_name r i) eqn:El.
    + split; [|auto]. intros [Heq|H]; [|exact H]. inversion Heq; subst. apply last_name_none in Hni. congruence.
    + destruct (N.eqb_spec i0 i) as [->|Hne].
      * split; [intros [Heq|H]; [inversion Heq; reflexivity|discriminate]|]. intros H; inversion H; auto.
      * split; [intros [Heq|H]; [inversion Heq; congruence|discriminate]|discriminate].
Qed.
Lemma dedupe_last_NoDup l : NoDup (map fst (dedupe_last l)).
Proof.
  induction l as [|[i0 n0] r IH]; cbn [dedupe_last]; [constructor|].
  destruct (existsb (fun p => N.eqb (fst p) i0) r) eqn:Ee; [exact IH|].
  cbn [map fst]. constructor; [|exact IH]. intros Hin. apply in_map_iff in Hin. destruct Hin as [[i nm] [Hi Hin]].
  cbn [fst] in Hi. subst i. apply dedupe_last_in in Hin.
  assert (Hni : ~ In i0 (map fst r)) by (rewrite <- existsb_fst; congruence).
  apply last_name_none in Hni. congruence.
Qed.

Lemma aiter_nodead {A} (a : tarena A) id v :
  dead a = [] -> (In (id, v) (aiter a) <-> nth_error (items a) (N.to_nat id) = Some v).
Proof.
  intros D. unfold aiter. rewrite in_map_iff. split.
  - intros [[k w] [Heq Hin]]. cbn [fst snd] in Heq. inversion Heq; subst. rewrite Nat2N.id.
    apply (iter_live _ (fun x => x) (fun _ _ => true)) in Hin. unfold index, get, is_dead in Hin. rewrite D in Hin. cbn in Hin. exact Hin.
  - intros H. exists (N.to_nat id, v). split; [cbn [fst snd]; rewrite N2Nat.id; reflexivity|].
    apply (iter_live _ (fun x => x) (fun _ _ => true)). unfold index, get, is_dead. rewrite D. cbn. exact H.
Qed.

Lemma NoDup_map_inj_on {A B} (f : A -> B) (l : list A) :
  (forall a b, In a l -> In b l -> f a = f b -> a = b) -> NoDup l -> NoDup (map f l).
Proof.
  induction l as [|a l IH]; intros Hinj ND; cbn [map]; [constructor|]. inversion ND; subst. constructor.
  - intros Hin. apply in_map_iff in Hin. destruct Hin as [b [Hb Hin]].
    assert (b = a) by (apply Hinj; [right; exact Hin|left; reflexivity|exact Hb]). subst b. contradiction.
  - apply IH; [|assumption]. intros x y Hx Hy. apply Hinj; right; assumption.
Qed.
Lemma NoDup_of_map {A B} (f : A -> B) (l : list A) : NoDup (map f l) -> NoDup l.
Proof.
  induction l as [|a l IH]; intros H; [constructor|]. inversion H; subst. constructor; [|auto].
  intros Hin. apply H2. apply in_map. exact Hin.
Qed.

(* the emitted index of the entity the input index [i] denotes (identity vector: id = i) *)
Definition rho (x : x2i) (S : space) (i : N) : N := match get_idx x S i with Ok j => j | _ => 0%N end.

(* what "the names of kind K survived" means: [l] the entries of the input, [n] the size of the
   input's index space, [out] the emitted name map *)
Definition kind_rt (x : x2i) (S : space) (n : nat) (l out : namemap) : Prop :=
  (forall j nm, In (j, nm) out <->
      exists i, N.to_nat i < n /\ last_name l i = Some nm /\ get_idx x S i = Ok j) /\
  (forall i nm, N.to_nat i < n -> last_name l i = Some nm -> exists j, get_idx x S i = Ok j /\ In (j, nm) out) /\
  StronglySorted (fun a b => fst a <= fst b)%N out /\
  (wf_map (space_map x S) ->
     StronglySorted N.lt (map fst out) /\
     out = sort_nm (map (fun p => (rho x S (fst p), snd p)) (filter (fun p => N.to_nat (fst p) <? n) (dedupe_last l)))).

Section Kind.
  Context {A : Type} (setn : A -> nstr -> A) (getn : A -> option nstr).
  Hypothesis Hset : forall x s t, setn (setn x s) t = setn x t.
  Hypothesis Hget : forall x s, getn (setn x s) = Some s.

  Lemma aiter_named_iff (a0 : tarena A) (l : namemap) i nm :
    dead a0 = [] -> Forall (fun v => getn v = None) (items a0) ->
    ((exists v, In (i, v) (aiter (apply_names a0 (iota (length (items a0))) setn l)) /\ getn v = Some nm) <->
     (N.to_nat i < length (items a0) /\ last_name l i = Some nm)).
  Proof.
    intros D F. destruct (apply_names_spec setn a0 l Hset) as (HL & HD & Hn & _).
    rewrite D in HD. split.
    - intros [v [Hin Hg]]. apply (aiter_nodead _ _ _ HD) in Hin.
      assert (Hlt : N.to_nat i < length (items a0)) by (rewrite <- HL; apply nth_error_Some; congruence).
      split; [exact Hlt|].
      destruct (nth_error (items a0) (N.to_nat i)) as [old|] eqn:Eo; [|apply nth_error_None in Eo; lia].
      rewrite (Hn _ _ Eo), N2Nat.id in Hin. inversion Hin; subst v; clear Hin.
      destruct (last_name l i) as [s|]; cbn [renamed] in Hg.
      + rewrite Hget in Hg. exact Hg.
      + rewrite Forall_forall in F. rewrite (F old) in Hg by (eapply nth_error_In; exact Eo). discriminate.
    - intros [Hlt Hl].
      destruct (nth_error (items a0) (N.to_nat i)) as [old|] eqn:Eo; [|apply nth_error_None in Eo; lia].
      exists (setn old nm). split; [|apply Hget]. apply (aiter_nodead _ _ _ HD).
      rewrite (Hn _ _ Eo), N2Nat.id, Hl. reflexivity.
  Qed.

  Theorem kind_names_roundtrip (a0 : tarena A) (l : namemap) x S r :
    dead a0 = [] -> Forall (fun v => getn v = None) (items a0) ->
    named x S getn (aiter (apply_names a0 (iota (length (items a0))) setn l)) = Ok r ->
    kind_rt x S (length (items a0)) l r.
  Proof.
    intros D F H. set (a := apply_names a0 (iota (length (items a0))) setn l) in *.
    pose proof (named_ok _ _ _ _ _ H) as [Er _].
    destruct (named_spec _ _ _ _ _ H) as (M & Srt & Tot & SS).
    assert (M' : forall j nm, In (j, nm) r <->
               exists i, N.to_nat i < length (items a0) /\ last_name l i = Some nm /\ get_idx x S i = Ok j).
    { intros j nm. rewrite M. split.
      - intros (id & v & Hin & Hg & Hi). exists id.
        destruct (proj1 (aiter_named_iff a0 l id nm D F)) as [H1 H2]; [eauto|]. auto.
      - intros (i & Hlt & Hl & Hi). destruct (proj2 (aiter_named_iff a0 l i nm D F)) as [v [Hin Hg]]; [auto|]. eauto. }
    assert (T' : forall i nm, N.to_nat i < length (items a0) -> last_name l i = Some nm ->
               exists j, get_idx x S i = Ok j /\ In (j, nm) r).
    { intros i nm Hlt Hl. destruct (proj2 (aiter_named_iff a0 l i nm D F)) as [v [Hin Hg]]; [auto|]. eauto. }
    split; [exact M'|]. split; [exact T'|]. split; [exact Srt|].
    intros W. split; [apply SS; [exact W|apply aiter_NoDup]|].
    rewrite Er. apply sort_nm_order_free; [|apply name_pairs_NoDup; [exact W|apply aiter_NoDup]].
    set (L' := map _ _).
    assert (NDp : NoDup (name_pairs x S getn (aiter a))).
    { apply (NoDup_of_map fst). apply name_pairs_NoDup; [exact W|apply aiter_NoDup]. }
    assert (Min : forall j nm, In (j, nm) L' <-> In (j, nm) r).
    { intros j nm. rewrite M'. subst L'. rewrite in_map_iff. split.
      - intros [[i nm'] [Heq Hin]]. cbn [fst snd] in Heq. inversion Heq; subst nm'; clear Heq.
        apply filter_In in Hin. destruct Hin as [Hin Hlt]. cbn [fst] in Hlt. apply Nat.ltb_lt in Hlt.
        apply dedupe_last_in in Hin. destruct (T' i nm Hlt Hin) as [j' [Hj' _]].
        exists i. unfold rho. rewrite Hj'. auto.
      - intros (i & Hlt & Hl & Hi). exists (i, nm). cbn [fst snd]. unfold rho. rewrite Hi. split; [reflexivity|].
        apply filter_In. split; [apply dedupe_last_in; exact Hl|]. cbn [fst]. apply Nat.ltb_lt. exact Hlt. }
    apply NoDup_Permutation; [exact NDp| |].
    - subst L'. apply NoDup_map_inj_on.
      + intros [i1 n1] [i2 n2] H1 H2 Heq. cbn [fst snd] in Heq.
        assert (H0 : rho x S i1 = rho x S i2) by congruence. assert (Hn12 : n1 = n2) by congruence. subst n2. clear Heq.
        apply filter_In in H1. destruct H1 as [H1 L1]. apply filter_In in H2. destruct H2 as [H2 L2].
        cbn [fst] in L1, L2. apply Nat.ltb_lt in L1. apply Nat.ltb_lt in L2.
        apply dedupe_last_in in H1. apply dedupe_last_in in H2.
        destruct (T' i1 n1 L1 H1) as [j1 [E1 _]]. destruct (T' i2 n1 L2 H2) as [j2 [E2 _]].
        unfold rho in H0. rewrite E1, E2 in H0. subst j2. unfold get_idx in E1, E2.
        rewrite (lookup_inj _ _ _ _ W E1 E2). reflexivity.
      + apply NoDup_filter. apply (NoDup_of_map fst). apply dedupe_last_NoDup.
    - intros [j nm]. rewrite Min. rewrite Er. split; intros Hin.
      + eapply Permutation_in; [apply Permutation_sym, sort_nm_perm|exact Hin].
      + eapply Permutation_in; [apply sort_nm_perm|exact Hin].
  Qed.
End Kind.

Lemma kind_compose {A} (setn : A -> nstr -> A) (getn : A -> option nstr)
  (Hset : forall x s t, setn (setn x s) t = setn x t) (Hget : forall x s, getn (setn x s) = Some s)
  (a0 : tarena A) idx l x S r :
  idx = iota (length (items a0)) -> dead a0 = [] -> Forall (fun v => getn v = None) (items a0) ->
  named x S getn (aiter (apply_names a0 idx setn l)) = Ok r -> kind_rt x S (length idx) l r.
Proof. intros ->. rewrite iota_length. apply kind_names_roundtrip; assumption. Qed.

(* Theorem C.  [ns] = the name sections of the input (usually one), entries applied in order.
   The index vectors are the identity (parseM_ids), so the entity the input index i denotes has id i
   and its emitted index is [get_idx x S i]. *)
Theorem names_roundtrip : forall cf ver w s ilen dw e,
  parseM cf ver w = POk s -> emitM (ps_m s) ilen dw = Ok e -> cf_skip_name cf = false ->
  let ids := ps_ids s in let x := em_x2i e in let ns := name_sections w in
  exists s_nm pre post,
    em_secs e = pre ++ s_nm ++ post /\ (s_nm = [] \/ s_nm = [S_Custom (CS_Name (Some (names_of s_nm)))]) /\
    let out := names_of s_nm in
    wn_module out = last_module_name ns /\
    (cf_synthetic_names cf = false ->
       kind_rt x S_func (length (ii_funcs ids)) (flat_map wn_funcs ns) (wn_funcs out)) /\
    kind_rt x S_table (length (ii_tables ids)) (flat_map wn_tables ns) (wn_tables out) /\
    kind_rt x S_memory (length (ii_memories ids)) (flat_map wn_mems ns) (wn_mems out) /\
    kind_rt x S_global (length (ii_globals ids)) (flat_map wn_globals ns) (wn_globals out) /\
    kind_rt x S_elem (length (ii_elements ids)) (flat_map wn_elems ns) (wn_elems out) /\
    kind_rt x S_data (length (ii_data ids)) (flat_map wn_data ns) (wn_data out).
Proof.
  intros cf ver w s ilen dw e HP HE Hskip. cbv zeta.
  pose proof (parseM_config _ _ _ _ HP) as Hcf. rewrite <- Hcf in Hskip |- *.
  destruct (parseM_names_structure _ _ _ _ HP) as (m0 & I0 & U0 & Em).
  destruct (emitM_names _ _ _ _ HE) as (_ & s_nm & pre & post & Hsecs & Hn). rewrite Hskip in Hn.
  apply emit_names_fields in Hn. destruct Hn as (Nm & Nf & Nty & Ntb & Nme & Ngl & Nel & Nda & Hshape).
  exists s_nm, pre, post. split; [exact Hsecs|]. split; [exact Hshape|].
  set (M := parse_all_names (ps_ids s) (name_sections w) m0) in *.
  assert (Ef : m_funcs (ps_m s) = m_funcs M) by (rewrite Em; reflexivity).
  assert (Etb : m_tables (ps_m s) = m_tables M) by (rewrite Em; reflexivity).
  assert (Eme : m_memories (ps_m s) = m_memories M) by (rewrite Em; reflexivity).
  assert (Egl : m_globals (ps_m s) = m_globals M) by (rewrite Em; reflexivity).
  assert (Eel : m_elements (ps_m s) = m_elements M) by (rewrite Em; reflexivity).
  assert (Eda : m_data (ps_m s) = m_data M) by (rewrite Em; reflexivity).
  assert (Enm : m_name (ps_m s) = m_name M) by (rewrite Em; reflexivity).
  assert (Ecf : m_config (ps_m s) = m_config m0) by (rewrite Em; subst M; wcbn; apply all_names_config).
  rewrite Ef in Nf. rewrite Etb in Ntb. rewrite Eme in Nme. rewrite Egl in Ngl. rewrite Eel in Nel. rewrite Eda in Nda.
  rewrite Enm in Nm. rewrite Ecf. clear Ef Etb Eme Egl Eel Eda Enm Ecf Em.
  subst M. rewrite all_names_funcs in Nf. rewrite all_names_tables in Ntb. rewrite all_names_memories in Nme.
  rewrite all_names_globals in Ngl. rewrite all_names_elements in Nel. rewrite all_names_data in Nda.
  rewrite all_names_name in Nm.
  unfold ids_consistent in I0. decompose [and] I0. clear I0. unfold unnamed in U0. decompose [and] U0. clear U0.
  split; [|split; [|split; [|split; [|split; [|split]]]]].
  - rewrite Nm. match goal with Hx : m_name m0 = None |- _ => rewrite Hx end. destruct (last_module_name (name_sections w)); reflexivity.
  - intros Hsyn. eapply (kind_compose set_fn_name fn_name set_fn_name_idem (fun _ _ => eq_refl)); eauto.
  - eapply (kind_compose set_tb_name tb_name set_tb_name_idem (fun _ _ => eq_refl)); eauto.
  - eapply (kind_compose set_me_name me_name set_me_name_idem (fun _ _ => eq_refl)); eauto.
  - eapply (kind_compose set_gl_name gl_name set_gl_name_idem (fun _ _ => eq_refl)); eauto.
  - eapply (kind_compose set_el_name el_name set_el_name_idem (fun _ _ => eq_refl)); eauto.
  - eapply (kind_compose set_da_name da_name set_da_name_idem (fun _ _ => eq_refl)); eauto.
Qed.

(* ---------------------------------------------------------------- one name section (the usual input) *)
Corollary names_roundtrip_one : forall cf ver w s ilen dw e n,
  parseM cf ver w = POk s -> emitM (ps_m s) ilen dw = Ok e -> cf_skip_name cf = false ->
  name_sections w = [n] ->
  let ids := ps_ids s in let x := em_x2i e in
  exists s_nm pre post,
    em_secs e = pre ++ s_nm ++ post /\ (s_nm = [] \/ s_nm = [S_Custom (CS_Name (Some (names_of s_nm)))]) /\
    let out := names_of s_nm in
    wn_module out = wn_module n /\
    (cf_synthetic_names cf = false -> kind_rt x S_func (length (ii_funcs ids)) (wn_funcs n) (wn_funcs out)) /\
    kind_rt x S_table (length (ii_tables ids)) (wn_tables n) (wn_tables out) /\
    kind_rt x S_memory (length (ii_memories ids)) (wn_mems n) (wn_mems out) /\
    kind_rt x S_global (length (ii_globals ids)) (wn_globals n) (wn_globals out) /\
    kind_rt x S_elem (length (ii_elements ids)) (wn_elems n) (wn_elems out) /\
    kind_rt x S_data (length (ii_data ids)) (wn_data n) (wn_data out).
Proof.
  intros cf ver w s ilen dw e n HP HE Hskip Hone. cbv zeta.
  destruct (names_roundtrip _ _ _ _ _ _ _ HP HE Hskip) as (s_nm & pre & post & H1 & H2 & H3).
  exists s_nm, pre, post. split; [exact H1|]. split; [exact H2|]. cbv zeta in H3. rewrite Hone in H3.
  cbn [flat_map last_module_name] in H3. rewrite !app_nil_r in H3. exact H3.
Qed.

(* "no name moves to another entity", spelled out for one kind *)
Corollary kind_rt_no_move x S n l out j nm : kind_rt x S n l out -> In (j, nm) out ->
  exists i, N.to_nat i < n /\ get_idx x S i = Ok j /\ last_name l i = Some nm.
Proof. intros (M & _) Hin. apply M in Hin. destruct Hin as (i & H1 & H2 & H3). eauto. Qed.
(* ... and no name is lost *)
Corollary kind_rt_no_loss x S n l out i nm : kind_rt x S n l out -> N.to_nat i < n -> last_name l i = Some nm ->
  exists j, get_idx x S i = Ok j /\ In (j, nm) out.
Proof. intros (_ & T & _) H1 H2. eauto. Qed.

(* ---------------------------------------------------------------- elements and data: the index does not change *)
Lemma iter_from_nodead {A} (l : list A) : forall n, map fst (iter_from n l []) = seq n (length l).
Proof. induction l as [|a l IH]; intros n; cbn [iter_from existsb map fst length seq]; [reflexivity|]. rewrite IH. reflexivity. Qed.
Lemma aiter_ids_nodead {A} (a : tarena A) : dead a = [] -> map fst (aiter a) = iota (length (items a)).
Proof. intros D. rewrite aiter_ids. unfold iter. rewrite D, iter_from_nodead. reflexivity. Qed.

Lemma lookup_number_iota n i : N.to_nat i < n -> lookup_i (number (iota n)) i = Ok i.
Proof.
  intros H. assert (W : wf_map (number (iota n))).
  { apply number_wf. unfold iota. apply NoDup_map_inj; [intros a b; apply Nat2N.inj|apply seq_NoDup]. }
  apply (wf_lookup_fst _ _ _ W). rewrite number_fst, iota_nth by exact H. rewrite N2Nat.id. reflexivity.
Qed.

Theorem rho_elements_data_id : forall cf ver w s ilen dw e,
  parseM cf ver w = POk s -> emitM (ps_m s) ilen dw = Ok e ->
  wf_map (space_map (em_x2i e) S_elem) /\ wf_map (space_map (em_x2i e) S_data) /\
  (forall i, N.to_nat i < length (ii_elements (ps_ids s)) -> get_idx (em_x2i e) S_elem i = Ok i) /\
  (forall i, N.to_nat i < length (ii_data (ps_ids s)) -> get_idx (em_x2i e) S_data i = Ok i).
Proof.
  intros cf ver w s ilen dw e HP HE. pose proof (parseM_ids _ _ _ _ HP) as I. unfold ids_consistent in I. decompose [and] I. clear I.
  destruct (emit_order_elements _ _ _ _ HE) as [_ We]. destruct (emit_order_data _ _ _ _ HE) as [_ Wd].
  destruct (emitM_x2i _ _ _ _ HE) as [fs [_ (_ & _ & _ & _ & _ & Xe & Xd)]].
  split; [exact We|]. split; [exact Wd|]. split.
  - intros i Hi. unfold get_idx. cbn [space_map]. rewrite Xe, aiter_ids_nodead by assumption.
    apply lookup_number_iota. match goal with Hx : ii_elements _ = _ |- _ => rewrite Hx, iota_length in Hi end. exact Hi.
  - intros i Hi. unfold get_idx. cbn [space_map]. rewrite Xd, aiter_ids_nodead by assumption.
    apply lookup_number_iota. match goal with Hx : ii_data _ = _ |- _ => rewrite Hx, iota_length in Hi end. exact Hi.
Qed.

(* with rho = id the emitted map is the deduplicated, in-range, sorted input map *)
Lemma kind_rt_id x S n l out : kind_rt x S n l out -> wf_map (space_map x S) ->
  (forall i, N.to_nat i < n -> get_idx x S i = Ok i) ->
  out = sort_nm (filter (fun p => N.to_nat (fst p) <? n) (dedupe_last l)) /\
  (forall i nm, In (i, nm) out <-> N.to_nat i < n /\ last_name l i = Some nm).
Proof.
  intros (M & T & _ & H) W Hid. destruct (H W) as [_ Eo]. split.
  - rewrite Eo. f_equal. rewrite <- (map_id (filter _ _)) at 2. apply map_ext_in. intros [i nm] Hin. cbn [fst snd].
    apply filter_In in Hin. destruct Hin as [_ Hlt]. cbn [fst] in Hlt. apply Nat.ltb_lt in Hlt.
    unfold rho. rewrite (Hid i Hlt). reflexivity.
  - intros i nm. rewrite M. split.
    + intros (i' & H1 & H2 & H3). rewrite (Hid i' H1) in H3. inversion H3; subst. auto.
    + intros [H1 H2]. exists i. auto.
Qed.

Theorem names_roundtrip_elements_data : forall cf ver w s ilen dw e,
  parseM cf ver w = POk s -> emitM (ps_m s) ilen dw = Ok e -> cf_skip_name cf = false ->
  let ids := ps_ids s in let ns := name_sections w in
  exists s_nm pre post,
    em_secs e = pre ++ s_nm ++ post /\ (s_nm = [] \/ s_nm = [S_Custom (CS_Name (Some (names_of s_nm)))]) /\
    wn_elems (names_of s_nm) =
      sort_nm (filter (fun p => N.to_nat (fst p) <? length (ii_elements ids)) (dedupe_last (flat_map wn_elems ns))) /\
    wn_data (names_of s_nm) =
      sort_nm (filter (fun p => N.to_nat (fst p) <? length (ii_data ids)) (dedupe_last (flat_map wn_data ns))).
Proof.
  intros cf ver w s ilen dw e HP HE Hskip. cbv zeta.
  destruct (names_roundtrip _ _ _ _ _ _ _ HP HE Hskip) as (s_nm & pre & post & H1 & H2 & H3).
  cbv zeta in H3. destruct H3 as (_ & _ & _ & _ & _ & Kel & Kda).
  destruct (rho_elements_data_id _ _ _ _ _ _ _ HP HE) as (We & Wd & Ie & Id).
  exists s_nm, pre, post. split; [exact H1|]. split; [exact H2|]. split.
  - apply (kind_rt_id _ _ _ _ _ Kel We Ie).
  - apply (kind_rt_id _ _ _ _ _ Kda Wd Id).
Qed.

(* ====================================================================================== *)
(* Part D: the module name                                                                  *)
(* ====================================================================================== *)
Theorem module_name_parse : forall cf ver w s, parseM cf ver w = POk s ->
  m_name (ps_m s) = last_module_name (name_sections w).
Proof.
  intros cf ver w s HP. destruct (parseM_names_structure _ _ _ _ HP) as (m0 & _ & U0 & Em).
  rewrite Em. wcbn. rewrite all_names_name. destruct U0 as [U0 _]. rewrite U0.
  destruct (last_module_name (name_sections w)); reflexivity.
Qed.
Theorem module_name_emit : forall m ilen dw e, emitM m ilen dw = Ok e -> cf_skip_name (m_config m) = false ->
  exists s_nm pre post, em_secs e = pre ++ s_nm ++ post /\
    (s_nm = [] \/ s_nm = [S_Custom (CS_Name (Some (names_of s_nm)))]) /\ wn_module (names_of s_nm) = m_name m.
Proof.
  intros m ilen dw e HE Hskip. destruct (emitM_names _ _ _ _ HE) as (_ & s_nm & pre & post & Hsecs & Hn).
  rewrite Hskip in Hn. apply emit_names_fields in Hn. exists s_nm, pre, post. intuition.
Qed.

(* ====================================================================================== *)
(* tables / memories / globals / functions: the emitted index                               *)
(* ====================================================================================== *)
(* The emit-time maps put the imported entities first (in import order), then the local ones in
   arena order (the emit_order theorems).  When that list is the arena order itself, rho is the identity. *)
Lemma rho_id_number x S l n : space_map x S = number l -> l = iota n ->
  wf_map (space_map x S) /\ (forall i, N.to_nat i < n -> get_idx x S i = Ok i).
Proof.
  intros E ->. split.
  - rewrite E. apply number_wf. unfold iota. apply NoDup_map_inj; [intros a b; apply Nat2N.inj|apply seq_NoDup].
  - intros i Hi. unfold get_idx. rewrite E. apply lookup_number_iota. exact Hi.
Qed.
Theorem rho_id_tables m ilen dw e n : emitM m ilen dw = Ok e ->
  imported_tables m ++ map fst (local_tables m) = iota n ->
  wf_map (space_map (em_x2i e) S_table) /\ (forall i, N.to_nat i < n -> get_idx (em_x2i e) S_table i = Ok i).
Proof. intros HE H. destruct (emitM_x2i _ _ _ _ HE) as [fs [_ (_ & _ & X & _)]]. eapply rho_id_number; [exact X|exact H]. Qed.
Theorem rho_id_memories m ilen dw e n : emitM m ilen dw = Ok e ->
  imported_memories m ++ map fst (local_memories m) = iota n ->
  wf_map (space_map (em_x2i e) S_memory) /\ (forall i, N.to_nat i < n -> get_idx (em_x2i e) S_memory i = Ok i).
Proof. intros HE H. destruct (emitM_x2i _ _ _ _ HE) as [fs [_ (_ & _ & _ & X & _)]]. eapply rho_id_number; [exact X|exact H]. Qed.
Theorem rho_id_globals m ilen dw e n : emitM m ilen dw = Ok e ->
  imported_globals m ++ map gid (local_globals m) = iota n ->
  wf_map (space_map (em_x2i e) S_global) /\ (forall i, N.to_nat i < n -> get_idx (em_x2i e) S_global i = Ok i).
Proof. intros HE H. destruct (emitM_x2i _ _ _ _ HE) as [fs [_ (_ & _ & _ & _ & X & _)]]. eapply rho_id_number; [exact X|exact H]. Qed.
(* functions: imported first, then the local ones in the emitter's (Reverse(size), id) order *)
Theorem rho_funcs m ilen dw e : emitM m ilen dw = Ok e ->
  exists fs, used_local_functions m = Ok fs /\ NoDup (map fst fs) /\
    space_map (em_x2i e) S_func = number (imported_funcs m ++ map fst fs) /\
    (NoDup (imported_funcs m ++ map fst fs) -> wf_map (space_map (em_x2i e) S_func) /\
       forall id j, get_idx (em_x2i e) S_func id = Ok j <-> nth_error (imported_funcs m ++ map fst fs) (N.to_nat j) = Some id).
Proof.
  intros HE. destruct (emitM_x2i _ _ _ _ HE) as [fs [Hfs (_ & X & _)]]. exists fs. split; [exact Hfs|].
  split; [apply (used_local_functions_ids _ _ Hfs)|]. split; [exact X|]. intros ND.
  assert (W : wf_map (space_map (em_x2i e) S_func)) by (cbn [space_map]; rewrite X; apply number_wf, ND).
  split; [exact W|]. intros id j. rewrite (x2i_positions _ _ _ _ W). cbn [space_map]. rewrite X, number_fst. reflexivity.
Qed.

(* ====================================================================================== *)
(* types                                                                                    *)
(* ====================================================================================== *)
Section KindGen.
  Context {A : Type} (setn : A -> nstr -> A) (getn : A -> option nstr).
  Hypothesis Hset : forall x s t, setn (setn x s) t = setn x t.
  Hypothesis Hget : forall x s, getn (setn x s) = Some s.

  Lemma aiter_named_iff_gen (a0 : tarena A) idx (l : namemap) id nm :
    dead a0 = [] -> Forall (fun v => getn v = None) (items a0) ->
    ((exists v, In (id, v) (aiter (apply_names a0 idx setn l)) /\ getn v = Some nm) <->
     (N.to_nat id < length (items a0) /\ last_for idx l id = Some nm)).
  Proof.
    intros D F. destruct (apply_names_shape setn idx l a0) as [HL HD]. rewrite D in HD.
    pose proof (apply_names_nth setn idx Hset l a0 (N.to_nat id)) as Hn. rewrite N2Nat.id in Hn. split.
    - intros [v [Hin Hg]]. apply (aiter_nodead _ _ _ HD) in Hin.
      assert (Hlt : N.to_nat id < length (items a0)) by (rewrite <- HL; apply nth_error_Some; congruence).
      split; [exact Hlt|].
      destruct (nth_error (items a0) (N.to_nat id)) as [old|] eqn:Eo; [|apply nth_error_None in Eo; lia].
      rewrite Hin in Hn. cbn [option_map] in Hn. inversion Hn; subst v; clear Hn.
      destruct (last_for idx l id) as [s|]; cbn [renamed] in Hg.
      + rewrite Hget in Hg. exact Hg.
      + rewrite Forall_forall in F. rewrite (F old) in Hg by (eapply nth_error_In; exact Eo). discriminate.
    - intros [Hlt Hl].
      destruct (nth_error (items a0) (N.to_nat id)) as [old|] eqn:Eo; [|apply nth_error_None in Eo; lia].
      exists (setn old nm). split; [|apply Hget]. apply (aiter_nodead _ _ _ HD). rewrite Hn, Hl. reflexivity.
  Qed.
End KindGen.

(* A type id can be denoted by several input indices (equal types are merged by the ArenaSet);
   the merged type carries the name of the LAST entry whose index resolves to it, and that name
   is emitted at the type's emitted index; nothing else is emitted. *)
Theorem names_roundtrip_types : forall cf ver w s ilen dw e,
  parseM cf ver w = POk s -> emitM (ps_m s) ilen dw = Ok e -> cf_skip_name cf = false ->
  let ids := ps_ids s in let x := em_x2i e in let l := flat_map wn_types (name_sections w) in
  exists s_nm pre post,
    em_secs e = pre ++ s_nm ++ post /\ (s_nm = [] \/ s_nm = [S_Custom (CS_Name (Some (names_of s_nm)))]) /\
    let out := wn_types (names_of s_nm) in
    (forall j nm, In (j, nm) out <->
       exists id, N.to_nat id < length (items (Arena.arena (m_types (ps_m s)))) /\
                  last_for (ii_types ids) l id = Some nm /\ get_idx x S_type id = Ok j) /\
    (forall id nm, N.to_nat id < length (items (Arena.arena (m_types (ps_m s)))) -> last_for (ii_types ids) l id = Some nm ->
       exists j, get_idx x S_type id = Ok j /\ In (j, nm) out) /\
    StronglySorted N.lt (map fst out).
Proof.
  intros cf ver w s ilen dw e HP HE Hskip. cbv zeta.
  pose proof (parseM_config _ _ _ _ HP) as Hcf. rewrite <- Hcf in Hskip.
  destruct (parseM_names_structure _ _ _ _ HP) as (m0 & I0 & U0 & Em).
  destruct (emitM_names _ _ _ _ HE) as (_ & s_nm & pre & post & Hsecs & Hn). rewrite Hskip in Hn.
  apply emit_names_fields in Hn. destruct Hn as (_ & _ & Nty & _ & _ & _ & _ & _ & Hshape).
  exists s_nm, pre, post. split; [exact Hsecs|]. split; [exact Hshape|].
  change (live_types (ps_m s)) with (aiter (Arena.arena (m_types (ps_m s)))) in Nty.
  assert (Ety : Arena.arena (m_types (ps_m s)) =
                apply_names (Arena.arena (m_types m0)) (ii_types (ps_ids s)) set_type_name
                            (flat_map wn_types (name_sections w))).
  { rewrite Em. wcbn. apply all_names_types. }
  rewrite Ety in *. clear Ety Em.
  rewrite (proj1 (apply_names_shape set_type_name _ _ _)).
  assert (D : dead (Arena.arena (m_types m0)) = []) by (unfold ids_consistent in I0; tauto).
  assert (F : Forall (fun t => ty_name t = None) (items (Arena.arena (m_types m0)))) by (unfold unnamed in U0; tauto).
  destruct (named_spec _ _ _ _ _ Nty) as (M & _ & Tot & SS).
  pose proof (fun id nm => aiter_named_iff_gen set_type_name ty_name set_type_name_idem (fun _ _ => eq_refl)
                             (Arena.arena (m_types m0)) (ii_types (ps_ids s))
                             (flat_map wn_types (name_sections w)) id nm D F) as K.
  split; [|split].
  - intros j nm. rewrite M. split.
    + intros (id & v & Hin & Hg & Hi). exists id. destruct (proj1 (K id nm)) as [H1 H2]; [eauto|]. auto.
    + intros (id & Hlt & Hl & Hi). destruct (proj2 (K id nm)) as [v [Hin Hg]]; [auto|]. eauto.
  - intros id nm Hlt Hl. destruct (proj2 (K id nm)) as [v [Hin Hg]]; [auto|]. eauto.
  - apply SS; [|apply aiter_NoDup]. destruct (emit_order_types _ _ _ _ HE) as [_ W]. exact W.
Qed.

(* ====================================================================================== *)
(* locals (partial)                                                                         *)
(* ====================================================================================== *)
Definition set_lo_name (x : mlocal) (s : nstr) : mlocal := {| lo_ty := lo_ty x; lo_name := Some s |}.
Lemma set_lo_name_idem x s t : set_lo_name (set_lo_name x s) t = set_lo_name x t. Proof. reflexivity. Qed.

(* parse side: one function's local names are an [apply_names] through that function's parse-time
   local vector; with synthetic names on, empty names are skipped *)
Lemma local_names_fold (c : bool) (ls : list N) : forall (names : namemap) (a : tarena mlocal),
  fold_left (fun a p => if c && str_empty (snd p) then a
                        else match nth_N ls (fst p) with
                             | Some lid => aset_at a lid (fun x => {| lo_ty := lo_ty x; lo_name := Some (snd p) |})
                             | None => a end) names a =
  apply_names a ls set_lo_name (filter (fun p => negb (c && str_empty (snd p))) names).
Proof.
  induction names as [|[i s] r IH]; intros a; cbn [fold_left filter fst snd]; [reflexivity|].
  destruct (c && str_empty s); cbn [negb apply_names]; [apply IH|]. destruct (nth_N ls i); apply IH.
Qed.

Definition locals_vec (ids : i2ids) (fid : N) : list N := match locals_of ids fid with Some v => v | None => [] end.

Theorem local_names_parse_partial m ids fi names r fid :
  nth_N (ii_funcs ids) fi = Some fid ->
  let kept := filter (fun p => negb (cf_synthetic_names (m_config m) && str_empty (snd p))) names in
  let la := apply_names (m_locals m) (locals_vec ids fid) set_lo_name kept in
  apply_local_names m ids ((fi, names) :: r) = apply_local_names (set_locals m la) ids r /\
  (forall lid, aget la lid = option_map (renamed set_lo_name (last_for (locals_vec ids fid) kept lid)) (aget (m_locals m) lid)).
Proof.
  intros Hf. cbv zeta. split.
  - cbn [apply_local_names]. rewrite Hf. rewrite local_names_fold. reflexivity.
  - intros lid. apply aget_apply_names. apply set_lo_name_idem.
Qed.

(* emit side: the local names written for one emitted function *)
Definition fn_local_names (m : wir) (e : emitted_fn) : namemap :=
  flat_map (fun lid => match aget (m_locals m) lid with
                       | Some lo => match lo_name lo, find (fun q => N.eqb (fst q) lid) (ef_lmap e) with
                                    | Some n, Some q => [(snd q, n)] | _, _ => [] end
                       | None => [] end) (ef_used e).

Lemma Forall2_in_r {A B} (R : A -> B -> Prop) l bs b : Forall2 R l bs -> In b bs -> exists a, In a l /\ R a b.
Proof. induction 1 as [|a b' l bs HR HF IH]; intros Hin; [destruct Hin|]. destruct Hin as [<-|Hin]; [exists a; split; [left; reflexivity|exact HR]|]. destruct (IH Hin) as [a' [H1 H2]]. exists a'. split; [right; exact H1|exact H2]. Qed.
Lemma Forall2_in_l {A B} (R : A -> B -> Prop) l bs a : Forall2 R l bs -> In a l -> exists b, In b bs /\ R a b.
Proof. induction 1 as [|a' b l bs HR HF IH]; intros Hin; [destruct Hin|]. destruct Hin as [<-|Hin]; [exists b; split; [left; reflexivity|exact HR]|]. destruct (IH Hin) as [b' [H1 H2]]. exists b'. split; [right; exact H1|exact H2]. Qed.

Theorem local_names_emit_partial m x efs secs : emit_names m x efs = Ok secs ->
  (forall fi lnames, In (fi, lnames) (wn_locals (names_of secs)) <->
     exists fid f e, In (fid, f) (aiter (m_funcs m)) /\ find (fun e => N.eqb (ef_id e) fid) efs = Some e /\
                     fn_local_names m e <> [] /\ get_idx x S_func fid = Ok fi /\ lnames = sort_nm (fn_local_names m e)) /\
  (forall e slot n, In (slot, n) (sort_nm (fn_local_names m e)) <->
     exists lid lo q, In lid (ef_used e) /\ aget (m_locals m) lid = Some lo /\ lo_name lo = Some n /\
                      find (fun q => N.eqb (fst q) lid) (ef_lmap e) = Some q /\ snd q = slot).
Proof.
  intros H. split.
  - unfold emit_names in H. rinv H as funcs E1. rinv H as locals E2.
    assert (EL : wn_locals (names_of secs) = sort_nm (concat locals)).
    { rinv H as types E3. rinv H as tables E4. rinv H as mems E5. rinv H as globals E6. rinv H as elems E7. rinv H as data E8.
      destruct (m_name m); [inversion H; subst; reflexivity|].
      destruct funcs; [|inversion H; subst; reflexivity].
      destruct (sort_nm (concat locals)) eqn:Es; [|inversion H; subst; cbn; reflexivity].
      destruct types; [|inversion H; subst; cbn; reflexivity].
      destruct tables; [|inversion H; subst; cbn; reflexivity].
      destruct mems; [|inversion H; subst; cbn; reflexivity].
      destruct globals; [|inversion H; subst; cbn; reflexivity].
      destruct elems; [|inversion H; subst; cbn; reflexivity].
      destruct data; inversion H; subst; cbn; reflexivity. }
    clear H. rewrite EL. apply rmapM_ok_inv in E2. fold (fn_local_names m) in E2. intros fi lnames. split.
    + intros Hin. eapply Permutation_in in Hin; [|apply sort_nm_perm]. apply in_concat in Hin.
      destruct Hin as [b [Hb Hin]]. destruct (Forall2_in_r _ _ _ _ E2 Hb) as [[fid f] [Ha Hf]]. cbn [fst] in Hf.
      destruct (find (fun e => N.eqb (ef_id e) fid) efs) as [e|] eqn:Ee; [|inversion Hf; subst b; destruct Hin].
      fold (fn_local_names m e) in Hf.
      destruct (fn_local_names m e) as [|p0 rest] eqn:En; [inversion Hf; subst b; destruct Hin|].
      rinv Hf as fi' Efi. inversion Hf; subst b; clear Hf. destruct Hin as [Heq|[]]. inversion Heq; subst.
      exists fid, f, e. repeat split; auto. 1: (rewrite En; discriminate). rewrite En; reflexivity.
    + intros (fid & f & e & Ha & Ee & Hne & Hfi & ->). eapply Permutation_in; [apply Permutation_sym, sort_nm_perm|].
      apply in_concat. destruct (Forall2_in_l _ _ _ _ E2 Ha) as [b [Hb Hf]]. cbn [fst] in Hf. rewrite Ee in Hf.
      fold (fn_local_names m e) in Hf. destruct (fn_local_names m e) as [|p0 rest] eqn:En; [congruence|].
      rewrite Hfi in Hf. cbn [rbind] in Hf. inversion Hf; subst b. exists [(fi, sort_nm (p0 :: rest))]. split; [exact Hb|left; reflexivity].
  - intros e slot n. split.
    + intros Hin. eapply Permutation_in in Hin; [|apply sort_nm_perm]. unfold fn_local_names in Hin. apply in_flat_map in Hin.
      destruct Hin as [lid [Hl Hin]]. destruct (aget (m_locals m) lid) as [lo|] eqn:Elo; [|destruct Hin].
      destruct (lo_name lo) as [n'|] eqn:En; [|destruct Hin].
      destruct (find (fun q => N.eqb (fst q) lid) (ef_lmap e)) as [q|] eqn:Eq; [|destruct Hin].
      destruct Hin as [Heq|[]]. inversion Heq; subst. exists lid, lo, q. auto.
    + intros (lid & lo & q & Hl & Elo & En & Eq & <-). eapply Permutation_in; [apply Permutation_sym, sort_nm_perm|].
      unfold fn_local_names. apply in_flat_map. exists lid. split; [exact Hl|]. rewrite Elo, En, Eq. left; reflexivity.
Qed.

(* ---------------------------------------------------------------- locals: the composition parseM ; emitM *)
(* the local-name entries of the input, resolved to local ids: an entry (fi, names) whose function
   index is out of range is skipped; in the others, (li, nm) is resolved through the parse-time local
   vector of the function (arguments first, then the declared locals); with synthetic names on,
   entries with an empty name are skipped *)
Fixpoint set_all (a : tarena mlocal) (l : namemap) : tarena mlocal :=
  match l with [] => a | (lid, nm) :: r => set_all (aset_at a lid (fun x => set_lo_name x nm)) r end.
Definition resolve (ls : list N) (kept : namemap) : namemap :=
  flat_map (fun p => match nth_N ls (fst p) with Some lid => [(lid, snd p)] | None => [] end) kept.
Definition fn_entries (syn : bool) (ids : i2ids) (p : N * namemap) : namemap :=
  match nth_N (ii_funcs ids) (fst p) with
  | None => []
  | Some fid => resolve (locals_vec ids fid) (filter (fun q => negb (syn && str_empty (snd q))) (snd p))
  end.
Definition loc_entries (syn : bool) (ids : i2ids) (l : list (N * namemap)) : namemap := flat_map (fn_entries syn ids) l.
Definition local_entries (cf : config) (ids : i2ids) (ns : list wnames) : namemap :=
  flat_map (fun n => loc_entries (cf_synthetic_names cf) ids (wn_locals n)) ns.

Lemma set_all_shape : forall l a, length (items (set_all a l)) = length (items a) /\ dead (set_all a l) = dead a.
Proof.
  induction l as [|[i n] r IH]; intros a; cbn [set_all]; [auto|]. destruct (IH (aset_at a i (fun x => set_lo_name x n))) as [H1 H2].
  rewrite H1, H2. cbn [aset_at items dead]. rewrite upd_length. auto.
Qed.
Lemma set_all_nth : forall l a k,
  nth_error (items (set_all a l)) k = option_map (renamed set_lo_name (last_name l (N.of_nat k))) (nth_error (items a) k).
Proof.
  induction l as [|[i n] r IH]; intros a k; cbn [set_all last_name].
  - destruct (nth_error (items a) k); reflexivity.
  - rewrite IH. cbn [aset_at items]. destruct (N.eqb_spec i (N.of_nat k)) as [Heq|Hne].
    + subst i. rewrite Nat2N.id. destruct (nth_error (items a) k) as [v|] eqn:Ev.
      * rewrite (upd_nth_eq _ _ _ _ _ Ev). cbn [option_map].
        destruct (last_name r (N.of_nat k)); cbn [renamed]; [rewrite set_lo_name_idem|]; reflexivity.
      * rewrite upd_nth_none by exact Ev. reflexivity.
    + rewrite upd_nth_ne by (intros Hc; apply Hne; rewrite <- Hc, N2Nat.id; reflexivity).
      destruct (last_name r (N.of_nat k)); reflexivity.
Qed.
Lemma aget_set_all l a lid : aget (set_all a l) lid = option_map (renamed set_lo_name (last_name l lid)) (aget a lid).
Proof.
  unfold aget, index, get, is_dead. rewrite (proj2 (set_all_shape l a)).
  destruct (existsb _ (dead a)); [reflexivity|]. rewrite set_all_nth, N2Nat.id. reflexivity.
Qed.
Lemma set_all_app : forall l1 l2 a, set_all a (l1 ++ l2) = set_all (set_all a l1) l2.
Proof. induction l1 as [|[i n] r IH]; intros l2 a; cbn [set_all app]; [reflexivity|]. apply IH. Qed.
Lemma apply_names_set_all ls : forall l a, apply_names a ls set_lo_name l = set_all a (resolve ls l).
Proof.
  induction l as [|[i n] r IH]; intros a; cbn [apply_names resolve flat_map fst snd]; [reflexivity|].
  destruct (nth_N ls i); cbn [app set_all]; apply IH.
Qed.

Lemma apply_local_names_locals : forall l m ids m', apply_local_names m ids l = Some m' ->
  m_locals m' = set_all (m_locals m) (loc_entries (cf_synthetic_names (m_config m)) ids l).
Proof.
  induction l as [|[fi names] r IH]; intros m ids m' E; cbn [apply_local_names] in E.
  - inversion E; subst. reflexivity.
  - cbn [loc_entries flat_map]. unfold fn_entries at 1. cbn [fst snd].
    destruct (nth_N (ii_funcs ids) fi) as [fid|].
    + apply IH in E. wcbn. rewrite E. rewrite local_names_fold, apply_names_set_all, set_all_app. reflexivity.
    + cbn [app]. apply IH in E. exact E.
Qed.
Lemma parse_names_locals m ids n :
  m_locals (parse_names m ids n) = set_all (m_locals m) (loc_entries (cf_synthetic_names (m_config m)) ids (wn_locals n)).
Proof.
  unfold parse_names. cbv zeta.
  match goal with |- context [apply_local_names ?mm _ _] => destruct (apply_local_names_some (wn_locals n) mm ids) as [m3 E3]; rewrite E3 end.
  apply apply_local_names_locals in E3. wcbn. rewrite E3. wcbn. destruct (wn_module n); reflexivity.
Qed.
Lemma all_names_locals ids ns : forall m,
  m_locals (parse_all_names ids ns m) = set_all (m_locals m) (local_entries (m_config m) ids ns).
Proof.
  unfold parse_all_names, local_entries. induction ns as [|n r IH]; intros m; cbn [fold_left flat_map]; [reflexivity|].
  rewrite IH, parse_names_locals, parse_names_config, set_all_app. reflexivity.
Qed.

(* parse side: a local of the parsed module carries the name of the LAST input entry that resolves to
   it; without synthetic names it carries no other name *)
Theorem parseM_local_names : forall cf ver w s lid lo,
  parseM cf ver w = POk s -> aget (m_locals (ps_m s)) lid = Some lo ->
  let L := local_entries cf (ps_ids s) (name_sections w) in
  (forall n, last_name L lid = Some n -> lo_name lo = Some n) /\
  (cf_synthetic_names cf = false -> lo_name lo = last_name L lid).
Proof.
  intros cf ver w s lid lo HP Hg. cbv zeta.
  destruct (parseM_names_structure _ _ _ _ HP) as (m0 & _ & U0 & Em). pose proof (parseM_config _ _ _ _ HP) as Hcf.
  assert (Ec : m_config m0 = cf).
  { rewrite <- Hcf, Em. wcbn. rewrite all_names_config. reflexivity. }
  assert (El : m_locals (ps_m s) = set_all (m_locals m0) (local_entries cf (ps_ids s) (name_sections w))).
  { rewrite Em. wcbn. rewrite all_names_locals, Ec. reflexivity. }
  rewrite El, aget_set_all in Hg. destruct (aget (m_locals m0) lid) as [lo0|] eqn:E0; [|discriminate].
  cbn [option_map] in Hg. inversion Hg; subst lo; clear Hg.
  destruct (last_name (local_entries cf (ps_ids s) (name_sections w)) lid) as [n0|]; cbn [renamed].
  - split; [intros n Hn; inversion Hn; reflexivity|reflexivity].
  - split; [discriminate|]. intros Hsyn. unfold unnamed in U0. decompose [and] U0. clear U0.
    match goal with Hx : _ = false -> Forall _ (items (m_locals m0)) |- _ => rewrite Ec in Hx; specialize (Hx Hsyn); rewrite Forall_forall in Hx; apply Hx end.
    eapply nth_error_In. apply aget_nth. exact E0.
Qed.

(* Locals, composed.  [fi] is the emitted index of the function [fid]; its entry lists, for every local
   that is emitted for it ([ef_used]: the used locals and all arguments) and is named in the input,
   the slot [ef_lmap] assigns to that local, with the name of the last input entry resolving to it.
   Names of locals that are not emitted are dropped.
   _partial: the gap is on the emit side and is visible in the statement: nothing is said here
   about [ef] beyond "the emitted function with ef_id = fid" (that [ef_used] consists of locals of
   [fid], that [ef_lmap] is injective on them and puts the arguments first is function-emission theory);
   and synthetic names must be off (otherwise unnamed locals come out as "arg<i>"/"l<i>"). *)
Theorem local_names_roundtrip_partial : forall cf ver w s ilen dw e,
  parseM cf ver w = POk s -> emitM (ps_m s) ilen dw = Ok e -> cf_skip_name cf = false -> cf_synthetic_names cf = false ->
  let m := ps_m s in let x := em_x2i e in let L := local_entries cf (ps_ids s) (name_sections w) in
  exists s_nm pre post,
    em_secs e = pre ++ s_nm ++ post /\ (s_nm = [] \/ s_nm = [S_Custom (CS_Name (Some (names_of s_nm)))]) /\
    (forall fi lnames, In (fi, lnames) (wn_locals (names_of s_nm)) <->
       exists fid f ef, In (fid, f) (aiter (m_funcs m)) /\ find (fun ef => N.eqb (ef_id ef) fid) (em_fns e) = Some ef /\
                        fn_local_names m ef <> [] /\ get_idx x S_func fid = Ok fi /\ lnames = sort_nm (fn_local_names m ef)) /\
    (forall ef slot n, In (slot, n) (sort_nm (fn_local_names m ef)) <->
       exists lid lo q, In lid (ef_used ef) /\ aget (m_locals m) lid = Some lo /\ last_name L lid = Some n /\
                        find (fun q => N.eqb (fst q) lid) (ef_lmap ef) = Some q /\ snd q = slot).
Proof.
  intros cf ver w s ilen dw e HP HE Hskip Hsyn. cbv zeta.
  pose proof (parseM_config _ _ _ _ HP) as Hcf.
  destruct (emitM_names _ _ _ _ HE) as (_ & s_nm & pre & post & Hsecs & Hn). rewrite Hcf, Hskip in Hn.
  pose proof (emit_names_fields _ _ _ _ Hn) as (_ & _ & _ & _ & _ & _ & _ & _ & Hshape).
  destruct (local_names_emit_partial _ _ _ _ Hn) as [A B].
  exists s_nm, pre, post. split; [exact Hsecs|]. split; [exact Hshape|]. split; [exact A|].
  intros ef slot n. rewrite B. split.
  - intros (lid & lo & q & H1 & H2 & H3 & H4 & H5). exists lid, lo, q.
    destruct (parseM_local_names _ _ _ _ _ _ HP H2) as [_ K]. rewrite <- (K Hsyn). auto.
  - intros (lid & lo & q & H1 & H2 & H3 & H4 & H5). exists lid, lo, q.
    destruct (parseM_local_names _ _ _ _ _ _ HP H2) as [K _]. auto.
Qed.
(* without the premise on synthetic names one direction remains: an input name that resolves to an
   emitted local comes out at that local's slot *)
Theorem local_names_roundtrip_no_loss : forall cf ver w s ilen dw e,
  parseM cf ver w = POk s -> emitM (ps_m s) ilen dw = Ok e -> cf_skip_name cf = false ->
  let m := ps_m s in let L := local_entries cf (ps_ids s) (name_sections w) in
  forall ef lid lo q n, In lid (ef_used ef) -> aget (m_locals m) lid = Some lo -> last_name L lid = Some n ->
    find (fun q => N.eqb (fst q) lid) (ef_lmap ef) = Some q -> In (snd q, n) (sort_nm (fn_local_names m ef)).
Proof.
  intros cf ver w s ilen dw e HP HE Hskip. cbv zeta. intros ef lid lo q n H1 H2 H3 H4.
  pose proof (parseM_config _ _ _ _ HP) as Hcf.
  destruct (emitM_names _ _ _ _ HE) as (_ & s_nm & pre & post & Hsecs & Hn). rewrite Hcf, Hskip in Hn.
  destruct (local_names_emit_partial _ _ _ _ Hn) as [_ B]. apply B. exists lid, lo, q.
  destruct (parseM_local_names _ _ _ _ _ _ HP H2) as [K _]. auto.
Qed.

(* ====================================================================================== *)
(* examples and counterexamples                                                             *)
(* ====================================================================================== *)
Local Open Scope N_scope.
Definition ex_names : wnames :=
  {| wn_module := Some [109]; wn_funcs := [(1, [102]); (0, [97]); (1, [103]); (7, [104])]; wn_locals := [];
     wn_types := [(0, [116])]; wn_tables := [(0, [116]); (0, [117])]; wn_mems := [(0, [109])];
     wn_globals := [(0, [103]); (3, [120])]; wn_elems := [(0, [101])]; wn_data := [(5, [99]); (0, [100])] |}.
Definition ex_tb : wtable := {| wt_elem := RT_Funcref; wt_64 := false; wt_init := 1; wt_max := None |}.
Definition ex_mod : wmod :=
  [ S_Types [([], [])];
    S_Imports [{| wi_module := [101]; wi_name := [102]; wi_kind := WI_Func 0 |}];
    S_Funcs [0];
    S_Tables [ex_tb];
    S_Mems [{| wm_64 := false; wm_shared := false; wm_init := 1; wm_max := None; wm_page := None |}];
    S_Globals [({| wg_ty := VT_I32; wg_mut := false; wg_shared := false |}, WC_I32 0%Z)];
    S_Elems [{| wel_kind := WEK_Passive; wel_items := WEI_Funcs [1] |}];
    S_Code [{| wb_locals := []; wb_ops := [(WEnd, 1)] |}];
    S_Data [{| wd_kind := WDK_Passive; wd_bytes := [1] |}];
    S_Custom (CS_Name (Some ex_names)) ].
(* what comes out: duplicates resolved to the last entry, out-of-range entries dropped *)
Definition ex_out : wnames :=
  {| wn_module := Some [109]; wn_funcs := [(0, [97]); (1, [103])]; wn_locals := [];
     wn_types := [(0, [116])]; wn_tables := [(0, [117])]; wn_mems := [(0, [109])];
     wn_globals := [(0, [103])]; wn_elems := [(0, [101])]; wn_data := [(0, [100])] |}.

(* the premises of names_roundtrip_one are satisfiable *)
Example names_roundtrip_example :
  exists s e, parseM default_config [48] ex_mod = POk s /\ emitM (ps_m s) (fun _ => 1) [] = Ok e /\
    cf_skip_name default_config = false /\ cf_synthetic_names default_config = false /\
    name_sections ex_mod = [ex_names] /\
    In (S_Custom (CS_Name (Some ex_out))) (em_secs e).
Proof. eexists. eexists. split; [vm_compute; reflexivity|]. split; [vm_compute; reflexivity|]. vm_compute. intuition. Qed.

(* Finding 1 (historical).  [names_roundtrip_one_refuted] used to stand here.  It witnessed a defect:
   a local-names entry for a function index out of range (Rust: `indices.get_func(f.index)?`) aborted
   the whole remaining name section, so a perfectly good table name was lost, and names_roundtrip needed
   a premise [locals_abort = false].  The defect was repaired in the code (the entry is now skipped with
   a warning) and in Model/ParseM.v; the refutation is no longer true and was deleted.  The former
   witness now round-trips: *)
Definition bad_local_names : wnames :=
  {| wn_module := None; wn_funcs := []; wn_locals := [(9, [])]; wn_types := []; wn_tables := [(0, [116])];
     wn_mems := []; wn_globals := []; wn_elems := []; wn_data := [] |}.
Example bad_local_names_repaired :
  exists s e, parseM default_config [48] [S_Tables [ex_tb]; S_Custom (CS_Name (Some bad_local_names))] = POk s /\
    emitM (ps_m s) (fun _ => 1) [] = Ok e /\
    In (S_Custom (CS_Name (Some {| wn_module := None; wn_funcs := []; wn_locals := []; wn_types := [];
                                   wn_tables := [(0, [116])]; wn_mems := []; wn_globals := []; wn_elems := [];
                                   wn_data := [] |}))) (em_secs e).
Proof. eexists. eexists. split; [vm_compute; reflexivity|]. split; [vm_compute; reflexivity|]. vm_compute. intuition. Qed.

(* locals: the entry for function index 9 (out of range) is skipped, the argument's name comes out at
   slot 0, the name of the unused local 1 and the entry for local index 5 (out of range) are dropped *)
Definition ex_local_names : wnames :=
  {| wn_module := None; wn_funcs := []; wn_locals := [(9, [(0, [120])]); (0, [(0, [97]); (1, [108]); (5, [122])])];
     wn_types := []; wn_tables := []; wn_mems := []; wn_globals := []; wn_elems := []; wn_data := [] |}.
Example local_names_example :
  exists s e, parseM default_config [48]
                [S_Types [([VT_I32], [])]; S_Funcs [0]; S_Code [{| wb_locals := [(1, VT_I32)]; wb_ops := [(WEnd, 1)] |}];
                 S_Custom (CS_Name (Some ex_local_names))] = POk s /\
    emitM (ps_m s) (fun _ => 1) [] = Ok e /\
    local_entries default_config (ps_ids s) [ex_local_names] = [(0, [97]); (1, [108])] /\
    map ef_used (em_fns e) = [[0]] /\ map ef_lmap (em_fns e) = [[(0, 0)]] /\
    In (S_Custom (CS_Name (Some {| wn_module := None; wn_funcs := []; wn_locals := [(0, [(0, [97])])]; wn_types := [];
                                   wn_tables := []; wn_mems := []; wn_globals := []; wn_elems := []; wn_data := [] |}))) (em_secs e).
Proof. eexists. eexists. split; [vm_compute; reflexivity|]. split; [vm_compute; reflexivity|]. vm_compute. intuition. Qed.

(* Finding 2.  With synthetic names switched on the exact statement is false for functions:
   unnamed functions come out named "f<index>". *)
Theorem names_roundtrip_funcs_synthetic_refuted :
  exists cf w s e, parseM cf [48] w = POk s /\ emitM (ps_m s) (fun _ => 1) [] = Ok e /\
    cf_skip_name cf = false /\ name_sections w = [] /\
    In (S_Custom (CS_Name (Some {| wn_module := None; wn_funcs := [(0, [102; 48])]; wn_locals := []; wn_types := [];
                                   wn_tables := []; wn_mems := []; wn_globals := []; wn_elems := []; wn_data := [] |}))) (em_secs e).
Proof.
  exists {| cf_generate_dwarf := false; cf_synthetic_names := true; cf_only_stable := false;
            cf_skip_producers := false; cf_skip_name := false; cf_preserve_code_transform := false |}.
  exists [S_Types [([], [])]; S_Funcs [0]; S_Code [{| wb_locals := []; wb_ops := [(WEnd, 1)] |}]].
  eexists. eexists. split; [vm_compute; reflexivity|]. split; [vm_compute; reflexivity|]. vm_compute. intuition.
Qed.

(* Finding 3.  "rho = id" for tables does not follow from emit_order + parseM_ids: the model (like
   walrus) accepts an import section after the table section; the emitter then renumbers. *)
Theorem rho_tables_id_refuted :
  exists w s e, parseM default_config [48] w = POk s /\ emitM (ps_m s) (fun _ => 1) [] = Ok e /\
    (N.to_nat 0 < length (ii_tables (ps_ids s)))%nat /\ get_idx (em_x2i e) S_table 0 = Ok 1.
Proof.
  exists [S_Tables [ex_tb]; S_Imports [{| wi_module := [101]; wi_name := [102]; wi_kind := WI_Table ex_tb |}]].
  eexists. eexists. split; [vm_compute; reflexivity|]. split; [vm_compute; reflexivity|]. vm_compute. split; [lia|reflexivity].
Qed.

Print Assumptions apply_names_nth.
Print Assumptions apply_names_spec.
Print Assumptions named_spec.
Print Assumptions emit_names_fields.
Print Assumptions emitM_names.
Print Assumptions parseM_names_structure.
Print Assumptions names_roundtrip.
Print Assumptions names_roundtrip_one.
Print Assumptions rho_elements_data_id.
Print Assumptions names_roundtrip_elements_data.
Print Assumptions rho_id_tables.
Print Assumptions rho_id_memories.
Print Assumptions rho_id_globals.
Print Assumptions rho_funcs.
Print Assumptions names_roundtrip_types.
Print Assumptions local_names_parse_partial.
Print Assumptions local_names_emit_partial.
Print Assumptions parseM_config.
Print Assumptions parseM_local_names.
Print Assumptions local_names_roundtrip_partial.
Print Assumptions local_names_roundtrip_no_loss.
Print Assumptions module_name_parse.
Print Assumptions module_name_emit.
Print Assumptions names_roundtrip_example.
Print Assumptions local_names_example.
Print Assumptions apply_local_names_some.
Print Assumptions bad_local_names_repaired.
Print Assumptions names_roundtrip_funcs_synthetic_refuted.
Print Assumptions rho_tables_id_refuted.

(* ====================================================================================== *)
(* the emit-time maps of tables / memories / globals of a parsed module are well formed      *)
(* ====================================================================================== *)
Local Open Scope nat_scope.
(* every import entry refers to an entity that is marked as imported, and no two to the same one *)
Definition imp_ok {A} (P : A -> Prop) (its : list N) (l : list A) : Prop :=
  NoDup its /\ Forall (fun t => exists v, nth_error l (N.to_nat t) = Some v /\ P v) its.

Lemma imp_ok_item {A} (P : A -> Prop) its l v : imp_ok P its l -> imp_ok P its (l ++ [v]).
Proof.
  intros [H1 H2]. split; [exact H1|]. eapply Forall_impl; [|exact H2]. intros t [w [Hn Hp]]. exists w. split; [|exact Hp].
  rewrite nth_error_app1; [exact Hn|]. apply nth_error_Some. congruence.
Qed.
Lemma imp_ok_new {A} (P : A -> Prop) its l v : imp_ok P its l -> P v -> imp_ok P (its ++ [N.of_nat (length l)]) (l ++ [v]).
Proof.
  intros H Hv. pose proof (imp_ok_item P its l v H) as [H1 H2]. destruct H as [N1 F1]. split.
  - apply NoDup_app_intro; [exact N1|repeat constructor; intros []|]. intros x Hx [<-|[]].
    rewrite Forall_forall in F1. destruct (F1 _ Hx) as [w [Hn _]]. rewrite Nat2N.id in Hn.
    assert (length l < length l) by (apply nth_error_Some; congruence). lia.
  - apply Forall_app. split; [exact H2|]. constructor; [|constructor]. exists v. split; [|exact Hv].
    rewrite Nat2N.id, nth_error_app2, Nat.sub_diag by lia. reflexivity.
Qed.
Lemma imp_ok_upd {A} (P : A -> Prop) its l n f : (forall x, P x -> P (f x)) -> imp_ok P its l -> imp_ok P its (Arena.upd l n f).
Proof.
  intros Hf [H1 H2]. split; [exact H1|]. eapply Forall_impl; [|exact H2]. intros t [w [Hn Hp]].
  destruct (Nat.eq_dec n (N.to_nat t)) as [->|Hne].
  - exists (f w). split; [apply upd_nth_eq; exact Hn|auto].
  - exists w. split; [rewrite upd_nth_ne by exact Hne; exact Hn|exact Hp].
Qed.
Lemma imp_ok_apply_names {A} (P : A -> Prop) its idx (setn : A -> nstr -> A) :
  (forall x s, P x -> P (setn x s)) -> forall l a, imp_ok P its (items a) -> imp_ok P its (items (apply_names a idx setn l)).
Proof.
  intros Hs. induction l as [|[i n] r IH]; intros a H; cbn [apply_names]; [exact H|]. destruct (nth_N idx i); [|auto].
  apply IH. cbn [aset_at items]. apply imp_ok_upd; [intros x; apply Hs|exact H].
Qed.

Definition itabs (l : list mimport) : list N := flat_map (fun i => match im_kind i with MI_Table t => [t] | _ => [] end) l.
Definition imems (l : list mimport) : list N := flat_map (fun i => match im_kind i with MI_Mem t => [t] | _ => [] end) l.
Definition iglobs (l : list mimport) : list N := flat_map (fun i => match im_kind i with MI_Global t => [t] | _ => [] end) l.
Definition ifuncs (l : list mimport) : list N := flat_map (fun i => match im_kind i with MI_Func t => [t] | _ => [] end) l.
Definition is_imp_gl (g : mglobal) : Prop := match gl_kind g with GK_Import _ => True | GK_Local _ => False end.
Definition is_imp_fn (f : mfunc) : Prop := match fn_kind f with FK_Import _ _ => True | _ => False end.
Definition imp_inv (m : wir) : Prop :=
  imp_ok (fun t => tb_import t <> None) (itabs (items (m_imports m))) (items (m_tables m)) /\
  imp_ok (fun t => me_import t <> None) (imems (items (m_imports m))) (items (m_memories m)) /\
  imp_ok is_imp_gl (iglobs (items (m_imports m))) (items (m_globals m)) /\
  imp_ok is_imp_fn (ifuncs (items (m_imports m))) (items (m_funcs m)).

Ltac iv_split :=
  repeat match goal with H : imp_inv _ |- _ => unfold imp_inv in H; destruct H as (? & ? & ? & ?) end;
  unfold imp_inv; wcbn; unfold itabs, imems, iglobs, ifuncs in *; rewrite ?flat_map_app; cbn [flat_map im_kind app]; rewrite ?app_nil_r;
  repeat match goal with |- _ /\ _ => split end.
Ltac iv_one :=
  first [ assumption
        | apply imp_ok_item; assumption
        | apply imp_ok_new; [assumption | cbn; first [discriminate | exact I]]
        | apply imp_ok_upd; [intros ? Hx; exact Hx | iv_one] ].
Ltac iv_solve := iv_split; iv_one.

Lemma iv_empty cf : imp_inv (empty_wir cf).
Proof. unfold imp_inv, imp_ok. cbn. repeat split; constructor. Qed.

Lemma types_insert_iv m t m1 id : imp_inv m -> types_insert m t = (m1, id) -> imp_inv m1.
Proof.
  intros H. unfold types_insert, insert. destruct (lookup mtype_eqb (already (m_types m)) t).
  - intros E; inversion E; subst; clear E. iv_solve.
  - wcbn. intros E; inversion E; subst; clear E. iv_solve.
Qed.

Lemma parse_types_iv : forall ts m ids m' ids', imp_inv m -> parse_types m ids ts = (m', ids') -> imp_inv m'.
Proof.
  induction ts as [|[ps rs] r IH]; intros m ids m' ids' H E; cbn [parse_types] in E.
  - inversion E; subst; exact H.
  - destruct (types_insert m _) as [m1 id] eqn:Et.
    eapply IH; [|exact E]. eapply types_insert_iv; [exact H|exact Et].
Qed.

Lemma parse_import_iv m ids i m' ids' : imp_inv m -> parse_import m ids i = POk (m', ids') -> imp_inv m'.
Proof.
  intros H E. unfold parse_import in E. destruct (wi_kind i).
  - pinv E. wcbn. inversion E; subst; clear E. iv_solve.
  - wcbn. inversion E; subst; clear E. iv_solve.
  - wcbn. inversion E; subst; clear E. iv_solve.
  - wcbn. inversion E; subst; clear E. iv_solve.
Qed.
Lemma parse_imports_iv : forall l m ids m' ids', imp_inv m -> parse_imports m ids l = POk (m', ids') -> imp_inv m'.
Proof.
  induction l as [|i r IH]; intros m ids m' ids' H E; cbn [parse_imports] in E.
  - inversion E; subst; exact H.
  - pinv E. destruct a as [m1 ids1]. eapply IH; [|exact E]. eapply parse_import_iv; eauto.
Qed.

Lemma parse_funcs_iv : forall l m ids m' ids', imp_inv m -> parse_funcs m ids l = POk (m', ids') -> imp_inv m'.
Proof.
  induction l as [|ty r IH]; intros m ids m' ids' H E; cbn [parse_funcs] in E.
  - inversion E; subst; exact H.
  - pinv E. wcbn. eapply IH; [|exact E]. clear E IH.
    unfold synth. destruct (cf_synthetic_names (m_config m)) eqn:Esyn; iv_solve.
Qed.

Lemma parse_tables_iv : forall l m ids m' ids', imp_inv m -> parse_tables m ids l = (m', ids') -> imp_inv m'.
Proof.
  induction l as [|t r IH]; intros m ids m' ids' H E; cbn [parse_tables] in E.
  - inversion E; subst; exact H.
  - wcbn. eapply IH; [|exact E]. clear E IH. iv_solve.
Qed.
Lemma parse_mems_iv : forall l m ids m' ids', imp_inv m -> parse_mems m ids l = (m', ids') -> imp_inv m'.
Proof.
  induction l as [|t r IH]; intros m ids m' ids' H E; cbn [parse_mems] in E.
  - inversion E; subst; exact H.
  - wcbn. eapply IH; [|exact E]. clear E IH. iv_solve.
Qed.
Lemma parse_globals_iv : forall l m ids m' ids', imp_inv m -> parse_globals m ids l = POk (m', ids') -> imp_inv m'.
Proof.
  induction l as [|[g c] r IH]; intros m ids m' ids' H E; cbn [parse_globals] in E.
  - inversion E; subst; exact H.
  - pinv E. wcbn. eapply IH; [|exact E]. clear E IH. iv_solve.
Qed.
Lemma parse_exports_iv : forall l m ids m', imp_inv m -> parse_exports m ids l = POk m' -> imp_inv m'.
Proof.
  induction l as [|e r IH]; intros m ids m' H E; cbn [parse_exports] in E.
  - inversion E; subst; exact H.
  - pinv E. wcbn. eapply IH; [|exact E]. clear E IH. iv_solve.
Qed.
Lemma parse_elem_iv m ids e m' ids' : imp_inv m -> parse_elem m ids e = POk (m', ids') -> imp_inv m'.
Proof.
  intros H E. unfold parse_elem in E. pinv E as its Eits. pinv E as mk Emk. destruct mk as [m1 kind].
  wcbn. inversion E; subst; clear E.
  assert (H1 : imp_inv m1).
  { destruct (wel_kind e).
    - inversion Emk; subst; exact H.
    - inversion Emk; subst; exact H.
    - pinv Emk as tid Etid. pinv Emk as tb Etb. pinv Emk as o Eo. pinv Emk as ok Eok. destruct ok; [|discriminate].
      inversion Emk; subst; clear Emk. clear - H. iv_solve. }
  clear - H1. iv_solve.
Qed.
Lemma parse_elems_iv : forall l m ids m' ids', imp_inv m -> parse_elems m ids l = POk (m', ids') -> imp_inv m'.
Proof.
  induction l as [|i r IH]; intros m ids m' ids' H E; cbn [parse_elems] in E.
  - inversion E; subst; exact H.
  - pinv E. destruct a as [m1 ids1]. eapply IH; [|exact E]. eapply parse_elem_iv; eauto.
Qed.
Lemma reserve_data_iv : forall n m ids m' ids', imp_inv m -> reserve_data m ids n = (m', ids') -> imp_inv m'.
Proof.
  induction n as [|n IH]; intros m ids m' ids' H E; cbn [reserve_data] in E.
  - inversion E; subst; exact H.
  - wcbn. eapply IH; [|exact E]. clear E IH. iv_solve.
Qed.
Lemma parse_data_from_iv : forall l m ids pre i m' ids',
  imp_inv m -> parse_data_from m ids pre i l = POk (m', ids') -> imp_inv m'.
Proof.
  induction l as [|d r IH]; intros m ids pre i m' ids' H E; cbn [parse_data_from] in E.
  - inversion E; subst; exact H.
  - pinv E as x Ex. destruct x as [[m1 ids1] id]. pinv E as y Ey. destruct y as [m2 kind]. pinv E as u Eu.
    eapply IH; [|exact E]. clear E IH Eu.
    assert (H1 : imp_inv m1).
    { destruct pre.
      - pinv Ex as z Ez. inversion Ex; subst; exact H.
      - wcbn. inversion Ex; subst; clear Ex. clear - H. iv_solve. }
    assert (H2 : imp_inv m2).
    { destruct (wd_kind d).
      - inversion Ey; subst; exact H1.
      - pinv Ey as mid Emid. pinv Ey as mm Emm. pinv Ey as o Eo. pinv Ey as ok Eok. destruct ok; [|discriminate].
        inversion Ey; subst; clear Ey. clear - H1. iv_solve. }
    clear - H2. iv_solve.
Qed.


Lemma parse_sec_iv s sec s' : imp_inv (ps_m s) -> parse_sec s sec = POk s' -> imp_inv (ps_m s').
Proof.
  intros H E. unfold parse_sec in E. destruct sec.
  - destruct (parse_types _ _ _) as [m1 i1] eqn:Ep. inversion E; subst; clear E. wcbn. eapply parse_types_iv; eauto.
  - pinv E. destruct a as [m1 i1]. inversion E; subst; clear E. wcbn. eapply parse_imports_iv; eauto.
  - pinv E. destruct a as [m1 i1]. inversion E; subst; clear E. wcbn. eapply parse_funcs_iv; eauto.
  - destruct (parse_tables _ _ _) as [m1 i1] eqn:Ep. inversion E; subst; clear E. wcbn. eapply parse_tables_iv; eauto.
  - destruct (parse_mems _ _ _) as [m1 i1] eqn:Ep. inversion E; subst; clear E. wcbn. eapply parse_mems_iv; eauto.
  - pinv E. destruct a as [m1 i1]. inversion E; subst; clear E. wcbn. eapply parse_globals_iv; eauto.
  - pinv E. inversion E; subst; clear E. wcbn. eapply parse_exports_iv; eauto.
  - pinv E. inversion E; subst; clear E. clear - H. iv_solve.
  - pinv E. destruct a as [m1 i1]. inversion E; subst; clear E. wcbn. eapply parse_elems_iv; eauto.
  - destruct (reserve_data _ _ _) as [m1 i1] eqn:Ep. inversion E; subst; clear E. wcbn. eapply reserve_data_iv; eauto.
  - inversion E; subst; clear E. wcbn. exact H.
  - pinv E. destruct a as [m1 i1]. inversion E; subst; clear E. wcbn. unfold parse_data in E0. eapply parse_data_from_iv; eauto.
  - inversion E; subst; clear E. unfold parse_custom.
    destruct c as [n d|n d|[n|]|[p|]]; wcbn; try exact H; clear - H; iv_solve.
Qed.
Lemma parse_secs_iv : forall w s s', imp_inv (ps_m s) -> parse_secs s w = POk s' -> imp_inv (ps_m s').
Proof.
  induction w as [|x r IH]; intros s s' H E; cbn [parse_secs] in E.
  - inversion E; subst; exact H.
  - pinv E. eapply IH; [|exact E]. eapply parse_sec_iv; eauto.
Qed.

Lemma add_locals_iv : forall tys m ids fid pre m' ids' l,
  imp_inv m -> add_locals m ids fid tys pre = (m', ids', l) -> imp_inv m'.
Proof.
  induction tys as [|t r IH]; intros m ids fid pre m' ids' l H E; cbn [add_locals] in E.
  - inversion E; subst; exact H.
  - wcbn. destruct (add_locals _ _ fid r pre) as [[m1 ids1] rest] eqn:Ea.
    inversion E; subst; clear E. eapply IH; [|exact Ea]. clear Ea IH. iv_solve.
Qed.
Lemma prepare_bodies_iv : forall bs m ids ni i m' ids' ps,
  imp_inv m -> prepare_bodies m ids ni i bs = POk (m', ids', ps) -> imp_inv m'.
Proof.
  induction bs as [|b r IH]; intros m ids ni i m' ids' ps H E; cbn [prepare_bodies] in E.
  - inversion E; subst; exact H.
  - pinv E as fid Efid. pinv E as f Ef. destruct (fn_kind f); try discriminate.
    pinv E as t Et.
    destruct (add_locals m ids fid (ty_params t) _) as [[m1 ids1] args] eqn:E1.
    destruct (types_insert m1 _) as [m2 tid] eqn:E2.
    destruct (add_locals m2 ids1 fid _ _) as [[m3 ids3] ls] eqn:E3.
    pinv E as x Ex. destruct x as [[m4 ids4] rest]. inversion E; subst; clear E.
    eapply IH; [|exact Ex].
    eapply add_locals_iv; [|exact E3]. eapply types_insert_iv; [|exact E2].
    eapply add_locals_iv; [|exact E1]. exact H.
Qed.
(* install_bodies overwrites the kind of the functions it installs: those were FK_Uninit, so none of
   them is one of the imported functions *)
Lemma imp_ok_upd_other {A} (P : A -> Prop) its l id f : ~ In id its -> imp_ok P its l -> imp_ok P its (Arena.upd l (N.to_nat id) f).
Proof.
  intros Hni [H1 H2]. split; [exact H1|]. rewrite Forall_forall in *. intros t Ht. destruct (H2 t Ht) as [w [Hn Hp]].
  exists w. split; [|exact Hp]. rewrite upd_nth_ne; [exact Hn|]. intros Hc. apply N2Nat.inj in Hc. subst t. contradiction.
Qed.
Definition uninit_in (fa : tarena mfunc) (p : prepared) : Prop :=
  exists f ty, nth_error (items fa) (N.to_nat (pr_fid p)) = Some f /\ fn_kind f = FK_Uninit ty.
Lemma types_insert_funcs m t m1 id : types_insert m t = (m1, id) -> m_funcs m1 = m_funcs m.
Proof.
  unfold types_insert, insert. destruct (lookup mtype_eqb (already (m_types m)) t).
  - intros E; inversion E; subst; reflexivity.
  - wcbn. intros E; inversion E; subst; reflexivity.
Qed.
Lemma add_locals_funcs : forall tys m ids fid pre m' ids' l,
  add_locals m ids fid tys pre = (m', ids', l) -> m_funcs m' = m_funcs m.
Proof.
  induction tys as [|t r IH]; intros m ids fid pre m' ids' l E; cbn [add_locals] in E.
  - inversion E; subst; reflexivity.
  - wcbn. destruct (add_locals _ _ fid r pre) as [[m1 ids1] rest] eqn:Ea.
    inversion E; subst; clear E. apply IH in Ea. wcbn. exact Ea.
Qed.
Lemma prepare_bodies_uninit : forall bs m ids ni i m' ids' ps,
  prepare_bodies m ids ni i bs = POk (m', ids', ps) -> m_funcs m' = m_funcs m /\ Forall (uninit_in (m_funcs m)) ps.
Proof.
  induction bs as [|b r IH]; intros m ids ni i m' ids' ps E; cbn [prepare_bodies] in E.
  - inversion E; subst. split; [reflexivity|constructor].
  - pinv E as fid Efid. pinv E as f Ef. destruct (fn_kind f) eqn:Ek; try discriminate.
    pinv E as t Et.
    destruct (add_locals m ids fid (ty_params t) _) as [[m1 ids1] args] eqn:E1.
    destruct (types_insert m1 _) as [m2 tid] eqn:E2.
    destruct (add_locals m2 ids1 fid _ _) as [[m3 ids3] ls] eqn:E3.
    pinv E as x Ex. destruct x as [[m4 ids4] rest]. inversion E; subst; clear E.
    apply IH in Ex. destruct Ex as [F4 U4].
    apply add_locals_funcs in E1. apply types_insert_funcs in E2. apply add_locals_funcs in E3.
    assert (F3 : m_funcs m3 = m_funcs m) by congruence. rewrite F3 in *. split; [exact F4|].
    constructor; [|exact U4]. exists f. eexists. split; [|exact Ek]. cbn [pr_fid]. apply aget_nth.
    apply of_opt_panic_ok in Ef. exact Ef.
Qed.
Lemma uninit_not_imported fa its p : imp_ok is_imp_fn its (items fa) -> uninit_in fa p -> ~ In (pr_fid p) its.
Proof.
  intros [_ F] (f & ty & Hn & Hk) Hin. rewrite Forall_forall in F. destruct (F _ Hin) as [v [Hv Hp]].
  rewrite Hn in Hv. inversion Hv; subst v. unfold is_imp_fn in Hp. rewrite Hk in Hp. exact Hp.
Qed.
Lemma install_bodies_iv : forall ps m ids m', imp_inv m ->
  Forall (fun p => ~ In (pr_fid p) (ifuncs (items (m_imports m)))) ps -> install_bodies m ids ps = POk m' -> imp_inv m'.
Proof.
  induction ps as [|p r IH]; intros m ids m' H U E; cbn [install_bodies] in E.
  - inversion E; subst; exact H.
  - pinv E as lf Elf. inversion U as [|p' r' Up Ur]; subst. eapply IH; [| |exact E].
    + clear - H Up. iv_split; try assumption. apply imp_ok_upd_other; assumption.
    + wcbn. exact Ur.
Qed.


Lemma apply_local_names_imports : forall l m ids m', apply_local_names m ids l = Some m' -> m_imports m' = m_imports m.
Proof.
  induction l as [|[fi names] r IH]; intros m ids m' E; cbn [apply_local_names] in E.
  - inversion E; subst. reflexivity.
  - destruct (nth_N (ii_funcs ids) fi); [|apply IH in E; exact E]. apply IH in E. wcbn. exact E.
Qed.
Lemma parse_names_imports m ids n : m_imports (parse_names m ids n) = m_imports m.
Proof.
  unfold parse_names. cbv zeta.
  match goal with |- context [apply_local_names ?mm _ _] => destruct (apply_local_names_some (wn_locals n) mm ids) as [m3 E3]; rewrite E3 end.
  apply apply_local_names_imports in E3. wcbn. rewrite E3. wcbn. destruct (wn_module n); reflexivity.
Qed.
Lemma parse_names_iv m ids n : imp_inv m -> imp_inv (parse_names m ids n).
Proof.
  intros (H1 & H2 & H3 & H4). unfold imp_inv.
  rewrite parse_names_imports, parse_names_tables, parse_names_memories, parse_names_globals, parse_names_funcs.
  split; [|split; [|split]]; apply imp_ok_apply_names; auto; intros x s Hx; exact Hx.
Qed.
Lemma parse_all_names_iv ids ns : forall m, imp_inv m -> imp_inv (parse_all_names ids ns m).
Proof.
  unfold parse_all_names. induction ns as [|n r IH]; intros m H; cbn [fold_left]; [exact H|]. apply IH, parse_names_iv, H.
Qed.

Theorem parseM_iv : forall cf ver w s, parseM cf ver w = POk s -> imp_inv (ps_m s).
Proof.
  intros cf ver w s E. unfold parseM in E. pinv E as s1 E1.
  apply parse_secs_iv in E1; [|apply iv_empty].
  destruct (_ <? _)%N; [discriminate|].
  pinv E as x Ex. destruct x as [[m1 ids1] prepared]. pinv E as m2 E2. inversion E; subst; clear E. wcbn.
  pose proof (prepare_bodies_uninit _ _ _ _ _ _ _ _ Ex) as [Fm1 Um1].
  apply prepare_bodies_iv in Ex; [|exact E1]. apply install_bodies_iv in E2; [|exact Ex|].
  2:{ rewrite <- Fm1 in Um1. eapply Forall_impl; [|exact Um1]. intros p Hp.
      eapply uninit_not_imported; [|exact Hp]. unfold imp_inv in Ex. tauto. }
  pose proof (parse_all_names_iv ids1 (ps_names s1) m2 E2) as H. unfold parse_all_names in H. clear - H. iv_solve.
Qed.

Lemma iter_from_snd_nodead {A} (l : list A) : forall n, map snd (iter_from n l []) = l.
Proof. induction l as [|a l IH]; intros n; cbn [iter_from existsb map snd]; [reflexivity|]. rewrite IH. reflexivity. Qed.
Lemma aiter_snd_nodead {A} (a : tarena A) : dead a = [] -> map snd (aiter a) = items a.
Proof. intros D. unfold aiter. rewrite map_map. cbn [snd]. unfold iter. rewrite D. apply iter_from_snd_nodead. Qed.

(* for a module that comes straight out of the parser the maps of tables, memories and globals
   are well formed (so the name maps of those kinds are strictly sorted, see kind_rt) *)
Theorem parsed_wf_maps : forall cf ver w s ilen dw e,
  parseM cf ver w = POk s -> emitM (ps_m s) ilen dw = Ok e ->
  wf_map (space_map (em_x2i e) S_table) /\ wf_map (space_map (em_x2i e) S_memory) /\ wf_map (space_map (em_x2i e) S_global).
Proof.
  intros cf ver w s ilen dw e HP HE. pose proof (parseM_ids _ _ _ _ HP) as I. pose proof (parseM_iv _ _ _ _ HP) as (Jt & Jm & Jg & _).
  unfold ids_consistent in I. decompose [and] I. clear I.
  assert (Li : live_imports (ps_m s) = items (m_imports (ps_m s))) by (apply aiter_snd_nodead; assumption).
  split; [|split].
  - apply (emit_order_tables _ _ _ _ HE). unfold imported_tables. rewrite Li. fold (itabs (items (m_imports (ps_m s)))).
    destruct Jt as [ND F]. apply NoDup_app_intro; [exact ND|apply local_tables_NoDup|].
    intros x Hx Hl. rewrite Forall_forall in F. destruct (F _ Hx) as [v [Hn Hp]].
    apply in_map_iff in Hl. destruct Hl as [[x' v'] [Hx' Hl]]. cbn [fst] in Hx'. subst x'. apply filter_In in Hl.
    destruct Hl as [Hl Hk]. cbn [snd] in Hk. apply aiter_nodead in Hl; [|assumption]. rewrite Hn in Hl. inversion Hl; subst v'.
    destruct (tb_import v); [discriminate|congruence].
  - apply (emit_order_memories _ _ _ _ HE). unfold imported_memories. rewrite Li. fold (imems (items (m_imports (ps_m s)))).
    destruct Jm as [ND F]. apply NoDup_app_intro; [exact ND|apply local_memories_NoDup|].
    intros x Hx Hl. rewrite Forall_forall in F. destruct (F _ Hx) as [v [Hn Hp]].
    apply in_map_iff in Hl. destruct Hl as [[x' v'] [Hx' Hl]]. cbn [fst] in Hx'. subst x'. apply filter_In in Hl.
    destruct Hl as [Hl Hk]. cbn [snd] in Hk. apply aiter_nodead in Hl; [|assumption]. rewrite Hn in Hl. inversion Hl; subst v'.
    destruct (me_import v); [discriminate|congruence].
  - apply (emit_order_globals _ _ _ _ HE). unfold imported_globals. rewrite Li. fold (iglobs (items (m_imports (ps_m s)))).
    destruct Jg as [ND F]. apply NoDup_app_intro; [exact ND|apply local_globals_NoDup|].
    intros x Hx Hl. rewrite Forall_forall in F. destruct (F _ Hx) as [v [Hn Hp]]. rewrite local_globals_ids in Hl.
    apply in_map_iff in Hl. destruct Hl as [[x' v'] [Hx' Hl]]. cbn [fst] in Hx'. subst x'. apply filter_In in Hl.
    destruct Hl as [Hl Hk]. cbn [snd] in Hk. apply aiter_nodead in Hl; [|assumption]. rewrite Hn in Hl. inversion Hl; subst v'.
    unfold is_imp_gl in Hp. destruct (gl_kind v); [discriminate|exact Hp].
Qed.

(* functions: the imported function ids and the ids of the local functions are distinct, so the
   premise of [rho_funcs] holds for every parsed module *)
Theorem parsed_funcs_NoDup : forall cf ver w s fs,
  parseM cf ver w = POk s -> used_local_functions (ps_m s) = Ok fs -> NoDup (imported_funcs (ps_m s) ++ map fst fs).
Proof.
  intros cf ver w s fs HP Hfs. pose proof (parseM_ids _ _ _ _ HP) as I. pose proof (parseM_iv _ _ _ _ HP) as (_ & _ & _ & Jf).
  unfold ids_consistent in I. decompose [and] I. clear I.
  assert (Li : live_imports (ps_m s) = items (m_imports (ps_m s))) by (apply aiter_snd_nodead; assumption).
  destruct (used_local_functions_ids _ _ Hfs) as [NDl Hl].
  unfold imported_funcs. rewrite Li. fold (ifuncs (items (m_imports (ps_m s)))).
  destruct Jf as [ND F]. apply NoDup_app_intro; [exact ND|exact NDl|].
  intros x Hx Hin. rewrite Forall_forall in F. destruct (F _ Hx) as [v [Hn Hp]].
  apply Hl in Hin. destruct Hin as (f & lf & Hin & Hk). apply aiter_nodead in Hin; [|assumption].
  rewrite Hn in Hin. inversion Hin; subst v. unfold is_imp_fn in Hp. rewrite Hk in Hp. exact Hp.
Qed.

Theorem rho_funcs_parsed : forall cf ver w s ilen dw e,
  parseM cf ver w = POk s -> emitM (ps_m s) ilen dw = Ok e ->
  exists fs, used_local_functions (ps_m s) = Ok fs /\ NoDup (imported_funcs (ps_m s) ++ map fst fs) /\
    space_map (em_x2i e) S_func = number (imported_funcs (ps_m s) ++ map fst fs) /\
    wf_map (space_map (em_x2i e) S_func) /\
    forall id j, get_idx (em_x2i e) S_func id = Ok j <-> nth_error (imported_funcs (ps_m s) ++ map fst fs) (N.to_nat j) = Some id.
Proof.
  intros cf ver w s ilen dw e HP HE. destruct (rho_funcs _ _ _ _ HE) as (fs & Hfs & _ & X & H).
  pose proof (parsed_funcs_NoDup _ _ _ _ _ HP Hfs) as ND. destruct (H ND) as [W P].
  exists fs. auto.
Qed.
Corollary parsed_wf_funcs : forall cf ver w s ilen dw e,
  parseM cf ver w = POk s -> emitM (ps_m s) ilen dw = Ok e -> wf_map (space_map (em_x2i e) S_func).
Proof. intros cf ver w s ilen dw e HP HE. destruct (rho_funcs_parsed _ _ _ _ _ _ _ HP HE) as (fs & _ & _ & _ & W & _). exact W. Qed.

Print Assumptions parseM_iv.
Print Assumptions parsed_wf_maps.
Print Assumptions parsed_funcs_NoDup.
Print Assumptions rho_funcs_parsed.

(* Theorem C in equational form for tables, memories, globals (parsed module, no premise on the maps) *)
Definition rt_eq (x : x2i) (S : space) (n : nat) (l out : namemap) : Prop :=
  StronglySorted N.lt (map fst out) /\
  out = sort_nm (map (fun p => (rho x S (fst p), snd p)) (filter (fun p => N.to_nat (fst p) <? n) (dedupe_last l))).
Theorem names_roundtrip_tmg_eq : forall cf ver w s ilen dw e,
  parseM cf ver w = POk s -> emitM (ps_m s) ilen dw = Ok e -> cf_skip_name cf = false ->
  let ids := ps_ids s in let x := em_x2i e in let ns := name_sections w in
  exists s_nm pre post,
    em_secs e = pre ++ s_nm ++ post /\ (s_nm = [] \/ s_nm = [S_Custom (CS_Name (Some (names_of s_nm)))]) /\
    let out := names_of s_nm in
    rt_eq x S_table (length (ii_tables ids)) (flat_map wn_tables ns) (wn_tables out) /\
    rt_eq x S_memory (length (ii_memories ids)) (flat_map wn_mems ns) (wn_mems out) /\
    rt_eq x S_global (length (ii_globals ids)) (flat_map wn_globals ns) (wn_globals out).
Proof.
  intros cf ver w s ilen dw e HP HE Hskip. cbv zeta.
  destruct (names_roundtrip _ _ _ _ _ _ _ HP HE Hskip) as (s_nm & pre & post & H1 & H2 & H3).
  cbv zeta in H3. destruct H3 as (_ & _ & Kt & Km & Kg & _ & _).
  destruct (parsed_wf_maps _ _ _ _ _ _ _ HP HE) as (Wt & Wm & Wg).
  exists s_nm, pre, post. split; [exact H1|]. split; [exact H2|].
  destruct Kt as (_ & _ & _ & Kt). destruct Km as (_ & _ & _ & Km). destruct Kg as (_ & _ & _ & Kg).
  split; [exact (Kt Wt)|]. split; [exact (Km Wm)|exact (Kg Wg)].
Qed.

(* the same for functions (synthetic names off): the map of functions of a parsed module is well formed *)
Theorem names_roundtrip_funcs_eq : forall cf ver w s ilen dw e,
  parseM cf ver w = POk s -> emitM (ps_m s) ilen dw = Ok e -> cf_skip_name cf = false -> cf_synthetic_names cf = false ->
  exists s_nm pre post,
    em_secs e = pre ++ s_nm ++ post /\ (s_nm = [] \/ s_nm = [S_Custom (CS_Name (Some (names_of s_nm)))]) /\
    rt_eq (em_x2i e) S_func (length (ii_funcs (ps_ids s))) (flat_map wn_funcs (name_sections w)) (wn_funcs (names_of s_nm)).
Proof.
  intros cf ver w s ilen dw e HP HE Hskip Hsyn.
  destruct (names_roundtrip _ _ _ _ _ _ _ HP HE Hskip) as (s_nm & pre & post & H1 & H2 & H3).
  cbv zeta in H3. destruct H3 as (_ & Kf & _). specialize (Kf Hsyn).
  exists s_nm, pre, post. split; [exact H1|]. split; [exact H2|].
  destruct Kf as (_ & _ & _ & Kf). exact (Kf (parsed_wf_funcs _ _ _ _ _ _ _ HP HE)).
Qed.
Print Assumptions names_roundtrip_tmg_eq.
Print Assumptions names_roundtrip_funcs_eq.
