(* The row loop of the DWARF line-program rewriter (Model/LineProg.v) is safe and row-preserving. *)
From Coq Require Import List NArith Bool Lia.
Import ListNotations.
Require Import WV.Model.LineProg.
Local Open Scope N_scope.

(* ---------- facts about the writer / reader views that do not depend on the converter ---------- *)

Lemma writer_ok_false_prev : forall p q evs, writer_ok false p evs = writer_ok false q evs.
Proof. intros p q [|[b|off ln|off] r]; reflexivity. Qed.

(* is a sequence open after the calls [evs], when [inseq] held before? *)
Fixpoint wopen (inseq : bool) (evs : list lev) : bool :=
  match evs with
  | [] => inseq
  | EvBegin _ :: r => wopen true r
  | EvRow _ _ :: r => wopen inseq r
  | EvEnd _ :: r => wopen false r
  end.

Lemma wopen_app : forall a i b, wopen i (a ++ b) = wopen (wopen i a) b.
Proof. induction a as [|[x|off ln|off] a IH]; intros i b; cbn [wopen app]; auto. Qed.

Section conv.
Variable cv : N -> bool -> option N.

(* "inside a sequence, current_sequence_base_address is Some" *)
Definition linv (s : lst) : Prop := l_in s = true -> exists b, l_cur s = Some b.

Lemma linv_lst0 : linv lst0.
Proof. intro H; discriminate H. Qed.

Ltac leb_true :=
  repeat match goal with
         | |- context [N.leb ?a ?b] =>
             replace (N.leb a b) with true by (symmetry; apply N.leb_le; lia)
         end.

Ltac ltb_cases :=
  repeat match goal with
         | |- context [N.ltb ?a ?b] =>
             let E := fresh "Hlt" in
             destruct (N.ltb a b) eqn:E;
             [apply N.ltb_lt in E | apply N.ltb_ge in E]
         end.

(* ---------- 1. no writer assertion can fire ---------- *)

Lemma lstep_writer_ok : forall s i s' ev,
  linv s -> lstep cv s i = Some (s', ev) ->
  linv s' /\ l_in s' = wopen (l_in s) ev /\
  forall k, writer_ok (l_in s') (l_last s') k = true ->
            writer_ok (l_in s) (l_last s) (ev ++ k) = true.
Proof.
  intros [sin scur sf sl] [v|a e ln] s' ev Hinv H; unfold linv in *; cbn [l_in l_cur l_fbase l_last] in *.
  - cbn [lstep l_in l_cur l_fbase l_last] in H. destruct sin; [discriminate H|].
    injection H as <- <-. cbn [l_in l_cur l_fbase l_last app wopen].
    repeat split; auto; intro; discriminate.
  - unfold lstep in H; cbn [l_in l_cur l_fbase l_last] in H.
    destruct sin.
    + destruct (Hinv eq_refl) as [b ->].
      cbn [l_in l_cur l_fbase l_last] in H.
      destruct (cv (a + sf) true) as [x|]; destruct e; cbn [l_in l_cur l_fbase l_last] in H;
        revert H; ltb_cases; intro H; injection H as <- <-;
        cbn [l_in l_cur l_fbase l_last app wopen writer_ok andb negb];
        (split; [intro; try discriminate; eauto|split; [reflexivity|]]);
        intros k Hk; leb_true; cbn [andb]; try exact Hk;
        try (rewrite (writer_ok_false_prev _ 0); exact Hk);
        try (rewrite (writer_ok_false_prev 0 sl); exact Hk).
    + destruct (cv sf false) as [b|]; cbn [l_in l_cur l_fbase l_last] in H;
      destruct (cv (a + sf) true) as [x|]; destruct e; cbn [l_in l_cur l_fbase l_last] in H;
        revert H; ltb_cases; intro H; injection H as <- <-;
        cbn [l_in l_cur l_fbase l_last app wopen writer_ok andb negb];
        (split; [intro; try discriminate; eauto|split; [reflexivity|]]);
        intros k Hk; leb_true; cbn [andb]; try exact Hk;
        try (rewrite (writer_ok_false_prev _ 0); exact Hk);
        try (rewrite (writer_ok_false_prev 0 sl); exact Hk).
Qed.


Lemma lrun_app : forall a s b,
  lrun cv s (a ++ b) =
  match lrun cv s a with
  | None => None
  | Some (s1, e1) => match lrun cv s1 b with
                     | None => None
                     | Some (s2, e2) => Some (s2, e1 ++ e2)
                     end
  end.
Proof.
  induction a as [|i a IH]; intros s b; cbn [lrun app].
  - destruct (lrun cv s b) as [[s2 e2]|]; reflexivity.
  - destruct (lstep cv s i) as [[s1 e1]|]; [|reflexivity].
    rewrite IH. destruct (lrun cv s1 a) as [[s2 e2]|]; [|reflexivity].
    destruct (lrun cv s2 b) as [[s3 e3]|]; [|reflexivity].
    rewrite app_assoc; reflexivity.
Qed.

Lemma lrun_app_inv : forall a b s s' ev,
  lrun cv s (a ++ b) = Some (s', ev) ->
  exists s1 e1 e2, lrun cv s a = Some (s1, e1) /\ lrun cv s1 b = Some (s', e2) /\ ev = e1 ++ e2.
Proof.
  intros a b s s' ev H. rewrite lrun_app in H.
  destruct (lrun cv s a) as [[s1 e1]|]; [|discriminate H].
  destruct (lrun cv s1 b) as [[s2 e2]|] eqn:E2; [|discriminate H].
  injection H as <- <-. exists s1, e1, e2; auto.
Qed.

Lemma lrun_cons_inv : forall i r s s' ev,
  lrun cv s (i :: r) = Some (s', ev) ->
  exists s1 e1 e2, lstep cv s i = Some (s1, e1) /\ lrun cv s1 r = Some (s', e2) /\ ev = e1 ++ e2.
Proof.
  intros i r s s' ev H. cbn [lrun] in H.
  destruct (lstep cv s i) as [[s1 e1]|]; [|discriminate H].
  destruct (lrun cv s1 r) as [[s2 e2]|] eqn:E2; [|discriminate H].
  injection H as <- <-. exists s1, e1, e2; auto.
Qed.

Lemma lrun_writer_ok_k : forall is s s' evs,
  linv s -> lrun cv s is = Some (s', evs) ->
  linv s' /\ l_in s' = wopen (l_in s) evs /\
  forall k, writer_ok (l_in s') (l_last s') k = true ->
            writer_ok (l_in s) (l_last s) (evs ++ k) = true.
Proof.
  induction is as [|i r IH]; intros s s' evs Hinv H.
  - cbn [lrun] in H. injection H as <- <-. cbn [app wopen]. auto.
  - apply lrun_cons_inv in H. destruct H as (s1 & e1 & e2 & Hs & Hr & ->).
    destruct (lstep_writer_ok _ _ _ _ Hinv Hs) as (Hinv1 & Hin1 & Hk1).
    destruct (IH _ _ _ Hinv1 Hr) as (Hinv2 & Hin2 & Hk2).
    split; [exact Hinv2|split].
    + rewrite wopen_app, <- Hin1. exact Hin2.
    + intros k Hk. rewrite <- app_assoc. apply Hk1, Hk2, Hk.
Qed.

(* Statement 1.  [wopen (l_in s) evs] is "a sequence is open after the calls evs". *)
Theorem lrun_writer_ok : forall is s s' evs,
  (l_in s = true -> exists b, l_cur s = Some b) ->
  lrun cv s is = Some (s', evs) ->
  writer_ok (l_in s) (l_last s) evs = true /\
  l_in s' = wopen (l_in s) evs /\
  (l_in s' = true -> exists b, l_cur s' = Some b).
Proof.
  intros is s s' evs Hinv H.
  destruct (lrun_writer_ok_k _ _ _ _ Hinv H) as (Hinv' & Hin & Hk).
  split; [|split; assumption].
  rewrite <- (app_nil_r evs). apply Hk. destruct (l_in s'); reflexivity.
Qed.

Corollary lrun_writer_ok0 : forall is s' evs,
  lrun cv lst0 is = Some (s', evs) ->
  writer_ok false 0 evs = true /\ l_in s' = wopen false evs.
Proof.
  intros is s' evs H. destruct (lrun_writer_ok _ _ _ _ linv_lst0 H) as (H1 & H2 & _). auto.
Qed.

(* ---------- well-formed inputs ---------- *)

Definition nonend_row (i : lin) : Prop := exists a' ln', i = LRow a' false ln'.

Definition seq_ok (rows : list lin) : Prop :=
  exists body a ln, rows = body ++ [LRow a true ln] /\ Forall nonend_row body.

Definition prog_of (seqs : list (N * list lin)) : list lin :=
  flat_map (fun p => LSetAddr (fst p) :: snd p) seqs.

Definition wf (seqs : list (N * list lin)) : Prop := Forall (fun p => seq_ok (snd p)) seqs.

Lemma prog_of_cons : forall p seqs, prog_of (p :: seqs) = (LSetAddr (fst p) :: snd p) ++ prog_of seqs.
Proof. reflexivity. Qed.

(* ---------- 2. totality on well-formed inputs ---------- *)

Lemma lstep_row_some : forall s a e ln, exists s' ev, lstep cv s (LRow a e ln) = Some (s', ev).
Proof.
  intros [sin scur sf sl] a e ln. unfold lstep; cbn [l_in l_cur l_fbase l_last].
  destruct sin; [|destruct (cv sf false) as [b|]]; cbn [l_in l_cur l_fbase l_last];
    destruct scur as [c|]; destruct (cv (a + sf) true) as [x|]; destruct e; cbn [l_in l_cur l_fbase l_last];
    ltb_cases; eauto.
Qed.

Lemma lstep_end_closed : forall s a ln s' ev,
  linv s -> lstep cv s (LRow a true ln) = Some (s', ev) -> l_in s' = false.
Proof.
  intros [sin scur sf sl] a ln s' ev Hinv H. unfold linv in Hinv. unfold lstep in H.
  cbn [l_in l_cur l_fbase l_last] in *.
  destruct sin.
  - destruct (Hinv eq_refl) as [b ->]. cbn [l_in l_cur l_fbase l_last] in H.
    destruct (cv (a + sf) true) as [x|]; cbn [l_in l_cur l_fbase l_last] in H;
      revert H; ltb_cases; intro H; injection H as <- <-; reflexivity.
  - destruct (cv sf false) as [b|]; cbn [l_in l_cur l_fbase l_last] in H;
      destruct (cv (a + sf) true) as [x|]; cbn [l_in l_cur l_fbase l_last] in H;
      revert H; ltb_cases; intro H; injection H as <- <-; reflexivity.
Qed.

Lemma lrun_rows_some : forall body, Forall nonend_row body ->
  forall s, exists s' ev, lrun cv s body = Some (s', ev).
Proof.
  induction 1 as [|i r (a & ln & ->) _ IH]; intros s; cbn [lrun]; eauto.
  destruct (lstep_row_some s a false ln) as (s1 & e1 & ->).
  destruct (IH s1) as (s2 & e2 & ->). eauto.
Qed.

Lemma lrun_seq_total : forall v rows s,
  linv s -> l_in s = false -> seq_ok rows ->
  exists s' ev, lrun cv s (LSetAddr v :: rows) = Some (s', ev) /\ l_in s' = false /\ linv s'.
Proof.
  intros v rows s Hinv Hin (body & a & ln & -> & Hbody).
  assert (Hset : lstep cv s (LSetAddr v) =
                 Some ({| l_in := false; l_cur := l_cur s; l_fbase := v; l_last := l_last s |}, [])).
  { cbn [lstep]. rewrite Hin. reflexivity. }
  set (s0 := {| l_in := false; l_cur := l_cur s; l_fbase := v; l_last := l_last s |}) in *.
  assert (Hinv0 : linv s0) by (intro Hc; discriminate Hc).
  destruct (lrun_rows_some body Hbody s0) as (s1 & e1 & Hr1).
  destruct (lrun_writer_ok_k _ _ _ _ Hinv0 Hr1) as (Hinv1 & _ & _).
  destruct (lstep_row_some s1 a true ln) as (s2 & e2 & Hs2).
  pose proof (lstep_end_closed _ _ _ _ _ Hinv1 Hs2) as Hin2.
  exists s2, ([] ++ e1 ++ e2 ++ []).
  split; [|split; [exact Hin2|intro Hc; rewrite Hin2 in Hc; discriminate Hc]].
  cbn [lrun]. rewrite Hset, lrun_app, Hr1. cbn [lrun]. rewrite Hs2. reflexivity.
Qed.

Lemma lrun_wf_total_gen : forall seqs s,
  linv s -> l_in s = false -> wf seqs ->
  exists s' evs, lrun cv s (prog_of seqs) = Some (s', evs) /\ l_in s' = false.
Proof.
  induction seqs as [|p seqs IH]; intros s Hinv Hin Hwf.
  - exists s, []. auto.
  - inversion Hwf as [|p' l' Hp Hrest]; subst.
    destruct (lrun_seq_total (fst p) (snd p) s Hinv Hin Hp) as (s1 & e1 & Hr1 & Hin1 & Hinv1).
    destruct (IH s1 Hinv1 Hin1 Hrest) as (s2 & e2 & Hr2 & Hin2).
    exists s2, (e1 ++ e2). split; [|exact Hin2].
    rewrite prog_of_cons, lrun_app, Hr1, Hr2. reflexivity.
Qed.

(* Statement 2 *)
Theorem lrun_wf_total : forall seqs,
  Forall (fun p => seq_ok (snd p)) seqs ->
  exists s' evs, lrun cv lst0 (prog_of seqs) = Some (s', evs) /\ l_in s' = false.
Proof. intros seqs Hwf. apply lrun_wf_total_gen; [exact linv_lst0|reflexivity|exact Hwf]. Qed.


(* ---------- 3. the non-end rows are exactly the images of the input's non-end rows ---------- *)

Definition nonend (r : N * N * bool) : bool := negb (snd r).

(* what one input instruction contributes when the last set_address value is [fb] *)
Definition rowimg (fb : N) (i : lin) : list (N * N * bool) :=
  match i with
  | LRow a false ln => match cv (a + fb) true with Some x => [(x, ln, false)] | None => [] end
  | _ => []
  end.

(* the reader's base [bb] is the walrus-side base whenever a sequence is open *)
Definition rrel (s : lst) (bb : N) : Prop := l_in s = true -> l_cur s = Some bb.

Lemma rrel_linv : forall s bb, rrel s bb -> linv s.
Proof. intros s bb H Hin. exists bb. exact (H Hin). Qed.

Ltac addsub :=
  repeat match goal with
         | |- context [?b + (?x - ?b)] => replace (b + (x - b)) with x by lia
         end.

Lemma lstep_fbase : forall s i s' ev,
  lstep cv s i = Some (s', ev) ->
  match i with
  | LSetAddr v => l_fbase s' = v
  | LRow _ false _ => l_fbase s' = l_fbase s
  | _ => True
  end.
Proof.
  intros [sin scur sf sl] [v|a e ln] s' ev H; unfold lstep in H; cbn [l_in l_cur l_fbase l_last] in *.
  - destruct sin; [discriminate H|]. injection H as <- <-. reflexivity.
  - destruct e; [exact I|].
    destruct sin; [|destruct (cv sf false) as [b|]]; cbn [l_in l_cur l_fbase l_last] in H;
      destruct scur as [c|]; destruct (cv (a + sf) true) as [x|]; cbn [l_in l_cur l_fbase l_last] in H;
      revert H; ltb_cases; intro H; injection H as <- <-; reflexivity.
Qed.

Lemma lstep_rows : forall s i s' ev bb,
  rrel s bb -> lstep cv s i = Some (s', ev) ->
  exists bb', rrel s' bb' /\
    forall k, filter nonend (rows_of bb (ev ++ k)) =
              rowimg (l_fbase s) i ++ filter nonend (rows_of bb' k).
Proof.
  intros [sin scur sf sl] [v|a e ln] s' ev bb Hrel H; unfold rrel, rowimg in *; unfold lstep in H;
    cbn [l_in l_cur l_fbase l_last] in *.
  - destruct sin; [discriminate H|]. injection H as <- <-. exists bb.
    cbn [l_in]. split; [intro Hc; discriminate Hc|reflexivity].
  - destruct sin.
    + rewrite (Hrel eq_refl) in H. cbn [l_in l_cur l_fbase l_last] in H.
      destruct (cv (a + sf) true) as [x|]; destruct e; cbn [l_in l_cur l_fbase l_last] in H;
        revert H; ltb_cases; intro H; injection H as <- <-; eexists;
        (split; [|intro k; cbn [app rows_of filter nonend snd negb rowimg]; addsub; reflexivity]);
        cbn [l_in l_cur]; intro Hc; try discriminate Hc; reflexivity.
    + destruct (cv sf false) as [b|]; cbn [l_in l_cur l_fbase l_last] in H;
        destruct (cv (a + sf) true) as [x|]; destruct e; cbn [l_in l_cur l_fbase l_last] in H;
        revert H; ltb_cases; intro H; injection H as <- <-; eexists;
        (split; [|intro k; cbn [app rows_of filter nonend snd negb rowimg]; addsub; reflexivity]);
        cbn [l_in l_cur]; intro Hc; try discriminate Hc; reflexivity.
Qed.

Lemma lrun_body_rows : forall body, Forall nonend_row body ->
  forall s bb s' ev, rrel s bb -> lrun cv s body = Some (s', ev) ->
  exists bb', rrel s' bb' /\ l_fbase s' = l_fbase s /\
    forall k, filter nonend (rows_of bb (ev ++ k)) =
              flat_map (rowimg (l_fbase s)) body ++ filter nonend (rows_of bb' k).
Proof.
  induction 1 as [|i r (a & ln & ->) _ IH]; intros s bb s' ev Hrel H.
  - cbn [lrun] in H. injection H as <- <-. exists bb. auto.
  - apply lrun_cons_inv in H. destruct H as (s1 & e1 & e2 & Hs & Hr & ->).
    destruct (lstep_rows _ _ _ _ _ Hrel Hs) as (bb1 & Hrel1 & Hk1).
    pose proof (lstep_fbase _ _ _ _ Hs) as Hfb; cbn beta iota in Hfb.
    destruct (IH _ _ _ _ Hrel1 Hr) as (bb2 & Hrel2 & Hfb2 & Hk2).
    exists bb2. split; [exact Hrel2|split; [congruence|]].
    intro k. rewrite <- app_assoc, Hk1, Hk2, Hfb. cbn [flat_map]. rewrite <- app_assoc. reflexivity.
Qed.

Lemma lrun_seq_rows : forall v rows s bb s' ev,
  seq_ok rows -> rrel s bb -> lrun cv s (LSetAddr v :: rows) = Some (s', ev) ->
  exists bb', rrel s' bb' /\
    forall k, filter nonend (rows_of bb (ev ++ k)) =
              flat_map (rowimg v) rows ++ filter nonend (rows_of bb' k).
Proof.
  intros v rows s bb s' ev (body & a & ln & -> & Hbody) Hrel H.
  apply lrun_cons_inv in H. destruct H as (s0 & e0 & e12 & Hs0 & H & ->).
  apply lrun_app_inv in H. destruct H as (s1 & e1 & e2' & Hr1 & H & ->).
  apply lrun_cons_inv in H. destruct H as (s2 & e2 & e3 & Hs2 & H & ->).
  cbn [lrun] in H. injection H as <- <-.
  destruct (lstep_rows _ _ _ _ _ Hrel Hs0) as (bb0 & Hrel0 & Hk0).
  pose proof (lstep_fbase _ _ _ _ Hs0) as Hfb0; cbn beta iota in Hfb0.
  destruct (lrun_body_rows _ Hbody _ _ _ _ Hrel0 Hr1) as (bb1 & Hrel1 & Hfb1 & Hk1).
  destruct (lstep_rows _ _ _ _ _ Hrel1 Hs2) as (bb2 & Hrel2 & Hk2).
  exists bb2. split; [exact Hrel2|].
  intro k. rewrite <- !app_assoc, Hk0, Hk1. cbn [rowimg app].
  rewrite Hk2. cbn [rowimg app].
  rewrite flat_map_app, Hfb0. cbn [flat_map rowimg app]. rewrite app_nil_r. reflexivity.
Qed.

Lemma lrun_prog_rows : forall seqs, wf seqs ->
  forall s bb s' evs, rrel s bb -> lrun cv s (prog_of seqs) = Some (s', evs) ->
  exists bb', rrel s' bb' /\
    forall k, filter nonend (rows_of bb (evs ++ k)) =
              flat_map (fun p => flat_map (rowimg (fst p)) (snd p)) seqs ++ filter nonend (rows_of bb' k).
Proof.
  induction 1 as [|p seqs Hp _ IH]; intros s bb s' evs Hrel H.
  - cbn [prog_of flat_map lrun] in H. injection H as <- <-. exists bb. auto.
  - rewrite prog_of_cons in H. apply lrun_app_inv in H. destruct H as (s1 & e1 & e2 & Hr1 & Hr2 & ->).
    destruct (lrun_seq_rows _ _ _ _ _ _ Hp Hrel Hr1) as (bb1 & Hrel1 & Hk1).
    destruct (IH _ _ _ _ Hrel1 Hr2) as (bb2 & Hrel2 & Hk2).
    exists bb2. split; [exact Hrel2|].
    intro k. rewrite <- app_assoc, Hk1, Hk2. cbn [flat_map]. rewrite <- app_assoc. reflexivity.
Qed.

(* Statement 3 *)
Theorem lrun_rows_exact : forall seqs s' evs,
  Forall (fun p => seq_ok (snd p)) seqs ->
  lrun cv lst0 (prog_of seqs) = Some (s', evs) ->
  filter (fun r => negb (snd r)) (rows_of 0 evs) =
  flat_map (fun p => flat_map (fun i =>
      match i with
      | LRow a false ln => match cv (a + fst p) true with Some x => [(x, ln, false)] | None => [] end
      | _ => []
      end) (snd p)) seqs.
Proof.
  intros seqs s' evs Hwf H.
  assert (Hrel : rrel lst0 0) by (intro Hc; discriminate Hc).
  destruct (lrun_prog_rows seqs Hwf _ _ _ _ Hrel H) as (bb' & _ & Hk).
  specialize (Hk []). rewrite app_nil_r in Hk. cbn [rows_of filter] in Hk. rewrite app_nil_r in Hk.
  exact Hk.
Qed.

(* ---------- 4. where the end rows come from ---------- *)

(* the end rows the reader sees, each paired with the address the reader was at just before it:
   the address of the previous row of the same sequence, or the sequence's base if it has no row yet *)
Fixpoint ends_of (b prev : N) (evs : list lev) : list (N * N) :=
  match evs with
  | [] => []
  | EvBegin x :: r => ends_of x x r
  | EvRow off _ :: r => ends_of b (b + off) r
  | EvEnd off :: r => (b + off, prev) :: ends_of b prev r
  end.

(* [ends_of] lists the addresses of exactly the end rows of [rows_of] *)
Lemma ends_of_rows : forall evs b p,
  map fst (ends_of b p evs) = map (fun r => fst (fst r)) (filter (fun r => snd r) (rows_of b evs)).
Proof.
  induction evs as [|[x|off ln|off] r IH]; intros b p; cbn [ends_of rows_of filter snd map fst]; auto.
  f_equal; auto.
Qed.

Definition endimg (fb : N) (i : lin) : list N :=
  match i with
  | LRow a true ln => match cv (a + fb) true with Some x => [x] | None => [] end
  | _ => []
  end.

(* an end row is one past the reader's previous position, or the image of an input end row *)
Definition ends_ok (imgs : list N) (l : list (N * N)) : Prop :=
  Forall (fun xq => fst xq = snd xq + 1 \/ In (fst xq) imgs) l.

Definition erel (s : lst) (b p : N) : Prop := l_in s = true -> l_cur s = Some b /\ p = b + l_last s.

Lemma lstep_ends : forall s i s' ev b p,
  erel s b p -> lstep cv s i = Some (s', ev) ->
  exists b' p', erel s' b' p' /\
    forall imgs k, incl (endimg (l_fbase s) i) imgs ->
                   ends_ok imgs (ends_of b' p' k) -> ends_ok imgs (ends_of b p (ev ++ k)).
Proof.
  intros [sin scur sf sl] [v|a e ln] s' ev b p Hrel H; unfold erel, ends_ok, endimg in *; unfold lstep in H;
    cbn [l_in l_cur l_fbase l_last] in *.
  - destruct sin; [discriminate H|]. injection H as <- <-. exists b, p.
    cbn [l_in]. split; [intro Hc; discriminate Hc|auto].
  - destruct sin.
    + destruct (Hrel eq_refl) as [-> ->]. cbn [l_in l_cur l_fbase l_last] in H.
      destruct (cv (a + sf) true) as [x|]; destruct e; cbn [l_in l_cur l_fbase l_last] in H;
        revert H; ltb_cases; intro H; injection H as <- <-; do 2 eexists;
        (split; [|intros imgs k Hincl Hk; cbn [app ends_of] in *;
                  repeat (apply Forall_cons;
                          [cbn [fst snd]; first [left; lia | right; apply Hincl; left; lia]|]);
                  exact Hk]);
        cbn [l_in l_cur l_last]; intro Hc; try discriminate Hc; (split; [reflexivity|lia]).
    + destruct (cv sf false) as [b0|]; cbn [l_in l_cur l_fbase l_last] in H;
        destruct (cv (a + sf) true) as [x|]; destruct e; cbn [l_in l_cur l_fbase l_last] in H;
        revert H; ltb_cases; intro H; injection H as <- <-; do 2 eexists;
        (split; [|intros imgs k Hincl Hk; cbn [app ends_of] in *;
                  repeat (apply Forall_cons;
                          [cbn [fst snd]; first [left; lia | right; apply Hincl; left; lia]|]);
                  exact Hk]);
        cbn [l_in l_cur l_last]; intro Hc; try discriminate Hc; (split; [reflexivity|lia]).
Qed.


Lemma lrun_body_ends : forall body, Forall nonend_row body ->
  forall s b p s' ev, erel s b p -> lrun cv s body = Some (s', ev) ->
  exists b' p', erel s' b' p' /\ l_fbase s' = l_fbase s /\
    forall imgs k, ends_ok imgs (ends_of b' p' k) -> ends_ok imgs (ends_of b p (ev ++ k)).
Proof.
  induction 1 as [|i r (a & ln & ->) _ IH]; intros s b p s' ev Hrel H.
  - cbn [lrun] in H. injection H as <- <-. exists b, p. auto.
  - apply lrun_cons_inv in H. destruct H as (s1 & e1 & e2 & Hs & Hr & ->).
    destruct (lstep_ends _ _ _ _ _ _ Hrel Hs) as (b1 & p1 & Hrel1 & Hk1).
    pose proof (lstep_fbase _ _ _ _ Hs) as Hfb; cbn beta iota in Hfb.
    destruct (IH _ _ _ _ _ Hrel1 Hr) as (b2 & p2 & Hrel2 & Hfb2 & Hk2).
    exists b2, p2. split; [exact Hrel2|split; [congruence|]].
    intros imgs k Hk. rewrite <- app_assoc. apply Hk1; [intros x []|]. apply Hk2, Hk.
Qed.

Lemma lrun_seq_ends : forall v rows s b p s' ev,
  seq_ok rows -> erel s b p -> lrun cv s (LSetAddr v :: rows) = Some (s', ev) ->
  exists b' p', erel s' b' p' /\
    forall imgs k, incl (flat_map (endimg v) rows) imgs ->
                   ends_ok imgs (ends_of b' p' k) -> ends_ok imgs (ends_of b p (ev ++ k)).
Proof.
  intros v rows s b p s' ev (body & a & ln & -> & Hbody) Hrel H.
  apply lrun_cons_inv in H. destruct H as (s0 & e0 & e12 & Hs0 & H & ->).
  apply lrun_app_inv in H. destruct H as (s1 & e1 & e2' & Hr1 & H & ->).
  apply lrun_cons_inv in H. destruct H as (s2 & e2 & e3 & Hs2 & H & ->).
  cbn [lrun] in H. injection H as <- <-.
  destruct (lstep_ends _ _ _ _ _ _ Hrel Hs0) as (b0 & p0 & Hrel0 & Hk0).
  pose proof (lstep_fbase _ _ _ _ Hs0) as Hfb0; cbn beta iota in Hfb0.
  destruct (lrun_body_ends _ Hbody _ _ _ _ _ Hrel0 Hr1) as (b1 & p1 & Hrel1 & Hfb1 & Hk1).
  destruct (lstep_ends _ _ _ _ _ _ Hrel1 Hs2) as (b2 & p2 & Hrel2 & Hk2).
  exists b2, p2. split; [exact Hrel2|].
  intros imgs k Hincl Hk. rewrite <- !app_assoc.
  apply Hk0; [intros x []|]. apply Hk1. apply Hk2.
  - rewrite Hfb1, Hfb0. intros x Hx. apply Hincl. rewrite flat_map_app. apply in_or_app. right.
    cbn [flat_map]. rewrite app_nil_r. exact Hx.
  - exact Hk.
Qed.

Definition end_images (seqs : list (N * list lin)) : list N :=
  flat_map (fun p => flat_map (fun i =>
      match i with
      | LRow a true ln => match cv (a + fst p) true with Some x => [x] | None => [] end
      | _ => []
      end) (snd p)) seqs.

Lemma lrun_prog_ends : forall seqs, wf seqs ->
  forall s b p s' evs, erel s b p -> lrun cv s (prog_of seqs) = Some (s', evs) ->
  exists b' p', erel s' b' p' /\
    forall imgs k, incl (end_images seqs) imgs ->
                   ends_ok imgs (ends_of b' p' k) -> ends_ok imgs (ends_of b p (evs ++ k)).
Proof.
  induction 1 as [|q seqs Hq _ IH]; intros s b p s' evs Hrel H.
  - cbn [prog_of flat_map lrun] in H. injection H as <- <-. exists b, p. auto.
  - rewrite prog_of_cons in H. apply lrun_app_inv in H. destruct H as (s1 & e1 & e2 & Hr1 & Hr2 & ->).
    destruct (lrun_seq_ends _ _ _ _ _ _ _ Hq Hrel Hr1) as (b1 & p1 & Hrel1 & Hk1).
    destruct (IH _ _ _ _ _ Hrel1 Hr2) as (b2 & p2 & Hrel2 & Hk2).
    exists b2, p2. split; [exact Hrel2|].
    intros imgs k Hincl Hk. rewrite <- app_assoc. apply Hk1.
    + intros x Hx. apply Hincl. unfold end_images. cbn [flat_map]. apply in_or_app. left. exact Hx.
    + apply Hk2; [|exact Hk].
      intros x Hx. apply Hincl. unfold end_images. cbn [flat_map]. apply in_or_app. right. exact Hx.
Qed.

(* Statement 4: every end row the reader sees (first component; see [ends_of_rows]) is one past the
   reader's previous position (second component: previous row of the sequence, or its base if the
   sequence has no row yet) -- the two fallbacks, backwards address and unmapped end -- or it is the
   image [cv (a + v) true] of an end row [LRow a true _] of a sequence with set_address value [v]. *)
Theorem lrun_end_rows : forall seqs s' evs,
  Forall (fun p => seq_ok (snd p)) seqs ->
  lrun cv lst0 (prog_of seqs) = Some (s', evs) ->
  Forall (fun xq => fst xq = snd xq + 1 \/ In (fst xq) (end_images seqs)) (ends_of 0 0 evs).
Proof.
  intros seqs s' evs Hwf H.
  assert (Hrel : erel lst0 0 0) by (intro Hc; discriminate Hc).
  destruct (lrun_prog_ends seqs Hwf _ _ _ _ _ Hrel H) as (b' & p' & _ & Hk).
  specialize (Hk (end_images seqs) [] (fun x Hx => Hx)). rewrite app_nil_r in Hk.
  apply Hk. constructor.
Qed.

End conv.

(* ---------- 5. non-vacuity: a concrete converter and program ---------- *)

(* [10,20) -> [110,120), [20,30) -> [5,15) (moved in front), everything else removed *)
Definition cvx (a : N) (incl : bool) : option N :=
  if a <? 10 then None else if a <? 20 then Some (a + 100) else if a <? 30 then Some (a - 15) else None.

(* sequence 1: base 5 not mapped, first row not mapped, a backwards jump (22 -> 7 after 12 -> 112),
   end 35 not mapped; sequence 2: everything mapped *)
Definition progx : list (N * list lin) :=
  [ (5, [LRow 0 false 1; LRow 7 false 2; LRow 17 false 3; LRow 20 false 4; LRow 30 true 0]);
    (10, [LRow 0 false 5; LRow 5 false 6; LRow 9 true 0]) ].

Ltac seq_ok_concrete :=
  match goal with
  | |- seq_ok ?l =>
      let b := eval vm_compute in (removelast l) in
      exists b; do 2 eexists; split;
      [reflexivity|repeat (apply Forall_cons || apply Forall_nil); eexists; eexists; reflexivity]
  end.

Ltac wf_concrete :=
  unfold wf; repeat (apply Forall_cons || apply Forall_nil); cbn beta; cbn [snd]; seq_ok_concrete.

Lemma progx_wf : wf progx.
Proof. unfold progx. wf_concrete. Qed.

Example lrun_example :
  lrun cvx lst0 (prog_of progx) =
  Some ({| l_in := false; l_cur := Some 110; l_fbase := 19; l_last := 5 |},
        [EvBegin 112; EvRow 0 2; EvEnd 1;            (* begun at the first mapped row; unmapped end... *)
         EvBegin 7; EvRow 0 3; EvRow 3 4; EvEnd 4;   (* ...here by the backwards split; unmapped end 35 *)
         EvBegin 110; EvRow 0 5; EvRow 5 6; EvEnd 9]).
Proof. vm_compute. reflexivity. Qed.

Example lrun_example_rows :
  option_map (fun r => rows_of 0 (snd r)) (lrun cvx lst0 (prog_of progx)) =
  Some [(112, 2, false); (113, 0, true); (7, 3, false); (10, 4, false); (11, 0, true);
        (110, 5, false); (115, 6, false); (119, 0, true)].
Proof. vm_compute. reflexivity. Qed.

Example lrun_example_writer_ok :
  option_map (fun r => writer_ok false 0 (snd r)) (lrun cvx lst0 (prog_of progx)) = Some true.
Proof. vm_compute. reflexivity. Qed.

(* ---------- 6. the code before the repair 10ea4f7 ---------- *)

Section old.
Variable cv : N -> bool -> option N.

(* no begin at the first mapped row when the base is not mapped (the row is skipped),
   nothing emitted for an unmapped end row (the sequence stays open) *)
Definition lstep_old (s : lst) (i : lin) : option (lst * list lev) :=
  match i with
  | LSetAddr v =>
      if l_in s then None
      else Some ({| l_in := false; l_cur := l_cur s; l_fbase := v; l_last := l_last s |}, [])
  | LRow a e ln =>
      let '(s1, ev1) :=
        if l_in s then (s, [])
        else match cv (l_fbase s) false with
             | Some b => ({| l_in := true; l_cur := Some b; l_fbase := l_fbase s; l_last := 0 |}, [EvBegin b])
             | None => ({| l_in := false; l_cur := None; l_fbase := l_fbase s; l_last := l_last s |}, [])
             end in
      let fra := a + l_fbase s in
      match l_cur s1 with
      | None => Some (s1, ev1)
      | Some base =>
          match cv fra true with
          | Some address =>
              let '(base', evs, last') :=
                if address <? base + l_last s1 then (address, [EvEnd (l_last s1 + 1); EvBegin address], 0)
                else (base, [], l_last s1) in
              let off := address - base' in
              if e then Some ({| l_in := false; l_cur := Some base'; l_fbase := fra; l_last := last' |},
                              ev1 ++ evs ++ [EvEnd off])
              else Some ({| l_in := true; l_cur := Some base'; l_fbase := l_fbase s1; l_last := off |},
                         ev1 ++ evs ++ [EvRow off ln])
          | None => Some (s1, ev1)
          end
      end
  end.

Fixpoint lrun_old (s : lst) (is : list lin) : option (lst * list lev) :=
  match is with
  | [] => Some (s, [])
  | i :: r => match lstep_old s i with
              | None => None
              | Some (s', ev) => match lrun_old s' r with
                                 | None => None
                                 | Some (s'', ev') => Some (s'', ev ++ ev')
                                 end
              end
  end.
End old.

(* the end of the first sequence (40) is not mapped: the old code leaves the output sequence open ... *)
Definition prog_open1 : list (N * list lin) := [ (10, [LRow 0 false 1; LRow 30 true 0]) ].
(* ... and the set_address of the next sequence then aborts the conversion *)
Definition prog_open2 : list (N * list lin) :=
  [ (10, [LRow 0 false 1; LRow 30 true 0]); (12, [LRow 0 false 2; LRow 1 true 0]) ].
(* the base (5) is not mapped but the row at 12 is: the old code drops it *)
Definition prog_drop : list (N * list lin) := [ (5, [LRow 7 false 1; LRow 10 true 0]) ].

Theorem old_code_refuted :
  (* statement 2 is false of the old code: the conversion fails (walrus panics) ... *)
  (exists cv seqs, Forall (fun p => seq_ok (snd p)) seqs /\ lrun_old cv lst0 (prog_of seqs) = None) /\
  (* ... or succeeds with the last sequence left open *)
  (exists cv seqs s' evs, Forall (fun p => seq_ok (snd p)) seqs /\
     lrun_old cv lst0 (prog_of seqs) = Some (s', evs) /\ l_in s' = true) /\
  (* statement 3 is false of the old code: a mapped row is lost *)
  (exists cv seqs s' evs, Forall (fun p => seq_ok (snd p)) seqs /\
     lrun_old cv lst0 (prog_of seqs) = Some (s', evs) /\
     filter (fun r => negb (snd r)) (rows_of 0 evs) <>
     flat_map (fun p => flat_map (fun i =>
        match i with
        | LRow a false ln => match cv (a + fst p) true with Some x => [(x, ln, false)] | None => [] end
        | _ => []
        end) (snd p)) seqs).
Proof.
  split; [|split].
  - exists cvx, prog_open2. split; [unfold prog_open2; wf_concrete|vm_compute; reflexivity].
  - exists cvx, prog_open1. do 2 eexists.
    split; [unfold prog_open1; wf_concrete|split; [vm_compute; reflexivity|reflexivity]].
  - exists cvx, prog_drop. do 2 eexists.
    split; [unfold prog_drop; wf_concrete|split; [vm_compute; reflexivity|vm_compute; discriminate]].
Qed.

(* the repaired code on the same inputs *)
Example new_code_on_old_witnesses :
  lrun cvx lst0 (prog_of prog_open2) =
    Some ({| l_in := false; l_cur := Some 112; l_fbase := 13; l_last := 0 |},
          [EvBegin 110; EvRow 0 1; EvEnd 1; EvBegin 112; EvRow 0 2; EvEnd 1]) /\
  lrun cvx lst0 (prog_of prog_drop) =
    Some ({| l_in := false; l_cur := Some 112; l_fbase := 15; l_last := 0 |},
          [EvBegin 112; EvRow 0 1; EvEnd 3]).
Proof. split; vm_compute; reflexivity. Qed.

Print Assumptions lrun_writer_ok.
Print Assumptions lrun_writer_ok0.
Print Assumptions lrun_wf_total.
Print Assumptions lrun_rows_exact.
Print Assumptions lrun_end_rows.
Print Assumptions ends_of_rows.
Print Assumptions lrun_example.
Print Assumptions lrun_example_rows.
Print Assumptions old_code_refuted.
Print Assumptions new_code_on_old_witnesses.
