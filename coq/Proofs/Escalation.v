(* The round trip never ESCALATES the features a module needs:
   1. block types: inline forms stay inline, small function types are de-escalated;
   2. function bodies: no operator is invented, no control operator is added (except the
      MVP `else` / `end`), branch immediates are unchanged;
   3. element segments keep their kind and their item encoding; table 0 is emitted in the
      MVP (implicit table) form;
   4. the data-count section appears only if a passive segment exists or some local
      function executes memory.init / data.drop. *)
From Coq Require Import List NArith ZArith Arith Lia Bool. Import ListNotations.
From WV Require Import Gen.Ops Model.Common Model.IR Model.Arena Model.ParseFn Model.ParseSpec
  Model.Traversal Model.EmitFn Model.BodySpec Model.ModuleM Model.EmitM.
From WV Require Import Proofs.ParseFn Proofs.Body.
Local Open Scope nat_scope.

(* ================================================================== 1. block types *)
Lemma nf_bt_empty : forall cx ecx, nf_bt cx ecx BT_Empty = BT_Empty.
Proof. reflexivity. Qed.

Lemma nf_bt_val : forall cx ecx t, nf_bt cx ecx (BT_Val t) = BT_Val t.
Proof. reflexivity. Qed.

Lemma nf_bt_func_void : forall cx ecx i b,
  nth_N (px_types cx) (px_i2id cx S_type i) = Some ([], [], b) -> nf_bt cx ecx (BT_Func i) = BT_Empty.
Proof.
  intros cx ecx i b H. unfold nf_bt, bt_seqty. cbn [bt_tys]. rewrite H. reflexivity.
Qed.

Lemma nf_bt_func_single : forall cx ecx i r b,
  nth_N (px_types cx) (px_i2id cx S_type i) = Some ([], [r], b) -> nf_bt cx ecx (BT_Func i) = BT_Val r.
Proof.
  intros cx ecx i r b H. unfold nf_bt, bt_seqty. cbn [bt_tys]. rewrite H. reflexivity.
Qed.

Corollary nf_bt_func_only_from_func : forall cx ecx bt j,
  nf_bt cx ecx bt = BT_Func j -> exists i, bt = BT_Func i.
Proof.
  intros cx ecx bt j H. destruct bt as [|t|i].
  - rewrite nf_bt_empty in H. discriminate.
  - rewrite nf_bt_val in H. discriminate.
  - exists i. reflexivity.
Qed.

(* the converse reading: an inline block type in the input is the SAME inline block type in
   the output, so a module without function-typed blocks has none afterwards *)
Corollary nf_bt_inline_fixed : forall cx ecx bt,
  (forall i, bt <> BT_Func i) -> nf_bt cx ecx bt = bt.
Proof.
  intros cx ecx bt H. destruct bt as [|t|i]; [reflexivity|reflexivity|]. now elim (H i).
Qed.

(* ================================================================== 2. operators *)
(* all RPlain operators of a source tree, nested ones included *)
Fixpoint plain_ops (t : rt) {struct t} : list wop :=
  let pl := fix pl (l : list rt) {struct l} : list wop :=
      match l with [] => [] | x :: l' => plain_ops x ++ pl l' end in
  match t with
  | RPlain o _ => [o]
  | RNop _ | RBr _ _ | RBrIf _ _ | RBrTable _ _ _ => []
  | RBlock _ b _ _ | RLoop _ b _ _ => pl b
  | RIf _ th el _ _ => pl th ++ match el with Some (_, eb) => pl eb | None => [] end
  end.
Fixpoint plain_ops_list (l : list rt) : list wop :=
  match l with [] => [] | x :: l' => plain_ops x ++ plain_ops_list l' end.

Definition pl_inner :=
  fix pl (l : list rt) {struct l} : list wop :=
    match l with [] => [] | x :: l' => plain_ops x ++ pl l' end.
Lemma pl_inner_eq l : pl_inner l = plain_ops_list l.
Proof. induction l as [|t l IH]; [reflexivity|]. cbn [pl_inner plain_ops_list]. fold pl_inner. now rewrite IH. Qed.

Lemma plain_ops_block bt b l e : plain_ops (RBlock bt b l e) = plain_ops_list b.
Proof. rewrite <- pl_inner_eq. reflexivity. Qed.
Lemma plain_ops_loop bt b l e : plain_ops (RLoop bt b l e) = plain_ops_list b.
Proof. rewrite <- pl_inner_eq. reflexivity. Qed.
Lemma plain_ops_if_none bt th l e : plain_ops (RIf bt th None l e) = plain_ops_list th ++ [].
Proof. rewrite <- pl_inner_eq. reflexivity. Qed.
Lemma plain_ops_if_some bt th le eb l e :
  plain_ops (RIf bt th (Some (le, eb)) l e) = plain_ops_list th ++ plain_ops_list eb.
Proof. rewrite <- !pl_inner_eq. reflexivity. Qed.

Definition ctl_count (P : wins -> bool) (ws : list wins) : nat := length (filter P ws).

Definition is_block (w : wins) : bool := match w with WBlock _ => true | _ => false end.
Definition is_loop (w : wins) : bool := match w with WLoop _ => true | _ => false end.
Definition is_if (w : wins) : bool := match w with WIf _ => true | _ => false end.
Definition is_br (w : wins) : bool := match w with WBr _ => true | _ => false end.
Definition is_br_if (w : wins) : bool := match w with WBrIf _ => true | _ => false end.
Definition is_br_table (w : wins) : bool := match w with WBrTable _ _ => true | _ => false end.

(* --- the ORIGIN of every operator of the normal form ---
   [ops] = the plain operators of the source, [src] = its flattened operator stream *)
Section Origin.
  Variable cx : pctx.
  Variable ecx : ectx.

  Definition origin (ops : list wop) (src : list wins) (w : wins) : Prop :=
    (exists o, In o ops /\ w = nf_op cx ecx o) \/
    (exists d, w = WBr d /\ In (WBr d) src) \/
    (exists d, w = WBrIf d /\ In (WBrIf d) src) \/
    (exists ds d, w = WBrTable ds d /\ In (WBrTable ds d) src) \/
    (exists bt, w = WBlock (nf_bt cx ecx bt) /\ In (WBlock bt) src) \/
    (exists bt, w = WLoop (nf_bt cx ecx bt) /\ In (WLoop bt) src) \/
    (exists bt, w = WIf (nf_bt cx ecx bt) /\ In (WIf bt) src) \/
    w = WElse \/ w = WEnd.

  Lemma origin_weaken ops src ops' src' w :
    (forall o, In o ops -> In o ops') -> (forall z, In z src -> In z src') ->
    origin ops src w -> origin ops' src' w.
  Proof.
    intros Ho Hs H. unfold origin in *.
    destruct H as [(o & Hi & E)|[(d & E & Hi)|[(d & E & Hi)|[(ds & d & E & Hi)|[(bt & E & Hi)|[(bt & E & Hi)|[(bt & E & Hi)|[E|E]]]]]]]].
    - left. exists o. auto.
    - right; left. exists d. auto.
    - do 2 right; left. exists d. auto.
    - do 3 right; left. exists ds, d. auto.
    - do 4 right; left. exists bt. auto.
    - do 5 right; left. exists bt. auto.
    - do 6 right; left. exists bt. auto.
    - do 7 right; left. exact E.
    - do 7 right; right. exact E.
  Qed.

  Definition og (ops : list wop) (src : list (wins * N)) (x : N * wins) : Prop :=
    origin ops (map fst src) (snd x).
  Definition Ot (t : rt) := forall u, Forall (og (plain_ops t) (flat t)) (fst (nf cx ecx u t)).
  Definition Ol (l : list rt) := forall u, Forall (og (plain_ops_list l) (flat_list l)) (fst (nf_list cx ecx u l)).

  Lemma og_weaken ops src ops' src' :
    (forall o, In o ops -> In o ops') -> (forall z, In z (map fst src) -> In z (map fst src')) ->
    forall l, Forall (og ops src) l -> Forall (og ops' src') l.
  Proof. intros Ho Hs l. apply Forall_impl. intros x. unfold og. apply origin_weaken; assumption. Qed.

  Lemma Ol_of_Forall l : Forall Ot l -> Ol l.
  Proof.
    induction 1 as [|t l Ht Hl IH]; intros u.
    - constructor.
    - rewrite nf_list_cons. cbn [fst plain_ops_list]. change (flat_list (t :: l)) with (flat t ++ flat_list l).
      apply Forall_app. split.
      + apply (og_weaken (plain_ops t) (flat t)); [| |apply Ht].
        * intros o Ho. apply in_or_app. now left.
        * intros z Hz. rewrite map_app. apply in_or_app. now left.
      + apply (og_weaken (plain_ops_list l) (flat_list l)); [| |apply IH].
        * intros o Ho. apply in_or_app. now right.
        * intros z Hz. rewrite map_app. apply in_or_app. now right.
  Qed.

  Lemma og_keep (u : bool) ops src x : og ops src x -> Forall (og ops src) (if u then [] else [x]).
  Proof. intros H. destruct u; [constructor|constructor; [exact H|constructor]]. Qed.

  Ltac in_src := repeat (rewrite ?map_app, ?in_app_iff; cbn [map fst In]); tauto.
  Ltac sub_src := intros z Hz; repeat (rewrite ?map_app, ?in_app_iff; cbn [map fst In]); tauto.
  Ltac sub_ops := intros z Hz; repeat (rewrite ?in_app_iff; cbn [In]); tauto.
  Ltac og_else := unfold og, origin; cbn [snd]; do 7 right; left; reflexivity.
  Ltac og_end := unfold og, origin; cbn [snd]; do 7 right; right; reflexivity.

  Theorem nf_origin_item : forall t, Ot t.
  Proof.
    induction t as [o l|l|d l|d l|ds d l|bt body l e HF|bt body l e HF|bt th el l e HFt HFe] using rt_ind';
      intros u.
    - cbn [nf fst flat plain_ops]. apply og_keep. unfold og, origin. cbn [snd]. left. exists o. cbn [In]. auto.
    - constructor.
    - cbn [nf fst flat plain_ops]. apply og_keep. unfold og, origin. cbn [snd]. right; left. exists d. cbn. auto.
    - cbn [nf fst flat plain_ops]. apply og_keep. unfold og, origin. cbn [snd]. do 2 right; left. exists d. cbn. auto.
    - cbn [nf fst flat plain_ops]. apply og_keep. unfold og, origin. cbn [snd]. do 3 right; left. exists ds, d. cbn. auto.
    - apply Ol_of_Forall in HF. rewrite nf_block, plain_ops_block. cbn [fst flat]. fold (flat_list body).
      destruct u; [constructor|].
      constructor.
      { unfold og, origin. cbn [snd]. do 4 right; left. exists bt. split; [reflexivity|in_src]. }
      apply Forall_app. split.
      + apply (og_weaken (plain_ops_list body) (flat_list body)); [sub_ops|sub_src|apply HF].
      + constructor; [og_end|constructor].
    - apply Ol_of_Forall in HF. rewrite nf_loop, plain_ops_loop. cbn [fst flat]. fold (flat_list body).
      destruct u; [constructor|].
      constructor.
      { unfold og, origin. cbn [snd]. do 5 right; left. exists bt. split; [reflexivity|in_src]. }
      apply Forall_app. split.
      + apply (og_weaken (plain_ops_list body) (flat_list body)); [sub_ops|sub_src|apply HF].
      + constructor; [og_end|constructor].
    - apply Ol_of_Forall in HFt. destruct el as [[le eb]|].
      + cbn [optP snd] in HFe. apply Ol_of_Forall in HFe. rewrite nf_if_some, plain_ops_if_some. cbn [fst flat].
        fold (flat_list th). fold (flat_list eb). destruct u; [constructor|].
        constructor.
        { unfold og, origin. cbn [snd]. do 6 right; left. exists bt. split; [reflexivity|in_src]. }
        apply Forall_app. split.
        * apply (og_weaken (plain_ops_list th) (flat_list th)); [sub_ops|sub_src|apply HFt].
        * constructor; [og_else|]. apply Forall_app. split.
          -- apply (og_weaken (plain_ops_list eb) (flat_list eb)); [sub_ops|sub_src|apply HFe].
          -- constructor; [og_end|constructor].
      + rewrite nf_if_none, plain_ops_if_none. cbn [fst flat]. fold (flat_list th). destruct u; [constructor|].
        constructor.
        { unfold og, origin. cbn [snd]. do 6 right; left. exists bt. split; [reflexivity|in_src]. }
        apply Forall_app. split.
        * apply (og_weaken (plain_ops_list th) (flat_list th)); [sub_ops|sub_src|apply HFt].
        * constructor; [og_else|]. constructor; [og_end|constructor].
  Qed.

  Theorem nf_origin : forall u l x, In x (fst (nf_list cx ecx u l)) ->
    origin (plain_ops_list l) (map fst (flat_list l)) (snd x).
  Proof.
    intros u l x Hx.
    assert (H : Ol l) by (apply Ol_of_Forall, Forall_forall; intros t _; apply nf_origin_item).
    specialize (H u). rewrite Forall_forall in H. exact (H x Hx).
  Qed.

  Lemma nf_op_shape o : (exists w, nf_op cx ecx o = WOp w) \/ nf_op cx ecx o = WNop.
  Proof. unfold nf_op. destruct (encode_plain (ex_id2i ecx) (dec cx o)) as [w|]; [left; now exists w|now right]. Qed.
End Origin.

(* --- no operator is invented --- *)
Theorem nf_ops_from_input : forall cx ecx u l x w,
  In x (fst (nf_list cx ecx u l)) -> snd x = WOp w ->
  exists o, In o (plain_ops_list l) /\ nf_op cx ecx o = WOp w.
Proof.
  intros cx ecx u l x w Hx E. pose proof (nf_origin cx ecx u l x Hx) as H. rewrite E in H. unfold origin in H.
  destruct H as [(o & Hi & E')|[(d & E' & _)|[(d & E' & _)|[(ds & d & E' & _)|[(bt & E' & _)|[(bt & E' & _)|[(bt & E' & _)|[E'|E']]]]]]]];
    try discriminate E'.
  exists o. split; [exact Hi|now symmetry].
Qed.

(* --- branch immediates are never changed --- *)
Ltac origin_cases H :=
  unfold origin in H;
  destruct H as [(?o & ?Hi & ?E')|[(?d' & ?E' & ?Hi)|[(?d' & ?E' & ?Hi)|[(?ds' & ?d' & ?E' & ?Hi)|[(?bt & ?E' & ?Hi)|[(?bt & ?E' & ?Hi)|[(?bt & ?E' & ?Hi)|[?E'|?E']]]]]]]].

Lemma nf_op_not_ctl cx ecx o w : w = nf_op cx ecx o ->
  match w with WOp _ | WNop => True | _ => False end.
Proof. intros ->. destruct (nf_op_shape cx ecx o) as [[w E]|E]; rewrite E; exact I. Qed.

Theorem nf_br_from_input : forall cx ecx u l x d,
  In x (fst (nf_list cx ecx u l)) -> snd x = WBr d -> In (WBr d) (map fst (flat_list l)).
Proof.
  intros cx ecx u l x d Hx E. pose proof (nf_origin cx ecx u l x Hx) as H. rewrite E in H.
  origin_cases H; try discriminate E'.
  - apply nf_op_not_ctl in E'. contradiction.
  - injection E' as ->. exact Hi.
Qed.

Theorem nf_br_if_from_input : forall cx ecx u l x d,
  In x (fst (nf_list cx ecx u l)) -> snd x = WBrIf d -> In (WBrIf d) (map fst (flat_list l)).
Proof.
  intros cx ecx u l x d Hx E. pose proof (nf_origin cx ecx u l x Hx) as H. rewrite E in H.
  origin_cases H; try discriminate E'.
  - apply nf_op_not_ctl in E'. contradiction.
  - injection E' as ->. exact Hi.
Qed.

Theorem nf_br_table_from_input : forall cx ecx u l x ds d,
  In x (fst (nf_list cx ecx u l)) -> snd x = WBrTable ds d -> In (WBrTable ds d) (map fst (flat_list l)).
Proof.
  intros cx ecx u l x ds d Hx E. pose proof (nf_origin cx ecx u l x Hx) as H. rewrite E in H.
  origin_cases H; try discriminate E'.
  - apply nf_op_not_ctl in E'. contradiction.
  - injection E' as -> ->. exact Hi.
Qed.

Theorem nf_br_depths_from_input : forall cx ecx u l x d,
  In x (fst (nf_list cx ecx u l)) -> snd x = WBr d \/ snd x = WBrIf d ->
  In (WBr d) (map fst (flat_list l)) \/ In (WBrIf d) (map fst (flat_list l)).
Proof.
  intros cx ecx u l x d Hx [E|E].
  - left. exact (nf_br_from_input cx ecx u l x d Hx E).
  - right. exact (nf_br_if_from_input cx ecx u l x d Hx E).
Qed.

(* block-typed control operators: the output block type is the normal form of an input block
   type of the SAME construct (so, by part 1, a function-typed one only from a function-typed one) *)
Theorem nf_block_from_input : forall cx ecx u l x b,
  In x (fst (nf_list cx ecx u l)) -> snd x = WBlock b ->
  exists bt, b = nf_bt cx ecx bt /\ In (WBlock bt) (map fst (flat_list l)).
Proof.
  intros cx ecx u l x b Hx E. pose proof (nf_origin cx ecx u l x Hx) as H. rewrite E in H.
  origin_cases H; try discriminate E'.
  - apply nf_op_not_ctl in E'. contradiction.
  - injection E' as ->. exists bt. auto.
Qed.
Theorem nf_loop_from_input : forall cx ecx u l x b,
  In x (fst (nf_list cx ecx u l)) -> snd x = WLoop b ->
  exists bt, b = nf_bt cx ecx bt /\ In (WLoop bt) (map fst (flat_list l)).
Proof.
  intros cx ecx u l x b Hx E. pose proof (nf_origin cx ecx u l x Hx) as H. rewrite E in H.
  origin_cases H; try discriminate E'.
  - apply nf_op_not_ctl in E'. contradiction.
  - injection E' as ->. exists bt. auto.
Qed.
Theorem nf_if_from_input : forall cx ecx u l x b,
  In x (fst (nf_list cx ecx u l)) -> snd x = WIf b ->
  exists bt, b = nf_bt cx ecx bt /\ In (WIf bt) (map fst (flat_list l)).
Proof.
  intros cx ecx u l x b Hx E. pose proof (nf_origin cx ecx u l x Hx) as H. rewrite E in H.
  origin_cases H; try discriminate E'.
  - apply nf_op_not_ctl in E'. contradiction.
  - injection E' as ->. exists bt. auto.
Qed.

(* a body without function-typed blocks has none afterwards *)
Definition func_typed (w : wins) : Prop :=
  exists j, w = WBlock (BT_Func j) \/ w = WLoop (BT_Func j) \/ w = WIf (BT_Func j).
Corollary nf_no_new_func_blocktype : forall cx ecx u l,
  (forall w, In w (map fst (flat_list l)) -> ~ func_typed w) ->
  forall x, In x (fst (nf_list cx ecx u l)) -> ~ func_typed (snd x).
Proof.
  intros cx ecx u l Hsrc x Hx [j [E|[E|E]]].
  - destruct (nf_block_from_input cx ecx u l x _ Hx E) as (bt & Eb & Hi). symmetry in Eb.
    destruct (nf_bt_func_only_from_func cx ecx bt j Eb) as [i ->]. apply (Hsrc _ Hi). exists i. auto.
  - destruct (nf_loop_from_input cx ecx u l x _ Hx E) as (bt & Eb & Hi). symmetry in Eb.
    destruct (nf_bt_func_only_from_func cx ecx bt j Eb) as [i ->]. apply (Hsrc _ Hi). exists i. auto.
  - destruct (nf_if_from_input cx ecx u l x _ Hx E) as (bt & Eb & Hi). symmetry in Eb.
    destruct (nf_bt_func_only_from_func cx ecx bt j Eb) as [i ->]. apply (Hsrc _ Hi). exists i. auto.
Qed.

(* --- no control operator is added (else / end excepted) --- *)
Lemma ctl_count_app P a b : ctl_count P (a ++ b) = ctl_count P a + ctl_count P b.
Proof. unfold ctl_count. now rewrite filter_app, app_length. Qed.
Lemma ctl_count_cons P w a : ctl_count P (w :: a) = (if P w then 1 else 0) + ctl_count P a.
Proof. unfold ctl_count. cbn [filter]. destruct (P w); reflexivity. Qed.
Lemma ctl_count_nil P : ctl_count P [] = 0.
Proof. reflexivity. Qed.

(* the predicates the count theorem applies to: blind to block types, false on else / end / nop
   and on every plain operator *)
Record ctl_pred (P : wins -> bool) : Prop := {
  cp_else : P WElse = false; cp_end : P WEnd = false; cp_nop : P WNop = false;
  cp_op : forall o, P (WOp o) = false;
  cp_block : forall a b, P (WBlock a) = P (WBlock b);
  cp_loop : forall a b, P (WLoop a) = P (WLoop b);
  cp_if : forall a b, P (WIf a) = P (WIf b) }.

Section Count.
  Variable cx : pctx.
  Variable ecx : ectx.
  Variable P : wins -> bool.
  Hypothesis HP : ctl_pred P.

  Definition Ct (t : rt) := forall u, ctl_count P (map snd (fst (nf cx ecx u t))) <= ctl_count P (map fst (flat t)).
  Definition Cl (l : list rt) := forall u, ctl_count P (map snd (fst (nf_list cx ecx u l))) <= ctl_count P (map fst (flat_list l)).

  Lemma Cl_of_Forall l : Forall Ct l -> Cl l.
  Proof.
    induction 1 as [|t l Ht Hl IH]; intros u.
    - cbn. lia.
    - rewrite nf_list_cons. cbn [fst]. change (flat_list (t :: l)) with (flat t ++ flat_list l).
      rewrite !map_app, !ctl_count_app. specialize (Ht u). specialize (IH (snd (nf cx ecx u t))). lia.
  Qed.

  Lemma P_nf_op o : P (nf_op cx ecx o) = false.
  Proof. destruct (nf_op_shape cx ecx o) as [[w E]|E]; rewrite E; [apply (cp_op P HP)|apply (cp_nop P HP)]. Qed.

  Ltac norm := repeat (rewrite ?map_app, ?ctl_count_app, ?ctl_count_cons, ?ctl_count_nil; cbn [map fst snd]).

  Theorem nf_count_item : forall t, Ct t.
  Proof.
    induction t as [o l|l|d l|d l|ds d l|bt body l e HF|bt body l e HF|bt th el l e HFt HFe] using rt_ind';
      intros u.
    - cbn [nf fst flat]. destruct u; norm; [lia|]. rewrite P_nf_op. lia.
    - cbn [nf fst flat]. norm. lia.
    - cbn [nf fst flat]. destruct u; norm; lia.
    - cbn [nf fst flat]. destruct u; norm; lia.
    - cbn [nf fst flat]. destruct u; norm; lia.
    - apply Cl_of_Forall in HF. rewrite nf_block. cbn [fst flat]. fold (flat_list body).
      destruct u; norm; [lia|]. specialize (HF false).
      rewrite (cp_block P HP (nf_bt cx ecx bt) bt), (cp_end P HP). lia.
    - apply Cl_of_Forall in HF. rewrite nf_loop. cbn [fst flat]. fold (flat_list body).
      destruct u; norm; [lia|]. specialize (HF false).
      rewrite (cp_loop P HP (nf_bt cx ecx bt) bt), (cp_end P HP). lia.
    - apply Cl_of_Forall in HFt. destruct el as [[le eb]|].
      + cbn [optP snd] in HFe. apply Cl_of_Forall in HFe. rewrite nf_if_some. cbn [fst flat].
        fold (flat_list th). fold (flat_list eb). destruct u; norm; [lia|].
        specialize (HFt false). specialize (HFe false).
        rewrite (cp_if P HP (nf_bt cx ecx bt) bt), (cp_end P HP), (cp_else P HP). lia.
      + rewrite nf_if_none. cbn [fst flat]. fold (flat_list th). destruct u; norm; [lia|].
        specialize (HFt false).
        rewrite (cp_if P HP (nf_bt cx ecx bt) bt), (cp_end P HP), (cp_else P HP). lia.
  Qed.

  Theorem nf_count_list : forall u l,
    ctl_count P (map snd (fst (nf_list cx ecx u l))) <= ctl_count P (map fst (flat_list l)).
  Proof.
    intros u l. apply Cl_of_Forall. apply Forall_forall. intros t _. apply nf_count_item.
  Qed.
End Count.

Lemma ctl_pred_block : ctl_pred is_block. Proof. constructor; reflexivity. Qed.
Lemma ctl_pred_loop : ctl_pred is_loop. Proof. constructor; reflexivity. Qed.
Lemma ctl_pred_if : ctl_pred is_if. Proof. constructor; reflexivity. Qed.
Lemma ctl_pred_br : ctl_pred is_br. Proof. constructor; reflexivity. Qed.
Lemma ctl_pred_br_if : ctl_pred is_br_if. Proof. constructor; reflexivity. Qed.
Lemma ctl_pred_br_table : ctl_pred is_br_table. Proof. constructor; reflexivity. Qed.

Theorem nf_ctl_not_increased : forall cx ecx u l P,
  In P [is_block; is_loop; is_if; is_br; is_br_if; is_br_table] ->
  ctl_count P (map snd (fst (nf_list cx ecx u l))) <= ctl_count P (map fst (flat_list l)).
Proof.
  intros cx ecx u l P HP. apply nf_count_list. cbn [In] in HP.
  destruct HP as [<-|[<-|[<-|[<-|[<-|[<-|[]]]]]]].
  - exact ctl_pred_block. - exact ctl_pred_loop. - exact ctl_pred_if.
  - exact ctl_pred_br. - exact ctl_pred_br_if. - exact ctl_pred_br_table.
Qed.

(* ================================================================== 3. element segments *)
Lemma rmapM_length {A B} (f : A -> res B) : forall l ys, rmapM f l = Ok ys -> length ys = length l.
Proof.
  induction l as [|a l IH]; intros ys H; cbn [rmapM] in H.
  - injection H as <-. reflexivity.
  - destruct (f a) as [y| |]; cbn [rbind] in H; try discriminate H.
    destruct (rmapM f l) as [ys'| |]; cbn [rbind] in H; try discriminate H.
    injection H as <-. cbn [length]. f_equal. now apply IH.
Qed.

Lemma rmapM_In {A B} (f : A -> res B) : forall l ys, rmapM f l = Ok ys ->
  forall b, In b ys <-> exists a, In a l /\ f a = Ok b.
Proof.
  induction l as [|a l IH]; intros ys H b; cbn [rmapM] in H.
  - injection H as <-. cbn [In]. split; [tauto|intros (a & [] & _)].
  - destruct (f a) as [y| |] eqn:Ea; cbn [rbind] in H; try discriminate H.
    destruct (rmapM f l) as [ys'| |]; cbn [rbind] in H; try discriminate H.
    injection H as <-. cbn [In]. rewrite (IH ys' eq_refl b). split.
    + intros [->|(a' & Hi & E)]; [exists a; auto|exists a'; auto].
    + intros (a' & [<-|Hi] & E); [left; congruence|right; exists a'; auto].
Qed.

(* the two halves of emit_elem *)
Definition emit_elem_items (x : x2i) (e : melem) : res welemitems :=
  match el_items e with
  | ELI_Funcs fs => rmap WEI_Funcs (rmapM (get_idx x S_func) fs)
  | ELI_Exprs t es => rmap (WEI_Exprs t) (rmapM (emit_const x) es)
  end.
Definition emit_elem_kind (x : x2i) (e : melem) : res welemkind :=
  match el_kind e with
  | ELK_Passive => Ok WEK_Passive
  | ELK_Declared => Ok WEK_Declared
  | ELK_Active t off =>
      rbind (get_idx x S_table t) (fun ti =>
      rbind (emit_const x off) (fun o =>
      Ok (WEK_Active (if N.eqb ti 0 then None else Some ti) o)))
  end.
Lemma emit_elem_split x e we : emit_elem x e = Ok we ->
  emit_elem_items x e = Ok (wel_items we) /\ emit_elem_kind x e = Ok (wel_kind we).
Proof.
  unfold emit_elem. fold (emit_elem_items x e). fold (emit_elem_kind x e). intros H.
  destruct (emit_elem_items x e) as [it| |]; cbn [rbind] in H; try discriminate H.
  destruct (emit_elem_kind x e) as [k| |]; cbn [rbind] in H; try discriminate H.
  injection H as <-. cbn [wel_items wel_kind]. auto.
Qed.

(* an active segment of table 0 is emitted in the MVP form (no explicit table index) *)
Theorem emit_elem_table0 : forall x e we t off,
  emit_elem x e = Ok we -> el_kind e = ELK_Active t off -> get_idx x S_table t = Ok 0%N ->
  exists o, wel_kind we = WEK_Active None o.
Proof.
  intros x e we t off H Ek Et. apply emit_elem_split in H. destruct H as [_ H].
  unfold emit_elem_kind in H. rewrite Ek, Et in H. cbn [rbind] in H.
  destruct (emit_const x off) as [o| |]; cbn [rbind] in H; try discriminate H.
  injection H as H. exists o. rewrite <- H. reflexivity.
Qed.

(* conversely the explicit-table form is used only for a table whose index is not 0 *)
Theorem emit_elem_explicit_table : forall x e we ti o,
  emit_elem x e = Ok we -> wel_kind we = WEK_Active (Some ti) o ->
  exists t off, el_kind e = ELK_Active t off /\ get_idx x S_table t = Ok ti /\ ti <> 0%N /\ emit_const x off = Ok o.
Proof.
  intros x e we ti o H Ek. apply emit_elem_split in H. destruct H as [_ H]. rewrite Ek in H.
  unfold emit_elem_kind in H. destruct (el_kind e) as [| |t off]; try discriminate H.
  destruct (get_idx x S_table t) as [ti'| |] eqn:Et; cbn [rbind] in H; try discriminate H.
  destruct (emit_const x off) as [o'| |] eqn:Eo; cbn [rbind] in H; try discriminate H.
  destruct (N.eqb ti' 0) eqn:E0; [discriminate H|]. injection H as -> ->.
  exists t, off. apply N.eqb_neq in E0. auto.
Qed.

(* kinds and item encodings are preserved, in both directions *)
Theorem emit_elem_kind_shape : forall x e we, emit_elem x e = Ok we ->
  (el_kind e = ELK_Passive <-> wel_kind we = WEK_Passive) /\
  (el_kind e = ELK_Declared <-> wel_kind we = WEK_Declared) /\
  ((exists t off, el_kind e = ELK_Active t off) <-> (exists ti o, wel_kind we = WEK_Active ti o)) /\
  (forall fs, el_items e = ELI_Funcs fs ->
     exists fs', wel_items we = WEI_Funcs fs' /\ length fs' = length fs) /\
  (forall t es, el_items e = ELI_Exprs t es ->
     exists es', wel_items we = WEI_Exprs t es' /\ length es' = length es) /\
  (forall fs', wel_items we = WEI_Funcs fs' -> exists fs, el_items e = ELI_Funcs fs) /\
  (forall t es', wel_items we = WEI_Exprs t es' -> exists es, el_items e = ELI_Exprs t es).
Proof.
  intros x e we H. apply emit_elem_split in H. destruct H as [Hi Hk].
  unfold emit_elem_kind in Hk. unfold emit_elem_items in Hi.
  assert (K : match el_kind e with
              | ELK_Passive => wel_kind we = WEK_Passive
              | ELK_Declared => wel_kind we = WEK_Declared
              | ELK_Active _ _ => exists ti o, wel_kind we = WEK_Active ti o end).
  { destruct (el_kind e) as [| |t off].
    - now injection Hk.
    - now injection Hk.
    - destruct (get_idx x S_table t) as [ti| |]; cbn [rbind] in Hk; try discriminate Hk.
      destruct (emit_const x off) as [o| |]; cbn [rbind] in Hk; try discriminate Hk.
      injection Hk as <-. eauto. }
  assert (I : match el_items e with
              | ELI_Funcs fs => exists fs', wel_items we = WEI_Funcs fs' /\ length fs' = length fs
              | ELI_Exprs t es => exists es', wel_items we = WEI_Exprs t es' /\ length es' = length es end).
  { destruct (el_items e) as [fs|t es].
    - destruct (rmapM (get_idx x S_func) fs) as [fs'| |] eqn:E; cbn [rmap] in Hi; try discriminate Hi.
      injection Hi as <-. exists fs'. split; [reflexivity|]. exact (rmapM_length _ _ _ E).
    - destruct (rmapM (emit_const x) es) as [es'| |] eqn:E; cbn [rmap] in Hi; try discriminate Hi.
      injection Hi as <-. exists es'. split; [reflexivity|]. exact (rmapM_length _ _ _ E). }
  clear Hi Hk.
  repeat split.
  - intros E. now rewrite E in K.
  - intros E. destruct (el_kind e); [reflexivity|congruence|destruct K as (? & ? & K); congruence].
  - intros E. now rewrite E in K.
  - intros E. destruct (el_kind e); [congruence|reflexivity|destruct K as (? & ? & K); congruence].
  - intros (t & off & E). now rewrite E in K.
  - intros (ti & o & E). destruct (el_kind e) as [| |t off]; [congruence|congruence|eauto].
  - intros fs E. now rewrite E in I.
  - intros t es E. now rewrite E in I.
  - intros fs' E. destruct (el_items e) as [fs|t es]; [eauto|]. destruct I as (? & I & _). congruence.
  - intros t es' E. destruct (el_items e) as [fs|t0 es].
    + destruct I as (? & I & _). congruence.
    + destruct I as (? & I & _). rewrite I in E. injection E as -> _. eauto.
Qed.

(* ================================================================== 4. data count *)
Lemma existsb_id_In (us : list bool) : existsb (fun b => b) us = true <-> In true us.
Proof.
  rewrite existsb_exists. split; [intros (b & Hi & ->); exact Hi|intros Hi; exists true; auto].
Qed.

Theorem emit_data_count_iff : forall m x secs x', emit_data_count m x = Ok (secs, x') ->
  (secs <> [] <->
   (aiter (m_data m) <> [] /\
    (existsb (fun p => match da_kind (snd p) with DK_Passive => true | _ => false end) (aiter (m_data m)) = true \/
     exists p lf, In p (aiter (m_funcs m)) /\ fn_kind (snd p) = FK_Local lf /\ uses_data lf = Ok true))).
Proof.
  intros m x secs x' H. unfold emit_data_count in H.
  destruct (aiter (m_data m)) as [|d0 dl] eqn:Ed.
  - injection H as <- _. split; [intros C; now elim C|intros [C _]; now elim C].
  - set (l := d0 :: dl) in *.
    set (f := fun p : N * mfunc => match fn_kind (snd p) with FK_Local lf => uses_data lf | _ => Ok false end) in *.
    destruct (rmapM f (aiter (m_funcs m))) as [us| |] eqn:Eu; cbn [rbind] in H; try discriminate H.
    pose proof (rmapM_In f _ _ Eu true) as Hin.
    assert (Hus : existsb (fun b => b) us = true <->
                  exists p lf, In p (aiter (m_funcs m)) /\ fn_kind (snd p) = FK_Local lf /\ uses_data lf = Ok true).
    { rewrite existsb_id_In, Hin. split.
      - intros (p & Hp & E). unfold f in E. destruct (fn_kind (snd p)) as [? ?|lf|?] eqn:Ek; try discriminate E.
        exists p, lf. auto.
      - intros (p & lf & Hp & Ek & E). exists p. split; [exact Hp|]. unfold f. now rewrite Ek. }
    set (ap := existsb (fun p : N * mdata => match da_kind (snd p) with DK_Passive => true | _ => false end) l) in *.
    destruct (ap || existsb (fun b => b) us) eqn:Eor.
    + injection H as <- _. split; [|intros _; discriminate].
      intros _. split; [discriminate|]. apply orb_true_iff in Eor. destruct Eor as [E|E]; [left; exact E|right; now apply Hus].
    + injection H as <- _. apply orb_false_iff in Eor. destruct Eor as [E1 E2]. split; [intros C; now elim C|].
      intros [_ [E|E]]; [congruence|]. apply Hus in E. congruence.
Qed.

Print Assumptions nf_bt_func_only_from_func.
Print Assumptions nf_ops_from_input.
Print Assumptions nf_ctl_not_increased.
Print Assumptions nf_br_depths_from_input.
Print Assumptions nf_br_table_from_input.
Print Assumptions emit_elem_table0.
Print Assumptions emit_elem_kind_shape.
Print Assumptions emit_data_count_iff.
