(* Builder programs with dangling sequences attached later (C15).
   Model/Builder.v / Proofs/Builder.v treat the STRUCTURED fragment.  Here the denotation is
   extended to programs that create sequences with [BDangling] and attach them afterwards by a
   hand-made [IBlock id] / [ILoop id] / [IIfElse c a] instruction, possibly inside a sequence that
   was created after the dangling one (ids are then not monotone along the nesting).

   A. [bspec2_op]/[bspec2]/[tree_of2] : the denotation, threading a forest (the dangling sequences
      built so far and not yet attached, looked up by their id and consumed when attached);
      [well_attached] (decidable: a boolean) : the program denotes a tree, i.e. every attachment
      finds its sequence in the forest (created before, not yet attached, not the sequence being
      built nor one of its ancestors) and the forest is empty at the end;
   B. the ids: the ids of the items and of the forest are, up to permutation, the old ones plus
      the fresh range; hence pairwise distinct;
   C. [Den] is stable under arena changes away from the ids of the tree;
   D. [builder2_den] : the machine builds the denoted tree;
   E. [builder2_emit] : build, traverse, emit;
   F. conservativity over the structured fragment;
   G. the late-attach example and the negative examples. *)
From Coq Require Import List NArith Arith Lia Bool Permutation. Import ListNotations.
From WV Require Import Gen.Ops Model.Common Model.IR Model.Traversal Model.EmitFn Model.EmitSpec Model.Builder.
From WV Require Proofs.Traversal Proofs.EmitFn.
From WV Require Import Proofs.Builder.
Open Scope N_scope.

(* ================================================================== A. the denotation *)
(* the forest: the dangling trees, keyed by their own id; [take] finds and removes one *)
Fixpoint take (id : N) (F : list tree) : option (tree * list tree) :=
  match F with
  | [] => None
  | t :: r => if N.eqb (tsid t) id then Some (t, r)
              else match take id r with Some (u, r') => Some (u, t :: r') | None => None end
  end.

(* the item an instruction stands for, and the forest left: attaching consumes *)
Definition attach_of (i : instr) (F : list tree) : option (item * list tree) :=
  match i with
  | IBlock s => match take s F with Some (t, F') => Some (ItB t, F') | None => None end
  | ILoop s => match take s F with Some (t, F') => Some (ItL t, F') | None => None end
  | IIfElse c a =>
      match take c F with
      | Some (tc, F') => match take a F' with Some (ta, F'') => Some (ItI tc ta, F'') | None => None end
      | None => None
      end
  | _ => match item_of_instr i with Some it => Some (it, F) | None => None end
  end.

Definition bstate := (list (item * N) * N * list tree)%type.

(* [bspec2_op o n items F] : items of the current sequence, next free id, forest, after call [o] *)
Fixpoint bspec2_op (o : bop) (n : N) (items : list (item * N)) (F : list tree) {struct o} : option bstate :=
  let bl := fix bl (l : list bop) (n : N) (items : list (item * N)) (F : list tree) {struct l} : option bstate :=
      match l with
      | [] => Some (items, n, F)
      | x :: r => match bspec2_op x n items F with Some (i', n', F') => bl r n' i' F' | None => None end
      end in
  let leaf (pos : option N) (i : instr) : option bstate :=
      match attach_of i F with
      | Some (it, F') => option_map (fun l => (l, n, F')) (put pos it items)
      | None => None
      end in
  let nest1 (pos : option N) (mk : tree -> item) (ty : seqty) (b : list bop) : option bstate :=
      match bl b (n + 1) [] F with
      | Some (its, n1, F1) => option_map (fun l => (l, n1, F1)) (put pos (mk (T n ty its default_loc)) items)
      | None => None
      end in
  let nest2 (pos : option N) (ty : seqty) (c a : list bop) : option bstate :=
      match bl c (n + 1) [] F with
      | Some (ic, n1, F1) =>
          match bl a (n1 + 1) [] F1 with
          | Some (ia, n2, F2) =>
              option_map (fun l => (l, n2, F2)) (put pos (ItI (T n ty ic default_loc) (T n1 ty ia default_loc)) items)
          | None => None
          end
      | None => None
      end in
  match o with
  | BInstr i => leaf None i
  | BInstrAt p i => leaf (Some p) i
  | BBlock ty b => nest1 None ItB ty b
  | BBlockAt p ty b => nest1 (Some p) ItB ty b
  | BLoop ty b => nest1 None ItL ty b
  | BLoopAt p ty b => nest1 (Some p) ItL ty b
  | BIfElse ty c a => nest2 None ty c a
  | BIfElseAt p ty c a => nest2 (Some p) ty c a
  | BDangling ty b =>
      match bl b (n + 1) [] F with
      | Some (its, n1, F1) => Some (items, n1, T n ty its default_loc :: F1)
      | None => None
      end
  end.
Fixpoint bspec2 (l : list bop) (n : N) (items : list (item * N)) (F : list tree) : option bstate :=
  match l with
  | [] => Some (items, n, F)
  | x :: r => match bspec2_op x n items F with Some (i', n', F') => bspec2 r n' i' F' | None => None end
  end.

(* the function denotes a tree only when nothing is left dangling *)
Definition tree_of2 (entry_ty : N) (prog : list bop) : option tree :=
  match bspec2 prog 1 [] [] with
  | Some (items, _, []) => Some (T 0 (ST_Multi entry_ty) items default_loc)
  | _ => None
  end.
Definition well_attached (prog : list bop) : bool :=
  match bspec2 prog 1 [] [] with Some (_, _, []) => true | _ => false end.

Lemma well_attached_tree_of2 ety prog : well_attached prog = true <-> exists t, tree_of2 ety prog = Some t.
Proof.
  unfold well_attached, tree_of2. destruct (bspec2 prog 1 [] []) as [[[items n] [|t F]]|]; split;
    try discriminate; try (intros [t' H]; discriminate); eauto.
Qed.

(* ------------------------------------------------------------------ unfolding equations *)
Definition leaf_spec2 (pos : option N) (i : instr) (n : N) (items : list (item * N)) (F : list tree) : option bstate :=
  match attach_of i F with
  | Some (it, F') => option_map (fun l => (l, n, F')) (put pos it items)
  | None => None
  end.
Definition nest1_spec2 (pos : option N) (mk : tree -> item) (ty : seqty) (b : list bop) n items F : option bstate :=
  match bspec2 b (n + 1) [] F with
  | Some (its, n1, F1) => option_map (fun l => (l, n1, F1)) (put pos (mk (T n ty its default_loc)) items)
  | None => None
  end.
Definition nest2_spec2 (pos : option N) (ty : seqty) (c a : list bop) n items F : option bstate :=
  match bspec2 c (n + 1) [] F with
  | Some (ic, n1, F1) =>
      match bspec2 a (n1 + 1) [] F1 with
      | Some (ia, n2, F2) =>
          option_map (fun l => (l, n2, F2)) (put pos (ItI (T n ty ic default_loc) (T n1 ty ia default_loc)) items)
      | None => None
      end
  | None => None
  end.
Definition dangling_spec2 (ty : seqty) (b : list bop) n (items : list (item * N)) F : option bstate :=
  match bspec2 b (n + 1) [] F with
  | Some (its, n1, F1) => Some (items, n1, T n ty its default_loc :: F1)
  | None => None
  end.

Lemma bspec2_op_eq o n items F : bspec2_op o n items F =
  match o with
  | BInstr i => leaf_spec2 None i n items F
  | BInstrAt p i => leaf_spec2 (Some p) i n items F
  | BBlock ty b => nest1_spec2 None ItB ty b n items F
  | BBlockAt p ty b => nest1_spec2 (Some p) ItB ty b n items F
  | BLoop ty b => nest1_spec2 None ItL ty b n items F
  | BLoopAt p ty b => nest1_spec2 (Some p) ItL ty b n items F
  | BIfElse ty c a => nest2_spec2 None ty c a n items F
  | BIfElseAt p ty c a => nest2_spec2 (Some p) ty c a n items F
  | BDangling ty b => dangling_spec2 ty b n items F
  end.
Proof. destruct o; reflexivity. Qed.

(* ------------------------------------------------------------------ take / attach_of *)
Definition forest_ids (F : list tree) : list N := flat_map tree_ids F.
Definition FDen (ar : arena) (F : list tree) : Prop := Forall (Den ar) F.

Lemma take_spec id F t F' : take id F = Some (t, F') ->
  tsid t = id /\ exists F1 F2, F = F1 ++ t :: F2 /\ F' = F1 ++ F2.
Proof.
  revert t F'. induction F as [|u r IH]; intros t F' H; cbn [take] in H; [discriminate|].
  destruct (N.eqb (tsid u) id) eqn:E.
  - injection H as <- <-. apply N.eqb_eq in E. split; [exact E|]. exists [], r. auto.
  - destruct (take id r) as [[v r']|] eqn:Et; [|discriminate]. injection H as <- <-.
    destruct (IH _ _ eq_refl) as (Hid & F1 & F2 & -> & ->). split; [exact Hid|].
    exists (u :: F1), F2. auto.
Qed.
Lemma take_perm id F t F' : take id F = Some (t, F') -> tsid t = id /\ Permutation F (t :: F').
Proof.
  intros H. destruct (take_spec _ _ _ _ H) as (Hid & F1 & F2 & -> & ->). split; [exact Hid|].
  symmetry. apply Permutation_middle.
Qed.
Lemma forest_ids_perm F G : Permutation F G -> Permutation (forest_ids F) (forest_ids G).
Proof. apply Permutation_flat_map. Qed.
Lemma FDen_perm ar F G : Permutation F G -> FDen ar F -> FDen ar G.
Proof. intros P H. unfold FDen in *. eapply Permutation_Forall; eassumption. Qed.

Lemma attach_of_spec i F it F' : attach_of i F = Some (it, F') ->
  i = shallow it /\
  Permutation (forest_ids F) (item_ids it ++ forest_ids F') /\
  (forall ar, FDen ar F -> IDen ar it /\ FDen ar F').
Proof.
  destruct i as [p|s|s|c a|s|s|ss d]; cbn [attach_of item_of_instr]; intros H;
    try (injection H as <- <-; cbn [shallow item_ids IDen app]; auto).
  - destruct (take s F) as [[t G]|] eqn:Et; [|discriminate]. injection H as <- <-.
    destruct (take_perm _ _ _ _ Et) as (Hid & P). cbn [shallow item_ids IDen]. rewrite Hid.
    split; [reflexivity|split].
    + apply forest_ids_perm in P. exact P.
    + intros ar HF. apply (FDen_perm _ _ _ P) in HF. inversion HF; subst; auto.
  - destruct (take s F) as [[t G]|] eqn:Et; [|discriminate]. injection H as <- <-.
    destruct (take_perm _ _ _ _ Et) as (Hid & P). cbn [shallow item_ids IDen]. rewrite Hid.
    split; [reflexivity|split].
    + apply forest_ids_perm in P. exact P.
    + intros ar HF. apply (FDen_perm _ _ _ P) in HF. inversion HF; subst; auto.
  - destruct (take c F) as [[tc G]|] eqn:Ec; [|discriminate].
    destruct (take a G) as [[ta G']|] eqn:Ea; [|discriminate]. injection H as <- <-.
    destruct (take_perm _ _ _ _ Ec) as (Hc & Pc). destruct (take_perm _ _ _ _ Ea) as (Ha & Pa).
    cbn [shallow item_ids IDen]. rewrite Hc, Ha. split; [reflexivity|split].
    + apply forest_ids_perm in Pc. apply forest_ids_perm in Pa. rewrite Pc.
      change (forest_ids (tc :: G)) with (tree_ids tc ++ forest_ids G). rewrite Pa.
      change (forest_ids (ta :: G')) with (tree_ids ta ++ forest_ids G'). now rewrite app_assoc.
    + intros ar HF. apply (FDen_perm _ _ _ Pc) in HF. inversion HF as [|? ? Htc HG]; subst.
      apply (FDen_perm _ _ _ Pa) in HG. inversion HG; subst; auto.
Qed.

(* ================================================================== B. sequence ids *)
Definition sids (items : list (item * N)) (F : list tree) : list N := items_ids items ++ forest_ids F.

Definition IdsR2 (n : N) (items : list (item * N)) (F : list tree) (items1 : list (item * N)) (n1 : N) (F1 : list tree) : Prop :=
  n <= n1 /\ Permutation (sids items1 F1) (sids items F ++ nrange n n1).
Definition Iop2 (o : bop) : Prop := forall n items F items1 n1 F1,
  bspec2_op o n items F = Some (items1, n1, F1) -> IdsR2 n items F items1 n1 F1.
Definition Il2 (ops : list bop) : Prop := forall n items F items1 n1 F1,
  bspec2 ops n items F = Some (items1, n1, F1) -> IdsR2 n items F items1 n1 F1.

Lemma Il2_of_Forall ops : Forall Iop2 ops -> Il2 ops.
Proof.
  induction 1 as [|o r Ho Hr IH]; intros n items F items1 n1 F1 Hs.
  - cbn [bspec2] in Hs. injection Hs as <- <- <-. split; [lia|]. now rewrite nrange_nil, app_nil_r.
  - cbn [bspec2] in Hs. destruct (bspec2_op o n items F) as [[[i' n'] F']|] eqn:Eo; [|discriminate].
    destruct (Ho _ _ _ _ _ _ Eo) as (M1 & P1). destruct (IH _ _ _ _ _ _ Hs) as (M2 & P2). split; [lia|].
    rewrite (nrange_app n n' n1 M1 M2), app_assoc.
    eapply Permutation_trans; [exact P2|]. apply Permutation_app_tail, P1.
Qed.

(* the ids of a freshly built nested tree, together with the forest its body leaves *)
Lemma nested_ids2 ty b n F its nb F1 : Il2 b -> bspec2 b (n + 1) [] F = Some (its, nb, F1) ->
  n < nb /\ Permutation (tree_ids (T n ty its default_loc) ++ forest_ids F1) (forest_ids F ++ nrange n nb).
Proof.
  intros HI Hs. destruct (HI _ _ _ _ _ _ Hs) as (M & P). split; [lia|].
  rewrite tree_ids_T, (nrange_cons n nb) by lia. cbn [app]. apply Permutation_cons_app. exact P.
Qed.

Lemma leaf_ids2 pos i n items F items1 n1 F1 :
  leaf_spec2 pos i n items F = Some (items1, n1, F1) -> IdsR2 n items F items1 n1 F1.
Proof.
  unfold leaf_spec2. destruct (attach_of i F) as [[it F']|] eqn:Ea; [|discriminate].
  destruct (put pos it items) as [l|] eqn:Ep; [|discriminate]. cbn [option_map]. intros H. injection H as <- <- <-.
  destruct (attach_of_spec _ _ _ _ Ea) as (_ & P & _).
  split; [lia|]. rewrite nrange_nil, app_nil_r. unfold sids.
  rewrite (items_ids_put _ _ _ _ Ep), P. now rewrite app_assoc.
Qed.

Lemma block_like_ids2 (mkit : tree -> item) (Hids : forall t, item_ids (mkit t) = tree_ids t)
    pos ty b n items F items1 n1 F1 :
  Il2 b -> nest1_spec2 pos mkit ty b n items F = Some (items1, n1, F1) -> IdsR2 n items F items1 n1 F1.
Proof.
  intros HI. unfold nest1_spec2. destruct (bspec2 b (n + 1) [] F) as [[[its nb] Fb]|] eqn:Eb; [|discriminate].
  destruct (put pos (mkit (T n ty its default_loc)) items) as [l|] eqn:Ep; [|discriminate].
  cbn [option_map]. intros H. injection H as <- <- <-.
  destruct (nested_ids2 ty b n F its nb Fb HI Eb) as (M & P). split; [lia|]. unfold sids.
  rewrite (items_ids_put _ _ _ _ Ep), Hids, <- !app_assoc. apply Permutation_app_head. exact P.
Qed.

Lemma dangling_ids2 ty b n items F items1 n1 F1 :
  Il2 b -> dangling_spec2 ty b n items F = Some (items1, n1, F1) -> IdsR2 n items F items1 n1 F1.
Proof.
  intros HI. unfold dangling_spec2. destruct (bspec2 b (n + 1) [] F) as [[[its nb] Fb]|] eqn:Eb; [|discriminate].
  intros H. injection H as <- <- <-.
  destruct (nested_ids2 ty b n F its nb Fb HI Eb) as (M & P). split; [lia|]. unfold sids.
  change (forest_ids (T n ty its default_loc :: Fb)) with (tree_ids (T n ty its default_loc) ++ forest_ids Fb).
  rewrite <- !app_assoc. apply Permutation_app_head. exact P.
Qed.

Lemma ifelse_like_ids2 pos ty c al n items F items1 n1 F1 :
  Il2 c -> Il2 al -> nest2_spec2 pos ty c al n items F = Some (items1, n1, F1) -> IdsR2 n items F items1 n1 F1.
Proof.
  intros HIc HIa. unfold nest2_spec2. destruct (bspec2 c (n + 1) [] F) as [[[ic nc] Fc]|] eqn:Ec; [|discriminate].
  destruct (bspec2 al (nc + 1) [] Fc) as [[[ia na] Fa]|] eqn:Ea; [|discriminate].
  destruct (put pos (ItI (T n ty ic default_loc) (T nc ty ia default_loc)) items) as [l|] eqn:Ep; [|discriminate].
  cbn [option_map]. intros H. injection H as <- <- <-.
  destruct (nested_ids2 ty c n F ic nc Fc HIc Ec) as (Mc & Pc).
  destruct (nested_ids2 ty al nc Fc ia na Fa HIa Ea) as (Ma & Pa). split; [lia|]. unfold sids.
  rewrite (items_ids_put _ _ _ _ Ep). cbn [item_ids]. rewrite <- !app_assoc. apply Permutation_app_head.
  rewrite Pa. rewrite (nrange_app n nc na) by lia. rewrite !app_assoc. apply Permutation_app_tail. exact Pc.
Qed.

Theorem ids_op2 : forall o, Iop2 o.
Proof.
  induction o as [i|p i|ty b HF|p ty b HF|ty b HF|p ty b HF|ty c a HFc HFa|p ty c a HFc HFa|ty b HF] using bop_ind';
    intros n items F items1 n1 F1 Hs; rewrite bspec2_op_eq in Hs.
  - apply (leaf_ids2 None i), Hs.
  - apply (leaf_ids2 (Some p) i), Hs.
  - apply Il2_of_Forall in HF. apply (block_like_ids2 ItB) with (pos := None) (ty := ty) (b := b); auto.
  - apply Il2_of_Forall in HF. apply (block_like_ids2 ItB) with (pos := Some p) (ty := ty) (b := b); auto.
  - apply Il2_of_Forall in HF. apply (block_like_ids2 ItL) with (pos := None) (ty := ty) (b := b); auto.
  - apply Il2_of_Forall in HF. apply (block_like_ids2 ItL) with (pos := Some p) (ty := ty) (b := b); auto.
  - apply Il2_of_Forall in HFc. apply Il2_of_Forall in HFa. apply (ifelse_like_ids2 None ty c a); auto.
  - apply Il2_of_Forall in HFc. apply Il2_of_Forall in HFa. apply (ifelse_like_ids2 (Some p) ty c a); auto.
  - apply Il2_of_Forall in HF. apply (dangling_ids2 ty b); auto.
Qed.
Theorem ids_ops2 : forall ops, Il2 ops.
Proof. intros ops. apply Il2_of_Forall, Forall_forall. intros o _. apply ids_op2. Qed.

(* the ids after a run are below the new bound and still avoid the current sequence *)
Definition IdsOK (n cur : N) (items : list (item * N)) (F : list tree) : Prop :=
  Forall (fun i => i < n /\ i <> cur) (sids items F).

Lemma IdsOK_step n cur items F items1 n1 F1 :
  IdsR2 n items F items1 n1 F1 -> cur < n -> IdsOK n cur items F -> IdsOK n1 cur items1 F1.
Proof.
  intros (M & P) Hc H. unfold IdsOK in *. eapply Permutation_Forall; [symmetry; exact P|].
  apply Forall_app. split.
  - eapply Forall_impl; [|exact H]. cbn beta. intros i [Hi Hn]. split; [lia|exact Hn].
  - apply Forall_forall. intros i Hi. apply In_nrange in Hi. lia.
Qed.
Lemma IdsOK_notin n cur items F : IdsOK n cur items F -> ~ In cur (sids items F).
Proof. intros H Hin. unfold IdsOK in H. rewrite Forall_forall in H. destruct (H _ Hin) as [_ Hn]. now apply Hn. Qed.
Lemma IdsOK_forest n cur items F : IdsOK n cur items F -> Forall (fun i => i < n) (forest_ids F).
Proof.
  intros H. unfold IdsOK, sids in H. apply Forall_app in H as [_ H].
  eapply Forall_impl; [|exact H]. cbn beta. intros i [Hi _]. exact Hi.
Qed.

(* ================================================================== C. [Den] only looks at the ids of the tree *)
Lemma items_ids_cons x l : items_ids (x :: l) = item_ids (fst x) ++ items_ids l.
Proof. reflexivity. Qed.

Lemma Den_ext a a' t :
  (forall i, In i (tree_ids t) -> nth_error a' (N.to_nat i) = nth_error a (N.to_nat i)) -> Den a t -> Den a' t.
Proof.
  induction t as [s ty items e HF] using WV.Proofs.Traversal.tree_ind'.
  intros Hx HD. apply Den_T in HD as [Hn Hi]. apply Den_T. split.
  - rewrite Hx; [exact Hn|]. rewrite tree_ids_T. left. reflexivity.
  - assert (Hx' : forall i, In i (items_ids items) -> nth_error a' (N.to_nat i) = nth_error a (N.to_nat i)).
    { intros i Hin. apply Hx. rewrite tree_ids_T. right. exact Hin. }
    clear Hx Hn. unfold ItemsDen in *. induction items as [|x items IH]; [constructor|].
    inversion HF as [|? ? Hx1 HF1]; subst. inversion Hi as [|? ? Hi1 Hi2]; subst.
    assert (Ha : forall i, In i (item_ids (fst x)) -> nth_error a' (N.to_nat i) = nth_error a (N.to_nat i)).
    { intros i Hin. apply Hx'. rewrite items_ids_cons. apply in_or_app. now left. }
    assert (Hb : forall i, In i (items_ids items) -> nth_error a' (N.to_nat i) = nth_error a (N.to_nat i)).
    { intros i Hin. apply Hx'. rewrite items_ids_cons. apply in_or_app. now right. }
    constructor; [|apply IH; assumption].
    destruct x as [it loc]. cbn [fst] in *.
    destruct it as [p|s0|s0|ss d|t|t|c al]; cbn [IDen WV.Proofs.Traversal.lift item_ids] in *; auto.
    destruct Hx1 as [Hc Hal]. destruct Hi1 as [Dc Dal]. split.
    + apply Hc; [|exact Dc]. intros i Hin. apply Ha, in_or_app. now left.
    + apply Hal; [|exact Dal]. intros i Hin. apply Ha, in_or_app. now right.
Qed.

Lemma nth_error_upd_other {A} (l : list A) i j f : i <> j -> nth_error (upd l i f) j = nth_error l j.
Proof.
  revert i j. induction l as [|x l IH]; intros [|i] [|j] H; cbn [upd nth_error]; auto; try congruence.
Qed.

Lemma Den_app a X t : Den a t -> Den (a ++ X) t.
Proof.
  induction t as [s ty items e HF] using WV.Proofs.Traversal.tree_ind'.
  intros HD. apply Den_T in HD as [Hn Hi]. apply Den_T. split.
  - rewrite nth_error_app1; [exact Hn|]. eapply nth_error_lt, Hn.
  - clear Hn. unfold ItemsDen in *. induction items as [|x items IH]; [constructor|].
    inversion HF as [|? ? Hx1 HF1]; subst. inversion Hi as [|? ? Hi1 Hi2]; subst.
    constructor; [|apply IH; assumption].
    destruct x as [it loc]. cbn [fst] in *.
    destruct it as [p|s0|s0|ss d|t|t|c al]; cbn [IDen WV.Proofs.Traversal.lift] in *; auto.
    destruct Hx1 as [Hc Hal]. destruct Hi1 as [Dc Dal]. auto.
Qed.
Lemma Den_upd a cur f t : ~ In cur (tree_ids t) -> Den a t -> Den (upd a (N.to_nat cur) f) t.
Proof.
  intros Hn. apply Den_ext. intros i Hi. apply nth_error_upd_other.
  intros E. apply N2Nat.inj in E. subst. contradiction.
Qed.

Lemma IDen_app a X it : IDen a it -> IDen (a ++ X) it.
Proof. destruct it; cbn [IDen]; auto using Den_app. intros [H1 H2]. auto using Den_app. Qed.
Lemma IDen_upd a cur f it : ~ In cur (item_ids it) -> IDen a it -> IDen (upd a (N.to_nat cur) f) it.
Proof.
  destruct it; cbn [IDen item_ids]; auto using Den_upd. intros Hn [H1 H2].
  split; apply Den_upd; auto; intros Hin; apply Hn, in_or_app; auto.
Qed.
Lemma ItemsDen_app a X l : ItemsDen a l -> ItemsDen (a ++ X) l.
Proof. unfold ItemsDen. apply Forall_impl. intros x. apply IDen_app. Qed.
Lemma FDen_app a X F : FDen a F -> FDen (a ++ X) F.
Proof. unfold FDen. apply Forall_impl. intros x. apply Den_app. Qed.
Lemma ItemsDen_upd a cur f l : ~ In cur (items_ids l) -> ItemsDen a l -> ItemsDen (upd a (N.to_nat cur) f) l.
Proof.
  unfold ItemsDen. induction l as [|x l IH]; intros Hn H; [constructor|]. inversion H; subst.
  rewrite items_ids_cons in Hn. constructor.
  - apply IDen_upd; [|assumption]. intros Hin. apply Hn, in_or_app. now left.
  - apply IH; [|assumption]. intros Hin. apply Hn, in_or_app. now right.
Qed.
Lemma FDen_upd a cur f F : ~ In cur (forest_ids F) -> FDen a F -> FDen (upd a (N.to_nat cur) f) F.
Proof.
  unfold FDen. induction F as [|t F IH]; intros Hn H; [constructor|]. inversion H; subst.
  change (forest_ids (t :: F)) with (tree_ids t ++ forest_ids F) in Hn. constructor.
  - apply Den_upd; [|assumption]. intros Hin. apply Hn, in_or_app. now left.
  - apply IH; [|assumption]. intros Hin. apply Hn, in_or_app. now right.
Qed.

(* ================================================================== D. the machine builds the denoted tree *)
(* the last step of every call: the instruction is placed in the current sequence of an arena
   that is the old one plus the sequences [X] the nested calls appended *)
Lemma finish_ok a cur pos ty e items it items1 X F1 :
  nth_error a (N.to_nat cur) = Some (mkseq ty (map sh items) e) ->
  put pos it items = Some items1 ->
  ~ In cur (sids items1 F1) ->
  ItemsDen (a ++ X) items -> IDen (a ++ X) it -> FDen (a ++ X) F1 ->
  place (a ++ X) cur pos (shallow it) = Ok (upd a (N.to_nat cur) (fun _ => mkseq ty (map sh items1) e) ++ X) /\
  ItemsDen (upd a (N.to_nat cur) (fun _ => mkseq ty (map sh items1) e) ++ X) items1 /\
  FDen (upd a (N.to_nat cur) (fun _ => mkseq ty (map sh items1) e) ++ X) F1.
Proof.
  intros Hc Hp Hn Hi Hit HF. split; [exact (place_ok a cur pos ty e items it items1 X Hc Hp)|].
  pose proof (nth_error_lt _ _ _ Hc) as Hlt. rewrite <- upd_app_l by exact Hlt.
  unfold sids in Hn. split.
  - apply ItemsDen_upd; [intros Hin; apply Hn, in_or_app; now left|].
    eapply ItemsDen_put; eassumption.
  - apply FDen_upd; [intros Hin; apply Hn, in_or_app; now right|exact HF].
Qed.

Definition RunR2 (n : N) (items : list (item * N)) (F : list tree) (items1 : list (item * N)) (n1 : N) (F1 : list tree)
    (run : nat -> arena -> N -> res arena) (bound : nat) : Prop :=
  forall f a cur ty e, (bound <= f)%nat -> len_N a = n ->
    nth_error a (N.to_nat cur) = Some (mkseq ty (map sh items) e) ->
    IdsOK n cur items F -> ItemsDen a items -> FDen a F ->
    exists news a', a' = upd a (N.to_nat cur) (fun _ => mkseq ty (map sh items1) e) ++ news /\
      n1 = n + len_N news /\ run f a cur = Ok a' /\ ItemsDen a' items1 /\ FDen a' F1.

Definition Pop2 (o : bop) : Prop := forall n items F items1 n1 F1,
  bspec2_op o n items F = Some (items1, n1, F1) ->
  RunR2 n items F items1 n1 F1 (fun f a cur => step_op f a cur o) (bsize o).
Definition Pl2 (ops : list bop) : Prop := forall n items F items1 n1 F1,
  bspec2 ops n items F = Some (items1, n1, F1) ->
  RunR2 n items F items1 n1 F1 (fun f a cur => run_ops f a cur ops) (S (bsize_list ops)).

Lemma cur_lt {A} (a : list A) cur x n : len_N a = n -> nth_error a (N.to_nat cur) = Some x -> cur < n.
Proof. intros <- H. apply nth_error_lt in H. unfold len_N. lia. Qed.

Lemma Pl2_of_Forall ops : Forall Pop2 ops -> Pl2 ops.
Proof.
  induction 1 as [|o r Ho Hr IH]; intros n items F items1 n1 F1 Hs.
  - cbn [bspec2] in Hs. injection Hs as <- <- <-.
    intros f a cur ty e Hf Ha Hc Hok Hi HF. exists [], a. split; [|split; [|split; [|split]]]; auto.
    + rewrite app_nil_r. now rewrite (upd_same _ _ _ Hc).
    + change (len_N (@nil iseq)) with 0. lia.
    + destruct f as [|f]; [lia|]. apply run_ops_nil.
  - cbn [bspec2] in Hs. destruct (bspec2_op o n items F) as [[[i' n'] F']|] eqn:Eo; [|discriminate].
    intros f a cur ty e Hf Ha Hc Hok Hi HF.
    rewrite bsize_list_cons in Hf. pose proof (bsize_pos o) as Hpos.
    destruct f as [|f]; [lia|].
    pose proof (cur_lt _ _ _ _ Ha Hc) as Hcl. pose proof (nth_error_lt _ _ _ Hc) as Hlt.
    destruct (Ho _ _ _ _ _ _ Eo f a cur ty e) as (news1 & a1 & Ea1 & En' & R1 & D1 & G1); try assumption; [lia|].
    pose proof (IdsOK_step _ _ _ _ _ _ _ (ids_op2 o _ _ _ _ _ _ Eo) Hcl Hok) as Hok1.
    destruct (IH _ _ _ _ _ _ Hs f a1 cur ty e) as (news2 & a2 & Ea2 & En1 & R2 & D2 & G2); try assumption.
    + lia.
    + subst a1. rewrite len_N_app. unfold len_N at 1. rewrite upd_length. fold (len_N a). lia.
    + subst a1. rewrite nth_error_app1 by (rewrite upd_length; exact Hlt).
      exact (nth_error_upd_same a _ (fun _ => mkseq ty (map sh i') e) _ Hc).
    + exists (news1 ++ news2), a2. split; [|split; [|split; [|split]]]; auto.
      * subst a2 a1. rewrite upd_app_l by (rewrite upd_length; exact Hlt). rewrite upd_upd.
        now rewrite <- app_assoc.
      * rewrite len_N_app. lia.
      * rewrite run_ops_cons, R1. cbn [rbind]. exact R2.
Qed.

(* a nested sequence: allocated at the end, filled by the nested calls; the forest goes through *)
Lemma nested2_ok ty b n F its n1 F1 : Pl2 b -> bspec2 b (n + 1) [] F = Some (its, n1, F1) ->
  forall f a, (S (bsize_list b) <= f)%nat -> len_N a = n ->
    Forall (fun i => i < n) (forest_ids F) -> FDen a F ->
    exists newsb, n1 = n + 1 + len_N newsb /\
      nested_run f ty b a = Ok (a ++ mkseq ty (map sh its) default_loc :: newsb, n) /\
      Den (a ++ mkseq ty (map sh its) default_loc :: newsb) (T n ty its default_loc) /\
      FDen (a ++ mkseq ty (map sh its) default_loc :: newsb) F1.
Proof.
  intros HP Hs f a Hf Ha Hlt HF.
  assert (Hn : N.to_nat (len_N a) = length a) by apply to_nat_len_N.
  destruct (HP _ _ _ _ _ _ Hs f (a ++ [empty_seq ty]) (len_N a) ty default_loc) as (newsb & a' & Ea' & En1 & R & D & G).
  - exact Hf.
  - rewrite len_N_app, Ha. reflexivity.
  - rewrite Hn. apply nth_error_at. reflexivity.
  - unfold IdsOK, sids. cbn [items_ids flat_map app]. eapply Forall_impl; [|exact Hlt]. cbn beta. intros i Hi. lia.
  - constructor.
  - apply FDen_app, HF.
  - rewrite Hn, upd_app_r, <- app_assoc in Ea'. cbn [app] in Ea'.
    exists newsb. split; [exact En1|]. subst a'. split; [|split].
    + unfold nested_run. rewrite R. cbn [rmap]. now rewrite Ha.
    + apply Den_T. split; [|exact D]. apply nth_error_at. rewrite <- Hn, Ha. reflexivity.
    + exact G.
Qed.

Lemma leaf2_ok pos i n items F items1 n1 F1 :
  leaf_spec2 pos i n items F = Some (items1, n1, F1) -> IdsR2 n items F items1 n1 F1 ->
  RunR2 n items F items1 n1 F1 (fun _ a cur => place a cur pos i) 1.
Proof.
  unfold leaf_spec2. destruct (attach_of i F) as [[it F']|] eqn:Ea; [|discriminate].
  destruct (put pos it items) as [l|] eqn:Ep; [|discriminate]. cbn [option_map]. intros H HR. injection H as <- <- <-.
  destruct (attach_of_spec _ _ _ _ Ea) as (-> & _ & HD).
  intros f a cur ty e _ Ha Hc Hok Hi HF.
  pose proof (IdsOK_notin _ _ _ _ (IdsOK_step _ _ _ _ _ _ _ HR (cur_lt _ _ _ _ Ha Hc) Hok)) as Hni.
  destruct (HD a HF) as [Hit HF'].
  destruct (finish_ok a cur pos ty e items it l [] F' Hc Ep Hni) as (R & D & G);
    rewrite ?app_nil_r; try assumption.
  rewrite app_nil_r in R. eexists [], _. split; [reflexivity|split; [|split; [exact R|split; assumption]]].
  change (len_N (@nil iseq)) with 0. lia.
Qed.

Lemma block_like2_ok (mkins : N -> instr) (mkit : tree -> item)
    (Hsh : forall t, shallow (mkit t) = mkins (tsid t))
    (Hden : forall ar t, IDen ar (mkit t) <-> Den ar t) pos ty b n items F items1 n1 F1 :
  Pl2 b -> nest1_spec2 pos mkit ty b n items F = Some (items1, n1, F1) -> IdsR2 n items F items1 n1 F1 ->
  RunR2 n items F items1 n1 F1
    (fun f a cur => rbind (nested_run f ty b a) (fun r => place (fst r) cur pos (mkins (snd r))))
    (S (S (bsize_list b))).
Proof.
  intros HP. unfold nest1_spec2. destruct (bspec2 b (n + 1) [] F) as [[[its nb] Fb]|] eqn:Eb; [|discriminate].
  destruct (put pos (mkit (T n ty its default_loc)) items) as [l|] eqn:Ep; [|discriminate].
  cbn [option_map]. intros H HR. injection H as <- <- <-.
  intros f a cur ty0 e Hf Ha Hc Hok Hi HF.
  pose proof (IdsOK_notin _ _ _ _ (IdsOK_step _ _ _ _ _ _ _ HR (cur_lt _ _ _ _ Ha Hc) Hok)) as Hni.
  destruct (nested2_ok ty b n F its nb Fb HP Eb f a) as (newsb & En & R & D & G); try assumption; [lia|eapply IdsOK_forest, Hok|].
  set (X := mkseq ty (map sh its) default_loc :: newsb) in *.
  destruct (finish_ok a cur pos ty0 e items (mkit (T n ty its default_loc)) l X Fb Hc Ep Hni) as (R' & D' & G').
  - apply ItemsDen_app, Hi.
  - apply Hden, D.
  - exact G.
  - eexists X, _. split; [reflexivity|split; [|split; [|split; assumption]]].
    + subst X. rewrite len_N_cons. lia.
    + rewrite R. cbn [rbind fst snd]. rewrite <- R', Hsh. reflexivity.
Qed.

Lemma dangling2_ok ty b n items F items1 n1 F1 :
  Pl2 b -> dangling_spec2 ty b n items F = Some (items1, n1, F1) ->
  RunR2 n items F items1 n1 F1 (fun f a cur => rmap fst (nested_run f ty b a)) (S (S (bsize_list b))).
Proof.
  intros HP. unfold dangling_spec2. destruct (bspec2 b (n + 1) [] F) as [[[its nb] Fb]|] eqn:Eb; [|discriminate].
  intros H. injection H as <- <- <-.
  intros f a cur ty0 e Hf Ha Hc Hok Hi HF.
  destruct (nested2_ok ty b n F its nb Fb HP Eb f a) as (newsb & En & R & D & G); try assumption; [lia|eapply IdsOK_forest, Hok|].
  set (X := mkseq ty (map sh its) default_loc :: newsb) in *.
  exists X, (a ++ X). split; [|split; [|split; [|split]]].
  - now rewrite (upd_same _ _ _ Hc).
  - subst X. rewrite len_N_cons. lia.
  - rewrite R. reflexivity.
  - apply ItemsDen_app, Hi.
  - constructor; assumption.
Qed.

Lemma ifelse_like2_ok pos ty c al n items F items1 n1 F1 :
  Pl2 c -> Pl2 al -> nest2_spec2 pos ty c al n items F = Some (items1, n1, F1) -> IdsR2 n items F items1 n1 F1 ->
  RunR2 n items F items1 n1 F1
    (fun f a cur => rbind (nested_run f ty c a) (fun r1 => rbind (nested_run f ty al (fst r1)) (fun r2 =>
                    place (fst r2) cur pos (IIfElse (snd r1) (snd r2)))))
    (S (S (S (bsize_list c + bsize_list al)))).
Proof.
  intros HPc HPa. unfold nest2_spec2. destruct (bspec2 c (n + 1) [] F) as [[[ic nc] Fc]|] eqn:Ec; [|discriminate].
  destruct (bspec2 al (nc + 1) [] Fc) as [[[ia na] Fa]|] eqn:Ea; [|discriminate].
  destruct (put pos (ItI (T n ty ic default_loc) (T nc ty ia default_loc)) items) as [l|] eqn:Ep; [|discriminate].
  cbn [option_map]. intros H HR. injection H as <- <- <-.
  intros f a cur ty0 e Hf Ha Hc Hok Hi HF.
  pose proof (IdsOK_notin _ _ _ _ (IdsOK_step _ _ _ _ _ _ _ HR (cur_lt _ _ _ _ Ha Hc) Hok)) as Hni.
  destruct (nested2_ok ty c n F ic nc Fc HPc Ec f a) as (newsc & Enc & Rc & Dc & Gc); try assumption; [lia|eapply IdsOK_forest, Hok|].
  set (Sc := mkseq ty (map sh ic) default_loc) in *.
  (* the ids of the forest the consequent leaves are below the new bound *)
  assert (HltFc : Forall (fun i => i < nc) (forest_ids Fc)).
  { destruct (ids_ops2 c _ _ _ _ _ _ Ec) as (Mc & Pc). unfold sids in Pc. cbn [items_ids flat_map app] in Pc.
    pose proof (IdsOK_forest _ _ _ _ Hok) as HltF.
    assert (Hall : Forall (fun i => i < nc) (items_ids ic ++ forest_ids Fc)).
    { eapply Permutation_Forall; [symmetry; exact Pc|]. apply Forall_app. split.
      - eapply Forall_impl; [|exact HltF]. cbn beta. intros i Hlt. lia.
      - apply Forall_forall. intros i Hin. apply In_nrange in Hin. lia. }
    apply Forall_app in Hall as [_ Hall]. exact Hall. }
  destruct (nested2_ok ty al nc Fc ia na Fa HPa Ea f (a ++ Sc :: newsc)) as (newsa & Ena & Ra & Da & Ga); try assumption; [lia| |].
  { rewrite len_N_app, len_N_cons. lia. }
  set (Sa := mkseq ty (map sh ia) default_loc) in *.
  set (X := (Sc :: newsc) ++ Sa :: newsa).
  assert (EX : (a ++ Sc :: newsc) ++ Sa :: newsa = a ++ X) by (subst X; now rewrite <- app_assoc).
  rewrite EX in Ra, Da, Ga.
  destruct (finish_ok a cur pos ty0 e items (ItI (T n ty ic default_loc) (T nc ty ia default_loc)) l X Fa Hc Ep Hni)
    as (R' & D' & G').
  - apply ItemsDen_app, Hi.
  - cbn [IDen]. split; [|exact Da]. rewrite <- EX. apply Den_app, Dc.
  - exact Ga.
  - eexists X, _. split; [reflexivity|split; [|split; [|split; assumption]]].
    + subst X. rewrite len_N_app, !len_N_cons. lia.
    + rewrite Rc. cbn [rbind fst snd]. rewrite Ra. cbn [rbind fst snd]. exact R'.
Qed.

Theorem builder2_op : forall o, Pop2 o.
Proof.
  induction o as [i|p i|ty b HF|p ty b HF|ty b HF|p ty b HF|ty c a HFc HFa|p ty c a HFc HFa|ty b HF] using bop_ind';
    intros n items F items1 n1 F1 Hs; pose proof (ids_op2 _ _ _ _ _ _ _ Hs) as HR;
    rewrite bspec2_op_eq in Hs; rewrite bsize_eq; cbn [step_op].
  - apply (leaf2_ok None); assumption.
  - apply (leaf2_ok (Some p)); assumption.
  - apply Pl2_of_Forall in HF. apply (block_like2_ok IBlock ItB) with (pos := None); auto; reflexivity.
  - apply Pl2_of_Forall in HF. apply (block_like2_ok IBlock ItB) with (pos := Some p); auto; reflexivity.
  - apply Pl2_of_Forall in HF. apply (block_like2_ok ILoop ItL) with (pos := None); auto; reflexivity.
  - apply Pl2_of_Forall in HF. apply (block_like2_ok ILoop ItL) with (pos := Some p); auto; reflexivity.
  - apply Pl2_of_Forall in HFc. apply Pl2_of_Forall in HFa. apply (ifelse_like2_ok None); auto.
  - apply Pl2_of_Forall in HFc. apply Pl2_of_Forall in HFa. apply (ifelse_like2_ok (Some p)); auto.
  - apply Pl2_of_Forall in HF. apply dangling2_ok; auto.
Qed.
Theorem builder2_ops : forall ops, Pl2 ops.
Proof. intros ops. apply Pl2_of_Forall, Forall_forall. intros o _. apply builder2_op. Qed.

Lemma tree_of2_inv ety prog t : tree_of2 ety prog = Some t ->
  exists items n1, bspec2 prog 1 [] [] = Some (items, n1, []) /\ t = T 0 (ST_Multi ety) items default_loc.
Proof.
  unfold tree_of2. destruct (bspec2 prog 1 [] []) as [[[items n1] [|u F]]|]; try discriminate.
  intros [= <-]. eauto.
Qed.
Lemma tree_of2_tsid ety prog t : tree_of2 ety prog = Some t -> tsid t = 0.
Proof. intros H. destruct (tree_of2_inv _ _ _ H) as (items & n1 & _ & ->). reflexivity. Qed.

(* well-attached programs run without panic; the arena denotes the tree; the tree uses each id
   0 .. len-1 exactly once (pairwise distinct, nothing left dangling), in any nesting order *)
Theorem builder2_den : forall entry_ty prog t,
  tree_of2 entry_ty prog = Some t ->
  exists ar, run_builder entry_ty prog = Ok ar /\ Den ar t /\
    Permutation (tree_ids t) (nrange 0 (len_N ar)) /\ NoDup (tree_ids t).
Proof.
  intros ety prog t Ht. destruct (tree_of2_inv _ _ _ Ht) as (items & n1 & Es & ->).
  destruct (builder2_ops prog _ _ _ _ _ _ Es (S (bsize_list prog)) [empty_seq (ST_Multi ety)] 0 (ST_Multi ety) default_loc)
    as (news & a' & Ea' & En & R & D & _).
  - lia.
  - reflexivity.
  - reflexivity.
  - constructor.
  - constructor.
  - constructor.
  - cbn [N.to_nat upd app] in Ea'. exists a'. split; [exact R|].
    assert (P' : Permutation (tree_ids (T 0 (ST_Multi ety) items default_loc)) (nrange 0 (len_N a'))).
    { destruct (ids_ops2 prog _ _ _ _ _ _ Es) as (M & P). unfold sids in P.
      cbn [items_ids forest_ids flat_map app] in P. rewrite app_nil_r in P.
      subst a'. rewrite len_N_cons, <- En. rewrite tree_ids_T, nrange_cons by lia. constructor. exact P. }
    split; [|split; [exact P'|]].
    + apply Den_T. split; [subst a'; reflexivity|exact D].
    + apply (Permutation_NoDup (Permutation_sym P')), NoDup_nrange.
Qed.

Corollary builder2_den_wa : forall entry_ty prog, well_attached prog = true ->
  exists t ar, tree_of2 entry_ty prog = Some t /\ run_builder entry_ty prog = Ok ar /\ Den ar t /\ NoDup (tree_ids t).
Proof.
  intros ety prog H. apply (well_attached_tree_of2 ety) in H as [t Ht].
  destruct (builder2_den _ _ _ Ht) as (ar & R & D & _ & ND). eauto 6.
Qed.

(* ================================================================== E. build, traverse, emit *)
(* [dfs_in_order_spec] and [emit_body_spec] ask for [Den ar t] only (and the emitter for the
   flattening [flt_tree] to succeed, i.e. branch targets in scope and plain operators encodable);
   neither mentions the order of the ids, so the corollary goes through unchanged *)
Corollary builder2_emit : forall entry_ty prog t cx tg p0,
  tree_of2 entry_ty prog = Some t ->
  flt_tree cx [] t KEntry = Ok tg ->
  exists ar st, run_builder entry_ty prog = Ok ar /\
    emit_body cx (S (size t)) ar 0 p0 = Ok st /\ out st = map snd tg /\ imap st = tag_positions cx p0 tg.
Proof.
  intros entry_ty prog t cx tg p0 Ht Hf.
  destruct (builder2_den _ _ _ Ht) as (ar & Hr & HD & _).
  pose proof (WV.Proofs.Traversal.dfs_in_order_spec false ar t HD) as Hdfs.
  destruct (WV.Proofs.EmitFn.emit_body_spec cx ar t tg p0 _ HD Hdfs Hf) as (st & He & Ho & Hi).
  rewrite (tree_of2_tsid _ _ _ Ht) in He. exists ar, st. auto.
Qed.

(* ================================================================== F. conservativity *)
Lemma attach_of_item i it F : item_of_instr i = Some it -> attach_of i F = Some (it, F).
Proof. destruct i; cbn [item_of_instr attach_of]; intros H; try discriminate; injection H as <-; reflexivity. Qed.

Definition Cop (o : bop) : Prop := forall n items i' n' F,
  bspec_op o n items = Some (i', n') -> bspec2_op o n items F = Some (i', n', F).
Definition Cl (ops : list bop) : Prop := forall n items i' n' F,
  bspec ops n items = Some (i', n') -> bspec2 ops n items F = Some (i', n', F).
Lemma Cl_of_Forall ops : Forall Cop ops -> Cl ops.
Proof.
  induction 1 as [|o r Ho Hr IH]; intros n items i' n' F Hs; cbn [bspec bspec2] in *.
  - now injection Hs as <- <-.
  - destruct (bspec_op o n items) as [[i1 m1]|] eqn:Eo; [|discriminate].
    rewrite (Ho _ _ _ _ F Eo). apply IH, Hs.
Qed.
Lemma leaf_cons pos i n items i' n' F :
  leaf_spec pos i n items = Some (i', n') -> leaf_spec2 pos i n items F = Some (i', n', F).
Proof.
  unfold leaf_spec, leaf_spec2. destruct (item_of_instr i) as [it|] eqn:Ei; [|discriminate].
  rewrite (attach_of_item _ _ F Ei). destruct (put pos it items); [|discriminate].
  cbn [option_map]. now intros [= <- <-].
Qed.
Lemma nest1_cons pos mk ty b n items i' n' F : Cl b ->
  nest1_spec pos mk ty b n items = Some (i', n') -> nest1_spec2 pos mk ty b n items F = Some (i', n', F).
Proof.
  intros HC. unfold nest1_spec, nest1_spec2. destruct (bspec b (n + 1) []) as [[its nb]|] eqn:Eb; [|discriminate].
  rewrite (HC _ _ _ _ F Eb). destruct (put pos _ items); [|discriminate]. cbn [option_map]. now intros [= <- <-].
Qed.
Lemma nest2_cons pos ty c a n items i' n' F : Cl c -> Cl a ->
  nest2_spec pos ty c a n items = Some (i', n') -> nest2_spec2 pos ty c a n items F = Some (i', n', F).
Proof.
  intros HCc HCa. unfold nest2_spec, nest2_spec2. destruct (bspec c (n + 1) []) as [[ic nc]|] eqn:Ec; [|discriminate].
  rewrite (HCc _ _ _ _ F Ec). destruct (bspec a (nc + 1) []) as [[ia na]|] eqn:Ea; [|discriminate].
  rewrite (HCa _ _ _ _ F Ea). destruct (put pos _ items); [|discriminate]. cbn [option_map]. now intros [= <- <-].
Qed.
Theorem bspec2_conservative_op : forall o, Cop o.
Proof.
  induction o as [i|p i|ty b HF|p ty b HF|ty b HF|p ty b HF|ty c a HFc HFa|p ty c a HFc HFa|ty b HF] using bop_ind';
    intros n items i' n' F Hs; rewrite bspec_op_eq in Hs; rewrite bspec2_op_eq;
    try (apply Cl_of_Forall in HF); try (apply Cl_of_Forall in HFc; apply Cl_of_Forall in HFa).
  - now apply leaf_cons.
  - now apply leaf_cons.
  - now apply nest1_cons.
  - now apply nest1_cons.
  - now apply nest1_cons.
  - now apply nest1_cons.
  - now apply nest2_cons.
  - now apply nest2_cons.
  - discriminate.
Qed.
(* on the structured fragment the new denotation is the old one, and the forest is untouched *)
Theorem bspec2_conservative : forall ops n items i' n' F,
  bspec ops n items = Some (i', n') -> bspec2 ops n items F = Some (i', n', F).
Proof. intros ops. apply Cl_of_Forall, Forall_forall. intros o _. apply bspec2_conservative_op. Qed.
Corollary tree_of2_conservative : forall ety prog t, tree_of ety prog = Some t -> tree_of2 ety prog = Some t.
Proof.
  intros ety prog t. unfold tree_of, tree_of2. destruct (bspec prog 1 []) as [[items n]|] eqn:E; [|discriminate].
  now rewrite (bspec2_conservative _ _ _ _ _ [] E).
Qed.
Corollary structured_well_attached : forall ety prog t, tree_of ety prog = Some t -> well_attached prog = true.
Proof. intros ety prog t H. apply (well_attached_tree_of2 ety). exists t. now apply tree_of2_conservative. Qed.

(* ================================================================== G. examples *)
Definition tyE : seqty := ST_Simple None.
Definition cx0 : ectx := {| ex_id2i := fun _ n => n; ex_ilen := fun _ => 1 |}.

(* the loop body is created first, dangling (id 1): it branches to itself, to the block that will
   exist later (id 2) and to the function (id 0); then the block is created and the loop is
   attached inside it: nesting 0 > 2 > 1, ids not monotone *)
Definition late_prog : list bop :=
  [ BDangling tyE [BInstr (IBr 1); BInstr (IBr 2); BInstr (IBr 0)];
    BBlock tyE [BInstr (ILoop 1)] ].
Definition late_tree : tree :=
  T 0 (ST_Multi 7)
    [(ItB (T 2 tyE
        [(ItL (T 1 tyE [(ItBr 1, default_loc); (ItBr 2, default_loc); (ItBr 0, default_loc)] default_loc), default_loc)]
        default_loc), default_loc)]
    default_loc.

Example late_well_attached : well_attached late_prog = true.
Proof. vm_compute. reflexivity. Qed.
Example late_tree_of2 : tree_of2 7 late_prog = Some late_tree.
Proof. vm_compute. reflexivity. Qed.
Example late_not_structured : tree_of 7 late_prog = None.
Proof. vm_compute. reflexivity. Qed.
Example late_emit :
  rbind (run_builder 7 late_prog) (fun ar => rmap out (emit_body cx0 (S (size late_tree)) ar 0 0))
  = Ok [WBlock BT_Empty; WLoop BT_Empty; WBr 0; WBr 1; WBr 2; WEnd; WEnd; WEnd].
Proof. vm_compute. reflexivity. Qed.
(* the same through the theorems *)
Example late_emit_thm : exists ar st, run_builder 7 late_prog = Ok ar /\
  emit_body cx0 (S (size late_tree)) ar 0 0 = Ok st /\
  out st = [WBlock BT_Empty; WLoop BT_Empty; WBr 0; WBr 1; WBr 2; WEnd; WEnd; WEnd].
Proof.
  destruct (builder2_emit 7 late_prog late_tree cx0
              (map (fun w => (default_loc, w)) [WBlock BT_Empty; WLoop BT_Empty; WBr 0; WBr 1; WBr 2; WEnd; WEnd; WEnd]) 0
              late_tree_of2) as (ar & st & R & E & O & _).
  - vm_compute. reflexivity.
  - exists ar, st. auto.
Qed.

(* an if/else assembled from two dangling sequences, the consequent being the younger one,
   inserted by position in front of what the current sequence already holds *)
Definition late_prog2 : list bop :=
  [ BDangling tyE [BInstr (IBr 0)]; BDangling tyE [BInstr (IBr 2)]; BInstr (IBr 0); BInstrAt 0 (IIfElse 2 1) ].
Example late2_tree : tree_of2 0 late_prog2 =
  Some (T 0 (ST_Multi 0)
          [(ItI (T 2 tyE [(ItBr 2, default_loc)] default_loc) (T 1 tyE [(ItBr 0, default_loc)] default_loc), default_loc);
           (ItBr 0, default_loc)] default_loc).
Proof. vm_compute. reflexivity. Qed.

(* programs that are NOT well attached: attached twice; inside itself; before its creation;
   never; an enclosing (open) sequence or the function entry *)
Example twice_not : well_attached [BDangling tyE []; BInstr (IBlock 1); BInstr (IBlock 1)] = false.
Proof. reflexivity. Qed.
Example inside_itself_not : well_attached [BDangling tyE [BInstr (IBlock 1)]] = false.
Proof. reflexivity. Qed.
Example before_creation_not : well_attached [BInstr (IBlock 1); BDangling tyE []] = false.
Proof. reflexivity. Qed.
Example never_not : well_attached [BDangling tyE []] = false.
Proof. reflexivity. Qed.
Example enclosing_not : well_attached [BBlock tyE [BInstr (ILoop 1)]] = false.
Proof. reflexivity. Qed.
Example entry_not : well_attached [BBlock tyE [BInstr (ILoop 0)]] = false.
Proof. reflexivity. Qed.
Example same_twice_in_ifelse_not : well_attached [BDangling tyE []; BInstr (IIfElse 1 1)] = false.
Proof. reflexivity. Qed.

(* the machine itself polices none of this: it runs all of these programs without panic.
   Attached inside itself, the arena is cyclic and the traversal does not terminate (fuel runs out
   whatever the fuel); attached twice, the arena is a DAG and the sequence is emitted twice *)
Example inside_itself_runs :
  rbind (run_builder 0 [BDangling tyE [BInstr (IBlock 1)]; BInstr (IBlock 1)])
        (fun ar => rmap out (emit_body cx0 1000 ar 0 0)) = OutOfFuel.
Proof. vm_compute. reflexivity. Qed.
Example twice_runs :
  rbind (run_builder 0 [BDangling tyE []; BInstr (IBlock 1); BInstr (IBlock 1)])
        (fun ar => rmap out (emit_body cx0 1000 ar 0 0)) = Ok [WBlock BT_Empty; WEnd; WBlock BT_Empty; WEnd; WEnd].
Proof. vm_compute. reflexivity. Qed.
Example never_runs : run_builder 0 [BDangling tyE []] = Ok [empty_seq (ST_Multi 0); empty_seq tyE].
Proof. vm_compute. reflexivity. Qed.

Print Assumptions builder2_den.
Print Assumptions builder2_den_wa.
Print Assumptions builder2_emit.
Print Assumptions ids_ops2.
Print Assumptions bspec2_conservative.
Print Assumptions tree_of2_conservative.
Print Assumptions late_well_attached.
Print Assumptions late_emit.
Print Assumptions late_emit_thm.
