(* C01, END TO END, part 2: discharging premises of [sem_roundtrip_end_to_end] (Proofs/SemModEnd.v).
   1. WF: [flat_list] is injective up to the final `end` ([flat_list_inj]); the bodies of m are well formed ([end_WF]);
   2. LOCALS: the missing link ([log_has_live_locals]: the traversal log reports the id of every local index of the LIVE body), the slot map
      [lslot_end] = function by function the inverse of the local renumbering, [end_LOCALS] (first half + frames_agree), under the executable
      premise [ModFix40.locals_in_range w] - which is NEEDED ([ExBad]: without it the behaviours differ for EVERY local slot map);
   3. OPS: decodability from the stream ([wfl_ops_dec], [end_OPS_dec]);
   4. [sem_roundtrip_end_to_end_2]; 5. its instance on [ExEnd] ([ExEnd2.ex_end_to_end]);
   7. bonus: the ranges of the function / global / type indices follow from the success of emitM ([end_OPS_ranges]):
      [sem_roundtrip_end_to_end_3], instance [ExEnd3.ex_end_to_end_3]. *)
From Coq Require Import List NArith ZArith Bool Arith Lia Permutation.
Import ListNotations.
From WV Require Import Gen.Ops Model.Common Model.IR Model.Arena Model.Traversal Model.EmitFn Model.Locals
                       Model.ParseFn Model.ParseSpec Model.BodySpec Model.ModuleM Model.ParseM Model.EmitM Gen.Attrs
                       Model.Sem Model.SemCore Model.SemMod Model.SemModOf.
From WV Require Import Proofs.Arena Proofs.IndexMaps Proofs.Structure Proofs.Structure2 Proofs.Renumbering
                       Proofs.ParseTotal Proofs.TotalityBodies Proofs.ModFix Proofs.ModFix12 Proofs.ModFix15.
From WV Require Import Proofs.ParseFn Proofs.Sem Proofs.SemCore Proofs.SemMod Proofs.SemModEnd.
From WV Require Proofs.Names Proofs.Order Proofs.Locals3 Proofs.Sigs2 Proofs.Totality Proofs.ModFix10 Proofs.ModFix11 Proofs.ModFix17 Proofs.ModFix18 Proofs.ModFix40
                Proofs.ModFix41 Proofs.ModFixEx Proofs.Body Proofs.Traversal.
Local Open Scope nat_scope.

(* ================================================================== 1. WF: [flat_list] is injective up to the terminator *)
Definition is_term (w : wins) : bool := match w with WEnd | WElse => true | _ => false end.

Lemma flat_head t : exists w loc r, flat t = (w, loc) :: r /\ is_term w = false.
Proof.
  destruct t as [o l|l|d l|d l|ds d l|bt body l e|bt body l e|bt th [[le eb]|] l e]; cbn [flat];
    eexists; eexists; eexists; (split; [reflexivity|reflexivity]).
Qed.

(* the per-tree statement: a flattening followed by anything determines the tree and the rest *)
Definition InjT (t : rt) : Prop := forall t2 r1 r2, flat t ++ r1 = flat t2 ++ r2 -> t = t2 /\ r1 = r2.
Definition InjL (l : list rt) : Prop := forall l2 x1 r1 x2 r2, is_term (fst x1) = true -> is_term (fst x2) = true ->
  flat_list l ++ x1 :: r1 = flat_list l2 ++ x2 :: r2 -> l = l2 /\ x1 = x2 /\ r1 = r2.

Lemma InjL_of_Forall l : Forall InjT l -> InjL l.
Proof.
  induction 1 as [|t l Ht _ IH]; intros l2 x1 r1 x2 r2 H1 H2 E.
  - destruct l2 as [|t2 l2].
    + cbn [flat_list flat_map app] in E. injection E as -> ->. repeat split.
    + exfalso. unfold flat_list in E. cbn [flat_map app] in E. destruct (flat_head t2) as (w & loc & r & Ef & Hw).
      rewrite Ef in E. cbn [app] in E. injection E as E _. subst x1. cbn [fst] in H1. congruence.
  - destruct l2 as [|t2 l2].
    + exfalso. unfold flat_list in E. cbn [flat_map app] in E. destruct (flat_head t) as (w & loc & r & Ef & Hw).
      rewrite Ef in E. cbn [app] in E. injection E as E _. subst x2. cbn [fst] in H2. congruence.
    + unfold flat_list in E. cbn [flat_map] in E. rewrite <- !app_assoc in E.
      destruct (Ht _ _ _ E) as [-> E']. destruct (IH _ _ _ _ _ H1 H2 E') as (-> & -> & ->). repeat split.
Qed.

Lemma InjT_all : forall t, InjT t.
Proof.
  induction t as [o l|l|d l|d l|ds d l|bt body l e HF|bt body l e HF|bt th el l e HFt HFe] using rt_ind';
    intros t2 r1 r2 E.
  - destruct t2 as [o2 l2|l2|d2 l2|d2 l2|ds2 d2 l2|bt2 b2 l2 e2|bt2 b2 l2 e2|bt2 th2 [[le2 eb2]|] l2 e2];
      cbn [flat app] in E; try discriminate E. injection E as -> -> ->. split; reflexivity.
  - destruct t2 as [o2 l2|l2|d2 l2|d2 l2|ds2 d2 l2|bt2 b2 l2 e2|bt2 b2 l2 e2|bt2 th2 [[le2 eb2]|] l2 e2];
      cbn [flat app] in E; try discriminate E. injection E as -> ->. split; reflexivity.
  - destruct t2 as [o2 l2|l2|d2 l2|d2 l2|ds2 d2 l2|bt2 b2 l2 e2|bt2 b2 l2 e2|bt2 th2 [[le2 eb2]|] l2 e2];
      cbn [flat app] in E; try discriminate E. injection E as -> -> ->. split; reflexivity.
  - destruct t2 as [o2 l2|l2|d2 l2|d2 l2|ds2 d2 l2|bt2 b2 l2 e2|bt2 b2 l2 e2|bt2 th2 [[le2 eb2]|] l2 e2];
      cbn [flat app] in E; try discriminate E. injection E as -> -> ->. split; reflexivity.
  - destruct t2 as [o2 l2|l2|d2 l2|d2 l2|ds2 d2 l2|bt2 b2 l2 e2|bt2 b2 l2 e2|bt2 th2 [[le2 eb2]|] l2 e2];
      cbn [flat app] in E; try discriminate E. injection E as -> -> -> ->. split; reflexivity.
  - destruct t2 as [o2 l2|l2|d2 l2|d2 l2|ds2 d2 l2|bt2 b2 l2 e2|bt2 b2 l2 e2|bt2 th2 [[le2 eb2]|] l2 e2];
      cbn [flat app] in E; try discriminate E. injection E as -> -> E. rewrite <- !app_assoc in E. cbn [app] in E.
    destruct (InjL_of_Forall _ HF b2 (WEnd, e) r1 (WEnd, e2) r2 eq_refl eq_refl E) as (-> & Ee & ->).
    injection Ee as ->. split; reflexivity.
  - destruct t2 as [o2 l2|l2|d2 l2|d2 l2|ds2 d2 l2|bt2 b2 l2 e2|bt2 b2 l2 e2|bt2 th2 [[le2 eb2]|] l2 e2];
      cbn [flat app] in E; try discriminate E. injection E as -> -> E. rewrite <- !app_assoc in E. cbn [app] in E.
    destruct (InjL_of_Forall _ HF b2 (WEnd, e) r1 (WEnd, e2) r2 eq_refl eq_refl E) as (-> & Ee & ->).
    injection Ee as ->. split; reflexivity.
  - destruct t2 as [o2 l2|l2|d2 l2|d2 l2|ds2 d2 l2|bt2 b2 l2 e2|bt2 b2 l2 e2|bt2 th2 el2 l2 e2];
      try (destruct el as [[le eb]|]; cbn [flat app] in E; discriminate E).
    destruct el as [[le eb]|], el2 as [[le2 eb2]|]; cbn [flat app] in E; injection E as -> -> E;
      rewrite <- ?app_assoc in E; cbn [app] in E.
    + destruct (InjL_of_Forall _ HFt th2 (WElse, le) _ (WElse, le2) _ eq_refl eq_refl E) as (-> & Ee & E').
      injection Ee as ->. rewrite <- ?app_assoc in E'. cbn [app] in E'. cbn [optP snd] in HFe.
      destruct (InjL_of_Forall _ HFe eb2 (WEnd, e) _ (WEnd, e2) _ eq_refl eq_refl E') as (-> & Ee & ->).
      injection Ee as ->. split; reflexivity.
    + destruct (InjL_of_Forall _ HFt th2 (WElse, le) _ (WEnd, e2) _ eq_refl eq_refl E) as (_ & Ee & _). discriminate Ee.
    + destruct (InjL_of_Forall _ HFt th2 (WEnd, e) _ (WElse, le2) _ eq_refl eq_refl E) as (_ & Ee & _). discriminate Ee.
    + destruct (InjL_of_Forall _ HFt th2 (WEnd, e) _ (WEnd, e2) _ eq_refl eq_refl E) as (-> & Ee & ->).
      injection Ee as ->. split; reflexivity.
Qed.

Theorem flat_list_inj l1 l2 e1 e2 : flat_list l1 ++ [(WEnd, e1)] = flat_list l2 ++ [(WEnd, e2)] -> l1 = l2 /\ e1 = e2.
Proof.
  intros E. assert (I : InjL l1) by (apply InjL_of_Forall, Forall_forall; intros t _; apply InjT_all).
  destruct (I l2 (WEnd, e1) [] (WEnd, e2) [] eq_refl eq_refl E) as (-> & Ee & _). injection Ee as ->. split; reflexivity.
Qed.

(* WF, from the stream *)
Theorem end_wf_from_stream cf ver w s m : valid_stream w -> parseM cf ver w = POk s -> stream_has_cmod w m ->
  forall i d fid, nth_error (cm_funcs m) i = Some d ->
    wfl (cx_of s fid) 1 (fd_body d) /\ swfl (length (ii_types (ps_ids s))) 1 (fd_body d).
Proof.
  intros V HP HM i d fid Hd. destruct HM as (_ & _ & _ & F2 & _).
  destruct (Forall2_nth_l _ _ _ _ _ F2 Hd) as (b & Hb & (_ & eloc & Eops)).
  destruct (valid_bodies_structured _ _ _ _ b fid V HP (nth_error_In _ _ Hb)) as (l & eloc' & Eops' & Hsw & Hw).
  rewrite Eops in Eops'. apply flat_list_inj in Eops'. destruct Eops' as [<- _]. split; [exact Hw|exact Hsw].
Qed.
Theorem end_WF cf ver w s m : valid_stream w -> parseM cf ver w = POk s -> stream_has_cmod w m ->
  forall i d, nth_error (cm_funcs m) i = Some d -> wfl (cx_of s (N.of_nat i)) 1 (fd_body d).
Proof. intros V HP HM i d Hd. apply (end_wf_from_stream cf ver w s m V HP HM i d (N.of_nat i) Hd). Qed.

(* ================================================================== 3. OPS: decodability from the stream *)
Lemma ops_live_incl_t : forall t o, In o (ops_of (fst (nf_rt false t))) -> In o (ops_of_t t).
Proof.
  assert (HL : forall l, Forall (fun t => forall o, In o (ops_of (fst (nf_rt false t))) -> In o (ops_of_t t)) l ->
             forall u o, In o (ops_of (fst (nf_rt_list u l))) -> In o (ops_of l)).
  { induction 1 as [|t l Ht _ IH]; intros u o Ho; [destruct u; exact Ho|].
    rewrite nf_rt_list_cons in Ho. cbn [fst] in Ho. rewrite ops_of_app in Ho. cbn [ops_of]. apply in_or_app.
    apply in_app_or in Ho. destruct Ho as [Ho|Ho].
    - left. destruct u; [rewrite nf_rt_dead in Ho; destruct Ho|apply Ht, Ho].
    - right. eapply IH, Ho. }
  induction t as [o l|l|d l|d l|ds d l|bt body l e HF|bt body l e HF|bt th el l e HFt HFe] using rt_ind'; intros o' Ho.
  - cbn [nf_rt fst ops_of ops_of_t app] in Ho. exact Ho.
  - destruct Ho.
  - destruct Ho.
  - destruct Ho.
  - destruct Ho.
  - rewrite nf_rt_block in Ho. cbn [fst keepr ops_of] in Ho. rewrite app_nil_r, ops_of_block in Ho. rewrite ops_of_block.
    eapply HL; eauto.
  - rewrite nf_rt_loop in Ho. cbn [fst keepr ops_of] in Ho. rewrite app_nil_r, ops_of_loop in Ho. rewrite ops_of_loop.
    eapply HL; eauto.
  - destruct el as [[le eb]|].
    + rewrite nf_rt_if_some in Ho. cbn [fst keepr ops_of] in Ho. rewrite app_nil_r, ops_of_if_some in Ho. rewrite ops_of_if_some.
      apply in_or_app. apply in_app_or in Ho. cbn [optP snd] in HFe. destruct Ho as [Ho|Ho]; [left|right]; eapply HL; eauto.
    + rewrite nf_rt_if_none in Ho. cbn [fst keepr ops_of] in Ho. rewrite app_nil_r, ops_of_if_some in Ho. rewrite ops_of_if_none.
      apply in_app_or in Ho. destruct Ho as [Ho|[]]. eapply HL; eauto.
Qed.

Lemma ops_live_incl l o : In o (ops_of (live l)) -> In o (ops_of l).
Proof.
  unfold live. revert o. generalize false. induction l as [|t l IH]; intros u o Ho; [destruct u; exact Ho|].
  rewrite nf_rt_list_cons in Ho. cbn [fst] in Ho. rewrite ops_of_app in Ho. cbn [ops_of]. apply in_or_app.
  apply in_app_or in Ho. destruct Ho as [Ho|Ho].
  - left. destruct u; [rewrite nf_rt_dead in Ho; destruct Ho|apply ops_live_incl_t, Ho].
  - right. eapply IH, Ho.
Qed.

(* every operator of a stream-valid body decodes in every context *)
Lemma swf_ops_dec nt : forall t k, swf nt k t -> forall o, In o (ops_of_t t) -> forall f, decode_plain f o <> None.
Proof.
  assert (HL : forall l, Forall (fun t => forall k, swf nt k t -> forall o, In o (ops_of_t t) -> forall f, decode_plain f o <> None) l ->
             forall k, swfl nt k l -> forall o, In o (ops_of l) -> forall f, decode_plain f o <> None).
  { induction 1 as [|t l Ht _ IH]; intros k Hs o Ho; [destruct Ho|].
    cbn [swfl] in Hs. destruct Hs as [Hs1 Hs2]. cbn [ops_of] in Ho. apply in_app_or in Ho. destruct Ho as [Ho|Ho].
    - eapply Ht; eauto.
    - eapply IH; eauto. }
  induction t as [o l|l|d l|d l|ds d l|bt body l e HF|bt body l e HF|bt th el l e HFt HFe] using rt_ind'; intros k Hs o' Ho.
  - cbn [ops_of_t] in Ho. destruct Ho as [<-|[]]. exact Hs.
  - destruct Ho.
  - destruct Ho.
  - destruct Ho.
  - destruct Ho.
  - rewrite swf_block in Hs. rewrite ops_of_block in Ho. destruct Hs as [_ Hs]. exact (HL _ HF _ Hs _ Ho).
  - rewrite swf_loop in Hs. rewrite ops_of_loop in Ho. destruct Hs as [_ Hs]. exact (HL _ HF _ Hs _ Ho).
  - rewrite swf_if in Hs. destruct Hs as (_ & Hs1 & Hs2). destruct el as [[le eb]|].
    + rewrite ops_of_if_some in Ho. cbn [optP snd] in HFe. apply in_app_or in Ho. destruct Ho as [Ho|Ho]; [exact (HL _ HFt _ Hs1 _ Ho)|exact (HL _ HFe _ Hs2 _ Ho)].
    + rewrite ops_of_if_none in Ho. exact (HL _ HFt _ Hs1 _ Ho).
Qed.
Lemma swfl_ops_dec nt l k : swfl nt k l -> forall o, In o (ops_of l) -> forall f, decode_plain f o <> None.
Proof.
  revert k. induction l as [|t l IH]; intros k Hs o Ho; [destruct Ho|].
  cbn [swfl] in Hs. destruct Hs as [Hs1 Hs2]. cbn [ops_of] in Ho. apply in_app_or in Ho. destruct Ho as [Ho|Ho].
  - eapply swf_ops_dec; eauto.
  - eapply IH; eauto.
Qed.
(* the projection of [wfl]: decodable in the parse context *)
Lemma wf_ops_dec cx : forall t k, wf cx k t -> forall o, In o (ops_of_t t) -> decode_plain (px_i2id cx) o <> None.
Proof.
  assert (HL : forall l, Forall (fun t => forall k, wf cx k t -> forall o, In o (ops_of_t t) -> decode_plain (px_i2id cx) o <> None) l ->
             forall k, wfl cx k l -> forall o, In o (ops_of l) -> decode_plain (px_i2id cx) o <> None).
  { induction 1 as [|t l Ht _ IH]; intros k Hs o Ho; [destruct Ho|].
    cbn [wfl] in Hs. destruct Hs as [Hs1 Hs2]. cbn [ops_of] in Ho. apply in_app_or in Ho. destruct Ho as [Ho|Ho].
    - eapply Ht; eauto.
    - eapply IH; eauto. }
  induction t as [o l|l|d l|d l|ds d l|bt body l e HF|bt body l e HF|bt th el l e HFt HFe] using rt_ind'; intros k Hs o' Ho.
  - cbn [ops_of_t] in Ho. destruct Ho as [<-|[]]. exact Hs.
  - destruct Ho.
  - destruct Ho.
  - destruct Ho.
  - destruct Ho.
  - rewrite wf_block in Hs. rewrite ops_of_block in Ho. destruct Hs as [_ Hs]. exact (HL _ HF _ Hs _ Ho).
  - rewrite wf_loop in Hs. rewrite ops_of_loop in Ho. destruct Hs as [_ Hs]. exact (HL _ HF _ Hs _ Ho).
  - rewrite wf_if in Hs. destruct Hs as (_ & Hs1 & Hs2). destruct el as [[le eb]|].
    + rewrite ops_of_if_some in Ho. cbn [optP snd] in HFe. apply in_app_or in Ho. destruct Ho as [Ho|Ho]; [exact (HL _ HFt _ Hs1 _ Ho)|exact (HL _ HFe _ Hs2 _ Ho)].
    + rewrite ops_of_if_none in Ho. exact (HL _ HFt _ Hs1 _ Ho).
Qed.
Theorem wfl_ops_dec cx l k : wfl cx k l -> forall o, In o (ops_of l) -> decode_plain (px_i2id cx) o <> None.
Proof.
  revert k. induction l as [|t l IH]; intros k Hs o Ho; [destruct Ho|].
  cbn [wfl] in Hs. destruct Hs as [Hs1 Hs2]. cbn [ops_of] in Ho. apply in_app_or in Ho. destruct Ho as [Ho|Ho].
  - eapply wf_ops_dec; eauto.
  - eapply IH; eauto.
Qed.

(* OPS, the decodability part, from the stream: every operator of every body (dead code included) decodes in EVERY context *)
Theorem end_OPS_dec cf ver w s m : valid_stream w -> parseM cf ver w = POk s -> stream_has_cmod w m ->
  forall i d o, nth_error (cm_funcs m) i = Some d -> In o (ops_of (live (fd_body d))) -> forall f, decode_plain f o <> None.
Proof.
  intros V HP HM i d o Hd Ho. destruct (end_wf_from_stream cf ver w s m V HP HM i d 0%N Hd) as [_ Hs].
  apply (swfl_ops_dec _ _ _ Hs o). apply ops_live_incl, Ho.
Qed.

(* ================================================================== 2. LOCALS *)
(* ---- 2.1 THE MISSING LINK: the log of the in-order traversal of the parsed body reports the parse-time id of every local index the
   LIVE part of the body mentions (via [trip_locals] of Proofs/ModFix10.v at the identity emit context) *)
Lemma local_op_cases o j : local_index_of o = Some j -> o = W_LocalGet j \/ o = W_LocalSet j \/ o = W_LocalTee j.
Proof. destruct o; cbn [local_index_of]; intros H; try discriminate H; injection H as ->; auto. Qed.

Lemma used_op' {A} (f : wop -> option A) l i :
  In i (flat_map (fun o => match f o with Some i => [i] | None => [] end) (ops_of l)) -> exists o, In o (ops_of l) /\ f o = Some i.
Proof.
  intros H. apply in_flat_map in H. destruct H as (o & Ho & Hi). exists o. split; [exact Ho|].
  destruct (f o) as [i'|]; [destruct Hi as [->|[]]; reflexivity|destruct Hi].
Qed.

Lemma ops_in_flat' cx ecx : forall t o, In o (ops_of_t t) -> exists loc, In (nf_op cx ecx o, loc) (flat' cx ecx t).
Proof.
  assert (HL : forall l, Forall (fun t => forall o, In o (ops_of_t t) -> exists loc, In (nf_op cx ecx o, loc) (flat' cx ecx t)) l ->
             forall o, In o (ops_of l) -> exists loc, In (nf_op cx ecx o, loc) (flat_map (flat' cx ecx) l)).
  { induction 1 as [|t l Ht _ IH]; intros o Ho; [destruct Ho|].
    cbn [ops_of] in Ho. cbn [flat_map]. apply in_app_or in Ho. destruct Ho as [Ho|Ho].
    - destruct (Ht _ Ho) as [loc H]. exists loc. apply in_or_app. left. exact H.
    - destruct (IH _ Ho) as [loc H]. exists loc. apply in_or_app. right. exact H. }
  induction t as [o l|l|d l|d l|ds d l|bt body l e HF|bt body l e HF|bt th el l e HFt HFe] using rt_ind'; intros o' Ho.
  - cbn [ops_of_t] in Ho. destruct Ho as [<-|[]]. exists l. left. reflexivity.
  - destruct Ho.
  - destruct Ho.
  - destruct Ho.
  - destruct Ho.
  - rewrite ops_of_block in Ho. destruct (HL _ HF _ Ho) as [loc H]. exists loc. cbn [flat']. right. apply in_or_app. left. exact H.
  - rewrite ops_of_loop in Ho. destruct (HL _ HF _ Ho) as [loc H]. exists loc. cbn [flat']. right. apply in_or_app. left. exact H.
  - destruct el as [[le eb]|].
    + rewrite ops_of_if_some in Ho. cbn [optP snd] in HFe. apply in_app_or in Ho. destruct Ho as [Ho|Ho].
      * destruct (HL _ HFt _ Ho) as [loc H]. exists loc. cbn [flat']. right. apply in_or_app. left. exact H.
      * destruct (HL _ HFe _ Ho) as [loc H]. exists loc. cbn [flat']. right. apply in_or_app. right. right. apply in_or_app. left. exact H.
    + rewrite ops_of_if_none in Ho. destruct (HL _ HFt _ Ho) as [loc H]. exists loc. cbn [flat']. right. apply in_or_app. left. exact H.
Qed.
Lemma ops_in_flat_list' cx ecx l o : In o (ops_of l) -> exists loc, In (nf_op cx ecx o, loc) (flat_list' cx ecx l).
Proof.
  induction l as [|t l IH]; intros Ho; [destruct Ho|]. cbn [ops_of] in Ho. unfold flat_list'. cbn [flat_map].
  apply in_app_or in Ho. destruct Ho as [Ho|Ho].
  - destruct (ops_in_flat' cx ecx _ _ Ho) as [loc H]. exists loc. apply in_or_app. left. exact H.
  - destruct (IH Ho) as [loc H]. exists loc. apply in_or_app. right. exact H.
Qed.

Definition ecx_id : ectx := {| ex_id2i := fun _ id => id; ex_ilen := fun _ => 1%N |}.

Theorem log_has_live_locals cx lf ety rs l eloc evs :
  wfl cx 1 l -> parse_body cx ety rs (flat_list l ++ [(WEnd, eloc)]) = Ok (lf_arena lf) -> lf_entry lf = 0%N -> lf_log lf = Ok evs ->
  forall j, In j (locals_used (live l)) -> In (px_i2id cx S_local j) (used_of_log evs).
Proof.
  intros Hw Hpb Hen Hlog j Hj.
  pose proof Hpb as Ea. rewrite (WV.Proofs.ParseFn.parse_body_arena cx ety rs l eloc Hw) in Ea. injection Ea as Ea. symmetry in Ea.
  destruct (parsed_emit_body cx lf ety l eloc ecx_id Hw Ea Hen) as [st He]. rewrite Hen in He.
  unfold lf_log in Hlog. rewrite Hen in Hlog.
  destruct (WV.Proofs.ModFix10.trip_locals cx ecx_id ety rs l eloc 0%N (lf_arena lf) st (lf_fuel lf) (lf_fuel lf) evs
              Hw (WV.Proofs.ModFix10.enc_ok_all _ _) Hpb He Hlog) as [L _].
  cbn [ecx_id ex_id2i] in L. rewrite map_id in L. rewrite <- L.
  destruct (WV.Proofs.ModFix10.emitted_ops_structured cx ecx_id ety rs l eloc 0%N (lf_arena lf) st (lf_fuel lf)
              Hw (WV.Proofs.ModFix10.enc_ok_all _ _) Hpb He) as (eloc1 & _ & _ & Hm & _ & _ & _ & Hout).
  rewrite Hout, Hm.
  unfold locals_used in Hj. apply used_op' in Hj. destruct Hj as (o & Ho & Hi).
  destruct (ops_in_flat_list' cx ecx_id _ _ Ho) as [loc Hin]. fold (live l) in Hin |- *.
  unfold WV.Proofs.ModFix10.ops_sel. apply in_flat_map. exists (nf_op cx ecx_id o). split.
  - apply in_or_app. left. apply in_map_iff. exists (nf_op cx ecx_id o, loc). split; [reflexivity|exact Hin].
  - destruct (local_op_cases _ _ Hi) as [->|[->| ->]]; left; reflexivity.
Qed.

(* ---- 2.2 the slot map: THE INVERSE of the local renumbering of one function.  [vec] = the parse-time local vector of the function
   (local index -> id), [lmap] = its emit-time local map (id -> output index): output index q is the slot of the input local index j
   whose id has output index q; an output index no input index reaches is its own slot *)
Definition inv_pred (lmap : list (N * N)) (vec : list N) (q : N) (j : N) : bool :=
  match local_index lmap (nth (N.to_nat j) vec 4294967295%N) with Some q' => (q' =? q)%N | None => false end.
Definition lslot_inv (lmap : list (N * N)) (vec : list N) (q : N) : N :=
  match find (inv_pred lmap vec q) (iota (length vec)) with Some j => j | None => q end.

Lemma alookup_numbered_inj (lslot : N -> N) : forall vs base q v, nth_error vs q = Some v ->
  (forall q2, q2 < length vs -> lslot (base + N.of_nat q2)%N = lslot (base + N.of_nat q)%N -> q2 = q) ->
  alookup (lslot (base + N.of_nat q)%N) (map (fun p => (lslot (fst p), snd p)) (WV.Model.SemMod.numbered base vs)) = Some v.
Proof.
  induction vs as [|x vs IH]; intros base q v Hq Hinj; [destruct q; discriminate Hq|].
  cbn [WV.Model.SemMod.numbered map alookup fst snd]. destruct q as [|q].
  - cbn [nth_error] in Hq. injection Hq as ->. cbn [N.of_nat]. rewrite N.add_0_r, N.eqb_refl. reflexivity.
  - cbn [nth_error] in Hq. destruct (N.eqb_spec (lslot (base + N.of_nat (S q))%N) (lslot base)) as [E|_].
    + exfalso. assert (H0 : 0 = S q); [|discriminate H0]. apply Hinj; [cbn [length]; lia|].
      cbn [N.of_nat]. rewrite N.add_0_r. symmetry. exact E.
    + replace (base + N.of_nat (S q))%N with (base + 1 + N.of_nat q)%N by lia. apply IH; [exact Hq|].
      intros q2 Hq2 E. assert (H0 : S q2 = S q); [|injection H0 as H0; exact H0]. apply Hinj; [cbn [length]; lia|].
      replace (base + N.of_nat (S q2))%N with (base + 1 + N.of_nat q2)%N by lia.
      replace (base + N.of_nat (S q))%N with (base + 1 + N.of_nat q)%N by lia. exact E.
Qed.

Section LocalsAbs.
  Variables (base np nl : nat) (ty : N -> valty) (used : list N) (decls : list (N * valty)) (lmap : list (N * N))
            (ps ls : list valty).
  Let args := map N.of_nat (seq base np).
  Let vec := map N.of_nat (seq base (np + nl)).
  Hypothesis EL : emit_locals ty args used = (decls, lmap).
  Hypothesis UV : forall id, In id used -> In id vec.
  Hypothesis TY : map ty vec = ps ++ ls.
  Hypothesis NP : length ps = np.
  Let ls' := expand_locals decls.
  Let inv := lslot_inv lmap vec.
  Let n' := np + length ls'.

  Lemma abs_nl : length ls = nl.
  Proof.
    assert (H : length (map ty vec) = length (ps ++ ls)) by (rewrite TY; reflexivity).
    unfold vec in H. rewrite !map_length, seq_length, app_length in H. lia.
  Qed.
  Lemma abs_vec_len : length vec = np + nl. Proof. unfold vec. rewrite map_length, seq_length. reflexivity. Qed.
  Lemma abs_vec_nth j : j < np + nl -> nth_error vec j = Some (N.of_nat (base + j)).
  Proof. intros Hj. unfold vec. rewrite nth_error_map, nth_error_nth' with (d := 0) by (rewrite seq_length; exact Hj). rewrite seq_nth by exact Hj. reflexivity. Qed.
  Lemma abs_vec_nth_d j d : j < np + nl -> nth j vec d = N.of_nat (base + j).
  Proof. intros Hj. apply nth_error_nth. apply abs_vec_nth, Hj. Qed.
  Lemma abs_args_nth j : j < np -> nth_error args j = Some (N.of_nat (base + j)).
  Proof. intros Hj. unfold args. rewrite nth_error_map, nth_error_nth' with (d := 0) by (rewrite seq_length; exact Hj). rewrite seq_nth by exact Hj. reflexivity. Qed.
  Lemma abs_args_ND : NoDup args.
  Proof. apply WV.Proofs.Order.StronglySorted_lt_NoDup, WV.Proofs.ModFix11.seq_ids_sorted. Qed.
  Lemma abs_in_vec id : In id vec -> exists j, j < np + nl /\ id = N.of_nat (base + j).
  Proof.
    intros H. apply WV.Proofs.ModFix11.in_seq_ids in H. destruct H as (k & -> & Hk). exists (k - base). split; [lia|]. f_equal. lia.
  Qed.
  Lemma abs_args_vec id : In id args -> In id vec.
  Proof.
    intros H. apply WV.Proofs.ModFix11.in_seq_ids in H. destruct H as (k & -> & Hk). apply WV.Proofs.ModFix11.in_seq_ids.
    exists k. split; [reflexivity|lia].
  Qed.

  Let RC := WV.Proofs.Locals3.locals_renaming_consistent ty args used decls lmap abs_args_ND EL.

  Lemma abs_n' : length (map ty args ++ WV.Proofs.Locals3.expand decls) = n'.
  Proof. unfold n', ls', args. rewrite app_length. rewrite map_length. rewrite map_length. rewrite seq_length. reflexivity. Qed.

  (* the inverse, on the index of an id the map knows *)
  Lemma abs_inv_hit j q : j < np + nl -> local_index lmap (N.of_nat (base + j)) = Some q -> inv q = N.of_nat j.
  Proof.
    intros Hj Hq. destruct RC as (_ & _ & R3 & _). unfold inv, lslot_inv.
    destruct (find (inv_pred lmap vec q) (iota (length vec))) as [j0|] eqn:Ef.
    - apply find_some in Ef. destruct Ef as [Hin Hp]. unfold iota in Hin. apply in_map_iff in Hin. destruct Hin as (k & <- & Hk).
      apply in_seq in Hk. rewrite abs_vec_len in Hk. unfold inv_pred in Hp. rewrite Nat2N.id, abs_vec_nth_d in Hp by lia.
      destruct (local_index lmap (N.of_nat (base + k))) as [q'|] eqn:E; [|discriminate Hp]. apply N.eqb_eq in Hp. subst q'.
      pose proof (R3 _ _ _ E Hq) as H. f_equal. lia.
    - exfalso. assert (Hin : In (N.of_nat j) (iota (length vec))).
      { unfold iota. apply in_map, in_seq. rewrite abs_vec_len. lia. }
      pose proof (find_none _ _ Ef _ Hin) as Hp. unfold inv_pred in Hp. rewrite Nat2N.id, abs_vec_nth_d, Hq, N.eqb_refl in Hp by exact Hj.
      discriminate Hp.
  Qed.

  (* every output index below n' is hit *)
  Lemma abs_onto q : (q < N.of_nat n')%N -> exists j, j < np + nl /\ local_index lmap (N.of_nat (base + j)) = Some q.
  Proof.
    intros Hq. destruct RC as (_ & _ & _ & R4 & _). rewrite abs_n' in R4. destruct (R4 q Hq) as (l & Hl & Hlq).
    assert (Hv : In l vec) by (destruct Hl as [Hl|Hl]; [apply abs_args_vec, Hl|apply UV, Hl]).
    destruct (abs_in_vec _ Hv) as (j & Hj & ->). exists j. split; [exact Hj|exact Hlq].
  Qed.
  Lemma abs_inv_inj q1 q2 : (q1 < N.of_nat n')%N -> (q2 < N.of_nat n')%N -> inv q1 = inv q2 -> q1 = q2.
  Proof.
    intros H1 H2 E. destruct (abs_onto q1 H1) as (j1 & Hj1 & L1). destruct (abs_onto q2 H2) as (j2 & Hj2 & L2).
    rewrite (abs_inv_hit _ _ Hj1 L1), (abs_inv_hit _ _ Hj2 L2) in E. apply Nat2N.inj in E. subst j2. congruence.
  Qed.

  (* a local index in range whose id is used (or a parameter) *)
  Lemma abs_known j : j < np + nl -> (j < np \/ In (N.of_nat (base + j)) used) ->
    exists q, local_index lmap (N.of_nat (base + j)) = Some q /\ (q < N.of_nat n')%N /\ inv q = N.of_nat j.
  Proof.
    intros Hj Hu. destruct RC as (R1 & _). rewrite abs_n' in R1. destruct (R1 (N.of_nat (base + j))) as (q & Hq & Hlt).
    { destruct Hu as [Hu|Hu]; [left; eapply nth_error_In, abs_args_nth, Hu|right; exact Hu]. }
    exists q. split; [exact Hq|]. split; [exact Hlt|]. apply (abs_inv_hit _ _ Hj Hq).
  Qed.

  (* THE FRAMES *)
  Lemma abs_frames argv U : all_ty ps argv = true ->
    (forall k, In k U -> N.to_nat k < np + nl /\ (N.to_nat k < np \/ In (N.of_nat (base + N.to_nat k)) used)) ->
    agree U (mk_frame inv argv ls') (mk_frame idN argv ls).
  Proof.
    intros Ha HU k Hk. destruct (HU k Hk) as [Hr Hu]. set (j := N.to_nat k) in *.
    destruct (abs_known j Hr Hu) as (q & Hq & Hlt & Hinv). unfold j in Hinv at 1. rewrite N2Nat.id in Hinv.
    pose proof (all_ty_length _ _ Ha) as La. rewrite NP in La.
    pose proof abs_nl as Lnl.
    (* the input frame *)
    assert (Hin : exists v, nth_error (argv ++ map zero_val ls) j = Some v).
    { destruct (nth_error (argv ++ map zero_val ls) j) eqn:E; [eauto|]. apply nth_error_None in E. rewrite app_length, map_length in E. lia. }
    destruct Hin as [v Hv].
    assert (R : alookup k (mk_frame idN argv ls) = Some v).
    { unfold mk_frame. pose proof (alookup_numbered_inj idN (argv ++ map zero_val ls) 0%N j v Hv) as A.
      replace k with (idN (0 + N.of_nat j))%N at 1 by (unfold idN, j; lia). apply A.
      intros q2 _ E. unfold idN in E. lia. }
    rewrite R.
    (* the output frame *)
    assert (Hv' : nth_error (argv ++ map zero_val ls') (N.to_nat q) = Some v).
    { destruct RC as (_ & _ & R3 & _ & R5 & R6).
      destruct (Nat.lt_ge_cases j np) as [Hjn|Hjn].
      - pose proof (R5 _ _ (abs_args_nth j Hjn)) as H5. unfold WV.Proofs.Locals3.lookup in H5. rewrite Hq in H5. injection H5 as ->.
        rewrite Nat2N.id. rewrite nth_error_app1 in Hv |- * by lia. exact Hv.
      - assert (Hqn : np <= N.to_nat q).
        { destruct (Nat.lt_ge_cases (N.to_nat q) np) as [C|C]; [|exact C]. exfalso.
          pose proof (R5 _ _ (abs_args_nth _ C)) as H5. rewrite N2Nat.id in H5.
          pose proof (R3 _ _ _ H5 Hq) as E. apply Nat2N.inj in E. lia. }
        rewrite nth_error_app2 in Hv |- * by lia. rewrite La in *. rewrite nth_error_map in Hv |- *.
        pose proof (R6 _ _ Hq) as H6. rewrite nth_error_app2 in H6 by (unfold args; rewrite !map_length, seq_length; exact Hqn).
        unfold args in H6. rewrite !map_length, seq_length, <- WV.Proofs.ModFix11.expand_locals_eq in H6. fold ls' in H6. rewrite H6.
        assert (Ht : nth_error (ps ++ ls) j = Some (ty (N.of_nat (base + j)))).
        { rewrite <- TY, nth_error_map, (abs_vec_nth j Hr). reflexivity. }
        rewrite nth_error_app2 in Ht by lia. rewrite NP in Ht. rewrite Ht in Hv. exact Hv. }
    unfold mk_frame. pose proof (alookup_numbered_inj inv (argv ++ map zero_val ls') 0%N (N.to_nat q) v Hv') as A.
    rewrite <- Hinv at 1. replace q with (0 + N.of_nat (N.to_nat q))%N at 1 by lia. apply A.
    intros q2 Hq2 E. rewrite !N.add_0_l, N2Nat.id in E. rewrite app_length, map_length, La in Hq2. fold n' in Hq2.
    assert (E2 : N.of_nat q2 = q) by (apply abs_inv_inj; [lia|exact Hlt|exact E]). subst q. rewrite Nat2N.id. reflexivity.
  Qed.
End LocalsAbs.

(* ---- 2.3 THE SLOT MAP of the output module: function by function, the inverse of the local renumbering *)
Definition lslot_end (s : pst) (e : emitted) (i q : N) : N :=
  lslot_inv (lmap_at e i) (WV.Proofs.Names.locals_vec (ps_ids s) i) q.

Lemma ops_in_flat : forall t o, In o (ops_of_t t) -> exists loc, In (WOp o, loc) (flat t).
Proof.
  assert (HL : forall l, Forall (fun t => forall o, In o (ops_of_t t) -> exists loc, In (WOp o, loc) (flat t)) l ->
             forall o, In o (ops_of l) -> exists loc, In (WOp o, loc) (flat_map flat l)).
  { induction 1 as [|t l Ht _ IH]; intros o Ho; [destruct Ho|].
    cbn [ops_of] in Ho. cbn [flat_map]. apply in_app_or in Ho. destruct Ho as [Ho|Ho].
    - destruct (Ht _ Ho) as [loc H]. exists loc. apply in_or_app. left. exact H.
    - destruct (IH _ Ho) as [loc H]. exists loc. apply in_or_app. right. exact H. }
  induction t as [o l|l|d l|d l|ds d l|bt body l e HF|bt body l e HF|bt th el l e HFt HFe] using rt_ind'; intros o' Ho.
  - cbn [ops_of_t] in Ho. destruct Ho as [<-|[]]. exists l. left. reflexivity.
  - destruct Ho.
  - destruct Ho.
  - destruct Ho.
  - destruct Ho.
  - rewrite ops_of_block in Ho. destruct (HL _ HF _ Ho) as [loc H]. exists loc. cbn [flat]. right. apply in_or_app. left. exact H.
  - rewrite ops_of_loop in Ho. destruct (HL _ HF _ Ho) as [loc H]. exists loc. cbn [flat]. right. apply in_or_app. left. exact H.
  - destruct el as [[le eb]|].
    + rewrite ops_of_if_some in Ho. cbn [optP snd] in HFe. apply in_app_or in Ho. destruct Ho as [Ho|Ho].
      * destruct (HL _ HFt _ Ho) as [loc H]. exists loc. cbn [flat]. right. apply in_or_app. left. exact H.
      * destruct (HL _ HFe _ Ho) as [loc H]. exists loc. cbn [flat]. right. apply in_or_app. right. right. apply in_or_app. left. exact H.
    + rewrite ops_of_if_none in Ho. destruct (HL _ HFt _ Ho) as [loc H]. exists loc. cbn [flat]. right. apply in_or_app. left. exact H.
Qed.
Lemma ops_in_flat_list l o : In o (ops_of l) -> exists loc, In (WOp o, loc) (flat_list l).
Proof.
  induction l as [|t l IH]; intros Ho; [destruct Ho|]. cbn [ops_of] in Ho. unfold flat_list. cbn [flat_map].
  apply in_app_or in Ho. destruct Ho as [Ho|Ho].
  - destruct (ops_in_flat _ _ Ho) as [loc H]. exists loc. apply in_or_app. left. exact H.
  - destruct (IH Ho) as [loc H]. exists loc. apply in_or_app. right. exact H.
Qed.

Section LocalsEnd.
  Variables (cf : config) (ver : str) (w : wmod) (s : pst) (ilen : wins -> N) (e : emitted) (m : cmod).
  Hypothesis V : valid_stream w.
  Hypothesis HP : parseM cf ver w = POk s.
  Hypothesis HE : emitM (ps_m s) ilen [] = Ok e.
  Hypothesis HM : stream_has_cmod w m.
  (* the validator's guarantee the model's [valid_stream] does not carry for LOCAL indices: every local index an operator mentions is
     below (parameters + declared locals); executable (Proofs/ModFix40.v) *)
  Hypothesis LR : WV.Proofs.ModFix40.locals_in_range w.

  Let WFm := end_WF cf ver w s m V HP HM.

  Lemma fn_internals i ti ls body : nth_error (cm_funcs m) i = Some (ti, ls, body) ->
    exists b eloc f lf t ety ef evs decls lmap base,
      nth_error (flat_map code_of w) i = Some b /\
      wb_ops b = flat_list body ++ [(WEnd, eloc)] /\
      ls = expand_locals (wb_locals b) /\
      aget (m_funcs (ps_m s)) (N.of_nat i) = Some f /\ fn_kind f = FK_Local lf /\
      types_get (ps_m s) (lf_ty lf) = Some t /\
      lf_entry lf = 0%N /\
      parse_body (cx_of s (N.of_nat i)) ety (ty_results t) (wb_ops b) = Ok (lf_arena lf) /\
      lf_args lf = map N.of_nat (seq base (length (ty_params t))) /\
      WV.Proofs.Names.locals_vec (ps_ids s) (N.of_nat i) = map N.of_nat (seq base (length (ty_params t) + length ls)) /\
      nth_error (em_fns e) (N.to_nat (rf_of (em_x2i e) (N.of_nat i))) = Some ef /\
      lf_log lf = Ok evs /\
      emit_locals (local_ty_fn (ps_m s)) (lf_args lf) (used_of_log evs) = (decls, lmap) /\
      refs_ok (em_x2i e) lmap evs = true /\
      wb_locals (ef_body ef) = decls /\ ef_lmap ef = lmap.
  Proof.
    intros Hd. pose proof (NI _ _ HM) as HNI. pose proof (LEN _ _ HM) as HLEN.
    destruct (hm_parts _ _ HM) as (_ & _ & _ & F2 & _).
    destruct (Forall2_nth_l _ _ _ _ _ F2 Hd) as (b & Hb & (Hls & eloc & Eops)). cbn [fd_locals fd_body fst snd] in Hls, Eops.
    destruct (parsed_function_body _ _ _ _ _ _ HP Hb) as (fid & f & lf & t & ety & Hfid & Hg & Hk & Ht & Hety & Hen & Hpb & base & Hargs & Hlv).
    assert (Hkl : i < length (flat_map code_of w)) by (apply nth_error_Some; congruence).
    assert (Efid : fid = N.of_nat i).
    { apply N2Nat.inj. rewrite Hfid, (n_funcs _ _ _ _ HP HNI), HLEN, Nat2N.id. lia. }
    subst fid.
    destruct (WV.Proofs.Sigs2.parsed_funcs_all_emitted _ _ _ _ _ _ _ HP HE i) as (j & Hj & Hjn).
    { rewrite (no_imports_sec_ftys _ HNI), HLEN. exact Hkl. }
    pose proof (parsed_no_imports _ _ _ _ _ _ HP HE HNI) as LI.
    destruct (funcs_map_no_imports _ _ _ HE LI) as (fs & Hfs & Xf).
    destruct (emit_code_payload _ _ _ _ HE Hfs) as (Hco & F & Hids & Hlen).
    pose proof Hj as Hj'. unfold get_idx in Hj'. cbn [space_map] in Hj'. rewrite Xf in Hj'. apply lookup_number in Hj'.
    rewrite nth_error_map in Hj'. destruct (nth_error fs (N.to_nat j)) as [[pid plf]|] eqn:Hp; [|discriminate Hj'].
    cbn [option_map fst] in Hj'. injection Hj' as ->.
    assert (Hlf : plf = lf).
    { destruct (ulf_in _ _ _ _ Hfs (nth_error_In _ _ Hp)) as (f0 & Hin & Hkf). apply WV.Proofs.Totality.aiter_aget in Hin. congruence. }
    subst plf.
    destruct (Forall2_nth_l _ _ _ _ _ F Hp) as (ef & Hef & Hemit). cbn [fst snd] in Hemit.
    destruct (emit_function_inv _ _ _ _ _ _ Hemit) as (evs & decls & lmap & st & A1 & A2 & A3 & A4 & A5 & A6 & A7 & _).
    assert (Erf : rf_of (em_x2i e) (N.of_nat i) = j) by (unfold rf_of; rewrite Hj; reflexivity).
    rewrite <- Hls in Hlv. exists b, eloc, f, lf, t, ety, ef, evs, decls, lmap, base. rewrite Erf.
    repeat (split; [assumption|]). split; [rewrite A5; reflexivity|exact A7].
  Qed.

  Lemma code_index i b k' : nth_error (flat_map code_of w) i = Some b ->
    N.to_nat (N.of_nat i) = length (ii_funcs (ps_ids s)) - length (flat_map code_of w) + k' -> k' = i.
  Proof.
    intros Hb H. pose proof (NI _ _ HM) as HNI. pose proof (LEN _ _ HM) as HLEN.
    rewrite (n_funcs _ _ _ _ HP HNI), HLEN, Nat2N.id in H. lia.
  Qed.

  Lemma fn_types i ti ls body b f lf t ps rs :
    nth_error (cm_funcs m) i = Some (ti, ls, body) -> nth_error (flat_map code_of w) i = Some b -> ls = expand_locals (wb_locals b) ->
    aget (m_funcs (ps_m s)) (N.of_nat i) = Some f -> fn_kind f = FK_Local lf -> types_get (ps_m s) (lf_ty lf) = Some t ->
    nth_optN ti (cm_tys m) = Some (ps, rs) ->
    ty_params t = ps /\
    map (local_ty_fn (ps_m s)) (WV.Proofs.Names.locals_vec (ps_ids s) (N.of_nat i)) = ps ++ ls.
  Proof.
    intros Hd Hb Hls Hg Hk Ht Hty. pose proof (NI _ _ HM) as HNI.
    destruct (hm_parts _ _ HM) as (_ & TY & FT & _ & _).
    assert (Hps : ty_params t = ps).
    { destruct (parseM_sigs _ _ _ _ HP) as [[_ HT] HF]. unfold FInv in HF. rewrite (no_imports_sec_ftys _ HNI) in HF.
      assert (Hti : nth_error (flat_map funcs_of w) i = Some ti) by (rewrite <- FT, nth_error_map, Hd; reflexivity).
      destruct (Forall2_nth_l _ _ _ _ _ HF Hti) as (c & Hc & Hn).
      pose proof (WV.Proofs.Names.aget_nth _ _ _ Hg) as Hnf. rewrite Nat2N.id in Hnf.
      unfold K_fty in Hc. rewrite nth_error_map, Hnf in Hc. cbn [option_map] in Hc. injection Hc as <-.
      rewrite fcore_ty in Hn. unfold func_ty in Hn. rewrite Hk in Hn.
      rewrite TY, nth_optN_nth_error in Hty. destruct (HT _ _ Hty) as (id & ty0 & Hi1 & Hi2 & (Sp & _)).
      unfold nth_N in Hn. rewrite Hi1 in Hn. injection Hn as ->.
      rewrite (WV.Proofs.ModFix18.pk_types_get _ _ _ _ _ HP), Hi2 in Ht. injection Ht as <-. exact Sp. }
    split; [exact Hps|].
    destruct (local_function_locals _ _ _ _ _ _ _ HP Hg Hk) as (k' & b' & t' & Hb' & Hfid' & Ht' & _ & Htys & _ & _).
    pose proof (code_index i b k' Hb Hfid') as ->. rewrite Hb in Hb'. injection Hb' as <-.
    rewrite Ht in Ht'. injection Ht' as <-. rewrite Htys, Hps, Hls. reflexivity.
  Qed.

  Lemma fn_range i ti ls body ps rs : nth_error (cm_funcs m) i = Some (ti, ls, body) -> nth_optN ti (cm_tys m) = Some (ps, rs) ->
    forall j, In j (locals_used (live body)) -> N.to_nat j < length ps + length ls.
  Proof.
    intros Hd Hty j Hj. destruct (hm_parts _ _ HM) as (_ & TY & FT & F2 & _).
    destruct (Forall2_nth_l _ _ _ _ _ F2 Hd) as (b & Hb & (Hls & eloc & Eops)). cbn [fd_locals fd_body fst snd] in Hls, Eops.
    assert (Hti : nth_error (flat_map funcs_of w) i = Some ti) by (rewrite <- FT, nth_error_map, Hd; reflexivity).
    unfold locals_used in Hj. apply used_op' in Hj. destruct Hj as (o & Ho & Hi).
    apply ops_live_incl in Ho. destruct (ops_in_flat_list _ _ Ho) as [loc Hin].
    assert (Hob : In (WOp o, loc) (wb_ops b)) by (rewrite Eops; apply in_or_app; left; exact Hin).
    pose proof LR as L. unfold WV.Proofs.ModFix40.locals_in_range, WV.Proofs.ModFix40.locals_in_range_b in L. rewrite forallb_forall in L.
    specialize (L (ti, b) (nth_error_In _ _ (nth_error_combine _ _ _ _ _ Hti Hb))). cbn [fst snd] in L.
    rewrite TY, nth_optN_nth_error in Hty. rewrite Hty in L. cbn [fst] in L.
    unfold WV.Proofs.ModFix40.body_locals_in_range in L. rewrite forallb_forall in L. specialize (L _ Hob). cbn [fst] in L.
    unfold WV.Proofs.ModFix40.op_locals_below in L. rewrite forallb_forall in L.
    assert (Hr : In (S_local, j) (wop_refs o)) by (destruct (local_op_cases _ _ Hi) as [->|[->| ->]]; left; reflexivity).
    specialize (L _ Hr). cbn [fst snd] in L. apply Nat.ltb_lt in L. rewrite <- Hls in L. exact L.
  Qed.

  (* LOCALS: the slot map [lslot_end] undoes the local renumbering of every function on the locals its live part mentions, and the
     frames agree *)
  Theorem end_LOCALS : forall i ti ls body ti' ls' b', nth_error (cm_funcs m) i = Some (ti, ls, body) ->
    nth_optN (rf_of (em_x2i e) (N.of_nat i)) (cm_funcs (out_cmod s e ilen m)) = Some (ti', ls', b') ->
    (forall j, In j (locals_used (live body)) ->
       lslot_end s e (N.of_nat i) (rl (cx_of s (N.of_nat i)) (ecxo_of e ilen (N.of_nat i)) j) = j) /\
    frames_agree (env_of m (fun _ => idN) idN idN idN idN)
                 (env_of (out_cmod s e ilen m) (lslot_end s e) (fslot_of (em_x2i e)) idN idN idN) (N.of_nat i) ti ls ls' body.
  Proof.
    intros i ti ls body ti' ls' b' Hd Hd'.
    destruct (fn_internals i ti ls body Hd)
      as (b & eloc & f & lf & t & ety & ef & evs & decls & lmap & base & Hb & Eops & Hls & Hg & Hk & Ht & Hen & Hpb & Hargs & Hlv & Hef & A1 & A2 & _ & A5 & A7).
    destruct (out_fn_at cf ver w s ilen e m HP HE HM WFm i _ Hd) as (tj & ef2 & Hef2 & _ & _ & HLm & Hout).
    rewrite Hef in Hef2. injection Hef2 as <-. rewrite Hd' in Hout. injection Hout as -> -> _. rewrite A5. rewrite A7 in HLm.
    (* the type of the function *)
    pose proof (NI _ _ HM) as HNI. destruct (hm_parts _ _ HM) as (_ & TY & FT & _ & _).
    assert (Hti : nth_error (flat_map funcs_of w) i = Some ti) by (rewrite <- FT, nth_error_map, Hd; reflexivity).
    destruct (end_function_signature _ _ _ _ _ _ HP HE HNI i ti Hti) as (_ & _ & _ & Hne). rewrite <- TY in Hne.
    destruct (nth_optN ti (cm_tys m)) as [[ps rs]|] eqn:Ety; [clear Hne|now elim Hne].
    destruct (fn_types i ti ls body b f lf t ps rs Hd Hb Hls Hg Hk Ht Ety) as [Hps TYV].
    rewrite Hps in Hargs, Hlv. rewrite Hlv in TYV. rewrite Hargs in A2.
    set (np := length ps) in *. set (nl := length ls) in *.
    set (vec := map N.of_nat (seq base (np + nl))) in *.
    (* used ids are ids of the function *)
    assert (UV : forall id, In id (used_of_log evs) -> In id vec).
    { intros id Hid. rewrite <- Hlv.
      apply (WV.Proofs.ModFix41.locals_in_range_bridge _ _ _ _ HP V LR (N.of_nat i) f lf evs id Hg Hk A1).
      apply WV.Proofs.ModFix17.used_of_log_in, Hid. }
    (* the missing link *)
    rewrite Eops in Hpb.
    pose proof (log_has_live_locals (cx_of s (N.of_nat i)) lf ety (ty_results t) body eloc evs (WFm i _ Hd) Hpb Hen A1) as HB.
    pose proof (fn_range i ti ls body ps rs Hd Ety) as HR. fold np nl in HR.
    assert (HB' : forall j, In j (locals_used (live body)) -> In (N.of_nat (base + N.to_nat j)) (used_of_log evs)).
    { intros j Hj. specialize (HB j Hj). cbn [cx_of px_i2id] in HB. rewrite WV.Proofs.ModFix17.i2id_local, Hlv in HB.
      rewrite (WV.Proofs.ModFix17.nth_seq_ids base (np + nl) (N.to_nat j) _ (HR j Hj)) in HB. exact HB. }
    split.
    - intros j Hj.
      destruct (abs_known base np nl (local_ty_fn (ps_m s)) (used_of_log evs) decls lmap ps A2 eq_refl (N.to_nat j) (HR j Hj)
                  (or_intror (HB' j Hj))) as (q & Hq & _ & Hinv).
      assert (Erl : rl (cx_of s (N.of_nat i)) (ecxo_of e ilen (N.of_nat i)) j = q).
      { unfold rl, ecxo_of. cbn [cx_of ecx_of px_i2id ex_id2i]. rewrite HLm, WV.Proofs.ModFix17.i2id_local, Hlv.
        rewrite (WV.Proofs.ModFix17.nth_seq_ids base (np + nl) (N.to_nat j) _ (HR j Hj)).
        apply (WV.Proofs.ModFix17.id2i_local _ _ _ _ Hq). }
      rewrite Erl. unfold lslot_end. rewrite HLm, Hlv. etransitivity; [exact Hinv|apply N2Nat.id].
    - intros ps0 rs0 args Hty0 Hargs0. cbn [env_of me_tys me_lslot] in *. rewrite Ety in Hty0. injection Hty0 as <- <-.
      assert (EU : map idN (locals_used (live body)) = locals_used (live body)) by (unfold idN; apply map_id).
      rewrite EU. unfold lslot_end. rewrite HLm, Hlv.
      apply (abs_frames base np nl (local_ty_fn (ps_m s)) (used_of_log evs) decls lmap ps ls A2 UV TYV eq_refl args _ Hargs0).
      intros k Hk0. split; [exact (HR k Hk0)|right; exact (HB' k Hk0)].
  Qed.
End LocalsEnd.

(* ================================================================== 4. THE THEOREM, with the discharged premises removed *)
(* what is STILL asked of the operators of the live part of a body:
   - [offset_ok]: memory offsets below 2^32 (the recorded finding: walrus keeps the offset mod 2^32);
   - the index immediates of global.get/set, memory instructions, call, call_indirect are in range: the validator's guarantee; the
     model's [valid_stream] has NO clause about the index immediates of body operators ([body_valid] = well-bracketed + [swf]: branch
     depths, decodability, block-type indices only) *)
Definition op_ok_end2 (s : pst) (o : wop) : Prop :=
  offset_ok o = true /\
  (forall i, global_index_of o = Some i -> N.to_nat i < n_in s S_global) /\
  (forall i, memory_index_of o = Some i -> N.to_nat i < n_in s S_memory) /\
  (forall f, o = W_Call f -> N.to_nat f < n_in s S_func) /\
  (forall ti tb, o = W_CallIndirect ti tb -> N.to_nat ti < n_in s S_type /\ N.to_nat tb < n_in s S_table).

Theorem sem_roundtrip_end_to_end_2 :
  forall (cf : config) (ver : str) (w : wmod) (s : pst) (ilen : wins -> N) (e : emitted) (m : cmod),
    valid_stream w -> parseM cf ver w = POk s -> emitM (ps_m s) ilen [] = Ok e -> stream_has_cmod w m ->
    WV.Proofs.ModFix40.locals_in_range w ->
    (N.of_nat (length (types_list (ps_m s))) <= 4294967295)%N ->
    (forall i d o, nth_error (cm_funcs m) i = Some d -> In o (ops_of (live (fd_body d))) -> op_ok_end2 s o) ->
    exists (m' : cmod) (rf : N -> N),
      m' = out_cmod s e ilen m /\ rf = rf_of (em_x2i e) /\
      stream_has_cmod_ops (em_secs e) m' /\
      (forall i, N.to_nat i < length (cm_funcs m) -> N.to_nat (rf i) < length (cm_funcs m)) /\
      (forall i i', N.to_nat i < length (cm_funcs m) -> N.to_nat i' < length (cm_funcs m) -> rf i = rf i' -> i = i') /\
      (forall j, N.to_nat j < length (cm_funcs m) -> exists i, N.to_nat i < length (cm_funcs m) /\ rf i = j) /\
      (forall i, fslot_of (em_x2i e) (rf i) = i) /\
      cm_table m' = map (option_map rf) (cm_table m) /\
      (forall i ti ls body, nth_error (cm_funcs m) i = Some (ti, ls, body) ->
         exists ti' ls', nth_optN (rf (N.of_nat i)) (cm_funcs m') =
                           Some (ti', ls', out_body (cx_of s (N.of_nat i)) (ecxo_of e ilen (N.of_nat i)) body) /\
                         nth_optN ti' (cm_tys m') = nth_optN ti (cm_tys m)) /\
      (* the local slot map: function by function the inverse of the local renumbering; it undoes it on the locals the live part of
         the body mentions *)
      (forall i ti ls body j, nth_error (cm_funcs m) i = Some (ti, ls, body) -> In j (locals_used (live body)) ->
         lslot_end s e (N.of_nat i) (rl (cx_of s (N.of_nat i)) (ecxo_of e ilen (N.of_nat i)) j) = j) /\
      (* and the behaviour: input module on identity slot maps, output module on the slot maps read off the emit-time maps *)
      let E := env_of m (fun _ => idN) idN idN idN idN in
      let E' := env_of m' (lslot_end s e) (fslot_of (em_x2i e)) idN idN idN in
      forall k fuel f args s0, run_mod E' k fuel f args s0 = run_mod E k fuel f args s0.
Proof.
  intros cf ver w s ilen e m V HP HE HM LR SMALL OPS.
  assert (OPS' : forall i d o, nth_error (cm_funcs m) i = Some d -> In o (ops_of (live (fd_body d))) -> op_ok_end s o).
  { intros i d o Hd Ho. destruct (OPS i d o Hd Ho) as (O1 & O2 & O3 & O4 & O5).
    split; [exact O1|]. split; [exact (end_OPS_dec cf ver w s m V HP HM i d o Hd Ho)|]. repeat (split; [assumption|]). exact O5. }
  destruct (sem_roundtrip_end_to_end cf ver w s ilen e m V HP HE HM SMALL (end_WF cf ver w s m V HP HM) OPS')
    as (m' & rf & -> & -> & H1 & H2 & H3 & H4 & H5 & H6 & H7 & H8).
  exists (out_cmod s e ilen m), (rf_of (em_x2i e)).
  split; [reflexivity|]. split; [reflexivity|]. repeat (split; [assumption|]).
  split.
  - intros i ti ls body j Hd Hj. destruct (H7 i ti ls body Hd) as (ti' & ls' & Hout & _).
    exact (proj1 (end_LOCALS cf ver w s ilen e m V HP HE HM LR i ti ls body _ _ _ Hd Hout) j Hj).
  - intros E E'. apply (H8 (lslot_end s e)).
    intros i ti ls body ti' ls' b' Hd Hd'. exact (end_LOCALS cf ver w s ilen e m V HP HE HM LR i ti ls body ti' ls' b' Hd Hd').
Qed.

(* ================================================================== 5. NON-VACUITY: the theorem on the worked example of Proofs/SemModEnd.v *)
Module ExEnd2.
  Import ExEnd.
  Definition s0 : pst := match trip with Some (s, _) => s | None => pst_init default_config end.
  Definition e0 : emitted :=
    match trip with Some (_, e) => e | None => {| em_secs := []; em_module := empty_wir default_config; em_x2i := empty_x2i; em_fns := [] |} end.

  Lemma ex_parse : parseM default_config [49%N] w0 = POk s0.
  Proof. vm_compute. reflexivity. Qed.
  Lemma ex_emit : emitM (ps_m s0) il [] = Ok e0.
  Proof. vm_compute. reflexivity. Qed.

  Example ex_valid : valid_stream w0.
  Proof.
    unfold valid_stream, w0. cbn [valid_from]. unfold valid_sec.
    repeat match goal with |- _ /\ _ => split end;
      try (vm_compute; reflexivity); try exact I.
    cbn [cstep cstep0 set_last c_nt fold_left cimp wi_kind rank ctx0 length Nat.add].
    repeat constructor; (eexists; eexists; split; [reflexivity|]);
      cbn [swfl swf inc_b apply_b twice_b P sbt_ok]; repeat split; try (cbn; lia); try (intros f H; vm_compute in H; discriminate H).
  Qed.
  Example ex_locals_in_range : WV.Proofs.ModFix40.locals_in_range w0.
  Proof. vm_compute. reflexivity. Qed.
  Example ex_small : (N.of_nat (length (types_list (ps_m s0))) <= 4294967295)%N.
  Proof. vm_compute. discriminate. Qed.

  Ltac op_ok_tac :=
    split; [vm_compute; reflexivity|];
    split; [intros i0 H; vm_compute in H; discriminate H|];
    split; [intros i0 H; vm_compute in H; discriminate H|];
    split; [intros f0 H; first [discriminate H | injection H as <-; apply Nat.ltb_lt; vm_compute; reflexivity]|];
    intros ti0 tb0 H; first [discriminate H | injection H as <- <-; split; apply Nat.ltb_lt; vm_compute; reflexivity].

  Example ex_ops : forall i d o, nth_error (cm_funcs m0) i = Some d -> In o (ops_of (live (fd_body d))) -> op_ok_end2 s0 o.
  Proof.
    intros i d o Hd Ho. destruct i as [|[|[|i]]]; cbn [m0 cm_funcs nth_error] in Hd; try (destruct i; discriminate Hd);
      injection Hd as <-; vm_compute in Ho;
      repeat (destruct Ho as [<-|Ho]; [op_ok_tac|]); destruct Ho.
  Qed.

  (* the slot map of the theorem is the one written by hand in Proofs/SemModEnd.v (output local 2 of `apply` is input local 3) *)
  Example ex_lslot : map (fun p => lslot_end s0 e0 (fst p) (snd p)) [(1, 0); (1, 1); (1, 2); (1, 7); (0, 0); (2, 0)]%N = [0; 1; 3; 7; 0; 0]%N.
  Proof. vm_compute. reflexivity. Qed.

  (* EVERY premise of the theorem holds for the example; its conclusion about behaviour *)
  Theorem ex_end_to_end :
    let E := env_of m0 (fun _ => idN) idN idN idN idN in
    let E' := env_of (out_cmod s0 e0 il m0) (lslot_end s0 e0) (fslot_of (em_x2i e0)) idN idN idN in
    forall k fuel f args st, run_mod E' k fuel f args st = run_mod E k fuel f args st.
  Proof.
    destruct (sem_roundtrip_end_to_end_2 default_config [49%N] w0 s0 il e0 m0 ex_valid ex_parse ex_emit in_relation
                ex_locals_in_range ex_small ex_ops) as (m' & rf & -> & -> & _ & _ & _ & _ & _ & _ & _ & _ & H).
    exact H.
  Qed.
End ExEnd2.

(* ================================================================== 6. THE PREMISE ON LOCAL INDICES IS NEEDED *)
(* [valid_stream] says nothing about the LOCAL indices of body operators.  On the stream of Proofs/ModFixEx.v [wP] (one function without
   parameters or locals whose body is `local.get 0`) the parser resolves the index to the sentinel id 2^32 - 1, the emitter declares
   a phantom i32 local for it: the input function goes wrong, the output function returns.  So neither LOCALS nor the behavioural
   conclusion follow from [valid_stream] alone, whatever the local slot map of the output is. *)
Module ExBad.
  Definition wB : wmod := WV.Proofs.ModFixEx.wP.
  Definition ilB : wins -> N := fun _ => 1%N.
  Definition mB : cmod := {| cm_tys := [([], [])]; cm_funcs := [(0%N, [], [RPlain (W_LocalGet 0%N) 1%N])]; cm_table := [] |}.
  Definition tripB : option (pst * emitted) :=
    match parseM default_config [49%N] wB with
    | POk s => match emitM (ps_m s) ilB [] with Ok e => Some (s, e) | _ => None end
    | _ => None end.
  Definition sB : pst := match tripB with Some (s, _) => s | None => pst_init default_config end.
  Definition eB : emitted :=
    match tripB with Some (_, e) => e | None => {| em_secs := []; em_module := empty_wir default_config; em_x2i := empty_x2i; em_fns := [] |} end.
  Lemma bad_parse : parseM default_config [49%N] wB = POk sB.
  Proof. lazy. reflexivity. Qed.
  Lemma bad_emit : emitM (ps_m sB) ilB [] = Ok eB.
  Proof. lazy. reflexivity. Qed.
  Lemma bad_relation : stream_has_cmod wB mB.
  Proof.
    split; [reflexivity|]. split; [reflexivity|]. split; [reflexivity|]. split; [|reflexivity].
    cbn. constructor; [|constructor]. split; [reflexivity|eexists; reflexivity].
  Qed.
  Definition stB : st := {| stk := []; locs := []; globs := []; labs := []; mem := []; pages := 0; max_pages := 0 |}.
  Lemma bad_in : run_mod (env_of mB (fun _ => idN) idN idN idN idN) 1 0 0%N [] stB = Some (Stop Wrong stB).
  Proof. lazy. reflexivity. Qed.
  Lemma bad_out_cmod : out_cmod sB eB ilB mB = {| cm_tys := [([], [])]; cm_funcs := [(0%N, [VT_I32], [RPlain (W_LocalGet 0%N) 1%N])]; cm_table := [] |}.
  Proof. lazy. reflexivity. Qed.
  Lemma bad_not_in_range : ~ WV.Proofs.ModFix40.locals_in_range wB.
  Proof. exact WV.Proofs.ModFix40.wP_violates. Qed.
  Lemma bad_rf : nth_optN (rf_of (em_x2i eB) (N.of_nat 0)) (cm_funcs (out_cmod sB eB ilB mB)) = Some (0%N, [VT_I32], [RPlain (W_LocalGet 0%N) 1%N]).
  Proof. lazy. reflexivity. Qed.
  Lemma bad_rl : rl (cx_of sB (N.of_nat 0)) (ecxo_of eB ilB (N.of_nat 0)) 0%N = 0%N.
  Proof. lazy. reflexivity. Qed.
  Lemma bad_used : In 0%N (locals_used (live [RPlain (W_LocalGet 0%N) 1%N])).
  Proof. lazy. left. reflexivity. Qed.

  Theorem end_LOCALS_refuted_without_range :
    exists cf ver w s ilen e m,
      valid_stream w /\ parseM cf ver w = POk s /\ emitM (ps_m s) ilen [] = Ok e /\ stream_has_cmod w m /\
      (~ WV.Proofs.ModFix40.locals_in_range w) /\
      forall lslot' : N -> N -> N,
        ~ (forall i ti ls body ti' ls' b', nth_error (cm_funcs m) i = Some (ti, ls, body) ->
             nth_optN (rf_of (em_x2i e) (N.of_nat i)) (cm_funcs (out_cmod s e ilen m)) = Some (ti', ls', b') ->
             (forall j, In j (locals_used (live body)) ->
                lslot' (N.of_nat i) (rl (cx_of s (N.of_nat i)) (ecxo_of e ilen (N.of_nat i)) j) = j) /\
             frames_agree (env_of m (fun _ => idN) idN idN idN idN)
                          (env_of (out_cmod s e ilen m) lslot' (fslot_of (em_x2i e)) idN idN idN) (N.of_nat i) ti ls ls' body).
  Proof.
    exists default_config, [49%N], wB, sB, ilB, eB, mB.
    split; [exact WV.Proofs.ModFixEx.wP_valid|]. split; [exact bad_parse|]. split; [exact bad_emit|]. split; [exact bad_relation|].
    split; [exact bad_not_in_range|].
    intros lslot' H. destruct (H 0 0%N [] [RPlain (W_LocalGet 0%N) 1%N] 0%N [VT_I32] [RPlain (W_LocalGet 0%N) 1%N] eq_refl bad_rf) as [H1 H2].
    specialize (H1 0%N bad_used). rewrite bad_rl in H1.
    specialize (H2 [] [] [] eq_refl eq_refl 0%N). cbn [env_of me_lslot] in H2.
    assert (Hin : In 0%N (map idN (locals_used (live [RPlain (W_LocalGet 0%N) 1%N])))) by (lazy; left; reflexivity).
    specialize (H2 Hin). unfold mk_frame in H2. cbn [app map zero_val WV.Model.SemMod.numbered fst snd alookup] in H2.
    rewrite H1 in H2. cbn in H2. discriminate H2.
  Qed.
  Lemma bad_out lslot' : run_mod (env_of (out_cmod sB eB ilB mB) lslot' (fslot_of (em_x2i eB)) idN idN idN) 1 0 0%N [] stB = Some (Fall stB).
  Proof.
    rewrite bad_out_cmod. lazy. destruct (lslot' 0%N 0%N) as [|p].
    - reflexivity.
    - pose proof (Pos.eqb_refl p) as Hp. lazy in Hp. rewrite Hp. reflexivity.
  Qed.
  (* for EVERY local slot map of the output the two modules behave differently: the input goes wrong (no local 0), the output returns *)
  Theorem sem_roundtrip_refuted_without_range :
    exists cf ver w s ilen e m,
      valid_stream w /\ parseM cf ver w = POk s /\ emitM (ps_m s) ilen [] = Ok e /\ stream_has_cmod w m /\
      (~ WV.Proofs.ModFix40.locals_in_range w) /\
      (N.of_nat (length (types_list (ps_m s))) <= 4294967295)%N /\
      (forall i d o, nth_error (cm_funcs m) i = Some d -> In o (ops_of (live (fd_body d))) -> op_ok_end2 s o) /\
      forall lslot' : N -> N -> N, exists k fuel f args s0,
        run_mod (env_of (out_cmod s e ilen m) lslot' (fslot_of (em_x2i e)) idN idN idN) k fuel f args s0 <>
        run_mod (env_of m (fun _ => idN) idN idN idN idN) k fuel f args s0.
  Proof.
    exists default_config, [49%N], wB, sB, ilB, eB, mB.
    split; [exact WV.Proofs.ModFixEx.wP_valid|]. split; [exact bad_parse|]. split; [exact bad_emit|]. split; [exact bad_relation|].
    split; [exact bad_not_in_range|].
    split; [lazy; discriminate|].
    split.
    { intros i d o Hd Ho. destruct i as [|i]; cbn [mB cm_funcs nth_error] in Hd; [|destruct i; discriminate Hd].
      injection Hd as <-. lazy in Ho. destruct Ho as [<-|[]]. ExEnd2.op_ok_tac. }
    intros lslot'. exists 1, 0, 0%N, [], stB. rewrite bad_out, bad_in. discriminate.
  Qed.
End ExBad.

(* ================================================================== 7. BONUS: the index ranges follow from the success of emitM *)
Definition is_sp (S : space) (s : space) : bool :=
  match S, s with S_func, S_func | S_type, S_type | S_table, S_table | S_memory, S_memory | S_global, S_global => true | _, _ => false end.
Definition fgt_space (S : space) : Prop := S = S_func \/ S = S_type \/ S = S_global.
Lemma is_sp_true S sp : is_sp S sp = true -> sp = S.
Proof. destruct S, sp; intros H; try discriminate H; reflexivity. Qed.
Lemma is_sp_refl S : fgt_space S -> is_sp S S = true.
Proof. intros [->|[->| ->]]; reflexivity. Qed.

Ltac enc_sweep :=
  let H0 := fresh "H0" in
  intros id2i p w H0;
  destruct p; cbn [encode_plain] in H0;
  repeat match type of H0 with match ?x with _ => _ end = _ => destruct x end;
  try discriminate H0; injection H0 as <-; reflexivity.
Lemma encode_sel_func : forall id2i p w, encode_plain id2i p = Some w ->
  WV.Proofs.ModFix10.sel (is_sp S_func) (wop_refs w) = map (id2i S_func) (WV.Proofs.ModFix10.sel (is_sp S_func) (visited_refs p)).
Proof. enc_sweep. Qed.
Lemma encode_sel_type : forall id2i p w, encode_plain id2i p = Some w ->
  WV.Proofs.ModFix10.sel (is_sp S_type) (wop_refs w) = map (id2i S_type) (WV.Proofs.ModFix10.sel (is_sp S_type) (visited_refs p)).
Proof. enc_sweep. Qed.
Lemma encode_sel_global : forall id2i p w, encode_plain id2i p = Some w ->
  WV.Proofs.ModFix10.sel (is_sp S_global) (wop_refs w) = map (id2i S_global) (WV.Proofs.ModFix10.sel (is_sp S_global) (visited_refs p)).
Proof. enc_sweep. Qed.
Lemma encode_sel_sp S : fgt_space S -> forall id2i p w, encode_plain id2i p = Some w ->
  WV.Proofs.ModFix10.sel (is_sp S) (wop_refs w) = map (id2i S) (WV.Proofs.ModFix10.sel (is_sp S) (visited_refs p)).
Proof.
  intros [->|[->| ->]];
    [apply encode_sel_func|apply encode_sel_type|apply encode_sel_global].
Qed.

Lemma decode_refs_fwd i2id o p : decode_plain i2id o = Some p ->
  forall sp i, In (sp, i) (wop_refs o) -> In (sp, i2id sp i) (visited_refs p).
Proof.
  destruct o; cbn [decode_plain]; intros E;
    try (injection E as <-); try discriminate;
    try (match type of E with context [match ?h with _ => _ end] => destruct h; try discriminate; injection E as <- end);
    cbn [visited_refs wop_refs]; intros sp i H; cbn [In] in H |- *;
    repeat (destruct H as [H|H]; [injection H as <- <-; auto 6|]);
    try contradiction.
Qed.
Lemma mem_refs o i : memory_index_of o = Some i -> In (S_memory, i) (wop_refs o).
Proof.
  destruct o; cbn [memory_index_of memarg_of option_map wop_refs]; intros H; try discriminate H; injection H as <-; cbn [In]; auto.
Qed.
Lemma glob_refs o i : global_index_of o = Some i -> In (S_global, i) (wop_refs o).
Proof.
  destruct o; cbn [global_index_of wop_refs]; intros H; try discriminate H; injection H as <-; cbn [In]; auto.
Qed.

Lemma in_sel f sp x l : In (sp, x) l -> f sp = true -> In x (WV.Proofs.ModFix10.sel f l).
Proof.
  intros H Hf. unfold WV.Proofs.ModFix10.sel. apply in_map_iff. exists (sp, x). split; [reflexivity|].
  apply filter_In. split; [exact H|exact Hf].
Qed.
Lemma sel_in f x l : In x (WV.Proofs.ModFix10.sel f l) -> exists sp, In (sp, x) l /\ f sp = true.
Proof.
  unfold WV.Proofs.ModFix10.sel. intros H. apply in_map_iff in H. destruct H as ([sp y] & <- & H). apply filter_In in H.
  exists sp. exact H.
Qed.

(* the log reports the parse-time id of every index (of the fgt_space spaces) an operator of the LIVE part mentions *)
Theorem log_has_live_refs S cx lf ety rs l eloc evs : fgt_space S ->
  wfl cx 1 l -> parse_body cx ety rs (flat_list l ++ [(WEnd, eloc)]) = Ok (lf_arena lf) -> lf_entry lf = 0%N -> lf_log lf = Ok evs ->
  forall o i, In o (ops_of (live l)) -> In (S, i) (wop_refs o) -> In (ERef S (px_i2id cx S i)) evs.
Proof.
  intros HS Hw Hpb Hen Hlog o i Ho Hi.
  pose proof Hpb as Ea. rewrite (WV.Proofs.ParseFn.parse_body_arena cx ety rs l eloc Hw) in Ea. injection Ea as Ea. symmetry in Ea.
  destruct (parsed_emit_body cx lf ety l eloc ecx_id Hw Ea Hen) as [st He]. rewrite Hen in He.
  unfold lf_log in Hlog. rewrite Hen in Hlog.
  pose proof (WV.Proofs.ModFix10.enc_ok_all cx ecx_id) as Henc.
  (* the emitted indices of space S are the logged ids *)
  assert (L : WV.Proofs.ModFix10.ops_sel (is_sp S) (out st) =
              map (ex_id2i ecx_id S) (WV.Proofs.ModFix10.sel (is_sp S) (flat_map WV.Proofs.Traversal.pR evs))).
  { pose proof (WV.Proofs.ParseFn.parsed_arena_den cx ety l eloc Hw) as HD.
    pose proof (WV.Proofs.Body.flt_parsed_tree cx ecx_id ety l eloc Hw Henc) as Hf.
    rewrite Ea in He, Hlog. rewrite <- (WV.Proofs.Body.parsed_tree_tsid cx ety l eloc) in He, Hlog.
    exact (WV.Proofs.ModFix10.emitted_refs_sel ecx_id (is_sp S) S (encode_sel_sp S HS _) _ _ _ _ _ _ _ _ HD Hf Hlog He). }
  cbn [ecx_id ex_id2i] in L. rewrite map_id in L.
  assert (Hx : In (px_i2id cx S i) (WV.Proofs.ModFix10.sel (is_sp S) (flat_map WV.Proofs.Traversal.pR evs))).
  { rewrite <- L.
    destruct (WV.Proofs.ModFix10.emitted_ops_structured cx ecx_id ety rs l eloc 0%N (lf_arena lf) st (lf_fuel lf)
                Hw Henc Hpb He) as (eloc1 & _ & _ & Hm & _ & _ & _ & Hout).
    rewrite Hout, Hm. destruct (ops_in_flat_list' cx ecx_id _ _ Ho) as [loc Hin]. fold (live l) in Hin |- *.
    pose proof (wfl_ops_dec cx l 1 Hw o (ops_live_incl _ _ Ho)) as Hdec.
    destruct (decode_plain (px_i2id cx) o) as [p|] eqn:Ed; [|now elim Hdec].
    destruct (encode_plain (ex_id2i ecx_id) p) as [w|] eqn:Ee; [|now elim (WV.Proofs.SemCore.encode_total _ _ Ee)].
    assert (Enf : nf_op cx ecx_id o = WOp w) by (unfold nf_op, dec; rewrite Ed, Ee; reflexivity).
    unfold WV.Proofs.ModFix10.ops_sel. apply in_flat_map. exists (WOp w). split.
    - apply in_or_app. left. apply in_map_iff. exists (WOp w, loc). split; [reflexivity|]. rewrite <- Enf. exact Hin.
    - rewrite (encode_sel_sp S HS _ _ _ Ee). cbn [ecx_id ex_id2i]. rewrite map_id.
      apply (in_sel _ S); [|apply is_sp_refl, HS]. apply (decode_refs_fwd _ _ _ Ed), Hi. }
  apply sel_in in Hx. destruct Hx as (sp & Hin & Hsp). apply is_sp_true in Hsp. subst sp.
  apply in_flat_map in Hin. destruct Hin as (ev & Hev & Hp). destruct ev as [| | | |sp id| |]; cbn [WV.Proofs.Traversal.pR] in Hp; try contradiction.
  destruct Hp as [Hp|[]]. injection Hp as -> ->. exact Hev.
Qed.

Lemma refs_ok_in x lmap evs S id : S <> S_local -> refs_ok x lmap evs = true -> In (ERef S id) evs -> In id (map fst (space_map x S)).
Proof.
  intros HS H Hin. unfold refs_ok in H. rewrite forallb_forall in H. specialize (H _ Hin).
  assert (He : existsb (fun p => N.eqb (fst p) id) (space_map x S) = true) by (destruct S; try exact H; congruence).
  apply existsb_exists in He. destruct He as (p & Hp & E). apply N.eqb_eq in E. subst id. apply in_map, Hp.
Qed.
Lemma emitted_type_ids_small m id : In id (map fst (WV.Proofs.IndexMaps.emitted_types m)) -> N.to_nat id < length (types_list m).
Proof.
  intros H. apply in_map_iff in H. destruct H as ([id' ty] & <- & H). cbn [fst].
  unfold WV.Proofs.IndexMaps.emitted_types in H. eapply Permutation_in in H; [|apply WV.Proofs.Order.sort_types_perm].
  apply filter_In in H. destruct H as [H _]. apply (aiter_In_nth (Arena.arena (m_types m))) in H.
  unfold types_list. rewrite map_length. apply nth_error_Some. congruence.
Qed.

Section Ranges.
  Variables (cf : config) (ver : str) (w : wmod) (s : pst) (ilen : wins -> N) (e : emitted) (m : cmod).
  Hypothesis V : valid_stream w.
  Hypothesis HP : parseM cf ver w = POk s.
  Hypothesis HE : emitM (ps_m s) ilen [] = Ok e.
  Hypothesis HM : stream_has_cmod w m.
  (* the "no such index" marker 2^32 - 1 of the parse-time maps is not an id: fewer than 2^32 - 1 types / functions / globals *)
  Hypothesis SMALL : (N.of_nat (length (types_list (ps_m s))) <= 4294967295)%N.
  Hypothesis SMALLF : (N.of_nat (n_in s S_func) <= 4294967295)%N.
  Hypothesis SMALLG : (N.of_nat (n_in s S_global) <= 4294967295)%N.

  Lemma live_ref_emitted S i ti ls body o idx : fgt_space S -> nth_error (cm_funcs m) i = Some (ti, ls, body) ->
    In o (ops_of (live body)) -> In (S, idx) (wop_refs o) ->
    In (nth (N.to_nat idx) (ids_space (ps_ids s) S) 4294967295%N) (emitted_ids e S).
  Proof.
    intros HS Hd Ho Hr.
    destruct (fn_internals cf ver w s ilen e m HP HE HM i ti ls body Hd)
      as (b & eloc & f & lf & t & ety & ef & evs & decls & lmap & base & Hb & Eops & Hls & Hg & Hk & Ht & Hen & Hpb & Hargs & Hlv & Hef & A1 & A2 & A3 & A5 & A7).
    rewrite Eops in Hpb.
    pose proof (log_has_live_refs S (cx_of s (N.of_nat i)) lf ety (ty_results t) body eloc evs HS
                  (end_WF cf ver w s m V HP HM i _ Hd) Hpb Hen A1 o idx Ho Hr) as HL.
    assert (HSl : S <> S_local) by (destruct HS as [->|[->| ->]]; discriminate).
    pose proof (refs_ok_in _ _ _ _ _ HSl A3 HL) as Hin. unfold emitted_ids.
    replace (nth (N.to_nat idx) (ids_space (ps_ids s) S) 4294967295%N) with (px_i2id (cx_of s (N.of_nat i)) S idx); [exact Hin|].
    cbn [cx_of px_i2id]. destruct HS as [->|[->| ->]]; reflexivity.
  Qed.

  Lemma tmg_range S idx : S = S_func \/ S = S_global -> (N.of_nat (n_in s S) <= 4294967295)%N ->
    In (nth (N.to_nat idx) (ids_space (ps_ids s) S) 4294967295%N) (emitted_ids e S) -> N.to_nat idx < n_in s S.
  Proof.
    intros HS SM Hin.
    assert (HT : S <> S_type) by (destruct HS as [->| ->]; discriminate).
    assert (HL : S <> S_local) by (destruct HS as [->| ->]; discriminate).
    apply (emitted_full _ _ _ _ _ _ _ HP HE S _ HT HL) in Hin.
    destruct (Nat.lt_ge_cases (N.to_nat idx) (n_in s S)) as [C|C]; [exact C|exfalso].
    rewrite nth_overflow in Hin by (unfold n_in in C; exact C). lia.
  Qed.

  (* the index ranges of global.get/set, call, and the TYPE index of call_indirect, for the operators of the live part of every body *)
  Theorem end_OPS_ranges : forall i d o, nth_error (cm_funcs m) i = Some d -> In o (ops_of (live (fd_body d))) ->
    (forall g, global_index_of o = Some g -> N.to_nat g < n_in s S_global) /\
    (forall f, o = W_Call f -> N.to_nat f < n_in s S_func) /\
    (forall ti tb, o = W_CallIndirect ti tb -> N.to_nat ti < n_in s S_type).
  Proof.
    intros i [[ti0 ls] body] o Hd Ho. cbn [fd_body snd] in Ho. split; [|split].
    - intros g Hg. apply (tmg_range S_global g (or_intror eq_refl) SMALLG).
      apply (live_ref_emitted S_global i ti0 ls body o g (or_intror (or_intror eq_refl)) Hd Ho). apply glob_refs, Hg.
    - intros f ->. apply (tmg_range S_func f (or_introl eq_refl) SMALLF).
      apply (live_ref_emitted S_func i ti0 ls body _ f (or_introl eq_refl) Hd Ho). left. reflexivity.
    - intros ti tb ->.
      pose proof (live_ref_emitted S_type i ti0 ls body _ ti (or_intror (or_introl eq_refl)) Hd Ho (or_introl eq_refl)) as Hin.
      unfold n_in. cbn [ids_space] in Hin |- *.
      destruct (Nat.lt_ge_cases (N.to_nat ti) (length (ii_types (ps_ids s)))) as [C|C]; [exact C|exfalso].
      rewrite nth_overflow in Hin by exact C. unfold emitted_ids in Hin. cbn [space_map] in Hin.
      destruct (emit_order_types _ _ _ _ HE) as [Eo _]. rewrite Eo in Hin. apply emitted_type_ids_small in Hin. lia.
  Qed.
End Ranges.

(* what is STILL asked of the operators of the live part of a body: 32-bit memory offsets (the finding), the memory index of the memory
   instructions and the TABLE index of call_indirect in range (the emitted order of the two indices of memory.copy / table.copy is not the
   visiting order, so the list-level theorem [emitted_refs_sel] of Proofs/ModFix10.v does not apply to these two spaces) *)
Definition op_ok_end3 (s : pst) (o : wop) : Prop :=
  offset_ok o = true /\
  (forall i, memory_index_of o = Some i -> N.to_nat i < n_in s S_memory) /\
  (forall ti tb, o = W_CallIndirect ti tb -> N.to_nat tb < n_in s S_table).

Theorem sem_roundtrip_end_to_end_3 :
  forall (cf : config) (ver : str) (w : wmod) (s : pst) (ilen : wins -> N) (e : emitted) (m : cmod),
    valid_stream w -> parseM cf ver w = POk s -> emitM (ps_m s) ilen [] = Ok e -> stream_has_cmod w m ->
    WV.Proofs.ModFix40.locals_in_range w ->
    (N.of_nat (length (types_list (ps_m s))) <= 4294967295)%N ->
    (N.of_nat (n_in s S_func) <= 4294967295)%N -> (N.of_nat (n_in s S_global) <= 4294967295)%N ->
    (forall i d o, nth_error (cm_funcs m) i = Some d -> In o (ops_of (live (fd_body d))) -> op_ok_end3 s o) ->
    let m' := out_cmod s e ilen m in
    let E := env_of m (fun _ => idN) idN idN idN idN in
    let E' := env_of m' (lslot_end s e) (fslot_of (em_x2i e)) idN idN idN in
    stream_has_cmod_ops (em_secs e) m' /\
    forall k fuel f args s0, run_mod E' k fuel f args s0 = run_mod E k fuel f args s0.
Proof.
  intros cf ver w s ilen e m V HP HE HM LR SMALL SMF SMG OPS m' E E'.
  assert (OPS2 : forall i d o, nth_error (cm_funcs m) i = Some d -> In o (ops_of (live (fd_body d))) -> op_ok_end2 s o).
  { intros i d o Hd Ho. destruct (OPS i d o Hd Ho) as (O1 & O2 & O3).
    destruct (end_OPS_ranges cf ver w s ilen e m V HP HE HM SMALL SMF SMG i d o Hd Ho) as (R1 & R2 & R3).
    split; [exact O1|]. split; [exact R1|]. split; [exact O2|]. split; [exact R2|].
    intros ti tb Eo. split; [exact (R3 ti tb Eo)|exact (O3 ti tb Eo)]. }
  destruct (sem_roundtrip_end_to_end_2 cf ver w s ilen e m V HP HE HM LR SMALL OPS2)
    as (m2 & rf & -> & -> & H1 & _ & _ & _ & _ & _ & _ & _ & H).
  split; [exact H1|exact H].
Qed.

Module ExEnd3.
  Import ExEnd ExEnd2.
  Theorem ex_end_to_end_3 :
    let E := env_of m0 (fun _ => idN) idN idN idN idN in
    let E' := env_of (out_cmod s0 e0 il m0) (lslot_end s0 e0) (fslot_of (em_x2i e0)) idN idN idN in
    stream_has_cmod_ops (em_secs e0) (out_cmod s0 e0 il m0) /\
    forall k fuel f args st, run_mod E' k fuel f args st = run_mod E k fuel f args st.
  Proof.
    apply (sem_roundtrip_end_to_end_3 default_config [49%N] w0 s0 il e0 m0 ex_valid ex_parse ex_emit in_relation ex_locals_in_range ex_small).
    - vm_compute. discriminate.
    - vm_compute. discriminate.
    - intros i d o Hd Ho. destruct (ex_ops i d o Hd Ho) as (O1 & _ & O3 & _ & O5).
      split; [exact O1|]. split; [exact O3|]. intros ti tb Eo. exact (proj2 (O5 ti tb Eo)).
  Qed.
End ExEnd3.

Print Assumptions flat_list_inj.
Print Assumptions end_WF.
Print Assumptions end_OPS_dec.
Print Assumptions wfl_ops_dec.
Print Assumptions log_has_live_locals.
Print Assumptions end_LOCALS.
Print Assumptions sem_roundtrip_end_to_end_2.
Print Assumptions ExEnd2.ex_end_to_end.
Print Assumptions ExBad.end_LOCALS_refuted_without_range.
Print Assumptions ExBad.sem_roundtrip_refuted_without_range.
Print Assumptions log_has_live_refs.
Print Assumptions end_OPS_ranges.
Print Assumptions sem_roundtrip_end_to_end_3.
Print Assumptions ExEnd3.ex_end_to_end_3.
