(* Glue for C06/C07: the GC theorems of Proofs/GC.v composed at the level of [used] and [gc_sweep]. *)
From Coq Require Import List NArith Bool Arith Lia. Import ListNotations.
From WV Require Import Gen.Ops Model.Common Model.IR Model.Arena Model.ModuleM Model.ParseM Model.EmitM Model.GC.
From WV Require Proofs.GC.
Local Open Scope nat_scope.

Module G := WV.Proofs.GC.

(* well-formedness of the module's reference graph: what parsing a validated module establishes *)
Definition refs_wf (m : wir) (rs : list ent) : Prop :=
  (forall x, G.greach m rs x -> In x (G.all_entities m)) /\
  (forall x, G.greach m rs x -> negb (G.is_type x) = true -> succ m x <> Panic /\ succ m x <> OutOfFuel).

(* the used set is exactly the set reachable from the roots, plus at most the one tolerated memory *)
Lemma used_is_reach : forall m u, used m = Ok u ->
  exists rs, roots m = Ok rs /\ (refs_wf m rs ->
    forall x, In x u -> G.greach m rs x \/
      (exists mid v rest, aiter (m_memories m) = (mid, v) :: rest /\ x = (S_memory, mid) /\
                          (forall y, In y u -> fst y = S_memory -> y = x) /\ (exists d, In (S_data, d) u))).
Proof.
  intros m u Hu. destruct (G.used_inv m u Hu) as (rs & U & Hr & Hw & Hcase).
  exists rs. split; [exact Hr|]. intros [Ha Hl] x Hx.
  destruct (G.used_reach m rs U Hr Ha Hl Hw) as [_ HU].
  destruct Hcase as [->|(mid & v & rest & Hm & Hnomem & Hdata & ->)].
  - left. apply HU. exact Hx.
  - destruct Hx as [<-|Hx]; [|left; apply HU; exact Hx].
    right. exists mid, v, rest. split; [exact Hm|]. split; [reflexivity|]. split.
    + intros y [<-|Hy] Hs; [reflexivity|]. exfalso.
      destruct y as [sp id]. cbn in Hs. subst sp.
      assert (In id (used_of U S_memory)) as Hin.
      { unfold used_of. apply in_flat_map. exists (S_memory, id). split; [exact Hy|]. cbn. left. reflexivity. }
      rewrite Hnomem in Hin. exact Hin.
    + destruct (used_of U S_data) as [|d r] eqn:E; [congruence|]. exists d. right.
      assert (In d (used_of U S_data)) as Hin by (rewrite E; left; reflexivity).
      unfold used_of in Hin. apply in_flat_map in Hin. destruct Hin as [[sp id] [Hy Hd]].
      cbn in Hd. destruct sp; cbn in Hd; try contradiction. destruct Hd as [<-|[]]. exact Hy.
Qed.

Lemma used_complete : forall m u, used m = Ok u ->
  exists rs, roots m = Ok rs /\ (refs_wf m rs -> forall x, G.greach m rs x -> In x u).
Proof.
  intros m u Hu. destruct (G.used_inv m u Hu) as (rs & U & Hr & Hw & Hcase).
  exists rs. split; [exact Hr|]. intros [Ha Hl] x Hx.
  destruct (G.used_reach m rs U Hr Ha Hl Hw) as [_ HU].
  destruct Hcase as [->|(mid & v & rest & _ & _ & _ & ->)]; [apply HU; exact Hx|right; apply HU; exact Hx].
Qed.
