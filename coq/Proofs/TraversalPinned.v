(* C16, "neither traversal uses call-stack depth proportional to nesting depth": the two drivers of src/ir/traversals.rs keep their pending work
   on an explicit Vec (modelled in Model/Traversal.v); what the model cannot see is whether the Rust function ALSO recurses.  Gen/TraversalCalls.v
   (regenerated on every run) lists every free function a driver calls; neither driver calls itself or the other one - in fact they call no
   free function at all, only methods of the visitor / the stack - so their call-stack use does not depend on the input. *)
From Coq Require Import List String. Import ListNotations.
From WV Require Import Gen.TraversalCalls.
Open Scope string_scope.
Definition expected_traversal_calls : list (string * list string) := [("dfs_in_order", []); ("dfs_pre_order_mut", [])].
Definition calls_nothing (l : list (string * list string)) : Prop := forall d cs, In (d, cs) l -> cs = [].
Theorem traversal_drivers_call_no_function : traversal_calls = expected_traversal_calls.
Proof. reflexivity. Qed.
Theorem traversal_drivers_call_nothing : calls_nothing traversal_calls.
Proof. rewrite traversal_drivers_call_no_function. intros d cs [H|[H|[]]]; inversion H; reflexivity. Qed.
Theorem traversal_drivers_do_not_recurse : forall d cs, In (d, cs) traversal_calls -> ~ In "dfs_in_order" cs /\ ~ In "dfs_pre_order_mut" cs.
Proof. rewrite traversal_drivers_call_no_function. intros d cs [H|[H|[]]]; inversion H; subst; split; intros []. Qed.
Print Assumptions traversal_drivers_do_not_recurse.
Theorem traversal_drivers_do_not_call_dfs_in_order : forall d cs, In (d, cs) traversal_calls -> ~ In "dfs_in_order" cs.
Proof. intros d cs H. exact (proj1 (traversal_drivers_do_not_recurse d cs H)). Qed.
