(* C08, module-level fixpoint with SYNTHETIC names (cf_skip_name = false, cf_synthetic_names = true):
   - the input premise [locals_in_range_b] (executable) and the ModFixEx witness violating it;
   - the local-names half of the name section for ANY setting of cf_synthetic_names, from one visible fact
     ([locals_named_kept]: every local of the second parse carries the name the first emit wrote for it);
   - the module fixpoint for every configuration reduced to [funcs_named_kept] and [locals_named_kept];
   - the parse invariant "with synthetic names every local of the parsed module has a non-empty name". *)
From Coq Require Import List NArith ZArith Bool Arith Lia Permutation Sorted.
Import ListNotations.
From WV Require Import Gen.Ops Model.Common Model.IR Model.Arena Model.Traversal Model.EmitFn Model.Locals
                       Model.ParseFn Model.ModuleM Model.ParseM Model.EmitM Gen.Attrs.
From WV Require Import Proofs.Arena Proofs.Order Proofs.IndexMaps Proofs.Structure Proofs.Structure2 Proofs.ParseTotal.
From WV Require Import Proofs.Names Proofs.ModFix Proofs.ModFix7.
From WV Require Proofs.ModFix8 Proofs.ModFix13 Proofs.ModFix17 Proofs.ModFix18 Proofs.ModFix19 Proofs.ModFix20 Proofs.ModFix21 Proofs.ModFixEx.
From WV Require Proofs.Locals2 Proofs.CustomsCfg Proofs.ModFix12.
From WV Require Import Model.ParseSpec.
Local Open Scope nat_scope.

(* ====================================================================================== *)
(* 1. the input premise: local indices of the bodies are in range (executable)              *)
(* ====================================================================================== *)
Definition op_locals_below (n : nat) (o : wop) : bool :=
  forallb (fun r => match fst r with S_local => N.to_nat (snd r) <? n | _ => true end) (wop_refs o).
Definition body_locals_in_range (nparams : nat) (b : wbody) : bool :=
  let n := nparams + length (expand_locals (wb_locals b)) in
  forallb (fun x => match fst x with WOp o => op_locals_below n o | _ => true end) (wb_ops b).
(* the k-th body belongs to the k-th entry of the function section(s); its parameters are those of the
   type the entry names (position in the concatenated type sections) *)
Definition locals_in_range_b (w : wmod) : bool :=
  forallb (fun p => match nth_error (flat_map types_of w) (N.to_nat (fst p)) with
                    | Some t => body_locals_in_range (length (fst t)) (snd p)
                    | None => false end)
          (combine (flat_map funcs_of w) (flat_map code_of w)).
Definition locals_in_range (w : wmod) : Prop := locals_in_range_b w = true.

(* the witness of ModFixEx.module_fixpoint_refuted_valid_stream (local.get 0 in a function without locals) violates it;
   so does the second witness wP2; the valid examples satisfy it *)
Example wP_not_in_range : locals_in_range_b ModFixEx.wP = false. Proof. vm_compute. reflexivity. Qed.
Example wP2_not_in_range : locals_in_range_b ModFixEx.wP2 = false. Proof. vm_compute. reflexivity. Qed.
Example wP_violates : ~ locals_in_range ModFixEx.wP. Proof. unfold locals_in_range. rewrite wP_not_in_range. discriminate. Qed.
Example wA_in_range : locals_in_range ModFixEx.wA. Proof. vm_compute. reflexivity. Qed.
Example wS2_in_range : locals_in_range ModFixEx.wS2. Proof. vm_compute. reflexivity. Qed.
Example w4_in_range : locals_in_range ModFixEx.w4. Proof. vm_compute. reflexivity. Qed.

(* ====================================================================================== *)
(* 2. local names of the second emit, for any setting of cf_synthetic_names                 *)
(* ====================================================================================== *)
(* every local of a parse-time local vector of the second parse carries exactly the name the first
   emit wrote for its slot (synthesis adds nothing that is visible) *)
Definition locals_named_kept (s2 : pst) (n1 : wnames) : Prop :=
  forall fid lid lo, In lid (locals_vec (ps_ids s2) fid) -> aget (m_locals (ps_m s2)) lid = Some lo ->
    lo_name lo = last_name (loc_entries false (ps_ids s2) (wn_locals n1)) lid.

Theorem fix_names_locals_gen : forall cf ver w ilen s1 e1 s2 e2,
  two_trips cf ver w ilen s1 e1 s2 e2 -> cf_skip_name cf = false -> locals_named_kept s2 (stream_names (em_secs e1)) ->
  rho_id s2 e2 S_func -> locals_identity s2 e2 -> locals_canon s2 (stream_names (em_secs e1)) ->
  wn_locals (stream_names (em_secs e2)) = wn_locals (stream_names (em_secs e1)).
Proof.
  intros cf ver w ilen s1 e1 s2 e2 (HP1 & HE1 & HP2 & HE2) Hskip Hsyn Hf LI LC.
  destruct (emitted_names_canonical_s _ _ _ _ _ _ HP1 HE1 Hskip) as (s_nm1 & En1 & Hpay1 & Hsec1 & Hs1 & _).
  destruct (names_roundtrip_s _ _ _ _ _ _ HP2 HE2 Hskip) as (s_nm2 & En2 & Hpay2 & _ & Hs2 & _).
  rewrite (stream_names_of _ _ Hpay1 Hs1) in *. rewrite (stream_names_of _ _ Hpay2 Hs2).
  set (L1 := wn_locals (names_of s_nm1)) in *. set (m2 := ps_m s2) in *. set (ids := ps_ids s2) in *.
  pose proof (emit_names_locals_sorted _ _ _ _ En1 (parsed_wf_funcs _ _ _ _ _ _ _ HP1 HE1)) as S1. fold L1 in S1.
  pose proof (emit_names_locals_sorted _ _ _ _ En2 (parsed_wf_funcs _ _ _ _ _ _ _ HP2 HE2)) as S2.
  destruct (local_names_emit_partial _ _ _ _ En2) as [A2 B2]. fold m2 in A2, B2.
  destruct LI as (Dis & NDv & Alloc & FE & EM). cbv zeta in Dis, NDv, Alloc, FE, EM. fold ids in Dis, NDv, Alloc, FE, EM. fold m2 in Alloc, FE.
  unfold locals_canon in LC. fold L1 in LC. fold ids in LC.
  pose proof (parseM_ids _ _ _ _ HP2) as I. unfold ids_consistent in I. fold m2 in I. fold ids in I.
  destruct I as (If & _ & _ & _ & _ & _ & Df & _). set (nf := length (items (m_funcs m2))) in *.
  assert (Sin : forall fi names, In (fi, names) L1 -> StronglySorted N.lt (map fst names)).
  { intros fi names H. apply (LC fi names H). }
  assert (NE : forall fi names, In (fi, names) L1 -> names <> []).
  { intros fi names H. apply (emitted_locals_nonempty _ _ _ _ fi names En1). exact H. }
  (* the name of a local of the second parse *)
  assert (PL : forall fid lid lo, In lid (locals_vec ids fid) -> aget (m_locals m2) lid = Some lo -> lo_name lo = last_name (loc_entries false ids L1) lid).
  { intros fid lid lo Hv Hg. exact (Hsyn fid lid lo Hv Hg). }
  assert (Lt : forall fid f, In (fid, f) (aiter (m_funcs m2)) -> N.to_nat fid < nf).
  { intros fid f H. apply (aiter_nodead _ _ _ Df) in H. apply nth_error_Some. congruence. }
  (* one emitted function *)
  assert (SI : forall fid ef, find (fun ef => N.eqb (ef_id ef) fid) (em_fns e2) = Some ef -> N.to_nat fid < nf ->
                forall slot n, In (slot, n) (sort_nm (fn_local_names m2 ef)) <-> exists names, In (fid, names) L1 /\ In (slot, n) names).
  { intros fid ef Hfind Hlt slot n. rewrite B2. destruct (EM fid ef Hfind) as (NDu & Uiff & Lm). split.
    - intros (lid & lo & q & Hu & Hg & Hn & Hq & <-). apply Uiff in Hu. pose proof Hu as Hvv. apply In_nth_error in Hu. destruct Hu as [p Hp].
      destruct (Lm p lid Hp) as (q' & Hq' & Hs'). assert (q' = q) by congruence. subst q'. rewrite Hs'.
      rewrite (PL fid _ _ Hvv Hg) in Hn. apply (local_name_key ids nf L1 fid p lid n If Hlt Dis NDv S1 Sin Hp). exact Hn.
    - intros (names & H1 & Hin). destruct (LC fid names H1) as (Sn & Rn).
      pose proof (Rn slot (in_map fst _ _ Hin)) as Hr. cbn [fst] in Hr.
      destruct (nth_error (locals_vec ids fid) (N.to_nat slot)) as [lid|] eqn:Hp; [|apply nth_error_None in Hp; lia].
      assert (Hv : In lid (locals_vec ids fid)) by (eapply nth_error_In; exact Hp).
      destruct (Alloc fid lid Hv) as [lo Hg]. destruct (Lm _ _ Hp) as (q & Hq & Hs'). rewrite N2Nat.id in Hs'.
      exists lid, lo, q. split; [apply Uiff; exact Hv|]. split; [exact Hg|]. split; [|split; [exact Hq|exact Hs']].
      rewrite (PL fid _ _ Hv Hg). apply (local_name_key ids nf L1 fid (N.to_nat slot) lid n If Hlt Dis NDv S1 Sin Hp).
      exists names. rewrite N2Nat.id. auto. }
  assert (SS : forall fid ef, find (fun ef => N.eqb (ef_id ef) fid) (em_fns e2) = Some ef ->
                StronglySorted N.lt (map fst (sort_nm (fn_local_names m2 ef)))).
  { intros fid ef Hfind. destruct (EM fid ef Hfind) as (NDu & Uiff & Lm).
    apply le_sorted_NoDup_lt; [apply sort_nm_sorted|].
    eapply Permutation_NoDup; [apply Permutation_sym, Permutation_map, sort_nm_perm|].
    unfold fn_local_names.
    assert (Key : forall lid k, In lid (ef_used ef) ->
              In k (map fst (match aget (m_locals m2) lid with
                             | Some lo => match lo_name lo, find (fun q => N.eqb (fst q) lid) (ef_lmap ef) with
                                          | Some n, Some q => [(snd q, n)] | _, _ => [] end
                             | None => [] end)) ->
              exists p, nth_error (locals_vec ids fid) p = Some lid /\ k = N.of_nat p).
    { intros lid k Hu Hk. apply Uiff in Hu. apply In_nth_error in Hu. destruct Hu as [p Hp]. exists p. split; [exact Hp|].
      destruct (Lm p lid Hp) as (q & Hq & Hs'). rewrite Hq in Hk.
      destruct (aget (m_locals m2) lid) as [lo|]; [|destruct Hk]. destruct (lo_name lo); [|destruct Hk].
      destruct Hk as [<-|[]]. exact Hs'. }
    apply NoDup_flat_map_keys; [exact NDu| |].
    - intros lid. destruct (aget (m_locals m2) lid) as [lo|]; [|constructor]. destruct (lo_name lo); [|constructor].
      destruct (find _ (ef_lmap ef)); cbn [map]; repeat constructor. intros [].
    - intros a b k Ha Hb Hka Hkb. destruct (Key a k Ha Hka) as (pa & Hpa & Ea). destruct (Key b k Hb Hkb) as (pb & Hpb & Eb).
      assert (pa = pb) by lia. subst pb. congruence. }
  assert (IE : forall fid ef names, find (fun ef => N.eqb (ef_id ef) fid) (em_fns e2) = Some ef -> N.to_nat fid < nf ->
                In (fid, names) L1 -> sort_nm (fn_local_names m2 ef) = names).
  { intros fid ef names Hfind Hlt H1. apply sorted_extA; [apply (SS fid ef Hfind)|apply (Sin fid names H1)|].
    intros [slot n]. rewrite (SI fid ef Hfind Hlt). split.
    - intros (names' & H1' & Hin). assert (names' = names) by (apply (sorted_keys_fun L1 fid); assumption). subst. exact Hin.
    - intros Hin. exists names. auto. }
  apply sorted_extA; [exact S2|exact S1|]. intros [i nm]. rewrite A2. split.
  - intros (fid & f & ef & Ha & Hfind & Hne & Hg & ->). pose proof (Lt _ _ Ha) as Hlt.
    assert (Hid : get_idx (em_x2i e2) S_func fid = Ok fid).
    { apply (rho_id_get _ _ _ _ _ S_func HP2); [discriminate|discriminate|exact Hf|]. cbn [ids_space]. fold ids. rewrite If, iota_length. exact Hlt. }
    assert (i = fid) by congruence. subst i.
    destruct (sort_nm (fn_local_names m2 ef)) as [|[slot n] rest] eqn:Es; [apply sort_nm_nil in Es; contradiction|].
    destruct (proj1 (SI fid ef Hfind Hlt slot n)) as (names & H1 & _); [rewrite Es; left; reflexivity|].
    rewrite <- Es. rewrite (IE fid ef names Hfind Hlt H1). exact H1.
  - intros H1. destruct (LC i nm H1) as (Sn & Rn). pose proof (NE i nm H1) as Hne.
    destruct nm as [|[p0 n0] rest] eqn:Enm; [contradiction|]. rewrite <- Enm in *.
    assert (Hin0 : In (p0, n0) nm) by (rewrite Enm; left; reflexivity).
    pose proof (Rn p0 (in_map fst _ _ Hin0)) as Hr. cbn [fst] in Hr.
    assert (Hv : locals_vec ids i <> []) by (intros C; rewrite C in Hr; cbn in Hr; lia).
    destruct (FE i Hv) as (f & ef & Ha & Hfind). pose proof (Lt _ _ Ha) as Hlt.
    exists i, f, ef. split; [exact Ha|]. split; [exact Hfind|].
    pose proof (IE i ef nm Hfind Hlt H1) as Heq.
    split; [|split; [|symmetry; exact Heq]].
    + intros C. rewrite C in Heq. cbn in Heq. rewrite <- Heq in Hin0. destruct Hin0.
    + apply (rho_id_get _ _ _ _ _ S_func HP2); [discriminate|discriminate|exact Hf|]. cbn [ids_space]. fold ids. rewrite If, iota_length. exact Hlt.
Qed.

(* without synthetic names the premise holds (this is how ModFix7.fix_names_locals used it) *)
Lemma locals_named_kept_nosyn cf ver w ilen s1 e1 s2 e2 :
  two_trips cf ver w ilen s1 e1 s2 e2 -> cf_skip_name cf = false -> cf_synthetic_names cf = false ->
  locals_named_kept s2 (stream_names (em_secs e1)).
Proof.
  intros (HP1 & HE1 & HP2 & HE2) Hskip Hsyn fid lid lo _ Hg.
  destruct (emitted_names_canonical_s _ _ _ _ _ _ HP1 HE1 Hskip) as (s_nm1 & En1 & Hpay1 & Hsec1 & Hs1 & _).
  rewrite (stream_names_of _ _ Hpay1 Hs1).
  destruct (parseM_local_names _ _ _ _ _ _ HP2 Hg) as [_ K]. rewrite (K Hsyn).
  unfold local_entries. rewrite Hsec1, Hsyn.
  rewrite (sections_of _ Hs1 (fun n => loc_entries false (ps_ids s2) (wn_locals n)) eq_refl). reflexivity.
Qed.

(* ====================================================================================== *)
(* 3. the module fixpoint, every configuration, reduced to the two name facts               *)
(* ====================================================================================== *)
Theorem module_fixpoint_synthetic_partial : forall cf ver w ilen s1 e1 s2 e2,
  two_trips cf ver w ilen s1 e1 s2 e2 -> valid_stream w ->
  (cf_skip_name cf = false -> ModFix21.funcs_named_kept s2 (stream_names (em_secs e1))) ->
  (cf_skip_name cf = false -> locals_named_kept s2 (stream_names (em_secs e1))) ->
  em_secs e2 = em_secs e1.
Proof.
  intros cf ver w ilen s1 e1 s2 e2 TT V PF PL.
  destruct (cf_skip_name cf) eqn:Sk.
  { exact (ModFix20.module_fixpoint_skip_name _ _ _ _ _ _ _ _ TT V Sk). }
  apply (ModFix21.module_fixpoint_syn_partial cf ver w ilen s1 e1 s2 e2 TT V Sk (PF eq_refl)).
  pose proof (ModFix20.params_kept_17 _ _ _ _ _ _ _ _ TT) as PK.
  pose proof (ModFix19.locals_struct_holds _ _ _ _ _ _ _ _ TT) as LS.
  apply (fix_names_locals_gen cf ver w ilen s1 e1 s2 e2 TT Sk (PL eq_refl)).
  - apply (ModFix20.canonical_identity_maps_valid _ _ _ _ _ _ _ _ TT V).
  - eapply ModFix17.locals_identity_proved; eassumption.
  - eapply ModFix17.locals_canon_proved; eassumption.
Qed.

(* ====================================================================================== *)
(* 4. parse invariant: with synthetic names every local of the parsed module has a          *)
(*    non-empty name ("arg<i>" / "l<i>" or a non-empty name from a name section)            *)
(* ====================================================================================== *)
Definition lo_named (lo : mlocal) : Prop := exists n, lo_name lo = Some n /\ n <> [].
Definition LN (a : tarena mlocal) : Prop := Forall lo_named (items a).

Lemma aupd_app_r {A} (l : list A) x f : Arena.upd (l ++ [x]) (length l) f = l ++ [f x].
Proof. induction l as [|y l IH]; cbn; [reflexivity|]. now rewrite IH. Qed.
Lemma LN_alloc_named (a : tarena mlocal) t n : n <> [] -> LN a ->
  LN (aset_at (fst (aalloc a {| lo_ty := t; lo_name := None |})) (snd (aalloc a {| lo_ty := t; lo_name := None |}))
        (fun x => {| lo_ty := lo_ty x; lo_name := Some n |})).
Proof.
  intros Hn H. unfold LN, aalloc, alloc, next_id, aset_at. cbn [fst snd items]. rewrite Nat2N.id.
  rewrite aupd_app_r. apply Forall_app. split; [exact H|]. constructor; [|constructor].
  exists n. split; [reflexivity|exact Hn].
Qed.

Lemma add_locals_LN : forall tys m ids fid pre m' ids' l,
  cf_synthetic_names (m_config m) = true -> pre <> [] -> LN (m_locals m) ->
  add_locals m ids fid tys pre = (m', ids', l) -> LN (m_locals m').
Proof.
  induction tys as [|t r IH]; intros m ids fid pre m' ids' l Hs Hp H E; cbn [add_locals] in E.
  - inversion E; subst; exact H.
  - destruct (aalloc (m_locals m) {| lo_ty := t; lo_name := None |}) as [la lid] eqn:Eal.
    destruct (add_locals _ _ fid r pre) as [[m1 ids1] rest] eqn:Ea.
    inversion E; subst; clear E. eapply IH; [| |..|exact Ea]; wcbn; [exact Hs|exact Hp|].
    unfold synth. rewrite Hs.
    pose proof (LN_alloc_named (m_locals m) t (pre ++ dec_digits 20 (match locals_of ids fid with Some v => len_N v | None => 0%N end))) as K.
    unfold aalloc, alloc in K. cbn [fst snd] in K. injection Eal as <- <-. apply K; [|exact H].
    destruct pre; [contradiction|discriminate].
Qed.

Lemma prepare_bodies_LN : forall bs m ids ni i m' ids' ps,
  cf_synthetic_names (m_config m) = true -> LN (m_locals m) ->
  prepare_bodies m ids ni i bs = POk (m', ids', ps) -> LN (m_locals m').
Proof.
  induction bs as [|b r IH]; intros m ids ni i m' ids' ps Hs H E; cbn [prepare_bodies] in E.
  - inversion E; subst; exact H.
  - pinv E as fid Efid. pinv E as f Ef. destruct (fn_kind f); try discriminate.
    pinv E as t Et.
    destruct (add_locals m ids fid (ty_params t) _) as [[m1 ids1] args] eqn:E1.
    destruct (types_insert m1 _) as [m2 tid] eqn:E2.
    destruct (add_locals m2 ids1 fid _ _) as [[m3 ids3] ls] eqn:E3.
    pinv E as x Ex. destruct x as [[m4 ids4] rest]. inversion E; subst; clear E.
    pose proof (add_locals_cf _ _ _ _ _ _ _ _ E1) as C1. pose proof (types_insert_cf _ _ _ _ E2) as C2.
    pose proof (add_locals_cf _ _ _ _ _ _ _ _ E3) as C3.
    eapply IH; [|  |exact Ex]; [congruence|].
    eapply add_locals_LN; [| | |exact E3]; [congruence|discriminate|].
    rewrite (WV.Proofs.Locals2.types_insert_locals _ _ _ _ E2).
    eapply add_locals_LN; [| | |exact E1]; [exact Hs|discriminate|exact H].
Qed.

(* name sections: with synthetic names on only non-empty names are applied *)
Lemma loc_entries_syn_nonempty ids l lid n : In (lid, n) (loc_entries true ids l) -> n <> [].
Proof.
  unfold loc_entries. rewrite in_flat_map. intros ([fi names] & _ & H). unfold fn_entries in H. cbn [fst snd] in H.
  destruct (nth_N (ii_funcs ids) fi); [|destruct H]. unfold resolve in H. apply in_flat_map in H.
  destruct H as ([p n'] & Hp & H). cbn [fst snd] in H. apply filter_In in Hp. destruct Hp as [_ Hp]. cbn [snd andb] in Hp.
  destruct (nth_N _ p); [|destruct H]. destruct H as [H|[]]. inversion H; subst. destruct n; [discriminate|discriminate].
Qed.
Lemma set_all_LN : forall l a, (forall lid n, In (lid, n) l -> n <> []) -> LN a -> LN (set_all a l).
Proof.
  induction l as [|[i n] r IH]; intros a Hl H; cbn [set_all]; [exact H|]. apply IH; [intros lid n' Hin; apply (Hl lid); right; exact Hin|].
  unfold LN, aset_at. cbn [items]. apply WV.Proofs.Names.Forall_upd; [|exact H].
  intros x _. exists n. split; [reflexivity|]. apply (Hl i). left. reflexivity.
Qed.

Theorem parseM_locals_named : forall cf ver w s, parseM cf ver w = POk s -> cf_synthetic_names cf = true ->
  LN (m_locals (ps_m s)).
Proof.
  intros cf ver w s HP Hs. pose proof HP as E.
  apply WV.Proofs.CustomsCfg.parseM_inv in E. destruct E as (s1 & m1 & ids1 & prepared & m2 & E1 & E2 & E3 & Es).
  cbv zeta in Es.
  pose proof (WV.Proofs.ModFix12.lo_secs _ _ _ E1) as LO. cbn [ps_m] in LO.
  pose proof (parse_secs_cf _ _ _ E1) as C1. cbn [ps_m] in C1.
  assert (L1 : LN (m_locals m1)).
  { eapply prepare_bodies_LN; [| |exact E2]; [rewrite C1; exact Hs|rewrite LO; constructor]. }
  pose proof (WV.Proofs.Locals2.install_bodies_locals _ _ _ _ E3) as L2.
  pose proof (prepare_bodies_cf _ _ _ _ _ _ _ _ E2) as C2. pose proof (install_bodies_cf _ _ _ _ E3) as C3.
  rewrite Es. wcbn. fold (parse_all_names ids1 (ps_names s1) m2). rewrite all_names_locals.
  apply set_all_LN; [|rewrite L2; exact L1].
  intros lid n Hin. unfold local_entries in Hin. apply in_flat_map in Hin. destruct Hin as (nm & _ & Hin).
  assert (Ec : m_config m2 = cf) by (rewrite C3, C2, C1; reflexivity). rewrite Ec, Hs in Hin.
  exact (loc_entries_syn_nonempty _ _ _ _ Hin).
Qed.

(* in the form used by the emitter: a live local of the parsed module has a name, and it is not empty *)
Corollary parseM_local_named cf ver w s lid lo : parseM cf ver w = POk s -> cf_synthetic_names cf = true ->
  aget (m_locals (ps_m s)) lid = Some lo -> exists n, lo_name lo = Some n /\ n <> [].
Proof.
  intros HP Hs Hg. pose proof (parseM_locals_named _ _ _ _ HP Hs) as H. unfold LN in H. rewrite Forall_forall in H.
  apply H. eapply nth_error_In. apply aget_nth. exact Hg.
Qed.

(* ====================================================================================== *)
(* 5. parse invariant: with synthetic names every LOCAL function of the parsed module is    *)
(*    named ("f<idx>" or a name from a name section)                                        *)
(* ====================================================================================== *)
(* before the bodies are installed: no local function yet, every declared function is named *)
Definition fnu (f : mfunc) : Prop :=
  match fn_kind f with FK_Uninit _ => fn_name f <> None | FK_Import _ _ => True | FK_Local _ => False end.
(* afterwards *)
Definition fnl (f : mfunc) : Prop := match fn_kind f with FK_Local _ => fn_name f <> None | _ => True end.

Lemma parse_imports_FN : forall l m ids m' ids', parse_imports m ids l = POk (m', ids') ->
  Forall fnu (items (m_funcs m)) -> Forall fnu (items (m_funcs m')).
Proof.
  induction l as [|i r IH]; intros m ids m' ids' E H; cbn [parse_imports] in E; [inversion E; subst; exact H|].
  pinv E as x Ex. destruct x as [m1 ids1]. cbn [fst snd] in E. eapply IH; [exact E|]. clear E IH.
  unfold parse_import in Ex. destruct (wi_kind i).
  - pinv Ex as t Et. wcbn. inversion Ex; subst; clear Ex. wcbn.
    apply Forall_app. split; [exact H|]. repeat constructor.
  - wcbn. inversion Ex; subst; clear Ex. exact H.
  - wcbn. inversion Ex; subst; clear Ex. exact H.
  - wcbn. inversion Ex; subst; clear Ex. exact H.
Qed.
Lemma parse_funcs_FN : forall l m ids m' ids', parse_funcs m ids l = POk (m', ids') ->
  cf_synthetic_names (m_config m) = true -> Forall fnu (items (m_funcs m)) -> Forall fnu (items (m_funcs m')).
Proof.
  induction l as [|i r IH]; intros m ids m' ids' E Hs H; cbn [parse_funcs] in E; [inversion E; subst; exact H|].
  pinv E as t Et. wcbn. eapply IH; [exact E| |]; clear E IH; wcbn; [exact Hs|].
  unfold synth. rewrite Hs. wcbn. unfold next_id. rewrite ?Nat2N.id, aupd_app_r.
  apply Forall_app. split; [exact H|]. constructor; [|constructor]. unfold fnu. cbn. discriminate.
Qed.
Lemma parse_sec_FN s sec s' : parse_sec s sec = POk s' -> cf_synthetic_names (m_config (ps_m s)) = true ->
  Forall fnu (items (m_funcs (ps_m s))) -> Forall fnu (items (m_funcs (ps_m s'))).
Proof.
  intros E Hs H. destruct sec;
    try (pose proof (WV.Proofs.Structure2.parse_sec_frameB _ _ _ E) as [_ E3]; rewrite E3; exact H).
  - unfold parse_sec in E. pinv E as x Ex. destruct x as [m1 i1]. inversion E; subst; clear E. wcbn.
    eapply parse_imports_FN; eauto.
  - unfold parse_sec in E. pinv E as x Ex. destruct x as [m1 i1]. inversion E; subst; clear E. wcbn.
    eapply parse_funcs_FN; eauto.
Qed.
Lemma parse_secs_FN : forall w s s', parse_secs s w = POk s' -> cf_synthetic_names (m_config (ps_m s)) = true ->
  Forall fnu (items (m_funcs (ps_m s))) -> Forall fnu (items (m_funcs (ps_m s'))).
Proof.
  induction w as [|x r IH]; intros s s' E Hs H; cbn [parse_secs] in E; [inversion E; subst; exact H|].
  pinv E as s1 E1. eapply IH; [exact E| |].
  - rewrite (parse_sec_cf _ _ _ E1). exact Hs.
  - eapply parse_sec_FN; eauto.
Qed.

Definition fn_rel (f0 f : mfunc) : Prop :=
  fn_name f = fn_name f0 /\ (fn_kind f = fn_kind f0 \/ exists ty, fn_kind f0 = FK_Uninit ty).
Lemma Forall2_upd_r {A B} (R : A -> B -> Prop) g : forall l0 l n x0, Forall2 R l0 l -> nth_error l0 n = Some x0 ->
  (forall y, R x0 y -> R x0 (g y)) -> Forall2 R l0 (Arena.upd l n g).
Proof.
  induction l0 as [|a l0 IH]; intros l n x0 H Hn Hg; inversion H; subst; [destruct n; discriminate|].
  destruct n as [|n]; cbn [Arena.upd].
  - cbn in Hn. inversion Hn; subst. constructor; auto.
  - constructor; [assumption|]. eapply IH; eauto.
Qed.
Lemma install_bodies_rel : forall ps m ids m' fa0, install_bodies m ids ps = POk m' ->
  Forall (uninit_in fa0) ps -> Forall2 fn_rel (items fa0) (items (m_funcs m)) -> Forall2 fn_rel (items fa0) (items (m_funcs m')).
Proof.
  induction ps as [|p r IH]; intros m ids m' fa0 E U H; cbn [install_bodies] in E; [inversion E; subst; exact H|].
  pinv E as lf Elf. inversion U as [|? ? Up Ur]; subst. eapply IH; [exact E|exact Ur|]. wcbn.
  destruct Up as (f0 & ty & Hn & Hk). eapply Forall2_upd_r; [exact H|exact Hn|].
  intros y (Hy1 & _). split; [exact Hy1|]. right. exists ty. exact Hk.
Qed.
Lemma fn_rel_refl l : Forall2 fn_rel l l.
Proof. induction l; constructor; auto. split; [reflexivity|left; reflexivity]. Qed.
Lemma fnu_rel_fnl : forall l0 l, Forall fnu l0 -> Forall2 fn_rel l0 l -> Forall fnl l.
Proof.
  intros l0 l H0 H. induction H as [|f0 f l0 l (Hn & Hk) HF IH]; [constructor|].
  inversion H0; subst. constructor; [|auto]. unfold fnl, fnu in *.
  destruct (fn_kind f) eqn:Ek; try exact I. rewrite Hn. destruct Hk as [Hk|(ty & Hk)].
  - rewrite <- Hk in *. contradiction.
  - rewrite Hk in *. assumption.
Qed.
Lemma apply_names_fnl idx : forall l a, Forall fnl (items a) -> Forall fnl (items (apply_names a idx set_fn_name l)).
Proof.
  induction l as [|[i n] r IH]; intros a H; cbn [apply_names]; [exact H|].
  destruct (nth_N idx i); [|apply IH; exact H]. apply IH. unfold aset_at. cbn [items].
  apply WV.Proofs.Names.Forall_upd; [|exact H]. intros x Hx. unfold fnl, set_fn_name in *. cbn.
  destruct (fn_kind x); try exact I. discriminate.
Qed.

Theorem parseM_funcs_named : forall cf ver w s, parseM cf ver w = POk s -> cf_synthetic_names cf = true ->
  Forall fnl (items (m_funcs (ps_m s))).
Proof.
  intros cf ver w s HP Hs. pose proof HP as E.
  apply WV.Proofs.CustomsCfg.parseM_inv in E. destruct E as (s1 & m1 & ids1 & prepared & m2 & E1 & E2 & E3 & Es).
  cbv zeta in Es.
  assert (F1 : Forall fnu (items (m_funcs (ps_m s1)))).
  { eapply parse_secs_FN; [exact E1|exact Hs|]. cbn. constructor. }
  destruct (WV.Proofs.Names.prepare_bodies_uninit _ _ _ _ _ _ _ _ E2) as [Fm U].
  assert (F2 : Forall fnl (items (m_funcs m2))).
  { eapply fnu_rel_fnl; [exact F1|]. eapply install_bodies_rel; [exact E3|exact U|]. rewrite Fm. apply fn_rel_refl. }
  rewrite Es. wcbn. fold (parse_all_names ids1 (ps_names s1) m2). rewrite all_names_funcs.
  apply apply_names_fnl. exact F2.
Qed.

Corollary parseM_local_func_named cf ver w s fid f lf : parseM cf ver w = POk s -> cf_synthetic_names cf = true ->
  aget (m_funcs (ps_m s)) fid = Some f -> fn_kind f = FK_Local lf -> fn_name f <> None.
Proof.
  intros HP Hs Hg Hk. pose proof (parseM_funcs_named _ _ _ _ HP Hs) as H. rewrite Forall_forall in H.
  specialize (H f (nth_error_In _ _ (aget_nth _ _ _ Hg))). unfold fnl in H. rewrite Hk in H. exact H.
Qed.

(* ====================================================================================== *)
(* 6. every configuration                                                                   *)
(* ====================================================================================== *)
(* The statement asked for ([two_trips -> valid_stream w -> locals_in_range w -> em_secs e2 = em_secs e1]) is NOT
   closed here: what is proved is the reduction to the two name facts (section 3), which hold trivially when the
   name section is skipped and are PROVED when names are not synthesised; for cf_skip_name = false and
   cf_synthetic_names = true they remain visible premises.  The parse invariants they follow from
   (sections 4 and 5) are proved; the missing link is the correspondence first module -> second parse
   (every function index / local slot of the second parse is the image of a named function / local of the first). *)
Theorem module_fixpoint_all_configs_partial : forall cf ver w ilen s1 e1 s2 e2,
  two_trips cf ver w ilen s1 e1 s2 e2 -> valid_stream w ->
  (cf_skip_name cf = false -> cf_synthetic_names cf = true ->
     ModFix21.funcs_named_kept s2 (stream_names (em_secs e1)) /\ locals_named_kept s2 (stream_names (em_secs e1))) ->
  em_secs e2 = em_secs e1.
Proof.
  intros cf ver w ilen s1 e1 s2 e2 TT V H.
  destruct (cf_skip_name cf) eqn:Sk.
  { exact (ModFix20.module_fixpoint_skip_name _ _ _ _ _ _ _ _ TT V Sk). }
  destruct (cf_synthetic_names cf) eqn:Sy.
  - destruct (H eq_refl eq_refl) as [PF PL].
    apply (module_fixpoint_synthetic_partial cf ver w ilen s1 e1 s2 e2 TT V); intros _; assumption.
  - destruct TT as (P1 & E1 & P2 & E2).
    eapply ModFix20.module_fixpoint_partial; [exact P1|exact E1|exact P2|exact E2|exact V|right; exact Sy].
Qed.

(* non-vacuity: synthetic names on, one UNNAMED function with a parameter and a DECLARED local that is used, no name
   section in the input: every premise holds, the first emit already carries "f0", "arg0", "l1" *)
Definition wN : wmod :=
  [ S_Types [([VT_I32], [])]; S_Funcs [0%N];
    S_Code [ModFixEx.body [(1%N, VT_I64)] [RPlain (W_LocalGet 1%N) 1%N]] ].
Lemma wN_valid : valid_stream wN.
Proof.
  unfold valid_stream, wN. cbn [valid_from]. unfold valid_sec.
  repeat match goal with |- _ /\ _ => split end;
    try (vm_compute; reflexivity); try exact I.
  cbn [cstep cstep0 set_last c_nt fold_left cimp wi_kind rank ctx0 length Nat.add].
  repeat constructor. exists [RPlain (W_LocalGet 1%N) 1%N], 99%N. split; [reflexivity|].
  cbn [swfl swf]. split; [|exact I]. intros f H; vm_compute in H; discriminate H.
Qed.
Example synthetic_nonvacuous :
  exists s1 e1 s2 e2, two_trips ModFixEx.syn_config [49%N] wN ModFixEx.il1 s1 e1 s2 e2 /\
    valid_stream wN /\ locals_in_range wN /\
    ModFix21.funcs_named_kept s2 (stream_names (em_secs e1)) /\ locals_named_kept s2 (stream_names (em_secs e1)) /\
    wn_funcs (stream_names (em_secs e1)) = [(0%N, [102%N; 48%N])] /\
    wn_locals (stream_names (em_secs e1)) = [(0%N, [(0%N, [97%N; 114%N; 103%N; 48%N]); (1%N, [108%N; 49%N])])] /\
    em_secs e2 = em_secs e1.
Proof.
  eexists. eexists. eexists. eexists.
  split; [unfold two_trips; split; [vm_compute; reflexivity|split; [vm_compute; reflexivity|split; [vm_compute; reflexivity|vm_compute; reflexivity]]]|].
  split; [exact wN_valid|]. split; [vm_compute; reflexivity|].
  split.
  { intros i f Hin Hne. vm_compute in Hin. destruct Hin as [Hin|[]]. inversion Hin; subst. vm_compute. left. reflexivity. }
  split.
  { intros fid lid lo Hv Hg. destruct fid as [|p].
    - vm_compute in Hv. destruct Hv as [<-|[<-|[]]]; vm_compute in Hg; inversion Hg; subst; vm_compute; reflexivity.
    - exfalso. vm_compute in Hv. exact Hv. }
  split; [vm_compute; reflexivity|]. split; vm_compute; reflexivity.
Qed.

Print Assumptions wP_violates.
Print Assumptions fix_names_locals_gen.
Print Assumptions locals_named_kept_nosyn.
Print Assumptions module_fixpoint_synthetic_partial.
Print Assumptions parseM_locals_named.
Print Assumptions parseM_local_named.
Print Assumptions parseM_funcs_named.
Print Assumptions parseM_local_func_named.
Print Assumptions module_fixpoint_all_configs_partial.
Print Assumptions synthetic_nonvacuous.
