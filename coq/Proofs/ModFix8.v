(* C08, module level fixpoint: the CUSTOM part of the stream (name / producers / raw custom sections).
   Decomposition of the custom payload of an emitted stream, and the fixpoint of the raw customs and
   of the producers section across two consecutive round trips. *)
From Coq Require Import List NArith ZArith Bool Arith Lia.
Import ListNotations.
From WV Require Import Gen.Ops Model.Common Model.IR Model.Arena Model.ModuleM Model.ParseM Model.EmitM.
From WV Require Import Proofs.IndexMaps Proofs.Structure Proofs.Structure2 Proofs.CustomsCfg Proofs.Names Proofs.ModFix.
Local Open Scope nat_scope.

(* ================================================================== A. payloads *)
Definition name_payload (w : list wsec) : list (option wnames) :=
  flat_map (fun s => match s with S_Custom (CS_Name n) => [n] | _ => [] end) w.
Definition prod_payload (w : list wsec) : list (option wproducers) :=
  flat_map (fun s => match s with S_Custom (CS_Producers p) => [p] | _ => [] end) w.
Definition debug_payload (w : list wsec) : list (str * list N) :=
  flat_map (fun s => match s with S_Custom (CS_Debug n d) => [(n, d)] | _ => [] end) w.
(* what parse accumulates in m_producers: the concatenation of the parsable producers sections *)
Definition prod_cat (w : list wsec) : wproducers :=
  flat_map (fun s => match s with S_Custom (CS_Producers (Some p)) => p | _ => [] end) w.
Definition mk_raw (c : str * list N) : wcsec := CS_Raw (fst c) (snd c).

Lemma name_payload_app a b : name_payload (a ++ b) = name_payload a ++ name_payload b.
Proof. apply flat_map_app. Qed.
Lemma prod_payload_app a b : prod_payload (a ++ b) = prod_payload a ++ prod_payload b.
Proof. apply flat_map_app. Qed.
Lemma debug_payload_app a b : debug_payload (a ++ b) = debug_payload a ++ debug_payload b.
Proof. apply flat_map_app. Qed.
Lemma prod_cat_app a b : prod_cat (a ++ b) = prod_cat a ++ prod_cat b.
Proof. apply flat_map_app. Qed.
Lemma customs_app a b : flat_map ModFix.customs_of (a ++ b) = flat_map ModFix.customs_of a ++ flat_map ModFix.customs_of b.
Proof. apply flat_map_app. Qed.

Lemma plain_flat {B} (f : wsec -> list B) l :
  (forall s, is_custom s = false -> f s = []) -> plain_secs l -> flat_map f l = [].
Proof.
  intros Hf. induction 1 as [|s l Hs _ IH]; [reflexivity|]. cbn [flat_map]. rewrite IH, (Hf _ Hs). reflexivity.
Qed.
Lemma plain_customs l : plain_secs l -> flat_map ModFix.customs_of l = [].
Proof. apply plain_flat. intros []; try discriminate; reflexivity. Qed.
Lemma plain_name l : plain_secs l -> name_payload l = [].
Proof. apply plain_flat. intros []; try discriminate; reflexivity. Qed.
Lemma plain_prod l : plain_secs l -> prod_payload l = [].
Proof. apply plain_flat. intros []; try discriminate; reflexivity. Qed.
Lemma plain_debug l : plain_secs l -> debug_payload l = [].
Proof. apply plain_flat. intros []; try discriminate; reflexivity. Qed.
Lemma plain_prod_cat l : plain_secs l -> prod_cat l = [].
Proof. apply plain_flat. intros []; try discriminate; reflexivity. Qed.

(* the raw custom sections written by emit *)
Lemma sec_customs_payloads cs :
  flat_map ModFix.customs_of (CustomsCfg.sec_customs cs) = map mk_raw (CustomsCfg.raw_customs (CustomsCfg.sec_customs cs)) /\
  name_payload (CustomsCfg.sec_customs cs) = [] /\ prod_payload (CustomsCfg.sec_customs cs) = [] /\
  debug_payload (CustomsCfg.sec_customs cs) = [] /\ prod_cat (CustomsCfg.sec_customs cs) = [].
Proof.
  induction cs as [|[c|] cs IH]; [repeat split; reflexivity| |exact IH].
  destruct IH as (I1 & I2 & I3 & I4 & I5).
  unfold CustomsCfg.sec_customs in *. cbn [flat_map].
  rewrite customs_app, name_payload_app, prod_payload_app, debug_payload_app, prod_cat_app, raw_customs_app, map_app.
  rewrite I1, I2, I3, I4, I5.
  destruct (starts_with_debug (cu_name c)); repeat split; reflexivity.
Qed.

Lemma sec_producers_payloads cf p :
  flat_map ModFix.customs_of (CustomsCfg.sec_producers cf p) = map CS_Producers (prod_payload (CustomsCfg.sec_producers cf p)) /\
  name_payload (CustomsCfg.sec_producers cf p) = [] /\ debug_payload (CustomsCfg.sec_producers cf p) = [] /\
  prod_payload (CustomsCfg.sec_producers cf p) = (if cf_skip_producers cf then [] else match p with [] => [] | _ => [Some p] end) /\
  prod_cat (CustomsCfg.sec_producers cf p) = (if cf_skip_producers cf then [] else p).
Proof.
  unfold CustomsCfg.sec_producers. destruct (cf_skip_producers cf); [repeat split; reflexivity|].
  destruct p as [|a p]; repeat split; try reflexivity.
  unfold prod_cat. cbn [flat_map]. rewrite app_nil_r. reflexivity.
Qed.

Lemma sec_names_payloads cf m0 x efs l : CustomsCfg.sec_names cf m0 x efs = Ok l ->
  flat_map ModFix.customs_of l = map CS_Name (name_payload l) /\
  prod_payload l = [] /\ debug_payload l = [] /\ prod_cat l = [] /\
  (name_payload l = [] \/ exists n, name_payload l = [Some n]) /\
  (cf_skip_name cf = true -> name_payload l = []).
Proof.
  unfold CustomsCfg.sec_names. destruct (cf_skip_name cf).
  - intros [= <-]. repeat split; try reflexivity. left; reflexivity.
  - intros H. apply emit_names_shape in H. destruct H as [->|[n ->]].
    + repeat split; try reflexivity; try discriminate. left; reflexivity.
    + repeat split; try reflexivity; try discriminate. right. exists n. reflexivity.
Qed.

(* ================================================================== B. the shape of an emitted stream (dw = []) *)
Lemma emitM_shape m ilen e : emitM m ilen [] = Ok e ->
  exists front x efs nm,
    plain_secs front /\ CustomsCfg.sec_names (m_config m) m x efs = Ok nm /\
    em_secs e = front ++ nm ++ CustomsCfg.sec_producers (m_config m) (m_producers m) ++ CustomsCfg.sec_customs (m_customs m).
Proof.
  intros H. rewrite emitM_factor in H. change (set_customs_take m) with m in H.
  destruct (emit_front m ilen) as [[[front x] efs]| |] eqn:Ef; cbn [rbind] in H; try discriminate.
  apply emit_front_plain in Ef. unfold emit_tail in H.
  destruct (CustomsCfg.sec_names _ _ x efs) as [nm| |] eqn:En; cbn [rbind] in H; try discriminate.
  injection H as <-. cbn [em_secs]. exists front, x, efs, nm. split; [exact Ef|]. split; [exact En|].
  unfold sec_dwarf. destruct (cf_generate_dwarf _); reflexivity.
Qed.

(* everything about the custom payloads of one emitted stream *)
Lemma emitM_payloads m ilen e : emitM m ilen [] = Ok e ->
  flat_map ModFix.customs_of (em_secs e)
    = map CS_Name (name_payload (em_secs e)) ++ map CS_Producers (prod_payload (em_secs e)) ++ map mk_raw (CustomsCfg.raw_customs (em_secs e)) /\
  debug_payload (em_secs e) = [] /\
  (name_payload (em_secs e) = [] \/ exists n, name_payload (em_secs e) = [Some n]) /\
  (cf_skip_name (m_config m) = true -> name_payload (em_secs e) = []) /\
  prod_payload (em_secs e) = (if cf_skip_producers (m_config m) then [] else match m_producers m with [] => [] | p => [Some p] end) /\
  prod_cat (em_secs e) = (if cf_skip_producers (m_config m) then [] else m_producers m).
Proof.
  intros H. destruct (emitM_shape _ _ _ H) as (front & x & efs & nm & Pf & En & ->).
  pose proof (sec_names_raw _ _ _ _ _ En) as Rn.
  apply sec_names_payloads in En. destruct En as (N1 & N2 & N3 & N4 & N5 & N6).
  destruct (sec_producers_payloads (m_config m) (m_producers m)) as (P1 & P2 & P3 & P4 & P5).
  destruct (sec_customs_payloads (m_customs m)) as (C1 & C2 & C3 & C4 & C5).
  rewrite !customs_app, !name_payload_app, !prod_payload_app, !debug_payload_app, !prod_cat_app, !raw_customs_app.
  rewrite (plain_customs _ Pf), (plain_name _ Pf), (plain_prod _ Pf), (plain_debug _ Pf), (plain_prod_cat _ Pf), (plain_raw _ Pf).
  rewrite N1, N2, N3, N4, P1, P2, P3, P5, C1, C2, C3, C4, C5, Rn, sec_producers_raw.
  cbn [app]. rewrite !app_nil_r.
  repeat split; try assumption.
  destruct (m_producers m); exact P4.
Qed.

(* ================================================================== C. parse side: who touches m_producers *)
(* (the frame lemmas of CustomsCfg.v for m_customs, replayed for m_producers) *)

Lemma types_insert_prods m t m' id : types_insert m t = (m', id) -> m_producers m' = m_producers m.
Proof. unfold types_insert. destruct (insert _ _ _) as [s' i]. intros [= <- _]. reflexivity. Qed.

Lemma parse_types_prods ts : forall m ids m' ids',
  parse_types m ids ts = (m', ids') -> m_producers m' = m_producers m.
Proof.
  induction ts as [|[ps rs] r IH]; intros m ids m' ids'; cbn [parse_types].
  - intros [= <- _]. reflexivity.
  - destruct (types_insert m _) as [m1 id] eqn:E. intros H. apply IH in H. rewrite H.
    eapply types_insert_prods. exact E.
Qed.

Lemma parse_import_prods m ids i x : parse_import m ids i = POk x -> m_producers (fst x) = m_producers m.
Proof. unfold parse_import. repeat pstep; intros [= <-]; reflexivity. Qed.

Lemma parse_imports_prods l : forall m ids x, parse_imports m ids l = POk x -> m_producers (fst x) = m_producers m.
Proof.
  induction l as [|a l IH]; intros m ids x; cbn [parse_imports].
  - intros [= <-]. reflexivity.
  - destruct (parse_import m ids a) as [y| |] eqn:E; cbn [pbind]; try discriminate.
    intros H. apply IH in H. rewrite H. eapply parse_import_prods. exact E.
Qed.

Lemma parse_funcs_prods l : forall m ids x, parse_funcs m ids l = POk x -> m_producers (fst x) = m_producers m.
Proof.
  induction l as [|a l IH]; intros m ids x; cbn [parse_funcs].
  - intros [= <-]. reflexivity.
  - pstep. pstep. intros H. apply IH in H. rewrite H. reflexivity.
Qed.

Lemma parse_tables_prods l : forall m ids m' ids', parse_tables m ids l = (m', ids') -> m_producers m' = m_producers m.
Proof.
  induction l as [|a l IH]; intros m ids m' ids'; cbn [parse_tables].
  - intros [= <- _]. reflexivity.
  - destruct (aalloc _ _) as [ta tid]. intros H. apply IH in H. rewrite H. reflexivity.
Qed.

Lemma parse_mems_prods l : forall m ids m' ids', parse_mems m ids l = (m', ids') -> m_producers m' = m_producers m.
Proof.
  induction l as [|a l IH]; intros m ids m' ids'; cbn [parse_mems].
  - intros [= <- _]. reflexivity.
  - destruct (aalloc _ _) as [ta tid]. intros H. apply IH in H. rewrite H. reflexivity.
Qed.

Lemma parse_globals_prods l : forall m ids x, parse_globals m ids l = POk x -> m_producers (fst x) = m_producers m.
Proof.
  induction l as [|[g c] l IH]; intros m ids x; cbn [parse_globals].
  - intros [= <-]. reflexivity.
  - pstep. pstep. intros H. apply IH in H. rewrite H. reflexivity.
Qed.

Lemma parse_exports_prods l : forall m ids m', parse_exports m ids l = POk m' -> m_producers m' = m_producers m.
Proof.
  induction l as [|a l IH]; intros m ids m'; cbn [parse_exports].
  - intros [= <-]. reflexivity.
  - pstep. pstep. intros H. apply IH in H. rewrite H. reflexivity.
Qed.

Lemma parse_elem_producers m ids e x : parse_elem m ids e = POk x -> m_producers (fst x) = m_producers m.
Proof.
  unfold parse_elem.
  match goal with |- pbind ?A _ = _ -> _ => destruct A as [items_| |]; cbn [pbind]; cbv zeta; try (intro; discriminate) end.
  match goal with |- pbind ?A _ = _ -> _ => destruct A as [[m1 kind]| |] eqn:E; cbn [pbind]; cbv zeta; try (intro; discriminate) end.
  assert (Hm1 : m_producers m1 = m_producers m).
  { revert E. repeat pstep; intros [= <- _]; reflexivity. }
  pstep. intros [= <-]. cbn [fst]. rewrite <- Hm1. reflexivity.
Qed.

Lemma parse_elems_prods l : forall m ids x, parse_elems m ids l = POk x -> m_producers (fst x) = m_producers m.
Proof.
  induction l as [|a l IH]; intros m ids x; cbn [parse_elems].
  - intros [= <-]. reflexivity.
  - destruct (parse_elem m ids a) as [y| |] eqn:E; cbn [pbind]; try discriminate.
    intros H. apply IH in H. rewrite H. eapply parse_elem_producers. exact E.
Qed.

Lemma reserve_data_prods n : forall m ids m' ids', reserve_data m ids n = (m', ids') -> m_producers m' = m_producers m.
Proof.
  induction n as [|n IH]; intros m ids m' ids'; cbn [reserve_data].
  - intros [= <- _]. reflexivity.
  - destruct (aalloc _ _) as [da did]. intros H. apply IH in H. rewrite H. reflexivity.
Qed.

Lemma parse_data_from_producers l : forall m ids pre i x,
  parse_data_from m ids pre i l = POk x -> m_producers (fst x) = m_producers m.
Proof.
  induction l as [|d l IH]; intros m ids pre i x; cbn [parse_data_from].
  - intros [= <-]. reflexivity.
  - match goal with |- pbind ?A _ = _ -> _ => destruct A as [[[m1 ids1] id]| |] eqn:E1; cbn [pbind]; cbv zeta; try (intro; discriminate) end.
    assert (H1 : m_producers m1 = m_producers m).
    { revert E1. repeat pstep; intros [= <- _ _]; reflexivity. }
    match goal with |- pbind ?A _ = _ -> _ => destruct A as [[m2 kind]| |] eqn:E2; cbn [pbind]; cbv zeta; try (intro; discriminate) end.
    assert (H2 : m_producers m2 = m_producers m1).
    { revert E2. repeat pstep; intros [= <- _]; reflexivity. }
    pstep. intros H. apply IH in H. rewrite H. cbn [m_producers set_data]. congruence.
Qed.

Lemma parse_data_prods m ids l x : parse_data m ids l = POk x -> m_producers (fst x) = m_producers m.
Proof. unfold parse_data. apply parse_data_from_producers. Qed.

Lemma apply_local_names_prods ids l : forall m m', apply_local_names m ids l = Some m' -> m_producers m' = m_producers m.
Proof.
  induction l as [|[fi names] l IH]; intros m m'; cbn [apply_local_names].
  - intros [= <-]. reflexivity.
  - destruct (nth_N (ii_funcs ids) fi); [|apply IH]. cbv zeta. intros H. apply IH in H. rewrite H. reflexivity.
Qed.

Lemma parse_names_prods m ids n : m_producers (parse_names m ids n) = m_producers m.
Proof.
  unfold parse_names. cbv zeta.
  destruct (apply_local_names _ ids (wn_locals n)) as [w|] eqn:E.
  - transitivity (m_producers w); [reflexivity|].
    apply apply_local_names_prods in E. rewrite E. destruct (wn_module n); reflexivity.
  - destruct (wn_module n); reflexivity.
Qed.

Lemma fold_parse_names_prods ids ns : forall m,
  m_producers (fold_left (fun m n => parse_names m ids n) ns m) = m_producers m.
Proof.
  induction ns as [|n ns IH]; intros m; cbn [fold_left]; [reflexivity|].
  rewrite IH. apply parse_names_prods.
Qed.

Lemma add_locals_prods tys : forall m ids fid prefix m' ids' l,
  add_locals m ids fid tys prefix = (m', ids', l) -> m_producers m' = m_producers m.
Proof.
  induction tys as [|t r IH]; intros m ids fid prefix m' ids' l; cbn [add_locals].
  - intros [= <- _ _]. reflexivity.
  - destruct (aalloc _ _) as [la lid]. cbv zeta.
    destruct (add_locals _ _ fid r prefix) as [[m1 ids1] rest] eqn:E. intros [= <- _ _].
    apply IH in E. rewrite E. reflexivity.
Qed.

Lemma prepare_bodies_prods bs : forall m ids ni i m' ids' ps,
  prepare_bodies m ids ni i bs = POk (m', ids', ps) -> m_producers m' = m_producers m.
Proof.
  induction bs as [|b r IH]; intros m ids ni i m' ids' ps; cbn [prepare_bodies].
  - intros [= <- _ _]. reflexivity.
  - pstep. pstep. destruct (fn_kind _); try (intro; discriminate). pstep.
    destruct (add_locals m ids _ _ _) as [[m1 ids1] args] eqn:E1.
    destruct (types_insert m1 _) as [m2 tid] eqn:E2.
    destruct (add_locals m2 ids1 _ _ _) as [[m3 ids3] ls] eqn:E3.
    destruct (prepare_bodies m3 ids3 ni _ r) as [[[m4 ids4] rest]| |] eqn:E4; cbn [pbind]; try discriminate.
    intros [= <- _ _].
    apply IH in E4. apply add_locals_prods in E3. apply types_insert_prods in E2. apply add_locals_prods in E1.
    congruence.
Qed.

Lemma install_bodies_prods ps : forall m ids m', install_bodies m ids ps = POk m' -> m_producers m' = m_producers m.
Proof.
  induction ps as [|p r IH]; intros m ids m'; cbn [install_bodies].
  - intros [= <-]. reflexivity.
  - pstep. intros H. apply IH in H. rewrite H. reflexivity.
Qed.


Lemma parse_custom_prods s c :
  m_producers (ps_m (parse_custom s c)) = m_producers (ps_m s) ++ prod_cat [S_Custom c].
Proof.
  destruct c as [name data|name data|[n|]|[p|]]; unfold prod_cat; cbn [parse_custom flat_map app];
    rewrite ?app_nil_r; try reflexivity.
Qed.

Lemma parse_sec_prods s sec s' :
  parse_sec s sec = POk s' -> m_producers (ps_m s') = m_producers (ps_m s) ++ prod_cat [sec].
Proof.
  destruct sec; cbn [parse_sec]; cbv zeta;
    try (change (prod_cat [_]) with (@nil (str * list (str * str))); rewrite app_nil_r).
  - destruct (parse_types _ _ _) as [m1 i1] eqn:E. intros [= <-]. eapply parse_types_prods. exact E.
  - pstep. intros [= <-]. eapply (parse_imports_prods _ _ _ _). eassumption.
  - pstep. intros [= <-]. eapply (parse_funcs_prods _ _ _ _). eassumption.
  - destruct (parse_tables _ _ _) as [m1 i1] eqn:E. intros [= <-]. eapply parse_tables_prods. exact E.
  - destruct (parse_mems _ _ _) as [m1 i1] eqn:E. intros [= <-]. eapply parse_mems_prods. exact E.
  - pstep. intros [= <-]. eapply (parse_globals_prods _ _ _ _). eassumption.
  - pstep. intros [= <-]. eapply parse_exports_prods. eassumption.
  - pstep. intros [= <-]. reflexivity.
  - pstep. intros [= <-]. eapply (parse_elems_prods _ _ _ _). eassumption.
  - destruct (reserve_data _ _ _) as [m1 i1] eqn:E. intros [= <-]. eapply reserve_data_prods. exact E.
  - intros [= <-]. reflexivity.
  - pstep. intros [= <-]. eapply (parse_data_prods _ _ _ _). eassumption.
  - intros [= <-]. apply parse_custom_prods.
Qed.

Lemma parse_secs_prods w : forall s s',
  parse_secs s w = POk s' -> m_producers (ps_m s') = m_producers (ps_m s) ++ prod_cat w.
Proof.
  induction w as [|x r IH]; intros s s'; cbn [parse_secs].
  - intros [= <-]. cbn. rewrite app_nil_r. reflexivity.
  - destruct (parse_sec s x) as [s1| |] eqn:E; cbn [pbind]; try discriminate.
    intros H. apply IH in H. rewrite H. apply parse_sec_prods in E. rewrite E.
    rewrite <- app_assoc. change (x :: r) with ([x] ++ r). rewrite prod_cat_app. reflexivity.
Qed.

(* m_producers of a parsed module: the concatenated producers sections, with the walrus entry added/replaced *)
Theorem parseM_producers : forall cf ver w s, parseM cf ver w = POk s ->
  m_producers (ps_m s) = producers_field (prod_cat w) s_processed_by s_walrus ver.
Proof.
  intros cf ver w s H. apply parseM_inv in H. destruct H as (s1 & m1 & ids1 & prepared & m2 & E1 & E2 & E3 & ->).
  apply parse_secs_prods in E1. apply prepare_bodies_prods in E2. apply install_bodies_prods in E3.
  cbn [ps_m] in *. cbn [m_producers set_producers]. rewrite fold_parse_names_prods.
  f_equal. rewrite E3, E2, E1. reflexivity.
Qed.

(* ================================================================== D. the theorems *)
(* C1: decomposition of the custom payload of an emitted stream: name ; producers ; raw customs, no .debug section,
   at most one name section and at most one producers section, both parsable ([Some]) *)
Theorem emit_customs_payload : forall m ilen e, emitM m ilen [] = Ok e ->
  flat_map ModFix.customs_of (em_secs e)
    = map CS_Name (name_payload (em_secs e)) ++ map CS_Producers (prod_payload (em_secs e)) ++
      map (fun c => CS_Raw (fst c) (snd c)) (CustomsCfg.raw_customs (em_secs e)) /\
  debug_payload (em_secs e) = [] /\
  (name_payload (em_secs e) = [] \/ exists n, name_payload (em_secs e) = [Some n]) /\
  (prod_payload (em_secs e) = [] \/ exists p, prod_payload (em_secs e) = [Some p]).
Proof.
  intros m ilen e H. destruct (emitM_payloads _ _ _ H) as (H1 & H2 & H3 & _ & H5 & _).
  split; [exact H1|]. split; [exact H2|]. split; [exact H3|].
  rewrite H5. destruct (cf_skip_producers _); [left; reflexivity|].
  destruct (m_producers m) as [|a p]; [left; reflexivity|right; eexists; reflexivity].
Qed.

(* the emitted raw customs never start with ".debug": they are a fixpoint of the emit-time filter *)
Lemma filter_idem {A} (f : A -> bool) l : filter f (filter f l) = filter f l.
Proof.
  induction l as [|a l IH]; [reflexivity|]. cbn [filter]. destruct (f a) eqn:E; [|exact IH].
  cbn [filter]. rewrite E, IH. reflexivity.
Qed.

(* C2 *)
Theorem fix_raw : forall cf ver w ilen s1 e1 s2 e2, two_trips cf ver w ilen s1 e1 s2 e2 ->
  CustomsCfg.raw_customs (em_secs e2) = CustomsCfg.raw_customs (em_secs e1).
Proof.
  intros cf ver w ilen s1 e1 s2 e2 (P1 & E1 & P2 & E2).
  rewrite (c12_roundtrip _ _ _ _ _ _ _ P2 E2 eq_refl).
  rewrite (c12_roundtrip _ _ _ _ _ _ _ P1 E1 eq_refl).
  apply filter_idem.
Qed.

(* the producers field of the second parse = the one of the first parse *)
Lemma fix_m_producers : forall cf ver w ilen s1 e1 s2 e2, two_trips cf ver w ilen s1 e1 s2 e2 ->
  cf_skip_producers cf = false -> m_producers (ps_m s2) = m_producers (ps_m s1).
Proof.
  intros cf ver w ilen s1 e1 s2 e2 (P1 & E1 & P2 & E2) Hs.
  rewrite (parseM_producers _ _ _ _ P2).
  destruct (emitM_payloads _ _ _ E1) as (_ & _ & _ & _ & _ & H6).
  rewrite H6, (parseM_config _ _ _ _ P1), Hs.
  rewrite (parseM_producers _ _ _ _ P1). apply producers_idempotent.
Qed.

(* C3 *)
Theorem fix_producers : forall cf ver w ilen s1 e1 s2 e2, two_trips cf ver w ilen s1 e1 s2 e2 ->
  prod_payload (em_secs e2) = prod_payload (em_secs e1).
Proof.
  intros cf ver w ilen s1 e1 s2 e2 T. pose proof T as (P1 & E1 & P2 & E2).
  destruct (emitM_payloads _ _ _ E1) as (_ & _ & _ & _ & H1 & _).
  destruct (emitM_payloads _ _ _ E2) as (_ & _ & _ & _ & H2 & _).
  rewrite H1, H2, (parseM_config _ _ _ _ P1), (parseM_config _ _ _ _ P2).
  destruct (cf_skip_producers cf) eqn:Hs; [reflexivity|].
  rewrite (fix_m_producers _ _ _ _ _ _ _ _ T Hs). reflexivity.
Qed.

(* C4 *)
Theorem fix_customs : forall cf ver w ilen s1 e1 s2 e2, two_trips cf ver w ilen s1 e1 s2 e2 ->
  name_payload (em_secs e2) = name_payload (em_secs e1) ->
  flat_map ModFix.customs_of (em_secs e2) = flat_map ModFix.customs_of (em_secs e1).
Proof.
  intros cf ver w ilen s1 e1 s2 e2 T Hn. pose proof T as (P1 & E1 & P2 & E2).
  destruct (emit_customs_payload _ _ _ E1) as (H1 & _).
  destruct (emit_customs_payload _ _ _ E2) as (H2 & _).
  rewrite H1, H2, Hn, (fix_producers _ _ _ _ _ _ _ _ T), (fix_raw _ _ _ _ _ _ _ _ T). reflexivity.
Qed.

(* C5 *)
Theorem skip_name_case : forall cf ver w ilen s1 e1 s2 e2, two_trips cf ver w ilen s1 e1 s2 e2 ->
  cf_skip_name cf = true -> name_payload (em_secs e2) = name_payload (em_secs e1).
Proof.
  intros cf ver w ilen s1 e1 s2 e2 (P1 & E1 & P2 & E2) Hs.
  destruct (emitM_payloads _ _ _ E1) as (_ & _ & _ & H1 & _).
  destruct (emitM_payloads _ _ _ E2) as (_ & _ & _ & H2 & _).
  rewrite (parseM_config _ _ _ _ P1) in H1. rewrite (parseM_config _ _ _ _ P2) in H2.
  rewrite (H1 Hs), (H2 Hs). reflexivity.
Qed.

(* corollaries: with names skipped the whole custom part is a fixpoint; the payload of any emitted stream
   contains no CS_Debug and is laid out name ; producers ; raw *)
Corollary fix_customs_skip_name : forall cf ver w ilen s1 e1 s2 e2, two_trips cf ver w ilen s1 e1 s2 e2 ->
  cf_skip_name cf = true ->
  flat_map ModFix.customs_of (em_secs e2) = flat_map ModFix.customs_of (em_secs e1).
Proof.
  intros cf ver w ilen s1 e1 s2 e2 T Hs. apply (fix_customs _ _ _ _ _ _ _ _ T).
  apply (skip_name_case _ _ _ _ _ _ _ _ T Hs).
Qed.

Print Assumptions emit_customs_payload.
Print Assumptions parseM_producers.
Print Assumptions fix_raw.
Print Assumptions fix_producers.
Print Assumptions fix_customs.
Print Assumptions skip_name_case.
Print Assumptions fix_customs_skip_name.
