(* Executable model of src/module/debug/units.rs `DebuggingInformationCursor`: the explicit-stack cursor with which the DWARF
   emitter walks the entries of the converted unit in step with gimli's reader cursor over the input unit
   (convert_high_pc zips the two).  The Rust stack has its top at the END of the Vec; here the top is the HEAD:
   `pop` = take the head, `append(children reversed)` = put the children, in order, in front. *)
From Coq Require Import List NArith. Import ListNotations.

Inductive dtree := DNode (id : N) (kids : list dtree).
Definition did (t : dtree) : N := match t with DNode i _ => i end.

(* entry_id_stack, called_next_dfs *)
Record cursor := { c_stack : list dtree; c_called : bool }.
Definition cursor0 : cursor := {| c_stack := []; c_called := false |}.

Definition current (c : cursor) : option N := match c_stack c with [] => None | t :: _ => Some (did t) end.

(* next_dfs: new cursor and the entry it returns *)
Definition next_dfs (root : dtree) (c : cursor) : cursor * option N :=
  if negb (c_called c) then
    let c' := {| c_stack := root :: c_stack c; c_called := true |} in (c', current c')
  else match c_stack c with
       | [] => (c, None)
       | DNode _ kids :: rest => let c' := {| c_stack := kids ++ rest; c_called := true |} in (c', current c')
       end.

(* `while let Some(e) = cursor.next_dfs()`: the ids returned until the first None; [fuel] bounds the number of calls *)
Fixpoint visit (root : dtree) (fuel : nat) (c : cursor) : list N :=
  match fuel with
  | O => []
  | S f => match next_dfs root c with
           | (c', Some i) => i :: visit root f c'
           | (_, None) => []
           end
  end.

Fixpoint dsize (t : dtree) : nat := match t with DNode _ kids => S (fold_right (fun k n => dsize k + n) 0 kids) end.
Fixpoint preorder (t : dtree) : list N := match t with DNode i kids => i :: flat_map preorder kids end.

Definition visit_all (root : dtree) : list N := visit root (S (dsize root)) cursor0.

(* convert_high_pc: `while let (Ok(Some(from)), Some(to)) = (from_unit.next_dfs(), unit.next_dfs())`: gimli's reader cursor over the
   input unit (pre-order, gimli's) in step with the cursor above over the converted unit; the loop stops when either ends *)
Definition high_pc_pairs (from to : dtree) : list (N * N) := combine (preorder from) (visit_all to).
Fixpoint map_tree (f : N -> N) (t : dtree) : dtree := match t with DNode i kids => DNode (f i) (map (map_tree f) kids) end.
