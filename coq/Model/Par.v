(* Schedule-independence of the three `maybe_parallel!` sites (REGENERATED list: Gen/ParSites.v).
   rayon's indexed `map(..).collect::<Vec<_>>()` evaluates the closure on every item in some order on some threads and
   stores the result of item i in slot i; `any(..)` evaluates items in some order, may stop at the first hit and may
   skip the rest.  A schedule is the order in which the items get evaluated (a list of indices); for closures without
   side effects the interleaving of two evaluations is irrelevant, so an order is all a schedule is. *)
From Coq Require Import List Arith Bool. Import ListNotations.

Section Par.
  Context {A B : Type}.

  Fixpoint set_slot (slots : list (option B)) (i : nat) (v : B) : list (option B) :=
    match slots, i with
    | [], _ => []
    | _ :: r, O => Some v :: r
    | x :: r, S k => x :: set_slot r k v
    end.

  (* evaluate in schedule order, write into the slots *)
  Definition par_map_slots (sched : list nat) (f : A -> B) (l : list A) : list (option B) :=
    fold_left (fun slots i => match nth_error l i with Some a => set_slot slots i (f a) | None => slots end)
              sched (repeat None (length l)).

  (* collect: every slot must have been filled *)
  Fixpoint all_some (l : list (option B)) : option (list B) :=
    match l with
    | [] => Some []
    | Some x :: r => option_map (cons x) (all_some r)
    | None :: _ => None
    end.
  Definition par_map_collect (sched : list nat) (f : A -> B) (l : list A) : option (list B) :=
    all_some (par_map_slots sched f l).

  (* any: visit in schedule order, stop at the first hit; items after it (in schedule order) are never looked at *)
  Fixpoint par_any (sched : list nat) (p : A -> bool) (l : list A) : bool :=
    match sched with
    | [] => false
    | i :: r => match nth_error l i with
                | Some a => if p a then true else par_any r p l
                | None => par_any r p l
                end
    end.
End Par.

(* parse_local_functions: the results are consumed sequentially, in index order, with `?` *)
Fixpoint first_err {E T} (l : list (E + T)) : option E :=
  match l with [] => None | inl e :: _ => Some e | inr _ :: r => first_err r end.
