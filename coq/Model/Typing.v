(* An abstract stack typing of structured function bodies [rt] (Model/ParseSpec.v), PARAMETRIC in the value types, in the
   typing of the individual operators and in the meaning of block types - the declarative typing of the WebAssembly
   specification (a sequence is typed  ins -> outs ; every rule carries its own frame [f], i.e. the untouched bottom of the
   stack; the top of the stack is the END of the list; an instruction that never falls through - br, br_table, return,
   unreachable - is stack-polymorphic: it consumes what it needs from ANY stack and yields ANY result).
   [ht]  is that typing of a whole body;
   [hl]  is the same typing but looking only at the code the round trip KEEPS: everything after the first br / br_table /
         return / unreachable of a sequence is ignored (a validator is laxer on such code than the declarative rules, and
         the round trip drops it).
   Definitions only; the theorems (Proofs/TypingNf.v) relate them to the normal form [nf_rt_list] of Model/Sem.v. *)
From Coq Require Import List NArith Bool. Import ListNotations.
From WV Require Import Gen.Ops Model.Common Model.IR Model.ParseFn Model.ParseSpec.
Open Scope N_scope.

(* the instructions after which the body parser sets its `unreachable` flag (Model/Sem.v [nf_rt], second component) *)
Definition never_falls (t : rt) : bool :=
  match t with
  | RPlain o _ => marks_unreachable o
  | RBr _ _ | RBrTable _ _ _ => true
  | _ => false
  end.

Section Typing.
  Variable T : Type.                                   (* value types *)
  Variable t_i32 : T.                                  (* the type of conditions and br_table indices *)
  Variable optype : wins -> list T -> list T -> Prop.  (* a plain operator [WOp o]: consumes, produces (one instance of a polymorphic operator per pair) *)
  Variable opdead : wins -> list T -> Prop.            (* return / unreachable: what they consume; the rest of the stack and the result are arbitrary *)
  Variable params results : blockty -> list T.

  (* labels, innermost first: what a branch to the label consumes *)
  Inductive ht : list (list T) -> list rt -> list T -> list T -> Prop :=
  | HT_nil : forall L a, ht L [] a a
  | HT_cons : forall L t l a b c, ht1 L t a b -> ht L l b c -> ht L (t :: l) a c
  with ht1 : list (list T) -> rt -> list T -> list T -> Prop :=
  | HT_plain : forall L o loc f i r,
      marks_unreachable o = false -> optype (WOp o) i r -> ht1 L (RPlain o loc) (f ++ i) (f ++ r)
  | HT_dead : forall L o loc f i b,
      marks_unreachable o = true -> opdead (WOp o) i -> ht1 L (RPlain o loc) (f ++ i) b
  | HT_nop : forall L loc a, ht1 L (RNop loc) a a
  | HT_br : forall L d loc f ts b,
      nth_error L (N.to_nat d) = Some ts -> ht1 L (RBr d loc) (f ++ ts) b
  | HT_br_if : forall L d loc f ts,
      nth_error L (N.to_nat d) = Some ts -> ht1 L (RBrIf d loc) (f ++ ts ++ [t_i32]) (f ++ ts)
  | HT_br_table : forall L ds d loc f ts b,
      nth_error L (N.to_nat d) = Some ts ->
      Forall (fun x => nth_error L (N.to_nat x) = Some ts) ds ->
      ht1 L (RBrTable ds d loc) (f ++ ts ++ [t_i32]) b
  | HT_block : forall L bt body loc lend f,
      ht (results bt :: L) body (params bt) (results bt) ->
      ht1 L (RBlock bt body loc lend) (f ++ params bt) (f ++ results bt)
  | HT_loop : forall L bt body loc lend f,
      ht (params bt :: L) body (params bt) (results bt) ->
      ht1 L (RLoop bt body loc lend) (f ++ params bt) (f ++ results bt)
  | HT_if_else : forall L bt th le el loc lend f,
      ht (results bt :: L) th (params bt) (results bt) ->
      ht (results bt :: L) el (params bt) (results bt) ->
      ht1 L (RIf bt th (Some (le, el)) loc lend) (f ++ params bt ++ [t_i32]) (f ++ results bt)
  | HT_if : forall L bt th loc lend f,            (* no `else`: typed as with an empty one *)
      ht (results bt :: L) th (params bt) (results bt) ->
      params bt = results bt ->
      ht1 L (RIf bt th None loc lend) (f ++ params bt ++ [t_i32]) (f ++ results bt).

  (* the same rules, but a sequence is only looked at up to and including its first instruction that never falls through *)
  Inductive hl : list (list T) -> list rt -> list T -> list T -> Prop :=
  | HL_nil : forall L a, hl L [] a a
  | HL_cons : forall L t l a b c, never_falls t = false -> hl1 L t a b -> hl L l b c -> hl L (t :: l) a c
  | HL_cut : forall L t l a b c, never_falls t = true -> hl1 L t a b -> hl L (t :: l) a c
  with hl1 : list (list T) -> rt -> list T -> list T -> Prop :=
  | HL_plain : forall L o loc f i r,
      marks_unreachable o = false -> optype (WOp o) i r -> hl1 L (RPlain o loc) (f ++ i) (f ++ r)
  | HL_dead : forall L o loc f i b,
      marks_unreachable o = true -> opdead (WOp o) i -> hl1 L (RPlain o loc) (f ++ i) b
  | HL_nop : forall L loc a, hl1 L (RNop loc) a a
  | HL_br : forall L d loc f ts b,
      nth_error L (N.to_nat d) = Some ts -> hl1 L (RBr d loc) (f ++ ts) b
  | HL_br_if : forall L d loc f ts,
      nth_error L (N.to_nat d) = Some ts -> hl1 L (RBrIf d loc) (f ++ ts ++ [t_i32]) (f ++ ts)
  | HL_br_table : forall L ds d loc f ts b,
      nth_error L (N.to_nat d) = Some ts ->
      Forall (fun x => nth_error L (N.to_nat x) = Some ts) ds ->
      hl1 L (RBrTable ds d loc) (f ++ ts ++ [t_i32]) b
  | HL_block : forall L bt body loc lend f,
      hl (results bt :: L) body (params bt) (results bt) ->
      hl1 L (RBlock bt body loc lend) (f ++ params bt) (f ++ results bt)
  | HL_loop : forall L bt body loc lend f,
      hl (params bt :: L) body (params bt) (results bt) ->
      hl1 L (RLoop bt body loc lend) (f ++ params bt) (f ++ results bt)
  | HL_if_else : forall L bt th le el loc lend f,
      hl (results bt :: L) th (params bt) (results bt) ->
      hl (results bt :: L) el (params bt) (results bt) ->
      hl1 L (RIf bt th (Some (le, el)) loc lend) (f ++ params bt ++ [t_i32]) (f ++ results bt)
  | HL_if : forall L bt th loc lend f,
      hl (results bt :: L) th (params bt) (results bt) ->
      params bt = results bt ->
      hl1 L (RIf bt th None loc lend) (f ++ params bt ++ [t_i32]) (f ++ results bt).
End Typing.
