(* A VALIDATOR for the integer / memory core of WebAssembly (the 98 operators of Model/SemCore.v [is_core_shape]) on
   structured bodies [rt], and the CONCRETE instance of the declarative typing of Model/Typing.v it is compared with.
   Definitions only, executable.
     [core_sig]      the monomorphic signature of a core operator in an environment (None = not a core operator, or
                     an immediate the environment does not allow);
     [core_optype] / [core_opdead] / [bt_params] / [bt_results]   the parameters of [ht] / [hl];
     [chk1] / [chk] / [check_body]   the standard algorithm: an operand stack of [option valty] (top FIRST), a flag
                     `unreachable`; every block body is checked on its own stack (from exactly the parameters to
                     exactly the results), so the "height of the control frame" is the empty stack.
   Lists of types ([core_sig], labels, block types) are written bottom-to-top as in Model/Typing.v. *)
From Coq Require Import List NArith ZArith Bool. Import ListNotations.
From WV Require Import Gen.Ops Model.Common Model.IR Model.ParseFn Model.ParseSpec Model.Typing.
Open Scope N_scope.

Record tenv := {
  te_locals : list valty;                      (* params then declared locals, by index *)
  te_globals : list (valty * bool);            (* type, mutable *)
  te_tys : list (list valty * list valty);     (* type section *)
  te_results : list valty;                     (* of the function *)
  te_has_mem : bool }.

(* i-th element; recursion on the LIST so that an index of 2^32 - 1 is not expanded into a unary number *)
Fixpoint nthN_opt {A : Type} (l : list A) (i : N) : option A :=
  match l with [] => None | x :: r => if i =? 0 then Some x else nthN_opt r (i - 1) end.

(* the types the (untyped) select of the core works on *)
Definition is_int (t : valty) : bool := match t with VT_I32 | VT_I64 => true | _ => false end.

(* ------------------------------------------------------------------ signatures of the core operators *)
(* [lg] = log2 of the access width in bytes: the alignment exponent must not exceed it (2^align <= width) *)
Definition mem_ok (e : tenv) (m : w_memarg) (lg : N) : bool :=
  te_has_mem e && (wa_memory m =? 0) && (wa_align m <=? lg).
Definition load_sig (e : tenv) (m : w_memarg) (lg : N) (t : valty) : option (list valty * list valty) :=
  if mem_ok e m lg then Some ([VT_I32], [t]) else None.
Definition store_sig (e : tenv) (m : w_memarg) (lg : N) (t : valty) : option (list valty * list valty) :=
  if mem_ok e m lg then Some ([VT_I32; t], []) else None.

Definition core_sig (e : tenv) (o : wop) : option (list valty * list valty) :=
  match o with
  | W_I32Const _ => Some ([], [VT_I32])
  | W_I64Const _ => Some ([], [VT_I64])
  (* i32 binary and comparisons *)
  | W_I32Add | W_I32Sub | W_I32Mul | W_I32And | W_I32Or | W_I32Xor
  | W_I32DivU | W_I32RemU | W_I32Shl | W_I32ShrU | W_I32DivS | W_I32RemS | W_I32ShrS | W_I32Rotl | W_I32Rotr
  | W_I32Eq | W_I32Ne | W_I32LtU | W_I32LtS | W_I32LeS | W_I32LeU | W_I32GtS | W_I32GtU | W_I32GeS | W_I32GeU =>
      Some ([VT_I32; VT_I32], [VT_I32])
  (* i32 unary and test *)
  | W_I32Eqz | W_I32Clz | W_I32Ctz | W_I32Popcnt | W_I32Extend8S | W_I32Extend16S => Some ([VT_I32], [VT_I32])
  (* i64 binary *)
  | W_I64Add | W_I64Sub | W_I64Mul | W_I64And | W_I64Or | W_I64Xor
  | W_I64DivS | W_I64DivU | W_I64RemS | W_I64RemU | W_I64Shl | W_I64ShrS | W_I64ShrU | W_I64Rotl | W_I64Rotr =>
      Some ([VT_I64; VT_I64], [VT_I64])
  (* i64 comparisons and test *)
  | W_I64Eq | W_I64Ne | W_I64LtS | W_I64LtU | W_I64LeS | W_I64LeU | W_I64GtS | W_I64GtU | W_I64GeS | W_I64GeU =>
      Some ([VT_I64; VT_I64], [VT_I32])
  | W_I64Eqz => Some ([VT_I64], [VT_I32])
  (* i64 unary *)
  | W_I64Clz | W_I64Ctz | W_I64Popcnt | W_I64Extend8S | W_I64Extend16S | W_I64Extend32S => Some ([VT_I64], [VT_I64])
  (* conversions *)
  | W_I32WrapI64 => Some ([VT_I64], [VT_I32])
  | W_I64ExtendI32U | W_I64ExtendI32S => Some ([VT_I32], [VT_I64])
  (* variables *)
  | W_LocalGet i => match nthN_opt (te_locals e) i with Some t => Some ([], [t]) | None => None end
  | W_LocalSet i => match nthN_opt (te_locals e) i with Some t => Some ([t], []) | None => None end
  | W_LocalTee i => match nthN_opt (te_locals e) i with Some t => Some ([t], [t]) | None => None end
  | W_GlobalGet i => match nthN_opt (te_globals e) i with Some (t, _) => Some ([], [t]) | None => None end
  | W_GlobalSet i => match nthN_opt (te_globals e) i with Some (t, true) => Some ([t], []) | _ => None end
  (* memory *)
  | W_I32Load m => load_sig e m 2 VT_I32
  | W_I64Load m => load_sig e m 3 VT_I64
  | W_I32Load8S m | W_I32Load8U m => load_sig e m 0 VT_I32
  | W_I32Load16S m | W_I32Load16U m => load_sig e m 1 VT_I32
  | W_I64Load8S m | W_I64Load8U m => load_sig e m 0 VT_I64
  | W_I64Load16S m | W_I64Load16U m => load_sig e m 1 VT_I64
  | W_I64Load32S m | W_I64Load32U m => load_sig e m 2 VT_I64
  | W_I32Store m => store_sig e m 2 VT_I32
  | W_I64Store m => store_sig e m 3 VT_I64
  | W_I32Store8 m => store_sig e m 0 VT_I32
  | W_I32Store16 m => store_sig e m 1 VT_I32
  | W_I64Store8 m => store_sig e m 0 VT_I64
  | W_I64Store16 m => store_sig e m 1 VT_I64
  | W_I64Store32 m => store_sig e m 2 VT_I64
  | W_MemorySize i => if te_has_mem e && (i =? 0) then Some ([], [VT_I32]) else None
  | W_MemoryGrow i => if te_has_mem e && (i =? 0) then Some ([VT_I32], [VT_I32]) else None
  | _ => None
  end.

(* ------------------------------------------------------------------ the parameters of the declarative typing *)
Definition core_optype (e : tenv) (w : wins) (ins outs : list valty) : Prop :=
  (exists o, w = WOp o /\ core_sig e o = Some (ins, outs)) \/
  (w = WOp W_Drop /\ exists t, ins = [t] /\ outs = []) \/
  (w = WOp W_Select /\ exists t, is_int t = true /\ ins = [t; t; VT_I32] /\ outs = [t]).
Definition core_opdead (e : tenv) (w : wins) (ins : list valty) : Prop :=
  (w = WOp W_Unreachable /\ ins = []) \/ (w = WOp W_Return /\ ins = te_results e).

Definition bt_sig (e : tenv) (bt : blockty) : option (list valty * list valty) :=
  match bt with
  | BT_Empty => Some ([], [])
  | BT_Val t => Some ([], [t])
  | BT_Func i => nthN_opt (te_tys e) i
  end.
Definition bt_params (e : tenv) (bt : blockty) : list valty := match bt_sig e bt with Some (p, _) => p | None => [] end.
Definition bt_results (e : tenv) (bt : blockty) : list valty := match bt_sig e bt with Some (_, r) => r | None => [] end.
(* the checker rejects a block type whose type index is absent *)
Definition bt_ok (e : tenv) (bt : blockty) : bool := match bt_sig e bt with Some _ => true | None => false end.

(* ------------------------------------------------------------------ classification of a plain operator *)
(* a dependent case analysis, so that proofs never have to [destruct] a [wop] *)
Inductive opk (o : wop) : Type :=
  | K_drop (E : o = W_Drop)
  | K_select (E : o = W_Select)
  | K_return (E : o = W_Return)
  | K_unreach (E : o = W_Unreachable)
  | K_other (E : marks_unreachable o = false).
Definition op_class (o : wop) : opk o :=
  match o as o0 return opk o0 with
  | W_Drop => K_drop _ eq_refl
  | W_Select => K_select _ eq_refl
  | W_Return => K_return _ eq_refl
  | W_Unreachable => K_unreach _ eq_refl
  | o1 => K_other o1 (eq_refl false)
  end.

(* ------------------------------------------------------------------ the state of the algorithm *)
(* [cs_stk]: the operand stack ABOVE the base of the current block, top FIRST; [None] = a value of unknown type,
   which only a `select` on two unknown operands leaves (below an unconditional transfer), hence known to be
   i32 or i64.  [cs_unr]: the rest of the current block is unreachable: popping from the empty stack succeeds *)
Record cstate := CS { cs_stk : list (option valty); cs_unr : bool }.

(* an entry of the stack is acceptable where a [t] is expected *)
Definition matcho (o : option valty) (t : valty) : bool :=
  match o with Some t' => valty_eqb t' t | None => is_int t end.

Definition pop_any (st : cstate) : option (option valty * cstate) :=
  match cs_stk st with
  | o :: s => Some (o, CS s (cs_unr st))
  | [] => if cs_unr st then Some (None, st) else None
  end.
Definition pop_exp (t : valty) (st : cstate) : option cstate :=
  match cs_stk st with
  | o :: s => if matcho o t then Some (CS s (cs_unr st)) else None
  | [] => if cs_unr st then Some st else None
  end.
(* [r] is given top first *)
Fixpoint pops_top (r : list valty) (st : cstate) : option cstate :=
  match r with
  | [] => Some st
  | t :: r' => match pop_exp t st with Some st' => pops_top r' st' | None => None end
  end.
(* [ts] is given bottom-to-top *)
Definition pops (ts : list valty) (st : cstate) : option cstate := pops_top (rev ts) st.
Definition push_stk (ts : list valty) (s : list (option valty)) : list (option valty) :=
  fold_left (fun s t => Some t :: s) ts s.
Definition push (ts : list valty) (st : cstate) : cstate := CS (push_stk ts (cs_stk st)) (cs_unr st).
(* after br / br_table / return / unreachable *)
Definition unr_st : cstate := CS [] true.
(* the stack a block body starts from *)
Definition init_st (ps : list valty) : cstate := push ps (CS [] false).

(* the end of a block body: exactly the results *)
Definition end_ok (rs : list valty) (st : cstate) : bool :=
  match pops rs st with
  | Some st' => match cs_stk st' with [] => true | _ => false end
  | None => false
  end.
Definition arm_res (r : option cstate) (rs : list valty) : bool :=
  match r with Some st' => end_ok rs st' | None => false end.

(* the two operands of a select *)
Definition join (x y : option valty) : option (option valty) :=
  match x, y with
  | None, None => Some None
  | Some t, None | None, Some t => if is_int t then Some (Some t) else None
  | Some t, Some t' => if is_int t && valty_eqb t t' then Some (Some t) else None
  end.

Definition chk_plain (e : tenv) (o : wop) (st : cstate) : option cstate :=
  match op_class o with
  | K_drop _ _ => match pop_any st with Some (_, st1) => Some st1 | None => None end
  | K_select _ _ =>
      match pop_exp VT_I32 st with
      | Some st1 =>
          match pop_any st1 with
          | Some (x, st2) =>
              match pop_any st2 with
              | Some (y, st3) =>
                  match join x y with
                  | Some z => Some (CS (z :: cs_stk st3) (cs_unr st3))
                  | None => None
                  end
              | None => None
              end
          | None => None
          end
      | None => None
      end
  | K_return _ _ => match pops (te_results e) st with Some _ => Some unr_st | None => None end
  | K_unreach _ _ => Some unr_st
  | K_other _ _ =>
      match core_sig e o with
      | Some (i, r) => match pops i st with Some st1 => Some (push r st1) | None => None end
      | None => None
      end
  end.

Definition label_is (L : list (list valty)) (ts : list valty) (x : N) : bool :=
  match nthN_opt L x with Some ts' => vlist_eqb ts' ts | None => false end.

Section Chk.
  Variable e : tenv.

  (* labels [L] innermost first: what a branch to the label consumes *)
  Fixpoint chk1 (L : list (list valty)) (t : rt) (st : cstate) {struct t} : option cstate :=
    let chkl := fix chkl (L : list (list valty)) (l : list rt) (st : cstate) {struct l} : option cstate :=
        match l with
        | [] => Some st
        | t :: l' => match chk1 L t st with Some st' => chkl L l' st' | None => None end
        end in
    match t with
    | RPlain o _ => chk_plain e o st
    | RNop _ => Some st
    | RBr d _ =>
        match nthN_opt L d with
        | Some ts => match pops ts st with Some _ => Some unr_st | None => None end
        | None => None
        end
    | RBrIf d _ =>
        match nthN_opt L d with
        | Some ts =>
            match pop_exp VT_I32 st with
            | Some st1 => match pops ts st1 with Some st2 => Some (push ts st2) | None => None end
            | None => None
            end
        | None => None
        end
    | RBrTable ds d _ =>
        match nthN_opt L d with
        | Some ts =>
            if forallb (label_is L ts) ds then
              match pop_exp VT_I32 st with
              | Some st1 => match pops ts st1 with Some _ => Some unr_st | None => None end
              | None => None
              end
            else None
        | None => None
        end
    | RBlock bt b _ _ =>
        if bt_ok e bt then
          match pops (bt_params e bt) st with
          | Some st1 =>
              if arm_res (chkl (bt_results e bt :: L) b (init_st (bt_params e bt))) (bt_results e bt)
              then Some (push (bt_results e bt) st1) else None
          | None => None
          end
        else None
    | RLoop bt b _ _ =>
        if bt_ok e bt then
          match pops (bt_params e bt) st with
          | Some st1 =>
              if arm_res (chkl (bt_params e bt :: L) b (init_st (bt_params e bt))) (bt_results e bt)
              then Some (push (bt_results e bt) st1) else None
          | None => None
          end
        else None
    | RIf bt th el _ _ =>
        if bt_ok e bt then
          match pop_exp VT_I32 st with
          | Some st0 =>
              match pops (bt_params e bt) st0 with
              | Some st1 =>
                  if arm_res (chkl (bt_results e bt :: L) th (init_st (bt_params e bt))) (bt_results e bt)
                     && match el with
                        | Some (_, eb) => arm_res (chkl (bt_results e bt :: L) eb (init_st (bt_params e bt))) (bt_results e bt)
                        | None => vlist_eqb (bt_params e bt) (bt_results e bt)
                        end
                  then Some (push (bt_results e bt) st1) else None
              | None => None
              end
          | None => None
          end
        else None
    end.

  Fixpoint chk (L : list (list valty)) (l : list rt) (st : cstate) {struct l} : option cstate :=
    match l with
    | [] => Some st
    | t :: l' => match chk1 L t st with Some st' => chk L l' st' | None => None end
    end.

  (* a function body: from the empty stack to the results, the only label being the function's *)
  Definition check_body (body : list rt) : bool :=
    arm_res (chk [te_results e] body (init_st [])) (te_results e).
End Chk.
