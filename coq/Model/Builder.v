(* Executable model of src/function_builder.rs : FunctionBuilder / InstrSeqBuilder
   (instr, instr_at, block, loop_, if_else, their *_at forms, dangling_instr_seq) acting on
   the function's InstrSeq arena; and the specification: the tree a builder program denotes. *)
From Coq Require Import List NArith Bool. Import ListNotations.
From WV Require Import Gen.Ops Model.Common Model.IR.
Open Scope N_scope.

(* one call on an InstrSeqBuilder (the "current" sequence) *)
Inductive bop :=
  | BInstr (i : instr)                              (* .instr(i) and every generated .<name>(..) method *)
  | BInstrAt (pos : N) (i : instr)                  (* .instr_at(pos, i) / .<name>_at(pos, ..) *)
  | BBlock (ty : seqty) (body : list bop) | BBlockAt (pos : N) (ty : seqty) (body : list bop)
  | BLoop (ty : seqty) (body : list bop) | BLoopAt (pos : N) (ty : seqty) (body : list bop)
  | BIfElse (ty : seqty) (c a : list bop) | BIfElseAt (pos : N) (ty : seqty) (c a : list bop)
  | BDangling (ty : seqty) (body : list bop).       (* dangling_instr_seq(ty), then calls on it; not attached *)

Fixpoint insert_at {A} (l : list A) (n : nat) (x : A) : option (list A) :=
  match n, l with
  | O, _ => Some (x :: l)
  | S k, y :: r => option_map (cons y) (insert_at r k x)
  | S _, [] => None                                   (* Vec::insert panics when position > len *)
  end.

Definition push_i (a : arena) (cur : N) (i : instr) : res arena :=
  match nth_error a (N.to_nat cur) with
  | None => Panic
  | Some _ => Ok (upd a (N.to_nat cur) (fun q => {| sq_ty := sq_ty q; sq_instrs := sq_instrs q ++ [(i, default_loc)]; sq_end := sq_end q |}))
  end.
Definition insert_i (a : arena) (cur : N) (pos : N) (i : instr) : res arena :=
  match nth_error a (N.to_nat cur) with
  | None => Panic
  | Some q => match insert_at (sq_instrs q) (N.to_nat pos) (i, default_loc) with
              | None => Panic
              | Some l => Ok (upd a (N.to_nat cur) (fun q => {| sq_ty := sq_ty q; sq_instrs := l; sq_end := sq_end q |}))
              end
  end.
Definition place (a : arena) (cur : N) (pos : option N) (i : instr) : res arena :=
  match pos with None => push_i a cur i | Some p => insert_i a cur p i end.

(* run the calls [ops] on sequence [cur] *)
Fixpoint run_ops (fuel : nat) (a : arena) (cur : N) (ops : list bop) {struct fuel} : res arena :=
  match fuel with
  | O => OutOfFuel
  | S f =>
    match ops with
    | [] => Ok a
    | o :: rest =>
        let nested (ty : seqty) (body : list bop) (a : arena) : res (arena * N) :=
          let id := len_N a in
          rmap (fun a' => (a', id)) (run_ops f (a ++ [empty_seq ty]) id body) in
        rbind
          (match o with
           | BInstr i => push_i a cur i
           | BInstrAt p i => insert_i a cur p i
           | BBlock ty b => rbind (nested ty b a) (fun r => push_i (fst r) cur (IBlock (snd r)))
           | BBlockAt p ty b => rbind (nested ty b a) (fun r => insert_i (fst r) cur p (IBlock (snd r)))
           | BLoop ty b => rbind (nested ty b a) (fun r => push_i (fst r) cur (ILoop (snd r)))
           | BLoopAt p ty b => rbind (nested ty b a) (fun r => insert_i (fst r) cur p (ILoop (snd r)))
           | BIfElse ty c al =>
               rbind (nested ty c a) (fun r1 => rbind (nested ty al (fst r1)) (fun r2 =>
               push_i (fst r2) cur (IIfElse (snd r1) (snd r2))))
           | BIfElseAt p ty c al =>
               rbind (nested ty c a) (fun r1 => rbind (nested ty al (fst r1)) (fun r2 =>
               insert_i (fst r2) cur p (IIfElse (snd r1) (snd r2))))
           | BDangling ty b => rmap fst (nested ty b a)
           end)
          (fun a' => run_ops f a' cur rest)
    end
  end.

(* total number of calls, nested ones included (fuel bound) *)
Fixpoint bsize (o : bop) : nat :=
  let bl := fix bl (l : list bop) : nat := match l with [] => O | x :: r => (bsize x + bl r)%nat end in
  match o with
  | BInstr _ | BInstrAt _ _ => 1%nat
  | BBlock _ b | BBlockAt _ _ b | BLoop _ b | BLoopAt _ _ b | BDangling _ b => S (S (bl b))
  | BIfElse _ c a | BIfElseAt _ _ c a => S (S (S (bl c + bl a)))
  end.
Definition bsize_list (l : list bop) : nat := fold_right (fun x n => (bsize x + n)%nat) O l.

(* FunctionBuilder::new: the entry sequence (id 0, multi-value entry type), then the calls on func_body() *)
Definition run_builder (entry_ty : N) (prog : list bop) : res arena :=
  run_ops (S (bsize_list prog)) [empty_seq (ST_Multi entry_ty)] 0 prog.

(* ------------------------------------------------------------------ specification *)
Definition item_of_instr (i : instr) : option item :=
  match i with
  | IPlain p => Some (ItP p) | IBr s => Some (ItBr s) | IBrIf s => Some (ItBrIf s) | IBrTable ss d => Some (ItBrTable ss d)
  | _ => None          (* attaching a dangling sequence by hand is outside the structured fragment *)
  end.

(* [bspec_op o n items] : the items of the current sequence after call [o], and the next free id;
   None = the call is outside the structured fragment or a position is out of range *)
Definition put (pos : option N) (it : item) (items : list (item * N)) : option (list (item * N)) :=
  match pos with None => Some (items ++ [(it, default_loc)]) | Some p => insert_at items (N.to_nat p) (it, default_loc) end.

Fixpoint bspec_op (o : bop) (n : N) (items : list (item * N)) {struct o} : option (list (item * N) * N) :=
  let bl := fix bl (l : list bop) (n : N) (items : list (item * N)) {struct l} : option (list (item * N) * N) :=
      match l with
      | [] => Some (items, n)
      | x :: r => match bspec_op x n items with Some (i', n') => bl r n' i' | None => None end
      end in
  let nest1 (pos : option N) (mk : tree -> item) (ty : seqty) (b : list bop) :=
      match bl b (n + 1) [] with
      | Some (its, n1) => option_map (fun l => (l, n1)) (put pos (mk (T n ty its default_loc)) items)
      | None => None
      end in
  let nest2 (pos : option N) (ty : seqty) (c a : list bop) :=
      match bl c (n + 1) [] with
      | Some (ic, n1) =>
          match bl a (n1 + 1) [] with
          | Some (ia, n2) => option_map (fun l => (l, n2)) (put pos (ItI (T n ty ic default_loc) (T n1 ty ia default_loc)) items)
          | None => None
          end
      | None => None
      end in
  match o with
  | BInstr i => match item_of_instr i with Some it => option_map (fun l => (l, n)) (put None it items) | None => None end
  | BInstrAt p i => match item_of_instr i with Some it => option_map (fun l => (l, n)) (put (Some p) it items) | None => None end
  | BBlock ty b => nest1 None ItB ty b
  | BBlockAt p ty b => nest1 (Some p) ItB ty b
  | BLoop ty b => nest1 None ItL ty b
  | BLoopAt p ty b => nest1 (Some p) ItL ty b
  | BIfElse ty c a => nest2 None ty c a
  | BIfElseAt p ty c a => nest2 (Some p) ty c a
  | BDangling _ _ => None
  end.
Fixpoint bspec (l : list bop) (n : N) (items : list (item * N)) : option (list (item * N) * N) :=
  match l with
  | [] => Some (items, n)
  | x :: r => match bspec_op x n items with Some (i', n') => bspec r n' i' | None => None end
  end.

Definition tree_of (entry_ty : N) (prog : list bop) : option tree :=
  match bspec prog 1 [] with
  | Some (items, _) => Some (T 0 (ST_Multi entry_ty) items default_loc)
  | None => None
  end.
