(* INSTANTIATION of a module, inside the model: what a WebAssembly embedder does before the first call.  Definitions only,
   executable.  The whole-module machine of Model/SemMod.v starts from a state and a table somebody supplies; here they are
   COMPUTED from the module: the global initialisers are evaluated in order, the active element segments are written into THE
   table in order, the active data segments into THE memory in order, then the start function is run through [run_mod].

   ORDER AND FAILURE (the bulk-memory rule, which is what V8 implements): a segment is bounds-checked AS A WHOLE
   ([offset + length <= size], also for an empty segment) before anything of it is written; an out-of-bounds segment TRAPS
   and instantiation fails - whatever earlier segments wrote is invisible, because no instance exists.  All element
   segments come before all data segments.  A start function that traps fails instantiation as well.

   IDENTITIES AND SLOTS, exactly as in Model/SemMod.v: instantiation computes the table as function INDICES (as the element
   segments spell them); the environment is [env_of] of the module with that table, i.e. the table of the environment holds
   IDENTITIES through the function slot map.  Global number [g] (= position [g] in [im_globals]) is bound at slot [gslot g].
   An active segment reaches THE table / THE memory iff [tslot table = 0] / [mslot memory = 0].

   WHAT IS NOT CHECKED (validation, not execution): that a [CGlobalGet] names an immutable / imported global, that function
   indices exist, that the start function has type [] -> [] (a start function with parameters or results goes wrong).
   An IMPORTED global is represented by an entry of [im_globals] whose initialiser is the constant the embedder supplies.
   Passive and declared segments do nothing (the operators that read them - memory.init, table.init, elem.drop, data.drop,
   ref.func - are outside the machine). *)
From Coq Require Import List NArith ZArith Bool. Import ListNotations.
From WV Require Import Gen.Ops Model.Common Model.IR Model.ParseFn Model.ParseSpec Model.EmitFn Model.BodySpec Model.Sem Model.SemCore Model.SemMod.
Open Scope N_scope.

(* ------------------------------------------------------------------ modules with initialisers and segments *)
(* constant expressions: walrus's [ConstExpr::Value] (i32 / i64) and [ConstExpr::Global] *)
Inductive cexpr := CI32 (z : Z) | CI64 (z : Z) | CGlobalGet (g : N).
(* element segments: function INDEX per entry, [None] = ref.null *)
Inductive eseg :=
| EActive (table : N) (offset : cexpr) (funcs : list (option N))
| EPassive (funcs : list (option N))
| EDeclared (funcs : list (option N)).
Inductive dseg :=
| DActive (memory : N) (offset : cexpr) (bytes : list N)
| DPassive (bytes : list N).

Record imod := {
  im_tys : list (list valty * list valty);
  im_funcs : list fdef;
  im_globals : list (valty * bool * cexpr);     (* type, mutable, initialiser *)
  im_mem : option (N * option N);               (* initial size in pages, maximum *)
  im_table : option (N * option N);             (* initial size, maximum; funcref *)
  im_elems : list eseg;
  im_datas : list dseg;
  im_start : option N                           (* function INDEX *)
}.

(* the outcome of a stage that can trap: [PWrong] = what no valid module does *)
Inductive pres (A : Type) := POk (a : A) | PTrap | PWrong.
Arguments POk {A} a. Arguments PTrap {A}. Arguments PWrong {A}.

(* ------------------------------------------------------------------ globals *)
Definition eval_cexpr (gslot : N -> N) (gl : list (N * val)) (e : cexpr) : option val :=
  match e with
  | CI32 z => Some (VI32 (z32 z))
  | CI64 z => Some (VI64 (z64 z))
  | CGlobalGet g => alookup (gslot g) gl        (* only a global that has been initialised already *)
  end.
(* the globals in order; number [k] is the first one of [gs]; [gl] = the bindings so far (in order) *)
Fixpoint inst_globals (gslot : N -> N) (k : N) (gs : list (valty * bool * cexpr)) (gl : list (N * val)) : option (list (N * val)) :=
  match gs with
  | [] => Some gl
  | (t, _, e) :: r =>
      match eval_cexpr gslot gl e with
      | Some v => if has_ty t v then inst_globals gslot (k + 1) r (gl ++ [(gslot k, v)]) else None
      | None => None
      end
  end.

(* ------------------------------------------------------------------ THE table *)
Fixpoint set_nthN {A} (i : N) (x : A) (l : list A) : list A :=
  match l with [] => [] | y :: r => if i =? 0 then x :: r else y :: set_nthN (i - 1) x r end.
Fixpoint write_tbl (o : N) (fs : list (option N)) (t : list (option N)) : list (option N) :=
  match fs with [] => t | f :: r => write_tbl (o + 1) r (set_nthN o f t) end.
Definition tbl_size (t : list (option N)) : N := N.of_nat (length t).
Fixpoint inst_elems (gslot tslot : N -> N) (gl : list (N * val)) (es : list eseg) (t : list (option N)) : pres (list (option N)) :=
  match es with
  | [] => POk t
  | EActive tb off fs :: r =>
      if tslot tb =? 0 then
        match eval_cexpr gslot gl off with
        | Some (VI32 o) =>
            if o + N.of_nat (length fs) <=? tbl_size t then inst_elems gslot tslot gl r (write_tbl o fs t) else PTrap
        | _ => PWrong
        end
      else PWrong
  | _ :: r => inst_elems gslot tslot gl r t
  end.

(* ------------------------------------------------------------------ THE memory *)
Fixpoint write_bytes (a : N) (bs : list N) (m : list (N * N)) : list (N * N) :=
  match bs with [] => m | b :: r => write_bytes (a + 1) r (mset a (b mod 256) m) end.
Fixpoint inst_datas (gslot mslot : N -> N) (gl : list (N * val)) (pgs : N) (ds : list dseg) (m : list (N * N)) : pres (list (N * N)) :=
  match ds with
  | [] => POk m
  | DActive mi off bs :: r =>
      if mslot mi =? 0 then
        match eval_cexpr gslot gl off with
        | Some (VI32 o) =>
            if o + N.of_nat (length bs) <=? pgs * page_size then inst_datas gslot mslot gl pgs r (write_bytes o bs m) else PTrap
        | _ => PWrong
        end
      else PWrong
  | DPassive _ :: r => inst_datas gslot mslot gl pgs r m
  end.

(* ------------------------------------------------------------------ everything before the start function *)
Definition tbl0 (im : imod) : list (option N) :=
  match im_table im with Some (n, _) => repeat None (N.to_nat n) | None => [] end.
Definition pages0 (im : imod) : N := match im_mem im with Some (n, _) => n | None => 0 end.
(* without a declared maximum a 32-bit memory may grow to 65536 pages *)
Definition maxp0 (im : imod) : N := match im_mem im with Some (_, Some mx) => mx | Some (_, None) => 65536 | None => 0 end.
Definition init_st (gl : list (N * val)) (m : list (N * N)) (p mx : N) : st :=
  {| stk := []; locs := []; globs := gl; labs := []; mem := m; pages := p; max_pages := mx |}.
(* the table (function INDICES) and the state *)
Definition inst_pre (im : imod) (gslot mslot tslot : N -> N) : pres (list (option N) * st) :=
  match inst_globals gslot 0 (im_globals im) [] with
  | None => PWrong
  | Some gl =>
      match inst_elems gslot tslot gl (im_elems im) (tbl0 im) with
      | PTrap => PTrap
      | PWrong => PWrong
      | POk tbl =>
          match inst_datas gslot mslot gl (pages0 im) (im_datas im) [] with
          | PTrap => PTrap
          | PWrong => PWrong
          | POk m => POk (tbl, init_st gl m (pages0 im) (maxp0 im))
          end
      end
  end.

(* ------------------------------------------------------------------ instantiation *)
Definition cmod_of (im : imod) (tbl : list (option N)) : cmod := {| cm_tys := im_tys im; cm_funcs := im_funcs im; cm_table := tbl |}.
Inductive inst_result := IOk (E : menv) (s0 : st) | ITrap | IWrong | IExhausted.
(* the start function has run from [s0] in [E] *)
Definition after_start (E : menv) (r : option (res st halt)) : inst_result :=
  match r with
  | None => IExhausted
  | Some (Fall s) => match stk s with [] => IOk E (init_st (globs s) (mem s) (pages s) (max_pages s)) | _ => IWrong end
  | Some (Stop Trap _) => ITrap
  | Some _ => IWrong
  end.
Definition instantiate (fuel k : nat) (im : imod) (lslot : N -> N -> N) (fslot gslot mslot tslot : N -> N) : inst_result :=
  match inst_pre im gslot mslot tslot with
  | PTrap => ITrap
  | PWrong => IWrong
  | POk (tbl, s0) =>
      let E := env_of (cmod_of im tbl) lslot fslot gslot mslot tslot in
      match im_start im with
      | None => IOk E s0
      | Some f => after_start E (run_mod E k fuel (fslot f) [] s0)
      end
  end.

(* instantiate, then call the function of IDENTITY [f] *)
Inductive call_result := CRan (r : option (res st halt)) | CInstTrap | CInstWrong | CInstExhausted.
Definition call_after (r : inst_result) (k fuel : nat) (f : N) (args : list val) : call_result :=
  match r with
  | IOk E s0 => CRan (run_mod E k fuel f args s0)
  | ITrap => CInstTrap
  | IWrong => CInstWrong
  | IExhausted => CInstExhausted
  end.
