(* Specification side of function-body parsing: structured source trees [rt]
   (what a validated, well-bracketed operator stream is), their flattening to the
   operator stream, and the DECLARATIVE result of parsing: the normal form
   (nop dropped, each sequence cut after its first br / br_table / return /
   unreachable, every `if` given an `else`, canonical sequence types), both as an
   arena layout ([build]) and as an IR tree with ids ([tbuild]). Definitions only. *)
From Coq Require Import List NArith Bool. Import ListNotations.
From WV Require Import Gen.Ops Model.Common Model.IR Model.ParseFn.
Open Scope N_scope.

(* every node carries the location (InstrLocId) of its operator(s) *)
Inductive rt :=
  | RPlain (o : wop) (loc : N)
  | RNop (loc : N)
  | RBr (d : N) (loc : N) | RBrIf (d : N) (loc : N) | RBrTable (ds : list N) (d : N) (loc : N)
  | RBlock (bt : blockty) (body : list rt) (loc lend : N)
  | RLoop (bt : blockty) (body : list rt) (loc lend : N)
  | RIf (bt : blockty) (th : list rt) (el : option (N * list rt)) (loc lend : N).
        (* el = Some (location of `else`, else-body) *)

Fixpoint flat (t : rt) : list (wins * N) :=
  match t with
  | RPlain o l => [(WOp o, l)] | RNop l => [(WNop, l)]
  | RBr d l => [(WBr d, l)] | RBrIf d l => [(WBrIf d, l)] | RBrTable ds d l => [(WBrTable ds d, l)]
  | RBlock bt b l e => (WBlock bt, l) :: flat_map flat b ++ [(WEnd, e)]
  | RLoop bt b l e => (WLoop bt, l) :: flat_map flat b ++ [(WEnd, e)]
  | RIf bt th None l e => (WIf bt, l) :: flat_map flat th ++ [(WEnd, e)]
  | RIf bt th (Some (le, el)) l e => (WIf bt, l) :: flat_map flat th ++ (WElse, le) :: flat_map flat el ++ [(WEnd, e)]
  end.
Definition flat_list (l : list rt) : list (wins * N) := flat_map flat l.

(* what validation guarantees, as a boolean-style predicate: branch depths are below the
   number of enclosing frames [k]; every operator decodes; every block type resolves to a
   sequence type *)
Definition bt_ok (cx : pctx) (bt : blockty) : Prop :=
  match bt_tys cx bt with Some (ps, rs) => existing cx ps rs <> None | None => False end.

Fixpoint wf (cx : pctx) (k : nat) (t : rt) : Prop :=
  let wl := fix wl (k : nat) (l : list rt) : Prop := match l with [] => True | x :: l' => wf cx k x /\ wl k l' end in
  match t with
  | RPlain o _ => decode_plain (px_i2id cx) o <> None
  | RNop _ => True
  | RBr d _ | RBrIf d _ => (N.to_nat d < k)%nat
  | RBrTable ds d _ => (N.to_nat d < k)%nat /\ Forall (fun x => (N.to_nat x < k)%nat) ds
  | RBlock bt b _ _ | RLoop bt b _ _ => bt_ok cx bt /\ wl (S k) b
  | RIf bt th el _ _ => bt_ok cx bt /\ wl (S k) th /\ match el with Some (_, e) => wl (S k) e | None => True end
  end.
Fixpoint wfl (cx : pctx) (k : nat) (l : list rt) : Prop :=
  match l with [] => True | x :: l' => wf cx k x /\ wfl cx k l' end.

Definition bt_seqty (cx : pctx) (bt : blockty) : seqty :=
  match bt_tys cx bt with
  | Some (ps, rs) => match existing cx ps rs with Some ty => ty | None => ST_Simple None end
  | None => ST_Simple None
  end.

Definition dec (cx : pctx) (o : wop) : plain :=
  match decode_plain (px_i2id cx) o with Some p => p | None => P_Unreachable end.

(* ------------------------------------------------------------------ arena layout *)
(* [build cx env n u t] = (instructions appended to the current sequence,
                           new sequences in allocation order starting at id n,
                           unreachable flag afterwards);
   env = ids of the enclosing sequences, innermost first *)
Fixpoint build (cx : pctx) (env : list N) (n : N) (u : bool) (t : rt) {struct t} : list (instr * N) * list iseq * bool :=
  let keep (i : instr) (l : N) := if u then [] else [(i, l)] in
  let build_list := fix bl (env : list N) (n : N) (u : bool) (l : list rt) {struct l} : list (instr * N) * list iseq * bool :=
      match l with
      | [] => ([], [], u)
      | t :: l' => let '(i1, a1, u1) := build cx env n u t in
                   let '(i2, a2, u2) := bl env (n + len_N a1) u1 l' in
                   (i1 ++ i2, a1 ++ a2, u2)
      end in
  let mkseq ty its e := {| sq_ty := ty; sq_instrs := its; sq_end := e |} in
  match t with
  | RPlain o l => (keep (IPlain (dec cx o)) l, [], u || marks_unreachable o)
  | RNop _ => ([], [], u)
  | RBr d l => (keep (IBr (nth (N.to_nat d) env 0)) l, [], true)
  | RBrIf d l => (keep (IBrIf (nth (N.to_nat d) env 0)) l, [], u)
  | RBrTable ds d l => (keep (IBrTable (map (fun x => nth (N.to_nat x) env 0) ds) (nth (N.to_nat d) env 0)) l, [], true)
  | RBlock bt b l e =>
      let '(its, news, _) := build_list (n :: env) (n + 1) false b in
      (keep (IBlock n) l, mkseq (bt_seqty cx bt) its e :: news, u)
  | RLoop bt b l e =>
      let '(its, news, _) := build_list (n :: env) (n + 1) false b in
      (keep (ILoop n) l, mkseq (bt_seqty cx bt) its e :: news, u)
  | RIf bt th el l e =>
      let ty := bt_seqty cx bt in
      let '(ic, ac, _) := build_list (n :: env) (n + 1) false th in
      let a := n + 1 + len_N ac in
      match el with
      | Some (le, eb) =>
          let '(ia, aa, _) := build_list (a :: env) (a + 1) false eb in
          (keep (IIfElse n a) l, mkseq ty ic le :: ac ++ mkseq ty ia e :: aa, u)
      | None =>
          (keep (IIfElse n a) l, mkseq ty ic default_loc :: ac ++ [mkseq ty [] e], u)
      end
  end.
Fixpoint build_list (cx : pctx) (env : list N) (n : N) (u : bool) (l : list rt) : list (instr * N) * list iseq * bool :=
  match l with
  | [] => ([], [], u)
  | t :: l' => let '(i1, a1, u1) := build cx env n u t in
               let '(i2, a2, u2) := build_list cx env (n + len_N a1) u1 l' in
               (i1 ++ i2, a1 ++ a2, u2)
  end.

(* ------------------------------------------------------------------ the same as an IR tree *)
(* [tbuild cx env n u t] = (items appended to the current sequence, next free id, flag) *)
Fixpoint tbuild (cx : pctx) (env : list N) (n : N) (u : bool) (t : rt) {struct t} : list (item * N) * N * bool :=
  let keep (i : item) (l : N) := if u then [] else [(i, l)] in
  let tbl := fix tbl (env : list N) (n : N) (u : bool) (l : list rt) {struct l} : list (item * N) * N * bool :=
      match l with
      | [] => ([], n, u)
      | t :: l' => let '(i1, n1, u1) := tbuild cx env n u t in
                   let '(i2, n2, u2) := tbl env n1 u1 l' in
                   (i1 ++ i2, n2, u2)
      end in
  match t with
  | RPlain o l => (keep (ItP (dec cx o)) l, n, u || marks_unreachable o)
  | RNop _ => ([], n, u)
  | RBr d l => (keep (ItBr (nth (N.to_nat d) env 0)) l, n, true)
  | RBrIf d l => (keep (ItBrIf (nth (N.to_nat d) env 0)) l, n, u)
  | RBrTable ds d l => (keep (ItBrTable (map (fun x => nth (N.to_nat x) env 0) ds) (nth (N.to_nat d) env 0)) l, n, true)
  | RBlock bt b l e =>
      let '(its, n1, _) := tbl (n :: env) (n + 1) false b in
      (keep (ItB (T n (bt_seqty cx bt) its e)) l, n1, u)
  | RLoop bt b l e =>
      let '(its, n1, _) := tbl (n :: env) (n + 1) false b in
      (keep (ItL (T n (bt_seqty cx bt) its e)) l, n1, u)
  | RIf bt th el l e =>
      let ty := bt_seqty cx bt in
      let '(ic, a, _) := tbl (n :: env) (n + 1) false th in
      match el with
      | Some (le, eb) =>
          let '(ia, n2, _) := tbl (a :: env) (a + 1) false eb in
          (keep (ItI (T n ty ic le) (T a ty ia e)) l, n2, u)
      | None =>
          (keep (ItI (T n ty ic default_loc) (T a ty [] e)) l, a + 1, u)
      end
  end.
Fixpoint tbuild_list (cx : pctx) (env : list N) (n : N) (u : bool) (l : list rt) : list (item * N) * N * bool :=
  match l with
  | [] => ([], n, u)
  | t :: l' => let '(i1, n1, u1) := tbuild cx env n u t in
               let '(i2, n2, u2) := tbuild_list cx env n1 u1 l' in
               (i1 ++ i2, n2, u2)
  end.

(* the IR tree a function body [l] (followed by its final `end` at [eloc]) parses to *)
Definition parsed_tree (cx : pctx) (entry_ty : N) (l : list rt) (eloc : N) : tree :=
  let '(items, _, _) := tbuild_list cx [0] 1 false l in T 0 (ST_Multi entry_ty) items eloc.
Definition parsed_arena (cx : pctx) (entry_ty : N) (l : list rt) (eloc : N) : arena :=
  let '(its, news, _) := build_list cx [0] 1 false l in
  {| sq_ty := ST_Multi entry_ty; sq_instrs := its; sq_end := eloc |} :: news.
