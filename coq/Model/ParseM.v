(* Executable model of Module::parse (src/module/mod.rs) and the parse_* methods of
   src/module/{types,imports,functions,tables,memories,globals,exports,elements,data}.rs,
   const_expr.rs, producers.rs, the name section.  Validation itself is wasmparser's and is a
   premise of the theorems; every `?`/bail!/unwrap of walrus's own code is [PErr]/[PPanic]. *)
From Coq Require Import List NArith ZArith Bool. Import ListNotations.
From WV Require Import Gen.Ops Model.Common Model.IR Model.Arena Model.ParseFn Model.ModuleM Gen.Attrs.
Open Scope N_scope.

(* Result of parsing: Ok, an error returned to the caller, or a panic *)
Inductive pres (A : Type) := POk (a : A) | PErr | PPanic.
Arguments POk {A}. Arguments PErr {A}. Arguments PPanic {A}.
Definition pbind {A B} (r : pres A) (f : A -> pres B) : pres B :=
  match r with POk a => f a | PErr => PErr | PPanic => PPanic end.
Notation "x <-- e ;; k" := (pbind e (fun x => k)) (at level 60, e at next level, right associativity).
Definition of_opt_err {A} (o : option A) : pres A := match o with Some a => POk a | None => PErr end.
Definition of_opt_panic {A} (o : option A) : pres A := match o with Some a => POk a | None => PPanic end.

Record pst := { ps_m : wir; ps_ids : i2ids;
                ps_bodies : list wbody;            (* code entries collected during the payload loop *)
                ps_names : list wnames;            (* name sections, resolved after the bodies are parsed *)
                ps_calls_on_parse : N }.

(* ConstExpr::eval *)
Definition eval_const (ids : i2ids) (c : wconst) : pres mconst :=
  match c with
  | WC_I32 z => POk (MC_Value (V_I32 z)) | WC_I64 z => POk (MC_Value (V_I64 z))
  | WC_F32 b => POk (MC_Value (V_F32 b)) | WC_F64 b => POk (MC_Value (V_F64 b)) | WC_V128 b => POk (MC_Value (V_V128 b))
  | WC_GlobalGet i => rg <-- of_opt_err (nth_N (ii_globals ids) i) ;; POk (MC_Global rg)
  | WC_RefNull t => POk (MC_RefNull t)
  | WC_RefFunc i => rf <-- of_opt_err (nth_N (ii_funcs ids) i) ;; POk (MC_RefFunc rf)
  | WC_Other => PErr
  end.

Definition with_m (s : pst) (m : wir) : pst := {| ps_m := m; ps_ids := ps_ids s; ps_bodies := ps_bodies s; ps_names := ps_names s; ps_calls_on_parse := ps_calls_on_parse s |}.
Definition with_ids (s : pst) (i : i2ids) : pst := {| ps_m := ps_m s; ps_ids := i; ps_bodies := ps_bodies s; ps_names := ps_names s; ps_calls_on_parse := ps_calls_on_parse s |}.

(* record-update helpers for wir (one per field that parsing touches) *)
Definition set_types (m : wir) v := {| m_imports := m_imports m; m_tables := m_tables m; m_types := v; m_funcs := m_funcs m; m_globals := m_globals m; m_locals := m_locals m; m_exports := m_exports m; m_memories := m_memories m; m_data := m_data m; m_elements := m_elements m; m_start := m_start m; m_producers := m_producers m; m_customs := m_customs m; m_debug := m_debug m; m_name := m_name m; m_config := m_config m; m_code_section_offset := m_code_section_offset m |}.
Definition set_imports (m : wir) v := {| m_imports := v; m_tables := m_tables m; m_types := m_types m; m_funcs := m_funcs m; m_globals := m_globals m; m_locals := m_locals m; m_exports := m_exports m; m_memories := m_memories m; m_data := m_data m; m_elements := m_elements m; m_start := m_start m; m_producers := m_producers m; m_customs := m_customs m; m_debug := m_debug m; m_name := m_name m; m_config := m_config m; m_code_section_offset := m_code_section_offset m |}.
Definition set_funcs (m : wir) v := {| m_imports := m_imports m; m_tables := m_tables m; m_types := m_types m; m_funcs := v; m_globals := m_globals m; m_locals := m_locals m; m_exports := m_exports m; m_memories := m_memories m; m_data := m_data m; m_elements := m_elements m; m_start := m_start m; m_producers := m_producers m; m_customs := m_customs m; m_debug := m_debug m; m_name := m_name m; m_config := m_config m; m_code_section_offset := m_code_section_offset m |}.
Definition set_tables (m : wir) v := {| m_imports := m_imports m; m_tables := v; m_types := m_types m; m_funcs := m_funcs m; m_globals := m_globals m; m_locals := m_locals m; m_exports := m_exports m; m_memories := m_memories m; m_data := m_data m; m_elements := m_elements m; m_start := m_start m; m_producers := m_producers m; m_customs := m_customs m; m_debug := m_debug m; m_name := m_name m; m_config := m_config m; m_code_section_offset := m_code_section_offset m |}.
Definition set_memories (m : wir) v := {| m_imports := m_imports m; m_tables := m_tables m; m_types := m_types m; m_funcs := m_funcs m; m_globals := m_globals m; m_locals := m_locals m; m_exports := m_exports m; m_memories := v; m_data := m_data m; m_elements := m_elements m; m_start := m_start m; m_producers := m_producers m; m_customs := m_customs m; m_debug := m_debug m; m_name := m_name m; m_config := m_config m; m_code_section_offset := m_code_section_offset m |}.
Definition set_globals (m : wir) v := {| m_imports := m_imports m; m_tables := m_tables m; m_types := m_types m; m_funcs := m_funcs m; m_globals := v; m_locals := m_locals m; m_exports := m_exports m; m_memories := m_memories m; m_data := m_data m; m_elements := m_elements m; m_start := m_start m; m_producers := m_producers m; m_customs := m_customs m; m_debug := m_debug m; m_name := m_name m; m_config := m_config m; m_code_section_offset := m_code_section_offset m |}.
Definition set_locals (m : wir) v := {| m_imports := m_imports m; m_tables := m_tables m; m_types := m_types m; m_funcs := m_funcs m; m_globals := m_globals m; m_locals := v; m_exports := m_exports m; m_memories := m_memories m; m_data := m_data m; m_elements := m_elements m; m_start := m_start m; m_producers := m_producers m; m_customs := m_customs m; m_debug := m_debug m; m_name := m_name m; m_config := m_config m; m_code_section_offset := m_code_section_offset m |}.
Definition set_exports (m : wir) v := {| m_imports := m_imports m; m_tables := m_tables m; m_types := m_types m; m_funcs := m_funcs m; m_globals := m_globals m; m_locals := m_locals m; m_exports := v; m_memories := m_memories m; m_data := m_data m; m_elements := m_elements m; m_start := m_start m; m_producers := m_producers m; m_customs := m_customs m; m_debug := m_debug m; m_name := m_name m; m_config := m_config m; m_code_section_offset := m_code_section_offset m |}.
Definition set_data (m : wir) v := {| m_imports := m_imports m; m_tables := m_tables m; m_types := m_types m; m_funcs := m_funcs m; m_globals := m_globals m; m_locals := m_locals m; m_exports := m_exports m; m_memories := m_memories m; m_data := v; m_elements := m_elements m; m_start := m_start m; m_producers := m_producers m; m_customs := m_customs m; m_debug := m_debug m; m_name := m_name m; m_config := m_config m; m_code_section_offset := m_code_section_offset m |}.
Definition set_elements (m : wir) v := {| m_imports := m_imports m; m_tables := m_tables m; m_types := m_types m; m_funcs := m_funcs m; m_globals := m_globals m; m_locals := m_locals m; m_exports := m_exports m; m_memories := m_memories m; m_data := m_data m; m_elements := v; m_start := m_start m; m_producers := m_producers m; m_customs := m_customs m; m_debug := m_debug m; m_name := m_name m; m_config := m_config m; m_code_section_offset := m_code_section_offset m |}.
Definition set_start (m : wir) v := {| m_imports := m_imports m; m_tables := m_tables m; m_types := m_types m; m_funcs := m_funcs m; m_globals := m_globals m; m_locals := m_locals m; m_exports := m_exports m; m_memories := m_memories m; m_data := m_data m; m_elements := m_elements m; m_start := v; m_producers := m_producers m; m_customs := m_customs m; m_debug := m_debug m; m_name := m_name m; m_config := m_config m; m_code_section_offset := m_code_section_offset m |}.
Definition set_producers (m : wir) v := {| m_imports := m_imports m; m_tables := m_tables m; m_types := m_types m; m_funcs := m_funcs m; m_globals := m_globals m; m_locals := m_locals m; m_exports := m_exports m; m_memories := m_memories m; m_data := m_data m; m_elements := m_elements m; m_start := m_start m; m_producers := v; m_customs := m_customs m; m_debug := m_debug m; m_name := m_name m; m_config := m_config m; m_code_section_offset := m_code_section_offset m |}.
Definition set_customs (m : wir) v := {| m_imports := m_imports m; m_tables := m_tables m; m_types := m_types m; m_funcs := m_funcs m; m_globals := m_globals m; m_locals := m_locals m; m_exports := m_exports m; m_memories := m_memories m; m_data := m_data m; m_elements := m_elements m; m_start := m_start m; m_producers := m_producers m; m_customs := v; m_debug := m_debug m; m_name := m_name m; m_config := m_config m; m_code_section_offset := m_code_section_offset m |}.
Definition set_debug (m : wir) v := {| m_imports := m_imports m; m_tables := m_tables m; m_types := m_types m; m_funcs := m_funcs m; m_globals := m_globals m; m_locals := m_locals m; m_exports := m_exports m; m_memories := m_memories m; m_data := m_data m; m_elements := m_elements m; m_start := m_start m; m_producers := m_producers m; m_customs := m_customs m; m_debug := v; m_name := m_name m; m_config := m_config m; m_code_section_offset := m_code_section_offset m |}.
Definition set_name (m : wir) v := {| m_imports := m_imports m; m_tables := m_tables m; m_types := m_types m; m_funcs := m_funcs m; m_globals := m_globals m; m_locals := m_locals m; m_exports := m_exports m; m_memories := m_memories m; m_data := m_data m; m_elements := m_elements m; m_start := m_start m; m_producers := m_producers m; m_customs := m_customs m; m_debug := m_debug m; m_name := v; m_config := m_config m; m_code_section_offset := m_code_section_offset m |}.

(* ModuleTypes: insert through the ArenaSet *)
Definition types_insert (m : wir) (t : mtype) : wir * N :=
  let '(s', id) := insert mtype_eqb (m_types m) t in (set_types m s', N.of_nat id).
Definition types_get (m : wir) (id : N) : option mtype := aset_index (m_types m) (N.to_nat id).
Definition types_list (m : wir) : list (list valty * list valty * bool) :=
  map (fun t => (ty_params t, ty_results t, ty_entry t)) (items (Arena.arena (m_types m))).

(* --- type section *)
Fixpoint parse_types (m : wir) (ids : i2ids) (ts : list (list valty * list valty)) : wir * i2ids :=
  match ts with
  | [] => (m, ids)
  | (ps, rs) :: r =>
      let '(m1, id) := types_insert m {| ty_params := ps; ty_results := rs; ty_entry := false; ty_name := None |} in
      parse_types m1 {| ii_tables := ii_tables ids; ii_types := ii_types ids ++ [id]; ii_funcs := ii_funcs ids; ii_globals := ii_globals ids; ii_memories := ii_memories ids; ii_elements := ii_elements ids; ii_data := ii_data ids; ii_locals := ii_locals ids |} r
  end.

Definition push_func (ids : i2ids) (id : N) := {| ii_tables := ii_tables ids; ii_types := ii_types ids; ii_funcs := ii_funcs ids ++ [id]; ii_globals := ii_globals ids; ii_memories := ii_memories ids; ii_elements := ii_elements ids; ii_data := ii_data ids; ii_locals := ii_locals ids |}.
Definition push_table (ids : i2ids) (id : N) := {| ii_tables := ii_tables ids ++ [id]; ii_types := ii_types ids; ii_funcs := ii_funcs ids; ii_globals := ii_globals ids; ii_memories := ii_memories ids; ii_elements := ii_elements ids; ii_data := ii_data ids; ii_locals := ii_locals ids |}.
Definition push_memory (ids : i2ids) (id : N) := {| ii_tables := ii_tables ids; ii_types := ii_types ids; ii_funcs := ii_funcs ids; ii_globals := ii_globals ids; ii_memories := ii_memories ids ++ [id]; ii_elements := ii_elements ids; ii_data := ii_data ids; ii_locals := ii_locals ids |}.
Definition push_global (ids : i2ids) (id : N) := {| ii_tables := ii_tables ids; ii_types := ii_types ids; ii_funcs := ii_funcs ids; ii_globals := ii_globals ids ++ [id]; ii_memories := ii_memories ids; ii_elements := ii_elements ids; ii_data := ii_data ids; ii_locals := ii_locals ids |}.
Definition push_element (ids : i2ids) (id : N) := {| ii_tables := ii_tables ids; ii_types := ii_types ids; ii_funcs := ii_funcs ids; ii_globals := ii_globals ids; ii_memories := ii_memories ids; ii_elements := ii_elements ids ++ [id]; ii_data := ii_data ids; ii_locals := ii_locals ids |}.
Definition push_data (ids : i2ids) (id : N) := {| ii_tables := ii_tables ids; ii_types := ii_types ids; ii_funcs := ii_funcs ids; ii_globals := ii_globals ids; ii_memories := ii_memories ids; ii_elements := ii_elements ids; ii_data := ii_data ids ++ [id]; ii_locals := ii_locals ids |}.
Fixpoint assoc_push (l : list (N * list N)) (f : N) (x : N) : list (N * list N) :=
  match l with
  | [] => [(f, [x])]
  | (k, v) :: r => if N.eqb k f then (k, v ++ [x]) :: r else (k, v) :: assoc_push r f x
  end.
Definition push_local (ids : i2ids) (f id : N) := {| ii_tables := ii_tables ids; ii_types := ii_types ids; ii_funcs := ii_funcs ids; ii_globals := ii_globals ids; ii_memories := ii_memories ids; ii_elements := ii_elements ids; ii_data := ii_data ids; ii_locals := assoc_push (ii_locals ids) f id |}.
Definition locals_of (ids : i2ids) (f : N) : option (list N) :=
  match find (fun p => N.eqb (fst p) f) (ii_locals ids) with Some p => Some (snd p) | None => None end.

(* --- import section: the entity is created first, then the import that refers to it
   (the import id is the arena's next id at that moment) *)
Definition parse_import (m : wir) (ids : i2ids) (i : wimport) : pres (wir * i2ids) :=
  let imp := anext (m_imports m) in
  match wi_kind i with
  | WI_Func tyidx =>
      ty <-- of_opt_err (nth_N (ii_types ids) tyidx) ;;
      let '(fa, fid) := aalloc (m_funcs m) {| fn_kind := FK_Import imp ty; fn_name := None |} in
      let '(ia, _) := aalloc (m_imports m) {| im_module := wi_module i; im_name := wi_name i; im_kind := MI_Func fid |} in
      POk (set_imports (set_funcs m fa) ia, push_func ids fid)
  | WI_Table t =>
      let '(ta, tid) := aalloc (m_tables m) (gen_parse_table_import t imp) in
      let '(ia, _) := aalloc (m_imports m) {| im_module := wi_module i; im_name := wi_name i; im_kind := MI_Table tid |} in
      POk (set_imports (set_tables m ta) ia, push_table ids tid)
  | WI_Mem mm =>
      let '(ma, mid) := aalloc (m_memories m) (gen_parse_memory_import mm imp) in
      let '(ia, _) := aalloc (m_imports m) {| im_module := wi_module i; im_name := wi_name i; im_kind := MI_Mem mid |} in
      POk (set_imports (set_memories m ma) ia, push_memory ids mid)
  | WI_Global g =>
      let '(ga, gid) := aalloc (m_globals m) (gen_parse_global_import g imp) in
      let '(ia, _) := aalloc (m_imports m) {| im_module := wi_module i; im_name := wi_name i; im_kind := MI_Global gid |} in
      POk (set_imports (set_globals m ga) ia, push_global ids gid)
  end.
Fixpoint parse_imports (m : wir) (ids : i2ids) (l : list wimport) : pres (wir * i2ids) :=
  match l with [] => POk (m, ids) | i :: r => x <-- parse_import m ids i ;; parse_imports (fst x) (snd x) r end.

(* --- function section: declare_local_functions *)
Fixpoint dec_digits (fuel : nat) (n : N) : str :=
  match fuel with O => [] | S f => if n <? 10 then [48 + n] else dec_digits f (n / 10) ++ [48 + n mod 10] end.
Definition synth (cf : config) (prefix : str) (idx : N) : option str :=
  if cf_synthetic_names cf then Some (prefix ++ dec_digits 20 idx) else None.   (* format!("f{}", idx) etc. *)
Fixpoint parse_funcs (m : wir) (ids : i2ids) (l : list N) : pres (wir * i2ids) :=
  match l with
  | [] => POk (m, ids)
  | tyidx :: r =>
      ty <-- of_opt_err (nth_N (ii_types ids) tyidx) ;;
      let '(fa, fid) := aalloc (m_funcs m) {| fn_kind := FK_Uninit ty; fn_name := None |} in
      let idx := len_N (ii_funcs ids) in
      let fa := match synth (m_config m) [102] idx with Some n => aset_at fa fid (fun f => {| fn_kind := fn_kind f; fn_name := Some n |}) | None => fa end in
      parse_funcs (set_funcs m fa) (push_func ids fid) r
  end.

Fixpoint parse_tables (m : wir) (ids : i2ids) (l : list wtable) : wir * i2ids :=
  match l with
  | [] => (m, ids)
  | t :: r =>
      let '(ta, tid) := aalloc (m_tables m) (gen_parse_table_local t) in
      parse_tables (set_tables m ta) (push_table ids tid) r
  end.
Fixpoint parse_mems (m : wir) (ids : i2ids) (l : list wmem) : wir * i2ids :=
  match l with
  | [] => (m, ids)
  | mm :: r =>
      let '(ma, mid) := aalloc (m_memories m) (gen_parse_memory_local mm) in
      parse_mems (set_memories m ma) (push_memory ids mid) r
  end.
Fixpoint parse_globals (m : wir) (ids : i2ids) (l : list (wglobalty * wconst)) : pres (wir * i2ids) :=
  match l with
  | [] => POk (m, ids)
  | (g, c) :: r =>
      init <-- eval_const ids c ;;
      let '(ga, gid) := aalloc (m_globals m) (gen_parse_global_local g init) in
      parse_globals (set_globals m ga) (push_global ids gid) r
  end.

Definition ids_of_kind (ids : i2ids) (k : ekind) : list N :=
  match k with EK_Func => ii_funcs ids | EK_Table => ii_tables ids | EK_Mem => ii_memories ids | EK_Global => ii_globals ids end.
Fixpoint parse_exports (m : wir) (ids : i2ids) (l : list wexport) : pres wir :=
  match l with
  | [] => POk m
  | e :: r =>
      item <-- of_opt_err (nth_N (ids_of_kind ids (we_kind e)) (we_index e)) ;;
      let '(ea, _) := aalloc (m_exports m) {| ex_name := we_name e; ex_kind := we_kind e; ex_item := item |} in
      parse_exports (set_exports m ea) ids r
  end.

(* --- element section *)
Fixpoint map_pres {A B} (f : A -> pres B) (l : list A) : pres (list B) :=
  match l with [] => POk [] | x :: r => y <-- f x ;; ys <-- map_pres f r ;; POk (y :: ys) end.
Definition global_ty (m : wir) (g : N) : option valty := option_map gl_ty (aget (m_globals m) g).
Definition offset_ok (m : wir) (is64 : bool) (c : mconst) : pres bool :=
  match c with
  | MC_Value (V_I64 _) => POk is64
  | MC_Value (V_I32 _) => POk (negb is64)
  | MC_Global g => t <-- of_opt_panic (global_ty m g) ;;
                   POk (match t with VT_I64 => is64 | VT_I32 => negb is64 | _ => false end)
  | _ => POk false
  end.
Definition parse_elem (m : wir) (ids : i2ids) (e : welem) : pres (wir * i2ids) :=
  items_ <-- match wel_items e with
             | WEI_Funcs fs => fl <-- map_pres (fun f => of_opt_err (nth_N (ii_funcs ids) f)) fs ;; POk (ELI_Funcs fl)
             | WEI_Exprs t es => el <-- map_pres (eval_const ids) es ;; POk (ELI_Exprs t el)
             end ;;
  let id := anext (m_elements m) in
  r <-- match wel_kind e with
        | WEK_Passive => POk (m, ELK_Passive)
        | WEK_Declared => POk (m, ELK_Declared)
        | WEK_Active tbl off =>
            tid <-- of_opt_err (nth_N (ii_tables ids) (match tbl with Some t => t | None => 0 end)) ;;
            tb <-- of_opt_panic (aget (m_tables m) tid) ;;
            let m1 := set_tables m (aset_at (m_tables m) tid (fun t => {| tb_64 := tb_64 t; tb_init := tb_init t; tb_max := tb_max t; tb_elem := tb_elem t; tb_import := tb_import t; tb_segs := tb_segs t ++ [id]; tb_name := tb_name t |})) in
            o <-- eval_const ids off ;;
            ok <-- offset_ok m1 (tb_64 tb) o ;;
            if ok then POk (m1, ELK_Active tid o) else PErr
        end ;;
  let '(m1, kind) := r in
  let '(ea, eid) := aalloc (m_elements m1) {| el_kind := kind; el_items := items_; el_name := None |} in
  POk (set_elements m1 ea, push_element ids eid).
Fixpoint parse_elems (m : wir) (ids : i2ids) (l : list welem) : pres (wir * i2ids) :=
  match l with [] => POk (m, ids) | e :: r => x <-- parse_elem m ids e ;; parse_elems (fst x) (snd x) r end.

(* --- data count / data section *)
Definition empty_data : mdata := {| da_kind := DK_Passive; da_value := []; da_name := None |}.
Fixpoint reserve_data (m : wir) (ids : i2ids) (n : nat) : wir * i2ids :=
  match n with
  | O => (m, ids)
  | S k => let '(da, did) := aalloc (m_data m) empty_data in reserve_data (set_data m da) (push_data ids did) k
  end.
Fixpoint parse_data_from (m : wir) (ids : i2ids) (prealloc : bool) (i : N) (l : list wdata) : pres (wir * i2ids) :=
  match l with
  | [] => POk (m, ids)
  | d :: r =>
      x <-- (if prealloc then id <-- of_opt_err (nth_N (ii_data ids) i) ;; POk (m, ids, id)
             else let '(da, did) := aalloc (m_data m) empty_data in POk (set_data m da, push_data ids did, did)) ;;
      let '(m1, ids1, id) := x in
      y <-- match wd_kind d with
            | WDK_Passive => POk (m1, DK_Passive)
            | WDK_Active mi off =>
                mid <-- of_opt_err (nth_N (ii_memories ids1) mi) ;;
                mem <-- of_opt_panic (aget (m_memories m1) mid) ;;
                let m2 := set_memories m1 (aset_at (m_memories m1) mid (fun t => {| me_shared := me_shared t; me_64 := me_64 t; me_init := me_init t; me_max := me_max t; me_page := me_page t; me_import := me_import t; me_segs := me_segs t ++ [id]; me_name := me_name t |})) in
                o <-- eval_const ids1 off ;;
                ok <-- offset_ok m2 (me_64 mem) o ;;
                if ok then POk (m2, DK_Active mid o) else PErr
            end ;;
      let '(m2, kind) := y in
      _ <-- of_opt_panic (aget (m_data m2) id) ;;
      let m3 := set_data m2 (aset_at (m_data m2) id (fun t => {| da_kind := kind; da_value := wd_bytes d; da_name := da_name t |})) in
      parse_data_from m3 ids1 prealloc (i + 1) r
  end.
Definition parse_data (m : wir) (ids : i2ids) (l : list wdata) : pres (wir * i2ids) :=
  parse_data_from m ids (negb (Nat.eqb (length (iter (m_data m))) 0)) 0 l.

(* --- name section (read after the function bodies, with the final index maps) *)
Fixpoint apply_names {A} (a : tarena A) (idx2id : list N) (setn : A -> str -> A) (l : namemap) : tarena A :=
  match l with
  | [] => a
  | (i, n) :: r => match nth_N idx2id i with
                   | Some id => apply_names (aset_at a id (fun x => setn x n)) idx2id setn r
                   | None => apply_names a idx2id setn r                (* a warning *)
                   end
  end.
Definition str_empty (s : str) : bool := match s with [] => true | _ => false end.
(* Name::Local: an entry for an unknown function index is skipped with a warning, like out-of-range
   entries of every other subsection (so the result is always [Some]; the option type is kept for the
   callers); locals are looked up in the parse-time local map *)
Fixpoint apply_local_names (m : wir) (ids : i2ids) (l : list (N * namemap)) : option wir :=
  match l with
  | [] => Some m
  | (fi, names) :: r =>
      match nth_N (ii_funcs ids) fi with
      | None => apply_local_names m ids r
      | Some fid =>
          let ls := match locals_of ids fid with Some v => v | None => [] end in
          let m1 := set_locals m (fold_left (fun a p =>
                      if cf_synthetic_names (m_config m) && str_empty (snd p) then a
                      else match nth_N ls (fst p) with
                           | Some lid => aset_at a lid (fun x => {| lo_ty := lo_ty x; lo_name := Some (snd p) |})
                           | None => a end) names (m_locals m)) in
          apply_local_names m1 ids r
      end
  end.
Definition set_type_name (t : mtype) (n : str) : mtype := {| ty_params := ty_params t; ty_results := ty_results t; ty_entry := ty_entry t; ty_name := Some n |}.
Definition parse_names (m : wir) (ids : i2ids) (n : wnames) : wir :=
  let m := match wn_module n with Some s => set_name m (Some s) | None => m end in
  let m := set_funcs m (apply_names (m_funcs m) (ii_funcs ids) (fun f s => {| fn_kind := fn_kind f; fn_name := Some s |}) (wn_funcs n)) in
  match apply_local_names m ids (wn_locals n) with
  | None => m                                   (* unreachable: see above *)
  | Some m =>
  let m := set_types m {| Arena.arena := apply_names (Arena.arena (m_types m)) (ii_types ids) set_type_name (wn_types n); already := already (m_types m) |} in
  let m := set_tables m (apply_names (m_tables m) (ii_tables ids) (fun t s => {| tb_64 := tb_64 t; tb_init := tb_init t; tb_max := tb_max t; tb_elem := tb_elem t; tb_import := tb_import t; tb_segs := tb_segs t; tb_name := Some s |}) (wn_tables n)) in
  let m := set_memories m (apply_names (m_memories m) (ii_memories ids) (fun t s => {| me_shared := me_shared t; me_64 := me_64 t; me_init := me_init t; me_max := me_max t; me_page := me_page t; me_import := me_import t; me_segs := me_segs t; me_name := Some s |}) (wn_mems n)) in
  let m := set_globals m (apply_names (m_globals m) (ii_globals ids) (fun g s => {| gl_ty := gl_ty g; gl_mut := gl_mut g; gl_shared := gl_shared g; gl_kind := gl_kind g; gl_name := Some s |}) (wn_globals n)) in
  let m := set_elements m (apply_names (m_elements m) (ii_elements ids) (fun e s => {| el_kind := el_kind e; el_items := el_items e; el_name := Some s |}) (wn_elems n)) in
  set_data m (apply_names (m_data m) (ii_data ids) (fun d s => {| da_kind := da_kind d; da_value := da_value d; da_name := Some s |}) (wn_data n))
  end.

(* --- custom sections *)
Definition parse_custom (s : pst) (c : wcsec) : pst :=
  let m := ps_m s in
  match c with
  | CS_Producers (Some p) => with_m s (set_producers m (m_producers m ++ p))
  | CS_Producers None => s
  | CS_Name (Some n) => {| ps_m := m; ps_ids := ps_ids s; ps_bodies := ps_bodies s; ps_names := ps_names s ++ [n]; ps_calls_on_parse := ps_calls_on_parse s |}
  | CS_Name None => s
  | CS_Debug name data => with_m s (set_debug m (m_debug m ++ [(name, data)]))
  | CS_Raw name data => with_m s (set_customs m (m_customs m ++ [Some {| cu_name := name; cu_data := data; cu_roots := [] |}]))
  end.

(* --- one payload *)
Definition parse_sec (s : pst) (sec : wsec) : pres pst :=
  let m := ps_m s in let ids := ps_ids s in
  match sec with
  | S_Types ts => let '(m1, i1) := parse_types m ids ts in POk (with_ids (with_m s m1) i1)
  | S_Imports l => x <-- parse_imports m ids l ;; POk (with_ids (with_m s (fst x)) (snd x))
  | S_Funcs l => x <-- parse_funcs m ids l ;; POk (with_ids (with_m s (fst x)) (snd x))
  | S_Tables l => let '(m1, i1) := parse_tables m ids l in POk (with_ids (with_m s m1) i1)
  | S_Mems l => let '(m1, i1) := parse_mems m ids l in POk (with_ids (with_m s m1) i1)
  | S_Globals l => x <-- parse_globals m ids l ;; POk (with_ids (with_m s (fst x)) (snd x))
  | S_Exports l => m1 <-- parse_exports m ids l ;; POk (with_m s m1)
  | S_Start f => fid <-- of_opt_err (nth_N (ii_funcs ids) f) ;; POk (with_m s (set_start m (Some fid)))
  | S_Elems l => x <-- parse_elems m ids l ;; POk (with_ids (with_m s (fst x)) (snd x))
  | S_DataCount n => let '(m1, i1) := reserve_data m ids (N.to_nat n) in POk (with_ids (with_m s m1) i1)
  | S_Code bs => POk {| ps_m := m; ps_ids := ids; ps_bodies := ps_bodies s ++ bs; ps_names := ps_names s; ps_calls_on_parse := ps_calls_on_parse s |}
  | S_Data l => x <-- parse_data m ids l ;; POk (with_ids (with_m s (fst x)) (snd x))
  | S_Custom c => POk (parse_custom s c)
  end.
Fixpoint parse_secs (s : pst) (l : list wsec) : pres pst :=
  match l with [] => POk s | x :: r => s1 <-- parse_sec s x ;; parse_secs s1 r end.

(* --- parse_local_functions: locals first (serially), then every body *)
Fixpoint add_locals (m : wir) (ids : i2ids) (fid : N) (tys : list valty) (prefix : str) : wir * i2ids * list N :=
  match tys with
  | [] => (m, ids, [])
  | t :: r =>
      let '(la, lid) := aalloc (m_locals m) {| lo_ty := t; lo_name := None |} in
      let idx := match locals_of ids fid with Some v => len_N v | None => 0 end in
      let la := match synth (m_config m) prefix idx with Some n => aset_at la lid (fun x => {| lo_ty := lo_ty x; lo_name := Some n |}) | None => la end in
      let '(m1, ids1, rest) := add_locals (set_locals m la) (push_local ids fid lid) fid r prefix in
      (m1, ids1, lid :: rest)
  end.
Definition expand_locals (l : list (N * valty)) : list valty := flat_map (fun p => repeat (snd p) (N.to_nat (fst p))) l.

Record prepared := { pr_fid : N; pr_ty : N; pr_args : list N; pr_body : wbody }.
Fixpoint prepare_bodies (m : wir) (ids : i2ids) (num_imports : N) (i : N) (bs : list wbody) : pres (wir * i2ids * list prepared) :=
  match bs with
  | [] => POk (m, ids, [])
  | b :: r =>
      fid <-- of_opt_err (nth_N (ii_funcs ids) (num_imports + i)) ;;
      f <-- of_opt_panic (aget (m_funcs m) fid) ;;
      match fn_kind f with
      | FK_Uninit ty =>
          t <-- of_opt_panic (types_get m ty) ;;
          let '(m1, ids1, args) := add_locals m ids fid (ty_params t) [97; 114; 103] in
          let '(m2, _) := types_insert m1 {| ty_params := []; ty_results := ty_results t; ty_entry := true; ty_name := None |} in
          let '(m3, ids3, _) := add_locals m2 ids1 fid (expand_locals (wb_locals b)) [108] in
          x <-- prepare_bodies m3 ids3 num_imports (i + 1) r ;;
          let '(m4, ids4, rest) := x in
          POk (m4, ids4, {| pr_fid := fid; pr_ty := ty; pr_args := args; pr_body := b |} :: rest)
      | _ => PPanic
      end
  end.

Definition i2id_fun (ids : i2ids) (fid : N) : space -> N -> N :=
  fun sp i =>
    let l := match sp with
             | S_func => ii_funcs ids | S_type => ii_types ids | S_table => ii_tables ids | S_memory => ii_memories ids
             | S_global => ii_globals ids | S_data => ii_data ids | S_elem => ii_elements ids
             | S_local => match locals_of ids fid with Some v => v | None => [] end
             end in
    nth (N.to_nat i) l 4294967295.

(* find_for_function_entry *)
Fixpoint find_entry_from (n : N) (l : list mtype) (dead : list nat) (rs : list valty) : option N :=
  match l with
  | [] => None
  | t :: l' => if negb (existsb (Nat.eqb (N.to_nat n)) dead) && ty_entry t && vl_eqb (ty_params t) [] && vl_eqb (ty_results t) rs
               then Some n else find_entry_from (n + 1) l' dead rs
  end.
Definition find_entry (m : wir) (rs : list valty) : option N :=
  find_entry_from 0 (items (Arena.arena (m_types m))) (dead (Arena.arena (m_types m))) rs.

Definition parse_one_body (m : wir) (ids : i2ids) (p : prepared) : pres mlocalfunc :=
  t <-- of_opt_panic (types_get m (pr_ty p)) ;;
  ety <-- of_opt_panic (find_entry m (ty_results t)) ;;
  let cx := {| px_i2id := i2id_fun ids (pr_fid p); px_types := types_list m |} in
  match parse_body cx ety (ty_results t) (wb_ops (pr_body p)) with
  | Ok ar => POk {| lf_ty := pr_ty p; lf_args := pr_args p; lf_arena := ar; lf_entry := 0; lf_orig_range := None;
                    lf_instr_mapping := map (fun o => (snd o - m_code_section_offset m, snd o)) (wb_ops (pr_body p)) |}
  | _ => PPanic
  end.

Fixpoint install_bodies (m : wir) (ids : i2ids) (ps : list prepared) : pres wir :=
  match ps with
  | [] => POk m
  | p :: r =>
      lf <-- parse_one_body m ids p ;;
      let m1 := set_funcs m (aset_at (m_funcs m) (pr_fid p) (fun f => {| fn_kind := FK_Local lf; fn_name := fn_name f |})) in
      install_bodies m1 ids r
  end.

(* producers.add_processed_by("walrus", version): replace in place / append / new field *)
Fixpoint replace_value (vs : list (str * str)) (name ver : str) : option (list (str * str)) :=
  match vs with
  | [] => None
  | (n, v) :: r => if str_eqb n name then Some ((name, ver) :: r)
                   else option_map (cons (n, v)) (replace_value r name ver)
  end.
Fixpoint producers_field (p : wproducers) (field name ver : str) : wproducers :=
  match p with
  | [] => [(field, [(name, ver)])]
  | (f, vs) :: r => if str_eqb f field
                    then (f, match replace_value vs name ver with Some vs' => vs' | None => vs ++ [(name, ver)] end) :: r
                    else (f, vs) :: producers_field r field name ver
  end.
Definition s_processed_by : str := [112;114;111;99;101;115;115;101;100;45;98;121].
Definition s_walrus : str := [119;97;108;114;117;115].

(* Module::parse; [version] = env!("CARGO_PKG_VERSION") as bytes *)
Definition parseM (cf : config) (version : str) (w : wmod) : pres pst :=
  let s0 := {| ps_m := empty_wir cf; ps_ids := empty_i2ids; ps_bodies := []; ps_names := []; ps_calls_on_parse := 0 |} in
  s1 <-- parse_secs s0 w ;;
  let m := ps_m s1 in let ids := ps_ids s1 in
  let n_funcs := len_N (iter (m_funcs m)) in
  let n_bodies := len_N (ps_bodies s1) in
  (* usize subtraction `arena.len() - functions.len()` *)
  if n_funcs <? n_bodies then PPanic else
  x <-- prepare_bodies m ids (n_funcs - n_bodies) 0 (ps_bodies s1) ;;
  let '(m1, ids1, prepared) := x in
  m2 <-- install_bodies m1 ids1 prepared ;;
  let m2 := fold_left (fun m n => parse_names m ids1 n) (ps_names s1) m2 in
  let m3 := set_producers m2 (producers_field (m_producers m2) s_processed_by s_walrus version) in
  POk {| ps_m := m3; ps_ids := ids1; ps_bodies := []; ps_names := []; ps_calls_on_parse := ps_calls_on_parse s1 + 1 |}.
