(* Executable models of src/ir/traversals.rs : dfs_in_order and dfs_pre_order_mut,
   as explicit-stack machines, producing the visitor callback log.
   The per-instruction callback shape comes from Gen/Ops.v (regenerated from
   src/ir/mod.rs and crates/macro): [visited_refs], [visited_seqs_*],
   [default_hook_recurses], [default_hook_mut_recurses]. *)
From Coq Require Import List NArith Bool. Import ListNotations.
From WV Require Import Gen.Ops Model.Common Model.IR.
Open Scope N_scope.

Inductive ev :=
  | EStart (s : N)                 (* start_instr_seq *)
  | ESeqType (ty : N)              (* InstrSeq::visit -> visit_type_id for a multi-value sequence *)
  | EInstr (i : instr) (loc : N)   (* visit_instr *)
  | EHook (i : instr)              (* visit_<variant> *)
  | ERef (sp : space) (id : N)     (* visit_<entity>_id *)
  | ESeqRef (s : N)                (* visit_instr_seq_id *)
  | EEnd (s : N).                  (* end_instr_seq *)

(* <variant>::visit : one callback per field that is not skip_visit *)
Definition field_events (i : instr) : list ev :=
  match i with
  | IPlain p => map (fun r => ERef (fst r) (snd r)) (visited_refs p)
  | IBlock s => map ESeqRef (visited_seqs_Block s)
  | ILoop s => map ESeqRef (visited_seqs_Loop s)
  | IIfElse c a => map ESeqRef (visited_seqs_IfElse c a)
  | IBr s => map ESeqRef (visited_seqs_Br s)
  | IBrIf s => map ESeqRef (visited_seqs_BrIf s)
  | IBrTable ss d => map ESeqRef (visited_seqs_BrTable ss d)
  end.

(* Instr::visit = visitor.visit_<variant>(e); [e.visit(visitor)] : the bracketed part is present
   iff [visit_fields_after_hook].  [hooks_overridden]: the visitor overrides the per-variant hooks
   with bodies that do not recurse; otherwise the default hook body runs ([recurses] says whether it
   visits the fields) *)
Definition instr_visit (recurses hooks_overridden : bool) (i : instr) : list ev :=
  EHook i :: (if negb hooks_overridden && recurses then field_events i else []) ++
             (if visit_fields_after_hook then field_events i else []).

Definition seq_visit (q : iseq) : list ev :=
  match sq_ty q with ST_Multi ty => [ESeqType ty] | ST_Simple _ => [] end.

Section InOrder.
  Variable ov : bool.   (* per-variant hooks overridden? *)

  (* the inner `for` loop from position [idx]: events up to (and including) the next
     nested construct, and what gets pushed on the stack *)
  Fixpoint scan (l : list (instr * N)) (idx : nat) : list ev * option (nat * list N) :=
    match l with
    | [] => ([], None)
    | (i, loc) :: l' =>
        let here := EInstr i loc :: instr_visit default_hook_recurses ov i in
        match i with
        | IBlock s | ILoop s => (here, Some (S idx, [s]))
        | IIfElse c a => (here, Some (S idx, [c; a]))
        | _ => let '(e, r) := scan l' (S idx) in (here ++ e, r)
        end
    end.

  (* stack of (sequence id, resume index); the head is the top *)
  Fixpoint run_dfs (fuel : nat) (ar : arena) (stack : list (N * nat)) : res (list ev) :=
    match fuel with
    | O => OutOfFuel
    | S f =>
        match stack with
        | [] => Ok []
        | (sid, idx) :: rest =>
            match nth_error ar (N.to_nat sid) with
            | None => Panic                                   (* func.block(seq_id) on a bad id *)
            | Some q =>
                let pre := if Nat.eqb idx 0 then EStart sid :: seq_visit q else [] in
                match scan (skipn idx (sq_instrs q)) idx with
                | (evs, None) => rmap (fun r => pre ++ evs ++ [EEnd sid] ++ r) (run_dfs f ar rest)
                | (evs, Some (ridx, kids)) =>
                    rmap (fun r => pre ++ evs ++ r)
                         (run_dfs f ar (map (fun k => (k, O)) kids ++ (sid, ridx) :: rest))
                end
            end
        end
    end.

  Definition dfs_in_order (fuel : nat) (ar : arena) (start : N) : res (list ev) :=
    run_dfs fuel ar [(start, O)].
End InOrder.

Section PreOrderMut.
  Variable ov : bool.

  (* one whole sequence: every instruction, and the children pushed (in push order) *)
  Fixpoint scan_mut (l : list (instr * N)) : list ev * list N :=
    match l with
    | [] => ([], [])
    | (i, loc) :: l' =>
        let here := EInstr i loc :: instr_visit default_hook_mut_recurses ov i in
        let '(e, ks) := scan_mut l' in
        match i with
        | IBlock s | ILoop s => (here ++ e, s :: ks)
        | IIfElse c a => (here ++ e, a :: c :: ks)           (* push alternative, then consequent *)
        | _ => (here ++ e, ks)
        end
    end.

  (* stack.push appends at the top: after a sequence whose pushes were k1..kn (in that
     order) the top of the stack is kn *)
  Fixpoint run_pre (fuel : nat) (ar : arena) (stack : list N) : res (list ev) :=
    match fuel with
    | O => OutOfFuel
    | S f =>
        match stack with
        | [] => Ok []
        | sid :: rest =>
            match nth_error ar (N.to_nat sid) with
            | None => Panic
            | Some q =>
                let '(evs, ks) := scan_mut (sq_instrs q) in
                rmap (fun r => EStart sid :: seq_visit q ++ evs ++ [EEnd sid] ++ r)
                     (run_pre f ar (rev ks ++ rest))
            end
        end
    end.

  Definition dfs_pre_order_mut (fuel : nat) (ar : arena) (start : N) : res (list ev) :=
    run_pre fuel ar [start].
End PreOrderMut.

(* ------------------------------------------------------------------ specification side *)
(* the recursive in-order event list of a tree *)
Section Spec.
  Variable ov : bool.
  Fixpoint events (t : tree) : list ev :=
    match t with T s ty items e =>
      EStart s :: seq_visit (shallow_seq t) ++
      (fix go (l : list (item * N)) := match l with [] => [] | x :: l' => item_events (fst x) (snd x) ++ go l' end) items
      ++ [EEnd s]
    end
  with item_events (it : item) (loc : N) : list ev :=
    let here := EInstr (shallow it) loc :: instr_visit default_hook_recurses ov (shallow it) in
    match it with
    | ItB t | ItL t => here ++ events t
    | ItI c a => here ++ events c ++ events a
    | _ => here
    end.

  (* number of sequences in the tree (= fuel needed, +1) *)
  Fixpoint size (t : tree) : nat :=
    match t with T _ _ items _ =>
      S ((fix go (l : list (item * N)) := match l with [] => O | x :: l' => (isize (fst x) + go l')%nat end) items)
    end
  with isize (it : item) : nat :=
    match it with ItB t | ItL t => S (size t) | ItI c a => S (size c + size a)%nat | _ => O end.
End Spec.
