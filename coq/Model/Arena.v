(* Executable model of src/tombstone_arena.rs and src/arena_set.rs.
   Definitions only (no proofs) so the model still evaluates when a proof breaks.

   TombstoneArena<T>  = { inner : id_arena (append-only vector, id = position);
                          dead  : IdHashSet<T> }            -> [tarena]
   ArenaSet<T>        = { arena : TombstoneArena<T>;
                          already_in_arena : HashMap<T, Id> } -> [aset]
   Every assert!/index panic of the Rust is an explicit [None] (= Panic). *)
From Coq Require Import List NArith Bool Arith.
Import ListNotations.

Section Arena.
  Variable A : Type.
  Variable on_delete : A -> A.           (* Tombstone::on_delete *)

  Record tarena := { items : list A; dead : list nat }.

  Definition empty : tarena := {| items := []; dead := [] |}.

  Definition is_dead (a : tarena) (id : nat) : bool :=
    existsb (Nat.eqb id) (dead a).

  (* inner.next_id() *)
  Definition next_id (a : tarena) : nat := length (items a).

  (* alloc: push, return position *)
  Definition alloc (a : tarena) (v : A) : tarena * nat :=
    ({| items := items a ++ [v]; dead := dead a |}, next_id a).

  (* contains: inner.get(id).is_some() && !dead.contains(id) *)
  Definition contains (a : tarena) (id : nat) : bool :=
    match nth_error (items a) id with
    | Some _ => negb (is_dead a id)
    | None => false
    end.

  (* get: None if dead, else inner.get *)
  Definition get (a : tarena) (id : nat) : option A :=
    if is_dead a id then None else nth_error (items a) id.

  (* Index::index : assert!(!dead.contains(id)); &inner[id]  -- panic = None *)
  Definition index (a : tarena) (id : nat) : option A := get a id.

  Fixpoint upd (l : list A) (n : nat) (f : A -> A) : list A :=
    match l, n with
    | [], _ => []
    | x :: r, O => f x :: r
    | x :: r, S k => x :: upd r k f
    end.

  (* delete: assert!(contains(id)); dead.insert(id); inner[id].on_delete() *)
  Definition delete (a : tarena) (id : nat) : option tarena :=
    if contains a id
    then Some {| items := upd (items a) id on_delete; dead := id :: dead a |}
    else None.

  (* len: inner.len() - dead.len()   (usize subtraction: underflow = panic) *)
  Definition len (a : tarena) : option nat :=
    if length (dead a) <=? length (items a)
    then Some (length (items a) - length (dead a)) else None.

  (* iter: inner.iter().filter(!dead) *)
  Fixpoint iter_from (n : nat) (l : list A) (d : list nat) : list (nat * A) :=
    match l with
    | [] => []
    | x :: r =>
        if existsb (Nat.eqb n) d then iter_from (S n) r d
        else (n, x) :: iter_from (S n) r d
    end.
  Definition iter (a : tarena) : list (nat * A) := iter_from 0 (items a) (dead a).

  (* ---------------- ArenaSet ---------------- *)
  Variable eqA : A -> A -> bool.         (* the key equality used by the HashMap *)

  Record aset := { arena : tarena; already : list (A * nat) }.

  Definition aset_empty : aset := {| arena := empty; already := [] |}.

  Fixpoint lookup (m : list (A * nat)) (v : A) : option nat :=
    match m with
    | [] => None
    | (k, id) :: r => if eqA k v then Some id else lookup r v
    end.

  Fixpoint map_remove (m : list (A * nat)) (v : A) : list (A * nat) :=
    match m with
    | [] => []
    | (k, id) :: r => if eqA k v then map_remove r v else (k, id) :: map_remove r v
    end.

  (* insert: return existing id if the value is already known, else alloc + record *)
  Definition insert (s : aset) (v : A) : aset * nat :=
    match lookup (already s) v with
    | Some id => (s, id)
    | None =>
        let '(a', id) := alloc (arena s) v in
        ({| arena := a'; already := (v, id) :: already s |}, id)
    end.

  (* remove: already.remove(&arena[id]) ; arena.delete(id) *)
  Definition aset_remove (s : aset) (id : nat) : option aset :=
    match index (arena s) id with
    | None => None
    | Some v =>
        match delete (arena s) id with
        | None => None
        | Some a' => Some {| arena := a'; already := map_remove (already s) v |}
        end
    end.

  Definition aset_iter (s : aset) : list (nat * A) := iter (arena s).
  Definition aset_index (s : aset) (id : nat) : option A := index (arena s) id.
End Arena.

Arguments items {A}. Arguments dead {A}. Arguments empty {A}.
Arguments is_dead {A}. Arguments next_id {A}. Arguments alloc {A}.
Arguments contains {A}. Arguments get {A}. Arguments index {A}.
Arguments upd {A}. Arguments delete {A}. Arguments len {A}.
Arguments iter_from {A}. Arguments iter {A}.
Arguments arena {A}. Arguments already {A}. Arguments aset_empty {A}.
Arguments lookup {A}. Arguments map_remove {A}. Arguments insert {A}.
Arguments aset_remove {A}. Arguments aset_iter {A}. Arguments aset_index {A}.

(* ---------------- histories ---------------- *)
Section Hist.
  Variable A : Type.
  Variable on_delete : A -> A.
  Variable eqA : A -> A -> bool.

  Inductive op := OAlloc (v : A) | ODelete (id : nat) | OGet (id : nat)
                | OContains (id : nat) | OIter | OLen | OFind (v : A)
                | OIterMut.    (* iter_mut(): a separate iterator type (IterMut) in the Rust; must yield the same live items *)
  Inductive out := RId (id : nat) | RUnit | RPanic | ROpt (v : option A)
                 | RBool (b : bool) | RList (l : list (nat * A)) | RLen (n : nat)
                 | RFind (o : option nat).

  (* the `find`-style lookups (ModuleTypes::find, ModuleExports get_exported_X):
     first live item, in iteration order, whose key equals v *)
  Definition find_id (v : A) (l : list (nat * A)) : option nat :=
    match find (fun p => eqA (snd p) v) l with Some p => Some (fst p) | None => None end.

  (* one public operation on a TombstoneArena-backed collection; a panic
     (caught by catch_unwind in the harness) leaves the state as it was *)
  Definition step (a : tarena A) (o : op) : tarena A * out :=
    match o with
    | OAlloc v => let '(a', id) := alloc a v in (a', RId id)
    | ODelete id => match delete on_delete a id with
                    | Some a' => (a', RUnit) | None => (a, RPanic) end
    | OGet id => (a, match index a id with Some v => ROpt (Some v) | None => RPanic end)
    | OContains id => (a, RBool (contains a id))
    | OIter => (a, RList (iter a))
    | OLen => (a, match len a with Some n => RLen n | None => RPanic end)
    | OFind v => (a, RFind (find_id v (iter a)))
    | OIterMut => (a, RList (iter a))
    end.

  Fixpoint run (a : tarena A) (ops : list op) : tarena A * list out :=
    match ops with
    | [] => (a, [])
    | o :: r => let '(a', x) := step a o in
                let '(a'', xs) := run a' r in (a'', x :: xs)
    end.

  (* the same for an ArenaSet-backed collection (ModuleTypes):
     OAlloc = insert (de-duplicating), ODelete = remove *)
  Definition sstep (s : aset A) (o : op) : aset A * out :=
    match o with
    | OAlloc v => let '(s', id) := insert eqA s v in (s', RId id)
    | ODelete id => match aset_remove on_delete eqA s id with
                    | Some s' => (s', RUnit) | None => (s, RPanic) end
    | OGet id => (s, match aset_index s id with Some v => ROpt (Some v) | None => RPanic end)
    | OContains id => (s, RBool (contains (arena s) id))
    | OIter => (s, RList (aset_iter s))
    | OLen => (s, match len (arena s) with Some n => RLen n | None => RPanic end)
    | OFind v => (s, RFind (find_id v (aset_iter s)))
    | OIterMut => (s, RList (aset_iter s))
    end.

  Fixpoint srun (s : aset A) (ops : list op) : aset A * list out :=
    match ops with
    | [] => (s, [])
    | o :: r => let '(s', x) := sstep s o in
                let '(s'', xs) := srun s' r in (s'', x :: xs)
    end.
End Hist.
Arguments OAlloc {A}. Arguments ODelete {A}. Arguments OGet {A}. Arguments OContains {A}.
Arguments OIter {A}. Arguments OLen {A}. Arguments OFind {A}. Arguments OIterMut {A}.
Arguments RId {A}. Arguments RUnit {A}. Arguments RPanic {A}. Arguments ROpt {A}.
Arguments RBool {A}. Arguments RList {A}. Arguments RLen {A}. Arguments RFind {A}. Arguments find_id {A}.
Arguments step {A}. Arguments run {A}. Arguments sstep {A}. Arguments srun {A}.
