(* Executable model of LocalFunction::emit_locals (local_function/mod.rs): which locals are
   declared in the emitted body and at which index each used local ends up.
   used_locals = the set of LocalIds the in-order traversal reports (an IdHashSet: iteration
   order is arbitrary, modelled as ANY list with those members); it is then sorted by id. *)
From Coq Require Import List NArith Bool. Import ListNotations.
From WV Require Import Gen.Ops Model.Common Model.IR Model.Traversal.
Open Scope N_scope.

Definition mem_N (x : N) (l : list N) : bool := existsb (N.eqb x) l.

(* insertion sort by id, dropping duplicates: `collect::<Vec<_>>(); sort_unstable()` of a set *)
Fixpoint insert_sorted (x : N) (l : list N) : list N :=
  match l with
  | [] => [x]
  | y :: r => if x <? y then x :: l else if x =? y then l else y :: insert_sorted x r
  end.
Definition sort_ids (l : list N) : list N := fold_right insert_sorted [] l.

(* the LocalIds reported by the traversal (visit_local_id) *)
Definition used_of_log (evs : list ev) : list N :=
  flat_map (fun e => match e with ERef S_local id => [id] | _ => [] end) evs.

Section Locals.
  Variable local_ty : N -> valty.           (* module.locals.get(id).ty() *)

  (* BTreeMap<ValType, Vec<LocalId>> in key order = ValType's derived Ord = valty_code order *)
  Definition all_valtys : list valty := [VT_I32; VT_I64; VT_F32; VT_F64; VT_V128; VT_Funcref; VT_Externref].
  Definition of_type (t : valty) (ls : list N) : list N :=
    filter (fun l => N.eqb (valty_code (local_ty l)) (valty_code t)) ls.

  (* (declaration groups (count, type), index assignment (LocalId, index)) *)
  Definition emit_locals (args : list N) (used_any_order : list N) : list (N * valty) * list (N * N) :=
    let used := sort_ids used_any_order in
    let non_args := filter (fun l => negb (mem_N l args)) used in
    let groups := map (fun t => (t, of_type t non_args)) all_valtys in
    let groups := filter (fun g => negb (match snd g with [] => true | _ => false end)) groups in
    let decls := map (fun g => (len_N (snd g), fst g)) groups in
    let order := args ++ flat_map snd groups in
    (decls, combine order (map N.of_nat (seq 0 (length order)))).

  Definition local_index (m : list (N * N)) (id : N) : option N :=
    match find (fun p => N.eqb (fst p) id) m with Some p => Some (snd p) | None => None end.
End Locals.
