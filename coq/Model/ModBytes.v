(* THE WHOLE MODULE AS BYTES: the binary format of every section, between the bytes of a .wasm file and the section stream
   [wmod] (Model/ModuleM.v) on which [parseM] / [emitM] work.  Until now that step was made by the Rust harness
   (src/wmodcoq.rs on top of wasmparser) and trusted.  Below it: LEB128 (Model/Leb.v), section framing (Model/Frame.v), function
   bodies (Model/Bytes.v).
     writer : [enc_sec] / [enc_wmod]  -- what wasm-encoder 0.214 writes (canonical: minimal LEB128, the flag forms it picks)
     reader : [dec_sec] / [dec_wmod]  -- what wasmparser 0.214 reads and src/wmodcoq.rs prints (any LEB128 padding, every flag form);
              with [wp = true] every operator carries its ABSOLUTE file offset (OperatorsReader::original_position), with
              [wp = false] all positions are 0.
   Definitions only (executable); theorems in Proofs/ModBytes.v; the tie to real bytes is Run/ModBytesRun.v (`vh modbytes`).
   Known laxness of the reader w.r.t. wasmparser (never matters on modules that validate): LEB128 values are not range-checked
   (u32 / u64 / "representation too long"), strings are checked for UTF-8 but not for the 100000-byte limit. *)
From Coq Require Import List NArith ZArith Bool. Import ListNotations.
From WV Require Import Gen.Ops Model.Common Model.IR Model.Leb Model.Frame Model.Bytes Model.ModuleM.
Open Scope N_scope.

Notation "'do' ' p <- a ; b" := (match a with Some p => b | None => None end)
  (at level 200, p pattern, a at level 100, b at level 200, only parsing).

(* ------------------------------------------------------------------ vectors: LEB u32 count, then the items *)
Section Vec.
  Context {A : Type}.
  Variable enc1 : A -> option (list N).
  Variable dec1 : list N -> option (A * list N).
  Fixpoint enc_many (l : list A) : option (list N) :=
    match l with
    | [] => Some []
    | a :: r => do 'x <- enc1 a; do 'y <- enc_many r; Some (x ++ y)
    end.
  Definition enc_vec (l : list A) : option (list N) := do 'b <- enc_many l; Some (enc_u (lenB l) ++ b).
  Fixpoint dec_many (k : nat) (bs : list N) : option (list A * list N) :=
    match k with
    | O => Some ([], bs)
    | S k' => do '(a, r) <- dec1 bs; do '(l, r') <- dec_many k' r; Some (a :: l, r')
    end.
  (* every item takes at least one byte: a count larger than what is left cannot succeed (and must not be turned into a unary number) *)
  Definition dec_vec (bs : list N) : option (list A * list N) :=
    do '(k, r) <- dec_u bs; if lenB r <? k then None else dec_many (N.to_nat k) r.
End Vec.
Definition all_used {A} (x : option (A * list N)) : option A := do '(a, r) <- x; match r with [] => Some a | _ => None end.

(* ------------------------------------------------------------------ bytes, names *)
Definition enc_bytes (s : list N) : list N := enc_u (lenB s) ++ s.
Definition dec_bytes (bs : list N) : option (list N * list N) :=
  do '(n, r) <- dec_u bs; if lenB r <? n then None else Some (takeN n r, dropN n r).

(* Rust's str::from_utf8 (wasmparser's read_string refuses anything else) *)
Definition cont (b : N) : bool := (128 <=? b) && (b <=? 191).
Definition lead3 (a b : N) : bool :=
  ((a =? 224) && (160 <=? b) && (b <=? 191)) || ((225 <=? a) && (a <=? 236) && cont b) ||
  ((a =? 237) && (128 <=? b) && (b <=? 159)) || ((238 <=? a) && (a <=? 239) && cont b).
Definition lead4 (a b : N) : bool :=
  ((a =? 240) && (144 <=? b) && (b <=? 191)) || ((241 <=? a) && (a <=? 243) && cont b) || ((a =? 244) && (128 <=? b) && (b <=? 143)).
Fixpoint utf8_ok (s : list N) : bool :=
  match s with
  | [] => true
  | a :: r =>
      if a <? 128 then utf8_ok r
      else match r with
           | [] => false
           | b :: r2 =>
               if (194 <=? a) && (a <=? 223) then cont b && utf8_ok r2
               else match r2 with
                    | [] => false
                    | c :: r3 =>
                        if (224 <=? a) && (a <=? 239) then lead3 a b && cont c && utf8_ok r3
                        else match r3 with
                             | [] => false
                             | d :: r4 => lead4 a b && cont c && cont d && utf8_ok r4
                             end
                    end
           end
  end.
Definition enc_name (s : str) : list N := enc_bytes s.
Definition dec_name (bs : list N) : option (str * list N) :=
  do '(s, r) <- dec_bytes bs; if utf8_ok s then Some (s, r) else None.

(* ------------------------------------------------------------------ types *)
Definition refty_byte (t : refty) : N := match t with RT_Funcref => 112 | RT_Externref => 111 end.
Definition dec_refty (bs : list N) : option (refty * list N) :=
  match bs with
  | b :: r => if b =? 112 then Some (RT_Funcref, r) else if b =? 111 then Some (RT_Externref, r) else None
  | [] => None
  end.
Definition enc_valty (t : valty) : option (list N) := Some [valty_byte t].
Definition dec_valty (bs : list N) : option (valty * list N) :=
  match bs with b :: r => do 't <- valty_of_byte b; Some (t, r) | [] => None end.
Definition enc_u_o (n : N) : option (list N) := Some (enc_u n).

Definition functy : Type := list valty * list valty.
Definition enc_functy (t : functy) : option (list N) :=
  do 'p <- enc_vec enc_valty (fst t); do 'r <- enc_vec enc_valty (snd t); Some (96 :: p ++ r).
Definition dec_functy (bs : list N) : option (functy * list N) :=
  match bs with
  | b :: r => if b =? 96 then do '(p, r1) <- dec_vec dec_valty r; do '(q, r2) <- dec_vec dec_valty r1; Some ((p, q), r2) else None
  | [] => None
  end.

Definition b2n (b : bool) : N := if b then 1 else 0.
Definition enc_opt_u (o : option N) : list N := match o with Some x => enc_u x | None => [] end.
Definition dec_opt_u (present : bool) (bs : list N) : option (option N * list N) :=
  if present then do '(x, r) <- dec_u bs; Some (Some x, r) else Some (None, bs).

(* table type: reference type, flags (bit 0 maximum present, bit 1 shared, bit 2 64-bit), minimum, [maximum].
   [wtable] has no `shared` field: a shared table is outside the model (the reader refuses bit 1). *)
Definition enc_table (t : wtable) : list N :=
  refty_byte (wt_elem t) :: (b2n (match wt_max t with Some _ => true | None => false end) + 4 * b2n (wt_64 t)) :: enc_u (wt_init t) ++ enc_opt_u (wt_max t).
Definition dec_table (bs : list N) : option (wtable * list N) :=
  do '(e, r) <- dec_refty bs;
  match r with
  | fl :: r1 =>
      if (8 <=? fl) || N.testbit fl 1 then None
      else do '(i, r2) <- dec_u r1; do '(m, r3) <- dec_opt_u (N.testbit fl 0) r2;
           Some ({| wt_elem := e; wt_64 := N.testbit fl 2; wt_init := i; wt_max := m |}, r3)
  | [] => None
  end.
(* memory type: flags (bit 0 maximum, bit 1 shared, bit 2 memory64, bit 3 custom page size), minimum, [maximum], [log2 page size] *)
Definition enc_mem (m : wmem) : list N :=
  (b2n (match wm_max m with Some _ => true | None => false end) + 2 * b2n (wm_shared m) + 4 * b2n (wm_64 m)
   + 8 * b2n (match wm_page m with Some _ => true | None => false end))
  :: enc_u (wm_init m) ++ enc_opt_u (wm_max m) ++ enc_opt_u (wm_page m).
Definition dec_mem (bs : list N) : option (wmem * list N) :=
  match bs with
  | fl :: r1 =>
      if 16 <=? fl then None
      else do '(i, r2) <- dec_u r1; do '(m, r3) <- dec_opt_u (N.testbit fl 0) r2; do '(p, r4) <- dec_opt_u (N.testbit fl 3) r3;
           Some ({| wm_64 := N.testbit fl 2; wm_shared := N.testbit fl 1; wm_init := i; wm_max := m; wm_page := p |}, r4)
  | [] => None
  end.
(* global type: value type, flags (bit 0 mutable, bit 1 shared) *)
Definition enc_globalty (g : wglobalty) : list N := [valty_byte (wg_ty g); b2n (wg_mut g) + 2 * b2n (wg_shared g)].
Definition dec_globalty (bs : list N) : option (wglobalty * list N) :=
  do '(t, r) <- dec_valty bs;
  match r with
  | fl :: r1 => if 4 <=? fl then None else Some ({| wg_ty := t; wg_mut := N.testbit fl 0; wg_shared := N.testbit fl 1 |}, r1)
  | [] => None
  end.

(* ------------------------------------------------------------------ constant expressions *)
Definition const_op (c : wconst) : option wins :=
  match c with
  | WC_I32 z => Some (WOp (W_I32Const z)) | WC_I64 z => Some (WOp (W_I64Const z))
  | WC_F32 n => Some (WOp (W_F32Const n)) | WC_F64 n => Some (WOp (W_F64Const n)) | WC_V128 n => Some (WOp (W_V128Const n))
  | WC_GlobalGet i => Some (WOp (W_GlobalGet i))
  | WC_RefNull RT_Funcref => Some (WOp (W_RefNull HT_Func)) | WC_RefNull RT_Externref => Some (WOp (W_RefNull HT_Extern))
  | WC_RefFunc i => Some (WOp (W_RefFunc i))
  | WC_Other => None
  end.
Definition enc_const (c : wconst) : option (list N) := do 'i <- const_op c; do 'bs <- enc_ins i; Some (bs ++ [11]).
Definition const_of_op (o : wop) : wconst :=
  match o with
  | W_I32Const z => WC_I32 z | W_I64Const z => WC_I64 z | W_F32Const n => WC_F32 n | W_F64Const n => WC_F64 n | W_V128Const n => WC_V128 n
  | W_GlobalGet i => WC_GlobalGet i | W_RefNull HT_Func => WC_RefNull RT_Funcref | W_RefNull HT_Extern => WC_RefNull RT_Externref
  | W_RefFunc i => WC_RefFunc i
  | _ => WC_Other
  end.
Definition const_of_ins (i : wins) : wconst := match i with WOp o => const_of_op o | _ => WC_Other end.
(* wasmparser skips operators up to the first `end`; src/wmodcoq.rs: exactly one of the known operators before it, else WC_Other *)
Fixpoint dec_until_end (fuel : nat) (bs : list N) : option (list wins * list N) :=
  match fuel with
  | O => None
  | S f => do '(i, r) <- dec_ins bs;
           match i with
           | WEnd => Some ([], r)
           | _ => do '(l, r') <- dec_until_end f r; Some (i :: l, r')
           end
  end.
Definition dec_const (bs : list N) : option (wconst * list N) :=
  do '(l, r) <- dec_until_end (length bs) bs; Some (match l with [i] => const_of_ins i | _ => WC_Other end, r).

(* ------------------------------------------------------------------ imports, exports *)
Definition enc_importkind (k : wimportkind) : list N :=
  match k with
  | WI_Func t => 0 :: enc_u t
  | WI_Table t => 1 :: enc_table t
  | WI_Mem m => 2 :: enc_mem m
  | WI_Global g => 3 :: enc_globalty g
  end.
Definition dec_importkind (bs : list N) : option (wimportkind * list N) :=
  match bs with
  | k :: r =>
      if k =? 0 then do '(t, r') <- dec_u r; Some (WI_Func t, r')
      else if k =? 1 then do '(t, r') <- dec_table r; Some (WI_Table t, r')
      else if k =? 2 then do '(m, r') <- dec_mem r; Some (WI_Mem m, r')
      else if k =? 3 then do '(g, r') <- dec_globalty r; Some (WI_Global g, r')
      else None
  | [] => None
  end.
Definition enc_import (i : wimport) : option (list N) :=
  Some (enc_name (wi_module i) ++ enc_name (wi_name i) ++ enc_importkind (wi_kind i)).
Definition dec_import (bs : list N) : option (wimport * list N) :=
  do '(m, r) <- dec_name bs; do '(n, r1) <- dec_name r; do '(k, r2) <- dec_importkind r1;
  Some ({| wi_module := m; wi_name := n; wi_kind := k |}, r2).
Definition ekind_byte (k : ekind) : N := match k with EK_Func => 0 | EK_Table => 1 | EK_Mem => 2 | EK_Global => 3 end.
Definition ekind_of_byte (b : N) : option ekind :=
  if b =? 0 then Some EK_Func else if b =? 1 then Some EK_Table else if b =? 2 then Some EK_Mem else if b =? 3 then Some EK_Global else None.
Definition enc_export (e : wexport) : option (list N) := Some (enc_name (we_name e) ++ ekind_byte (we_kind e) :: enc_u (we_index e)).
Definition dec_export (bs : list N) : option (wexport * list N) :=
  do '(n, r) <- dec_name bs;
  match r with
  | b :: r1 => do 'k <- ekind_of_byte b; do '(i, r2) <- dec_u r1; Some ({| we_name := n; we_kind := k; we_index := i |}, r2)
  | [] => None
  end.
Definition enc_table_o (t : wtable) : option (list N) := Some (enc_table t).
Definition enc_mem_o (m : wmem) : option (list N) := Some (enc_mem m).
Definition enc_global (g : wglobalty * wconst) : option (list N) := do 'c <- enc_const (snd g); Some (enc_globalty (fst g) ++ c).
Definition dec_global (bs : list N) : option ((wglobalty * wconst) * list N) :=
  do '(t, r) <- dec_globalty bs; do '(c, r') <- dec_const r; Some ((t, c), r').

(* ------------------------------------------------------------------ element segments
   flags (a LEB u32 < 8): bit 0 passive-or-declared, bit 1 explicit table (active) / declared (otherwise), bit 2 items are expressions.
   wasm-encoder ElementSection::segment: an active segment without a table index uses flag 0 / 4 only for function indices or
   funcref expressions, otherwise the explicit form with table 0; forms 1 2 3 carry the elemkind byte 0x00, forms 5 6 7 a reference type. *)
Definition enc_elem (e : welem) : option (list N) :=
  let xb := match wel_items e with WEI_Funcs _ => 0 | WEI_Exprs _ _ => 4 end in
  do '(head, ty) <-
    match wel_kind e with
    | WEK_Passive => Some ([1 + xb], true)
    | WEK_Declared => Some ([3 + xb], true)
    | WEK_Active t o =>
        do 'ob <- enc_const o;
        match t, wel_items e with
        | None, WEI_Funcs _ | None, WEI_Exprs RT_Funcref _ => Some (xb :: ob, false)
        | _, _ => Some ((2 + xb) :: enc_u (match t with Some x => x | None => 0 end) ++ ob, true)
        end
    end;
  do 'items <-
    match wel_items e with
    | WEI_Funcs fs => do 'b <- enc_vec enc_u_o fs; Some ((if ty : bool then [0] else []) ++ b)
    | WEI_Exprs rt es => do 'b <- enc_vec enc_const es; Some ((if ty : bool then [refty_byte rt] else []) ++ b)
    end;
  Some (head ++ items).
Definition dec_u_o (bs : list N) : option (N * list N) := dec_u bs.
Definition dec_elem (bs : list N) : option (welem * list N) :=
  do '(fl, r) <- dec_u bs;
  if 8 <=? fl then None
  else
    let low := fl mod 4 in
    do '(kind, r1) <-
      (if low =? 1 then Some (WEK_Passive, r)
       else if low =? 3 then Some (WEK_Declared, r)
       else if low =? 0 then do '(o, r') <- dec_const r; Some (WEK_Active None o, r')
       else do '(t, r') <- dec_u r; do '(o, r'') <- dec_const r'; Some (WEK_Active (Some t) o, r''));
    if 4 <=? fl then
      do '(rt, r2) <- (if low =? 0 then Some (RT_Funcref, r1) else dec_refty r1);
      do '(es, r3) <- dec_vec dec_const r2;
      Some ({| wel_kind := kind; wel_items := WEI_Exprs rt es |}, r3)
    else
      do 'r2 <- (if low =? 0 then Some r1 else match r1 with b :: r' => if b =? 0 then Some r' else None | [] => None end);
      do '(fs, r3) <- dec_vec dec_u_o r2;
      Some ({| wel_kind := kind; wel_items := WEI_Funcs fs |}, r3).

(* ------------------------------------------------------------------ data segments: 0 active in memory 0, 1 passive, 2 active with a memory index *)
Definition enc_data (d : wdata) : option (list N) :=
  match wd_kind d with
  | WDK_Passive => Some (1 :: enc_bytes (wd_bytes d))
  | WDK_Active m o => do 'ob <- enc_const o; Some ((if m =? 0 then [0] else 2 :: enc_u m) ++ ob ++ enc_bytes (wd_bytes d))
  end.
Definition dec_data (bs : list N) : option (wdata * list N) :=
  do '(fl, r) <- dec_u bs;
  do '(kind, r1) <-
    (if fl =? 1 then Some (WDK_Passive, r)
     else if fl =? 0 then do '(o, r') <- dec_const r; Some (WDK_Active 0 o, r')
     else if fl =? 2 then do '(m, r') <- dec_u r; do '(o, r'') <- dec_const r'; Some (WDK_Active m o, r'')
     else None);
  do '(b, r2) <- dec_bytes r1; Some ({| wd_kind := kind; wd_bytes := b |}, r2).

(* ------------------------------------------------------------------ code: Model/Bytes.v inside the framing of Model/Frame.v, with positions *)
Definition body_of (b : wbody) : fbody := (wb_locals b, map fst (wb_ops b)).
Definition enc_code_sec (bs : list wbody) : option (list N) := enc_code (map body_of bs).
(* entries with the offset at which every body starts; [cur] = offset of [bs] *)
Fixpoint unframe_entries_at (k : nat) (cur : N) (bs : list N) : option (list (N * list N) * list N) :=
  match k with
  | O => Some ([], bs)
  | S k' =>
      do '(n, r) <- dec_u bs;
      if lenN r <? n then None
      else let start := cur + (lenN bs - lenN r) in
           do '(rest, tl) <- unframe_entries_at k' (start + n) (dropN n r); Some ((start, takeN n r) :: rest, tl)
  end.
Definition dec_body_pos (wp : bool) (p : N * list N) : option wbody :=
  do '(ls, ops) <- dec_body_at (length (snd p)) (snd p);
  Some {| wb_locals := ls; wb_ops := map (fun q => (fst q, if wp then fst p + snd q else 0)) ops |}.
Fixpoint dec_bodies_pos (wp : bool) (l : list (N * list N)) : option (list wbody) :=
  match l with
  | [] => Some []
  | p :: r => do 'b <- dec_body_pos wp p; do 'bs <- dec_bodies_pos wp r; Some (b :: bs)
  end.
Definition dec_code_sec (wp : bool) (pos : N) (payload : list N) : option (list wbody) :=
  do '(k, r) <- dec_u payload;
  if lenN r <? k then None
  else do '(ents, tl) <- unframe_entries_at (N.to_nat k) (pos + (lenN payload - lenN r)) r;
       match tl with [] => dec_bodies_pos wp ents | _ => None end.

(* ------------------------------------------------------------------ custom sections *)
Definition name_str : str := [110; 97; 109; 101].                                   (* "name" *)
Definition producers_str : str := [112; 114; 111; 100; 117; 99; 101; 114; 115].       (* "producers" *)
Definition debug_prefix : str := [46; 100; 101; 98; 117; 103].                      (* ".debug" *)
Fixpoint starts_with (p s : str) : bool :=
  match p, s with [], _ => true | x :: p', y :: s' => (x =? y) && starts_with p' s' | _, [] => false end.

(* -- producers: vec of (field name, vec of (name, version)); wasmparser accepts three field names only -- *)
Definition language_str : str := [108; 97; 110; 103; 117; 97; 103; 101].
Definition sdk_str : str := [115; 100; 107].
Definition processed_by_str : str := [112; 114; 111; 99; 101; 115; 115; 101; 100; 45; 98; 121].
Definition field_name_ok (n : str) : bool := str_eqb n language_str || str_eqb n sdk_str || str_eqb n processed_by_str.
Definition enc_pvalue (v : str * str) : option (list N) := Some (enc_name (fst v) ++ enc_name (snd v)).
Definition dec_pvalue (bs : list N) : option ((str * str) * list N) :=
  do '(n, r) <- dec_name bs; do '(v, r') <- dec_name r; Some ((n, v), r').
Definition enc_pfield (f : str * list (str * str)) : option (list N) :=
  do 'vs <- enc_vec enc_pvalue (snd f); Some (enc_name (fst f) ++ vs).
Definition dec_pfield (bs : list N) : option ((str * list (str * str)) * list N) :=
  do '(n, r) <- dec_name bs;
  if field_name_ok n then do '(vs, r') <- dec_vec dec_pvalue r; Some ((n, vs), r') else None.
Definition enc_producers (p : wproducers) : option (list N) := enc_vec enc_pfield p.
Definition dec_producers (d : list N) : option wproducers := all_used (dec_vec dec_pfield d).

(* -- name: subsections id (u7), LEB size, content; wasm-encoder / walrus write a subsection only when it has entries,
      in the order 0 1 2 4 5 6 7 8 9 -- *)
Definition enc_naming (p : N * str) : option (list N) := Some (enc_u (fst p) ++ enc_name (snd p)).
Definition dec_naming (bs : list N) : option ((N * str) * list N) :=
  do '(i, r) <- dec_u bs; do '(s, r') <- dec_name r; Some ((i, s), r').
Definition enc_namemap (m : namemap) : option (list N) := enc_vec enc_naming m.
Definition enc_indirect (p : N * namemap) : option (list N) := do 'm <- enc_namemap (snd p); Some (enc_u (fst p) ++ m).
Definition dec_indirect (bs : list N) : option ((N * namemap) * list N) :=
  do '(i, r) <- dec_u bs; do '(m, r') <- dec_vec dec_naming r; Some ((i, m), r').
Definition subsec (id : N) (content : list N) : list N := id :: enc_u (lenB content) ++ content.
Definition enc_map_sub {A} (enc : list A -> option (list N)) (id : N) (m : list A) : option (list N) :=
  match m with [] => Some [] | _ => do 'c <- enc m; Some (subsec id c) end.
Definition enc_names (n : wnames) : option (list N) :=
  do 's1 <- enc_map_sub enc_namemap 1 (wn_funcs n); do 's2 <- enc_map_sub (enc_vec enc_indirect) 2 (wn_locals n);
  do 's4 <- enc_map_sub enc_namemap 4 (wn_types n); do 's5 <- enc_map_sub enc_namemap 5 (wn_tables n);
  do 's6 <- enc_map_sub enc_namemap 6 (wn_mems n); do 's7 <- enc_map_sub enc_namemap 7 (wn_globals n);
  do 's8 <- enc_map_sub enc_namemap 8 (wn_elems n); do 's9 <- enc_map_sub enc_namemap 9 (wn_data n);
  Some ((match wn_module n with Some s => subsec 0 (enc_name s) | None => [] end) ++ s1 ++ s2 ++ s4 ++ s5 ++ s6 ++ s7 ++ s8 ++ s9).
Definition empty_names : wnames :=
  {| wn_module := None; wn_funcs := []; wn_locals := []; wn_types := []; wn_tables := []; wn_mems := []; wn_globals := [];
     wn_elems := []; wn_data := [] |}.
Definition set_sub (id : N) (c : list N) (a : wnames) : option wnames :=
  let nm := all_used (dec_vec dec_naming c) in
  let upd (f : namemap -> wnames) := do 'm <- nm; Some (f m) in
  if id =? 0 then do 's <- all_used (dec_name c);
    Some {| wn_module := Some s; wn_funcs := wn_funcs a; wn_locals := wn_locals a; wn_types := wn_types a; wn_tables := wn_tables a;
            wn_mems := wn_mems a; wn_globals := wn_globals a; wn_elems := wn_elems a; wn_data := wn_data a |}
  else if id =? 1 then upd (fun m => {| wn_module := wn_module a; wn_funcs := m; wn_locals := wn_locals a; wn_types := wn_types a;
            wn_tables := wn_tables a; wn_mems := wn_mems a; wn_globals := wn_globals a; wn_elems := wn_elems a; wn_data := wn_data a |})
  else if id =? 2 then do 'l <- all_used (dec_vec dec_indirect c);
    Some {| wn_module := wn_module a; wn_funcs := wn_funcs a; wn_locals := l; wn_types := wn_types a; wn_tables := wn_tables a;
            wn_mems := wn_mems a; wn_globals := wn_globals a; wn_elems := wn_elems a; wn_data := wn_data a |}
  else if id =? 4 then upd (fun m => {| wn_module := wn_module a; wn_funcs := wn_funcs a; wn_locals := wn_locals a; wn_types := m;
            wn_tables := wn_tables a; wn_mems := wn_mems a; wn_globals := wn_globals a; wn_elems := wn_elems a; wn_data := wn_data a |})
  else if id =? 5 then upd (fun m => {| wn_module := wn_module a; wn_funcs := wn_funcs a; wn_locals := wn_locals a; wn_types := wn_types a;
            wn_tables := m; wn_mems := wn_mems a; wn_globals := wn_globals a; wn_elems := wn_elems a; wn_data := wn_data a |})
  else if id =? 6 then upd (fun m => {| wn_module := wn_module a; wn_funcs := wn_funcs a; wn_locals := wn_locals a; wn_types := wn_types a;
            wn_tables := wn_tables a; wn_mems := m; wn_globals := wn_globals a; wn_elems := wn_elems a; wn_data := wn_data a |})
  else if id =? 7 then upd (fun m => {| wn_module := wn_module a; wn_funcs := wn_funcs a; wn_locals := wn_locals a; wn_types := wn_types a;
            wn_tables := wn_tables a; wn_mems := wn_mems a; wn_globals := m; wn_elems := wn_elems a; wn_data := wn_data a |})
  else if id =? 8 then upd (fun m => {| wn_module := wn_module a; wn_funcs := wn_funcs a; wn_locals := wn_locals a; wn_types := wn_types a;
            wn_tables := wn_tables a; wn_mems := wn_mems a; wn_globals := wn_globals a; wn_elems := m; wn_data := wn_data a |})
  else if id =? 9 then upd (fun m => {| wn_module := wn_module a; wn_funcs := wn_funcs a; wn_locals := wn_locals a; wn_types := wn_types a;
            wn_tables := wn_tables a; wn_mems := wn_mems a; wn_globals := wn_globals a; wn_elems := wn_elems a; wn_data := m |})
  (* labels, fields, tags: the count has to be readable (SectionLimited::new), the content is not looked at *)
  else if (id =? 3) || (id =? 10) || (id =? 11) then do '(_, _) <- dec_u c; Some a
  else Some a.
(* fuel = number of bytes (every subsection takes at least two) *)
Fixpoint dec_subs (fuel : nat) (a : wnames) (bs : list N) : option wnames :=
  match bs with
  | [] => Some a
  | id :: r =>
      match fuel with
      | O => None
      | S f =>
          if 128 <=? id then None
          else do '(n, r1) <- dec_u r;
               if lenB r1 <? n then None
               else do 'a' <- set_sub id (takeN n r1) a; dec_subs f a' (dropN n r1)
      end
  end.
Definition dec_names (d : list N) : option wnames := dec_subs (length d) empty_names d.

Definition enc_custom (c : wcsec) : option (list N) :=
  match c with
  | CS_Raw n d | CS_Debug n d => Some (custom_payload n d)
  | CS_Name (Some nm) => do 'b <- enc_names nm; Some (custom_payload name_str b)
  | CS_Producers (Some p) => do 'b <- enc_producers p; Some (custom_payload producers_str b)
  | CS_Name None | CS_Producers None => None        (* an unparsable section has no canonical bytes *)
  end.
Definition dec_custom (payload : list N) : option wcsec :=
  do '(n, d) <- dec_name payload;
  Some (if str_eqb n name_str then CS_Name (dec_names d)
        else if str_eqb n producers_str then CS_Producers (dec_producers d)
        else if starts_with debug_prefix n then CS_Debug n d
        else CS_Raw n d).

(* ------------------------------------------------------------------ sections *)
Definition enc_sec (s : wsec) : option (N * list N) :=
  match s with
  | S_Custom c => do 'b <- enc_custom c; Some (0, b)
  | S_Types ts => do 'b <- enc_vec enc_functy ts; Some (1, b)
  | S_Imports l => do 'b <- enc_vec enc_import l; Some (2, b)
  | S_Funcs l => do 'b <- enc_vec enc_u_o l; Some (3, b)
  | S_Tables l => do 'b <- enc_vec enc_table_o l; Some (4, b)
  | S_Mems l => do 'b <- enc_vec enc_mem_o l; Some (5, b)
  | S_Globals l => do 'b <- enc_vec enc_global l; Some (6, b)
  | S_Exports l => do 'b <- enc_vec enc_export l; Some (7, b)
  | S_Start f => Some (8, enc_u f)
  | S_Elems l => do 'b <- enc_vec enc_elem l; Some (9, b)
  | S_Code l => do 'b <- enc_code_sec l; Some (10, b)
  | S_Data l => do 'b <- enc_vec enc_data l; Some (11, b)
  | S_DataCount n => Some (12, enc_u n)
  end.
Definition dec_sec (wp : bool) (pos : N) (id : N) (payload : list N) : option wsec :=
  if id =? 0 then do 'c <- dec_custom payload; Some (S_Custom c)
  else if id =? 1 then do 'l <- all_used (dec_vec dec_functy payload); Some (S_Types l)
  else if id =? 2 then do 'l <- all_used (dec_vec dec_import payload); Some (S_Imports l)
  else if id =? 3 then do 'l <- all_used (dec_vec dec_u_o payload); Some (S_Funcs l)
  else if id =? 4 then do 'l <- all_used (dec_vec dec_table payload); Some (S_Tables l)
  else if id =? 5 then do 'l <- all_used (dec_vec dec_mem payload); Some (S_Mems l)
  else if id =? 6 then do 'l <- all_used (dec_vec dec_global payload); Some (S_Globals l)
  else if id =? 7 then do 'l <- all_used (dec_vec dec_export payload); Some (S_Exports l)
  else if id =? 8 then do 'f <- all_used (dec_u payload); Some (S_Start f)
  else if id =? 9 then do 'l <- all_used (dec_vec dec_elem payload); Some (S_Elems l)
  else if id =? 10 then do 'l <- dec_code_sec wp pos payload; Some (S_Code l)
  else if id =? 11 then do 'l <- all_used (dec_vec dec_data payload); Some (S_Data l)
  else if id =? 12 then do 'n <- all_used (dec_u payload); Some (S_DataCount n)
  else None.

(* ------------------------------------------------------------------ the module *)
Fixpoint enc_secs (w : wmod) : option (list (N * list N)) :=
  match w with
  | [] => Some []
  | s :: r => do 'x <- enc_sec s; do 'l <- enc_secs r; Some (x :: l)
  end.
Definition enc_wmod (w : wmod) : option (list N) := do 'l <- enc_secs w; Some (frame_module l).

(* [unframe_sections] of Model/Frame.v with the file offset of every payload; [cur] = offset of [bs] *)
Fixpoint unframe_at (fuel : nat) (cur : N) (bs : list N) : option (list (N * (N * list N))) :=
  match bs with
  | [] => Some []
  | id :: r =>
      match fuel with
      | O => None
      | S f =>
          do '(n, r') <- dec_u r;
          if lenN r' <? n then None
          else let start := cur + 1 + (lenN r - lenN r') in
               do 'rest <- unframe_at f (start + n) (dropN n r'); Some ((start, (id, takeN n r')) :: rest)
      end
  end.
Definition unframe_module_at (bs : list N) : option (list (N * (N * list N))) :=
  if Frame.nlist_eqb (firstn 8 bs) magic_version then unframe_at (length bs) 8 (skipn 8 bs) else None.
Fixpoint dec_secs (wp : bool) (l : list (N * (N * list N))) : option wmod :=
  match l with
  | [] => Some []
  | (pos, (id, payload)) :: r => do 's <- dec_sec wp pos id payload; do 'w <- dec_secs wp r; Some (s :: w)
  end.
Definition dec_wmod (wp : bool) (bs : list N) : option wmod := do 'l <- unframe_module_at bs; dec_secs wp l.

(* ------------------------------------------------------------------ the positions the writer implies (what a second parse reports) *)
Definition place_body (wp : bool) (start : N) (b : wbody) : option wbody :=
  do 'offs <- ins_offsets (lenB (enc_locals (wb_locals b))) (map fst (wb_ops b));
  Some {| wb_locals := wb_locals b; wb_ops := combine (map fst (wb_ops b)) (map (fun o => if wp then start + o else 0) offs) |}.
Fixpoint place_bodies (wp : bool) (bs : list wbody) (starts : list (N * N)) : option (list wbody) :=
  match bs, starts with
  | [], _ => Some []
  | b :: r, (_, s) :: st => do 'b' <- place_body wp s b; do 'r' <- place_bodies wp r st; Some (b' :: r')
  | _ :: _, [] => None
  end.
(* [entry_starts] of Model/Frame.v: (offset of the size field, offset of the body) of every entry, here as file offsets *)
Definition place_sec (wp : bool) (pos : N) (s : wsec) : option wsec :=
  match s with
  | S_Code l => do 'bytess <- enc_bodies (map body_of l);
                do 'l' <- place_bodies wp l (entry_starts (pos + lenN (enc_u (lenN bytess))) bytess); Some (S_Code l')
  | _ => Some s
  end.
Fixpoint place_secs (wp : bool) (cur : N) (w : wmod) : option wmod :=
  match w with
  | [] => Some []
  | s :: r =>
      do '(id, p) <- enc_sec s;
      let start := cur + 1 + lenN (enc_u (lenN p)) in
      do 's' <- place_sec wp start s; do 'r' <- place_secs wp (start + lenN p) r; Some (s' :: r')
  end.
Definition place_wmod (wp : bool) (w : wmod) : option wmod := place_secs wp 8 w.
