(* Executable model of the row-level logic of src/module/debug/dwarf.rs `convert_line_program`: the loop over the
   line-number instructions of one input program that decides, row by row, which output sequences are begun and ended
   and which rows are generated at which address offsets.
   Input: the instruction stream as walrus sees it: [LSetAddr v] for DW_LNE_set_address (walrus keeps the value in
   `from_base_address` and executes set_address 0 on the row register), [LRow a e line] for every instruction after
   which gimli's `LineRow::execute` reports a row ([a] = `from_row.address()`, relative to the last set_address;
   [e] = end_sequence; [line] stands for all copied registers).
   Output: the calls made on gimli's `write::LineProgram`: begin_sequence(Some base), generate_row with
   `address_offset` (and the copied registers), end_sequence(address_offset).
   [cv a inclusive] is `convert_address` (Model/Dwarf.v; None = not mapped).
   [None] result = the conversion returns Err (walrus then panics on `expect`).
   Not modelled: header / file table conversion, InvalidFileIndex, DefineFile (refused by the code). *)
From Coq Require Import List NArith Bool. Import ListNotations.
Open Scope N_scope.

Inductive lin := LSetAddr (v : N) | LRow (addr : N) (endseq : bool) (line : N).
Inductive lev := EvBegin (base : N) | EvRow (off : N) (line : N) | EvEnd (off : N).

(* in_sequence of the output program, current_sequence_base_address, from_base_address, last_address_offset *)
Record lst := { l_in : bool; l_cur : option N; l_fbase : N; l_last : N }.
Definition lst0 : lst := {| l_in := false; l_cur := None; l_fbase := 0; l_last := 0 |}.

Section conv.
Variable cv : N -> bool -> option N.

Definition lstep (s : lst) (i : lin) : option (lst * list lev) :=
  match i with
  | LSetAddr v =>
      if l_in s then None
      else Some ({| l_in := false; l_cur := l_cur s; l_fbase := v; l_last := l_last s |}, [])
  | LRow a e ln =>
      (* `if !program.in_sequence()`: convert the base address, begin a sequence if it is mapped *)
      let '(s1, ev1) :=
        if l_in s then (s, [])
        else match cv (l_fbase s) false with
             | Some b => ({| l_in := true; l_cur := Some b; l_fbase := l_fbase s; l_last := 0 |}, [EvBegin b])
             | None => ({| l_in := false; l_cur := None; l_fbase := l_fbase s; l_last := l_last s |}, [])
             end in
      let fra := a + l_fbase s in
      let ra := cv fra true in
      (* base not mapped: start the sequence at the first mapped row that is not the end row *)
      let '(s2, ev2) :=
        match l_cur s1, e, ra with
        | None, false, Some x => ({| l_in := true; l_cur := Some x; l_fbase := l_fbase s1; l_last := 0 |}, [EvBegin x])
        | _, _, _ => (s1, [])
        end in
      match l_cur s2 with
      | None => Some (s2, ev1 ++ ev2)
      | Some base =>
          match ra with
          | Some address =>
              (* a backwards address closes the sequence after the previous row and opens a new one here *)
              let '(base', evs, last') :=
                if address <? base + l_last s2 then (address, [EvEnd (l_last s2 + 1); EvBegin address], 0)
                else (base, [], l_last s2) in
              let off := address - base' in
              if e then Some ({| l_in := false; l_cur := Some base'; l_fbase := fra; l_last := last' |},
                              ev1 ++ ev2 ++ evs ++ [EvEnd off])
              else Some ({| l_in := true; l_cur := Some base'; l_fbase := l_fbase s2; l_last := off |},
                         ev1 ++ ev2 ++ evs ++ [EvRow off ln])
          | None =>
              if e then Some ({| l_in := false; l_cur := l_cur s2; l_fbase := l_fbase s2; l_last := l_last s2 |},
                              ev1 ++ ev2 ++ [EvEnd (l_last s2 + 1)])
              else Some (s2, ev1 ++ ev2)
          end
      end
  end.

Fixpoint lrun (s : lst) (is : list lin) : option (lst * list lev) :=
  match is with
  | [] => Some (s, [])
  | i :: r => match lstep s i with
              | None => None
              | Some (s', ev) => match lrun s' r with
                                 | None => None
                                 | Some (s'', ev') => Some (s'', ev ++ ev')
                                 end
              end
  end.
End conv.

(* What a reader of the written program sees: (absolute address, line, end_sequence) per row; [b] = base of the open
   sequence.  The line of an end row is canonicalised to 0. *)
Fixpoint rows_of (b : N) (evs : list lev) : list (N * N * bool) :=
  match evs with
  | [] => []
  | EvBegin x :: r => rows_of x r
  | EvRow off ln :: r => (b + off, ln, false) :: rows_of b r
  | EvEnd off :: r => (b + off, 0, true) :: rows_of b r
  end.

(* gimli's writer asserts: begin only outside, row / end only inside a sequence, offsets never decrease within one *)
Fixpoint writer_ok (inseq : bool) (prev : N) (evs : list lev) : bool :=
  match evs with
  | [] => true
  | EvBegin _ :: r => negb inseq && writer_ok true 0 r
  | EvRow off _ :: r => inseq && (prev <=? off) && writer_ok true off r
  | EvEnd off :: r => inseq && (prev <=? off) && writer_ok false 0 r
  end.
