(* Executable model of src/module/config.rs: the switches of ModuleConfig, its setters (written against the
   assignments listed in Gen/ConfigEmit.v [config_setters], pinned in Proofs/ConfigPinned.v) and Clone.
   The two callbacks are modelled by their presence. *)
From Coq Require Import List Bool. Import ListNotations.

Record mcfg := { c_dwarf : bool; c_synth : bool; c_stable : bool; c_skip_strict : bool; c_skip_prod : bool;
                 c_skip_names : bool; c_preserve : bool; c_on_parse : bool; c_on_instr_loc : bool }.

(* #[derive(Default)] *)
Definition cfg0 : mcfg := {| c_dwarf := false; c_synth := false; c_stable := false; c_skip_strict := false; c_skip_prod := false;
                            c_skip_names := false; c_preserve := false; c_on_parse := false; c_on_instr_loc := false |}.

Inductive setter := SDwarf (b : bool) | SNames (b : bool) | SSynth (b : bool) | SStrict (b : bool) | SProducers (b : bool)
                  | SStable (b : bool) | SPreserve (b : bool) | SOnParse | SOnInstrLoc | SClone.

Definition apply_setter (c : mcfg) (s : setter) : mcfg :=
  match s with
  | SDwarf b => {| c_dwarf := b; c_synth := c_synth c; c_stable := c_stable c; c_skip_strict := c_skip_strict c; c_skip_prod := c_skip_prod c;
                   c_skip_names := c_skip_names c; c_preserve := b || c_preserve c; c_on_parse := c_on_parse c; c_on_instr_loc := c_on_instr_loc c |}
  | SNames b => {| c_dwarf := c_dwarf c; c_synth := c_synth c; c_stable := c_stable c; c_skip_strict := c_skip_strict c; c_skip_prod := c_skip_prod c;
                   c_skip_names := negb b; c_preserve := c_preserve c; c_on_parse := c_on_parse c; c_on_instr_loc := c_on_instr_loc c |}
  | SSynth b => {| c_dwarf := c_dwarf c; c_synth := b; c_stable := c_stable c; c_skip_strict := c_skip_strict c; c_skip_prod := c_skip_prod c;
                   c_skip_names := c_skip_names c; c_preserve := c_preserve c; c_on_parse := c_on_parse c; c_on_instr_loc := c_on_instr_loc c |}
  | SStrict b => {| c_dwarf := c_dwarf c; c_synth := c_synth c; c_stable := c_stable c; c_skip_strict := negb b; c_skip_prod := c_skip_prod c;
                    c_skip_names := c_skip_names c; c_preserve := c_preserve c; c_on_parse := c_on_parse c; c_on_instr_loc := c_on_instr_loc c |}
  | SProducers b => {| c_dwarf := c_dwarf c; c_synth := c_synth c; c_stable := c_stable c; c_skip_strict := c_skip_strict c; c_skip_prod := negb b;
                       c_skip_names := c_skip_names c; c_preserve := c_preserve c; c_on_parse := c_on_parse c; c_on_instr_loc := c_on_instr_loc c |}
  | SStable b => {| c_dwarf := c_dwarf c; c_synth := c_synth c; c_stable := b; c_skip_strict := c_skip_strict c; c_skip_prod := c_skip_prod c;
                    c_skip_names := c_skip_names c; c_preserve := c_preserve c; c_on_parse := c_on_parse c; c_on_instr_loc := c_on_instr_loc c |}
  | SPreserve b => {| c_dwarf := c_dwarf c; c_synth := c_synth c; c_stable := c_stable c; c_skip_strict := c_skip_strict c; c_skip_prod := c_skip_prod c;
                      c_skip_names := c_skip_names c; c_preserve := b; c_on_parse := c_on_parse c; c_on_instr_loc := c_on_instr_loc c |}
  | SOnParse => {| c_dwarf := c_dwarf c; c_synth := c_synth c; c_stable := c_stable c; c_skip_strict := c_skip_strict c; c_skip_prod := c_skip_prod c;
                   c_skip_names := c_skip_names c; c_preserve := c_preserve c; c_on_parse := true; c_on_instr_loc := c_on_instr_loc c |}
  | SOnInstrLoc => {| c_dwarf := c_dwarf c; c_synth := c_synth c; c_stable := c_stable c; c_skip_strict := c_skip_strict c; c_skip_prod := c_skip_prod c;
                      c_skip_names := c_skip_names c; c_preserve := c_preserve c; c_on_parse := c_on_parse c; c_on_instr_loc := true |}
  (* impl Clone: the switches are copied, the callbacks are left empty *)
  | SClone => {| c_dwarf := c_dwarf c; c_synth := c_synth c; c_stable := c_stable c; c_skip_strict := c_skip_strict c; c_skip_prod := c_skip_prod c;
                 c_skip_names := c_skip_names c; c_preserve := c_preserve c; c_on_parse := false; c_on_instr_loc := false |}
  end.

Definition run_setters (c : mcfg) (l : list setter) : mcfg := fold_left apply_setter l c.

Definition cfg_bits (c : mcfg) : list bool :=
  [c_dwarf c; c_synth c; c_stable c; c_skip_strict c; c_skip_prod c; c_skip_names c; c_preserve c; c_on_parse c; c_on_instr_loc c].
