(* An abstract big-step semantics of structured function bodies [rt] (Model/ParseSpec.v),
   parametric in the semantics of the individual operators, and the tree-level normal form
   [nf_rt] whose flattening is the tagged list [nf] of Model/BodySpec.v.  Definitions only. *)
From Coq Require Import List NArith Bool. Import ListNotations.
From WV Require Import Gen.Ops Model.Common Model.IR Model.ParseFn Model.ParseSpec Model.EmitFn Model.BodySpec.
Open Scope N_scope.

(* ------------------------------------------------------------------ the tree-level normal form *)
(* mirrors [nf] of Model/BodySpec.v constructor by constructor, but yields trees; the trees keep
   the ORIGINAL operator [o] and block type [bt] (the renaming [nf_op] / [nf_bt] is applied by the
   flattening [flat'] below, and by the second operator semantics in [eval]). *)
Fixpoint nf_rt (u : bool) (t : rt) {struct t} : list rt * bool :=
  let keep (x : rt) := if u then [] else [x] in
  let nfl := fix nfl (u : bool) (l : list rt) {struct l} : list rt * bool :=
      match l with
      | [] => ([], u)
      | t :: l' => let '(a, u1) := nf_rt u t in let '(b, u2) := nfl u1 l' in (a ++ b, u2)
      end in
  match t with
  | RPlain o l => (keep (RPlain o l), u || marks_unreachable o)
  | RNop _ => ([], u)
  | RBr d l => (keep (RBr d l), true)
  | RBrIf d l => (keep (RBrIf d l), u)
  | RBrTable ds d l => (keep (RBrTable ds d l), true)
  | RBlock bt b l e => (keep (RBlock bt (fst (nfl false b)) l e), u)
  | RLoop bt b l e => (keep (RLoop bt (fst (nfl false b)) l e), u)
  | RIf bt th None l e => (keep (RIf bt (fst (nfl false th)) (Some (default_loc, [])) l e), u)
  | RIf bt th (Some (le, el)) l e =>
      (keep (RIf bt (fst (nfl false th)) (Some (le, fst (nfl false el))) l e), u)
  end.
Fixpoint nf_rt_list (u : bool) (l : list rt) : list rt * bool :=
  match l with
  | [] => ([], u)
  | t :: l' => let '(a, u1) := nf_rt u t in let '(b, u2) := nf_rt_list u1 l' in (a ++ b, u2)
  end.

(* flattening of OUTPUT trees: [nf_op o] in place of [WOp o], [nf_bt bt] in place of [bt],
   an explicit `else` (tagged [default_loc]) with an empty body for an else-less `if` *)
Section Flat'.
  Variable cx : pctx.
  Variable ecx : ectx.
  Fixpoint flat' (t : rt) : list (wins * N) :=
    match t with
    | RPlain o l => [(nf_op cx ecx o, l)] | RNop l => [(WNop, l)]
    | RBr d l => [(WBr d, l)] | RBrIf d l => [(WBrIf d, l)] | RBrTable ds d l => [(WBrTable ds d, l)]
    | RBlock bt b l e => (WBlock (nf_bt cx ecx bt), l) :: flat_map flat' b ++ [(WEnd, e)]
    | RLoop bt b l e => (WLoop (nf_bt cx ecx bt), l) :: flat_map flat' b ++ [(WEnd, e)]
    | RIf bt th None l e =>
        (WIf (nf_bt cx ecx bt), l) :: flat_map flat' th ++ [(WElse, default_loc); (WEnd, e)]
    | RIf bt th (Some (le, el)) l e =>
        (WIf (nf_bt cx ecx bt), l) :: flat_map flat' th ++ (WElse, le) :: flat_map flat' el ++ [(WEnd, e)]
    end.
  Definition flat_list' (l : list rt) : list (wins * N) := flat_map flat' l.
End Flat'.

(* the i-th element of a br_table's targets, the default when out of range; recursion on the LIST, so that an index of 2^32 - 1 is
   not expanded into a unary number when the model is executed *)
Fixpoint nthN (i : N) (l : list N) (d : N) : N :=
  match l with [] => d | x :: r => if i =? 0 then x else nthN (i - 1) r d end.

(* ------------------------------------------------------------------ big-step evaluation *)
Section Sem.
  Variable S : Type.        (* machine state: value stack, locals, globals, memories, tables, host trace *)
  Variable halt : Type.     (* leaving the function other than by its end or a branch: trap, return, tail call *)

  Inductive step := Next (s : S) | Halt (h : halt) (s : S).
  Inductive res := Fall (s : S) | Br (d : nat) (s : S) | Stop (h : halt) (s : S) | Stuck | Fuel.

  Variable pop_cond : S -> option (bool * S).     (* br_if / if *)
  Variable pop_index : S -> option (N * S).       (* br_table *)
  (* label discipline: an instance records, at block entry, the height the operand stack had *)
  Variable unwind : N -> S -> S.  (* a branch TO this construct: keep that many values, drop the operand stack to the
                                     recorded height, pop the label record (a loop is then re-entered by [rerun]) *)
  Variable enter : blockty -> S -> S.  (* entering a block / loop / if-arm (condition already popped): push a label record *)
  Variable leave : S -> S.        (* the construct is left by falling through its end, or a branch to an OUTER label
                                     passes through it: pop the innermost label record, keep the operand stack *)

  (* what a branch that targets the construct itself (relative depth 0 inside) does *)
  Definition close (r : res) (on_br0 : S -> res) : res :=
    match r with
    | Fall s' => Fall (leave s')
    | Br O s' => on_br0 s'
    | Br (Datatypes.S k) s' => Br k (leave s')
    | r => r
    end.

  Section Eval.
    Variable sem : wins -> S -> step.     (* plain operators, given as [WOp o] *)
    Variable arity : blockty -> N.        (* what a branch to a block / if keeps *)
    Variable loop_arity : blockty -> N.   (* what a branch to a loop keeps *)

    Section Tree.
      (* re-entering a loop (with one unit of fuel less) *)
      Variable rerun : rt -> S -> res.

      (* one tree; [Fall s] = continue with the next tree of the sequence *)
      Fixpoint evt (t : rt) (s : S) {struct t} : res :=
        let evl := fix evl (l : list rt) (s : S) {struct l} : res :=
            match l with
            | [] => Fall s
            | t :: l' => match evt t s with Fall s' => evl l' s' | r => r end
            end in
        match t with
        | RPlain o _ => match sem (WOp o) s with Next s' => Fall s' | Halt h s' => Stop h s' end
        | RNop _ => Fall s
        | RBr d _ => Br (N.to_nat d) s
        | RBrIf d _ =>
            match pop_cond s with
            | None => Stuck
            | Some (true, s') => Br (N.to_nat d) s'
            | Some (false, s') => Fall s'
            end
        | RBrTable ds d _ =>
            match pop_index s with
            | None => Stuck
            | Some (i, s') => Br (N.to_nat (nthN i ds d)) s'
            end
        | RBlock bt b _ _ => close (evl b (enter bt s)) (fun s' => Fall (unwind (arity bt) s'))
        | RLoop bt b _ _ => close (evl b (enter bt s)) (fun s' => rerun t (unwind (loop_arity bt) s'))
        | RIf bt th el _ _ =>
            match pop_cond s with
            | None => Stuck
            | Some (true, s') => close (evl th (enter bt s')) (fun s'' => Fall (unwind (arity bt) s''))
            | Some (false, s') =>
                (* an absent else arm is an EMPTY else arm: entered, then left *)
                close (match el with Some (_, eb) => evl eb (enter bt s') | None => Fall (enter bt s') end)
                      (fun s'' => Fall (unwind (arity bt) s''))
            end
        end.
      Fixpoint evl (l : list rt) (s : S) : res :=
        match l with
        | [] => Fall s
        | t :: l' => match evt t s with Fall s' => evl l' s' | r => r end
        end.
    End Tree.

    (* fuel bounds the number of loop re-entries along any path *)
    Fixpoint eval_t (fuel : nat) (t : rt) (s : S) {struct fuel} : res :=
      evt (match fuel with O => fun _ _ => Fuel | Datatypes.S f => eval_t f end) t s.
    Definition rerun_of (fuel : nat) : rt -> S -> res :=
      match fuel with O => fun _ _ => Fuel | Datatypes.S f => eval_t f end.
    Definition eval (fuel : nat) (l : list rt) (s : S) : res := evl (rerun_of fuel) l s.
  End Eval.
End Sem.

Arguments Next {S halt}. Arguments Halt {S halt}.
Arguments Fall {S halt}. Arguments Br {S halt}. Arguments Stop {S halt}.
Arguments Stuck {S halt}. Arguments Fuel {S halt}.
