(* Byte-level framing of a module, below the abstract section stream of Model/ModuleM.v:
     module  = magic version section*
     section = id byte, LEB128 size, payload
     custom section payload = LEB128 name length, name bytes, data
     code section payload   = LEB128 count, (LEB128 size, body)*
   This is the layer wasm-encoder writes and wasmparser reads; walrus relies on it when it stores a raw custom section
   (name and data out of the section payload) and when it turns per-function positions into file offsets (Model/CodeMap.v).
   Definitions only; theorems in Proofs/Frame.v. *)
From Coq Require Import List NArith ZArith Bool. Import ListNotations.
From WV Require Import Model.Common Model.Leb.
Open Scope N_scope.

Definition lenN {A} (l : list A) : N := N.of_nat (length l).
Definition takeN {A} (n : N) (l : list A) : list A := firstn (N.to_nat n) l.
Definition dropN {A} (n : N) (l : list A) : list A := skipn (N.to_nat n) l.

Definition magic_version : list N := [0; 97; 115; 109; 1; 0; 0; 0].

(* ------------------------------------------------------------------ sections *)
Definition frame_section (s : N * list N) : list N := fst s :: enc_u (lenN (snd s)) ++ snd s.
Definition frame_module (secs : list (N * list N)) : list N := magic_version ++ flat_map frame_section secs.

(* reader; fuel = number of bytes (every section consumes at least two) *)
Fixpoint unframe_sections (fuel : nat) (bs : list N) : option (list (N * list N)) :=
  match bs with
  | [] => Some []
  | id :: r =>
      match fuel with
      | O => None
      | S f =>
          match dec_u r with
          | Some (n, r') =>
              if lenN r' <? n then None
              else match unframe_sections f (dropN n r') with
                   | Some rest => Some ((id, takeN n r') :: rest)
                   | None => None
                   end
          | None => None
          end
      end
  end.
Fixpoint nlist_eqb (a b : list N) : bool :=
  match a, b with [], [] => true | x :: a', y :: b' => (x =? y) && nlist_eqb a' b' | _, _ => false end.
Definition unframe_module (bs : list N) : option (list (N * list N)) :=
  if nlist_eqb (firstn 8 bs) magic_version then unframe_sections (length bs) (skipn 8 bs) else None.

(* ------------------------------------------------------------------ custom sections *)
(* what a raw custom section holds: the name and everything after it *)
Definition custom_payload (name data : list N) : list N := enc_u (lenN name) ++ name ++ data.
Definition split_custom (payload : list N) : option (list N * list N) :=
  match dec_u payload with
  | Some (n, r) => if lenN r <? n then None else Some (takeN n r, dropN n r)
  | None => None
  end.

(* ------------------------------------------------------------------ vectors of size-prefixed entries (the code section) *)
Definition frame_entry (body : list N) : list N := enc_u (lenN body) ++ body.
Definition code_payload (bodies : list (list N)) : list N := enc_u (lenN bodies) ++ flat_map frame_entry bodies.
Fixpoint unframe_entries (k : nat) (bs : list N) : option (list (list N) * list N) :=
  match k with
  | O => Some ([], bs)
  | S k' =>
      match dec_u bs with
      | Some (n, r) =>
          if lenN r <? n then None
          else match unframe_entries k' (dropN n r) with
               | Some (rest, tl) => Some (takeN n r :: rest, tl)
               | None => None
               end
      | None => None
      end
  end.
Definition split_code (payload : list N) : option (list (list N)) :=
  match dec_u payload with
  | Some (k, r) => match unframe_entries (N.to_nat k) r with Some (l, []) => Some l | _ => None end
  | None => None
  end.

(* offsets: where the k-th entry (its size field) starts inside the payload, and where its body starts *)
Fixpoint entry_starts (cur : N) (bodies : list (list N)) : list (N * N) :=
  match bodies with
  | [] => []
  | b :: r => let s := cur + lenN (enc_u (lenN b)) in (cur, s) :: entry_starts (s + lenN b) r
  end.
Definition code_entry_offsets (bodies : list (list N)) : list (N * N) := entry_starts (lenN (enc_u (lenN bodies))) bodies.
