(* Executable model of LocalFunction::parse's IR construction:
   src/module/functions/local_function/context.rs (control stack, alloc_instr_in_control,
   push/pop) and the control arms of append_instruction in local_function/mod.rs.
   Non-control operators go through the REGENERATED [decode_plain] / [marks_unreachable].
   Every unwrap()/panic! of the Rust is [Panic]. *)
From Coq Require Import List NArith Bool. Import ListNotations.
From WV Require Import Gen.Ops Model.Common Model.IR.
Open Scope N_scope.

(* what the parser reads from the module: the parse-time index map and the type arena
   (params, results, is_for_function_entry), indexed by TypeId *)
Record pctx := { px_i2id : space -> N -> N; px_types : list (list valty * list valty * bool) }.

Definition valty_eqb (a b : valty) : bool := N.eqb (valty_code a) (valty_code b).
Fixpoint vlist_eqb (a b : list valty) : bool :=
  match a, b with
  | [], [] => true
  | x :: a', y :: b' => valty_eqb x y && vlist_eqb a' b'
  | _, _ => false
  end.

(* ModuleTypes::find : first non-entry type with these params and results *)
Fixpoint find_type_from (n : N) (l : list (list valty * list valty * bool)) (ps rs : list valty) : option N :=
  match l with
  | [] => None
  | (p, r, entry) :: l' =>
      if negb entry && vlist_eqb p ps && vlist_eqb r rs then Some n else find_type_from (n + 1) l' ps rs
  end.
Definition find_type (cx : pctx) ps rs := find_type_from 0 (px_types cx) ps rs.

(* InstrSeqType::existing *)
Definition existing (cx : pctx) (ps rs : list valty) : option seqty :=
  match ps, rs with
  | [], [] => Some (ST_Simple None)
  | [], [r] => Some (ST_Simple (Some r))
  | _, _ => option_map ST_Multi (find_type cx ps rs)
  end.

(* block_param_tys / block_result_tys *)
Definition bt_tys (cx : pctx) (bt : blockty) : option (list valty * list valty) :=
  match bt with
  | BT_Empty => Some ([], [])
  | BT_Val t => Some ([], [t])
  | BT_Func i => match nth_N (px_types cx) (px_i2id cx S_type i) with
                 | Some (ps, rs, _) => Some (ps, rs)
                 | None => None
                 end
  end.

Record frame := { f_block : N; f_kind : bkind; f_unr : bool; f_start : list valty; f_end : list valty }.
Record ifstate := { if_start : N; if_cons : N; if_alt : option N }.
Record pstate := { ar : arena; ctl : list frame; ifs : list ifstate }.

Definition push_instr (a : arena) (id : N) (i : instr) (loc : N) : arena :=
  upd a (N.to_nat id) (fun q => {| sq_ty := sq_ty q; sq_instrs := sq_instrs q ++ [(i, loc)]; sq_end := sq_end q |}).
Definition set_end (a : arena) (id : N) (loc : N) : arena :=
  upd a (N.to_nat id) (fun q => {| sq_ty := sq_ty q; sq_instrs := sq_instrs q; sq_end := loc |}).

(* alloc_instr_in_control(n, instr, loc): nothing when that frame is unreachable *)
Definition alloc_in (st : pstate) (n : nat) (i : instr) (loc : N) : res pstate :=
  match nth_error (ctl st) n with
  | None => Panic
  | Some fr => if f_unr fr then Ok st
               else Ok {| ar := push_instr (ar st) (f_block fr) i loc; ctl := ctl st; ifs := ifs st |}
  end.

(* ctx.unreachable() *)
Definition set_unr (st : pstate) : res pstate :=
  match ctl st with
  | [] => Panic
  | fr :: rest => Ok {| ar := ar st;
                        ctl := {| f_block := f_block fr; f_kind := f_kind fr; f_unr := true;
                                  f_start := f_start fr; f_end := f_end fr |} :: rest;
                        ifs := ifs st |}
  end.

(* push_control: allocate the sequence, push the frame *)
Definition push_ctl (cx : pctx) (st : pstate) (k : bkind) (ps rs : list valty) : res (pstate * N) :=
  match existing cx ps rs with
  | None => Panic
  | Some ty =>
      let id := len_N (ar st) in
      Ok ({| ar := ar st ++ [empty_seq ty];
             ctl := {| f_block := id; f_kind := k; f_unr := false; f_start := ps; f_end := rs |} :: ctl st;
             ifs := ifs st |}, id)
  end.

Definition pop_ctl (st : pstate) : res (frame * pstate) :=
  match ctl st with
  | [] => Panic
  | fr :: rest => Ok (fr, {| ar := ar st; ctl := rest; ifs := ifs st |})
  end.

(* ctx.control(n).unwrap().block *)
Definition target (st : pstate) (d : N) : res N :=
  match nth_N (ctl st) d with Some fr => Ok (f_block fr) | None => Panic end.

Fixpoint targets (st : pstate) (ds : list N) : res (list N) :=
  match ds with
  | [] => Ok []
  | d :: ds' => rbind (target st d) (fun t => rmap (cons t) (targets st ds'))
  end.

Notation "x <- e ;; k" := (rbind e (fun x => k)) (at level 60, e at next level, right associativity).

Definition step (cx : pctx) (st : pstate) (ol : wins * N) : res pstate :=
  let '(o, loc) := ol in
  match o with
  | WOp w =>
      match decode_plain (px_i2id cx) w with
      | None => Panic
      | Some p => st1 <- alloc_in st 0 (IPlain p) loc ;;
                  if marks_unreachable w then set_unr st1 else Ok st1
      end
  | WNop => Ok st
  | WBlock bt =>
      match bt_tys cx bt with
      | None => Panic
      | Some (ps, rs) => r <- push_ctl cx st KBlock ps rs ;; let '(st1, id) := r in alloc_in st1 1 (IBlock id) loc
      end
  | WLoop bt =>
      match bt_tys cx bt with
      | None => Panic
      | Some (ps, rs) => r <- push_ctl cx st KLoop ps rs ;; let '(st1, id) := r in alloc_in st1 1 (ILoop id) loc
      end
  | WIf bt =>
      match bt_tys cx bt with
      | None => Panic
      | Some (ps, rs) =>
          r <- push_ctl cx st KIf ps rs ;; let '(st1, id) := r in
          Ok {| ar := ar st1; ctl := ctl st1;
                ifs := {| if_start := loc; if_cons := id; if_alt := None |} :: ifs st1 |}
      end
  | WEnd =>
      r <- pop_ctl st ;; let '(fr, st1) := r in
      let st1 := {| ar := set_end (ar st1) (f_block fr) loc; ctl := ctl st1; ifs := ifs st1 |} in
      match f_kind fr with
      | KIf | KElse =>
          match ifs st1 with
          | [] => Panic
          | ie :: rest =>
              let st2 := {| ar := ar st1; ctl := ctl st1; ifs := rest |} in
              match if_alt ie with
              | Some a => alloc_in st2 0 (IIfElse (if_cons ie) a) (if_start ie)
              | None =>
                  r3 <- push_ctl cx st2 KElse (f_start fr) (f_end fr) ;; let '(st3, a) := r3 in
                  r4 <- pop_ctl st3 ;; let '(_, st4) := r4 in
                  (* no `else` in the input: the synthesized `else` (end of the consequent) has no location,
                     the `end` being read closes the empty alternative *)
                  let st4 := {| ar := set_end (set_end (ar st4) (if_cons ie) default_loc) a loc; ctl := ctl st4; ifs := ifs st4 |} in
                  alloc_in st4 0 (IIfElse (if_cons ie) a) (if_start ie)
              end
          end
      | _ => Ok st1
      end
  | WElse =>
      r <- pop_ctl st ;; let '(fr, st1) := r in
      match f_kind fr with
      | KIf =>
          let st1 := {| ar := set_end (ar st1) (f_block fr) loc; ctl := ctl st1; ifs := ifs st1 |} in
          r2 <- push_ctl cx st1 KElse (f_start fr) (f_end fr) ;; let '(st2, alt) := r2 in
          match ifs st2 with
          | ie :: rest =>
              match if_alt ie with
              | None => Ok {| ar := ar st2; ctl := ctl st2;
                              ifs := {| if_start := if_start ie; if_cons := if_cons ie; if_alt := Some alt |} :: rest |}
              | Some _ => Panic
              end
          | [] => Panic
          end
      | _ => Panic
      end
  | WBr d => t <- target st d ;; st1 <- alloc_in st 0 (IBr t) loc ;; set_unr st1
  | WBrIf d => t <- target st d ;; alloc_in st 0 (IBrIf t) loc
  | WBrTable ds d =>
      t <- target st d ;; ts <- targets st ds ;;
      st1 <- alloc_in st 0 (IBrTable ts t) loc ;; set_unr st1
  end.

Fixpoint run (cx : pctx) (st : pstate) (ops : list (wins * N)) : res pstate :=
  match ops with
  | [] => Ok st
  | o :: ops' => st1 <- step cx st o ;; run cx st1 ops'
  end.

(* LocalFunction::parse: the entry block has the (multi-value) function-entry type;
   the operator list includes the final `end` *)
Definition init_state (entry_ty : N) (results : list valty) : pstate :=
  {| ar := [empty_seq (ST_Multi entry_ty)];
     ctl := [{| f_block := 0; f_kind := KEntry; f_unr := false; f_start := []; f_end := results |}];
     ifs := [] |}.

Definition parse_body (cx : pctx) (entry_ty : N) (results : list valty) (ops : list (wins * N)) : res arena :=
  rmap ar (run cx (init_state entry_ty results) ops).
