(* The declarative NORMAL FORM of a function body under the round trip, stated directly
   on the structured source [rt] (no arena, no ids): nop dropped, each sequence cut after
   its first br / br_table / return / unreachable, every `if` given an `else`, block types
   in canonical form, every other operator decoded then re-encoded (Gen/Ops.v), branch
   depths UNCHANGED.  Each output operator is tagged with the input location it is paired with. *)
From Coq Require Import List NArith Bool. Import ListNotations.
From WV Require Import Gen.Ops Model.Common Model.IR Model.ParseFn Model.ParseSpec Model.EmitFn.
Open Scope N_scope.

Section NF.
  Variable cx : pctx.
  Variable ecx : ectx.

  Definition nf_bt (bt : blockty) : blockty := block_type ecx (bt_seqty cx bt).
  Definition nf_op (o : wop) : wins :=
    match encode_plain (ex_id2i ecx) (dec cx o) with Some w => WOp w | None => WNop end.

  Fixpoint nf (u : bool) (t : rt) {struct t} : list (N * wins) * bool :=
    let keep (x : N * wins) := if u then [] else [x] in
    let nfl := fix nfl (u : bool) (l : list rt) {struct l} : list (N * wins) * bool :=
        match l with
        | [] => ([], u)
        | t :: l' => let '(a, u1) := nf u t in let '(b, u2) := nfl u1 l' in (a ++ b, u2)
        end in
    match t with
    | RPlain o l => (keep (l, nf_op o), u || marks_unreachable o)
    | RNop _ => ([], u)
    | RBr d l => (keep (l, WBr d), true)
    | RBrIf d l => (keep (l, WBrIf d), u)
    | RBrTable ds d l => (keep (l, WBrTable ds d), true)
    | RBlock bt b l e =>
        ((if u then [] else (l, WBlock (nf_bt bt)) :: fst (nfl false b) ++ [(e, WEnd)]), u)
    | RLoop bt b l e =>
        ((if u then [] else (l, WLoop (nf_bt bt)) :: fst (nfl false b) ++ [(e, WEnd)]), u)
    | RIf bt th None l e =>
        ((if u then [] else (l, WIf (nf_bt bt)) :: fst (nfl false th) ++ [(default_loc, WElse); (e, WEnd)]), u)
    | RIf bt th (Some (le, el)) l e =>
        ((if u then [] else (l, WIf (nf_bt bt)) :: fst (nfl false th) ++ (le, WElse) :: fst (nfl false el) ++ [(e, WEnd)]), u)
    end.
  Fixpoint nf_list (u : bool) (l : list rt) : list (N * wins) * bool :=
    match l with
    | [] => ([], u)
    | t :: l' => let '(a, u1) := nf u t in let '(b, u2) := nf_list u1 l' in (a ++ b, u2)
    end.

  (* the whole body: its normal form followed by the function's final `end` *)
  Definition nf_body (l : list rt) (eloc : N) : list (N * wins) := fst (nf_list false l) ++ [(eloc, WEnd)].
End NF.
