(* Module level: what wasmparser hands over ([wsec] payload stream), walrus's in-memory
   Module ([wir], arenas with tombstones) and the configuration. Definitions only. *)
From Coq Require Import List NArith ZArith Bool. Import ListNotations.
From WV Require Import Gen.Ops Model.Common Model.IR Model.Arena.
Open Scope N_scope.

Definition str := list N.                         (* UTF-8 bytes *)
Fixpoint str_eqb (a b : str) : bool :=
  match a, b with [], [] => true | x :: a', y :: b' => N.eqb x y && str_eqb a' b' | _, _ => false end.

(* ------------------------------------------------------------------ the payload stream *)
Inductive wconst :=
  | WC_I32 (z : Z) | WC_I64 (z : Z) | WC_F32 (bits : N) | WC_F64 (bits : N) | WC_V128 (bits : N)
  | WC_GlobalGet (i : N) | WC_RefNull (t : refty) | WC_RefFunc (i : N)
  | WC_Other.                                     (* any other constant expression (walrus: "invalid constant expression") *)

Record wtable := { wt_elem : refty; wt_64 : bool; wt_init : N; wt_max : option N }.
Record wmem := { wm_64 : bool; wm_shared : bool; wm_init : N; wm_max : option N; wm_page : option N }.
Record wglobalty := { wg_ty : valty; wg_mut : bool; wg_shared : bool }.
Inductive wimportkind := WI_Func (ty : N) | WI_Table (t : wtable) | WI_Mem (m : wmem) | WI_Global (g : wglobalty).
Record wimport := { wi_module : str; wi_name : str; wi_kind : wimportkind }.
Inductive ekind := EK_Func | EK_Table | EK_Mem | EK_Global.
Record wexport := { we_name : str; we_kind : ekind; we_index : N }.
Inductive welemkind := WEK_Passive | WEK_Declared | WEK_Active (table : option N) (offset : wconst).
Inductive welemitems := WEI_Funcs (fs : list N) | WEI_Exprs (t : refty) (es : list wconst).
Record welem := { wel_kind : welemkind; wel_items : welemitems }.
Inductive wdatakind := WDK_Passive | WDK_Active (mem : N) (offset : wconst).
Record wdata := { wd_kind : wdatakind; wd_bytes : list N }.
Record wbody := { wb_locals : list (N * valty); wb_ops : list (wins * N) }.

Definition namemap := list (N * str).
Record wnames := {
  wn_module : option str; wn_funcs : namemap; wn_locals : list (N * namemap);
  wn_types : namemap; wn_tables : namemap; wn_mems : namemap; wn_globals : namemap;
  wn_elems : namemap; wn_data : namemap }.
Definition wproducers := list (str * list (str * str)).      (* field name, [(value name, version)] *)

Inductive wcsec :=
  | CS_Raw (name : str) (data : list N)           (* any custom section walrus does not interpret *)
  | CS_Debug (name : str) (data : list N)         (* name starts with ".debug" *)
  | CS_Name (n : option wnames)                   (* None: unparsable (a warning, section dropped) *)
  | CS_Producers (p : option wproducers).

Inductive wsec :=
  | S_Types (ts : list (list valty * list valty))
  | S_Imports (is_ : list wimport)
  | S_Funcs (tys : list N)
  | S_Tables (ts : list wtable)
  | S_Mems (ms : list wmem)
  | S_Globals (gs : list (wglobalty * wconst))
  | S_Exports (es : list wexport)
  | S_Start (f : N)
  | S_Elems (es : list welem)
  | S_DataCount (n : N)
  | S_Code (bs : list wbody)
  | S_Data (ds : list wdata)
  | S_Custom (c : wcsec).
Definition wmod := list wsec.

(* ------------------------------------------------------------------ walrus::Module *)
Record config := {
  cf_generate_dwarf : bool; cf_synthetic_names : bool; cf_only_stable : bool;
  cf_skip_producers : bool; cf_skip_name : bool; cf_preserve_code_transform : bool }.
Definition default_config : config :=
  {| cf_generate_dwarf := false; cf_synthetic_names := false; cf_only_stable := false;
     cf_skip_producers := false; cf_skip_name := false; cf_preserve_code_transform := false |}.

Record mtype := { ty_params : list valty; ty_results : list valty; ty_entry : bool; ty_name : option str }.
Inductive mconst := MC_Value (v : value) | MC_Global (g : N) | MC_RefNull (t : refty) | MC_RefFunc (f : N).
Inductive mimportkind := MI_Func (f : N) | MI_Table (t : N) | MI_Mem (m : N) | MI_Global (g : N).
Record mimport := { im_module : str; im_name : str; im_kind : mimportkind }.
Record mlocalfunc := { lf_ty : N; lf_args : list N; lf_arena : IR.arena; lf_entry : N;
                       lf_orig_range : option (N * N); lf_instr_mapping : list (N * N) }.
Inductive mfunckind := FK_Import (import ty : N) | FK_Local (lf : mlocalfunc) | FK_Uninit (ty : N).
Record mfunc := { fn_kind : mfunckind; fn_name : option str }.
Record mtable := { tb_64 : bool; tb_init : N; tb_max : option N; tb_elem : refty; tb_import : option N;
                   tb_segs : list N; tb_name : option str }.
Record mmem := { me_shared : bool; me_64 : bool; me_init : N; me_max : option N; me_page : option N;
                 me_import : option N; me_segs : list N; me_name : option str }.
Inductive mglobalkind := GK_Import (i : N) | GK_Local (init : mconst).
Record mglobal := { gl_ty : valty; gl_mut : bool; gl_shared : bool; gl_kind : mglobalkind; gl_name : option str }.
Record mlocal := { lo_ty : valty; lo_name : option str }.
Record mexport := { ex_name : str; ex_kind : ekind; ex_item : N }.
Inductive mdatakind := DK_Passive | DK_Active (mem : N) (offset : mconst).
Record mdata := { da_kind : mdatakind; da_value : list N; da_name : option str }.
Inductive melemkind := ELK_Passive | ELK_Declared | ELK_Active (table : N) (offset : mconst).
Inductive melemitems := ELI_Funcs (fs : list N) | ELI_Exprs (t : refty) (es : list mconst).
Record melem := { el_kind : melemkind; el_items : melemitems; el_name : option str }.
(* a custom section held by ModuleCustomSections: raw bytes, plus what the verification needs to
   know about a typed section: the gc roots it declares (functions, tables, memories, globals) *)
Record mcustom := { cu_name : str; cu_data : list N; cu_roots : list (space * N) }.

Record wir := {
  m_imports : tarena mimport; m_tables : tarena mtable; m_types : aset mtype; m_funcs : tarena mfunc;
  m_globals : tarena mglobal; m_locals : tarena mlocal; m_exports : tarena mexport; m_memories : tarena mmem;
  m_data : tarena mdata; m_elements : tarena melem;
  m_start : option N; m_producers : wproducers; m_customs : list (option mcustom);
  m_debug : list (str * list N); m_name : option str; m_config : config;
  m_code_section_offset : N }.

(* Type's Eq/Hash (the ArenaSet key): params, results, entry flag; not id, not name *)
Definition valty_eqb' (a b : valty) : bool := N.eqb (valty_code a) (valty_code b).
Fixpoint vl_eqb (a b : list valty) : bool :=
  match a, b with [] , [] => true | x :: a', y :: b' => valty_eqb' x y && vl_eqb a' b' | _, _ => false end.
Definition mtype_eqb (a b : mtype) : bool :=
  vl_eqb (ty_params a) (ty_params b) && vl_eqb (ty_results a) (ty_results b) && Bool.eqb (ty_entry a) (ty_entry b).

Definition empty_wir (cf : config) : wir :=
  {| m_imports := empty; m_tables := empty; m_types := aset_empty; m_funcs := empty; m_globals := empty;
     m_locals := empty; m_exports := empty; m_memories := empty; m_data := empty; m_elements := empty;
     m_start := None; m_producers := []; m_customs := []; m_debug := []; m_name := None; m_config := cf;
     m_code_section_offset := 0 |}.

(* arena helpers with N ids *)
Definition aget {A} (a : tarena A) (id : N) : option A := index a (N.to_nat id).
Definition aalloc {A} (a : tarena A) (v : A) : tarena A * N := let '(a', id) := alloc a v in (a', N.of_nat id).
Definition aiter {A} (a : tarena A) : list (N * A) := map (fun p => (N.of_nat (fst p), snd p)) (iter a).
Definition anext {A} (a : tarena A) : N := N.of_nat (next_id a).
Definition aset_at {A} (a : tarena A) (id : N) (f : A -> A) : tarena A :=
  {| items := Arena.upd (items a) (N.to_nat id) f; dead := dead a |}.
Definition adelete {A} (a : tarena A) (id : N) : option (tarena A) := delete (fun x => x) a (N.to_nat id).

(* IndicesToIds *)
Record i2ids := { ii_tables : list N; ii_types : list N; ii_funcs : list N; ii_globals : list N;
                  ii_memories : list N; ii_elements : list N; ii_data : list N; ii_locals : list (N * list N) }.
Definition empty_i2ids : i2ids :=
  {| ii_tables := []; ii_types := []; ii_funcs := []; ii_globals := []; ii_memories := []; ii_elements := [];
     ii_data := []; ii_locals := [] |}.
