(* Reading a [cmod] (Model/SemMod.v: types, functions with structured bodies, THE table) off a section stream [wmod]
   (Model/ModuleM.v), for the fragment the whole-module semantics understands.  Definitions only, executable.

   THE FRAGMENT.  No imports (so function index = position in the function section = position in the code section);
   the type section(s); the function + code sections; element segments: none, or exactly ONE active segment of function
   indices at the constant offset 0 of table 0 - the table of the [cmod] is then the list of its entries (an index past
   the segment is past the table or a null entry: call_indirect traps in both cases, like an index past [cm_table]).
   Memories / globals / data / exports / start / custom sections are ignored (memory and globals live in the state).

   LOCATIONS.  A stream carries flat tagged operator lists [(wins * N)]; [flat_list] (Model/ParseSpec.v) is the flattening of
   structured bodies.  [unflat] is its inverse on well-bracketed lists (by recursive descent, with fuel).
   [stream_has_cmod w m] is the RELATION "the bodies of w are the flattenings of the bodies of m, locations included";
   [stream_has_cmod_ops] is the same up to the locations (the semantics reads no location). *)
From Coq Require Import List NArith ZArith Bool. Import ListNotations.
From WV Require Import Gen.Ops Model.Common Model.IR Model.ParseFn Model.ParseSpec Model.ModuleM Model.ParseM Model.SemMod.
Open Scope N_scope.

(* ------------------------------------------------------------------ the payloads *)
Definition p_types (sec : wsec) : list (list valty * list valty) := match sec with S_Types l => l | _ => [] end.
Definition p_imports (sec : wsec) : list wimport := match sec with S_Imports l => l | _ => [] end.
Definition p_funcs (sec : wsec) : list N := match sec with S_Funcs l => l | _ => [] end.
Definition p_code (sec : wsec) : list wbody := match sec with S_Code l => l | _ => [] end.
Definition p_elems (sec : wsec) : list welem := match sec with S_Elems l => l | _ => [] end.

(* ------------------------------------------------------------------ THE table *)
Definition table0 (t : option N) : bool := match t with None => true | Some i => i =? 0 end.
Definition table_of_elems (es : list welem) : option (list (option N)) :=
  match es with
  | [] => Some []
  | [e] => match wel_kind e, wel_items e with
           | WEK_Active t (WC_I32 Z0), WEI_Funcs fs => if table0 t then Some (map Some fs) else None
           | _, _ => None
           end
  | _ => None
  end.

(* ------------------------------------------------------------------ unflattening *)
(* [unflat fuel l] reads trees up to the first unmatched `end` / `else`: (trees, that terminator, the rest) *)
Fixpoint unflat (fuel : nat) (l : list (wins * N)) {struct fuel} : option (list rt * (wins * N) * list (wins * N)) :=
  match fuel with
  | O => None
  | S f =>
      let cont (t : rt) (r : list (wins * N)) :=
        match unflat f r with Some (ts, term, r') => Some (t :: ts, term, r') | None => None end in
      match l with
      | [] => None
      | (w, loc) :: r =>
          match w with
          | WEnd | WElse => Some ([], (w, loc), r)
          | WOp o => cont (RPlain o loc) r
          | WNop => cont (RNop loc) r
          | WBr d => cont (RBr d loc) r
          | WBrIf d => cont (RBrIf d loc) r
          | WBrTable ds d => cont (RBrTable ds d loc) r
          | WBlock bt => match unflat f r with
                         | Some (b, (WEnd, e), r') => cont (RBlock bt b loc e) r'
                         | _ => None end
          | WLoop bt => match unflat f r with
                        | Some (b, (WEnd, e), r') => cont (RLoop bt b loc e) r'
                        | _ => None end
          | WIf bt => match unflat f r with
                      | Some (th, (WEnd, e), r') => cont (RIf bt th None loc e) r'
                      | Some (th, (WElse, le), r') =>
                          match unflat f r' with
                          | Some (el, (WEnd, e), r'') => cont (RIf bt th (Some (le, el)) loc e) r''
                          | _ => None end
                      | _ => None end
          end
      end
  end.
(* a whole function body: the trees, then the final `end`, nothing after it *)
Definition body_of_ops (ops : list (wins * N)) : option (list rt) :=
  match unflat (S (length ops)) ops with
  | Some (ts, (WEnd, _), []) => Some ts
  | _ => None
  end.

Fixpoint opt_all {A} (l : list (option A)) : option (list A) :=
  match l with
  | [] => Some []
  | Some x :: r => match opt_all r with Some xs => Some (x :: xs) | None => None end
  | None :: _ => None
  end.

(* ------------------------------------------------------------------ the module of a stream *)
Definition cmod_of_stream (w : wmod) : option cmod :=
  match flat_map p_imports w with
  | _ :: _ => None
  | [] =>
      let ftys := flat_map p_funcs w in
      let code := flat_map p_code w in
      if negb (Nat.eqb (length ftys) (length code)) then None else
      match opt_all (map (fun b => body_of_ops (wb_ops b)) code), table_of_elems (flat_map p_elems w) with
      | Some bodies, Some tbl =>
          Some {| cm_tys := flat_map p_types w;
                  cm_funcs := map (fun p => (fst (fst p), expand_locals (wb_locals (snd (fst p))), snd p))
                                  (combine (combine ftys code) bodies);
                  cm_table := tbl |}
      | _, _ => None
      end
  end.

(* ------------------------------------------------------------------ the relation *)
Definition fd_ty (d : fdef) : N := fst (fst d).
Definition fd_locals (d : fdef) : list valty := snd (fst d).
Definition fd_body (d : fdef) : list rt := snd d.

Definition body_is (d : fdef) (b : wbody) : Prop :=
  fd_locals d = expand_locals (wb_locals b) /\ exists eloc, wb_ops b = flat_list (fd_body d) ++ [(WEnd, eloc)].
Definition body_is_ops (d : fdef) (b : wbody) : Prop :=
  fd_locals d = expand_locals (wb_locals b) /\ map fst (wb_ops b) = map fst (flat_list (fd_body d)) ++ [WEnd].

Definition stream_has_cmod_gen (R : fdef -> wbody -> Prop) (w : wmod) (m : cmod) : Prop :=
  flat_map p_imports w = [] /\
  cm_tys m = flat_map p_types w /\
  map fd_ty (cm_funcs m) = flat_map p_funcs w /\
  Forall2 R (cm_funcs m) (flat_map p_code w) /\
  table_of_elems (flat_map p_elems w) = Some (cm_table m).
Definition stream_has_cmod : wmod -> cmod -> Prop := stream_has_cmod_gen body_is.
Definition stream_has_cmod_ops : wmod -> cmod -> Prop := stream_has_cmod_gen body_is_ops.

(* ------------------------------------------------------------------ the slot maps induced by the emit-time maps *)
(* the entity (arena id = input index, in this fragment) at output index [j] of a space whose emit-time map is [l];
   an index the map does not reach is its own slot *)
Definition slot_of (l : list (N * N)) (j : N) : N := nth (N.to_nat j) (map fst l) j.
