(* Executable model of Module::emit_wasm (src/module/mod.rs) and the Emit impls of
   src/module/{types,imports,functions,tables,memories,globals,exports,elements,data,producers}.rs,
   emit_name_section, const_expr.rs to_wasmencoder_type, IdsToIndices (src/emit.rs).
   The output is the section list in emission order; every get_*_index on a missing id, arena
   index of a dead id and local_indices[..] miss is [Panic]. *)
From Coq Require Import List NArith ZArith Bool. Import ListNotations.
From WV Require Import Gen.Ops Model.Common Model.IR Model.Arena Model.Traversal Model.EmitFn Model.Locals Model.ModuleM Model.ParseM Gen.Attrs.
Open Scope N_scope.

(* IdsToIndices: per space id -> index, in push order *)
Record x2i := { xi_tables : list (N * N); xi_types : list (N * N); xi_funcs : list (N * N); xi_globals : list (N * N);
                xi_memories : list (N * N); xi_elements : list (N * N); xi_data : list (N * N);
                xi_locals : list (N * list (N * N)) }.
Definition empty_x2i : x2i := {| xi_tables := []; xi_types := []; xi_funcs := []; xi_globals := []; xi_memories := []; xi_elements := []; xi_data := []; xi_locals := [] |}.
Definition lookup_i (l : list (N * N)) (id : N) : res N :=
  match find (fun p => N.eqb (fst p) id) l with Some p => Ok (snd p) | None => Panic end.
Definition pushed (l : list (N * N)) (id : N) : list (N * N) := l ++ [(id, len_N l)].   (* idx = map.len() *)
Definition space_map (x : x2i) (s : space) : list (N * N) :=
  match s with S_func => xi_funcs x | S_type => xi_types x | S_table => xi_tables x | S_memory => xi_memories x
             | S_global => xi_globals x | S_data => xi_data x | S_elem => xi_elements x | S_local => [] end.
Definition set_space (x : x2i) (s : space) (v : list (N * N)) : x2i :=
  match s with
  | S_func => {| xi_tables := xi_tables x; xi_types := xi_types x; xi_funcs := v; xi_globals := xi_globals x; xi_memories := xi_memories x; xi_elements := xi_elements x; xi_data := xi_data x; xi_locals := xi_locals x |}
  | S_type => {| xi_tables := xi_tables x; xi_types := v; xi_funcs := xi_funcs x; xi_globals := xi_globals x; xi_memories := xi_memories x; xi_elements := xi_elements x; xi_data := xi_data x; xi_locals := xi_locals x |}
  | S_table => {| xi_tables := v; xi_types := xi_types x; xi_funcs := xi_funcs x; xi_globals := xi_globals x; xi_memories := xi_memories x; xi_elements := xi_elements x; xi_data := xi_data x; xi_locals := xi_locals x |}
  | S_memory => {| xi_tables := xi_tables x; xi_types := xi_types x; xi_funcs := xi_funcs x; xi_globals := xi_globals x; xi_memories := v; xi_elements := xi_elements x; xi_data := xi_data x; xi_locals := xi_locals x |}
  | S_global => {| xi_tables := xi_tables x; xi_types := xi_types x; xi_funcs := xi_funcs x; xi_globals := v; xi_memories := xi_memories x; xi_elements := xi_elements x; xi_data := xi_data x; xi_locals := xi_locals x |}
  | S_data => {| xi_tables := xi_tables x; xi_types := xi_types x; xi_funcs := xi_funcs x; xi_globals := xi_globals x; xi_memories := xi_memories x; xi_elements := xi_elements x; xi_data := v; xi_locals := xi_locals x |}
  | S_elem => {| xi_tables := xi_tables x; xi_types := xi_types x; xi_funcs := xi_funcs x; xi_globals := xi_globals x; xi_memories := xi_memories x; xi_elements := v; xi_data := xi_data x; xi_locals := xi_locals x |}
  | S_local => x
  end.
Definition push_idx (x : x2i) (s : space) (id : N) : x2i := set_space x s (pushed (space_map x s) id).
Definition get_idx (x : x2i) (s : space) (id : N) : res N := lookup_i (space_map x s) id.

Notation "x <- e ;; k" := (rbind e (fun x => k)) (at level 60, e at next level, right associativity).
Fixpoint rmapM {A B} (f : A -> res B) (l : list A) : res (list B) :=
  match l with [] => Ok [] | a :: r => y <- f a ;; ys <- rmapM f r ;; Ok (y :: ys) end.

(* --- types: live non-entry types sorted (stable) by (params, results) in ValType order *)
Fixpoint vl_cmp (a b : list valty) : comparison :=
  match a, b with
  | [], [] => Eq | [], _ => Lt | _, [] => Gt
  | x :: a', y :: b' => match N.compare (valty_code x) (valty_code y) with Eq => vl_cmp a' b' | c => c end
  end.
Definition ty_le (a b : mtype) : bool :=
  match vl_cmp (ty_params a) (ty_params b) with
  | Lt => true | Gt => false
  | Eq => match vl_cmp (ty_results a) (ty_results b) with Gt => false | _ => true end
  end.
Fixpoint ins_ty (x : N * mtype) (l : list (N * mtype)) : list (N * mtype) :=
  match l with
  | [] => [x]
  | y :: r => if ty_le (snd y) (snd x) then y :: ins_ty x r else x :: l      (* stable: equal keys keep arrival order *)
  end.
Definition sort_types (l : list (N * mtype)) : list (N * mtype) := fold_left (fun acc x => ins_ty x acc) l [].

Definition live_types (m : wir) : list (N * mtype) := map (fun p => (N.of_nat (fst p), snd p)) (aset_iter (m_types m)).
Definition emit_types (m : wir) (x : x2i) : list wsec * x2i :=
  let tys := sort_types (filter (fun p => negb (ty_entry (snd p))) (live_types m)) in
  match tys with
  | [] => ([], x)
  | _ => ([S_Types (map (fun p => (ty_params (snd p), ty_results (snd p))) tys)],
          fold_left (fun x p => push_idx x S_type (fst p)) tys x)
  end.

Definition func_ty (f : mfunc) : N :=
  match fn_kind f with FK_Import _ ty => ty | FK_Local lf => lf_ty lf | FK_Uninit ty => ty end.

(* --- imports *)
Definition emit_import (m : wir) (x : x2i) (i : mimport) : res (wimport * x2i) :=
  match im_kind i with
  | MI_Func f =>
      let x1 := push_idx x S_func f in
      fn <- of_opt (aget (m_funcs m) f) ;;
      ti <- get_idx x1 S_type (func_ty fn) ;;
      Ok ({| wi_module := im_module i; wi_name := im_name i; wi_kind := WI_Func ti |}, x1)
  | MI_Table t =>
      let x1 := push_idx x S_table t in
      tb <- of_opt (aget (m_tables m) t) ;;
      Ok ({| wi_module := im_module i; wi_name := im_name i;
             wi_kind := WI_Table (gen_emit_table_import tb) |}, x1)
  | MI_Mem mm =>
      let x1 := push_idx x S_memory mm in
      me <- of_opt (aget (m_memories m) mm) ;;
      Ok ({| wi_module := im_module i; wi_name := im_name i;
             wi_kind := WI_Mem (gen_emit_memory_import me) |}, x1)
  | MI_Global g =>
      let x1 := push_idx x S_global g in
      gl <- of_opt (aget (m_globals m) g) ;;
      Ok ({| wi_module := im_module i; wi_name := im_name i;
             wi_kind := WI_Global (gen_emit_global_import gl) |}, x1)
  end.
Fixpoint emit_imports_l (m : wir) (x : x2i) (l : list mimport) : res (list wimport * x2i) :=
  match l with
  | [] => Ok ([], x)
  | i :: r => a <- emit_import m x i ;; b <- emit_imports_l m (snd a) r ;; Ok (fst a :: fst b, snd b)
  end.
Definition emit_imports (m : wir) (x : x2i) : res (list wsec * x2i) :=
  match map snd (aiter (m_imports m)) with
  | [] => Ok ([], x)
  | l => a <- emit_imports_l m x l ;; Ok ([S_Imports (fst a)], snd a)
  end.

(* --- local functions in emission order: (Reverse(size), id) *)
Definition lf_fuel (lf : mlocalfunc) : nat := S (length (lf_arena lf) + length (lf_arena lf)).
Definition lf_log (lf : mlocalfunc) : res (list ev) := dfs_in_order false (lf_fuel lf) (lf_arena lf) (lf_entry lf).
(* LocalFunction::size: sum of seq.len() over start_instr_seq callbacks = number of visited instructions *)
Definition lf_size (lf : mlocalfunc) : res N :=
  rmap (fun evs => len_N (filter (fun e => match e with EInstr _ _ => true | _ => false end) evs)) (lf_log lf).
Definition fkey_le (a b : N * N) : bool :=                   (* a = (size, id) sorts before-or-equal b *)
  if fst b <? fst a then true else if fst a <? fst b then false else snd a <=? snd b.
Fixpoint ins_f (x : N * N * mlocalfunc) (l : list (N * N * mlocalfunc)) : list (N * N * mlocalfunc) :=
  match l with
  | [] => [x]
  | y :: r => if fkey_le (fst y) (fst x) then y :: ins_f x r else x :: l
  end.
Definition used_local_functions (m : wir) : res (list (N * mlocalfunc)) :=
  l <- rmapM (fun p => match fn_kind (snd p) with
                       | FK_Local lf => sz <- lf_size lf ;; Ok [((sz, fst p), lf)]
                       | FK_Import _ _ => Ok []
                       | FK_Uninit _ => Panic            (* unreachable!() *)
                       end) (aiter (m_funcs m)) ;;
  Ok (map (fun t => (snd (fst t), snd t)) (fold_left (fun acc x => ins_f x acc) (concat l) [])).

Definition emit_func_section (m : wir) (x : x2i) : res (list wsec * x2i) :=
  fs <- used_local_functions m ;;
  match fs with
  | [] => Ok ([], x)
  | _ =>
      r <- (fix go (l : list (N * mlocalfunc)) (x : x2i) : res (list N * x2i) :=
              match l with
              | [] => Ok ([], x)
              | (id, lf) :: r => ti <- get_idx x S_type (lf_ty lf) ;;
                                 b <- go r (push_idx x S_func id) ;; Ok (ti :: fst b, snd b)
              end) fs x ;;
      Ok ([S_Funcs (fst r)], snd r)
  end.

(* --- tables / memories / globals *)
Definition emit_tables (m : wir) (x : x2i) : list wsec * x2i :=
  let l := filter (fun p => match tb_import (snd p) with None => true | Some _ => false end) (aiter (m_tables m)) in
  match l with
  | [] => ([], x)
  | _ => ([S_Tables (map (fun p => gen_emit_table_local (snd p)) l)],
          fold_left (fun x p => push_idx x S_table (fst p)) l x)
  end.
Definition emit_memories (m : wir) (x : x2i) : list wsec * x2i :=
  let l := filter (fun p => match me_import (snd p) with None => true | Some _ => false end) (aiter (m_memories m)) in
  match l with
  | [] => ([], x)
  | _ => ([S_Mems (map (fun p => gen_emit_memory_local (snd p)) l)],
          fold_left (fun x p => push_idx x S_memory (fst p)) l x)
  end.
(* ConstExpr::to_wasmencoder_type *)
Definition emit_const (x : x2i) (c : mconst) : res wconst :=
  match c with
  | MC_Value (V_I32 z) => Ok (WC_I32 z) | MC_Value (V_I64 z) => Ok (WC_I64 z)
  | MC_Value (V_F32 b) => Ok (WC_F32 b) | MC_Value (V_F64 b) => Ok (WC_F64 b) | MC_Value (V_V128 b) => Ok (WC_V128 b)
  | MC_Global g => rmap WC_GlobalGet (get_idx x S_global g)
  | MC_RefNull t => Ok (WC_RefNull t)
  | MC_RefFunc f => rmap WC_RefFunc (get_idx x S_func f)
  end.
Definition emit_globals (m : wir) (x : x2i) : res (list wsec * x2i) :=
  let l := flat_map (fun p => match gl_kind (snd p) with GK_Local c => [(fst p, snd p, c)] | GK_Import _ => [] end) (aiter (m_globals m)) in
  match l with
  | [] => Ok ([], x)
  | _ =>
      r <- (fix go (l : list (N * mglobal * mconst)) (x : x2i) : res (list (wglobalty * wconst) * x2i) :=
              match l with
              | [] => Ok ([], x)
              | (id, g, c) :: r =>
                  let x1 := push_idx x S_global id in
                  wc <- emit_const x1 c ;;
                  b <- go r x1 ;;
                  Ok ((gen_emit_global_local g, wc) :: fst b, snd b)
              end) l x ;;
      Ok ([S_Globals (fst r)], snd r)
  end.

Definition kind_space (k : ekind) : space := match k with EK_Func => S_func | EK_Table => S_table | EK_Mem => S_memory | EK_Global => S_global end.
Definition emit_exports (m : wir) (x : x2i) : res (list wsec) :=
  match map snd (aiter (m_exports m)) with
  | [] => Ok []
  | l => es <- rmapM (fun e => i <- get_idx x (kind_space (ex_kind e)) (ex_item e) ;;
                               Ok {| we_name := ex_name e; we_kind := ex_kind e; we_index := i |}) l ;;
         Ok [S_Exports es]
  end.

(* --- elements *)
Definition emit_elem (x : x2i) (e : melem) : res welem :=
  items_ <- match el_items e with
            | ELI_Funcs fs => rmap WEI_Funcs (rmapM (get_idx x S_func) fs)
            | ELI_Exprs t es => rmap (WEI_Exprs t) (rmapM (emit_const x) es)
            end ;;
  kind <- match el_kind e with
          | ELK_Passive => Ok WEK_Passive
          | ELK_Declared => Ok WEK_Declared
          | ELK_Active t off =>
              ti <- get_idx x S_table t ;;
              o <- emit_const x off ;;
              Ok (WEK_Active (if N.eqb ti 0 then None else Some ti) o)
          end ;;
  Ok {| wel_kind := kind; wel_items := items_ |}.
Definition emit_elements (m : wir) (x : x2i) : res (list wsec * x2i) :=
  match aiter (m_elements m) with
  | [] => Ok ([], x)
  | l =>
      r <- (fix go (l : list (N * melem)) (x : x2i) : res (list welem * x2i) :=
              match l with
              | [] => Ok ([], x)
              | (id, e) :: r => let x1 := push_idx x S_elem id in
                                we <- emit_elem x1 e ;; b <- go r x1 ;; Ok (we :: fst b, snd b)
              end) l x ;;
      Ok ([S_Elems (fst r)], snd r)
  end.

(* --- data count: indices are assigned here; the section only when a passive segment exists or
   some local function uses a data segment (memory.init / data.drop) *)
Definition uses_data (lf : mlocalfunc) : res bool :=
  rmap (fun evs => existsb (fun e => match e with ERef S_data _ => true | _ => false end) evs) (lf_log lf).
Definition emit_data_count (m : wir) (x : x2i) : res (list wsec * x2i) :=
  match aiter (m_data m) with
  | [] => Ok ([], x)
  | l =>
      let x1 := set_space x S_data (combine (map fst l) (map N.of_nat (seq 0 (length l)))) in
      let any_passive := existsb (fun p => match da_kind (snd p) with DK_Passive => true | _ => false end) l in
      us <- rmapM (fun p => match fn_kind (snd p) with FK_Local lf => uses_data lf | _ => Ok false end) (aiter (m_funcs m)) ;;
      if any_passive || existsb (fun b => b) us then Ok ([S_DataCount (len_N l)], x1) else Ok ([], x1)
  end.

(* --- code section *)
Definition local_ty_fn (m : wir) (id : N) : valty :=
  match aget (m_locals m) id with Some l => lo_ty l | None => VT_I32 end.
Definition id2i_fun (x : x2i) (lmap : list (N * N)) : space -> N -> N :=
  fun s id => match s with
              | S_local => match find (fun p => N.eqb (fst p) id) lmap with Some p => snd p | None => 4294967295 end
              | _ => match find (fun p => N.eqb (fst p) id) (space_map x s) with Some p => snd p | None => 4294967295 end
              end.
(* an id the body looks up must have an index, else the real code panics *)
Definition refs_ok (x : x2i) (lmap : list (N * N)) (evs : list ev) : bool :=
  forallb (fun e => match e with
                    | ERef S_local id => existsb (fun p => N.eqb (fst p) id) lmap
                    | ERef s id => existsb (fun p => N.eqb (fst p) id) (space_map x s)
                    | _ => true end) evs.
Record emitted_fn := { ef_id : N; ef_body : wbody; ef_used : list N; ef_lmap : list (N * N); ef_imap : list (N * N) }.
Definition emit_function (m : wir) (x : x2i) (ilen : wins -> N) (id : N) (lf : mlocalfunc) : res emitted_fn :=
  evs <- lf_log lf ;;
  let '(decls, lmap) := emit_locals (local_ty_fn m) (lf_args lf) (used_of_log evs) in
  if negb (refs_ok x lmap evs) then Panic else
  st <- emit_body {| ex_id2i := id2i_fun x lmap; ex_ilen := ilen |} (lf_fuel lf) (lf_arena lf) (lf_entry lf) 0 ;;
  Ok {| ef_id := id; ef_body := {| wb_locals := decls; wb_ops := combine (out st) (map snd (imap st)) |};
        ef_used := sort_ids (used_of_log evs ++ lf_args lf);      (* the emitted set: used locals and every argument *)
        ef_lmap := lmap; ef_imap := imap st |}.
Definition emit_code (m : wir) (x : x2i) (ilen : wins -> N) : res (list wsec * x2i * list emitted_fn) :=
  fs <- used_local_functions m ;;
  match fs with
  | [] => Ok ([], x, [])
  | _ =>
      efs <- rmapM (fun p => emit_function m x ilen (fst p) (snd p)) fs ;;
      let x1 := {| xi_tables := xi_tables x; xi_types := xi_types x; xi_funcs := xi_funcs x; xi_globals := xi_globals x; xi_memories := xi_memories x;
                   xi_elements := xi_elements x; xi_data := xi_data x; xi_locals := map (fun e => (ef_id e, ef_lmap e)) efs |} in
      Ok ([S_Code (map ef_body efs)], x1, efs)
  end.

Definition emit_data (m : wir) (x : x2i) : res (list wsec) :=
  match aiter (m_data m) with
  | [] => Ok []
  | l => ds <- rmapM (fun p => match da_kind (snd p) with
                               | DK_Passive => Ok {| wd_kind := WDK_Passive; wd_bytes := da_value (snd p) |}
                               | DK_Active mem off => mi <- get_idx x S_memory mem ;; o <- emit_const x off ;;
                                                      Ok {| wd_kind := WDK_Active mi o; wd_bytes := da_value (snd p) |}
                               end) l ;;
         Ok [S_Data ds]
  end.

(* --- name section *)
Fixpoint ins_nm {A} (x : N * A) (l : list (N * A)) : list (N * A) :=
  match l with [] => [x] | y :: r => if fst y <=? fst x then y :: ins_nm x r else x :: l end.
Definition sort_nm {A} (l : list (N * A)) : list (N * A) := fold_left (fun acc x => ins_nm x acc) l [].
Definition named {A} (x : x2i) (s : space) (getn : A -> option str) (l : list (N * A)) : res namemap :=
  r <- rmapM (fun p => match getn (snd p) with
                       | Some n => i <- get_idx x s (fst p) ;; Ok [(i, n)]
                       | None => Ok [] end) l ;;
  Ok (sort_nm (concat r)).
Definition emit_names (m : wir) (x : x2i) (efs : list emitted_fn) : res (list wsec) :=
  funcs <- named x S_func fn_name (aiter (m_funcs m)) ;;
  locals <- rmapM (fun p =>
              match find (fun e => N.eqb (ef_id e) (fst p)) efs with
              | None => Ok []
              | Some e =>
                  let names := flat_map (fun lid => match aget (m_locals m) lid with
                                                    | Some lo => match lo_name lo, find (fun q => N.eqb (fst q) lid) (ef_lmap e) with
                                                                 | Some n, Some q => [(snd q, n)] | _, _ => [] end
                                                    | None => [] end) (ef_used e) in
                  match names with [] => Ok [] | _ => fi <- get_idx x S_func (fst p) ;; Ok [(fi, sort_nm names)] end
              end) (aiter (m_funcs m)) ;;
  let locals := sort_nm (concat locals) in
  types <- named x S_type ty_name (live_types m) ;;
  tables <- named x S_table tb_name (aiter (m_tables m)) ;;
  mems <- named x S_memory me_name (aiter (m_memories m)) ;;
  globals <- named x S_global gl_name (aiter (m_globals m)) ;;
  elems <- named x S_elem el_name (aiter (m_elements m)) ;;
  data <- named x S_data da_name (aiter (m_data m)) ;;
  match m_name m, funcs, locals, types, tables, mems, globals, elems, data with
  | None, [], [], [], [], [], [], [], [] => Ok []
  | _, _, _, _, _, _, _, _, _ =>
      Ok [S_Custom (CS_Name (Some {| wn_module := m_name m; wn_funcs := funcs; wn_locals := locals; wn_types := types; wn_tables := tables;
                                     wn_mems := mems; wn_globals := globals; wn_elems := elems; wn_data := data |}))]
  end.

Definition starts_with_debug (s : str) : bool :=
  match s with 46 :: 100 :: 101 :: 98 :: 117 :: 103 :: _ => true | _ => false end.

Record emitted := { em_secs : list wsec; em_module : wir; em_x2i : x2i; em_fns : list emitted_fn }.

(* `let mut customs = mem::take(&mut self.customs);` ... `self.customs = customs;` at the end: the module is unchanged *)
Definition set_customs_take (m : wir) : wir := m.

(* Module::emit_wasm.  [dwarf] = the sections ModuleDebugData::emit writes (gimli; not modelled) *)
Definition emitM (m : wir) (ilen : wins -> N) (dwarf : list wsec) : res emitted :=
  let cf := m_config m in
  let customs := m_customs m in
  let m0 := set_customs_take m in
  let '(s_ty, x) := emit_types m0 empty_x2i in
  a <- emit_imports m0 x ;; let '(s_im, x) := a in
  a <- emit_func_section m0 x ;; let '(s_fn, x) := a in
  let '(s_tb, x) := emit_tables m0 x in
  let '(s_me, x) := emit_memories m0 x in
  a <- emit_globals m0 x ;; let '(s_gl, x) := a in
  s_ex <- emit_exports m0 x ;;
  s_st <- match m_start m0 with Some f => i <- get_idx x S_func f ;; Ok [S_Start i] | None => Ok [] end ;;
  a <- emit_elements m0 x ;; let '(s_el, x) := a in
  a <- emit_data_count m0 x ;; let '(s_dc, x) := a in
  a <- emit_code m0 x ilen ;; let '(s_co, x, efs) := a in
  s_da <- emit_data m0 x ;;
  s_nm <- (if cf_skip_name cf then Ok [] else emit_names m0 x efs) ;;
  let s_pr := if cf_skip_producers cf then [] else match m_producers m0 with [] => [] | p => [S_Custom (CS_Producers (Some p))] end in
  let s_dw := if cf_generate_dwarf cf then dwarf else [] in
  let s_cu := flat_map (fun c => match c with
                                 | Some c => if starts_with_debug (cu_name c) then [] else [S_Custom (CS_Raw (cu_name c) (cu_data c))]
                                 | None => [] end) customs in
  Ok {| em_secs := s_ty ++ s_im ++ s_fn ++ s_tb ++ s_me ++ s_gl ++ s_ex ++ s_st ++ s_el ++ s_dc ++ s_co ++ s_da ++ s_nm ++ s_pr ++ s_dw ++ s_cu;
        em_module := m0; em_x2i := x; em_fns := efs |}.
