(* Result type shared by the executable models: every unwrap / index / assert!
   of the Rust is an explicit [Panic]; fuelled loops return [OutOfFuel]. *)
From Coq Require Import List NArith.
Import ListNotations.

Inductive res (A : Type) := Ok (a : A) | Panic | OutOfFuel.
Arguments Ok {A}. Arguments Panic {A}. Arguments OutOfFuel {A}.

Definition rbind {A B} (r : res A) (f : A -> res B) : res B :=
  match r with Ok a => f a | Panic => Panic | OutOfFuel => OutOfFuel end.
Definition rmap {A B} (f : A -> B) (r : res A) : res B :=
  match r with Ok a => Ok (f a) | Panic => Panic | OutOfFuel => OutOfFuel end.
Definition of_opt {A} (o : option A) : res A := match o with Some a => Ok a | None => Panic end.

Definition nth_N {A} (l : list A) (n : N) : option A := nth_error l (N.to_nat n).
Definition len_N {A} (l : list A) : N := N.of_nat (length l).

(* functional update of the n-th element (no-op when out of range) *)
Fixpoint upd {A} (l : list A) (n : nat) (f : A -> A) : list A :=
  match l, n with
  | [], _ => []
  | x :: r, O => f x :: r
  | x :: r, S k => x :: upd r k f
  end.
