(* Executable model of src/module/debug/expression.rs: CodeAddressGenerator::find_address (classification of an
   input code address against the instruction table and the function-range table) and
   CodeAddressConverter::find_address (translation through the CodeTransform), and of the rebase
   `x - code_section_start` done by the DWARF emitter (src/module/debug/mod.rs).
   Tables: [dt_instrs] = all (address, InstrLocId) of all local functions, sorted by address;
           [dt_ranges] = (original_range, function id), sorted by start.
   Binary searches are modelled by their specification on sorted tables: exact hit, and insertion point = number of
   smaller keys. *)
From Coq Require Import List NArith Bool. Import ListNotations.
From WV Require Import Model.Common.
Open Scope N_scope.

Inductive caddr := CInstr (loc : N) | CEdge (loc : N) | COffset (fid off : N) | CFnEdge (fid : N) | CBodyStart (fid : N) | CUnknown.

Record dtables := { dt_instrs : list (N * N); dt_ranges : list ((N * N) * N) }.

Definition rng_start (r : (N * N) * N) := fst (fst r).
Definition rng_end (r : (N * N) * N) := snd (fst r).

Definition in_range (inclusive : bool) (a : N) (r : (N * N) * N) : bool :=
  if inclusive then (rng_start r <? a) && (a <=? rng_end r)        (* range.start < address <= range.end *)
  else (rng_start r <=? a) && (a <? rng_end r).                      (* range.start <= address < range.end *)

(* `body_start`: the first byte after the size field of a code entry occupying [start, end): the LEB128 length l (1..5)
   with  leb(end - start - l) = l ; [start] when there is none *)
Definition leb5 (size : N) : N :=
  if size <? 128 then 1 else if size <? 16384 then 2 else if size <? 2097152 then 3 else if size <? 268435456 then 4 else 5.
Definition body_start (r : N * N) : N :=
  let total := snd r - fst r in
  let ok l := (l <=? total) && (leb5 (total - l) =? l) in
  if ok 1 then fst r + 1 else if ok 2 then fst r + 2 else if ok 3 then fst r + 3 else if ok 4 then fst r + 4 else if ok 5 then fst r + 5 else fst r.

Definition find_address (t : dtables) (a : N) (inclusive : bool) : caddr :=
  match find (fun p => fst p =? a) (dt_instrs t) with
  | Some p => CInstr (snd p)
  | None =>
      let id := length (filter (fun p => fst p <? a) (dt_instrs t)) in
      let edge := match nth_error (dt_instrs t) id with
                  | Some p => if fst p - 1 =? a then Some (snd p) else None
                  | None => None end in
      let bstart := match find (in_range false a) (dt_ranges t) with
                    | Some r => if negb (a =? rng_start r) && (a =? body_start (fst r)) then Some (snd r) else None
                    | None => None end in
      match bstart with
      | Some fid => CBodyStart fid
      | None =>
      match edge with
      | Some loc => CEdge loc
      | None =>
          match find (in_range inclusive a) (dt_ranges t) with
          | Some r => if a =? rng_end r then CFnEdge (snd r) else COffset (snd r) (a - rng_start r)
          | None => CUnknown
          end
      end
      end
  end.

(* the CodeTransform: instruction map (loc -> absolute output offset, sorted by loc), function ranges (sorted by id) *)
Record ctrans := { ct_imap : list (N * N); ct_franges : list (N * (N * N)); ct_start : N }.

Definition lookup (k : N) {V} (l : list (N * V)) : option V := option_map snd (find (fun p => fst p =? k) l).

Definition convert (c : ctrans) (x : caddr) : option N :=
  match x with
  | CInstr loc => lookup loc (ct_imap c)
  | CEdge loc => option_map (fun p => p - 1) (lookup loc (ct_imap c))
  | COffset fid off => option_map (fun r => fst r + off) (lookup fid (ct_franges c))
  | CFnEdge fid => option_map snd (lookup fid (ct_franges c))
  | CBodyStart fid => option_map body_start (lookup fid (ct_franges c))
  | CUnknown => None
  end.

(* convert_address of ModuleDebugData::emit: classify, translate, rebase to the start of the code section contents *)
Definition convert_address (t : dtables) (c : ctrans) (a : N) (inclusive : bool) : option N :=
  option_map (fun x => x - ct_start c) (convert c (find_address t a inclusive)).

(* the tombstone the emitter writes for unconvertible addresses of attributes *)
Definition dead_code : N := 4294967295.

(* the address attributes of DIEs (src/module/debug/mod.rs, the closure handed to gimli's `write::Dwarf::from`): 0 and the
   tombstone pass through, an address without image becomes the tombstone *)
Definition convert_attr_address (t : dtables) (c : ctrans) (a : N) : N :=
  if (a =? 0) || (a =? dead_code) then a
  else match convert_address t c a true with Some x => x | None => dead_code end.

(* convert_high_pc (src/module/debug/dwarf.rs): a DIE with DW_AT_low_pc = address and DW_AT_high_pc = unsigned offset gets
   high_pc := image(low + offset) - image(low) (saturating) when both have an image; otherwise the attribute keeps the value
   gimli copied, i.e. the input offset.  Returns the (low_pc, high_pc) pair a reader of the output sees. *)
Definition convert_subprogram (t : dtables) (c : ctrans) (low off : N) : N * N :=
  (convert_attr_address t c low,
   match convert_address t c low true, convert_address t c (low + off) true with
   | Some l, Some h => h - l
   | _, _ => off
   end).
