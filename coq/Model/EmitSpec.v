(* Specification side of function-body emission: the in-order flattening of an IR
   tree, each emitted operator tagged with the InstrLocId the emitter records for it;
   branch immediates are "number of enclosing sequences up to the target". *)
From Coq Require Import List NArith Bool. Import ListNotations.
From WV Require Import Gen.Ops Model.Common Model.IR Model.Traversal Model.EmitFn.
Open Scope N_scope.

Section Flatten.
  Variable cx : ectx.

  Definition depth_of (env : list N) (s : N) : res N := of_opt (position s env 0).
  Fixpoint depths_of (env : list N) (ss : list N) : res (list N) :=
    match ss with
    | [] => Ok []
    | s :: ss' => rbind (depth_of env s) (fun d => rmap (cons d) (depths_of env ss'))
    end.

  Definition terminator (k : bkind) : wins := match k with KIf => WElse | _ => WEnd end.

  (* [flt_tree env t k] : the body of sequence [t] (whose own header, if any, was emitted
     by the parent) followed by its terminator; env = enclosing sequence ids, innermost first *)
  Fixpoint flt_tree (env : list N) (t : tree) (k : bkind) {struct t} : res (list (N * wins)) :=
    match t with T s ty items e =>
      let env' := s :: env in
      rmap (fun body => body ++ [(e, terminator k)])
        ((fix go (l : list (item * N)) : res (list (N * wins)) :=
            match l with
            | [] => Ok []
            | x :: l' => rbind (flt_item env' (fst x) (snd x)) (fun a => rmap (app a) (go l'))
            end) items)
    end
  with flt_item (env : list N) (it : item) (loc : N) {struct it} : res (list (N * wins)) :=
    match it with
    | ItP p => match encode_plain (ex_id2i cx) p with Some w => Ok [(loc, WOp w)] | None => Panic end
    | ItBr s => rmap (fun d => [(loc, WBr d)]) (depth_of env s)
    | ItBrIf s => rmap (fun d => [(loc, WBrIf d)]) (depth_of env s)
    | ItBrTable ss d => rbind (depth_of env d) (fun dd => rmap (fun ds => [(loc, WBrTable ds dd)]) (depths_of env ss))
    | ItB (T s ty items e as t) => rmap (cons (loc, WBlock (block_type cx ty))) (flt_tree env t KBlock)
    | ItL (T s ty items e as t) => rmap (cons (loc, WLoop (block_type cx ty))) (flt_tree env t KLoop)
    | ItI (T s ty items e as c) a =>
        rbind (flt_tree env c KIf) (fun x => rmap (fun y => (loc, WIf (block_type cx ty)) :: x ++ y) (flt_tree env a KElse))
    end.

  (* positions: prefix sums of the encoder's instruction lengths *)
  Fixpoint tag_positions (p : N) (tg : list (N * wins)) : list (N * N) :=
    match tg with
    | [] => []
    | (loc, w) :: tg' => (loc, p) :: tag_positions (p + ex_ilen cx w) tg'
    end.
  Definition total_len (tg : list (N * wins)) : N := fold_right (fun x a => ex_ilen cx (snd x) + a) 0 tg.
End Flatten.

(* every branch target is an enclosing sequence (env = enclosing ids, innermost first);
   every plain instruction has an encoding *)
Fixpoint scoped (id2i : space -> N -> N) (env : list N) (t : tree) {struct t} : Prop :=
  match t with T s ty items e =>
    (fix go (l : list (item * N)) : Prop :=
       match l with [] => True | x :: l' => scoped_item id2i (s :: env) (fst x) /\ go l' end) items
  end
with scoped_item (id2i : space -> N -> N) (env : list N) (it : item) {struct it} : Prop :=
  match it with
  | ItP p => encode_plain id2i p <> None
  | ItBr s | ItBrIf s => In s env
  | ItBrTable ss d => In d env /\ Forall (fun s => In s env) ss
  | ItB t | ItL t => scoped id2i env t
  | ItI c a => scoped id2i env c /\ scoped id2i env a
  end.
