(* The BYTES of a function body: the binary encoding of instructions as wasm-encoder writes it and wasmparser reads it,
   below the operator list ([wins], Model/IR.v) at which Model/ParseFn.v / Model/EmitFn.v stop and above the framing of
   code-section entries (Model/Frame.v; composed at the end: [enc_code] / [dec_code]).  LEB128 comes from Model/Leb.v.
     body        = vec(local group) instruction*           (the last instruction is the function's `end`)
     local group = LEB u32 count, value-type byte
     instruction = opcode byte | prefix byte (0xFC / 0xFD / 0xFE) + LEB u32 sub-opcode, then the immediates
   Operators are described by one table ([optable]): constructor tag (head of Gen/Ops.v [wop_code]), opcode, constructor;
   the shape of the immediates is fixed by the row builder.  [op_split] takes an operator apart into tag + immediates.
   Definitions only (executable); theorems in Proofs/Bytes.v; the tie to real bytes is Run/BytesRun.v (`vh bytes`). *)
From Coq Require Import List NArith ZArith Bool. Import ListNotations.
From WV Require Import Gen.Ops Model.IR Model.Leb Model.Frame.
Open Scope N_scope.

Definition lenB {A} (l : list A) : N := N.of_nat (length l).

(* ------------------------------------------------------------------ value types, block types *)
Definition valty_byte (t : valty) : N :=
  match t with VT_I32 => 127 | VT_I64 => 126 | VT_F32 => 125 | VT_F64 => 124 | VT_V128 => 123 | VT_Funcref => 112 | VT_Externref => 111 end.
Definition valty_of_byte (b : N) : option valty :=
  if b =? 127 then Some VT_I32 else if b =? 126 then Some VT_I64 else if b =? 125 then Some VT_F32 else if b =? 124 then Some VT_F64
  else if b =? 123 then Some VT_V128 else if b =? 112 then Some VT_Funcref else if b =? 111 then Some VT_Externref else None.

(* 0x40 | value type | type index as a (positive) s33 *)
Definition enc_blockty (b : blockty) : list N :=
  match b with BT_Empty => [64] | BT_Val t => [valty_byte t] | BT_Func i => enc_s (Z.of_N i) end.
(* wasmparser peeks at the first byte: 0x40, a value type, otherwise a signed LEB that has to be non-negative *)
Definition dec_blockty (bs : list N) : option (blockty * list N) :=
  match bs with
  | [] => None
  | b :: r =>
      if b =? 64 then Some (BT_Empty, r)
      else match valty_of_byte b with
           | Some t => Some (BT_Val t, r)
           | None => match dec_s bs with
                     | Some (z, r') => if (0 <=? z)%Z then Some (BT_Func (Z.to_N z), r') else None
                     | None => None
                     end
           end
  end.

(* ------------------------------------------------------------------ fixed-width little-endian immediates *)
Fixpoint le_bytes (k : nat) (n : N) : list N :=
  match k with O => [] | S k' => (n mod 256) :: le_bytes k' (n / 256) end.
Fixpoint le_val (k : nat) (bs : list N) : option (N * list N) :=
  match k with
  | O => Some (0, bs)
  | S k' => match bs with
            | [] => None
            | b :: r => match le_val k' r with Some (v, r') => Some (b + 256 * v, r') | None => None end
            end
  end.
Fixpoint take_bytes (k : nat) (bs : list N) : option (list N * list N) :=
  match k with
  | O => Some ([], bs)
  | S k' => match bs with
            | [] => None
            | b :: r => match take_bytes k' r with Some (l, r') => Some (b :: l, r') | None => None end
            end
  end.

(* ------------------------------------------------------------------ memarg *)
(* wasm-encoder: align, offset ; with a non-zero memory index: align | 1<<6, memory index, offset *)
Definition enc_memarg (m : w_memarg) : list N :=
  if wa_memory m =? 0 then enc_u (wa_align m) ++ enc_u (wa_offset m)
  else enc_u (N.lor (wa_align m) 64) ++ enc_u (wa_memory m) ++ enc_u (wa_offset m).
(* wasmparser read_memarg: flags; bit 6 set -> clear it and read a memory index; remaining flags >= 64 is an error; offset u64 *)
Definition dec_memarg (bs : list N) : option (w_memarg * list N) :=
  match dec_u bs with
  | Some (flags, r) =>
      if flags <? 64 then
        match dec_u r with
        | Some (off, r') => Some ({| wa_align := flags; wa_offset := off; wa_memory := 0 |}, r')
        | None => None
        end
      else if flags <? 128 then
        match dec_u r with
        | Some (mem, r1) =>
            match dec_u r1 with
            | Some (off, r') => Some ({| wa_align := flags - 64; wa_offset := off; wa_memory := mem |}, r')
            | None => None
            end
        | None => None
        end
      else None
  | None => None
  end.

(* ------------------------------------------------------------------ immediates *)
Inductive imm :=
  | I_none
  | I_zero                               (* a single 0x00 byte (atomic.fence) *)
  | I_u32 (a : N)                        (* one index *)
  | I_u32x2 (a b : N)                    (* two indices, in the order of the constructor's arguments *)
  | I_s32 (z : Z) | I_s64 (z : Z)        (* signed LEB128 *)
  | I_f32 (n : N) | I_f64 (n : N)        (* the bit pattern, little-endian *)
  | I_valty (t : valty)                  (* select t : a vector of one value type *)
  | I_mem (m : w_memarg)
  | I_heap (h : heapty)
  | I_v128 (n : N)                       (* 16 bytes little-endian *)
  | I_lane (l : N)                       (* one byte *)
  | I_memlane (m : w_memarg) (l : N)
  | I_shuffle (ls : list N).             (* 16 bytes *)
Inductive shape :=
  | Sh_none | Sh_zero | Sh_u32 | Sh_u32x2 | Sh_s32 | Sh_s64 | Sh_f32 | Sh_f64 | Sh_valty | Sh_mem | Sh_heap | Sh_v128 | Sh_lane | Sh_memlane | Sh_shuffle.
Definition shape_of (i : imm) : shape :=
  match i with
  | I_none => Sh_none | I_zero => Sh_zero | I_u32 _ => Sh_u32 | I_u32x2 _ _ => Sh_u32x2 | I_s32 _ => Sh_s32 | I_s64 _ => Sh_s64
  | I_f32 _ => Sh_f32 | I_f64 _ => Sh_f64 | I_valty _ => Sh_valty | I_mem _ => Sh_mem | I_heap _ => Sh_heap | I_v128 _ => Sh_v128
  | I_lane _ => Sh_lane | I_memlane _ _ => Sh_memlane | I_shuffle _ => Sh_shuffle
  end.

(* None: an immediate the model does not cover (heap types other than func / extern) *)
Definition enc_imm (i : imm) : option (list N) :=
  match i with
  | I_none => Some []
  | I_zero => Some [0]
  | I_u32 a => Some (enc_u a)
  | I_u32x2 a b => Some (enc_u a ++ enc_u b)
  | I_s32 z | I_s64 z => Some (enc_s z)
  | I_f32 n => Some (le_bytes 4 n)
  | I_f64 n => Some (le_bytes 8 n)
  | I_valty t => Some (enc_u 1 ++ [valty_byte t])
  | I_mem m => Some (enc_memarg m)
  | I_heap HT_Func => Some [112]
  | I_heap HT_Extern => Some [111]
  | I_heap (HT_Other _) => None
  | I_v128 n => Some (le_bytes 16 n)
  | I_lane l => Some [l]
  | I_memlane m l => Some (enc_memarg m ++ [l])
  | I_shuffle ls => Some ls
  end.
Definition dec_imm (s : shape) (bs : list N) : option (imm * list N) :=
  match s with
  | Sh_none => Some (I_none, bs)
  | Sh_zero => match bs with b :: r => if b =? 0 then Some (I_zero, r) else None | [] => None end
  | Sh_u32 => match dec_u bs with Some (a, r) => Some (I_u32 a, r) | None => None end
  | Sh_u32x2 => match dec_u bs with
                | Some (a, r) => match dec_u r with Some (b, r') => Some (I_u32x2 a b, r') | None => None end
                | None => None
                end
  | Sh_s32 => match dec_s bs with Some (z, r) => Some (I_s32 z, r) | None => None end
  | Sh_s64 => match dec_s bs with Some (z, r) => Some (I_s64 z, r) | None => None end
  | Sh_f32 => match le_val 4 bs with Some (n, r) => Some (I_f32 n, r) | None => None end
  | Sh_f64 => match le_val 8 bs with Some (n, r) => Some (I_f64 n, r) | None => None end
  | Sh_valty => match dec_u bs with
                | Some (k, b :: r) => if k =? 1 then match valty_of_byte b with Some t => Some (I_valty t, r) | None => None end else None
                | _ => None
                end
  | Sh_mem => match dec_memarg bs with Some (m, r) => Some (I_mem m, r) | None => None end
  | Sh_heap => match bs with
               | b :: r => if b =? 112 then Some (I_heap HT_Func, r) else if b =? 111 then Some (I_heap HT_Extern, r) else None
               | [] => None
               end
  | Sh_v128 => match le_val 16 bs with Some (n, r) => Some (I_v128 n, r) | None => None end
  | Sh_lane => match bs with b :: r => Some (I_lane b, r) | [] => None end
  | Sh_memlane => match dec_memarg bs with
                  | Some (m, b :: r) => Some (I_memlane m b, r)
                  | _ => None
                  end
  | Sh_shuffle => match take_bytes 16 bs with Some (l, r) => Some (I_shuffle l, r) | None => None end
  end.

(* the ranges the encodings carry: u32 indices, s32 / s64 constants, u64 offsets, alignment exponent below 64, bytes *)
Definition u32_ok (n : N) : bool := n <? 2 ^ 32.
Definition wf_memarg (m : w_memarg) : bool := (wa_align m <? 64) && (wa_offset m <? 2 ^ 64) && u32_ok (wa_memory m).
Definition wf_i (i : imm) : bool :=
  match i with
  | I_none | I_zero => true
  | I_u32 a => u32_ok a
  | I_u32x2 a b => u32_ok a && u32_ok b
  | I_s32 z => ((- 2 ^ 31 <=? z) && (z <? 2 ^ 31))%Z
  | I_s64 z => ((- 2 ^ 63 <=? z) && (z <? 2 ^ 63))%Z
  | I_f32 n => n <? 2 ^ 32
  | I_f64 n => n <? 2 ^ 64
  | I_valty _ => true
  | I_mem m => wf_memarg m
  | I_heap h => match h with HT_Other _ => false | _ => true end
  | I_v128 n => n <? 2 ^ 128
  | I_lane l => l <? 256
  | I_memlane m l => wf_memarg m && (l <? 256)
  | I_shuffle ls => (length ls =? 16)%nat
  end.

(* ------------------------------------------------------------------ opcodes *)
(* key = (first byte, sub-opcode); the sub-opcode is only written after a prefix byte *)
Definition is_prefix (b : N) : bool := (b =? 252) || (b =? 253) || (b =? 254).
Definition enc_key (k : N * N) : list N := if is_prefix (fst k) then fst k :: enc_u (snd k) else [fst k].
Definition dec_key (bs : list N) : option ((N * N) * list N) :=
  match bs with
  | [] => None
  | b :: r => if is_prefix b then match dec_u r with Some (s, r') => Some ((b, s), r') | None => None end
              else Some ((b, 0), r)
  end.
Definition key_eqb (a b : N * N) : bool := (fst a =? fst b) && (snd a =? snd b).

Record oprow := { r_tag : N; r_key : N * N; r_shape : shape; r_mk : imm -> option wop }.
Definition row_none k key (o : wop) := {| r_tag := k; r_key := key; r_shape := Sh_none; r_mk := fun i => match i with I_none => Some o | _ => None end |}.
Definition row_zero k key (o : wop) := {| r_tag := k; r_key := key; r_shape := Sh_zero; r_mk := fun i => match i with I_zero => Some o | _ => None end |}.
Definition row_u32 k key (c : N -> wop) := {| r_tag := k; r_key := key; r_shape := Sh_u32; r_mk := fun i => match i with I_u32 a => Some (c a) | _ => None end |}.
Definition row_u32x2 k key (c : N -> N -> wop) := {| r_tag := k; r_key := key; r_shape := Sh_u32x2; r_mk := fun i => match i with I_u32x2 a b => Some (c a b) | _ => None end |}.
Definition row_s32 k key (c : Z -> wop) := {| r_tag := k; r_key := key; r_shape := Sh_s32; r_mk := fun i => match i with I_s32 z => Some (c z) | _ => None end |}.
Definition row_s64 k key (c : Z -> wop) := {| r_tag := k; r_key := key; r_shape := Sh_s64; r_mk := fun i => match i with I_s64 z => Some (c z) | _ => None end |}.
Definition row_f32 k key (c : N -> wop) := {| r_tag := k; r_key := key; r_shape := Sh_f32; r_mk := fun i => match i with I_f32 n => Some (c n) | _ => None end |}.
Definition row_f64 k key (c : N -> wop) := {| r_tag := k; r_key := key; r_shape := Sh_f64; r_mk := fun i => match i with I_f64 n => Some (c n) | _ => None end |}.
Definition row_valty k key (c : valty -> wop) := {| r_tag := k; r_key := key; r_shape := Sh_valty; r_mk := fun i => match i with I_valty t => Some (c t) | _ => None end |}.
Definition row_mem k key (c : w_memarg -> wop) := {| r_tag := k; r_key := key; r_shape := Sh_mem; r_mk := fun i => match i with I_mem m => Some (c m) | _ => None end |}.
Definition row_heap k key (c : heapty -> wop) := {| r_tag := k; r_key := key; r_shape := Sh_heap; r_mk := fun i => match i with I_heap h => Some (c h) | _ => None end |}.
Definition row_v128 k key (c : N -> wop) := {| r_tag := k; r_key := key; r_shape := Sh_v128; r_mk := fun i => match i with I_v128 n => Some (c n) | _ => None end |}.
Definition row_lane k key (c : N -> wop) := {| r_tag := k; r_key := key; r_shape := Sh_lane; r_mk := fun i => match i with I_lane l => Some (c l) | _ => None end |}.
Definition row_memlane k key (c : w_memarg -> N -> wop) := {| r_tag := k; r_key := key; r_shape := Sh_memlane; r_mk := fun i => match i with I_memlane m l => Some (c m l) | _ => None end |}.
Definition row_shuffle k key (c : list N -> wop) := {| r_tag := k; r_key := key; r_shape := Sh_shuffle; r_mk := fun i => match i with I_shuffle ls => Some (c ls) | _ => None end |}.

(* ---- GENERATED by /tmp/aw/s56/gen/gen_bytes.py from Gen/Ops.v (constructors, tags = head of wop_code) and `vh optable` (what wasmparser reads) ---- *)
Definition op_split (o : wop) : N * imm :=
  match o with
  | W_Call a => (0, I_u32 a)
  | W_CallIndirect a b => (1, I_u32x2 a b)
  | W_LocalGet a => (2, I_u32 a)
  | W_LocalSet a => (3, I_u32 a)
  | W_LocalTee a => (4, I_u32 a)
  | W_GlobalGet a => (5, I_u32 a)
  | W_GlobalSet a => (6, I_u32 a)
  | W_I32Const z => (7, I_s32 z)
  | W_I64Const z => (8, I_s64 z)
  | W_F32Const n => (9, I_f32 n)
  | W_F64Const n => (10, I_f64 n)
  | W_V128Const n => (11, I_v128 n)
  | W_I32Eqz => (12, I_none)
  | W_I32Eq => (13, I_none)
  | W_I32Ne => (14, I_none)
  | W_I32LtS => (15, I_none)
  | W_I32LtU => (16, I_none)
  | W_I32GtS => (17, I_none)
  | W_I32GtU => (18, I_none)
  | W_I32LeS => (19, I_none)
  | W_I32LeU => (20, I_none)
  | W_I32GeS => (21, I_none)
  | W_I32GeU => (22, I_none)
  | W_I64Eqz => (23, I_none)
  | W_I64Eq => (24, I_none)
  | W_I64Ne => (25, I_none)
  | W_I64LtS => (26, I_none)
  | W_I64LtU => (27, I_none)
  | W_I64GtS => (28, I_none)
  | W_I64GtU => (29, I_none)
  | W_I64LeS => (30, I_none)
  | W_I64LeU => (31, I_none)
  | W_I64GeS => (32, I_none)
  | W_I64GeU => (33, I_none)
  | W_F32Eq => (34, I_none)
  | W_F32Ne => (35, I_none)
  | W_F32Lt => (36, I_none)
  | W_F32Gt => (37, I_none)
  | W_F32Le => (38, I_none)
  | W_F32Ge => (39, I_none)
  | W_F64Eq => (40, I_none)
  | W_F64Ne => (41, I_none)
  | W_F64Lt => (42, I_none)
  | W_F64Gt => (43, I_none)
  | W_F64Le => (44, I_none)
  | W_F64Ge => (45, I_none)
  | W_I32Clz => (46, I_none)
  | W_I32Ctz => (47, I_none)
  | W_I32Popcnt => (48, I_none)
  | W_I32Add => (49, I_none)
  | W_I32Sub => (50, I_none)
  | W_I32Mul => (51, I_none)
  | W_I32DivS => (52, I_none)
  | W_I32DivU => (53, I_none)
  | W_I32RemS => (54, I_none)
  | W_I32RemU => (55, I_none)
  | W_I32And => (56, I_none)
  | W_I32Or => (57, I_none)
  | W_I32Xor => (58, I_none)
  | W_I32Shl => (59, I_none)
  | W_I32ShrS => (60, I_none)
  | W_I32ShrU => (61, I_none)
  | W_I32Rotl => (62, I_none)
  | W_I32Rotr => (63, I_none)
  | W_I64Clz => (64, I_none)
  | W_I64Ctz => (65, I_none)
  | W_I64Popcnt => (66, I_none)
  | W_I64Add => (67, I_none)
  | W_I64Sub => (68, I_none)
  | W_I64Mul => (69, I_none)
  | W_I64DivS => (70, I_none)
  | W_I64DivU => (71, I_none)
  | W_I64RemS => (72, I_none)
  | W_I64RemU => (73, I_none)
  | W_I64And => (74, I_none)
  | W_I64Or => (75, I_none)
  | W_I64Xor => (76, I_none)
  | W_I64Shl => (77, I_none)
  | W_I64ShrS => (78, I_none)
  | W_I64ShrU => (79, I_none)
  | W_I64Rotl => (80, I_none)
  | W_I64Rotr => (81, I_none)
  | W_F32Abs => (82, I_none)
  | W_F32Neg => (83, I_none)
  | W_F32Ceil => (84, I_none)
  | W_F32Floor => (85, I_none)
  | W_F32Trunc => (86, I_none)
  | W_F32Nearest => (87, I_none)
  | W_F32Sqrt => (88, I_none)
  | W_F32Add => (89, I_none)
  | W_F32Sub => (90, I_none)
  | W_F32Mul => (91, I_none)
  | W_F32Div => (92, I_none)
  | W_F32Min => (93, I_none)
  | W_F32Max => (94, I_none)
  | W_F32Copysign => (95, I_none)
  | W_F64Abs => (96, I_none)
  | W_F64Neg => (97, I_none)
  | W_F64Ceil => (98, I_none)
  | W_F64Floor => (99, I_none)
  | W_F64Trunc => (100, I_none)
  | W_F64Nearest => (101, I_none)
  | W_F64Sqrt => (102, I_none)
  | W_F64Add => (103, I_none)
  | W_F64Sub => (104, I_none)
  | W_F64Mul => (105, I_none)
  | W_F64Div => (106, I_none)
  | W_F64Min => (107, I_none)
  | W_F64Max => (108, I_none)
  | W_F64Copysign => (109, I_none)
  | W_I32WrapI64 => (110, I_none)
  | W_I32TruncF32S => (111, I_none)
  | W_I32TruncF32U => (112, I_none)
  | W_I32TruncF64S => (113, I_none)
  | W_I32TruncF64U => (114, I_none)
  | W_I64ExtendI32S => (115, I_none)
  | W_I64ExtendI32U => (116, I_none)
  | W_I64TruncF32S => (117, I_none)
  | W_I64TruncF32U => (118, I_none)
  | W_I64TruncF64S => (119, I_none)
  | W_I64TruncF64U => (120, I_none)
  | W_F32ConvertI32S => (121, I_none)
  | W_F32ConvertI32U => (122, I_none)
  | W_F32ConvertI64S => (123, I_none)
  | W_F32ConvertI64U => (124, I_none)
  | W_F32DemoteF64 => (125, I_none)
  | W_F64ConvertI32S => (126, I_none)
  | W_F64ConvertI32U => (127, I_none)
  | W_F64ConvertI64S => (128, I_none)
  | W_F64ConvertI64U => (129, I_none)
  | W_F64PromoteF32 => (130, I_none)
  | W_I32ReinterpretF32 => (131, I_none)
  | W_I64ReinterpretF64 => (132, I_none)
  | W_F32ReinterpretI32 => (133, I_none)
  | W_F64ReinterpretI64 => (134, I_none)
  | W_I32Extend8S => (135, I_none)
  | W_I32Extend16S => (136, I_none)
  | W_I64Extend8S => (137, I_none)
  | W_I64Extend16S => (138, I_none)
  | W_I64Extend32S => (139, I_none)
  | W_Drop => (140, I_none)
  | W_Select => (141, I_none)
  | W_TypedSelect t => (142, I_valty t)
  | W_Return => (143, I_none)
  | W_Unreachable => (144, I_none)
  | W_MemorySize a => (145, I_u32 a)
  | W_MemoryGrow a => (146, I_u32 a)
  | W_MemoryInit a b => (147, I_u32x2 a b)
  | W_DataDrop a => (148, I_u32 a)
  | W_MemoryCopy a b => (149, I_u32x2 a b)
  | W_MemoryFill a => (150, I_u32 a)
  | W_I32Load m => (151, I_mem m)
  | W_I64Load m => (152, I_mem m)
  | W_F32Load m => (153, I_mem m)
  | W_F64Load m => (154, I_mem m)
  | W_V128Load m => (155, I_mem m)
  | W_I32Load8S m => (156, I_mem m)
  | W_I32Load8U m => (157, I_mem m)
  | W_I32Load16S m => (158, I_mem m)
  | W_I32Load16U m => (159, I_mem m)
  | W_I64Load8S m => (160, I_mem m)
  | W_I64Load8U m => (161, I_mem m)
  | W_I64Load16S m => (162, I_mem m)
  | W_I64Load16U m => (163, I_mem m)
  | W_I64Load32S m => (164, I_mem m)
  | W_I64Load32U m => (165, I_mem m)
  | W_I32Store m => (166, I_mem m)
  | W_I64Store m => (167, I_mem m)
  | W_F32Store m => (168, I_mem m)
  | W_F64Store m => (169, I_mem m)
  | W_V128Store m => (170, I_mem m)
  | W_I32Store8 m => (171, I_mem m)
  | W_I32Store16 m => (172, I_mem m)
  | W_I64Store8 m => (173, I_mem m)
  | W_I64Store16 m => (174, I_mem m)
  | W_I64Store32 m => (175, I_mem m)
  | W_AtomicFence => (176, I_zero)
  | W_I32AtomicLoad m => (177, I_mem m)
  | W_I64AtomicLoad m => (178, I_mem m)
  | W_I32AtomicLoad8U m => (179, I_mem m)
  | W_I32AtomicLoad16U m => (180, I_mem m)
  | W_I64AtomicLoad8U m => (181, I_mem m)
  | W_I64AtomicLoad16U m => (182, I_mem m)
  | W_I64AtomicLoad32U m => (183, I_mem m)
  | W_I32AtomicStore m => (184, I_mem m)
  | W_I64AtomicStore m => (185, I_mem m)
  | W_I32AtomicStore8 m => (186, I_mem m)
  | W_I32AtomicStore16 m => (187, I_mem m)
  | W_I64AtomicStore8 m => (188, I_mem m)
  | W_I64AtomicStore16 m => (189, I_mem m)
  | W_I64AtomicStore32 m => (190, I_mem m)
  | W_I32AtomicRmwAdd m => (191, I_mem m)
  | W_I64AtomicRmwAdd m => (192, I_mem m)
  | W_I32AtomicRmw8AddU m => (193, I_mem m)
  | W_I32AtomicRmw16AddU m => (194, I_mem m)
  | W_I64AtomicRmw8AddU m => (195, I_mem m)
  | W_I64AtomicRmw16AddU m => (196, I_mem m)
  | W_I64AtomicRmw32AddU m => (197, I_mem m)
  | W_I32AtomicRmwSub m => (198, I_mem m)
  | W_I64AtomicRmwSub m => (199, I_mem m)
  | W_I32AtomicRmw8SubU m => (200, I_mem m)
  | W_I32AtomicRmw16SubU m => (201, I_mem m)
  | W_I64AtomicRmw8SubU m => (202, I_mem m)
  | W_I64AtomicRmw16SubU m => (203, I_mem m)
  | W_I64AtomicRmw32SubU m => (204, I_mem m)
  | W_I32AtomicRmwAnd m => (205, I_mem m)
  | W_I64AtomicRmwAnd m => (206, I_mem m)
  | W_I32AtomicRmw8AndU m => (207, I_mem m)
  | W_I32AtomicRmw16AndU m => (208, I_mem m)
  | W_I64AtomicRmw8AndU m => (209, I_mem m)
  | W_I64AtomicRmw16AndU m => (210, I_mem m)
  | W_I64AtomicRmw32AndU m => (211, I_mem m)
  | W_I32AtomicRmwOr m => (212, I_mem m)
  | W_I64AtomicRmwOr m => (213, I_mem m)
  | W_I32AtomicRmw8OrU m => (214, I_mem m)
  | W_I32AtomicRmw16OrU m => (215, I_mem m)
  | W_I64AtomicRmw8OrU m => (216, I_mem m)
  | W_I64AtomicRmw16OrU m => (217, I_mem m)
  | W_I64AtomicRmw32OrU m => (218, I_mem m)
  | W_I32AtomicRmwXor m => (219, I_mem m)
  | W_I64AtomicRmwXor m => (220, I_mem m)
  | W_I32AtomicRmw8XorU m => (221, I_mem m)
  | W_I32AtomicRmw16XorU m => (222, I_mem m)
  | W_I64AtomicRmw8XorU m => (223, I_mem m)
  | W_I64AtomicRmw16XorU m => (224, I_mem m)
  | W_I64AtomicRmw32XorU m => (225, I_mem m)
  | W_I32AtomicRmwXchg m => (226, I_mem m)
  | W_I64AtomicRmwXchg m => (227, I_mem m)
  | W_I32AtomicRmw8XchgU m => (228, I_mem m)
  | W_I32AtomicRmw16XchgU m => (229, I_mem m)
  | W_I64AtomicRmw8XchgU m => (230, I_mem m)
  | W_I64AtomicRmw16XchgU m => (231, I_mem m)
  | W_I64AtomicRmw32XchgU m => (232, I_mem m)
  | W_I32AtomicRmwCmpxchg m => (233, I_mem m)
  | W_I64AtomicRmwCmpxchg m => (234, I_mem m)
  | W_I32AtomicRmw8CmpxchgU m => (235, I_mem m)
  | W_I32AtomicRmw16CmpxchgU m => (236, I_mem m)
  | W_I64AtomicRmw8CmpxchgU m => (237, I_mem m)
  | W_I64AtomicRmw16CmpxchgU m => (238, I_mem m)
  | W_I64AtomicRmw32CmpxchgU m => (239, I_mem m)
  | W_MemoryAtomicNotify m => (240, I_mem m)
  | W_MemoryAtomicWait32 m => (241, I_mem m)
  | W_MemoryAtomicWait64 m => (242, I_mem m)
  | W_TableGet a => (243, I_u32 a)
  | W_TableSet a => (244, I_u32 a)
  | W_TableGrow a => (245, I_u32 a)
  | W_TableSize a => (246, I_u32 a)
  | W_TableFill a => (247, I_u32 a)
  | W_RefNull h => (248, I_heap h)
  | W_RefIsNull => (249, I_none)
  | W_RefFunc a => (250, I_u32 a)
  | W_I8x16Swizzle => (251, I_none)
  | W_I8x16Shuffle ls => (252, I_shuffle ls)
  | W_I8x16Splat => (253, I_none)
  | W_I8x16ExtractLaneS l => (254, I_lane l)
  | W_I8x16ExtractLaneU l => (255, I_lane l)
  | W_I8x16ReplaceLane l => (256, I_lane l)
  | W_I16x8Splat => (257, I_none)
  | W_I16x8ExtractLaneS l => (258, I_lane l)
  | W_I16x8ExtractLaneU l => (259, I_lane l)
  | W_I16x8ReplaceLane l => (260, I_lane l)
  | W_I32x4Splat => (261, I_none)
  | W_I32x4ExtractLane l => (262, I_lane l)
  | W_I32x4ReplaceLane l => (263, I_lane l)
  | W_I64x2Splat => (264, I_none)
  | W_I64x2ExtractLane l => (265, I_lane l)
  | W_I64x2ReplaceLane l => (266, I_lane l)
  | W_F32x4Splat => (267, I_none)
  | W_F32x4ExtractLane l => (268, I_lane l)
  | W_F32x4ReplaceLane l => (269, I_lane l)
  | W_F64x2Splat => (270, I_none)
  | W_F64x2ExtractLane l => (271, I_lane l)
  | W_F64x2ReplaceLane l => (272, I_lane l)
  | W_I8x16Eq => (273, I_none)
  | W_I8x16Ne => (274, I_none)
  | W_I8x16LtS => (275, I_none)
  | W_I8x16LtU => (276, I_none)
  | W_I8x16GtS => (277, I_none)
  | W_I8x16GtU => (278, I_none)
  | W_I8x16LeS => (279, I_none)
  | W_I8x16LeU => (280, I_none)
  | W_I8x16GeS => (281, I_none)
  | W_I8x16GeU => (282, I_none)
  | W_I16x8Eq => (283, I_none)
  | W_I16x8Ne => (284, I_none)
  | W_I16x8LtS => (285, I_none)
  | W_I16x8LtU => (286, I_none)
  | W_I16x8GtS => (287, I_none)
  | W_I16x8GtU => (288, I_none)
  | W_I16x8LeS => (289, I_none)
  | W_I16x8LeU => (290, I_none)
  | W_I16x8GeS => (291, I_none)
  | W_I16x8GeU => (292, I_none)
  | W_I32x4Eq => (293, I_none)
  | W_I32x4Ne => (294, I_none)
  | W_I32x4LtS => (295, I_none)
  | W_I32x4LtU => (296, I_none)
  | W_I32x4GtS => (297, I_none)
  | W_I32x4GtU => (298, I_none)
  | W_I32x4LeS => (299, I_none)
  | W_I32x4LeU => (300, I_none)
  | W_I32x4GeS => (301, I_none)
  | W_I32x4GeU => (302, I_none)
  | W_I64x2Eq => (303, I_none)
  | W_I64x2Ne => (304, I_none)
  | W_I64x2LtS => (305, I_none)
  | W_I64x2GtS => (306, I_none)
  | W_I64x2LeS => (307, I_none)
  | W_I64x2GeS => (308, I_none)
  | W_F32x4Eq => (309, I_none)
  | W_F32x4Ne => (310, I_none)
  | W_F32x4Lt => (311, I_none)
  | W_F32x4Gt => (312, I_none)
  | W_F32x4Le => (313, I_none)
  | W_F32x4Ge => (314, I_none)
  | W_F64x2Eq => (315, I_none)
  | W_F64x2Ne => (316, I_none)
  | W_F64x2Lt => (317, I_none)
  | W_F64x2Gt => (318, I_none)
  | W_F64x2Le => (319, I_none)
  | W_F64x2Ge => (320, I_none)
  | W_V128Not => (321, I_none)
  | W_V128AnyTrue => (322, I_none)
  | W_V128And => (323, I_none)
  | W_V128AndNot => (324, I_none)
  | W_V128Or => (325, I_none)
  | W_V128Xor => (326, I_none)
  | W_V128Bitselect => (327, I_none)
  | W_I8x16Abs => (328, I_none)
  | W_I8x16Popcnt => (329, I_none)
  | W_I8x16Neg => (330, I_none)
  | W_I8x16AllTrue => (331, I_none)
  | W_I8x16Shl => (332, I_none)
  | W_I8x16ShrS => (333, I_none)
  | W_I8x16ShrU => (334, I_none)
  | W_I8x16Add => (335, I_none)
  | W_I8x16AddSatS => (336, I_none)
  | W_I8x16AddSatU => (337, I_none)
  | W_I8x16Sub => (338, I_none)
  | W_I8x16SubSatS => (339, I_none)
  | W_I8x16SubSatU => (340, I_none)
  | W_I16x8Abs => (341, I_none)
  | W_I16x8Neg => (342, I_none)
  | W_I16x8AllTrue => (343, I_none)
  | W_I16x8Shl => (344, I_none)
  | W_I16x8ShrS => (345, I_none)
  | W_I16x8ShrU => (346, I_none)
  | W_I16x8Add => (347, I_none)
  | W_I16x8AddSatS => (348, I_none)
  | W_I16x8AddSatU => (349, I_none)
  | W_I16x8Sub => (350, I_none)
  | W_I16x8SubSatS => (351, I_none)
  | W_I16x8SubSatU => (352, I_none)
  | W_I16x8Mul => (353, I_none)
  | W_I32x4Abs => (354, I_none)
  | W_I32x4Neg => (355, I_none)
  | W_I32x4AllTrue => (356, I_none)
  | W_I32x4Shl => (357, I_none)
  | W_I32x4ShrS => (358, I_none)
  | W_I32x4ShrU => (359, I_none)
  | W_I32x4Add => (360, I_none)
  | W_I32x4Sub => (361, I_none)
  | W_I32x4Mul => (362, I_none)
  | W_I64x2Abs => (363, I_none)
  | W_I64x2AllTrue => (364, I_none)
  | W_I64x2Neg => (365, I_none)
  | W_I64x2Shl => (366, I_none)
  | W_I64x2ShrS => (367, I_none)
  | W_I64x2ShrU => (368, I_none)
  | W_I64x2Add => (369, I_none)
  | W_I64x2Sub => (370, I_none)
  | W_I64x2Mul => (371, I_none)
  | W_F32x4Abs => (372, I_none)
  | W_F32x4Neg => (373, I_none)
  | W_F32x4Sqrt => (374, I_none)
  | W_F32x4Add => (375, I_none)
  | W_F32x4Sub => (376, I_none)
  | W_F32x4Mul => (377, I_none)
  | W_F32x4Div => (378, I_none)
  | W_F32x4Min => (379, I_none)
  | W_F32x4Max => (380, I_none)
  | W_F32x4Ceil => (381, I_none)
  | W_F32x4Floor => (382, I_none)
  | W_F32x4Trunc => (383, I_none)
  | W_F32x4Nearest => (384, I_none)
  | W_F32x4PMin => (385, I_none)
  | W_F32x4PMax => (386, I_none)
  | W_I16x8ExtAddPairwiseI8x16S => (387, I_none)
  | W_I16x8ExtAddPairwiseI8x16U => (388, I_none)
  | W_I32x4ExtAddPairwiseI16x8S => (389, I_none)
  | W_I32x4ExtAddPairwiseI16x8U => (390, I_none)
  | W_I64x2ExtendLowI32x4S => (391, I_none)
  | W_I64x2ExtendHighI32x4S => (392, I_none)
  | W_I64x2ExtendLowI32x4U => (393, I_none)
  | W_I64x2ExtendHighI32x4U => (394, I_none)
  | W_I32x4TruncSatF64x2SZero => (395, I_none)
  | W_I32x4TruncSatF64x2UZero => (396, I_none)
  | W_F64x2ConvertLowI32x4S => (397, I_none)
  | W_F64x2ConvertLowI32x4U => (398, I_none)
  | W_F32x4DemoteF64x2Zero => (399, I_none)
  | W_F64x2PromoteLowF32x4 => (400, I_none)
  | W_I16x8Q15MulrSatS => (401, I_none)
  | W_I16x8ExtMulLowI8x16S => (402, I_none)
  | W_I16x8ExtMulHighI8x16S => (403, I_none)
  | W_I16x8ExtMulLowI8x16U => (404, I_none)
  | W_I16x8ExtMulHighI8x16U => (405, I_none)
  | W_I32x4ExtMulLowI16x8S => (406, I_none)
  | W_I32x4ExtMulHighI16x8S => (407, I_none)
  | W_I32x4ExtMulLowI16x8U => (408, I_none)
  | W_I32x4ExtMulHighI16x8U => (409, I_none)
  | W_I64x2ExtMulLowI32x4S => (410, I_none)
  | W_I64x2ExtMulHighI32x4S => (411, I_none)
  | W_I64x2ExtMulLowI32x4U => (412, I_none)
  | W_I64x2ExtMulHighI32x4U => (413, I_none)
  | W_F64x2Abs => (414, I_none)
  | W_F64x2Neg => (415, I_none)
  | W_F64x2Sqrt => (416, I_none)
  | W_F64x2Add => (417, I_none)
  | W_F64x2Sub => (418, I_none)
  | W_F64x2Mul => (419, I_none)
  | W_F64x2Div => (420, I_none)
  | W_F64x2Min => (421, I_none)
  | W_F64x2Max => (422, I_none)
  | W_F64x2Ceil => (423, I_none)
  | W_F64x2Floor => (424, I_none)
  | W_F64x2Trunc => (425, I_none)
  | W_F64x2Nearest => (426, I_none)
  | W_F64x2PMin => (427, I_none)
  | W_F64x2PMax => (428, I_none)
  | W_I32x4TruncSatF32x4S => (429, I_none)
  | W_I32x4TruncSatF32x4U => (430, I_none)
  | W_F32x4ConvertI32x4S => (431, I_none)
  | W_F32x4ConvertI32x4U => (432, I_none)
  | W_I32TruncSatF32S => (433, I_none)
  | W_I32TruncSatF32U => (434, I_none)
  | W_I32TruncSatF64S => (435, I_none)
  | W_I32TruncSatF64U => (436, I_none)
  | W_I64TruncSatF32S => (437, I_none)
  | W_I64TruncSatF32U => (438, I_none)
  | W_I64TruncSatF64S => (439, I_none)
  | W_I64TruncSatF64U => (440, I_none)
  | W_V128Load8Splat m => (441, I_mem m)
  | W_V128Load16Splat m => (442, I_mem m)
  | W_V128Load32Splat m => (443, I_mem m)
  | W_V128Load64Splat m => (444, I_mem m)
  | W_V128Load32Zero m => (445, I_mem m)
  | W_V128Load64Zero m => (446, I_mem m)
  | W_V128Load8Lane m l => (447, I_memlane m l)
  | W_V128Load16Lane m l => (448, I_memlane m l)
  | W_V128Load32Lane m l => (449, I_memlane m l)
  | W_V128Load64Lane m l => (450, I_memlane m l)
  | W_V128Store8Lane m l => (451, I_memlane m l)
  | W_V128Store16Lane m l => (452, I_memlane m l)
  | W_V128Store32Lane m l => (453, I_memlane m l)
  | W_V128Store64Lane m l => (454, I_memlane m l)
  | W_I8x16NarrowI16x8S => (455, I_none)
  | W_I8x16NarrowI16x8U => (456, I_none)
  | W_I16x8NarrowI32x4S => (457, I_none)
  | W_I16x8NarrowI32x4U => (458, I_none)
  | W_I16x8ExtendLowI8x16S => (459, I_none)
  | W_I16x8ExtendLowI8x16U => (460, I_none)
  | W_I16x8ExtendHighI8x16S => (461, I_none)
  | W_I16x8ExtendHighI8x16U => (462, I_none)
  | W_I32x4ExtendLowI16x8S => (463, I_none)
  | W_I32x4ExtendLowI16x8U => (464, I_none)
  | W_I32x4ExtendHighI16x8S => (465, I_none)
  | W_I32x4ExtendHighI16x8U => (466, I_none)
  | W_V128Load8x8S m => (467, I_mem m)
  | W_V128Load8x8U m => (468, I_mem m)
  | W_V128Load16x4S m => (469, I_mem m)
  | W_V128Load16x4U m => (470, I_mem m)
  | W_V128Load32x2S m => (471, I_mem m)
  | W_V128Load32x2U m => (472, I_mem m)
  | W_I8x16AvgrU => (473, I_none)
  | W_I16x8AvgrU => (474, I_none)
  | W_I8x16MinS => (475, I_none)
  | W_I8x16MinU => (476, I_none)
  | W_I8x16MaxS => (477, I_none)
  | W_I8x16MaxU => (478, I_none)
  | W_I16x8MinS => (479, I_none)
  | W_I16x8MinU => (480, I_none)
  | W_I16x8MaxS => (481, I_none)
  | W_I16x8MaxU => (482, I_none)
  | W_I32x4MinS => (483, I_none)
  | W_I32x4MinU => (484, I_none)
  | W_I32x4MaxS => (485, I_none)
  | W_I32x4MaxU => (486, I_none)
  | W_I8x16Bitmask => (487, I_none)
  | W_I16x8Bitmask => (488, I_none)
  | W_I32x4Bitmask => (489, I_none)
  | W_I64x2Bitmask => (490, I_none)
  | W_I32x4DotI16x8S => (491, I_none)
  | W_TableCopy a b => (492, I_u32x2 a b)
  | W_TableInit a b => (493, I_u32x2 a b)
  | W_ElemDrop a => (494, I_u32 a)
  | W_ReturnCall a => (495, I_u32 a)
  | W_ReturnCallIndirect a b => (496, I_u32x2 a b)
  | W_I8x16RelaxedSwizzle => (497, I_none)
  | W_I32x4RelaxedTruncF32x4S => (498, I_none)
  | W_I32x4RelaxedTruncF32x4U => (499, I_none)
  | W_I32x4RelaxedTruncF64x2SZero => (500, I_none)
  | W_I32x4RelaxedTruncF64x2UZero => (501, I_none)
  | W_F32x4RelaxedMadd => (502, I_none)
  | W_F32x4RelaxedNmadd => (503, I_none)
  | W_F64x2RelaxedMadd => (504, I_none)
  | W_F64x2RelaxedNmadd => (505, I_none)
  | W_I8x16RelaxedLaneselect => (506, I_none)
  | W_I16x8RelaxedLaneselect => (507, I_none)
  | W_I32x4RelaxedLaneselect => (508, I_none)
  | W_I64x2RelaxedLaneselect => (509, I_none)
  | W_F32x4RelaxedMin => (510, I_none)
  | W_F32x4RelaxedMax => (511, I_none)
  | W_F64x2RelaxedMin => (512, I_none)
  | W_F64x2RelaxedMax => (513, I_none)
  | W_I16x8RelaxedQ15mulrS => (514, I_none)
  | W_I16x8RelaxedDotI8x16I7x16S => (515, I_none)
  | W_I32x4RelaxedDotI8x16I7x16AddS => (516, I_none)
  end.

(* tag, (first byte, sub-opcode), constructor; the row_<shape> builders fix the shape of the immediates *)
Definition optable : list oprow := [
  row_u32 0 (16, 0) W_Call;
  row_u32x2 1 (17, 0) W_CallIndirect;
  row_u32 2 (32, 0) W_LocalGet;
  row_u32 3 (33, 0) W_LocalSet;
  row_u32 4 (34, 0) W_LocalTee;
  row_u32 5 (35, 0) W_GlobalGet;
  row_u32 6 (36, 0) W_GlobalSet;
  row_s32 7 (65, 0) W_I32Const;
  row_s64 8 (66, 0) W_I64Const;
  row_f32 9 (67, 0) W_F32Const;
  row_f64 10 (68, 0) W_F64Const;
  row_v128 11 (253, 12) W_V128Const;
  row_none 12 (69, 0) W_I32Eqz;
  row_none 13 (70, 0) W_I32Eq;
  row_none 14 (71, 0) W_I32Ne;
  row_none 15 (72, 0) W_I32LtS;
  row_none 16 (73, 0) W_I32LtU;
  row_none 17 (74, 0) W_I32GtS;
  row_none 18 (75, 0) W_I32GtU;
  row_none 19 (76, 0) W_I32LeS;
  row_none 20 (77, 0) W_I32LeU;
  row_none 21 (78, 0) W_I32GeS;
  row_none 22 (79, 0) W_I32GeU;
  row_none 23 (80, 0) W_I64Eqz;
  row_none 24 (81, 0) W_I64Eq;
  row_none 25 (82, 0) W_I64Ne;
  row_none 26 (83, 0) W_I64LtS;
  row_none 27 (84, 0) W_I64LtU;
  row_none 28 (85, 0) W_I64GtS;
  row_none 29 (86, 0) W_I64GtU;
  row_none 30 (87, 0) W_I64LeS;
  row_none 31 (88, 0) W_I64LeU;
  row_none 32 (89, 0) W_I64GeS;
  row_none 33 (90, 0) W_I64GeU;
  row_none 34 (91, 0) W_F32Eq;
  row_none 35 (92, 0) W_F32Ne;
  row_none 36 (93, 0) W_F32Lt;
  row_none 37 (94, 0) W_F32Gt;
  row_none 38 (95, 0) W_F32Le;
  row_none 39 (96, 0) W_F32Ge;
  row_none 40 (97, 0) W_F64Eq;
  row_none 41 (98, 0) W_F64Ne;
  row_none 42 (99, 0) W_F64Lt;
  row_none 43 (100, 0) W_F64Gt;
  row_none 44 (101, 0) W_F64Le;
  row_none 45 (102, 0) W_F64Ge;
  row_none 46 (103, 0) W_I32Clz;
  row_none 47 (104, 0) W_I32Ctz;
  row_none 48 (105, 0) W_I32Popcnt;
  row_none 49 (106, 0) W_I32Add;
  row_none 50 (107, 0) W_I32Sub;
  row_none 51 (108, 0) W_I32Mul;
  row_none 52 (109, 0) W_I32DivS;
  row_none 53 (110, 0) W_I32DivU;
  row_none 54 (111, 0) W_I32RemS;
  row_none 55 (112, 0) W_I32RemU;
  row_none 56 (113, 0) W_I32And;
  row_none 57 (114, 0) W_I32Or;
  row_none 58 (115, 0) W_I32Xor;
  row_none 59 (116, 0) W_I32Shl;
  row_none 60 (117, 0) W_I32ShrS;
  row_none 61 (118, 0) W_I32ShrU;
  row_none 62 (119, 0) W_I32Rotl;
  row_none 63 (120, 0) W_I32Rotr;
  row_none 64 (121, 0) W_I64Clz;
  row_none 65 (122, 0) W_I64Ctz;
  row_none 66 (123, 0) W_I64Popcnt;
  row_none 67 (124, 0) W_I64Add;
  row_none 68 (125, 0) W_I64Sub;
  row_none 69 (126, 0) W_I64Mul;
  row_none 70 (127, 0) W_I64DivS;
  row_none 71 (128, 0) W_I64DivU;
  row_none 72 (129, 0) W_I64RemS;
  row_none 73 (130, 0) W_I64RemU;
  row_none 74 (131, 0) W_I64And;
  row_none 75 (132, 0) W_I64Or;
  row_none 76 (133, 0) W_I64Xor;
  row_none 77 (134, 0) W_I64Shl;
  row_none 78 (135, 0) W_I64ShrS;
  row_none 79 (136, 0) W_I64ShrU;
  row_none 80 (137, 0) W_I64Rotl;
  row_none 81 (138, 0) W_I64Rotr;
  row_none 82 (139, 0) W_F32Abs;
  row_none 83 (140, 0) W_F32Neg;
  row_none 84 (141, 0) W_F32Ceil;
  row_none 85 (142, 0) W_F32Floor;
  row_none 86 (143, 0) W_F32Trunc;
  row_none 87 (144, 0) W_F32Nearest;
  row_none 88 (145, 0) W_F32Sqrt;
  row_none 89 (146, 0) W_F32Add;
  row_none 90 (147, 0) W_F32Sub;
  row_none 91 (148, 0) W_F32Mul;
  row_none 92 (149, 0) W_F32Div;
  row_none 93 (150, 0) W_F32Min;
  row_none 94 (151, 0) W_F32Max;
  row_none 95 (152, 0) W_F32Copysign;
  row_none 96 (153, 0) W_F64Abs;
  row_none 97 (154, 0) W_F64Neg;
  row_none 98 (155, 0) W_F64Ceil;
  row_none 99 (156, 0) W_F64Floor;
  row_none 100 (157, 0) W_F64Trunc;
  row_none 101 (158, 0) W_F64Nearest;
  row_none 102 (159, 0) W_F64Sqrt;
  row_none 103 (160, 0) W_F64Add;
  row_none 104 (161, 0) W_F64Sub;
  row_none 105 (162, 0) W_F64Mul;
  row_none 106 (163, 0) W_F64Div;
  row_none 107 (164, 0) W_F64Min;
  row_none 108 (165, 0) W_F64Max;
  row_none 109 (166, 0) W_F64Copysign;
  row_none 110 (167, 0) W_I32WrapI64;
  row_none 111 (168, 0) W_I32TruncF32S;
  row_none 112 (169, 0) W_I32TruncF32U;
  row_none 113 (170, 0) W_I32TruncF64S;
  row_none 114 (171, 0) W_I32TruncF64U;
  row_none 115 (172, 0) W_I64ExtendI32S;
  row_none 116 (173, 0) W_I64ExtendI32U;
  row_none 117 (174, 0) W_I64TruncF32S;
  row_none 118 (175, 0) W_I64TruncF32U;
  row_none 119 (176, 0) W_I64TruncF64S;
  row_none 120 (177, 0) W_I64TruncF64U;
  row_none 121 (178, 0) W_F32ConvertI32S;
  row_none 122 (179, 0) W_F32ConvertI32U;
  row_none 123 (180, 0) W_F32ConvertI64S;
  row_none 124 (181, 0) W_F32ConvertI64U;
  row_none 125 (182, 0) W_F32DemoteF64;
  row_none 126 (183, 0) W_F64ConvertI32S;
  row_none 127 (184, 0) W_F64ConvertI32U;
  row_none 128 (185, 0) W_F64ConvertI64S;
  row_none 129 (186, 0) W_F64ConvertI64U;
  row_none 130 (187, 0) W_F64PromoteF32;
  row_none 131 (188, 0) W_I32ReinterpretF32;
  row_none 132 (189, 0) W_I64ReinterpretF64;
  row_none 133 (190, 0) W_F32ReinterpretI32;
  row_none 134 (191, 0) W_F64ReinterpretI64;
  row_none 135 (192, 0) W_I32Extend8S;
  row_none 136 (193, 0) W_I32Extend16S;
  row_none 137 (194, 0) W_I64Extend8S;
  row_none 138 (195, 0) W_I64Extend16S;
  row_none 139 (196, 0) W_I64Extend32S;
  row_none 140 (26, 0) W_Drop;
  row_none 141 (27, 0) W_Select;
  row_valty 142 (28, 0) W_TypedSelect;
  row_none 143 (15, 0) W_Return;
  row_none 144 (0, 0) W_Unreachable;
  row_u32 145 (63, 0) W_MemorySize;
  row_u32 146 (64, 0) W_MemoryGrow;
  row_u32x2 147 (252, 8) W_MemoryInit;
  row_u32 148 (252, 9) W_DataDrop;
  row_u32x2 149 (252, 10) W_MemoryCopy;
  row_u32 150 (252, 11) W_MemoryFill;
  row_mem 151 (40, 0) W_I32Load;
  row_mem 152 (41, 0) W_I64Load;
  row_mem 153 (42, 0) W_F32Load;
  row_mem 154 (43, 0) W_F64Load;
  row_mem 155 (253, 0) W_V128Load;
  row_mem 156 (44, 0) W_I32Load8S;
  row_mem 157 (45, 0) W_I32Load8U;
  row_mem 158 (46, 0) W_I32Load16S;
  row_mem 159 (47, 0) W_I32Load16U;
  row_mem 160 (48, 0) W_I64Load8S;
  row_mem 161 (49, 0) W_I64Load8U;
  row_mem 162 (50, 0) W_I64Load16S;
  row_mem 163 (51, 0) W_I64Load16U;
  row_mem 164 (52, 0) W_I64Load32S;
  row_mem 165 (53, 0) W_I64Load32U;
  row_mem 166 (54, 0) W_I32Store;
  row_mem 167 (55, 0) W_I64Store;
  row_mem 168 (56, 0) W_F32Store;
  row_mem 169 (57, 0) W_F64Store;
  row_mem 170 (253, 11) W_V128Store;
  row_mem 171 (58, 0) W_I32Store8;
  row_mem 172 (59, 0) W_I32Store16;
  row_mem 173 (60, 0) W_I64Store8;
  row_mem 174 (61, 0) W_I64Store16;
  row_mem 175 (62, 0) W_I64Store32;
  row_zero 176 (254, 3) W_AtomicFence;
  row_mem 177 (254, 16) W_I32AtomicLoad;
  row_mem 178 (254, 17) W_I64AtomicLoad;
  row_mem 179 (254, 18) W_I32AtomicLoad8U;
  row_mem 180 (254, 19) W_I32AtomicLoad16U;
  row_mem 181 (254, 20) W_I64AtomicLoad8U;
  row_mem 182 (254, 21) W_I64AtomicLoad16U;
  row_mem 183 (254, 22) W_I64AtomicLoad32U;
  row_mem 184 (254, 23) W_I32AtomicStore;
  row_mem 185 (254, 24) W_I64AtomicStore;
  row_mem 186 (254, 25) W_I32AtomicStore8;
  row_mem 187 (254, 26) W_I32AtomicStore16;
  row_mem 188 (254, 27) W_I64AtomicStore8;
  row_mem 189 (254, 28) W_I64AtomicStore16;
  row_mem 190 (254, 29) W_I64AtomicStore32;
  row_mem 191 (254, 30) W_I32AtomicRmwAdd;
  row_mem 192 (254, 31) W_I64AtomicRmwAdd;
  row_mem 193 (254, 32) W_I32AtomicRmw8AddU;
  row_mem 194 (254, 33) W_I32AtomicRmw16AddU;
  row_mem 195 (254, 34) W_I64AtomicRmw8AddU;
  row_mem 196 (254, 35) W_I64AtomicRmw16AddU;
  row_mem 197 (254, 36) W_I64AtomicRmw32AddU;
  row_mem 198 (254, 37) W_I32AtomicRmwSub;
  row_mem 199 (254, 38) W_I64AtomicRmwSub;
  row_mem 200 (254, 39) W_I32AtomicRmw8SubU;
  row_mem 201 (254, 40) W_I32AtomicRmw16SubU;
  row_mem 202 (254, 41) W_I64AtomicRmw8SubU;
  row_mem 203 (254, 42) W_I64AtomicRmw16SubU;
  row_mem 204 (254, 43) W_I64AtomicRmw32SubU;
  row_mem 205 (254, 44) W_I32AtomicRmwAnd;
  row_mem 206 (254, 45) W_I64AtomicRmwAnd;
  row_mem 207 (254, 46) W_I32AtomicRmw8AndU;
  row_mem 208 (254, 47) W_I32AtomicRmw16AndU;
  row_mem 209 (254, 48) W_I64AtomicRmw8AndU;
  row_mem 210 (254, 49) W_I64AtomicRmw16AndU;
  row_mem 211 (254, 50) W_I64AtomicRmw32AndU;
  row_mem 212 (254, 51) W_I32AtomicRmwOr;
  row_mem 213 (254, 52) W_I64AtomicRmwOr;
  row_mem 214 (254, 53) W_I32AtomicRmw8OrU;
  row_mem 215 (254, 54) W_I32AtomicRmw16OrU;
  row_mem 216 (254, 55) W_I64AtomicRmw8OrU;
  row_mem 217 (254, 56) W_I64AtomicRmw16OrU;
  row_mem 218 (254, 57) W_I64AtomicRmw32OrU;
  row_mem 219 (254, 58) W_I32AtomicRmwXor;
  row_mem 220 (254, 59) W_I64AtomicRmwXor;
  row_mem 221 (254, 60) W_I32AtomicRmw8XorU;
  row_mem 222 (254, 61) W_I32AtomicRmw16XorU;
  row_mem 223 (254, 62) W_I64AtomicRmw8XorU;
  row_mem 224 (254, 63) W_I64AtomicRmw16XorU;
  row_mem 225 (254, 64) W_I64AtomicRmw32XorU;
  row_mem 226 (254, 65) W_I32AtomicRmwXchg;
  row_mem 227 (254, 66) W_I64AtomicRmwXchg;
  row_mem 228 (254, 67) W_I32AtomicRmw8XchgU;
  row_mem 229 (254, 68) W_I32AtomicRmw16XchgU;
  row_mem 230 (254, 69) W_I64AtomicRmw8XchgU;
  row_mem 231 (254, 70) W_I64AtomicRmw16XchgU;
  row_mem 232 (254, 71) W_I64AtomicRmw32XchgU;
  row_mem 233 (254, 72) W_I32AtomicRmwCmpxchg;
  row_mem 234 (254, 73) W_I64AtomicRmwCmpxchg;
  row_mem 235 (254, 74) W_I32AtomicRmw8CmpxchgU;
  row_mem 236 (254, 75) W_I32AtomicRmw16CmpxchgU;
  row_mem 237 (254, 76) W_I64AtomicRmw8CmpxchgU;
  row_mem 238 (254, 77) W_I64AtomicRmw16CmpxchgU;
  row_mem 239 (254, 78) W_I64AtomicRmw32CmpxchgU;
  row_mem 240 (254, 0) W_MemoryAtomicNotify;
  row_mem 241 (254, 1) W_MemoryAtomicWait32;
  row_mem 242 (254, 2) W_MemoryAtomicWait64;
  row_u32 243 (37, 0) W_TableGet;
  row_u32 244 (38, 0) W_TableSet;
  row_u32 245 (252, 15) W_TableGrow;
  row_u32 246 (252, 16) W_TableSize;
  row_u32 247 (252, 17) W_TableFill;
  row_heap 248 (208, 0) W_RefNull;
  row_none 249 (209, 0) W_RefIsNull;
  row_u32 250 (210, 0) W_RefFunc;
  row_none 251 (253, 14) W_I8x16Swizzle;
  row_shuffle 252 (253, 13) W_I8x16Shuffle;
  row_none 253 (253, 15) W_I8x16Splat;
  row_lane 254 (253, 21) W_I8x16ExtractLaneS;
  row_lane 255 (253, 22) W_I8x16ExtractLaneU;
  row_lane 256 (253, 23) W_I8x16ReplaceLane;
  row_none 257 (253, 16) W_I16x8Splat;
  row_lane 258 (253, 24) W_I16x8ExtractLaneS;
  row_lane 259 (253, 25) W_I16x8ExtractLaneU;
  row_lane 260 (253, 26) W_I16x8ReplaceLane;
  row_none 261 (253, 17) W_I32x4Splat;
  row_lane 262 (253, 27) W_I32x4ExtractLane;
  row_lane 263 (253, 28) W_I32x4ReplaceLane;
  row_none 264 (253, 18) W_I64x2Splat;
  row_lane 265 (253, 29) W_I64x2ExtractLane;
  row_lane 266 (253, 30) W_I64x2ReplaceLane;
  row_none 267 (253, 19) W_F32x4Splat;
  row_lane 268 (253, 31) W_F32x4ExtractLane;
  row_lane 269 (253, 32) W_F32x4ReplaceLane;
  row_none 270 (253, 20) W_F64x2Splat;
  row_lane 271 (253, 33) W_F64x2ExtractLane;
  row_lane 272 (253, 34) W_F64x2ReplaceLane;
  row_none 273 (253, 35) W_I8x16Eq;
  row_none 274 (253, 36) W_I8x16Ne;
  row_none 275 (253, 37) W_I8x16LtS;
  row_none 276 (253, 38) W_I8x16LtU;
  row_none 277 (253, 39) W_I8x16GtS;
  row_none 278 (253, 40) W_I8x16GtU;
  row_none 279 (253, 41) W_I8x16LeS;
  row_none 280 (253, 42) W_I8x16LeU;
  row_none 281 (253, 43) W_I8x16GeS;
  row_none 282 (253, 44) W_I8x16GeU;
  row_none 283 (253, 45) W_I16x8Eq;
  row_none 284 (253, 46) W_I16x8Ne;
  row_none 285 (253, 47) W_I16x8LtS;
  row_none 286 (253, 48) W_I16x8LtU;
  row_none 287 (253, 49) W_I16x8GtS;
  row_none 288 (253, 50) W_I16x8GtU;
  row_none 289 (253, 51) W_I16x8LeS;
  row_none 290 (253, 52) W_I16x8LeU;
  row_none 291 (253, 53) W_I16x8GeS;
  row_none 292 (253, 54) W_I16x8GeU;
  row_none 293 (253, 55) W_I32x4Eq;
  row_none 294 (253, 56) W_I32x4Ne;
  row_none 295 (253, 57) W_I32x4LtS;
  row_none 296 (253, 58) W_I32x4LtU;
  row_none 297 (253, 59) W_I32x4GtS;
  row_none 298 (253, 60) W_I32x4GtU;
  row_none 299 (253, 61) W_I32x4LeS;
  row_none 300 (253, 62) W_I32x4LeU;
  row_none 301 (253, 63) W_I32x4GeS;
  row_none 302 (253, 64) W_I32x4GeU;
  row_none 303 (253, 214) W_I64x2Eq;
  row_none 304 (253, 215) W_I64x2Ne;
  row_none 305 (253, 216) W_I64x2LtS;
  row_none 306 (253, 217) W_I64x2GtS;
  row_none 307 (253, 218) W_I64x2LeS;
  row_none 308 (253, 219) W_I64x2GeS;
  row_none 309 (253, 65) W_F32x4Eq;
  row_none 310 (253, 66) W_F32x4Ne;
  row_none 311 (253, 67) W_F32x4Lt;
  row_none 312 (253, 68) W_F32x4Gt;
  row_none 313 (253, 69) W_F32x4Le;
  row_none 314 (253, 70) W_F32x4Ge;
  row_none 315 (253, 71) W_F64x2Eq;
  row_none 316 (253, 72) W_F64x2Ne;
  row_none 317 (253, 73) W_F64x2Lt;
  row_none 318 (253, 74) W_F64x2Gt;
  row_none 319 (253, 75) W_F64x2Le;
  row_none 320 (253, 76) W_F64x2Ge;
  row_none 321 (253, 77) W_V128Not;
  row_none 322 (253, 83) W_V128AnyTrue;
  row_none 323 (253, 78) W_V128And;
  row_none 324 (253, 79) W_V128AndNot;
  row_none 325 (253, 80) W_V128Or;
  row_none 326 (253, 81) W_V128Xor;
  row_none 327 (253, 82) W_V128Bitselect;
  row_none 328 (253, 96) W_I8x16Abs;
  row_none 329 (253, 98) W_I8x16Popcnt;
  row_none 330 (253, 97) W_I8x16Neg;
  row_none 331 (253, 99) W_I8x16AllTrue;
  row_none 332 (253, 107) W_I8x16Shl;
  row_none 333 (253, 108) W_I8x16ShrS;
  row_none 334 (253, 109) W_I8x16ShrU;
  row_none 335 (253, 110) W_I8x16Add;
  row_none 336 (253, 111) W_I8x16AddSatS;
  row_none 337 (253, 112) W_I8x16AddSatU;
  row_none 338 (253, 113) W_I8x16Sub;
  row_none 339 (253, 114) W_I8x16SubSatS;
  row_none 340 (253, 115) W_I8x16SubSatU;
  row_none 341 (253, 128) W_I16x8Abs;
  row_none 342 (253, 129) W_I16x8Neg;
  row_none 343 (253, 131) W_I16x8AllTrue;
  row_none 344 (253, 139) W_I16x8Shl;
  row_none 345 (253, 140) W_I16x8ShrS;
  row_none 346 (253, 141) W_I16x8ShrU;
  row_none 347 (253, 142) W_I16x8Add;
  row_none 348 (253, 143) W_I16x8AddSatS;
  row_none 349 (253, 144) W_I16x8AddSatU;
  row_none 350 (253, 145) W_I16x8Sub;
  row_none 351 (253, 146) W_I16x8SubSatS;
  row_none 352 (253, 147) W_I16x8SubSatU;
  row_none 353 (253, 149) W_I16x8Mul;
  row_none 354 (253, 160) W_I32x4Abs;
  row_none 355 (253, 161) W_I32x4Neg;
  row_none 356 (253, 163) W_I32x4AllTrue;
  row_none 357 (253, 171) W_I32x4Shl;
  row_none 358 (253, 172) W_I32x4ShrS;
  row_none 359 (253, 173) W_I32x4ShrU;
  row_none 360 (253, 174) W_I32x4Add;
  row_none 361 (253, 177) W_I32x4Sub;
  row_none 362 (253, 181) W_I32x4Mul;
  row_none 363 (253, 192) W_I64x2Abs;
  row_none 364 (253, 195) W_I64x2AllTrue;
  row_none 365 (253, 193) W_I64x2Neg;
  row_none 366 (253, 203) W_I64x2Shl;
  row_none 367 (253, 204) W_I64x2ShrS;
  row_none 368 (253, 205) W_I64x2ShrU;
  row_none 369 (253, 206) W_I64x2Add;
  row_none 370 (253, 209) W_I64x2Sub;
  row_none 371 (253, 213) W_I64x2Mul;
  row_none 372 (253, 224) W_F32x4Abs;
  row_none 373 (253, 225) W_F32x4Neg;
  row_none 374 (253, 227) W_F32x4Sqrt;
  row_none 375 (253, 228) W_F32x4Add;
  row_none 376 (253, 229) W_F32x4Sub;
  row_none 377 (253, 230) W_F32x4Mul;
  row_none 378 (253, 231) W_F32x4Div;
  row_none 379 (253, 232) W_F32x4Min;
  row_none 380 (253, 233) W_F32x4Max;
  row_none 381 (253, 103) W_F32x4Ceil;
  row_none 382 (253, 104) W_F32x4Floor;
  row_none 383 (253, 105) W_F32x4Trunc;
  row_none 384 (253, 106) W_F32x4Nearest;
  row_none 385 (253, 234) W_F32x4PMin;
  row_none 386 (253, 235) W_F32x4PMax;
  row_none 387 (253, 124) W_I16x8ExtAddPairwiseI8x16S;
  row_none 388 (253, 125) W_I16x8ExtAddPairwiseI8x16U;
  row_none 389 (253, 126) W_I32x4ExtAddPairwiseI16x8S;
  row_none 390 (253, 127) W_I32x4ExtAddPairwiseI16x8U;
  row_none 391 (253, 199) W_I64x2ExtendLowI32x4S;
  row_none 392 (253, 200) W_I64x2ExtendHighI32x4S;
  row_none 393 (253, 201) W_I64x2ExtendLowI32x4U;
  row_none 394 (253, 202) W_I64x2ExtendHighI32x4U;
  row_none 395 (253, 252) W_I32x4TruncSatF64x2SZero;
  row_none 396 (253, 253) W_I32x4TruncSatF64x2UZero;
  row_none 397 (253, 254) W_F64x2ConvertLowI32x4S;
  row_none 398 (253, 255) W_F64x2ConvertLowI32x4U;
  row_none 399 (253, 94) W_F32x4DemoteF64x2Zero;
  row_none 400 (253, 95) W_F64x2PromoteLowF32x4;
  row_none 401 (253, 130) W_I16x8Q15MulrSatS;
  row_none 402 (253, 156) W_I16x8ExtMulLowI8x16S;
  row_none 403 (253, 157) W_I16x8ExtMulHighI8x16S;
  row_none 404 (253, 158) W_I16x8ExtMulLowI8x16U;
  row_none 405 (253, 159) W_I16x8ExtMulHighI8x16U;
  row_none 406 (253, 188) W_I32x4ExtMulLowI16x8S;
  row_none 407 (253, 189) W_I32x4ExtMulHighI16x8S;
  row_none 408 (253, 190) W_I32x4ExtMulLowI16x8U;
  row_none 409 (253, 191) W_I32x4ExtMulHighI16x8U;
  row_none 410 (253, 220) W_I64x2ExtMulLowI32x4S;
  row_none 411 (253, 221) W_I64x2ExtMulHighI32x4S;
  row_none 412 (253, 222) W_I64x2ExtMulLowI32x4U;
  row_none 413 (253, 223) W_I64x2ExtMulHighI32x4U;
  row_none 414 (253, 236) W_F64x2Abs;
  row_none 415 (253, 237) W_F64x2Neg;
  row_none 416 (253, 239) W_F64x2Sqrt;
  row_none 417 (253, 240) W_F64x2Add;
  row_none 418 (253, 241) W_F64x2Sub;
  row_none 419 (253, 242) W_F64x2Mul;
  row_none 420 (253, 243) W_F64x2Div;
  row_none 421 (253, 244) W_F64x2Min;
  row_none 422 (253, 245) W_F64x2Max;
  row_none 423 (253, 116) W_F64x2Ceil;
  row_none 424 (253, 117) W_F64x2Floor;
  row_none 425 (253, 122) W_F64x2Trunc;
  row_none 426 (253, 148) W_F64x2Nearest;
  row_none 427 (253, 246) W_F64x2PMin;
  row_none 428 (253, 247) W_F64x2PMax;
  row_none 429 (253, 248) W_I32x4TruncSatF32x4S;
  row_none 430 (253, 249) W_I32x4TruncSatF32x4U;
  row_none 431 (253, 250) W_F32x4ConvertI32x4S;
  row_none 432 (253, 251) W_F32x4ConvertI32x4U;
  row_none 433 (252, 0) W_I32TruncSatF32S;
  row_none 434 (252, 1) W_I32TruncSatF32U;
  row_none 435 (252, 2) W_I32TruncSatF64S;
  row_none 436 (252, 3) W_I32TruncSatF64U;
  row_none 437 (252, 4) W_I64TruncSatF32S;
  row_none 438 (252, 5) W_I64TruncSatF32U;
  row_none 439 (252, 6) W_I64TruncSatF64S;
  row_none 440 (252, 7) W_I64TruncSatF64U;
  row_mem 441 (253, 7) W_V128Load8Splat;
  row_mem 442 (253, 8) W_V128Load16Splat;
  row_mem 443 (253, 9) W_V128Load32Splat;
  row_mem 444 (253, 10) W_V128Load64Splat;
  row_mem 445 (253, 92) W_V128Load32Zero;
  row_mem 446 (253, 93) W_V128Load64Zero;
  row_memlane 447 (253, 84) W_V128Load8Lane;
  row_memlane 448 (253, 85) W_V128Load16Lane;
  row_memlane 449 (253, 86) W_V128Load32Lane;
  row_memlane 450 (253, 87) W_V128Load64Lane;
  row_memlane 451 (253, 88) W_V128Store8Lane;
  row_memlane 452 (253, 89) W_V128Store16Lane;
  row_memlane 453 (253, 90) W_V128Store32Lane;
  row_memlane 454 (253, 91) W_V128Store64Lane;
  row_none 455 (253, 101) W_I8x16NarrowI16x8S;
  row_none 456 (253, 102) W_I8x16NarrowI16x8U;
  row_none 457 (253, 133) W_I16x8NarrowI32x4S;
  row_none 458 (253, 134) W_I16x8NarrowI32x4U;
  row_none 459 (253, 135) W_I16x8ExtendLowI8x16S;
  row_none 460 (253, 137) W_I16x8ExtendLowI8x16U;
  row_none 461 (253, 136) W_I16x8ExtendHighI8x16S;
  row_none 462 (253, 138) W_I16x8ExtendHighI8x16U;
  row_none 463 (253, 167) W_I32x4ExtendLowI16x8S;
  row_none 464 (253, 169) W_I32x4ExtendLowI16x8U;
  row_none 465 (253, 168) W_I32x4ExtendHighI16x8S;
  row_none 466 (253, 170) W_I32x4ExtendHighI16x8U;
  row_mem 467 (253, 1) W_V128Load8x8S;
  row_mem 468 (253, 2) W_V128Load8x8U;
  row_mem 469 (253, 3) W_V128Load16x4S;
  row_mem 470 (253, 4) W_V128Load16x4U;
  row_mem 471 (253, 5) W_V128Load32x2S;
  row_mem 472 (253, 6) W_V128Load32x2U;
  row_none 473 (253, 123) W_I8x16AvgrU;
  row_none 474 (253, 155) W_I16x8AvgrU;
  row_none 475 (253, 118) W_I8x16MinS;
  row_none 476 (253, 119) W_I8x16MinU;
  row_none 477 (253, 120) W_I8x16MaxS;
  row_none 478 (253, 121) W_I8x16MaxU;
  row_none 479 (253, 150) W_I16x8MinS;
  row_none 480 (253, 151) W_I16x8MinU;
  row_none 481 (253, 152) W_I16x8MaxS;
  row_none 482 (253, 153) W_I16x8MaxU;
  row_none 483 (253, 182) W_I32x4MinS;
  row_none 484 (253, 183) W_I32x4MinU;
  row_none 485 (253, 184) W_I32x4MaxS;
  row_none 486 (253, 185) W_I32x4MaxU;
  row_none 487 (253, 100) W_I8x16Bitmask;
  row_none 488 (253, 132) W_I16x8Bitmask;
  row_none 489 (253, 164) W_I32x4Bitmask;
  row_none 490 (253, 196) W_I64x2Bitmask;
  row_none 491 (253, 186) W_I32x4DotI16x8S;
  row_u32x2 492 (252, 14) W_TableCopy;
  row_u32x2 493 (252, 12) W_TableInit;
  row_u32 494 (252, 13) W_ElemDrop;
  row_u32 495 (18, 0) W_ReturnCall;
  row_u32x2 496 (19, 0) W_ReturnCallIndirect;
  row_none 497 (253, 256) W_I8x16RelaxedSwizzle;
  row_none 498 (253, 257) W_I32x4RelaxedTruncF32x4S;
  row_none 499 (253, 258) W_I32x4RelaxedTruncF32x4U;
  row_none 500 (253, 259) W_I32x4RelaxedTruncF64x2SZero;
  row_none 501 (253, 260) W_I32x4RelaxedTruncF64x2UZero;
  row_none 502 (253, 261) W_F32x4RelaxedMadd;
  row_none 503 (253, 262) W_F32x4RelaxedNmadd;
  row_none 504 (253, 263) W_F64x2RelaxedMadd;
  row_none 505 (253, 264) W_F64x2RelaxedNmadd;
  row_none 506 (253, 265) W_I8x16RelaxedLaneselect;
  row_none 507 (253, 266) W_I16x8RelaxedLaneselect;
  row_none 508 (253, 267) W_I32x4RelaxedLaneselect;
  row_none 509 (253, 268) W_I64x2RelaxedLaneselect;
  row_none 510 (253, 269) W_F32x4RelaxedMin;
  row_none 511 (253, 270) W_F32x4RelaxedMax;
  row_none 512 (253, 271) W_F64x2RelaxedMin;
  row_none 513 (253, 272) W_F64x2RelaxedMax;
  row_none 514 (253, 273) W_I16x8RelaxedQ15mulrS;
  row_none 515 (253, 274) W_I16x8RelaxedDotI8x16I7x16S;
  row_none 516 (253, 275) W_I32x4RelaxedDotI8x16I7x16AddS
].

Definition find_tag (k : N) : option oprow := find (fun r => r_tag r =? k) optable.
Definition find_key (k : N * N) : option oprow := find (fun r => key_eqb (r_key r) k) optable.

(* the operators the table knows *)
Definition covered (o : wop) : bool := match find_tag (fst (op_split o)) with Some _ => true | None => false end.
Definition wf_op (o : wop) : bool := wf_i (snd (op_split o)).

(* the operators without immediates, with their bytes (for inspection; [enc_op] goes through [optable]) *)
Definition simple_ops : list (wop * list N) :=
  flat_map (fun r => match r_shape r, r_mk r I_none with Sh_none, Some o => [(o, enc_key (r_key r))] | _, _ => [] end) optable.

Definition enc_op (o : wop) : option (list N) :=
  match find_tag (fst (op_split o)) with
  | Some row => match enc_imm (snd (op_split o)) with Some bs => Some (enc_key (r_key row) ++ bs) | None => None end
  | None => None
  end.
Definition dec_op (bs : list N) : option (wop * list N) :=
  match dec_key bs with
  | Some (key, r) =>
      match find_key key with
      | Some row =>
          match dec_imm (r_shape row) r with
          | Some (i, r') => match r_mk row i with Some o => Some (o, r') | None => None end
          | None => None
          end
      | None => None
      end
  | None => None
  end.

(* ------------------------------------------------------------------ instructions *)
Definition enc_ins (i : wins) : option (list N) :=
  match i with
  | WOp o => enc_op o
  | WBlock bt => Some (2 :: enc_blockty bt)
  | WLoop bt => Some (3 :: enc_blockty bt)
  | WIf bt => Some (4 :: enc_blockty bt)
  | WElse => Some [5]
  | WEnd => Some [11]
  | WBr d => Some (12 :: enc_u d)
  | WBrIf d => Some (13 :: enc_u d)
  | WBrTable ds d => Some (14 :: enc_u (lenB ds) ++ flat_map enc_u ds ++ enc_u d)
  | WNop => Some [1]
  end.
Fixpoint dec_u_list (k : nat) (bs : list N) : option (list N * list N) :=
  match k with
  | O => Some ([], bs)
  | S k' => match dec_u bs with
            | Some (x, r) => match dec_u_list k' r with Some (l, r') => Some (x :: l, r') | None => None end
            | None => None
            end
  end.
Definition is_ctl (b : N) : bool :=
  (b =? 1) || (b =? 2) || (b =? 3) || (b =? 4) || (b =? 5) || (b =? 11) || (b =? 12) || (b =? 13) || (b =? 14).
Definition dec_ins (bs : list N) : option (wins * list N) :=
  match bs with
  | [] => None
  | b :: r =>
      if b =? 1 then Some (WNop, r)
      else if b =? 2 then match dec_blockty r with Some (bt, r') => Some (WBlock bt, r') | None => None end
      else if b =? 3 then match dec_blockty r with Some (bt, r') => Some (WLoop bt, r') | None => None end
      else if b =? 4 then match dec_blockty r with Some (bt, r') => Some (WIf bt, r') | None => None end
      else if b =? 5 then Some (WElse, r)
      else if b =? 11 then Some (WEnd, r)
      else if b =? 12 then match dec_u r with Some (d, r') => Some (WBr d, r') | None => None end
      else if b =? 13 then match dec_u r with Some (d, r') => Some (WBrIf d, r') | None => None end
      else if b =? 14 then
        match dec_u r with
        | Some (k, r1) =>
            match dec_u_list (N.to_nat k) r1 with
            | Some (ds, r2) => match dec_u r2 with Some (d, r') => Some (WBrTable ds d, r') | None => None end
            | None => None
            end
        | None => None
        end
      else match dec_op bs with Some (o, r') => Some (WOp o, r') | None => None end
  end.

Definition wf_blockty (b : blockty) : bool := match b with BT_Func i => u32_ok i | _ => true end.
Definition wf_imm (i : wins) : bool :=
  match i with
  | WOp o => wf_op o
  | WBlock bt | WLoop bt | WIf bt => wf_blockty bt
  | WBr d | WBrIf d => u32_ok d
  | WBrTable ds d => forallb u32_ok ds && u32_ok d && u32_ok (lenB ds)
  | _ => true
  end.

Definition ilen_model (i : wins) : option N := match enc_ins i with Some bs => Some (lenB bs) | None => None end.

(* ------------------------------------------------------------------ bodies *)
Fixpoint enc_inss (ops : list wins) : option (list N) :=
  match ops with
  | [] => Some []
  | i :: r => match enc_ins i, enc_inss r with Some a, Some b => Some (a ++ b) | _, _ => None end
  end.
Definition enc_local (p : N * valty) : list N := enc_u (fst p) ++ [valty_byte (snd p)].
Definition enc_locals (l : list (N * valty)) : list N := enc_u (lenB l) ++ flat_map enc_local l.
Definition enc_body (locals : list (N * valty)) (ops : list wins) : option (list N) :=
  match enc_inss ops with Some bs => Some (enc_locals locals ++ bs) | None => None end.
(* ranges of a whole body: group counts and the number of groups are u32, every instruction's immediates are in range *)
Definition wf_local (p : N * valty) : bool := u32_ok (fst p).
Definition wf_body (locals : list (N * valty)) (ops : list wins) : bool :=
  forallb wf_local locals && u32_ok (lenB locals) && forallb wf_imm ops.

Fixpoint dec_local_groups (k : nat) (bs : list N) : option (list (N * valty) * list N) :=
  match k with
  | O => Some ([], bs)
  | S k' => match dec_u bs with
            | Some (n, b :: r) =>
                match valty_of_byte b with
                | Some t => match dec_local_groups k' r with Some (l, r') => Some ((n, t) :: l, r') | None => None end
                | None => None
                end
            | _ => None
            end
  end.
Definition dec_locals (bs : list N) : option (list (N * valty) * list N) :=
  match dec_u bs with Some (k, r) => dec_local_groups (N.to_nat k) r | None => None end.
(* the operators reader runs until the bytes of the body are used up *)
Fixpoint dec_inss (fuel : nat) (bs : list N) : option (list wins) :=
  match bs with
  | [] => Some []
  | _ :: _ =>
      match fuel with
      | O => None
      | S f => match dec_ins bs with
               | Some (i, r) => match dec_inss f r with Some l => Some (i :: l) | None => None end
               | None => None
               end
      end
  end.
Definition dec_body (fuel : nat) (bs : list N) : option (list (N * valty) * list wins) :=
  match dec_locals bs with
  | Some (ls, r) => match dec_inss fuel r with Some ops => Some (ls, ops) | None => None end
  | None => None
  end.

(* the reader with positions: every instruction together with the offset (relative to the start of the body) at which it was
   read - what wasmparser's original_position() gives and walrus turns into InstrLocIds.  Works for padded input too. *)
Fixpoint dec_inss_at (fuel : nat) (cur : N) (bs : list N) : option (list (wins * N)) :=
  match bs with
  | [] => Some []
  | _ :: _ =>
      match fuel with
      | O => None
      | S f => match dec_ins bs with
               | Some (i, r) => match dec_inss_at f (cur + (lenB bs - lenB r)) r with Some l => Some ((i, cur) :: l) | None => None end
               | None => None
               end
      end
  end.
Definition dec_body_at (fuel : nat) (bs : list N) : option (list (N * valty) * list (wins * N)) :=
  match dec_locals bs with
  | Some (ls, r) => match dec_inss_at fuel (lenB bs - lenB r) r with Some ops => Some (ls, ops) | None => None end
  | None => None
  end.

(* where every instruction of a body starts, relative to the start of the body (what the harness reads off wasmparser) *)
Fixpoint ins_offsets (cur : N) (ops : list wins) : option (list N) :=
  match ops with
  | [] => Some []
  | i :: r => match ilen_model i with
              | Some n => match ins_offsets (cur + n) r with Some l => Some (cur :: l) | None => None end
              | None => None
              end
  end.

(* ------------------------------------------------------------------ the code section: bodies inside the framing of Model/Frame.v *)
Definition fbody : Type := list (N * valty) * list wins.
Fixpoint enc_bodies (bodies : list fbody) : option (list (list N)) :=
  match bodies with
  | [] => Some []
  | b :: r => match enc_body (fst b) (snd b), enc_bodies r with Some x, Some l => Some (x :: l) | _, _ => None end
  end.
Definition enc_code (bodies : list fbody) : option (list N) :=
  match enc_bodies bodies with Some l => Some (code_payload l) | None => None end.
Fixpoint dec_bodies (bs : list (list N)) : option (list fbody) :=
  match bs with
  | [] => Some []
  | b :: r => match dec_body (length b) b, dec_bodies r with Some x, Some l => Some (x :: l) | _, _ => None end
  end.
Definition dec_code (payload : list N) : option (list fbody) :=
  match split_code payload with Some l => dec_bodies l | None => None end.
