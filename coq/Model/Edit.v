(* Executable model of Module::replace_imported_func and Module::replace_exported_func
   (src/module/functions/mod.rs). The replacement body is a builder program (Model/Builder.v)
   that may mention the argument locals. *)
From Coq Require Import List NArith ZArith Bool. Import ListNotations.
From WV Require Import Gen.Ops Model.Common Model.IR Model.Arena Model.Builder Model.ModuleM Model.ParseM Model.GC.
Open Scope N_scope.

(* FunctionBuilder::new: types.add(params, results) then add_entry_ty(results) *)
Definition builder_new (m : wir) (ps rs : list valty) : wir * N * N :=
  let '(m1, ty) := types_insert m {| ty_params := ps; ty_results := rs; ty_entry := false; ty_name := None |} in
  let '(m2, ety) := types_insert m1 {| ty_params := []; ty_results := rs; ty_entry := true; ty_name := None |} in
  (m2, ty, ety).

Fixpoint add_arg_locals (m : wir) (tys : list valty) : wir * list N :=
  match tys with
  | [] => (m, [])
  | t :: r => let '(la, lid) := aalloc (m_locals m) {| lo_ty := t; lo_name := None |} in
              let '(m1, rest) := add_arg_locals (set_locals m la) r in (m1, lid :: rest)
  end.

(* imports.get_imported_func(fid): first live import of that function *)
Definition imported_func_import (m : wir) (fid : N) : option N :=
  match find (fun p => match im_kind (snd p) with MI_Func f => N.eqb f fid | _ => false end) (aiter (m_imports m)) with
  | Some p => Some (fst p) | None => None end.

Definition replace_imported_func (m : wir) (fid : N) (body : list N -> list bop) : pres wir :=
  iid <-- of_opt_err (imported_func_import m fid) ;;
  f <-- of_opt_panic (aget (m_funcs m) fid) ;;
  match fn_kind f with
  | FK_Import _ tid =>
      t <-- of_opt_panic (types_get m tid) ;;
      let '(m1, args) := add_arg_locals m (ty_params t) in
      let '(m2, ty, ety) := builder_new m1 (ty_params t) (ty_results t) in
      match run_builder ety (body args) with
      | Ok ar =>
          let lf := {| lf_ty := ty; lf_args := args; lf_arena := ar; lf_entry := 0; lf_orig_range := None; lf_instr_mapping := [] |} in
          let m3 := set_funcs m2 (aset_at (m_funcs m2) fid (fun f => {| fn_kind := FK_Local lf; fn_name := fn_name f |})) in
          ia <-- of_opt_panic (adelete (m_imports m3) iid) ;;
          POk (set_imports m3 ia)
      | _ => PPanic
      end
  | _ => PErr
  end.

(* exports.get_exported_func(fid): first live export of that function *)
Definition exported_func_export (m : wir) (fid : N) : option N :=
  match find (fun p => match ex_kind (snd p) with EK_Func => N.eqb (ex_item (snd p)) fid | _ => false end) (aiter (m_exports m)) with
  | Some p => Some (fst p) | None => None end.

Definition replace_exported_func_core (m : wir) (fid : N) (body : list N -> list bop) : pres (wir * N) :=
  eid <-- of_opt_err (exported_func_export m fid) ;;
  f <-- of_opt_panic (aget (m_funcs m) fid) ;;
  match fn_kind f with
  | FK_Local lf0 =>
      t <-- of_opt_panic (types_get m (lf_ty lf0)) ;;
      let '(m2, ty, ety) := builder_new m (ty_params t) (ty_results t) in
      match run_builder ety (body (lf_args lf0)) with
      | Ok ar =>
          let lf := {| lf_ty := ty; lf_args := lf_args lf0; lf_arena := ar; lf_entry := 0; lf_orig_range := None; lf_instr_mapping := [] |} in
          let '(fa, nid) := aalloc (m_funcs m2) {| fn_kind := FK_Local lf; fn_name := None |} in   (* add_local: name = builder.name = None *)
          let m3 := set_funcs m2 fa in
          _ <-- of_opt_panic (aget (m_exports m3) eid) ;;
          POk (set_exports m3 (aset_at (m_exports m3) eid (fun e => {| ex_name := ex_name e; ex_kind := ex_kind e; ex_item := nid |})), nid)
      | _ => PPanic
      end
  | _ => PErr
  end.

(* ... and, last, `passes::gc::declare_referenced_funcs`: the retargeted export may have been the only thing that declared the original
   function for `ref.func` instructions elsewhere; the functions left undeclared get one new declared element segment *)
Definition replace_exported_func (m : wir) (fid : N) (body : list N -> list bop) : pres (wir * N) :=
  match replace_exported_func_core m fid body with
  | POk (m', nid) => match declare_referenced_funcs m' with Ok m'' => POk (m'', nid) | _ => PPanic end
  | PErr => PErr
  | PPanic => PPanic
  end.
