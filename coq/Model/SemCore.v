(* A CONCRETE operator semantics for the integer core of WebAssembly WITH ONE LINEAR MEMORY, instantiating
   the abstract big-step semantics of Model/Sem.v.  Definitions only, executable.
   Values are bit patterns (i32: < 2^32, i64: < 2^64); all arithmetic wraps, written out explicitly.
   Locals / globals live in association lists keyed by SLOT; an operator reaches its slot through
   [lslot index] / [gslot index], so that a renumbering of the index spaces is visible (and
   compensated by a renumbered slot map) rather than assumed away.  The same for the memory index of
   a memory operator ([mslot]): the machine has ONE 32-bit memory, reached iff [mslot index = 0].
   Memory is a sparse byte map (address -> byte, absent = 0) with a current and a maximal size in pages.
   Total: a stack underflow, a type mismatch, an unbound or ill-typed slot, the wrong memory slot or any operator
   outside the core is [Halt Wrong] (state unchanged) - GOING WRONG, which no validated body does
   (Proofs/TypeSafety.v); [Halt Trap] is kept for the genuine WebAssembly traps: unreachable, division by zero,
   overflow of div_s, out-of-bounds access. *)
From Coq Require Import List NArith ZArith Bool. Import ListNotations.
From WV Require Import Gen.Ops Model.Common Model.IR Model.ParseFn Model.ParseSpec Model.EmitFn Model.BodySpec Model.Sem.
Open Scope N_scope.

Inductive val := VI32 (n : N) | VI64 (n : N).
Record st := { stk : list val (* top first *); locs : list (N * val) (* SLOT -> value *); globs : list (N * val);
               labs : list N (* label records, innermost first: the HEIGHT the operand stack had, below the
                                parameters, when the block / loop / if-arm was entered *);
               mem : list (N * N) (* THE memory: address -> byte, absent = 0; [mset] keeps the keys unique *);
               pages : N (* current size in 64 KiB pages *);
               max_pages : N (* memory.grow succeeds iff the new size is <= this *) }.
Inductive halt := Trap | Return | Wrong.   (* Wrong: a failure no validated program reaches *)

(* ------------------------------------------------------------------ bit-pattern arithmetic *)
Definition m32 : N := 4294967296.               (* 2^32 *)
Definition m64 : N := 18446744073709551616.     (* 2^64 *)
Definition h32 : N := 2147483648.               (* 2^31 *)
Definition wrap32 (n : N) : N := n mod m32.
Definition wrap64 (n : N) : N := n mod m64.
(* the immediate of a const is a signed integer: two's complement bit pattern *)
Definition z32 (z : Z) : N := Z.to_N (z mod 4294967296)%Z.
Definition z64 (z : Z) : N := Z.to_N (z mod 18446744073709551616)%Z.
Definition b2n (b : bool) : N := if b then 1 else 0.

Definition add32 a b := (a + b) mod m32.
Definition sub32 a b := (a + (m32 - b mod m32)) mod m32.
Definition mul32 a b := (a * b) mod m32.
Definition add64 a b := (a + b) mod m64.
Definition sub64 a b := (a + (m64 - b mod m64)) mod m64.
Definition mul64 a b := (a * b) mod m64.
(* signed comparison: flip the sign bit, compare unsigned *)
Definition lts32 a b := ((a + h32) mod m32) <? ((b + h32) mod m32).
Definition shl32 a b := (a * 2 ^ (b mod 32)) mod m32.
Definition shru32 a b := a / 2 ^ (b mod 32).

Definition h64 : N := 9223372036854775808.      (* 2^63 *)
Definition lts64 a b := ((a + h64) mod m64) <? ((b + h64) mod m64).
Definition shl64 a b := (a * 2 ^ (b mod 64)) mod m64.
Definition shru64 a b := a / 2 ^ (b mod 64).
(* the signed reading of a bit pattern *)
Definition sgn32 (a : N) : Z := if a <? h32 then Z.of_N a else (Z.of_N a - 4294967296)%Z.
Definition sgn64 (a : N) : Z := if a <? h64 then Z.of_N a else (Z.of_N a - 18446744073709551616)%Z.
(* signed division truncates towards zero ([Z.quot]); the remainder has the sign of the dividend ([Z.rem]),
   so INT_MIN rem -1 = 0 without a special case; INT_MIN / -1 is handled (trap) by the caller *)
Definition divs32 a b := z32 (Z.quot (sgn32 a) (sgn32 b)).
Definition rems32 a b := z32 (Z.rem (sgn32 a) (sgn32 b)).
Definition divs64 a b := z64 (Z.quot (sgn64 a) (sgn64 b)).
Definition rems64 a b := z64 (Z.rem (sgn64 a) (sgn64 b)).
(* arithmetic shift right: floor division of the signed reading ([Z.shiftr] rounds towards minus infinity) *)
Definition shrs32 a b := z32 (Z.shiftr (sgn32 a) (Z.of_N (b mod 32))).
Definition shrs64 a b := z64 (Z.shiftr (sgn64 a) (Z.of_N (b mod 64))).
(* rotations: the count is taken modulo the width; the two halves occupy disjoint bits *)
Definition rotl32 a b := N.lor ((a * 2 ^ (b mod 32)) mod m32) (a / 2 ^ (32 - b mod 32)).
Definition rotr32 a b := N.lor (a / 2 ^ (b mod 32)) ((a * 2 ^ (32 - b mod 32)) mod m32).
Definition rotl64 a b := N.lor ((a * 2 ^ (b mod 64)) mod m64) (a / 2 ^ (64 - b mod 64)).
Definition rotr64 a b := N.lor (a / 2 ^ (b mod 64)) ((a * 2 ^ (64 - b mod 64)) mod m64).
(* bit counting ([N.size 0 = 0], [N.size n] = position of the highest set bit + 1): clz 0 = width, ctz 0 = width *)
Definition clz (w : N) (a : N) : N := w - N.size a.
Fixpoint ctz_pos (p : positive) : N := match p with xO q => 1 + ctz_pos q | _ => 0 end.
Definition ctz (w : N) (a : N) : N := match a with 0 => w | Npos p => ctz_pos p end.
Fixpoint pop_pos (p : positive) : N := match p with xH => 1 | xO q => pop_pos q | xI q => 1 + pop_pos q end.
Definition popcnt (a : N) : N := match a with 0 => 0 | Npos p => pop_pos p end.
(* sign extension of the low [2^bits = lo] part into a pattern modulo [md] (half = lo / 2) *)
Definition sext (lo md : N) (a : N) : N := let x := a mod lo in if x <? lo / 2 then x else x + (md - lo).

(* ------------------------------------------------------------------ linear memory *)
Definition page_size : N := 65536.
Fixpoint mget (a : N) (m : list (N * N)) : N :=
  match m with [] => 0 | (a', b) :: m' => if a =? a' then b mod 256 else mget a m' end.
(* overwrite the first binding of [a], or add one at the end: keys stay unique *)
Fixpoint mset (a b : N) (m : list (N * N)) : list (N * N) :=
  match m with
  | [] => [(a, b)]
  | (a', b') :: m' => if a =? a' then (a, b) :: m' else (a', b') :: mset a b m'
  end.
(* little-endian: the byte at the lowest address is the least significant *)
Fixpoint load_bytes (n : nat) (a : N) (m : list (N * N)) : N :=
  match n with O => 0 | S k => mget a m + 256 * load_bytes k (a + 1) m end.
(* stores the [n] low bytes of [v] *)
Fixpoint store_bytes (n : nat) (a v : N) (m : list (N * N)) : list (N * N) :=
  match n with O => m | S k => store_bytes k (a + 1) (v / 256) (mset a (v mod 256) m) end.

(* ------------------------------------------------------------------ association lists *)
Fixpoint alookup (k : N) (l : list (N * val)) : option val :=
  match l with
  | [] => None
  | (k', v) :: l' => if k =? k' then Some v else alookup k l'
  end.
Definition same_ty (a b : val) : bool :=
  match a, b with VI32 _, VI32 _ => true | VI64 _, VI64 _ => true | _, _ => false end.
(* overwrite the first binding of [k], which must exist and hold a value of the same type *)
Fixpoint aset (k : N) (v : val) (l : list (N * val)) : option (list (N * val)) :=
  match l with
  | [] => None
  | (k', v') :: l' =>
      if k =? k' then (if same_ty v v' then Some ((k', v) :: l') else None)
      else match aset k v l' with Some r => Some ((k', v') :: r) | None => None end
  end.

(* ------------------------------------------------------------------ operator shapes *)
Definition with_stk (s : st) (k : list val) : st :=
  {| stk := k; locs := locs s; globs := globs s; labs := labs s; mem := mem s; pages := pages s; max_pages := max_pages s |}.
Definition with_locs (s : st) (k : list val) (l : list (N * val)) : st :=
  {| stk := k; locs := l; globs := globs s; labs := labs s; mem := mem s; pages := pages s; max_pages := max_pages s |}.
Definition with_globs (s : st) (k : list val) (g : list (N * val)) : st :=
  {| stk := k; locs := locs s; globs := g; labs := labs s; mem := mem s; pages := pages s; max_pages := max_pages s |}.
Definition with_mem (s : st) (k : list val) (m : list (N * N)) : st :=
  {| stk := k; locs := locs s; globs := globs s; labs := labs s; mem := m; pages := pages s; max_pages := max_pages s |}.
Definition with_pages (s : st) (k : list val) (p : N) : st :=
  {| stk := k; locs := locs s; globs := globs s; labs := labs s; mem := mem s; pages := p; max_pages := max_pages s |}.
Definition trap (s : st) : step st halt := Halt Trap s.     (* a genuine WebAssembly trap *)
Definition wrong (s : st) : step st halt := Halt Wrong s.   (* stack underflow, operand of the wrong type, unbound or ill-typed slot, wrong memory slot, operator outside the core *)
Definition push (v : val) (s : st) : step st halt := Next (with_stk s (v :: stk s)).

Definition bin32 (f : N -> N -> N) (s : st) : step st halt :=
  match stk s with
  | VI32 b :: VI32 a :: k => Next (with_stk s (VI32 (f a b) :: k))     (* b is the top = second operand *)
  | _ => wrong s
  end.
Definition bin64 (f : N -> N -> N) (s : st) : step st halt :=
  match stk s with
  | VI64 b :: VI64 a :: k => Next (with_stk s (VI64 (f a b) :: k))
  | _ => wrong s
  end.
(* division-like: traps when the divisor is zero *)
Definition div32 (f : N -> N -> N) (s : st) : step st halt :=
  match stk s with
  | VI32 b :: VI32 a :: k => if b =? 0 then trap s else Next (with_stk s (VI32 (f a b) :: k))
  | _ => wrong s
  end.

Definition div64 (f : N -> N -> N) (s : st) : step st halt :=
  match stk s with
  | VI64 b :: VI64 a :: k => if b =? 0 then trap s else Next (with_stk s (VI64 (f a b) :: k))
  | _ => wrong s
  end.
(* signed division: additionally traps on INT_MIN / -1 (the quotient is not representable) *)
Definition divs32_op (s : st) : step st halt :=
  match stk s with
  | VI32 b :: VI32 a :: k =>
      if b =? 0 then trap s else if (a =? h32) && (b =? m32 - 1) then trap s else Next (with_stk s (VI32 (divs32 a b) :: k))
  | _ => wrong s
  end.
Definition divs64_op (s : st) : step st halt :=
  match stk s with
  | VI64 b :: VI64 a :: k =>
      if b =? 0 then trap s else if (a =? h64) && (b =? m64 - 1) then trap s else Next (with_stk s (VI64 (divs64 a b) :: k))
  | _ => wrong s
  end.
Definition un32 (f : N -> N) (s : st) : step st halt :=
  match stk s with VI32 a :: k => Next (with_stk s (VI32 (f a) :: k)) | _ => wrong s end.
Definition un64 (f : N -> N) (s : st) : step st halt :=
  match stk s with VI64 a :: k => Next (with_stk s (VI64 (f a) :: k)) | _ => wrong s end.
(* i64 comparisons: two i64 in, an i32 out *)
Definition cmp64 (f : N -> N -> bool) (s : st) : step st halt :=
  match stk s with
  | VI64 b :: VI64 a :: k => Next (with_stk s (VI32 (b2n (f a b)) :: k))
  | _ => wrong s
  end.

(* ---- memory operators.  [mi] = the slot of the operator's memory index; [off] = the offset immediate.
   Effective address = address operand + offset, NOT wrapped (a 33-bit sum for a 32-bit offset);
   trap when [ea + width > pages * 65536].  The alignment immediate plays no role. *)
Definition in_bounds (s : st) (ea : N) (width : nat) : bool := ea + N.of_nat width <=? pages s * page_size.
Definition mem_load (mi off : N) (width : nat) (post : N -> val) (s : st) : step st halt :=
  if mi =? 0 then
    match stk s with
    | VI32 a :: k =>
        let ea := a + off in
        if in_bounds s ea width then Next (with_stk s (post (load_bytes width ea (mem s)) :: k)) else trap s
    | _ => wrong s
    end
  else wrong s.
(* [is64]: the type of the value operand (on top; the address is below it) *)
Definition mem_store (mi off : N) (width : nat) (is64 : bool) (s : st) : step st halt :=
  if mi =? 0 then
    match stk s with
    | v :: VI32 a :: k =>
        let ea := a + off in
        match v, is64 with
        | VI32 n, false | VI64 n, true =>
            if in_bounds s ea width then Next (with_mem s k (store_bytes width ea n (mem s))) else trap s
        | _, _ => wrong s
        end
    | _ => wrong s
    end
  else wrong s.
Definition mem_size (mi : N) (s : st) : step st halt :=
  if mi =? 0 then push (VI32 (pages s)) s else wrong s.
(* memory.grow: the old size, or -1 (and no change) when the new size would exceed [max_pages] *)
Definition mem_grow (mi : N) (s : st) : step st halt :=
  if mi =? 0 then
    match stk s with
    | VI32 d :: k =>
        if pages s + d <=? max_pages s then Next (with_pages s (VI32 (pages s) :: k) (pages s + d))
        else Next (with_stk s (VI32 (m32 - 1) :: k))
    | _ => wrong s
    end
  else wrong s.

Definition local_get (slot : N) (s : st) : step st halt :=
  match alookup slot (locs s) with Some v => push v s | None => wrong s end.
Definition local_set (slot : N) (s : st) : step st halt :=
  match stk s with
  | v :: k => match aset slot v (locs s) with
              | Some l' => Next (with_locs s k l')
              | None => wrong s
              end
  | [] => wrong s
  end.
Definition local_tee (slot : N) (s : st) : step st halt :=
  match stk s with
  | v :: k => match aset slot v (locs s) with
              | Some l' => Next (with_locs s (v :: k) l')
              | None => wrong s
              end
  | [] => wrong s
  end.
Definition global_get (slot : N) (s : st) : step st halt :=
  match alookup slot (globs s) with Some v => push v s | None => wrong s end.
Definition global_set (slot : N) (s : st) : step st halt :=
  match stk s with
  | v :: k => match aset slot v (globs s) with
              | Some g' => Next (with_globs s k g')
              | None => wrong s
              end
  | [] => wrong s
  end.

(* ------------------------------------------------------------------ the core *)
(* the operators the machine gives a meaning to (by constructor) *)
Definition is_core_shape (o : wop) : bool :=
  match o with
  | W_I32Const _ | W_I64Const _
  | W_I32Add | W_I32Sub | W_I32Mul | W_I32And | W_I32Or | W_I32Xor
  | W_I64Add | W_I64Sub | W_I64Mul | W_I64And | W_I64Or | W_I64Xor
  | W_I32Eqz | W_I32Eq | W_I32Ne | W_I32LtU | W_I32LtS
  | W_I32DivU | W_I32RemU | W_I32Shl | W_I32ShrU
  | W_I32WrapI64 | W_I64ExtendI32U
  | W_LocalGet _ | W_LocalSet _ | W_LocalTee _ | W_GlobalGet _ | W_GlobalSet _
  | W_Drop | W_Select | W_Return | W_Unreachable
  (* i32, second batch *)
  | W_I32Clz | W_I32Ctz | W_I32Popcnt | W_I32DivS | W_I32RemS | W_I32ShrS | W_I32Rotl | W_I32Rotr
  | W_I32LeS | W_I32LeU | W_I32GtS | W_I32GtU | W_I32GeS | W_I32GeU | W_I32Extend8S | W_I32Extend16S
  (* i64 *)
  | W_I64Eqz | W_I64Eq | W_I64Ne | W_I64LtS | W_I64LtU | W_I64LeS | W_I64LeU | W_I64GtS | W_I64GtU | W_I64GeS | W_I64GeU
  | W_I64DivS | W_I64DivU | W_I64RemS | W_I64RemU | W_I64Shl | W_I64ShrS | W_I64ShrU | W_I64Rotl | W_I64Rotr
  | W_I64Clz | W_I64Ctz | W_I64Popcnt | W_I64ExtendI32S | W_I64Extend8S | W_I64Extend16S | W_I64Extend32S
  (* memory *)
  | W_I32Load _ | W_I64Load _ | W_I32Load8S _ | W_I32Load8U _ | W_I32Load16S _ | W_I32Load16U _
  | W_I64Load8S _ | W_I64Load8U _ | W_I64Load16S _ | W_I64Load16U _ | W_I64Load32S _ | W_I64Load32U _
  | W_I32Store _ | W_I64Store _ | W_I32Store8 _ | W_I32Store16 _ | W_I64Store8 _ | W_I64Store16 _ | W_I64Store32 _
  | W_MemorySize _ | W_MemoryGrow _ => true
  | _ => false
  end.
(* the memory immediate of a load / store of the core *)
Definition memarg_of (o : wop) : option w_memarg :=
  match o with
  | W_I32Load m | W_I64Load m | W_I32Load8S m | W_I32Load8U m | W_I32Load16S m | W_I32Load16U m
  | W_I64Load8S m | W_I64Load8U m | W_I64Load16S m | W_I64Load16U m | W_I64Load32S m | W_I64Load32U m
  | W_I32Store m | W_I64Store m | W_I32Store8 m | W_I32Store16 m | W_I64Store8 m | W_I64Store16 m | W_I64Store32 m => Some m
  | _ => None
  end.
(* walrus keeps [offset mod 2^32] and [2^align mod 2^32] (Gen/Ops.v decode_plain): only a 32-bit offset, and an
   alignment exponent below 32, survive decode-then-encode.  True on every operator that is not a core load / store. *)
Definition offset_ok (o : wop) : bool :=
  match memarg_of o with Some m => wa_offset m <? 2^32 | None => true end.
Definition align_ok (o : wop) : bool :=
  match memarg_of o with Some m => wa_align m <? 32 | None => true end.
Definition memarg_ok (o : wop) : bool := offset_ok o && align_ok o.
Definition is_core (o : wop) : bool := is_core_shape o && memarg_ok o.

Definition core_op (lslot gslot mslot : N -> N) (o : wop) (s : st) : step st halt :=
  match o with
  | W_I32Const z => push (VI32 (z32 z)) s
  | W_I64Const z => push (VI64 (z64 z)) s
  | W_I32Add => bin32 add32 s
  | W_I32Sub => bin32 sub32 s
  | W_I32Mul => bin32 mul32 s
  | W_I32And => bin32 N.land s
  | W_I32Or => bin32 N.lor s
  | W_I32Xor => bin32 N.lxor s
  | W_I64Add => bin64 add64 s
  | W_I64Sub => bin64 sub64 s
  | W_I64Mul => bin64 mul64 s
  | W_I64And => bin64 N.land s
  | W_I64Or => bin64 N.lor s
  | W_I64Xor => bin64 N.lxor s
  | W_I32Eqz => un32 (fun a => b2n (a =? 0)) s
  | W_I32Eq => bin32 (fun a b => b2n (a =? b)) s
  | W_I32Ne => bin32 (fun a b => b2n (negb (a =? b))) s
  | W_I32LtU => bin32 (fun a b => b2n (a <? b)) s
  | W_I32LtS => bin32 (fun a b => b2n (lts32 a b)) s
  | W_I32DivU => div32 N.div s
  | W_I32RemU => div32 N.modulo s
  | W_I32Shl => bin32 shl32 s
  | W_I32ShrU => bin32 shru32 s
  | W_I32WrapI64 => match stk s with VI64 a :: k => Next (with_stk s (VI32 (wrap32 a) :: k)) | _ => wrong s end
  | W_I64ExtendI32U => match stk s with VI32 a :: k => Next (with_stk s (VI64 a :: k)) | _ => wrong s end
  | W_LocalGet i => local_get (lslot i) s
  | W_LocalSet i => local_set (lslot i) s
  | W_LocalTee i => local_tee (lslot i) s
  | W_GlobalGet i => global_get (gslot i) s
  | W_GlobalSet i => global_set (gslot i) s
  | W_Drop => match stk s with _ :: k => Next (with_stk s k) | [] => wrong s end
  | W_Select =>
      (* untyped select: both alternatives of the same numeric type *)
      match stk s with
      | VI32 c :: v2 :: v1 :: k =>
          if same_ty v1 v2 then Next (with_stk s ((if c =? 0 then v2 else v1) :: k)) else wrong s
      | _ => wrong s
      end
  | W_Return => Halt Return s
  | W_Unreachable => Halt Trap s
  (* ---- i32, second batch (a = first operand, b = second operand = top of stack) *)
  | W_I32Clz => un32 (clz 32) s
  | W_I32Ctz => un32 (ctz 32) s
  | W_I32Popcnt => un32 popcnt s
  | W_I32DivS => divs32_op s
  | W_I32RemS => div32 rems32 s
  | W_I32ShrS => bin32 shrs32 s
  | W_I32Rotl => bin32 rotl32 s
  | W_I32Rotr => bin32 rotr32 s
  | W_I32LeS => bin32 (fun a b => b2n (negb (lts32 b a))) s
  | W_I32LeU => bin32 (fun a b => b2n (a <=? b)) s
  | W_I32GtS => bin32 (fun a b => b2n (lts32 b a)) s
  | W_I32GtU => bin32 (fun a b => b2n (b <? a)) s
  | W_I32GeS => bin32 (fun a b => b2n (negb (lts32 a b))) s
  | W_I32GeU => bin32 (fun a b => b2n (b <=? a)) s
  | W_I32Extend8S => un32 (sext 256 m32) s
  | W_I32Extend16S => un32 (sext 65536 m32) s
  (* ---- i64 *)
  | W_I64Eqz => match stk s with VI64 a :: k => Next (with_stk s (VI32 (b2n (a =? 0)) :: k)) | _ => wrong s end
  | W_I64Eq => cmp64 (fun a b => a =? b) s
  | W_I64Ne => cmp64 (fun a b => negb (a =? b)) s
  | W_I64LtS => cmp64 lts64 s
  | W_I64LtU => cmp64 (fun a b => a <? b) s
  | W_I64LeS => cmp64 (fun a b => negb (lts64 b a)) s
  | W_I64LeU => cmp64 (fun a b => a <=? b) s
  | W_I64GtS => cmp64 (fun a b => lts64 b a) s
  | W_I64GtU => cmp64 (fun a b => b <? a) s
  | W_I64GeS => cmp64 (fun a b => negb (lts64 a b)) s
  | W_I64GeU => cmp64 (fun a b => b <=? a) s
  | W_I64DivS => divs64_op s
  | W_I64DivU => div64 N.div s
  | W_I64RemS => div64 rems64 s
  | W_I64RemU => div64 N.modulo s
  | W_I64Shl => bin64 shl64 s
  | W_I64ShrS => bin64 shrs64 s
  | W_I64ShrU => bin64 shru64 s
  | W_I64Rotl => bin64 rotl64 s
  | W_I64Rotr => bin64 rotr64 s
  | W_I64Clz => un64 (clz 64) s
  | W_I64Ctz => un64 (ctz 64) s
  | W_I64Popcnt => un64 popcnt s
  | W_I64ExtendI32S => match stk s with VI32 a :: k => Next (with_stk s (VI64 (sext m32 m64 a) :: k)) | _ => wrong s end
  | W_I64Extend8S => un64 (sext 256 m64) s
  | W_I64Extend16S => un64 (sext 65536 m64) s
  | W_I64Extend32S => un64 (sext m32 m64) s
  (* ---- memory: width in bytes; what is pushed / the type of the stored operand *)
  | W_I32Load m => mem_load (mslot (wa_memory m)) (wa_offset m) 4 VI32 s
  | W_I64Load m => mem_load (mslot (wa_memory m)) (wa_offset m) 8 VI64 s
  | W_I32Load8S m => mem_load (mslot (wa_memory m)) (wa_offset m) 1 (fun n => VI32 (sext 256 m32 n)) s
  | W_I32Load8U m => mem_load (mslot (wa_memory m)) (wa_offset m) 1 VI32 s
  | W_I32Load16S m => mem_load (mslot (wa_memory m)) (wa_offset m) 2 (fun n => VI32 (sext 65536 m32 n)) s
  | W_I32Load16U m => mem_load (mslot (wa_memory m)) (wa_offset m) 2 VI32 s
  | W_I64Load8S m => mem_load (mslot (wa_memory m)) (wa_offset m) 1 (fun n => VI64 (sext 256 m64 n)) s
  | W_I64Load8U m => mem_load (mslot (wa_memory m)) (wa_offset m) 1 VI64 s
  | W_I64Load16S m => mem_load (mslot (wa_memory m)) (wa_offset m) 2 (fun n => VI64 (sext 65536 m64 n)) s
  | W_I64Load16U m => mem_load (mslot (wa_memory m)) (wa_offset m) 2 VI64 s
  | W_I64Load32S m => mem_load (mslot (wa_memory m)) (wa_offset m) 4 (fun n => VI64 (sext m32 m64 n)) s
  | W_I64Load32U m => mem_load (mslot (wa_memory m)) (wa_offset m) 4 VI64 s
  | W_I32Store m => mem_store (mslot (wa_memory m)) (wa_offset m) 4 false s
  | W_I64Store m => mem_store (mslot (wa_memory m)) (wa_offset m) 8 true s
  | W_I32Store8 m => mem_store (mslot (wa_memory m)) (wa_offset m) 1 false s
  | W_I32Store16 m => mem_store (mslot (wa_memory m)) (wa_offset m) 2 false s
  | W_I64Store8 m => mem_store (mslot (wa_memory m)) (wa_offset m) 1 true s
  | W_I64Store16 m => mem_store (mslot (wa_memory m)) (wa_offset m) 2 true s
  | W_I64Store32 m => mem_store (mslot (wa_memory m)) (wa_offset m) 4 true s
  | W_MemorySize i => mem_size (mslot i) s
  | W_MemoryGrow i => mem_grow (mslot i) s
  | _ => Halt Wrong s
  end.

Definition core_sem (lslot gslot mslot : N -> N) (w : wins) (s : st) : step st halt :=
  match w with
  | WOp o => core_op lslot gslot mslot o s
  | _ => Halt Wrong s
  end.

(* ------------------------------------------------------------------ the remaining parameters of Model/Sem.v *)
(* br_if / if: pop an i32, non-zero = taken; br_table: pop an i32 *)
Definition pop_cond (s : st) : option (bool * st) :=
  match stk s with VI32 c :: k => Some (negb (c =? 0), with_stk s k) | _ => None end.
Definition pop_index (s : st) : option (N * st) :=
  match stk s with VI32 c :: k => Some (c, with_stk s k) | _ => None end.

(* label arities from block types, given the function-type table of the module *)
Definition arity (tys : N -> option (list valty * list valty)) (bt : blockty) : N :=
  match bt with
  | BT_Empty => 0
  | BT_Val _ => 1
  | BT_Func i => match tys i with Some (_, rs) => N.of_nat (length rs) | None => 0 end
  end.
Definition loop_arity (tys : N -> option (list valty * list valty)) (bt : blockty) : N :=
  match bt with
  | BT_Empty => 0
  | BT_Val _ => 0
  | BT_Func i => match tys i with Some (ps, _) => N.of_nat (length ps) | None => 0 end
  end.

(* EXACT LABELS.  [enter] records the height the operand stack has below the parameters of the block
   type; [leave] (fall-through, or a branch to an outer label passing through) pops the record and
   keeps the operand stack; [unwind k] (a branch TO the label) keeps the top [k] values, drops
   everything else above the recorded height, and pops the record.  Without a record (a branch to
   the function level) the top [k] values are kept and the rest of the stack is dropped. *)
Definition nparams (tys : N -> option (list valty * list valty)) (bt : blockty) : N :=
  match bt with
  | BT_Empty => 0
  | BT_Val _ => 0
  | BT_Func i => match tys i with Some (ps, _) => N.of_nat (length ps) | None => 0 end
  end.
Definition height (s : st) : N := N.of_nat (length (stk s)).
Definition with_labs (s : st) (l : list N) : st :=
  {| stk := stk s; locs := locs s; globs := globs s; labs := l; mem := mem s; pages := pages s; max_pages := max_pages s |}.
Definition enter (tys : N -> option (list valty * list valty)) (bt : blockty) (s : st) : st :=
  with_labs s ((height s - nparams tys bt) :: labs s).
Definition leave (s : st) : st := with_labs s (tl (labs s)).
(* the bottom [h] values of a stack (top first) *)
Definition bottom (h : N) (k : list val) : list val := skipn (length k - N.to_nat h) k.
Definition unwind (k : N) (s : st) : st :=
  match labs s with
  | h :: ls => {| stk := firstn (N.to_nat k) (stk s) ++ bottom h (stk s); locs := locs s; globs := globs s; labs := ls;
                  mem := mem s; pages := pages s; max_pages := max_pages s |}
  | [] => with_stk s (firstn (N.to_nat k) (stk s))
  end.
(* the approximation used before label records existed: leave the stack alone (exact only when a
   branch is taken with exactly the label's arity above the label's height); kept for the
   comparison in Proofs/SemCore.v *)
Definition unwind_lax (k : N) (s : st) : st := s.

Definition run_core (lslot gslot mslot : N -> N) (tys : N -> option (list valty * list valty))
    (fuel : nat) (body : list rt) (s : st) : res st halt :=
  eval st halt pop_cond pop_index unwind (enter tys) leave (core_sem lslot gslot mslot) (arity tys) (loop_arity tys) fuel body s.
(* the same machine with the lax [unwind] and no label records *)
Definition run_core_lax (lslot gslot mslot : N -> N) (tys : N -> option (list valty * list valty))
    (fuel : nat) (body : list rt) (s : st) : res st halt :=
  eval st halt pop_cond pop_index unwind_lax (fun _ s => s) (fun s => s) (core_sem lslot gslot mslot) (arity tys) (loop_arity tys) fuel body s.
