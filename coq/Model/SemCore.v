(* A CONCRETE operator semantics for the integer core of WebAssembly, instantiating the abstract
   big-step semantics of Model/Sem.v.  Definitions only, executable.
   Values are bit patterns (i32: < 2^32, i64: < 2^64); all arithmetic wraps, written out explicitly.
   Locals / globals live in association lists keyed by SLOT; an operator reaches its slot through
   [lslot index] / [gslot index], so that a renumbering of the index spaces is visible (and
   compensated by a renumbered slot map) rather than assumed away.
   Total: a stack underflow, a type mismatch, an unbound slot or any operator outside the core is
   [Halt Trap] (state unchanged). *)
From Coq Require Import List NArith ZArith Bool. Import ListNotations.
From WV Require Import Gen.Ops Model.Common Model.IR Model.ParseFn Model.ParseSpec Model.EmitFn Model.BodySpec Model.Sem.
Open Scope N_scope.

Inductive val := VI32 (n : N) | VI64 (n : N).
Record st := { stk : list val (* top first *); locs : list (N * val) (* SLOT -> value *); globs : list (N * val);
               labs : list N (* label records, innermost first: the HEIGHT the operand stack had, below the
                                parameters, when the block / loop / if-arm was entered *) }.
Inductive halt := Trap | Return.

(* ------------------------------------------------------------------ bit-pattern arithmetic *)
Definition m32 : N := 4294967296.               (* 2^32 *)
Definition m64 : N := 18446744073709551616.     (* 2^64 *)
Definition h32 : N := 2147483648.               (* 2^31 *)
Definition wrap32 (n : N) : N := n mod m32.
Definition wrap64 (n : N) : N := n mod m64.
(* the immediate of a const is a signed integer: two's complement bit pattern *)
Definition z32 (z : Z) : N := Z.to_N (z mod 4294967296)%Z.
Definition z64 (z : Z) : N := Z.to_N (z mod 18446744073709551616)%Z.
Definition b2n (b : bool) : N := if b then 1 else 0.

Definition add32 a b := (a + b) mod m32.
Definition sub32 a b := (a + (m32 - b mod m32)) mod m32.
Definition mul32 a b := (a * b) mod m32.
Definition add64 a b := (a + b) mod m64.
Definition sub64 a b := (a + (m64 - b mod m64)) mod m64.
Definition mul64 a b := (a * b) mod m64.
(* signed comparison: flip the sign bit, compare unsigned *)
Definition lts32 a b := ((a + h32) mod m32) <? ((b + h32) mod m32).
Definition shl32 a b := (a * 2 ^ (b mod 32)) mod m32.
Definition shru32 a b := a / 2 ^ (b mod 32).

(* ------------------------------------------------------------------ association lists *)
Fixpoint alookup (k : N) (l : list (N * val)) : option val :=
  match l with
  | [] => None
  | (k', v) :: l' => if k =? k' then Some v else alookup k l'
  end.
Definition same_ty (a b : val) : bool :=
  match a, b with VI32 _, VI32 _ => true | VI64 _, VI64 _ => true | _, _ => false end.
(* overwrite the first binding of [k], which must exist and hold a value of the same type *)
Fixpoint aset (k : N) (v : val) (l : list (N * val)) : option (list (N * val)) :=
  match l with
  | [] => None
  | (k', v') :: l' =>
      if k =? k' then (if same_ty v v' then Some ((k', v) :: l') else None)
      else match aset k v l' with Some r => Some ((k', v') :: r) | None => None end
  end.

(* ------------------------------------------------------------------ operator shapes *)
Definition with_stk (s : st) (k : list val) : st := {| stk := k; locs := locs s; globs := globs s; labs := labs s |}.
Definition trap (s : st) : step st halt := Halt Trap s.
Definition push (v : val) (s : st) : step st halt := Next (with_stk s (v :: stk s)).

Definition bin32 (f : N -> N -> N) (s : st) : step st halt :=
  match stk s with
  | VI32 b :: VI32 a :: k => Next (with_stk s (VI32 (f a b) :: k))     (* b is the top = second operand *)
  | _ => trap s
  end.
Definition bin64 (f : N -> N -> N) (s : st) : step st halt :=
  match stk s with
  | VI64 b :: VI64 a :: k => Next (with_stk s (VI64 (f a b) :: k))
  | _ => trap s
  end.
(* division-like: traps when the divisor is zero *)
Definition div32 (f : N -> N -> N) (s : st) : step st halt :=
  match stk s with
  | VI32 b :: VI32 a :: k => if b =? 0 then trap s else Next (with_stk s (VI32 (f a b) :: k))
  | _ => trap s
  end.

Definition local_get (slot : N) (s : st) : step st halt :=
  match alookup slot (locs s) with Some v => push v s | None => trap s end.
Definition local_set (slot : N) (s : st) : step st halt :=
  match stk s with
  | v :: k => match aset slot v (locs s) with
              | Some l' => Next {| stk := k; locs := l'; globs := globs s; labs := labs s |}
              | None => trap s
              end
  | [] => trap s
  end.
Definition local_tee (slot : N) (s : st) : step st halt :=
  match stk s with
  | v :: k => match aset slot v (locs s) with
              | Some l' => Next {| stk := v :: k; locs := l'; globs := globs s; labs := labs s |}
              | None => trap s
              end
  | [] => trap s
  end.
Definition global_get (slot : N) (s : st) : step st halt :=
  match alookup slot (globs s) with Some v => push v s | None => trap s end.
Definition global_set (slot : N) (s : st) : step st halt :=
  match stk s with
  | v :: k => match aset slot v (globs s) with
              | Some g' => Next {| stk := k; locs := locs s; globs := g'; labs := labs s |}
              | None => trap s
              end
  | [] => trap s
  end.

(* ------------------------------------------------------------------ the core *)
Definition is_core (o : wop) : bool :=
  match o with
  | W_I32Const _ | W_I64Const _
  | W_I32Add | W_I32Sub | W_I32Mul | W_I32And | W_I32Or | W_I32Xor
  | W_I64Add | W_I64Sub | W_I64Mul | W_I64And | W_I64Or | W_I64Xor
  | W_I32Eqz | W_I32Eq | W_I32Ne | W_I32LtU | W_I32LtS
  | W_I32DivU | W_I32RemU | W_I32Shl | W_I32ShrU
  | W_I32WrapI64 | W_I64ExtendI32U
  | W_LocalGet _ | W_LocalSet _ | W_LocalTee _ | W_GlobalGet _ | W_GlobalSet _
  | W_Drop | W_Select | W_Return | W_Unreachable => true
  | _ => false
  end.

Definition core_op (lslot gslot : N -> N) (o : wop) (s : st) : step st halt :=
  match o with
  | W_I32Const z => push (VI32 (z32 z)) s
  | W_I64Const z => push (VI64 (z64 z)) s
  | W_I32Add => bin32 add32 s
  | W_I32Sub => bin32 sub32 s
  | W_I32Mul => bin32 mul32 s
  | W_I32And => bin32 N.land s
  | W_I32Or => bin32 N.lor s
  | W_I32Xor => bin32 N.lxor s
  | W_I64Add => bin64 add64 s
  | W_I64Sub => bin64 sub64 s
  | W_I64Mul => bin64 mul64 s
  | W_I64And => bin64 N.land s
  | W_I64Or => bin64 N.lor s
  | W_I64Xor => bin64 N.lxor s
  | W_I32Eqz => match stk s with VI32 a :: k => Next (with_stk s (VI32 (b2n (a =? 0)) :: k)) | _ => trap s end
  | W_I32Eq => bin32 (fun a b => b2n (a =? b)) s
  | W_I32Ne => bin32 (fun a b => b2n (negb (a =? b))) s
  | W_I32LtU => bin32 (fun a b => b2n (a <? b)) s
  | W_I32LtS => bin32 (fun a b => b2n (lts32 a b)) s
  | W_I32DivU => div32 N.div s
  | W_I32RemU => div32 N.modulo s
  | W_I32Shl => bin32 shl32 s
  | W_I32ShrU => bin32 shru32 s
  | W_I32WrapI64 => match stk s with VI64 a :: k => Next (with_stk s (VI32 (wrap32 a) :: k)) | _ => trap s end
  | W_I64ExtendI32U => match stk s with VI32 a :: k => Next (with_stk s (VI64 a :: k)) | _ => trap s end
  | W_LocalGet i => local_get (lslot i) s
  | W_LocalSet i => local_set (lslot i) s
  | W_LocalTee i => local_tee (lslot i) s
  | W_GlobalGet i => global_get (gslot i) s
  | W_GlobalSet i => global_set (gslot i) s
  | W_Drop => match stk s with _ :: k => Next (with_stk s k) | [] => trap s end
  | W_Select =>
      (* untyped select: both alternatives of the same numeric type *)
      match stk s with
      | VI32 c :: v2 :: v1 :: k =>
          if same_ty v1 v2 then Next (with_stk s ((if c =? 0 then v2 else v1) :: k)) else trap s
      | _ => trap s
      end
  | W_Return => Halt Return s
  | W_Unreachable => Halt Trap s
  | _ => Halt Trap s
  end.

Definition core_sem (lslot gslot : N -> N) (w : wins) (s : st) : step st halt :=
  match w with
  | WOp o => core_op lslot gslot o s
  | _ => Halt Trap s
  end.

(* ------------------------------------------------------------------ the remaining parameters of Model/Sem.v *)
(* br_if / if: pop an i32, non-zero = taken; br_table: pop an i32 *)
Definition pop_cond (s : st) : option (bool * st) :=
  match stk s with VI32 c :: k => Some (negb (c =? 0), with_stk s k) | _ => None end.
Definition pop_index (s : st) : option (N * st) :=
  match stk s with VI32 c :: k => Some (c, with_stk s k) | _ => None end.

(* label arities from block types, given the function-type table of the module *)
Definition arity (tys : N -> option (list valty * list valty)) (bt : blockty) : N :=
  match bt with
  | BT_Empty => 0
  | BT_Val _ => 1
  | BT_Func i => match tys i with Some (_, rs) => N.of_nat (length rs) | None => 0 end
  end.
Definition loop_arity (tys : N -> option (list valty * list valty)) (bt : blockty) : N :=
  match bt with
  | BT_Empty => 0
  | BT_Val _ => 0
  | BT_Func i => match tys i with Some (ps, _) => N.of_nat (length ps) | None => 0 end
  end.

(* EXACT LABELS.  [enter] records the height the operand stack has below the parameters of the block
   type; [leave] (fall-through, or a branch to an outer label passing through) pops the record and
   keeps the operand stack; [unwind k] (a branch TO the label) keeps the top [k] values, drops
   everything else above the recorded height, and pops the record.  Without a record (a branch to
   the function level) the top [k] values are kept and the rest of the stack is dropped. *)
Definition nparams (tys : N -> option (list valty * list valty)) (bt : blockty) : N :=
  match bt with
  | BT_Empty => 0
  | BT_Val _ => 0
  | BT_Func i => match tys i with Some (ps, _) => N.of_nat (length ps) | None => 0 end
  end.
Definition height (s : st) : N := N.of_nat (length (stk s)).
Definition with_labs (s : st) (l : list N) : st := {| stk := stk s; locs := locs s; globs := globs s; labs := l |}.
Definition enter (tys : N -> option (list valty * list valty)) (bt : blockty) (s : st) : st :=
  with_labs s ((height s - nparams tys bt) :: labs s).
Definition leave (s : st) : st := with_labs s (tl (labs s)).
(* the bottom [h] values of a stack (top first) *)
Definition bottom (h : N) (k : list val) : list val := skipn (length k - N.to_nat h) k.
Definition unwind (k : N) (s : st) : st :=
  match labs s with
  | h :: ls => {| stk := firstn (N.to_nat k) (stk s) ++ bottom h (stk s); locs := locs s; globs := globs s; labs := ls |}
  | [] => with_stk s (firstn (N.to_nat k) (stk s))
  end.
(* the approximation used before label records existed: leave the stack alone (exact only when a
   branch is taken with exactly the label's arity above the label's height); kept for the
   comparison in Proofs/SemCore.v *)
Definition unwind_lax (k : N) (s : st) : st := s.

Definition run_core (lslot gslot : N -> N) (tys : N -> option (list valty * list valty))
    (fuel : nat) (body : list rt) (s : st) : res st halt :=
  eval st halt pop_cond pop_index unwind (enter tys) leave (core_sem lslot gslot) (arity tys) (loop_arity tys) fuel body s.
(* the same machine with the lax [unwind] and no label records *)
Definition run_core_lax (lslot gslot : N -> N) (tys : N -> option (list valty * list valty))
    (fuel : nat) (body : list rt) (s : st) : res st halt :=
  eval st halt pop_cond pop_index unwind_lax (fun _ s => s) (fun s => s) (core_sem lslot gslot) (arity tys) (loop_arity tys) fuel body s.
