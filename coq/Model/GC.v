(* Executable model of src/passes/used.rs (Used::new: roots + worklists) and
   src/passes/gc.rs (run: delete everything not in the used sets).
   Instruction edges come from the in-order traversal log of the function (the UsedVisitor's
   callbacks), i.e. from the REGENERATED [visited_refs] of Gen/Ops.v. *)
From Coq Require Import List NArith ZArith Bool. Import ListNotations.
From WV Require Import Gen.Ops Model.Common Model.IR Model.Arena Model.Traversal Model.Locals Model.ModuleM Model.ParseM Model.EmitM.
Open Scope N_scope.

Definition ent := (space * N)%type.         (* an entity: (index space, id); S_type entries are "used" marks only *)
Definition space_code' (s : space) : N :=
  match s with S_func => 0 | S_type => 1 | S_table => 2 | S_memory => 3 | S_global => 4 | S_data => 5 | S_elem => 6 | S_local => 7 end.
Definition ent_eqb (a b : ent) : bool := N.eqb (space_code' (fst a)) (space_code' (fst b)) && N.eqb (snd a) (snd b).
Definition mem_ent (x : ent) (l : list ent) : bool := existsb (ent_eqb x) l.

(* Roots::push_* : insert into the used set, and onto the stack only when newly inserted.
   Types are only ever inserted into the used set (never on a stack). *)
Record ust := { u_used : list ent; u_stack : list ent }.
Definition push (s : ust) (x : ent) : ust :=
  if mem_ent x (u_used s) then s
  else {| u_used := x :: u_used s;
          u_stack := match fst x with S_type => u_stack s | _ => x :: u_stack s end |}.

Definition const_refs (c : mconst) : list ent :=
  match c with MC_Global g => [(S_global, g)] | MC_RefFunc f => [(S_func, f)] | _ => [] end.

(* what popping one entity pushes (the per-kind `while let Some(..) = stack.X.pop()` bodies).
   A dead / missing id makes the real code panic (arena index): [None]. *)
Definition succ (m : wir) (x : ent) : res (list ent) :=
  match fst x with
  | S_func =>
      match aget (m_funcs m) (snd x) with
      | None => Panic
      | Some f =>
          match fn_kind f with
          | FK_Local lf =>
              rmap (fun evs => (S_type, lf_ty lf) ::
                      flat_map (fun e => match e with
                                         | ERef S_local _ => []                (* visit_local_id is not overridden *)
                                         | ERef sp id => [(sp, id)]
                                         | ESeqType t => [(S_type, t)]         (* InstrSeq::visit -> visit_type_id *)
                                         | _ => [] end) evs) (lf_log lf)
          | FK_Import _ ty => Ok [(S_type, ty)]
          | FK_Uninit _ => Panic
          end
      end
  | S_table => match aget (m_tables m) (snd x) with Some t => Ok (map (fun e => (S_elem, e)) (tb_segs t)) | None => Panic end
  | S_global => match aget (m_globals m) (snd x) with
                | Some g => Ok (match gl_kind g with
                                | GK_Local (MC_Global g') => [(S_global, g')]
                                | GK_Local (MC_RefFunc f) => [(S_func, f)]
                                | _ => [] end)
                | None => Panic end
  | S_memory => match aget (m_memories m) (snd x) with Some t => Ok (map (fun d => (S_data, d)) (me_segs t)) | None => Panic end
  | S_data => match aget (m_data m) (snd x) with
              | Some d => Ok (match da_kind d with
                              | DK_Active mem off => (S_memory, mem) :: (match off with MC_Global g => [(S_global, g)] | _ => [] end)
                              | DK_Passive => [] end)
              | None => Panic end
  | S_elem => match aget (m_elements m) (snd x) with
              | Some e =>
                  Ok ((match el_items e with
                       | ELI_Funcs fs => map (fun f => (S_func, f)) fs
                       | ELI_Exprs _ es => flat_map const_refs es
                       end) ++
                      (match el_kind e with
                       | ELK_Active t off => (match off with MC_Global g => [(S_global, g)] | _ => [] end) ++ [(S_table, t)]
                       | _ => [] end))
              | None => Panic end
  | _ => Ok []
  end.

(* the worklist; the result does not depend on the order in which the six stacks are drained
   (least closed set), so one stack is used *)
Fixpoint wl (fuel : nat) (m : wir) (s : ust) : res (list ent) :=
  match fuel with
  | O => OutOfFuel
  | S f =>
      match u_stack s with
      | [] => Ok (u_used s)
      | x :: rest =>
          rbind (succ m x) (fun ys => wl f m (fold_left push ys {| u_used := u_used s; u_stack := rest |}))
      end
  end.

Definition roots (m : wir) : res (list ent) :=
  let exports := map (fun p => (kind_space (ex_kind (snd p)), ex_item (snd p))) (aiter (m_exports m)) in
  let start := match m_start m with Some f => [(S_func, f)] | None => [] end in
  let datas := flat_map (fun p => match da_kind (snd p) with DK_Active _ _ => [(S_data, fst p)] | _ => [] end) (aiter (m_data m)) in
  rbind (rmapM (fun p => match el_kind (snd p) with
                         | ELK_Active t _ => match aget (m_tables m) t with
                                             | Some tb => Ok (match tb_import tb with Some _ => [(S_elem, fst p)] | None => [] end)
                                             | None => Panic end
                         | ELK_Declared => Ok [(S_elem, fst p)]
                         | ELK_Passive => Ok [] end) (aiter (m_elements m)))
        (fun elems =>
  let customs := flat_map (fun c => match c with Some c => cu_roots c | None => [] end) (m_customs m) in
  Ok (exports ++ start ++ datas ++ concat elems ++ customs)).

Definition n_entities (m : wir) : nat :=
  length (items (m_funcs m)) + length (items (m_tables m)) + length (items (m_globals m)) + length (items (m_memories m)) +
  length (items (m_data m)) + length (items (m_elements m)) + length (items (Arena.arena (m_types m))).

Definition used_of (u : list ent) (s : space) : list N := flat_map (fun x => if N.eqb (space_code' (fst x)) (space_code' s) then [snd x] else []) u.

(* Used::new *)
Definition used (m : wir) : res (list ent) :=
  rbind (roots m) (fun rs =>
  rbind (wl (S (S (n_entities m))) m (fold_left push rs {| u_used := []; u_stack := [] |})) (fun u =>
  (* a kept data segment wants some memory: take the first one *)
  match used_of u S_data, used_of u S_memory, aiter (m_memories m) with
  | _ :: _, [], (mid, _) :: _ => Ok ((S_memory, mid) :: u)
  | _, _, _ => Ok u
  end)).

(* gc::run: the sweep *)
Definition delete_unused {A} (a : tarena A) (keep : list N) : res (tarena A) :=
  fold_left (fun acc p => rbind acc (fun a => if existsb (N.eqb (fst p)) keep then Ok a else of_opt (adelete a (fst p))))
            (aiter a) (Ok a).
Definition types_delete_unused (s : aset mtype) (keep : list N) : res (aset mtype) :=
  fold_left (fun acc p => rbind acc (fun s => if existsb (N.eqb (N.of_nat (fst p))) keep then Ok s
                                             else of_opt (aset_remove (fun x => x) mtype_eqb s (fst p))))
            (aset_iter s) (Ok s).

Definition gc_sweep (m : wir) : res wir :=
  rbind (used m) (fun u =>
  let import_used (i : mimport) := match im_kind i with
                                   | MI_Func f => mem_ent (S_func, f) u | MI_Table t => mem_ent (S_table, t) u
                                   | MI_Global g => mem_ent (S_global, g) u | MI_Mem mm => mem_ent (S_memory, mm) u end in
  rbind (delete_unused (m_imports m) (map fst (filter (fun p => import_used (snd p)) (aiter (m_imports m))))) (fun ia =>
  rbind (delete_unused (m_tables m) (used_of u S_table)) (fun ta =>
  rbind (delete_unused (m_globals m) (used_of u S_global)) (fun ga =>
  rbind (delete_unused (m_memories m) (used_of u S_memory)) (fun ma =>
  rbind (delete_unused (m_data m) (used_of u S_data)) (fun da =>
  rbind (delete_unused (m_elements m) (used_of u S_elem)) (fun ea =>
  rbind (types_delete_unused (m_types m) (used_of u S_type)) (fun tya =>
  rbind (delete_unused (m_funcs m) (used_of u S_func)) (fun fa =>
  Ok (set_funcs (set_types (set_elements (set_data (set_memories (set_globals (set_tables (set_imports m ia) ta) ga) ma) da) ea) tya) fa)))))))))).

(* gc::run, last step (declare_referenced_funcs): a `ref.func f` in a kept body needs f declared outside function bodies - by an
   export, an element segment or a global initialiser; what declared it may just have been removed, so the functions that would be
   left undeclared are listed in ONE new declared element segment (sorted by id; nothing is added when there is none). *)
Definition ref_funcs_of_log (evs : list ev) : list N :=
  flat_map (fun e => match e with EInstr (IPlain (P_RefFunc f)) _ => [f] | _ => [] end) evs.
(* the RefFuncs visitor over every live local function (after the sweep: the kept ones) *)
Definition referenced_funcs (m : wir) : res (list N) :=
  rmap (@concat N) (rmapM (fun p => match fn_kind (snd p) with
                                    | FK_Local lf => rmap ref_funcs_of_log (lf_log lf)
                                    | _ => Ok [] end) (aiter (m_funcs m))).
Definition declared_funcs (m : wir) : list N :=
  flat_map (fun p => match ex_kind (snd p) with EK_Func => [ex_item (snd p)] | _ => [] end) (aiter (m_exports m)) ++
  flat_map (fun p => match el_items (snd p) with
                     | ELI_Funcs fs => fs
                     | ELI_Exprs _ es => flat_map (fun c => match c with MC_RefFunc f => [f] | _ => [] end) es end) (aiter (m_elements m)) ++
  flat_map (fun p => match gl_kind (snd p) with GK_Local (MC_RefFunc f) => [f] | _ => [] end) (aiter (m_globals m)).
Definition undeclared_funcs (m : wir) : res (list N) :=
  rmap (fun refd => sort_ids (filter (fun f => negb (existsb (N.eqb f) (declared_funcs m))) refd)) (referenced_funcs m).
Definition declare_referenced_funcs (m : wir) : res wir :=
  rmap (fun fs => match fs with
                  | [] => m
                  | _ :: _ => set_elements m (fst (aalloc (m_elements m) {| el_kind := ELK_Declared; el_items := ELI_Funcs fs; el_name := None |}))
                  end) (undeclared_funcs m).

Definition gc (m : wir) : res wir := rbind (gc_sweep m) declare_referenced_funcs.
