(* Executable model of the CodeTransform record that ModuleFunctions::emit (src/module/functions/mod.rs)
   fills when preserve_code_transform is set, and hands to every custom section:
     instruction_map    : BTreeMap<InstrLocId, usize>  (input location -> absolute output offset)
     function_ranges    : (function id, start .. end) of each code entry, sorted by id
     code_section_start : the offset code-relative (DWARF) addresses are measured from.
   Positions inside a function come from the Emit visitor model (Model/EmitFn.v: [imap]); the layout of
   the code section is  count ++ concat (leb(size_k) ++ body_k). *)
From Coq Require Import List NArith ZArith Bool. Import ListNotations.
From WV Require Import Gen.Ops Model.Common Model.IR Model.Arena Model.Builder Model.EmitFn Model.ModuleM Model.ParseM Model.EmitM.
Open Scope N_scope.
Definition marker_z : Z := 24301%Z.

(* number of bytes of the unsigned LEB128 encoding *)
Fixpoint leb_len_fuel (fuel : nat) (n : N) : N :=
  match fuel with
  | O => 1
  | S f => if n <? 128 then 1 else 1 + leb_len_fuel f (N.shiftr n 7)
  end.
Definition leb_len (n : N) : N := leb_len_fuel 10 n.      (* u32/usize sizes: at most 10 groups *)

(* BTreeMap::insert: sorted by key, a later insertion of the same key overwrites *)
Fixpoint bt_insert {V} (k : N) (v : V) (l : list (N * V)) : list (N * V) :=
  match l with
  | [] => [(k, v)]
  | (k', v') :: r => if k <? k' then (k, v) :: l else if k =? k' then (k, v) :: r else (k', v') :: bt_insert k v r
  end.

(* collect_non_default_code_offsets, function after function in emission order; the value recorded here is
   (position of the function in emission order, position inside the function body) - the absolute offset is
   [body_start k + pos] *)
Definition add_fn_pairs (acc : list (N * (N * N))) (k : N) (im : list (N * N)) : list (N * (N * N)) :=
  fold_left (fun acc q => if fst q =? default_loc then acc else bt_insert (fst q) (k, snd q) acc) im acc.
Fixpoint ct_pairs_from (k : N) (efs : list emitted_fn) (acc : list (N * (N * N))) : list (N * (N * N)) :=
  match efs with [] => acc | e :: r => ct_pairs_from (k + 1) r (add_fn_pairs acc k (ef_imap e)) end.
Definition ct_pairs (efs : list emitted_fn) : list (N * (N * N)) := ct_pairs_from 0 efs [].

(* layout: [first] = offset of the first entry (its size LEB); sizes = byte length of each body *)
Fixpoint ranges_from (cur : N) (l : list (N * N)) : list (N * (N * N)) :=
  match l with
  | [] => []
  | (id, sz) :: r => let e := cur + leb_len sz + sz in (id, (cur, e)) :: ranges_from e r
  end.
Definition ins_range (x : N * (N * N)) (l : list (N * (N * N))) : list (N * (N * N)) :=
  (fix go l := match l with [] => [x] | y :: r => if fst y <=? fst x then y :: go r else x :: l end) l.
Definition sort_ranges (l : list (N * (N * N))) := fold_left (fun acc x => ins_range x acc) l [].
Definition ct_function_ranges (first : N) (ids sizes : list N) : list (N * (N * N)) :=
  sort_ranges (ranges_from first (combine ids sizes)).

(* `code_section_start_offset - count_leb.len()` in the source *)
Definition ct_code_section_start (first : N) (n_funcs : N) : N := first - leb_len n_funcs.

(* where the contents of the code section start, given where its first entry starts *)
Definition code_contents_start (first : N) (n_funcs : N) : N := first - leb_len n_funcs.

(* A transformation that inserts instructions: `i32.const marker; drop` at position [pos] of sequence [seq] of
   function [fid], through InstrSeqBuilder::instr_at (so both carry the default location). *)
Definition marker_instrs : list instr := [IPlain (P_Const (V_I32 marker_z)); IPlain P_Drop].
Definition insert_marker (m : wir) (e : N * N * N) : res wir :=
  let '(fid, seq, pos) := e in
  match aget (m_funcs m) fid with
  | Some f =>
      match fn_kind f with
      | FK_Local lf =>
          a1 <- insert_i (lf_arena lf) seq pos (IPlain (P_Const (V_I32 marker_z))) ;;
          a2 <- insert_i a1 seq (pos + 1) (IPlain P_Drop) ;;
          let lf' := {| lf_ty := lf_ty lf; lf_args := lf_args lf; lf_arena := a2; lf_entry := lf_entry lf;
                        lf_orig_range := lf_orig_range lf; lf_instr_mapping := lf_instr_mapping lf |} in
          Ok (set_funcs m (aset_at (m_funcs m) fid (fun _ => {| fn_kind := FK_Local lf'; fn_name := fn_name f |})))
      | _ => Panic
      end
  | None => Panic
  end.
Definition insert_markers (m : wir) (es : list (N * N * N)) : res wir :=
  fold_left (fun acc e => rbind acc (fun m => insert_marker m e)) es (Ok m).
