(* A WHOLE-MODULE concrete semantics: the 98-operator machine of Model/SemCore.v plus direct calls and call_indirect.
   Definitions only, executable.

   IDENTITIES.  A `call f` resolves the function INDEX [f] through a slot map [me_fslot] into a function IDENTITY; the
   environment maps identities to functions ([me_funcs]); the (immutable) table holds identities.  A renumbered module with
   the compensating slot map therefore has the same identities - exactly as locals / globals / memories are reached through
   [lslot] / [gslot] / [mslot] in Model/SemCore.v.  Every function has ITS OWN local slot map ([me_lslot id]).
   call_indirect reaches THE table iff [me_tslot table_index = 0].  Type equality of call_indirect is STRUCTURAL.

   EXHAUSTION.  The machine state is [mst = st * bool]: the state of Model/SemCore.v (unchanged) and a flag "the call depth
   or the loop fuel of a callee ran out"; the hooks of Model/Sem.v and [core_sem] are lifted through the first component.
   Calls nest at most [k] deep ([run_body] recurses on [k]); a call that cannot be run (depth 0) and a callee that runs out
   of loop fuel both yield [Halt Trap] WITH THE FLAG SET, which stops the whole evaluation; the entry point [run_mod]
   returns [None] iff the flag is set at the end: running out of depth / fuel is neither a trap nor going wrong. *)
From Coq Require Import List NArith ZArith Bool. Import ListNotations.
From WV Require Import Gen.Ops Model.Common Model.IR Model.ParseFn Model.ParseSpec Model.EmitFn Model.BodySpec Model.Sem Model.SemCore.
Open Scope N_scope.

(* ------------------------------------------------------------------ modules *)
(* a function: type index, declared locals (after the parameters), body *)
Definition fdef := (N * list valty * list rt)%type.
Record cmod := { cm_tys : list (list valty * list valty);
                 cm_funcs : list fdef;
                 cm_table : list (option N) (* function INDEX per slot *) }.

(* lookup by an N index, by recursion on the list (an index of 2^32 - 1 is not expanded into a unary number) *)
Fixpoint nth_optN {A} (i : N) (l : list A) : option A :=
  match l with [] => None | x :: r => if i =? 0 then Some x else nth_optN (i - 1) r end.
Fixpoint numbered {A} (k : N) (l : list A) : list (N * A) :=
  match l with [] => [] | x :: r => (k, x) :: numbered (k + 1) r end.

Definition has_ty (t : valty) (v : val) : bool :=
  match t, v with VT_I32, VI32 _ => true | VT_I64, VI64 _ => true | _, _ => false end.
(* same length, every value of its type *)
Fixpoint all_ty (ts : list valty) (vs : list val) : bool :=
  match ts, vs with
  | [], [] => true
  | t :: ts', v :: vs' => has_ty t v && all_ty ts' vs'
  | _, _ => false
  end.
Definition zero_val (t : valty) : val := match t with VT_I64 => VI64 0 | _ => VI32 0 end.

(* THE FRAME of a callee: local INDEX i (arguments first, then the declared locals, zeroed) is bound at slot [lslot i] *)
Definition mk_frame (lslot : N -> N) (args : list val) (ls : list valty) : list (N * val) :=
  map (fun p => (lslot (fst p), snd p)) (numbered 0 (args ++ map zero_val ls)).

(* ------------------------------------------------------------------ the environment of the module machine *)
Record menv := {
  me_funcs : N -> option fdef;            (* IDENTITY -> function *)
  me_lslot : N -> N -> N;                 (* IDENTITY of a function -> its local index -> slot *)
  me_fslot : N -> N;                      (* function index -> identity *)
  me_gslot : N -> N;
  me_mslot : N -> N;
  me_tslot : N -> N;                      (* table index -> slot; slot 0 is THE table *)
  me_tys : N -> option (list valty * list valty);
  me_tbl : list (option N)                (* THE table: identities *)
}.

(* ------------------------------------------------------------------ the state and the lifted hooks *)
Definition mst := (st * bool)%type.
Definition lift (f : st -> st) (s : mst) : mst := (f (fst s), snd s).
Definition lift_pop {A} (f : st -> option (A * st)) (s : mst) : option (A * mst) :=
  match f (fst s) with Some (a, c) => Some (a, (c, snd s)) | None => None end.
Definition pop_cond_m : mst -> option (bool * mst) := lift_pop pop_cond.
Definition pop_index_m : mst -> option (N * mst) := lift_pop pop_index.
Definition unwind_m (k : N) : mst -> mst := lift (unwind k).
Definition enter_m (tys : N -> option (list valty * list valty)) (bt : blockty) : mst -> mst := lift (enter tys bt).
Definition leave_m : mst -> mst := lift leave.
Definition lift_step (b : bool) (r : step st halt) : step mst halt :=
  match r with Next c => Next (c, b) | Halt h c => Halt h (c, b) end.

(* the callee starts with an empty stack, no labels, its frame; the globals and the memory of the caller *)
Definition callee_st (c : st) (fr : list (N * val)) : st :=
  {| stk := []; locs := fr; globs := globs c; labs := []; mem := mem c; pages := pages c; max_pages := max_pages c |}.
(* back in the caller [c] with the stack [k]: its locals and labels; the globals and the memory the callee left *)
Definition back (c : st) (k : list val) (c' : st) : st :=
  {| stk := k; locs := locs c; globs := globs c'; labs := labs c; mem := mem c'; pages := pages c'; max_pages := max_pages c' |}.

Section Call.
  Variable E : menv.
  (* how the body of a callee (identity, body, initial state) is run: one call level further down *)
  Variable rb : N -> list rt -> mst -> res mst halt.

  (* the callee has returned in state [c'] (by its end, a branch to the function label, or `return`): the top
     [length rs] values are the results - surplus values below them are dropped; too few / ill-typed: going wrong *)
  Definition finish (s : mst) (n : nat) (rs : list valty) (c' : st) (b' : bool) : step mst halt :=
    let res := firstn (length rs) (stk c') in
    if all_ty rs (rev res) then Next (back (fst s) (res ++ skipn n (stk (fst s))) c', b') else Halt Wrong s.

  (* a call of the function of identity [id]; the arguments are on the stack, the last one on top *)
  Definition call_fn (id : N) (s : mst) : step mst halt :=
    match me_funcs E id with
    | None => Halt Wrong s
    | Some (ti, ls, body) =>
        match me_tys E ti with
        | None => Halt Wrong s
        | Some (ps, rs) =>
            let n := length ps in
            let args := rev (firstn n (stk (fst s))) in
            if all_ty ps args then
              match rb id body (callee_st (fst s) (mk_frame (me_lslot E id) args ls), snd s) with
              | Fall (c', b') => finish s n rs c' b'
              | Br O (c', b') => finish s n rs c' b'
              | Stop Return (c', b') => finish s n rs c' b'
              | Stop Trap (c', b') => Halt Trap (back (fst s) (stk (fst s)) c', b')   (* a trap, or exhaustion further down *)
              | Fuel => Halt Trap (fst s, true)                                        (* EXHAUSTED: call depth or loop fuel *)
              | _ => Halt Wrong s                                                      (* went wrong, stuck, branch past the function *)
              end
            else Halt Wrong s
        end
    end.

  (* call_indirect: pop an i32; out of range / empty slot / signature mismatch: trap *)
  Definition call_ind (ti tb : N) (s : mst) : step mst halt :=
    if me_tslot E tb =? 0 then
      match stk (fst s) with
      | VI32 i :: k =>
          match nth_optN i (me_tbl E) with
          | Some (Some id) =>
              match me_funcs E id with
              | None => Halt Wrong s
              | Some (tj, _, _) =>
                  match me_tys E ti, me_tys E tj with
                  | Some (ps, rs), Some (ps', rs') =>
                      if vlist_eqb ps ps' && vlist_eqb rs rs' then call_fn id (with_stk (fst s) k, snd s) else Halt Trap s
                  | _, _ => Halt Wrong s
                  end
              end
          | _ => Halt Trap s
          end
      | _ => Halt Wrong s
      end
    else Halt Wrong s.

  (* the operator semantics inside the function of identity [cur] *)
  Definition op_sem (cur : N) (w : wins) (s : mst) : step mst halt :=
    match w with
    | WOp (W_Call f) => call_fn (me_fslot E f) s
    | WOp (W_CallIndirect ti tb) => call_ind ti tb s
    | _ => lift_step (snd s) (core_sem (me_lslot E cur) (me_gslot E) (me_mslot E) w (fst s))
    end.
End Call.

(* running a body with at most [k - 1] further nested call levels; [k = 0]: cannot be run at all *)
Fixpoint run_body (E : menv) (fuel : nat) (k : nat) (id : N) (body : list rt) (s : mst) {struct k} : res mst halt :=
  match k with
  | O => Fuel
  | S k' => eval mst halt pop_cond_m pop_index_m unwind_m (enter_m (me_tys E)) leave_m
              (op_sem E (run_body E fuel k') id) (arity (me_tys E)) (loop_arity (me_tys E)) fuel body s
  end.

(* THE STEP FUNCTION with calls: inside function [cur], calls may nest [k] deep *)
Definition mod_sem (E : menv) (fuel : nat) (k : nat) (cur : N) : wins -> mst -> step mst halt :=
  op_sem E (run_body E fuel k) cur.

(* ENTRY POINT: call the function of IDENTITY [f] on [args] with the globals / memory of [s0]; calls nest at most [k]
   deep ([k = 1]: [f] itself may not call).  [None] = call depth or loop fuel exhausted somewhere; [Some (Fall s)] = returned,
   [stk s] = the results (last one first), [globs s] / [mem s] / [pages s] the final globals and memory;
   [Some (Stop Trap s)] = trapped; [Some (Stop Wrong _)] = went wrong *)
Definition entry_st (s0 : st) (args : list val) : st :=
  {| stk := rev args; locs := []; globs := globs s0; labs := []; mem := mem s0; pages := pages s0; max_pages := max_pages s0 |}.
Definition run_mod (E : menv) (k : nat) (fuel : nat) (f : N) (args : list val) (s0 : st) : option (res st halt) :=
  match call_fn E (run_body E fuel k) f (entry_st s0 args, false) with
  | Next (c, b) => if b then None else Some (Fall c)
  | Halt h (c, b) => if b then None else Some (Stop h c)
  end.

(* ------------------------------------------------------------------ the environment of a module *)
(* the function whose index has identity [id] (the first one) *)
Definition find_func (m : cmod) (fslot : N -> N) (id : N) : option fdef :=
  match find (fun p => fslot (fst p) =? id) (numbered 0 (cm_funcs m)) with Some (_, d) => Some d | None => None end.
Definition env_of (m : cmod) (lslot : N -> N -> N) (fslot gslot mslot tslot : N -> N) : menv :=
  {| me_funcs := find_func m fslot; me_lslot := lslot; me_fslot := fslot; me_gslot := gslot; me_mslot := mslot;
     me_tslot := tslot; me_tys := fun i => nth_optN i (cm_tys m);
     me_tbl := map (option_map fslot) (cm_table m) |}.
