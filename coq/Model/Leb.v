(* Byte-level model of LEB128 as wasm-encoder / the `leb128` crate write it and wasmparser reads it:
   unsigned (section sizes, counts, indices, the size field of a code entry) and signed (i32.const / i64.const immediates,
   block-type indices).  [leb_len] of Model/CodeMap.v and [leb5] of Model/Dwarf.v are length functions of [enc_u].
   Definitions only; theorems in Proofs/Leb.v. *)
From Coq Require Import List NArith ZArith Bool. Import ListNotations.
Open Scope N_scope.

(* unsigned: 7 bits per byte, least significant group first, bit 7 = "more follows" *)
Fixpoint enc_u_fuel (fuel : nat) (n : N) : list N :=
  match fuel with
  | O => [N.land n 127]
  | S f => if n <? 128 then [n] else (N.lor (N.land n 127) 128) :: enc_u_fuel f (N.shiftr n 7)
  end.
(* 64-bit values need at most 10 groups; 18 groups = 126 bits leave the fuel unreachable for every usize *)
Definition enc_u (n : N) : list N := enc_u_fuel 18 n.

(* reader: Some (value, rest) ; None when the input ends inside a number *)
Fixpoint dec_u (bs : list N) : option (N * list N) :=
  match bs with
  | [] => None
  | b :: r =>
      if b <? 128 then Some (b, r)
      else match dec_u r with
           | Some (v, r') => Some (N.land b 127 + 128 * v, r')
           | None => None
           end
  end.

(* signed: two's complement groups; stop when the remaining value is 0 with bit 6 clear or -1 with bit 6 set *)
Fixpoint enc_s_fuel (fuel : nat) (z : Z) : list N :=
  let b := Z.to_N (Z.land z 127) in
  let z' := Z.shiftr z 7 in
  match fuel with
  | O => [b]
  | S f =>
      if ((z' =? 0)%Z && (b <? 64)) || ((z' =? -1)%Z && (64 <=? b)) then [b]
      else (N.lor b 128) :: enc_s_fuel f z'
  end.
Definition enc_s (z : Z) : list N := enc_s_fuel 18 z.

Fixpoint dec_s (bs : list N) : option (Z * list N) :=
  match bs with
  | [] => None
  | b :: r =>
      if b <? 128 then Some (if b <? 64 then Z.of_N b else (Z.of_N b - 128)%Z, r)
      else match dec_s r with
           | Some (v, r') => Some ((Z.of_N (N.land b 127) + 128 * v)%Z, r')
           | None => None
           end
  end.
