(* The validation gate of Module::parse (src/module/mod.rs), abstracted over the reference validator:
   the loop `for payload in parser.parse_all(wasm) { match payload? { .. } }` hands each payload to
   wasmparser's Validator before walrus consumes it; which arm does what is REGENERATED (Gen/Gate.v). *)
From Coq Require Import List Bool. Import ListNotations.
From WV Require Import Gen.Gate Gen.Features.

Section Gate.
  Variable payload : Type.
  Variable vstate : Type.
  Variable kind_of : payload -> payload_kind.
  (* Validator::<method>(payload): None = validation error *)
  Variable vstep : vstate -> payload -> option vstate.
  (* walrus's own processing of an already validated payload (the ret.parse_X methods): false = walrus reports an error *)
  Variable consume_ok : payload -> bool.

  Inductive verdict := Accept | Reject.

  Fixpoint gate (v : vstate) (ps : list payload) : verdict :=
    match ps with
    | [] => Accept
    | p :: r =>
        match arm (kind_of p) with
        | AK_Validated _ => match vstep v p with
                            | None => Reject
                            | Some v' => if consume_ok p then gate v' r else Reject
                            end
        | AK_ValidatedThenRejected _ => Reject
        | AK_Rejected => Reject
        | AK_Custom => gate v r
        | AK_Unchecked => if consume_ok p then gate v r else Reject
        end
    end.

  (* the standalone validator: every payload goes through Validator::payload *)
  Fixpoint reference (v : vstate) (ps : list payload) : option vstate :=
    match ps with
    | [] => Some v
    | p :: r => match vstep v p with None => None | Some v' => reference v' r end
    end.

  Definition supported (k : payload_kind) : bool :=
    match arm k with AK_Validated _ | AK_Custom => true | _ => false end.
End Gate.

(* feature sets *)
Definition feature_eqb (a b : feature) : bool :=
  match a, b with
  | F_BULK_MEMORY, F_BULK_MEMORY | F_FLOATS, F_FLOATS | F_MEMORY64, F_MEMORY64 | F_MULTI_MEMORY, F_MULTI_MEMORY
  | F_MULTI_VALUE, F_MULTI_VALUE | F_MUTABLE_GLOBAL, F_MUTABLE_GLOBAL | F_REFERENCE_TYPES, F_REFERENCE_TYPES
  | F_RELAXED_SIMD, F_RELAXED_SIMD | F_SATURATING_FLOAT_TO_INT, F_SATURATING_FLOAT_TO_INT | F_SIGN_EXTENSION, F_SIGN_EXTENSION
  | F_SIMD, F_SIMD | F_TAIL_CALL, F_TAIL_CALL | F_THREADS, F_THREADS => true
  | _, _ => false
  end.
Definition has (l : list feature) (f : feature) : bool := existsb (feature_eqb f) l.
Definition features_of (only_stable : bool) : list feature := if only_stable then features_stable else features_default.
