(* Executable model of src/module/functions/local_function/emit.rs : the `Emit`
   visitor (start_instr_seq / end_instr_seq / visit_instr, branch_target, block_type)
   driven by the dfs_in_order callback log.  Non-control instructions go through the
   REGENERATED [encode_plain].  Byte positions are prefix sums of the encoder's
   instruction lengths, which are a parameter ([ex_ilen]). *)
From Coq Require Import List NArith Bool. Import ListNotations.
From WV Require Import Gen.Ops Model.Common Model.IR Model.Traversal.
Open Scope N_scope.

Record ectx := { ex_id2i : space -> N -> N; ex_ilen : wins -> N }.

Record estate := {
  blocks : list N;        (* head = innermost (the Rust Vec's last element) *)
  kinds : list bkind;     (* head = last pushed *)
  out : list wins;        (* emitted so far, in order *)
  epos : N;               (* encoder.byte_len() *)
  imap : list (N * N)     (* (InstrLocId, position) pairs, in push order *)
}.

Definition init_estate (start_pos : N) : estate :=
  {| blocks := []; kinds := [KEntry]; out := []; epos := start_pos; imap := [] |}.

Definition emit_ins (cx : ectx) (st : estate) (w : wins) : estate :=
  {| blocks := blocks st; kinds := kinds st; out := out st ++ [w]; epos := epos st + ex_ilen cx w; imap := imap st |}.
Definition record (st : estate) (loc : N) : estate :=
  {| blocks := blocks st; kinds := kinds st; out := out st; epos := epos st; imap := imap st ++ [(loc, epos st)] |}.
Definition with_stacks (st : estate) (b : list N) (k : list bkind) : estate :=
  {| blocks := b; kinds := k; out := out st; epos := epos st; imap := imap st |}.

(* blocks.iter().rev().position(|b| b == block).expect(..) *)
Fixpoint position (s : N) (l : list N) (n : N) : option N :=
  match l with
  | [] => None
  | x :: l' => if N.eqb x s then Some n else position s l' (n + 1)
  end.
Definition branch_target (st : estate) (s : N) : res N := of_opt (position s (blocks st) 0).

Fixpoint branch_targets (st : estate) (ss : list N) : res (list N) :=
  match ss with
  | [] => Ok []
  | s :: ss' => rbind (branch_target st s) (fun t => rmap (cons t) (branch_targets st ss'))
  end.

Definition block_type (cx : ectx) (ty : seqty) : blockty :=
  match ty with
  | ST_Simple None => BT_Empty
  | ST_Simple (Some t) => BT_Val t
  | ST_Multi ty => BT_Func (ex_id2i cx S_type ty)
  end.

Definition emit_step (cx : ectx) (ar : arena) (st : estate) (e : ev) : res estate :=
  match e with
  | EStart s =>
      match nth_error ar (N.to_nat s), kinds st with
      | Some q, k :: _ =>
          let st1 := with_stacks st (s :: blocks st) (kinds st) in
          Ok (match k with
              | KBlock => emit_ins cx st1 (WBlock (block_type cx (sq_ty q)))
              | KLoop => emit_ins cx st1 (WLoop (block_type cx (sq_ty q)))
              | KIf => emit_ins cx st1 (WIf (block_type cx (sq_ty q)))
              | KEntry | KElse => st1
              end)
      | _, _ => Panic
      end
  | EEnd s =>
      match nth_error ar (N.to_nat s), blocks st, kinds st with
      | Some q, _ :: brest, k :: krest =>
          let st1 := record (with_stacks st brest krest) (sq_end q) in
          Ok (match k with
              | KIf => emit_ins cx (with_stacks st1 brest (KElse :: krest)) WElse
              | _ => emit_ins cx st1 WEnd
              end)
      | _, _, _ => Panic
      end
  | EInstr i loc =>
      let st1 := record st loc in
      match i with
      | IBlock _ => Ok (with_stacks st1 (blocks st1) (KBlock :: kinds st1))
      | ILoop _ => Ok (with_stacks st1 (blocks st1) (KLoop :: kinds st1))
      | IIfElse _ _ => Ok (with_stacks st1 (blocks st1) (KIf :: kinds st1))
      | IBr s => rmap (fun d => emit_ins cx st1 (WBr d)) (branch_target st1 s)
      | IBrIf s => rmap (fun d => emit_ins cx st1 (WBrIf d)) (branch_target st1 s)
      | IBrTable ss d =>
          rbind (branch_target st1 d) (fun dd =>
          rmap (fun ds => emit_ins cx st1 (WBrTable ds dd)) (branch_targets st1 ss))
      | IPlain p =>
          match encode_plain (ex_id2i cx) p with
          | Some w => Ok (emit_ins cx st1 (WOp w))
          | None => Panic
          end
      end
  | _ => Ok st      (* the Emit visitor keeps the default (empty) hooks for everything else *)
  end.

Fixpoint emit_events (cx : ectx) (ar : arena) (st : estate) (evs : list ev) : res estate :=
  match evs with
  | [] => Ok st
  | e :: evs' => rbind (emit_step cx ar st e) (fun st1 => emit_events cx ar st1 evs')
  end.

(* emit::run : dfs_in_order with the Emit visitor from the entry block *)
Definition emit_body (cx : ectx) (fuel : nat) (ar : arena) (entry : N) (start_pos : N) : res estate :=
  rbind (dfs_in_order false fuel ar entry) (fun evs => emit_events cx ar (init_estate start_pos) evs).
