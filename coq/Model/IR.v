(* The operator stream of a function body as wasmparser hands it over ([wins]):
   the supported non-control operators of Gen/Ops.v plus the control operators
   that append_instruction treats structurally. *)
From Coq Require Import NArith ZArith List Bool. Import ListNotations.
From WV Require Import Gen.Ops.
Open Scope N_scope.

Inductive blockty := BT_Empty | BT_Val (t : valty) | BT_Func (ti : N).

Inductive wins :=
  | WOp (o : wop)                      (* includes Return and Unreachable *)
  | WBlock (bt : blockty) | WLoop (bt : blockty) | WIf (bt : blockty)
  | WElse | WEnd
  | WBr (d : N) | WBrIf (d : N) | WBrTable (ds : list N) (d : N)
  | WNop.

Definition blockty_code (b : blockty) : list N :=
  match b with BT_Empty => [0] | BT_Val t => [1; valty_code t] | BT_Func i => [2; i] end.

(* injective serialisation, for comparison by computation *)
Definition wins_code (i : wins) : list N :=
  match i with
  | WOp o => 0 :: wop_code o
  | WBlock b => 1 :: blockty_code b | WLoop b => 2 :: blockty_code b | WIf b => 3 :: blockty_code b
  | WElse => [4] | WEnd => [5]
  | WBr d => [6; d] | WBrIf d => [7; d] | WBrTable ds d => 8 :: d :: N.of_nat (length ds) :: ds
  | WNop => [9]
  end.

Fixpoint nlist_eqb (a b : list N) : bool :=
  match a, b with
  | [], [] => true
  | x :: a', y :: b' => N.eqb x y && nlist_eqb a' b'
  | _, _ => false
  end.

Definition wins_eqb (a b : wins) : bool := nlist_eqb (wins_code a) (wins_code b).

(* ------------------------------------------------------------------ the walrus IR *)
(* InstrSeqType *)
Inductive seqty := ST_Simple (t : option valty) | ST_Multi (ty : N).

(* ir::Instr : the non-control variants are Gen/Ops.v [plain]; ids are arena positions *)
Inductive instr :=
  | IPlain (p : plain)
  | IBlock (s : N) | ILoop (s : N) | IIfElse (c a : N)
  | IBr (s : N) | IBrIf (s : N) | IBrTable (ss : list N) (d : N).

(* InstrSeq { ty, instrs : Vec<(Instr, InstrLocId)>, end } ; id = position in the arena *)
Record iseq := { sq_ty : seqty; sq_instrs : list (instr * N); sq_end : N }.
Definition arena := list iseq.

(* InstrLocId::default() *)
Definition default_loc : N := 4294967295.

Definition empty_seq (ty : seqty) : iseq := {| sq_ty := ty; sq_instrs := []; sq_end := default_loc |}.

(* BlockKind *)
Inductive bkind := KBlock | KLoop | KIf | KElse | KEntry.

(* Instr::following_instructions_are_unreachable is not used by the parser; the parser
   marks frames unreachable through ctx.unreachable() (Gen: marks_unreachable + br/br_table) *)

(* the tree an arena entry denotes (specification side) *)
Inductive tree := T (sid : N) (ty : seqty) (items : list (item * N)) (end_ : N)
with item :=
  | ItP (p : plain) | ItBr (s : N) | ItBrIf (s : N) | ItBrTable (ss : list N) (d : N)
  | ItB (t : tree) | ItL (t : tree) | ItI (c a : tree).

Definition tsid (t : tree) : N := match t with T s _ _ _ => s end.
Definition shallow (it : item) : instr :=
  match it with
  | ItP p => IPlain p | ItBr s => IBr s | ItBrIf s => IBrIf s | ItBrTable ss d => IBrTable ss d
  | ItB t => IBlock (tsid t) | ItL t => ILoop (tsid t) | ItI c a => IIfElse (tsid c) (tsid a)
  end.
Definition shallow_seq (t : tree) : iseq :=
  match t with T _ ty items e => {| sq_ty := ty; sq_instrs := map (fun x => (shallow (fst x), snd x)) items; sq_end := e |} end.

(* [Den ar t] : the arena holds exactly this tree at [tsid t] *)
Fixpoint Den (ar : arena) (t : tree) : Prop :=
  match t with T s ty items e =>
    nth_error ar (N.to_nat s) = Some (shallow_seq (T s ty items e)) /\
    (fix go (l : list (item * N)) := match l with [] => True | x :: l' => IDen ar (fst x) /\ go l' end) items
  end
with IDen (ar : arena) (it : item) : Prop :=
  match it with
  | ItB t | ItL t => Den ar t
  | ItI c a => Den ar c /\ Den ar a
  | _ => True
  end.
