(* The operator stream of a function body as wasmparser hands it over ([wins]):
   the supported non-control operators of Gen/Ops.v plus the control operators
   that append_instruction treats structurally. *)
From Coq Require Import NArith ZArith List Bool. Import ListNotations.
From WV Require Import Gen.Ops.
Open Scope N_scope.

Inductive blockty := BT_Empty | BT_Val (t : valty) | BT_Func (ti : N).

Inductive wins :=
  | WOp (o : wop)                      (* includes Return and Unreachable *)
  | WBlock (bt : blockty) | WLoop (bt : blockty) | WIf (bt : blockty)
  | WElse | WEnd
  | WBr (d : N) | WBrIf (d : N) | WBrTable (ds : list N) (d : N)
  | WNop.

Definition blockty_code (b : blockty) : list N :=
  match b with BT_Empty => [0] | BT_Val t => [1; valty_code t] | BT_Func i => [2; i] end.

(* injective serialisation, for comparison by computation *)
Definition wins_code (i : wins) : list N :=
  match i with
  | WOp o => 0 :: wop_code o
  | WBlock b => 1 :: blockty_code b | WLoop b => 2 :: blockty_code b | WIf b => 3 :: blockty_code b
  | WElse => [4] | WEnd => [5]
  | WBr d => [6; d] | WBrIf d => [7; d] | WBrTable ds d => 8 :: d :: N.of_nat (length ds) :: ds
  | WNop => [9]
  end.

Fixpoint nlist_eqb (a b : list N) : bool :=
  match a, b with
  | [], [] => true
  | x :: a', y :: b' => N.eqb x y && nlist_eqb a' b'
  | _, _ => false
  end.

Definition wins_eqb (a b : wins) : bool := nlist_eqb (wins_code a) (wins_code b).
