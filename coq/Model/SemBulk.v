(* BULK-MEMORY operators and PASSIVE DATA SEGMENTS on top of the whole-module machine of Model/SemMod.v: memory.fill, memory.copy,
   memory.init, data.drop.  Definitions only, executable.  A NEW LAYER, built the way Model/SemMod.v is built on Model/SemCore.v.

   THE DATA INDEX SPACE.  `memory.init d` / `data.drop d` resolve the data INDEX [d] through a slot map [be_dslot] into a data
   IDENTITY; the environment maps identities to the bytes of the segment ([be_datas]).  A module whose data segments are renumbered
   (walrus renumbers them at emit; its GC pass deletes unused passive ones) has, with the compensating slot map, the same identities.

   THE STATE is [bst = mst * list N]: the state of Model/SemMod.v (unchanged) and the IDENTITIES OF THE DATA SEGMENTS THAT HAVE BEEN
   DROPPED.  A dropped segment has length 0.  An ACTIVE segment counts as dropped once instantiation has written it.

   SEMANTICS (the bulk-memory proposal as merged into the standard; what V8 implements).  memory.fill d val n / memory.copy d s n /
   memory.init d s n pop three i32, n ON TOP.  The WHOLE range is bounds-checked first, without wrap-around ([d + n <= pages * 65536]
   and [s + n <=] the size of the source: the memory, or the segment - 0 when dropped); out of bounds = TRAP WITH NOTHING WRITTEN;
   n = 0 in bounds is a no-op, n = 0 one past the end traps.  memory.copy copies low-to-high when [d <= s] and high-to-low otherwise,
   so that overlapping ranges behave as if the source had been read completely first.  data.drop is idempotent.
   The memory index goes through [me_mslot] exactly like the loads / stores of Model/SemCore.v: slot 0 is THE memory, anything else is
   going wrong.  A data identity without a segment ([be_datas id = None]) is going wrong (validation rejects it).

   CALLS.  The callee may drop segments, so the dropped list is threaded through the calls: [call_fn_b] / [call_ind_b] are
   [call_fn] / [call_ind] of Model/SemMod.v with the third component carried along.  Every operator that is neither one of the four
   nor a call is DELEGATED to [op_sem] of Model/SemMod.v through the first component ([lift_step_b], as [lift_step] there). *)
From Coq Require Import List NArith ZArith Bool. Import ListNotations.
From WV Require Import Gen.Ops Model.Common Model.IR Model.ParseFn Model.ParseSpec Model.EmitFn Model.BodySpec Model.Sem Model.SemCore Model.SemMod Model.Inst.
Open Scope N_scope.

(* ------------------------------------------------------------------ environment and state *)
Record benv := {
  be_menv : menv;
  be_dslot : N -> N;                     (* data index -> identity *)
  be_datas : N -> option (list N)        (* IDENTITY -> the bytes of the segment *)
}.
Definition bst := (mst * list N)%type.   (* second component: the identities of the dropped segments *)

Definition lift_b (f : mst -> mst) (s : bst) : bst := (f (fst s), snd s).
Definition lift_pop_b {A} (f : mst -> option (A * mst)) (s : bst) : option (A * bst) :=
  match f (fst s) with Some (a, c) => Some (a, (c, snd s)) | None => None end.
Definition pop_cond_b : bst -> option (bool * bst) := lift_pop_b pop_cond_m.
Definition pop_index_b : bst -> option (N * bst) := lift_pop_b pop_index_m.
Definition unwind_b (k : N) : bst -> bst := lift_b (unwind_m k).
Definition enter_b (tys : N -> option (list valty * list valty)) (bt : blockty) : bst -> bst := lift_b (enter_m tys bt).
Definition leave_b : bst -> bst := lift_b leave_m.
Definition lift_step_b (d : list N) (r : step mst halt) : step bst halt :=
  match r with Next c => Next (c, d) | Halt h c => Halt h (c, d) end.

(* ------------------------------------------------------------------ the three memory writers, on the state of Model/SemCore.v *)
Definition mem_len (c : st) : N := pages c * page_size.
(* [n] times the byte [v], from address [a] upwards *)
Fixpoint fill_bytes (n : nat) (a v : N) (m : list (N * N)) : list (N * N) :=
  match n with O => m | S k => fill_bytes k (a + 1) v (mset a v m) end.
(* low-to-high: byte 0 first *)
Fixpoint copy_fwd (n : nat) (d s : N) (m : list (N * N)) : list (N * N) :=
  match n with O => m | S k => copy_fwd k (d + 1) (s + 1) (mset d (mget s m) m) end.
(* high-to-low: byte [n - 1] first *)
Fixpoint copy_bwd (n : nat) (d s : N) (m : list (N * N)) : list (N * N) :=
  match n with O => m | S k => copy_bwd k d s (mset (d + N.of_nat k) (mget (s + N.of_nat k) m) m) end.

(* memory.fill: [d val n], n on top *)
Definition mem_fill (mi : N) (c : st) : step st halt :=
  if mi =? 0 then
    match stk c with
    | VI32 n :: VI32 v :: VI32 d :: k =>
        if d + n <=? mem_len c then Next (with_mem c k (fill_bytes (N.to_nat n) d (v mod 256) (mem c))) else trap c
    | _ => wrong c
    end
  else wrong c.
(* memory.copy: [d s n], n on top; [md] / [ms] = the slots of the destination / source memory *)
Definition mem_copy (md ms : N) (c : st) : step st halt :=
  if (md =? 0) && (ms =? 0) then
    match stk c with
    | VI32 n :: VI32 s :: VI32 d :: k =>
        if (s + n <=? mem_len c) && (d + n <=? mem_len c) then
          Next (with_mem c k (if d <=? s then copy_fwd (N.to_nat n) d s (mem c) else copy_bwd (N.to_nat n) d s (mem c)))
        else trap c
    | _ => wrong c
    end
  else wrong c.
(* memory.init: [d s n], n on top; [bs] = the bytes the segment has NOW (empty when dropped) *)
Definition mem_init (mi : N) (bs : list N) (c : st) : step st halt :=
  if mi =? 0 then
    match stk c with
    | VI32 n :: VI32 s :: VI32 d :: k =>
        if (s + n <=? N.of_nat (length bs)) && (d + n <=? mem_len c) then
          Next (with_mem c k (write_bytes d (firstn (N.to_nat n) (skipn (N.to_nat s) bs)) (mem c)))
        else trap c
    | _ => wrong c
    end
  else wrong c.

Definition memN (x : N) (l : list N) : bool := existsb (N.eqb x) l.
Definition add_drop (x : N) (l : list N) : list N := if memN x l then l else x :: l.
(* the bytes a segment has now *)
Definition seg_now (dr : list N) (id : N) (bs : list N) : list N := if memN id dr then [] else bs.

Definition is_bulk (o : wop) : bool :=
  match o with W_MemoryInit _ _ | W_DataDrop _ | W_MemoryCopy _ _ | W_MemoryFill _ => true | _ => false end.

(* the four operators *)
Definition bulk_op (E : benv) (o : wop) (s : bst) : step bst halt :=
  let M := be_menv E in
  match o with
  | W_MemoryFill m => lift_step_b (snd s) (lift_step (snd (fst s)) (mem_fill (me_mslot M m) (fst (fst s))))
  | W_MemoryCopy dm sm => lift_step_b (snd s) (lift_step (snd (fst s)) (mem_copy (me_mslot M dm) (me_mslot M sm) (fst (fst s))))
  | W_MemoryInit d m =>
      let id := be_dslot E d in
      match be_datas E id with
      | Some bs => lift_step_b (snd s) (lift_step (snd (fst s)) (mem_init (me_mslot M m) (seg_now (snd s) id bs) (fst (fst s))))
      | None => Halt Wrong s
      end
  | W_DataDrop d =>
      let id := be_dslot E d in
      match be_datas E id with
      | Some _ => Next (fst s, add_drop id (snd s))
      | None => Halt Wrong s
      end
  | _ => Halt Wrong s
  end.

(* ------------------------------------------------------------------ calls, with the dropped list carried along *)
Section CallB.
  Variable E : benv.
  Variable rb : N -> list rt -> bst -> res bst halt.

  (* the callee has returned in state [(c', b')] with the dropped list [d'] *)
  Definition finish_b (s : bst) (n : nat) (rs : list valty) (c' : st) (b' : bool) (d' : list N) : step bst halt :=
    match finish (fst s) n rs c' b' with Next c => Next (c, d') | Halt h c => Halt h (c, snd s) end.

  Definition call_fn_b (id : N) (s : bst) : step bst halt :=
    let M := be_menv E in
    match me_funcs M id with
    | None => Halt Wrong s
    | Some (ti, ls, body) =>
        match me_tys M ti with
        | None => Halt Wrong s
        | Some (ps, rs) =>
            let n := length ps in
            let c := fst (fst s) in
            let args := rev (firstn n (stk c)) in
            if all_ty ps args then
              match rb id body ((callee_st c (mk_frame (me_lslot M id) args ls), snd (fst s)), snd s) with
              | Fall ((c', b'), d') => finish_b s n rs c' b' d'
              | Br O ((c', b'), d') => finish_b s n rs c' b' d'
              | Stop Return ((c', b'), d') => finish_b s n rs c' b' d'
              | Stop Trap ((c', b'), d') => Halt Trap ((back c (stk c) c', b'), d')    (* what the callee dropped stays dropped *)
              | Fuel => Halt Trap ((c, true), snd s)
              | _ => Halt Wrong s
              end
            else Halt Wrong s
        end
    end.

  Definition call_ind_b (ti tb : N) (s : bst) : step bst halt :=
    let M := be_menv E in
    if me_tslot M tb =? 0 then
      match stk (fst (fst s)) with
      | VI32 i :: k =>
          match nth_optN i (me_tbl M) with
          | Some (Some id) =>
              match me_funcs M id with
              | None => Halt Wrong s
              | Some (tj, _, _) =>
                  match me_tys M ti, me_tys M tj with
                  | Some (ps, rs), Some (ps', rs') =>
                      if vlist_eqb ps ps' && vlist_eqb rs rs' then call_fn_b id ((with_stk (fst (fst s)) k, snd (fst s)), snd s) else Halt Trap s
                  | _, _ => Halt Wrong s
                  end
              end
          | _ => Halt Trap s
          end
      | _ => Halt Wrong s
      end
    else Halt Wrong s.

  (* the operator semantics inside the function of identity [cur]: the four operators, the calls, and everything else
     delegated to the module machine (whose callee runner is never reached: the calls are taken before) *)
  Definition bulk_sem (cur : N) (w : wins) (s : bst) : step bst halt :=
    match w with
    | WOp (W_MemoryInit d m) => bulk_op E (W_MemoryInit d m) s
    | WOp (W_DataDrop d) => bulk_op E (W_DataDrop d) s
    | WOp (W_MemoryCopy dm sm) => bulk_op E (W_MemoryCopy dm sm) s
    | WOp (W_MemoryFill m) => bulk_op E (W_MemoryFill m) s
    | WOp (W_Call f) => call_fn_b (me_fslot (be_menv E) f) s
    | WOp (W_CallIndirect ti tb) => call_ind_b ti tb s
    | _ => lift_step_b (snd s) (op_sem (be_menv E) (fun _ _ _ => Stuck) cur w (fst s))
    end.
End CallB.

Fixpoint run_body_b (E : benv) (fuel : nat) (k : nat) (id : N) (body : list rt) (s : bst) {struct k} : res bst halt :=
  match k with
  | O => Fuel
  | S k' => eval bst halt pop_cond_b pop_index_b unwind_b (enter_b (me_tys (be_menv E))) leave_b
              (bulk_sem E (run_body_b E fuel k') id) (arity (me_tys (be_menv E))) (loop_arity (me_tys (be_menv E))) fuel body s
  end.
Definition bulk_mod_sem (E : benv) (fuel : nat) (k : nat) (cur : N) : wins -> bst -> step bst halt :=
  bulk_sem E (run_body_b E fuel k) cur.

(* ENTRY POINT, as [run_mod]: the function of IDENTITY [f] on [args] from the globals / memory of [s0] with the segments [dr0]
   dropped; the result carries the final dropped list *)
Definition run_mod_b (E : benv) (k : nat) (fuel : nat) (f : N) (args : list val) (s0 : st) (dr0 : list N) : option (res (st * list N) halt) :=
  match call_fn_b E (run_body_b E fuel k) f ((entry_st s0 args, false), dr0) with
  | Next ((c, b), d) => if b then None else Some (Fall (c, d))
  | Halt h ((c, b), d) => if b then None else Some (Stop h (c, d))
  end.

(* ------------------------------------------------------------------ instantiation with the data segments *)
Definition seg_bytes (d : dseg) : list N := match d with DActive _ _ bs => bs | DPassive bs => bs end.
(* the segment whose index has identity [id] (the first one) *)
Definition find_data (ds : list dseg) (dslot : N -> N) (id : N) : option (list N) :=
  match find (fun p => dslot (fst p) =? id) (numbered 0 ds) with Some (_, d) => Some (seg_bytes d) | None => None end.
(* the identities of the ACTIVE segments: dropped once written *)
Definition active_ids (dslot : N -> N) (ds : list dseg) : list N :=
  flat_map (fun p => match snd p with DActive _ _ _ => [dslot (fst p)] | DPassive _ => [] end) (numbered 0 ds).
Definition benv_of (im : imod) (tbl : list (option N)) (lslot : N -> N -> N) (fslot gslot mslot tslot dslot : N -> N) : benv :=
  {| be_menv := env_of (cmod_of im tbl) lslot fslot gslot mslot tslot; be_dslot := dslot; be_datas := find_data (im_datas im) dslot |}.

Inductive inst_result_b := IOkB (E : benv) (s0 : st) (dr : list N) | ITrapB | IWrongB | IExhaustedB.
Definition after_start_b (E : benv) (r : option (res (st * list N) halt)) : inst_result_b :=
  match r with
  | None => IExhaustedB
  | Some (Fall (s, d)) => match stk s with [] => IOkB E (init_st (globs s) (mem s) (pages s) (max_pages s)) d | _ => IWrongB end
  | Some (Stop Trap _) => ITrapB
  | Some _ => IWrongB
  end.
(* [inst_pre] of Model/Inst.v (globals, element segments, ACTIVE data segments written in order, all bounds-checked), then the
   start function in the machine above: it may use memory.init / data.drop *)
Definition instantiate_b (fuel k : nat) (im : imod) (lslot : N -> N -> N) (fslot gslot mslot tslot dslot : N -> N) : inst_result_b :=
  match inst_pre im gslot mslot tslot with
  | PTrap => ITrapB
  | PWrong => IWrongB
  | POk (tbl, s0) =>
      let E := benv_of im tbl lslot fslot gslot mslot tslot dslot in
      let dr0 := active_ids dslot (im_datas im) in
      match im_start im with
      | None => IOkB E s0 dr0
      | Some f => after_start_b E (run_mod_b E k fuel (fslot f) [] s0 dr0)
      end
  end.

Inductive call_result_b := CRanB (r : option (res (st * list N) halt)) | CInstTrapB | CInstWrongB | CInstExhaustedB.
Definition call_after_b (r : inst_result_b) (k fuel : nat) (f : N) (args : list val) : call_result_b :=
  match r with
  | IOkB E s0 dr => CRanB (run_mod_b E k fuel f args s0 dr)
  | ITrapB => CInstTrapB
  | IWrongB => CInstWrongB
  | IExhaustedB => CInstExhaustedB
  end.
