#!/usr/bin/env python3
"""Developer helper: like mkprops.py but asks Coq for the (section-generalised) type of each lemma.
usage: mkprops2.py '<Require line(s)>' new=lemma ..."""
import re, subprocess, sys
req = sys.argv[1]
out = []
for a in sys.argv[2:]:
    new, lem = a.split("=")
    script = req + "\nSet Printing Width 110. Set Printing Depth 1000.\nCheck %s.\n" % lem
    r = subprocess.run(["coqtop", "-Q", ".", "WV", "-quiet"], input=script, capture_output=True, text=True, cwd="/verif/coq")
    txt = r.stdout
    m = re.search(re.escape(lem) + r"\s*:\s*(.*?)\n\s*\n", txt + "\n\n", re.S)
    if not m: sys.stderr.write("cannot get type of %s: %s %s\n" % (lem, txt[-300:], r.stderr[-300:])); continue
    ty = m.group(1).strip()
    ty = re.sub(r"\n\s*Coq <.*", "", ty, flags=re.S)
    out.append("Theorem %s :\n  %s.\nProof. exact %s. Qed.\n" % (new, ty.replace("\n", "\n  "), lem))
print("\n".join(out))
print("\n".join("Print Assumptions %s." % a.split("=")[0] for a in sys.argv[2:]))
