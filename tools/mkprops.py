#!/usr/bin/env python3
"""Developer helper: copies theorem statements verbatim from Proofs/*.v into a Props file skeleton
   (name mapping given on the command line as  new_name=File:lemma ...). Output is printed; the
   Props files are committed, not generated at check time."""
import re, sys
out = []
for a in sys.argv[1:]:
    new, src = a.split("=")
    f, lem = src.split(":")
    s = open("/verif/coq/Proofs/%s.v" % f).read()
    m = re.search(r"(?:Theorem|Lemma|Corollary)\s+%s\b(.*?)\nProof\." % re.escape(lem), s, re.S)
    if not m:
        m = re.search(r"(?:Theorem|Lemma|Corollary)\s+%s\b(.*?)\s*Proof\." % re.escape(lem), s, re.S)
    body = m.group(1).rstrip()
    head, _, _ = body.partition(":")
    binders = re.findall(r"([A-Za-z_][A-Za-z0-9_']*)", head) if head.strip() and "(" not in head and "{" not in head else None
    if head.strip() == "":
        out.append("Theorem %s%s\nProof. exact %s. Qed.\n" % (new, body, lem))
    elif binders is not None:
        out.append("Theorem %s%s\nProof. exact (%s %s). Qed.\n" % (new, body, lem, " ".join(binders)))
    else:
        out.append("Theorem %s%s\nProof. intros; eapply %s; eauto. Qed. (* CHECK binders *)\n" % (new, body, lem))
print("\n".join(out))
print("\n".join("Print Assumptions %s." % a.split("=")[0] for a in sys.argv[1:]))
