#!/usr/bin/env python3
"""Developer helper: prepares a scratch worktree + prompt for a mutation-seeding agent.
usage: mkmut.py <ID> [<suffix>]   -> worktree /tmp/mut/w<ID><suffix>, prompt /tmp/mut/prompt_<ID><suffix>.txt
The prompt contains ONLY the property text (from properties.jsonl) and generic instructions."""
import json, os, subprocess, sys
ID = sys.argv[1]; suf = sys.argv[2] if len(sys.argv) > 2 else ""
tag = ID + suf
p = next(json.loads(l) for l in open("/verif/properties.jsonl") if json.loads(l)["id"] == ID)
prop = "Property %s: %s\n\nStatement: %s\n\nQuantified over: %s\n\nWhy the existing tests cannot settle it: %s\n\nFiles where the mechanism lives: %s\n" % (
    ID, p["title"], p["statement"], p["quantifier"]["text"], p["why_tests_cant"], ", ".join(p["anchors"]["files"]))
t = open("/verif/tools/mutation_prompt_template.txt").read()
wt = "/tmp/mut/w" + tag
import re
t = t.replace("__WT__", wt).replace("__ID__", tag)
t = t.replace("__PROP__", prop)
# earlier seeded ideas for this property: facts about changes already in the collection (nothing about the checks), so that a new change uses another mechanism
import glob
prev = []
for d in sorted(glob.glob("/verif/seeded/%s*/meta.json" % ID)):
    b = json.load(open(d)).get("breaks") or ""
    if b: prev.append("  - " + b.strip().replace("\n", " ")[:400])
if prev:
    t += "\n\nIdeas ALREADY USED for this property by other engineers (do NOT repeat them or close variants; choose a different mechanism, ideally in a different function or file):\n" + "\n".join(prev) + "\n"
os.makedirs("/tmp/mut/out/" + tag, exist_ok=True)
open("/tmp/mut/prompt_%s.txt" % tag, "w").write(t)
subprocess.run(["git", "-C", "/repo", "worktree", "add", "--detach", wt, "HEAD"], check=True, capture_output=True)
print(wt)
