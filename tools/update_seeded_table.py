#!/usr/bin/env python3
"""Developer helper: refreshes the seeded-change table in DESIGN.md section 0.5 from seeded/*/meta.json."""
import json, glob, os, re
rows = []
for d in sorted(glob.glob('/verif/seeded/*')):
    m = json.load(open(d + '/meta.json')); i = os.path.basename(d)
    br = (m.get('breaks') or (m.get('agent_meta') or {}).get('summary') or '').replace('\n', ' ').replace('|', '/')
    det = (m.get('detected_by') or '').replace('\n', ' ').replace('|', '/')
    rows.append("| %s | %s | %s |" % (i, br[:260], det[:420]))
s = open('/verif/DESIGN.md').read()
head = "| id | change | what caught it |\n|----|--------|----------------|\n"
a = s.index(head) + len(head)
b = s.index("\n\n", a)
s = s[:a] + "\n".join(rows) + s[b:]
open('/verif/DESIGN.md', 'w').write(s)
print(len(rows), "rows")
