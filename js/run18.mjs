// C18: the edited module executed against the expected behaviour.
// usage: node run18.mjs <dir> <id>
//  kind 1 (replace_imported_func of env.imp by `i32.const M; drop`): the edited module must behave like the ORIGINAL instantiated with
//          a host function that does nothing; it must not import env.imp any more and never call the host.
//  kind 2 (replace_exported_func(f) by a body returning fixed constants or trapping): calling the replaced export yields exactly the
//          constants (or `unreachable`); every other export behaves as in the original (internal callers still run the original f).
import fs from 'node:fs';
const [dir, id] = process.argv.slice(2);
const plan = JSON.parse(fs.readFileSync(`${dir}/${id}.plan.json`, 'utf8'));
const A = fs.readFileSync(`${dir}/${id}.in.wasm`), B = fs.readFileSync(`${dir}/${id}.out.wasm`);
function conv(a) { switch (a.t) { case 'i32': return Number(a.v) | 0; case 'i64': return BigInt(a.v); case 'f32': case 'f64': return Number(a.v); default: return null; } }
function show(v) { if (v === undefined) return 'void'; if (Array.isArray(v)) return '[' + v.map(show).join(',') + ']'; if (typeof v === 'number') return Object.is(v, -0) ? '-0' : (Number.isNaN(v) ? 'NaN' : String(v)); if (typeof v === 'bigint') return v + 'n'; if (v === null) return 'null'; if (typeof v === 'function') return 'funcref'; return typeof v; }
function trapClass(e) { if (e instanceof WebAssembly.RuntimeError) return 'trap:' + e.message; if (e instanceof RangeError) return 'exhaustion'; return 'error:' + String(e && e.message).slice(0, 60); }
function run(bytes, which) {
  const trace = []; const log = []; let inst, mod;
  try { mod = new WebAssembly.Module(bytes); const imp = {}; for (const d of WebAssembly.Module.imports(mod)) { imp[d.module] ??= {}; if (d.kind === 'function') imp[d.module][d.name] = () => { trace.push(d.name); }; }
        inst = new WebAssembly.Instance(mod, imp); } catch (e) { return { inst: 'instantiate:' + trapClass(e), log, trace, fin: '', imports: [] }; }
  for (const c of plan.calls) { let r; try { r = 'ok:' + show(inst.exports[c.f](...c.args.map(conv))); } catch (e) { r = trapClass(e); }
    log.push({ f: c.f, r }); }
  const fin = [];
  for (const g of plan.globals) { try { fin.push(`${g}=${show(inst.exports[g].value)}`); } catch (e) { fin.push(`${g}=?`); } }
  for (const m of plan.memories) { const b = new Uint8Array(inst.exports[m].buffer); let h = 2166136261 >>> 0; for (let i = 0; i < b.length; i++) { h ^= b[i]; h = Math.imul(h, 16777619) >>> 0; } fin.push(`${m}:${b.length}:${h}`); }
  for (const t of plan.tables) { fin.push(`${t}:${inst.exports[t].length}`); }
  return { inst: 'ok', log, trace, fin: fin.join(' '), imports: WebAssembly.Module.imports(mod).filter(d => d.kind === 'function').map(d => d.module + '.' + d.name) };
}
const a = run(A, 'in'), b = run(B, 'out');
// stack exhaustion happens at an implementation-defined depth (frame sizes differ between the binaries): the comparison stops at
// the first call that exhausts the stack in either binary and the final state is then not compared
let cut = -1;
for (let i = 0; i < Math.max(a.log.length, b.log.length); i++) if ((a.log[i] && a.log[i].r === 'exhaustion') || (b.log[i] && b.log[i].r === 'exhaustion')) { cut = i; break; }
if (cut >= 0) { a.log.length = Math.min(a.log.length, cut); b.log.length = Math.min(b.log.length, cut); a.fin = b.fin = ''; }
const mism = [];
if (a.inst !== b.inst) mism.push(`instantiation: original ${a.inst} / edited ${b.inst}`);
if (plan.kind === 1) {
  if (b.imports.includes('env.imp')) mism.push('the edited module still imports env.imp');
  if (b.trace.length) mism.push(`the edited module called the host ${b.trace.length} times`);
  for (let i = 0; i < a.log.length; i++) if (a.log[i].r !== b.log[i].r) { mism.push(`call ${i} ${a.log[i].f}: original-with-no-op-host \`${a.log[i].r}\` / edited \`${b.log[i].r}\``); if (mism.length > 4) break; }
  if (a.fin !== b.fin) mism.push(`final state: original \`${a.fin}\` / edited \`${b.fin}\``);
} else {
  const want = plan.trap ? 'trap:unreachable' : 'ok:' + (plan.expect.length === 0 ? 'void' : plan.expect.length === 1 ? plan.expect[0] : '[' + plan.expect.join(',') + ']');
  let diverged = false;   // once the replaced export has been called the state may legitimately differ (the original body is not run)
  for (let i = 0; i < a.log.length; i++) {
    if (a.log[i].f === plan.replaced_export) { if (b.log[i].r !== want) mism.push(`call ${i}: the replaced export ${plan.replaced_export} returned \`${b.log[i].r}\`, the new body yields \`${want}\``); diverged = true; }
    else if (!diverged && a.log[i].r !== b.log[i].r) { mism.push(`call ${i} ${a.log[i].f}: original \`${a.log[i].r}\` / edited \`${b.log[i].r}\``); }
    if (mism.length > 4) break;
  }
  if (!diverged && a.fin !== b.fin) mism.push(`final state: original \`${a.fin}\` / edited \`${b.fin}\``);
}
console.log(JSON.stringify({ id, name: plan.name, kind: plan.kind, verdict: mism.length ? 'differs' : 'same', mismatches: mism, calls: a.log.length, replaced_calls: a.log.filter(l => l.f === plan.replaced_export).length, cut_at_exhaustion: cut }));
