// Bulk-memory modules observed in V8, for the Coq model of memory.init / data.drop / memory.copy / memory.fill (Model/SemBulk.v, C01 / C06).
// usage: node runbulk.mjs <dir>     reads <dir>/index.json (cases: id, nfuncs, gnames, import_gi, calls = [{f, args}]) as written by `vh c01bulk`.
// Exactly the protocol of js/runinst.mjs: for <id>.in.wasm and <id>.out.wasm (walrus's round trip, half of them after its GC pass - passive data
// segments deleted / renumbered): instantiate (imports: env.gi), record `ok` or the error class (an out-of-bounds ACTIVE segment and a trapping start
// function - which may itself run memory.init / data.drop - are RuntimeErrors at instantiation), the exported globals, a checksum of the memory `m`,
// its size in pages, the table `t`; then every call of the index on a FRESH instance (so that data.drop of one call is not seen by the next):
// result bit patterns or the trap message, globals g0 / g1, memory checksum and size.  `same` is false on any difference between input and output.
import fs from 'node:fs';
const [dir] = process.argv.slice(2);
const index = JSON.parse(fs.readFileSync(`${dir}/index.json`, 'utf8'));
function conv(a) { return a.t === 'i32' ? (Number(a.v) | 0) : BigInt(a.v); }
function bits(v) { if (typeof v === 'bigint') return 'q' + BigInt.asUintN(64, v).toString(); return 'i' + (v >>> 0).toString(); }
function memsum(inst) {
  const b = new Uint8Array(inst.exports.m.buffer); let h = 0n;
  for (let i = 0; i < b.length; i++) if (b[i]) h = (h + BigInt(b[i]) * BigInt(1 + (i % 251))) % 4294967296n;
  return { memsum: h.toString(), pages: String(b.length / 65536) };
}
function instantiate(bytes, c) {
  const imports = { env: { gi: c.import_gi === null ? 0 : (Number(c.import_gi) | 0) } };
  try { return { inst: new WebAssembly.Instance(new WebAssembly.Module(bytes), imports) }; }
  catch (e) {
    const cls = (e instanceof WebAssembly.RuntimeError) ? 'RuntimeError' : (e instanceof WebAssembly.LinkError) ? 'LinkError' : (e instanceof WebAssembly.CompileError) ? 'CompileError' : (e instanceof RangeError) ? 'RangeError' : 'Error';
    return { err: cls, msg: String(e && e.message).slice(0, 100) };
  }
}
function observe(bytes, c) {
  const r = instantiate(bytes, c);
  if (!r.inst) return { v: r.err, msg: r.msg };
  const ex = r.inst.exports, globals = {};
  for (const g of c.gnames) globals[g.name] = (ex[g.name] === undefined) ? 'missing' : bits(ex[g.name].value);
  const table = [];
  for (let i = 0; i < ex.t.length; i++) { const f = ex.t.get(i); let k = f === null ? -1 : -2; if (f !== null) for (let j = 0; j < c.nfuncs; j++) if (ex['f' + j] === f) { k = j; break; } table.push(k); }
  return { v: 'ok', globals, ...memsum(r.inst), table };
}
function call(bytes, c, f, args) {
  const r = instantiate(bytes, c);
  if (!r.inst) return { r: 'instantiate:' + r.err };
  const inst = r.inst; let res;
  try { const v = inst.exports['f' + f](...args.map(conv)); res = 'ok:' + (v === undefined ? '' : (Array.isArray(v) ? v.map(bits).join(',') : bits(v))); }
  catch (e) { res = (e instanceof WebAssembly.RuntimeError) ? 'trap:' + e.message : (e instanceof RangeError ? 'exhaustion' : 'error:' + String(e && e.message).slice(0, 80)); }
  return { r: res, g0: bits(inst.exports.g0.value), g1: bits(inst.exports.g1.value), ...memsum(inst) };
}
const results = [];
for (const c of index.cases) {
  const a = fs.readFileSync(`${dir}/${c.id}.in.wasm`), b = fs.readFileSync(`${dir}/${c.id}.out.wasm`);
  const oi = observe(a, c), oo = observe(b, c);
  // the messages may differ in wording (offsets); the class and everything observable may not
  const strip = (o) => JSON.stringify({ ...o, msg: undefined });
  const calls = [];
  if (oi.v === 'ok' && oo.v === 'ok') c.calls.forEach((cl, k) => { const x = call(a, c, cl.f, cl.args), y = call(b, c, cl.f, cl.args); calls.push({ k, in: x, out: y, same: JSON.stringify(x) === JSON.stringify(y) }); });
  results.push({ id: c.id, in: oi, out: oo, same: strip(oi) === strip(oo) && calls.every((x) => x.same), calls });
}
console.log(JSON.stringify({ results }));
