// Integer-core executions for the Coq interpreter of Model/SemCore.v (C01).
// usage: node runcore.mjs <dir>      reads <dir>/index.json (cases: id, calls = argument vectors); for every case and argument vector a FRESH
// instance of <id>.in.wasm and of <id>.out.wasm is created, export f is called once, the result (or trap), the exported globals g0 / g1 and, when a
// memory m is exported, a checksum of its contents and its size in pages are recorded.  Prints one JSON object: {results: [{id, k, in: {r, g0, g1}, out: {...}}]}.
import fs from 'node:fs';
const [dir] = process.argv.slice(2);
const index = JSON.parse(fs.readFileSync(`${dir}/index.json`, 'utf8'));
function conv(a) { return a.t === 'i32' ? (Number(a.v) | 0) : BigInt(a.v); }
// results as unsigned bit patterns (decimal strings), tagged with the width
function bits(v) { if (typeof v === 'bigint') return 'q' + BigInt.asUintN(64, v).toString(); return 'i' + (v >>> 0).toString(); }
function one(bytes, args) {
  let inst;
  try { inst = new WebAssembly.Instance(new WebAssembly.Module(bytes), {}); } catch (e) { return { r: 'instantiate:' + String(e.message).slice(0, 80) }; }
  let r;
  try { const v = inst.exports.f(...args.map(conv)); r = 'ok:' + (v === undefined ? '' : (Array.isArray(v) ? v.map(bits).join(',') : bits(v))); }
  catch (e) { r = (e instanceof WebAssembly.RuntimeError) ? 'trap:' + e.message : 'error:' + String(e && e.message).slice(0, 80); }
  const o = { r, g0: bits(inst.exports.g0.value), g1: bits(inst.exports.g1.value) };
  if (inst.exports.m) { // checksum of the memory: sum of byte * (1 + address mod 251) over the non-zero bytes, mod 2^32; size in pages
    const b = new Uint8Array(inst.exports.m.buffer); let h = 0n;
    for (let i = 0; i < b.length; i++) if (b[i]) h = (h + BigInt(b[i]) * BigInt(1 + (i % 251))) % 4294967296n;
    o.memsum = h.toString(); o.pages = String(b.length / 65536); }
  return o;
}
const results = [];
for (const c of index.cases) {
  const a = fs.readFileSync(`${dir}/${c.id}.in.wasm`), b = fs.readFileSync(`${dir}/${c.id}.out.wasm`);
  c.calls.forEach((args, k) => results.push({ id: c.id, k, in: one(a, args), out: one(b, args) }));
}
console.log(JSON.stringify({ results }));
