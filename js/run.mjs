// Side-by-side execution of an input module and walrus's output (C01; with the GC output: C06).
// usage: node run.mjs <dir> <id> <out|gc>      prints one JSON object: {id, which, verdict, mismatches:[...], calls, traps}
// Both modules are instantiated against the same recording imports; the same call sequence runs on both instances
// (state carries over between calls); after every call: result or trap class, host-call trace; at the end: memory
// contents, exported globals, table sizes.
import fs from 'node:fs';
const [dir, id, which] = process.argv.slice(2);
const plan = JSON.parse(fs.readFileSync(`${dir}/${id}.plan.json`, 'utf8'));
const bytesA = fs.readFileSync(`${dir}/${id}.in.wasm`);
const bytesB = fs.readFileSync(`${dir}/${id}.${which}.wasm`);
function mkImports(mod, trace) {
  const imp = {};
  for (const d of WebAssembly.Module.imports(mod)) {
    imp[d.module] ??= {};
    if (d.kind === 'function') imp[d.module][d.name] = (...a) => { trace.push(`${d.module}.${d.name}(${a.map(String).join(',')})`); return undefined; };
    else if (d.kind === 'memory') imp[d.module][d.name] = new WebAssembly.Memory({ initial: 1, maximum: 65536 });
    else if (d.kind === 'table') imp[d.module][d.name] = new WebAssembly.Table({ initial: 8, element: 'anyfunc' });
    else if (d.kind === 'global') imp[d.module][d.name] = new WebAssembly.Global({ value: 'i32', mutable: false }, 0);
  }
  return imp;
}
function conv(a) { switch (a.t) { case 'i32': return Number(a.v) | 0; case 'i64': return BigInt(a.v); case 'f32': case 'f64': return Number(a.v); default: return null; } }
function show(v) { if (v === undefined) return 'void'; if (Array.isArray(v)) return '[' + v.map(show).join(',') + ']'; if (typeof v === 'number') return Object.is(v, -0) ? '-0' : (Number.isNaN(v) ? 'NaN' : String(v)); if (typeof v === 'bigint') return v + 'n'; if (v === null) return 'null'; if (typeof v === 'function') return 'funcref'; return typeof v; }
function trapClass(e) { if (e instanceof WebAssembly.RuntimeError) return 'trap:' + e.message; if (e instanceof RangeError) return 'exhaustion:' + e.message.slice(0, 40); return 'error:' + (e && e.constructor && e.constructor.name) + ':' + String(e && e.message).slice(0, 60); }
function run(bytes) {
  const log = []; const trace = [];
  let inst;
  try { const mod = new WebAssembly.Module(bytes); inst = new WebAssembly.Instance(mod, mkImports(mod, trace)); }
  catch (e) { return { inst: 'instantiate:' + trapClass(e), log, trace, fin: '' }; }
  for (const c of plan.calls) {
    const f = inst.exports[c.f]; const t0 = trace.length;
    let r; try { r = 'ok:' + show(f(...c.args.map(conv))); } catch (e) { r = trapClass(e); }
    log.push(`${c.f} -> ${r} | ${trace.slice(t0).join(';')}`);
  }
  let fin = [];
  for (const g of plan.globals) { try { fin.push(`${g}=${show(inst.exports[g].value)}`); } catch (e) { fin.push(`${g}=?`); } }
  for (const m of plan.memories) { const b = new Uint8Array(inst.exports[m].buffer); let h = 2166136261 >>> 0; for (let i = 0; i < b.length; i++) { h ^= b[i]; h = Math.imul(h, 16777619) >>> 0; } fin.push(`${m}:${b.length}:${h}`); }
  for (const t of plan.tables) { const tb = inst.exports[t]; let s = `${t}:${tb.length}:`; for (let i = 0; i < tb.length; i++) { let x; try { x = tb.get(i); } catch (e) { x = '?'; } s += x === null ? 'n' : 'f'; } fin.push(s); }
  return { inst: 'ok', log, trace, fin: fin.join(' ') };
}
const A = run(bytesA), B = run(bytesB);
// Stack exhaustion happens at an implementation-defined depth that depends on frame sizes (walrus drops unused locals, so its
// output recurses deeper): what a call that ran out of stack did before it did, and everything after it, is not comparable.
// The comparison stops at the first call that exhausts the stack in either binary; the final state is then not compared.
let cut = -1;
for (let i = 0; i < Math.max(A.log.length, B.log.length); i++) if ((A.log[i] || '').includes('-> exhaustion:') || (B.log[i] || '').includes('-> exhaustion:')) { cut = i; break; }
if (cut >= 0) { A.log.length = Math.min(A.log.length, cut); B.log.length = Math.min(B.log.length, cut); A.fin = B.fin = ''; }
const mism = [];
if (A.inst !== B.inst) mism.push(`instantiation: input ${A.inst} / output ${B.inst}`);
for (let i = 0; i < Math.max(A.log.length, B.log.length); i++) if (A.log[i] !== B.log[i]) { mism.push(`call ${i}: input \`${A.log[i]}\` / output \`${B.log[i]}\``); if (mism.length > 5) break; }
if (A.fin !== B.fin) mism.push(`final state: input \`${A.fin}\` / output \`${B.fin}\``);
const traps = A.log.filter(l => l.includes('-> trap:')).length;
console.log(JSON.stringify({ id, which, name: plan.name, verdict: mism.length ? 'differs' : 'same', mismatches: mism, calls: A.log.length, traps, host_calls: A.trace.length, inst: A.inst, cut_at_exhaustion: cut }));
