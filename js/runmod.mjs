// Whole-module executions for the Coq interpreter with calls (C01).
// usage: node runmod.mjs <dir>      reads <dir>/index.json (cases: id, calls = [{f, args}]); for every call a FRESH instance of <id>.in.wasm and of
// <id>.out.wasm is created and export f<k> is called once; the result (or trap), the exported globals, a checksum of the memory and its size are recorded.
import fs from 'node:fs';
const [dir] = process.argv.slice(2);
const index = JSON.parse(fs.readFileSync(`${dir}/index.json`, 'utf8'));
function conv(a) { return a.t === 'i32' ? (Number(a.v) | 0) : BigInt(a.v); }
function bits(v) { if (typeof v === 'bigint') return 'q' + BigInt.asUintN(64, v).toString(); return 'i' + (v >>> 0).toString(); }
function one(bytes, f, args) {
  let inst;
  try { inst = new WebAssembly.Instance(new WebAssembly.Module(bytes), {}); } catch (e) { return { r: 'instantiate:' + String(e.message).slice(0, 80) }; }
  let r;
  try { const v = inst.exports['f' + f](...args.map(conv)); r = 'ok:' + (v === undefined ? '' : (Array.isArray(v) ? v.map(bits).join(',') : bits(v))); }
  catch (e) { r = (e instanceof WebAssembly.RuntimeError) ? 'trap:' + e.message : (e instanceof RangeError ? 'exhaustion' : 'error:' + String(e && e.message).slice(0, 80)); }
  const b = new Uint8Array(inst.exports.m.buffer); let h = 0n;
  for (let i = 0; i < b.length; i++) if (b[i]) h = (h + BigInt(b[i]) * BigInt(1 + (i % 251))) % 4294967296n;
  return { r, g0: bits(inst.exports.g0.value), g1: bits(inst.exports.g1.value), memsum: h.toString(), pages: String(b.length / 65536) };
}
const results = [];
for (const c of index.cases) {
  const a = fs.readFileSync(`${dir}/${c.id}.in.wasm`), b = fs.readFileSync(`${dir}/${c.id}.out.wasm`);
  c.calls.forEach((call, k) => results.push({ id: c.id, k, in: one(a, call.f, call.args), out: one(b, call.f, call.args) }));
}
console.log(JSON.stringify({ results }));
