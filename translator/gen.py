#!/usr/bin/env python3
"""Translator: regenerates coq/Gen/*.v from /repo's current Rust sources.

G1  local_function/mod.rs  append_instruction  -> wop, decode_plain, marks_unreachable, idx spaces
G2  local_function/emit.rs visit_instr/memarg  -> encode_plain, plain_refs (entity lookups at emit time)
G3  ir/mod.rs enums                            -> plain + operand enums, visited_refs (fields not skip_visit)
(further generators are separate modules called from main())

Anything outside the understood Rust subset raises Refuse with the source span:
that is a broken correspondence, reported by the driver, never papered over.
"""
import argparse, hashlib, json, os, re, sys
sys.path.insert(0, os.path.dirname(os.path.abspath(__file__)))
from tt import *


class Refuse(Exception):
    pass


def lineno(src, pos):
    return src.count("\n", 0, pos) + 1


# ------------------------------------------------------------------ enums of the IR
def strip_attrs(items):
    out, i, attrs = [], 0, []
    while i < len(items):
        if is_p(items[i], '#') and i + 1 < len(items) and is_g(items[i + 1], '[]'):
            attrs.append(text(items[i + 1].items)); i += 2; continue
        out.append((items[i], attrs)); attrs = []; i += 1
    return out


def parse_enums(src):
    t = tree(tokenize(src)); enums = {}
    for i, x in enumerate(t):
        if is_id(x, 'enum') and is_id(t[i + 1]) and is_g(t[i + 2], '{}'):
            name = t[i + 1].s; vs = []
            its = strip_attrs(t[i + 2].items); j = 0
            while j < len(its):
                tok, attrs = its[j]
                if is_id(tok):
                    v = {'name': tok.s, 'attrs': attrs, 'kind': 'unit', 'fields': []}
                    if j + 1 < len(its) and is_g(its[j + 1][0], '()'):
                        v['kind'] = 'tuple'
                        v['fields'] = [('_%d' % k, text(f), []) for k, f in enumerate(split(its[j + 1][0].items, ','))]; j += 1
                    elif j + 1 < len(its) and is_g(its[j + 1][0], '{}'):
                        v['kind'] = 'struct'
                        fs = strip_attrs(its[j + 1][0].items)
                        groups = [[]]
                        for ft, fa in fs:
                            if is_p(ft, ','): groups.append([])
                            else: groups[-1].append((ft, fa))
                        for g in groups:
                            if not g: continue
                            fattrs = [a for _, al in g for a in al]
                            toks = [ft for ft, _ in g if not is_id(ft, 'pub')]
                            v['fields'].append((toks[0].s, text(toks[2:]), fattrs))
                        j += 1
                    vs.append(v)
                j += 1
            enums[name] = vs
    return enums


PFX = {'UnaryOp': 'U_', 'BinaryOp': 'B_', 'TernaryOp': 'T_', 'LoadKind': 'LK_', 'StoreKind': 'SK_', 'ExtendedLoad': 'EL_', 'AtomicOp': 'AO_',
       'AtomicWidth': 'AW_', 'LoadSimdKind': 'LS_', 'Value': 'V_', 'Instr': 'P_'}
COQTY = {'UnaryOp': 'unaryop', 'BinaryOp': 'binaryop', 'TernaryOp': 'ternaryop', 'LoadKind': 'loadkind', 'StoreKind': 'storekind',
         'ExtendedLoad': 'extendedload', 'AtomicOp': 'atomicop', 'AtomicWidth': 'atomicwidth', 'LoadSimdKind': 'loadsimdkind', 'Value': 'value'}
IDSPACE = {'FunctionId': 'S_func', 'TypeId': 'S_type', 'TableId': 'S_table', 'LocalId': 'S_local', 'GlobalId': 'S_global',
           'MemoryId': 'S_memory', 'DataId': 'S_data', 'ElementId': 'S_elem'}
GETSPACE = {'func': 'S_func', 'type': 'S_type', 'table': 'S_table', 'memory': 'S_memory', 'global': 'S_global', 'data': 'S_data',
            'element': 'S_elem', 'local': 'S_local'}
CONTROL_IR = {'Block', 'Loop', 'IfElse', 'Br', 'BrIf', 'BrTable'}
CONTROL_OPS = {'Block', 'Loop', 'If', 'Else', 'End', 'Br', 'BrIf', 'BrTable', 'Nop'}


def coq_type(rt):
    rt = rt.replace(' ', '')
    if rt in IDSPACE or rt in ('InstrSeqId', 'u8', 'u32', 'u64', 'u128'): return 'N'
    if rt in ('i32', 'i64'): return 'Z'
    if rt in ('f32', 'f64'): return 'N'   # bit pattern
    if rt == 'bool': return 'bool'
    if rt == 'MemArg': return 'ir_memarg'
    if rt == 'Option<ValType>': return '(option valty)'
    if rt == 'ValType': return 'valty'
    if rt == 'RefType': return 'refty'
    if rt == 'ShuffleIndices': return '(list N)'
    if rt == 'Box<[InstrSeqId]>': return '(list N)'
    if rt in COQTY: return COQTY[rt]
    raise Refuse('IR field type not understood: ' + rt)


class Gen:
    def __init__(self, repo, outdir):
        self.repo, self.outdir = repo, outdir
        self.ir_path = os.path.join(repo, 'src/ir/mod.rs')
        self.dec_path = os.path.join(repo, 'src/module/functions/local_function/mod.rs')
        self.enc_path = os.path.join(repo, 'src/module/functions/local_function/emit.rs')
        self.ir_src = open(self.ir_path).read()
        self.dec_src = open(self.dec_path).read()
        self.enc_src = open(self.enc_path).read()
        self.oplist = {o['name']: o for o in json.load(open(os.path.join(outdir, 'oplist.json')))}
        self.ENUMS = parse_enums(self.ir_src)
        self.INSTR = {v['name']: v for v in self.ENUMS['Instr']}
        self.dec_arms, self.unsupported, self.control, self.unreach = [], [], [], set()
        self.enc_arms = []
        self.dec_spaces = {}     # op name -> {arg name: space}
        self.report = {}

    # ---------- helpers on enums
    def variant_owner(self, vname, candidates=None):
        owners = [e for e in (candidates or PFX) if e != 'Instr' and any(v['name'] == vname for v in self.ENUMS[e])]
        if len(owners) != 1:
            raise Refuse('ambiguous/unknown variant %s: %s' % (vname, owners))
        return owners[0]

    def v_field_type(self, v, fname):
        t = [t for f, t, _ in v['fields'] if f == fname][0].replace(' ', '')
        return t if t in self.ENUMS else None

    def gen_enum(self, name):
        out = ['Inductive %s :=' % COQTY[name]]
        for v in self.ENUMS[name]:
            args = ' '.join('(%s : %s)' % (f if not f.startswith('_') else 'x' + f, coq_type(t)) for f, t, _ in v['fields'])
            out.append('  | %s%s %s' % (PFX[name], v['name'], args))
        return '\n'.join(out) + '.\n'

    def p_ctor(self, name, given):
        v = self.INSTR[name]
        missing = [f for f, _, _ in v['fields'] if f not in given]
        if missing:
            raise Refuse('struct literal %s lacks fields %s' % (name, missing))
        return '(P_%s %s)' % (name, ' '.join(given[f] for f, _, _ in v['fields'])) if v['fields'] else 'P_%s' % name

    # ---------- expressions (decode side)
    def rx_enum(self, toks, env, hint=None):
        toks = list(toks)
        owner = None
        if len(toks) >= 3 and is_id(toks[0]) and is_p(toks[1], '::') and toks[0].s in self.ENUMS:
            owner = toks[0].s; toks = toks[2:]
        if len(toks) == 1 and is_id(toks[0]):
            n = toks[0].s
            if n in env: return env[n]
            if n in ('true', 'false'): return n
            if n == 'None': return 'None'
            owner = owner or self.variant_owner(n, [hint] if hint else None)
            return PFX[owner] + n
        if len(toks) == 2 and is_id(toks[0]) and isinstance(toks[1], Group):
            n = toks[0].s
            owner = owner or self.variant_owner(n, [hint] if hint else None)
            v = [x for x in self.ENUMS[owner] if x['name'] == n][0]
            if toks[1].d == '{}':
                given = {}
                for f in split(toks[1].items, ','):
                    if len(f) == 1: given[f[0].s] = self.rx_enum(f, env)
                    else: given[f[0].s] = self.rx_enum(f[2:], env, hint=self.v_field_type(v, f[0].s))
                args = [given[f] for f, _, _ in v['fields']]
            else:
                parts = split(toks[1].items, ',')
                args = [self.rx_val(p, env) for p in parts]
            return '(%s%s %s)' % (PFX[owner], n, ' '.join(args))
        raise Refuse('enum expression not understood: ' + text(toks))

    def rx_val(self, toks, env):
        s = text(toks)
        m = re.fullmatch(r'Some \((\w+)\)', s)
        if m and m.group(1) in env: return '(Some %s)' % env[m.group(1)]
        if len(toks) == 1 and is_id(toks[0]) and toks[0].s in env: return env[toks[0].s]
        m = re.fullmatch(r'f(32|64) :: from_bits \((\w+) \. bits \(\)\)', s)
        if m and m.group(2) in env: return env[m.group(2)]   # bit pattern kept as N (trusted: from_bits/to_bits identity)
        raise Refuse('value expression not understood: ' + s)

    def decode_memarg(self):
        """the `mem_arg` closure: (ctx.indices.get_memory(arg.memory).unwrap(), MemArg{align: .., offset: ..})"""
        t = tree(tokenize(self.dec_src)); body = find_fn(t, 'append_instruction')
        its = body.items
        for i, x in enumerate(its):
            if is_id(x, 'let') and is_id(its[i + 1], 'mem_arg'):
                j = i
                while not is_g(its[j], '{}'): j += 1
                tup = [g for g in its[j].items if is_g(g, '()')][0]
                parts = split(tup.items, ',')
                lit = [g for g in parts[1] if is_g(g, '{}')][0]
                fields = {f[0].s: text(f[2:]) for f in split(lit.items, ',')}
                return text(parts[0]), fields
        raise Refuse('mem_arg closure not found in append_instruction')

    @staticmethod
    def coq_of_memfield(s):
        s = s.replace(' ', '')
        table = {
            '1<<(arg.alignasi32)': '(N.shiftl 1 (wa_align m) mod 2^32)',
            '1<<arg.align': '(N.shiftl 1 (wa_align m) mod 2^32)',
            'arg.offsetasu32': '(wa_offset m mod 2^32)',
            'arg.offset': '(wa_offset m)',
            'arg.offsetasu64': '(wa_offset m)',
        }
        if s in table: return table[s]
        raise Refuse('mem_arg field expression not understood: ' + s)

    def pat_ops(self, pat):
        res = []
        for alt in split(pat, '|'):
            if not (is_id(alt[0], 'Operator') and is_p(alt[1], '::')):
                raise Refuse('append_instruction pattern not understood: ' + text(alt))
            name = alt[2].s; binds = {}
            if len(alt) > 3:
                for f in split(alt[3].items, ','):
                    f = [x for x in f if not is_id(x, 'ref')]
                    if is_p(f[0], '..'): continue
                    if len(f) == 1: binds[f[0].s] = f[0].s
                    else: binds[f[0].s] = f[2].s
            res.append((name, binds))
        return res

    def translate_decode(self):
        self.MEM_ID, self.MEM_FIELDS = self.decode_memarg()
        if self.MEM_ID.replace(' ', '') != 'ctx.indices.get_memory(arg.memory).unwrap()':
            raise Refuse('mem_arg memory expression not understood: ' + self.MEM_ID)
        self.MA = '{| ia_align := %s; ia_offset := %s |}' % (self.coq_of_memfield(self.MEM_FIELDS['align']), self.coq_of_memfield(self.MEM_FIELDS['offset']))
        t = tree(tokenize(self.dec_src)); body = find_fn(t, 'append_instruction')
        m = find_match(body.items, lambda sc: text(sc) == 'inst')
        if m is None:
            raise Refuse('`match inst` not found in append_instruction')
        narms = 0
        for pat, b in arms(m):
            narms += 1
            for name, binds in self.pat_ops(pat):
                if name not in self.oplist:
                    raise Refuse('Operator::%s is not in the wasmparser operator list' % name)
                btxt = text(b)
                if name in CONTROL_OPS:
                    self.control.append(name); continue
                if 'unimplemented!' in btxt or ('panic!' in btxt and 'alloc_instr' not in btxt and 'unop' not in btxt):
                    self.unsupported.append(name); continue
                op = self.oplist[name]
                env = {}
                for (an, at) in op['args']:
                    if an in binds and binds[an] != '_': env[binds[an]] = 'a_' + an
                self.cur_spaces = {}
                try:
                    rhs = self.translate_body(name, b, env)
                except Refuse as e:
                    raise Refuse('%s:%d: arm for Operator::%s: %s' % (self.dec_path, lineno(self.dec_src, pat[0].pos), name, e))
                self.dec_arms.append((name, [a for a, _ in op['args']], rhs))
                self.dec_spaces[name] = dict(self.cur_spaces)
                if 'ctx . unreachable ()' in btxt: self.unreach.add(name)
        self.report['decode'] = {'match_arms': narms, 'supported_ops': len(self.dec_arms), 'control_ops': len(self.control),
                                 'unsupported_ops': len(self.unsupported), 'marks_unreachable': sorted(self.unreach)}

    def idx_get(self, toks, env):
        s = text(toks)
        m = re.fullmatch(r'ctx \. indices \. get_(\w+) \((?:ctx \. func_id , )?(\w+)\) \. unwrap \(\)', s)
        if m and m.group(2) in env and m.group(1) in GETSPACE:
            v = env[m.group(2)]
            sp = GETSPACE[m.group(1)]
            if v.startswith('a_'): self.cur_spaces[v[2:]] = sp
            return '(i2id %s %s)' % (sp, v)
        raise Refuse('index expression not understood: ' + s)

    def translate_body(self, name, b, env):
        env = dict(env)
        mwrap = None
        stmts = split(b[0].items, ';') if (len(b) == 1 and is_g(b[0], '{}')) else [b]
        final = None
        for st in stmts:
            if not st: continue
            if is_id(st[0], 'let') and is_g(st[1], '()'):
                rhs = text(st[3:]).replace(' ', '')
                names = [p[0].s for p in split(st[1].items, ',')]
                mm = re.fullmatch(r'mem_arg\(ctx,&?(\w+)\)', rhs)
                if not (mm and mm.group(1) in env and len(names) == 2): raise Refuse('tuple let not understood: ' + rhs)
                mwrap = env[mm.group(1)]
                env[names[0]] = '(i2id S_memory (wa_memory m))'
                env[names[1]] = self.MA
                continue
            if is_id(st[0], 'let'):
                var = st[1].s
                rhs = st[3:]
                s = text(rhs)
                if s.startswith('ctx . indices . get_'):
                    env[var] = self.idx_get(rhs, env)
                elif s == 'crate :: const_expr :: v128_to_u128 (& value)' and 'value' in env:
                    env[var] = env['value']      # V128 kept as N (16 bytes little endian); checked by the dependency correspondence
                elif s == 'ValType :: parse (& ty) . unwrap ()' and 'ty' in env:
                    env[var] = env['ty']         # ValType::parse is covered by Gen/Attrs (G7)
                elif s.replace(' ', '') == '!matches!(inst,Operator::MemoryAtomicWait32{..})':
                    env[var] = 'false' if name == 'MemoryAtomicWait32' else 'true'
                elif s.startswith('match hty'):
                    flat = s.replace(' ', '')
                    mf = re.search(r'AbstractHeapType::Func=>RefType::(\w+)', flat); me = re.search(r'AbstractHeapType::Extern=>RefType::(\w+)', flat)
                    if mf and me and mf.group(1) in ('Funcref', 'Externref') and me.group(1) in ('Funcref', 'Externref'):
                        env[var] = '(match a_hty with HT_Func => Some RT_%s | HT_Extern => Some RT_%s | HT_Other _ => None end)' % (mf.group(1), me.group(1))
                        env['__opt__'] = var
                    else: raise Refuse('ref.null heap-type mapping not understood: ' + flat[:120])
                else: raise Refuse('let not understood: ' + s[:160])
            else:
                if text(st) == 'ctx . unreachable ()': continue
                if final is not None: raise Refuse('more than one effect statement in arm: ' + text(st)[:120])
                final = st
        if final is None: raise Refuse('arm allocates nothing')
        r = self.translate_final(name, final, env, mwrap)
        if '__opt__' in env:
            v = env['__opt__']; inner = env[v]
            # r mentions env[v] textually; rebind through an option match
            r = '(match %s with Some ov__ => Some %s | None => None end)' % (inner, r.replace(inner, 'ov__'))
            return r
        return 'Some ' + r

    def translate_final(self, name, final, env, mwrap):
        s = text(final)
        if is_id(final[0]) and final[0].s in ('unop', 'binop', 'ternop') and is_g(final[1], '()'):
            a = split(final[1].items, ',')
            ctor = {'unop': 'Unop', 'binop': 'Binop', 'ternop': 'TernOp'}[final[0].s]
            hint = {'unop': 'UnaryOp', 'binop': 'BinaryOp', 'ternop': 'TernaryOp'}[final[0].s]
            return '(P_%s %s)' % (ctor, self.rx_enum(a[1], env, hint if not (len(a[1]) > 1 and is_p(a[1][1], '::')) else None))
        if is_id(final[0], 'const_'):
            a = split(final[1].items, ',')
            return '(P_Const %s)' % self.rx_enum(a[1], env)

        def memparts(mtoks):
            mt = [x for x in mtoks if not is_p(x, '&')]
            if not (len(mt) == 1 and mt[0].s in env): raise Refuse('memarg argument not understood: ' + text(mtoks))
            return env[mt[0].s]

        def with_m(mv, e): return '(let m := %s in %s)' % (mv, e)
        MEMID = '(i2id S_memory (wa_memory m))'
        if is_id(final[0]) and final[0].s in ('load', 'store', 'load_simd', 'cmpxchg', 'atomicrmw'):
            a = split(final[1].items, ',')
            mv = memparts(a[1])
            f = final[0].s
            if f == 'load': return with_m(mv, self.p_ctor('Load', {'memory': MEMID, 'kind': self.rx_enum(a[2], env, 'LoadKind'), 'arg': self.MA}))
            if f == 'store': return with_m(mv, self.p_ctor('Store', {'memory': MEMID, 'kind': self.rx_enum(a[2], env, 'StoreKind'), 'arg': self.MA}))
            if f == 'load_simd': return with_m(mv, self.p_ctor('LoadSimd', {'memory': MEMID, 'kind': self.rx_enum(a[2], env, 'LoadSimdKind'), 'arg': self.MA}))
            if f == 'cmpxchg': return with_m(mv, self.p_ctor('Cmpxchg', {'memory': MEMID, 'width': self.rx_enum(a[2], env, 'AtomicWidth'), 'arg': self.MA}))
            if f == 'atomicrmw': return with_m(mv, self.p_ctor('AtomicRmw', {'memory': MEMID, 'op': self.rx_enum(a[2], env, 'AtomicOp'), 'width': self.rx_enum(a[3], env, 'AtomicWidth'), 'arg': self.MA}))
        if re.match(r'ctx \. alloc_instr \(', s):
            a = split(final[-1].items, ',')
            lit = a[0]
            if not (is_id(lit[0]) and lit[0].s in self.INSTR and is_g(lit[1], '{}')): raise Refuse('alloc_instr argument not understood: ' + text(lit))
            if text(a[1]) != 'loc': raise Refuse('alloc_instr location is not `loc`: ' + text(a[1]))
            v = self.INSTR[lit[0].s]; given = {}
            for f in split(lit[1].items, ','):
                if len(f) == 1:
                    if f[0].s not in env: raise Refuse('unbound ' + f[0].s)
                    given[f[0].s] = env[f[0].s]
                else:
                    ft = self.v_field_type(v, f[0].s)
                    given[f[0].s] = self.rx_enum(f[2:], env, ft) if (ft or text(f[2:]) in ('None', 'true', 'false')) else self.rx_val(f[2:], env)
            r = self.p_ctor(lit[0].s, given)
            return '(let m := %s in %s)' % (mwrap, r) if mwrap else r
        raise Refuse('arm body not understood: ' + s[:160])

    # ---------- encode side
    def pat_to_coq(self, ptoks, owner):
        ptoks = [x for x in ptoks if not is_p(x, '&')]
        if len(ptoks) >= 3 and is_p(ptoks[1], '::'):
            owner = ptoks[0].s; ptoks = ptoks[2:]
        n = ptoks[0].s
        if n == '_': return '_'
        if n in ('true', 'false'): return n
        if n in ('Some', 'None'):
            return 'None' if n == 'None' else '(Some %s)' % ptoks[1].items[0].s
        v = [x for x in self.ENUMS[owner] if x['name'] == n] if owner in self.ENUMS else []
        if not v:
            return n
        v = v[0]
        if len(ptoks) == 1: return PFX[owner] + n
        g = ptoks[1]
        if g.d == '()':
            return '(%s%s %s)' % (PFX[owner], n, ' '.join(self.pat_to_coq(p, None) if not (len(p) == 1 and is_id(p[0])) else p[0].s for p in split(g.items, ',')))
        given = {}
        for f in split(g.items, ','):
            if len(f) == 1: given[f[0].s] = f[0].s
            else: given[f[0].s] = self.pat_to_coq(f[2:], self.v_field_type(v, f[0].s))
        return '(%s%s %s)' % (PFX[owner], n, ' '.join(given.get(f, '_') for f, _, _ in v['fields']))

    def field_owner(self, variant, fld):
        return [t for f, t, _ in self.INSTR[variant]['fields'] if f == fld][0].replace(' ', '')

    def instr_expr(self, toks, env):
        if not (is_id(toks[0], 'Instruction') and is_p(toks[1], '::')): raise Refuse('not an Instruction expression: ' + text(toks)[:120])
        name = toks[2].s
        if name not in self.oplist: raise Refuse('Instruction::%s has no Operator of that name' % name)
        op = self.oplist[name]

        def arg(e):
            s = text(e).replace(' ', '')
            s = s.lstrip('*')
            if s in env: return env[s]
            m = re.fullmatch(r'self\.indices\.get_(\w+)_index\(e\.(\w+)\)', s)
            if m and m.group(1) in GETSPACE:
                self.cur_refs.append((GETSPACE[m.group(1)], env['e.' + m.group(2)]))
                return '(id2i %s %s)' % (GETSPACE[m.group(1)], env['e.' + m.group(2)])
            m = re.fullmatch(r'self\.local_indices\[&e\.(\w+)\]', s)
            if m:
                self.cur_refs.append(('S_local', env['e.' + m.group(1)]))
                return '(id2i S_local %s)' % env['e.' + m.group(1)]
            m = re.fullmatch(r'e\.(\w+)', s)
            if m: return env['e.' + m.group(1)]
            m = re.fullmatch(r'self\.memarg\(e\.(\w+),&e\.(\w+)\)', s)
            if m:
                self.cur_refs.append(('S_memory', env['e.' + m.group(1)]))
                return '(enc_memarg id2i %s %s)' % (env['e.' + m.group(1)], env['e.' + m.group(2)])
            if s.startswith('match&e.ty{'):
                me = re.search(r'RefType::Externref=>wasm_encoder::HeapType::Abstract\{shared:false,ty:wasm_encoder::AbstractHeapType::(\w+),?\}', s)
                mf = re.search(r'RefType::Funcref=>wasm_encoder::HeapType::Abstract\{shared:false,ty:wasm_encoder::AbstractHeapType::(\w+),?\}', s)
                hmap = {'Extern': 'HT_Extern', 'Func': 'HT_Func'}
                if me and mf and me.group(1) in hmap and mf.group(1) in hmap:
                    return '(match %s with RT_Externref => %s | RT_Funcref => %s end)' % (env['e.ty'], hmap[me.group(1)], hmap[mf.group(1)])
            m = re.fullmatch(r'(\w+)asi128', s)
            if m and m.group(1) in env: return env[m.group(1)]
            m = re.fullmatch(r'(\w+)\.to_wasmencoder_type\(\)', s)
            if m and m.group(1) in env: return env[m.group(1)]
            raise Refuse('instruction argument not understood: ' + s[:160])

        if len(toks) == 3: args = []
        elif toks[3].d == '()': args = [arg(p) for p in split(toks[3].items, ',')]
        else:
            given = {}
            for f in split(toks[3].items, ','):
                given[f[0].s] = arg(f[2:]) if len(f) > 1 else arg(f)
            missing = [a for a, _ in op['args'] if a not in given]
            if missing: raise Refuse('Instruction::%s lacks fields %s' % (name, missing))
            args = [given[a] for a, _ in op['args']]
        if len(args) != len(op['args']): raise Refuse('arity mismatch for Instruction::%s' % name)
        return 'Some (W_%s %s)' % (name, ' '.join(args)) if args else 'Some W_%s' % name

    def enc_expr(self, variant, toks, env):
        toks = list(toks)
        if len(toks) == 1 and is_g(toks[0], '{}'):
            env = dict(env)
            stmts = split(toks[0].items, ';')
            final = None
            for st in stmts:
                if not st: continue
                if is_id(st[0], 'use'): continue
                if is_id(st[0], 'let'):
                    var = st[1].s; s = text(st[3:]).replace(' ', '')
                    m = re.fullmatch(r'self\.memarg\(e\.(\w+),&e\.(\w+)\)', s)
                    if m:
                        self.cur_refs.append(('S_memory', env['e.' + m.group(1)]))
                        env[var] = '(enc_memarg id2i %s %s)' % (env['e.' + m.group(1)], env['e.' + m.group(2)]); continue
                    m = re.fullmatch(r'self\.indices\.get_(\w+)_index\(e\.(\w+)\)', s)
                    if m and m.group(1) in GETSPACE:
                        self.cur_refs.append((GETSPACE[m.group(1)], env['e.' + m.group(2)]))
                        env[var] = '(id2i %s %s)' % (GETSPACE[m.group(1)], env['e.' + m.group(2)]); continue
                    raise Refuse('let in visit_instr not understood: ' + s[:160])
                if final is not None: raise Refuse('more than one expression in visit_instr arm')
                final = st
            toks = final
        if is_id(toks[0], 'match'):
            j = 1; sc = []
            while not is_g(toks[j], '{}'): sc.append(toks[j]); j += 1
            scs = text(sc).replace(' ', '').lstrip('&')
            if scs.startswith('('):
                flds = [x.split('.')[1] for x in scs.strip('()').split(',')]
                owners = [self.field_owner(variant, f) for f in flds]
                coq_sc = '(%s)' % ', '.join(env['e.' + f] for f in flds)
                out = ['match %s with' % coq_sc]
                for p, b in arms(toks[j]):
                    parts = split(p[0].items, ',')
                    out.append('    | (%s) => %s' % (', '.join(self.pat_to_coq(pp, o) for pp, o in zip(parts, owners)), self.enc_expr(variant, b, env)))
                return '\n'.join(out) + '\n    end'
            m = re.fullmatch(r'(\w+)\.(\w+)', scs)
            if not m: raise Refuse('scrutinee not understood: ' + scs)
            fld = m.group(2)
            if m.group(1) == 'c': owner = 'Value'; coq_sc = env['e.value']
            else: owner = self.field_owner(variant, fld); coq_sc = env['e.' + fld]
            if owner == 'Option<ValType>': owner = None
            out = ['match %s with' % coq_sc]
            for p, b in arms(toks[j]):
                e2 = dict(env)
                cp = self.pat_to_coq(p, owner)
                for nm in re.findall(r'\b([a-z_][a-z0-9_]*)\b', cp):
                    if nm not in ('true', 'false'): e2[nm] = nm
                out.append('    | %s => %s' % (cp, self.enc_expr(variant, b, e2)))
            return '\n'.join(out) + '\n    end'
        if is_id(toks[0], 'if'):
            gs = [g for g in toks if is_g(g, '{}')]
            cond = text(toks[1:toks.index(gs[0])]).replace(' ', '')
            m = re.fullmatch(r'e\.(\w+)', cond)
            if not m or len(gs) != 2: raise Refuse('if expression not understood: ' + cond)
            return 'if %s then %s else %s' % (env['e.' + m.group(1)], self.enc_expr(variant, [gs[0]], env), self.enc_expr(variant, [gs[1]], env))
        return self.instr_expr(toks, env)

    def translate_encode(self):
        t = tree(tokenize(self.enc_src)); body = find_fn(t, 'visit_instr')
        ms = []

        def allm(items):
            for i, x in enumerate(items):
                if is_id(x, 'match'):
                    j = i + 1; sc = []
                    while j < len(items) and not is_g(items[j], '{}'): sc.append(items[j]); j += 1
                    if text(sc) == 'instr': ms.append(items[j])
            for x in items:
                if isinstance(x, Group): allm(x.items)
        allm(body.items)
        if not ms: raise Refuse('`match instr` not found in visit_instr')
        big = max(ms, key=lambda g: len(arms(g)))
        self.plain_refs = {}
        n_instr_arms = 0
        for pat, b in arms(big):
            alts = split(pat, '|')
            for alt in alts:
                name = alt[0].s
                if name in CONTROL_IR: continue
                if name not in self.INSTR: raise Refuse('visit_instr arm for unknown Instr::%s' % name)
                v = self.INSTR[name]
                env = {'e.' + f: f for f, _, _ in v['fields']}
                if name == 'Const': env['e.value'] = 'value'
                self.cur_refs = []
                try:
                    rhs = self.enc_expr(name, b, env)
                except Refuse as e:
                    raise Refuse('%s:%d: arm for Instr::%s: %s' % (self.enc_path, lineno(self.enc_src, alt[0].pos), name, e))
                self.enc_arms.append((name, [f for f, _, _ in v['fields']], rhs))
                refs = []
                for r in self.cur_refs:
                    if r not in refs: refs.append(r)
                self.plain_refs[name] = refs
                n_instr_arms += rhs.count('Some ')
        missing = [n for n in self.INSTR if n not in CONTROL_IR and n not in [a[0] for a in self.enc_arms]]
        if missing: raise Refuse('visit_instr has no arm for Instr variants: %s' % missing)
        # the memarg helper: pinned shape
        mg = find_fn(t, 'memarg')
        shape = text(mg.items).replace(' ', '') if mg else ''
        want = ('letmemory_index=self.indices.get_memory_index(id);letMemArg{mutalign,offset}=*arg;letmutalign_exponent:u32=0;'
                'whilealign>1{align_exponent+=1;align>>=1;}wasm_encoder::MemArg{offset:offsetasu64,align:align_exponent,memory_index,}')
        if shape != want:
            raise Refuse('%s: fn memarg no longer has the modelled shape (log2 loop, offset widened): %s' % (self.enc_path, shape[:300]))
        self.report['encode'] = {'instr_variants': len(self.enc_arms), 'instruction_leaves': n_instr_arms}

    # ---------- visited refs (G3): fields of id type not marked skip_visit
    def visited_refs(self):
        out = {}
        for v in self.ENUMS['Instr']:
            if v['name'] in CONTROL_IR: continue
            refs = []
            for f, t, attrs in v['fields']:
                tt = t.replace(' ', '')
                if tt in IDSPACE and not any('skip_visit' in a for a in attrs):
                    refs.append((IDSPACE[tt], f))
            out[v['name']] = refs
        return out

    # ---------- G4: crates/macro hook shapes
    def hook_shapes(self):
        path = os.path.join(self.repo, 'crates/macro/src/lib.rs')
        src = open(path).read()
        t = tree(tokenize(src)); body = find_fn(t, 'create_visit')
        if body is None: raise Refuse('%s: fn create_visit not found' % path)
        pushes = {}
        def walk(its):
            for i, x in enumerate(its):
                if is_id(x) and i + 3 < len(its) and is_p(its[i + 1], '.') and is_id(its[i + 2], 'push') and is_g(its[i + 3], '()'):
                    q = [g for g in its[i + 3].items if is_g(g, '{}')]
                    if q: pushes.setdefault(x.s, []).append(text(q[0].items).replace(' ', ''))
                if isinstance(x, Group): walk(x.items)
        walk(body.items)
        def fn_body(txt):
            m = re.search(r'fn#\w+\(&mutself,instr:&(?:mut)?#name\)\{(.*)\}$', txt)
            if not m: raise Refuse('%s: default hook quote not understood: %s' % (path, txt[:200]))
            return m.group(1)
        try:
            vis = fn_body(pushes['visitor_trait_methods'][0]); vism = fn_body(pushes['visitor_mut_trait_methods'][0])
            vi = pushes['visit_impl'][0]; vim = pushes['visit_mut_impl'][0]
        except KeyError as e:
            raise Refuse('%s: create_visit no longer pushes %s' % (path, e))
        shapes = {('Instr::#name(e)=>{visitor.#method_name(e);e.visit(visitor);}', 'Instr::#name(e)=>{visitor.#method_name_mut(e);e.visit_mut(visitor);}'): True,
                  ('Instr::#name(e)=>visitor.#method_name(e),', 'Instr::#name(e)=>visitor.#method_name_mut(e),'): False,
                  ('Instr::#name(e)=>{visitor.#method_name(e);}', 'Instr::#name(e)=>{visitor.#method_name_mut(e);}'): False}
        if (vi, vim) not in shapes: raise Refuse('%s: Instr::visit / visit_mut arm shape not understood: %s | %s' % (path, vi, vim))
        after = shapes[(vi, vim)]
        def rec(b, call):
            if b == '': return False
            if b == call: return True
            raise Refuse('%s: default hook body not understood: %s' % (path, b))
        r = {'visitor_default_recurses': rec(vis, 'instr.visit(self);'), 'visitor_mut_default_recurses': rec(vism, 'instr.visit_mut(self);'), 'fields_after_hook': after}
        self.report['hooks'] = r
        return r

    # ---------- emit Coq
    @staticmethod
    def wop_argty(t):
        t = t.replace('$crate::', '')
        return {'u32': 'N', 'u8': 'N', 'MemArg': 'w_memarg', 'i32': 'Z', 'i64': 'Z', 'Ieee32': 'N', 'Ieee64': 'N', 'V128': 'N', '[u8;16]': '(list N)',
                'HeapType': 'heapty', 'ValType': 'valty'}.get(t)

    def emit_ops(self):
        out = []; w = out.append
        w('(* GENERATED by /verif/translator/gen.py from the current /repo sources -- do not edit.')
        w('   sources: src/ir/mod.rs, src/module/functions/local_function/{mod,emit}.rs *)')
        w('From Coq Require Import NArith ZArith List Bool. Import ListNotations. Open Scope N_scope.')
        w('Inductive space := S_func | S_type | S_table | S_memory | S_global | S_data | S_elem | S_local.')
        w('Inductive valty := VT_I32 | VT_I64 | VT_F32 | VT_F64 | VT_V128 | VT_Funcref | VT_Externref.')
        w('Inductive refty := RT_Funcref | RT_Externref.')
        w('Inductive heapty := HT_Func | HT_Extern | HT_Other (n : N).')
        w('Record ir_memarg := { ia_align : N; ia_offset : N }.')
        w('Record w_memarg := { wa_align : N; wa_offset : N; wa_memory : N }.')
        for e in ['ExtendedLoad', 'UnaryOp', 'BinaryOp', 'TernaryOp', 'LoadKind', 'StoreKind', 'AtomicOp', 'AtomicWidth', 'LoadSimdKind', 'Value']:
            w(self.gen_enum(e))
        w('(* non-control variants of ir::Instr *)')
        w('Inductive plain :=')
        for v in self.ENUMS['Instr']:
            if v['name'] in CONTROL_IR: continue
            w('  | P_%s %s' % (v['name'], ' '.join('(%s : %s)' % (f, coq_type(t)) for f, t, _ in v['fields'])))
        w('.')
        used_ops = [n for n, _, _ in self.dec_arms]
        w('(* one constructor per wasmparser::Operator that append_instruction supports (control operators are in Model/IR.v) *)')
        w('Inductive wop :=')
        for n in used_ops:
            args = self.oplist[n]['args']
            tys = [self.wop_argty(t) for _, t in args]
            if None in tys: raise Refuse('unmapped operator argument type in %s: %s' % (n, args))
            w('  | W_%s %s' % (n, ' '.join('(a_%s : %s)' % (a, t) for (a, _), t in zip(args, tys))))
        w('.')
        w('Definition decode_plain (i2id : space -> N -> N) (o : wop) : option plain :=\n  match o with')
        for n, args, rhs in self.dec_arms:
            w('  | W_%s %s => %s' % (n, ' '.join('a_' + a for a in args), rhs))
        w('  end.')
        w('(* which arms also call ctx.unreachable() *)')
        w('Definition marks_unreachable (o : wop) : bool :=\n  match o with')
        for n in sorted(self.unreach):
            w('  | W_%s %s => true' % (n, ' '.join('_' for _ in self.oplist[n]['args'])))
        w('  | _ => false\n  end.')
        w('(* emit.rs `memarg`: exponent recomputed by the shift loop, offset widened *)')
        w('Fixpoint log2_loop (fuel : nat) (align : N) (acc : N) : N := match fuel with O => acc | S f => if 1 <? align then log2_loop f (N.shiftr align 1) (acc + 1) else acc end.')
        w('Definition enc_memarg (id2i : space -> N -> N) (memory : N) (arg : ir_memarg) : w_memarg := {| wa_align := log2_loop 64 (ia_align arg) 0; wa_offset := ia_offset arg; wa_memory := id2i S_memory memory |}.')
        w('Definition encode_plain (id2i : space -> N -> N) (p : plain) : option wop :=\n  match p with')
        for n, flds, rhs in self.enc_arms:
            w('  | P_%s %s =>\n    %s' % (n, ' '.join(flds), rhs))
        w('  end.')
        w('Definition op_memarg (o : wop) : option w_memarg :=\n  match o with')
        for n in used_ops:
            args = self.oplist[n]['args']
            if any(t.endswith('MemArg') for _, t in args):
                w('  | W_%s %s => Some a_memarg' % (n, ' '.join('a_' + a if t.endswith('MemArg') else '_' for a, t in args)))
        w('  | _ => None\n  end.')
        w('Definition map_memarg (r : space -> N -> N) (m : w_memarg) : w_memarg := {| wa_align := wa_align m; wa_offset := wa_offset m; wa_memory := r S_memory (wa_memory m) |}.')
        w('(* rename every index immediate (spaces read off the ctx.indices.get_X calls of append_instruction) *)')
        w('Definition map_idx (r : space -> N -> N) (o : wop) : wop :=\n  match o with')
        for n in used_ops:
            args = self.oplist[n]['args']
            sp = self.dec_spaces.get(n, {})
            if not sp and not any(t.endswith('MemArg') for _, t in args): continue
            new = []
            for a, t in args:
                if a in sp: new.append('(r %s a_%s)' % (sp[a], a))
                elif t.endswith('MemArg'): new.append('(map_memarg r a_%s)' % a)
                else: new.append('a_' + a)
            w('  | W_%s %s => W_%s %s' % (n, ' '.join('a_' + a for a, _ in args), n, ' '.join(new)))
        w('  | o => o\n  end.')
        w('Definition wop_refs (o : wop) : list (space * N) :=\n  match o with')
        for n in used_ops:
            args = self.oplist[n]['args']
            sp = self.dec_spaces.get(n, {})
            refs = []
            for a, t in args:
                if a in sp: refs.append('(%s, a_%s)' % (sp[a], a))
                elif t.endswith('MemArg'): refs.append('(S_memory, wa_memory a_%s)' % a)
            if refs:
                w('  | W_%s %s => [%s]' % (n, ' '.join('a_' + a for a, _ in args), '; '.join(refs)))
        w('  | _ => []\n  end.')
        w('(* entities looked up through IdsToIndices / local_indices when the instruction is emitted (emit.rs) *)')
        w('Definition emitted_refs (p : plain) : list (space * N) :=\n  match p with')
        for n, flds, _ in self.enc_arms:
            refs = self.plain_refs.get(n, [])
            w('  | P_%s %s => [%s]' % (n, ' '.join(f if any(f == r[1] for r in refs) else '_' for f in flds), '; '.join('(%s, %s)' % r for r in refs)))
        w('  end.')
        w('(* entities reported to a Visitor by the derived Instr::visit (fields of id type not marked skip_visit) *)')
        vr = self.visited_refs()
        w('Definition visited_refs (p : plain) : list (space * N) :=\n  match p with')
        for v in self.ENUMS['Instr']:
            n = v['name']
            if n in CONTROL_IR: continue
            refs = vr[n]
            w('  | P_%s %s => [%s]' % (n, ' '.join(f if any(f == r[1] for r in refs) else '_' for f, _, _ in v['fields']), '; '.join('(%s, %s)' % r for r in refs)))
        w('  end.')
        w('(* control variants of ir::Instr: the InstrSeqId fields the derived visit reports (not skip_visit), in declaration order *)')
        for v in self.ENUMS['Instr']:
            if v['name'] not in CONTROL_IR: continue
            params, parts = [], []
            for f, t, attrs in v['fields']:
                tt = t.replace(' ', '')
                if tt == 'InstrSeqId': params.append('(%s : N)' % f)
                elif tt == 'Box<[InstrSeqId]>': params.append('(%s : list N)' % f)
                else: raise Refuse('control Instr::%s has a field of unexpected type %s' % (v['name'], tt))
                if any('skip_visit' in a for a in attrs): continue
                parts.append('[%s]' % f if tt == 'InstrSeqId' else f)
            w('Definition visited_seqs_%s %s : list N := %s.' % (v['name'], ' '.join(params), ' ++ '.join(parts) if parts else '[]'))
        hs = self.hook_shapes()
        w('(* crates/macro: shape of the generated Instr::visit / visit_mut and of the default hook bodies *)')
        w('Definition default_hook_recurses : bool := %s.' % ('true' if hs['visitor_default_recurses'] else 'false'))
        w('Definition default_hook_mut_recurses : bool := %s.' % ('true' if hs['visitor_mut_default_recurses'] else 'false'))
        w('(* does Instr::visit / visit_mut visit the fields itself after calling the per-variant hook? *)')
        w('Definition visit_fields_after_hook : bool := %s.' % ('true' if hs['fields_after_hook'] else 'false'))
        w('(* an injective serialisation (constructor index, then every immediate), used only to compare operators by computation *)')
        w('Definition z_code (z : Z) : N := match z with Z0 => 0 | Zpos p => 2 * Npos p | Zneg p => 2 * Npos p + 1 end.')
        w('Definition valty_code (v : valty) : N := match v with VT_I32 => 0 | VT_I64 => 1 | VT_F32 => 2 | VT_F64 => 3 | VT_V128 => 4 | VT_Funcref => 5 | VT_Externref => 6 end.')
        w('Definition heapty_code (h : heapty) : N := match h with HT_Func => 0 | HT_Extern => 1 | HT_Other n => 2 + n end.')
        w('Definition wop_code (o : wop) : list N :=\n  match o with')
        for k, n in enumerate(used_ops):
            args = self.oplist[n]['args']
            parts = []
            for a, t in args:
                ct = self.wop_argty(t)
                if ct == 'N': parts.append('[a_%s]' % a)
                elif ct == 'Z': parts.append('[z_code a_%s]' % a)
                elif ct == 'w_memarg': parts.append('[wa_align a_%s; wa_offset a_%s; wa_memory a_%s]' % (a, a, a))
                elif ct == '(list N)': parts.append('(N.of_nat (length a_%s) :: a_%s)' % (a, a))
                elif ct == 'heapty': parts.append('[heapty_code a_%s]' % a)
                elif ct == 'valty': parts.append('[valty_code a_%s]' % a)
                else: raise Refuse('no code for ' + ct)
            w('  | W_%s %s => %d :: %s' % (n, ' '.join('a_' + a for a, _ in args), k, ' ++ '.join(parts) if parts else '[]'))
        w('  end.')
        # codes for the IR side
        w('Definition refty_code (r : refty) : N := match r with RT_Funcref => 0 | RT_Externref => 1 end.')
        def fcode(rt, e):
            ct = coq_type(rt); rt = rt.replace(' ', '')
            if ct == 'N': return '[%s]' % e
            if ct == 'Z': return '[z_code %s]' % e
            if ct == 'bool': return '[if %s then 1 else 0]' % e
            if ct == 'ir_memarg': return '[ia_align %s; ia_offset %s]' % (e, e)
            if ct == '(option valty)': return '(match %s with Some t => [1; valty_code t] | None => [0] end)' % e
            if ct == 'valty': return '[valty_code %s]' % e
            if ct == 'refty': return '[refty_code %s]' % e
            if ct == '(list N)': return '(N.of_nat (length %s) :: %s)' % (e, e)
            if rt in COQTY: return '(%s_code %s)' % (COQTY[rt], e)
            raise Refuse('no code for IR type ' + rt)
        for name in ['ExtendedLoad', 'UnaryOp', 'BinaryOp', 'TernaryOp', 'LoadKind', 'StoreKind', 'AtomicOp', 'AtomicWidth', 'LoadSimdKind', 'Value']:
            w('Definition %s_code (x : %s) : list N :=\n  match x with' % (COQTY[name], COQTY[name]))
            for k, v in enumerate(self.ENUMS[name]):
                fs = [(f if not f.startswith('_') else 'x' + f, t) for f, t, _ in v['fields']]
                w('  | %s%s %s => %d :: %s' % (PFX[name], v['name'], ' '.join(f for f, _ in fs), k, ' ++ '.join(fcode(t, f) for f, t in fs) if fs else '[]'))
            w('  end.')
        w('Definition plain_code (p : plain) : list N :=\n  match p with')
        k = 0
        for v in self.ENUMS['Instr']:
            if v['name'] in CONTROL_IR: continue
            fs = [(f, t) for f, t, _ in v['fields']]
            w('  | P_%s %s => %d :: %s' % (v['name'], ' '.join(f for f, _ in fs), k, ' ++ '.join(fcode(t, f) for f, t in fs) if fs else '[]'))
            k += 1
        w('  end.')
        w('Definition supported_op_count : N := %d.' % len(used_ops))
        return '\n'.join(out) + '\n'


def write_if_changed(path, content):
    try:
        if open(path).read() == content: return
    except OSError:
        pass
    with open(path, 'w') as f: f.write(content)


def main():
    ap = argparse.ArgumentParser()
    ap.add_argument('--repo', default='/repo'); ap.add_argument('--out', required=True)
    a = ap.parse_args()
    os.makedirs(a.out, exist_ok=True)
    report = {'ok': False}
    try:
        g = Gen(a.repo, a.out)
        g.translate_decode(); g.translate_encode()
        ops = g.emit_ops()
        write_if_changed(os.path.join(a.out, 'Ops.v'), ops)
        report.update(g.report)
        report['unsupported_ops'] = sorted(g.unsupported)
        report['supported_by_proposal'] = {}
        for n, _, _ in g.dec_arms:
            p = g.oplist[n]['proposal']; report['supported_by_proposal'][p] = report['supported_by_proposal'].get(p, 0) + 1
        for n in g.control:
            p = g.oplist[n]['proposal']; report['supported_by_proposal'][p] = report['supported_by_proposal'].get(p, 0) + 1
        report['sources'] = {os.path.relpath(p, a.repo): hashlib.sha256(open(p, 'rb').read()).hexdigest()[:16] for p in (g.ir_path, g.dec_path, g.enc_path)}
        # further generators
        import gen_more
        gen_more.run(a.repo, a.out, report, g)
        report['ok'] = True
    except Refuse as e:
        report['refused'] = str(e)
        print('REFUSED:', e, file=sys.stderr)
    except Exception as e:   # a crash of the reader on unexpected syntax is also a refusal
        import traceback
        report['refused'] = 'translator crashed: %r' % (e,)
        traceback.print_exc()
    with open(os.path.join(a.out, 'gen_report.json'), 'w') as f:
        json.dump(report, f, indent=1)
    sys.exit(0 if report['ok'] else 1)


if __name__ == '__main__':
    main()
