#!/bin/sh
# regenerates Model/Bytes.v = hand-written head + generated table (gen_bytes.py from Gen/Ops.v and `vh optable`) + hand-written tail
set -e
/verif/.cache/target/debug/vh optable > /verif/translator/bytes/optable.txt
python3 /verif/translator/bytes/gen_bytes.py
cat /verif/translator/bytes/bytes_head.v /verif/translator/bytes/table.v /verif/translator/bytes/bytes_tail.v > /verif/coq/Model/Bytes.v
