(* The BYTES of a function body: the binary encoding of instructions as wasm-encoder writes it and wasmparser reads it,
   below the operator list ([wins], Model/IR.v) at which Model/ParseFn.v / Model/EmitFn.v stop and above the framing of
   code-section entries (Model/Frame.v; composed at the end: [enc_code] / [dec_code]).  LEB128 comes from Model/Leb.v.
     body        = vec(local group) instruction*           (the last instruction is the function's `end`)
     local group = LEB u32 count, value-type byte
     instruction = opcode byte | prefix byte (0xFC / 0xFD / 0xFE) + LEB u32 sub-opcode, then the immediates
   Operators are described by one table ([optable]): constructor tag (head of Gen/Ops.v [wop_code]), opcode, constructor;
   the shape of the immediates is fixed by the row builder.  [op_split] takes an operator apart into tag + immediates.
   Definitions only (executable); theorems in Proofs/Bytes.v; the tie to real bytes is Run/BytesRun.v (`vh bytes`). *)
From Coq Require Import List NArith ZArith Bool. Import ListNotations.
From WV Require Import Gen.Ops Model.IR Model.Leb Model.Frame.
Open Scope N_scope.

Definition lenB {A} (l : list A) : N := N.of_nat (length l).

(* ------------------------------------------------------------------ value types, block types *)
Definition valty_byte (t : valty) : N :=
  match t with VT_I32 => 127 | VT_I64 => 126 | VT_F32 => 125 | VT_F64 => 124 | VT_V128 => 123 | VT_Funcref => 112 | VT_Externref => 111 end.
Definition valty_of_byte (b : N) : option valty :=
  if b =? 127 then Some VT_I32 else if b =? 126 then Some VT_I64 else if b =? 125 then Some VT_F32 else if b =? 124 then Some VT_F64
  else if b =? 123 then Some VT_V128 else if b =? 112 then Some VT_Funcref else if b =? 111 then Some VT_Externref else None.

(* 0x40 | value type | type index as a (positive) s33 *)
Definition enc_blockty (b : blockty) : list N :=
  match b with BT_Empty => [64] | BT_Val t => [valty_byte t] | BT_Func i => enc_s (Z.of_N i) end.
(* wasmparser peeks at the first byte: 0x40, a value type, otherwise a signed LEB that has to be non-negative *)
Definition dec_blockty (bs : list N) : option (blockty * list N) :=
  match bs with
  | [] => None
  | b :: r =>
      if b =? 64 then Some (BT_Empty, r)
      else match valty_of_byte b with
           | Some t => Some (BT_Val t, r)
           | None => match dec_s bs with
                     | Some (z, r') => if (0 <=? z)%Z then Some (BT_Func (Z.to_N z), r') else None
                     | None => None
                     end
           end
  end.

(* ------------------------------------------------------------------ fixed-width little-endian immediates *)
Fixpoint le_bytes (k : nat) (n : N) : list N :=
  match k with O => [] | S k' => (n mod 256) :: le_bytes k' (n / 256) end.
Fixpoint le_val (k : nat) (bs : list N) : option (N * list N) :=
  match k with
  | O => Some (0, bs)
  | S k' => match bs with
            | [] => None
            | b :: r => match le_val k' r with Some (v, r') => Some (b + 256 * v, r') | None => None end
            end
  end.
Fixpoint take_bytes (k : nat) (bs : list N) : option (list N * list N) :=
  match k with
  | O => Some ([], bs)
  | S k' => match bs with
            | [] => None
            | b :: r => match take_bytes k' r with Some (l, r') => Some (b :: l, r') | None => None end
            end
  end.

(* ------------------------------------------------------------------ memarg *)
(* wasm-encoder: align, offset ; with a non-zero memory index: align | 1<<6, memory index, offset *)
Definition enc_memarg (m : w_memarg) : list N :=
  if wa_memory m =? 0 then enc_u (wa_align m) ++ enc_u (wa_offset m)
  else enc_u (N.lor (wa_align m) 64) ++ enc_u (wa_memory m) ++ enc_u (wa_offset m).
(* wasmparser read_memarg: flags; bit 6 set -> clear it and read a memory index; remaining flags >= 64 is an error; offset u64 *)
Definition dec_memarg (bs : list N) : option (w_memarg * list N) :=
  match dec_u bs with
  | Some (flags, r) =>
      if flags <? 64 then
        match dec_u r with
        | Some (off, r') => Some ({| wa_align := flags; wa_offset := off; wa_memory := 0 |}, r')
        | None => None
        end
      else if flags <? 128 then
        match dec_u r with
        | Some (mem, r1) =>
            match dec_u r1 with
            | Some (off, r') => Some ({| wa_align := flags - 64; wa_offset := off; wa_memory := mem |}, r')
            | None => None
            end
        | None => None
        end
      else None
  | None => None
  end.

(* ------------------------------------------------------------------ immediates *)
Inductive imm :=
  | I_none
  | I_zero                               (* a single 0x00 byte (atomic.fence) *)
  | I_u32 (a : N)                        (* one index *)
  | I_u32x2 (a b : N)                    (* two indices, in the order of the constructor's arguments *)
  | I_s32 (z : Z) | I_s64 (z : Z)        (* signed LEB128 *)
  | I_f32 (n : N) | I_f64 (n : N)        (* the bit pattern, little-endian *)
  | I_valty (t : valty)                  (* select t : a vector of one value type *)
  | I_mem (m : w_memarg)
  | I_heap (h : heapty)
  | I_v128 (n : N)                       (* 16 bytes little-endian *)
  | I_lane (l : N)                       (* one byte *)
  | I_memlane (m : w_memarg) (l : N)
  | I_shuffle (ls : list N).             (* 16 bytes *)
Inductive shape :=
  | Sh_none | Sh_zero | Sh_u32 | Sh_u32x2 | Sh_s32 | Sh_s64 | Sh_f32 | Sh_f64 | Sh_valty | Sh_mem | Sh_heap | Sh_v128 | Sh_lane | Sh_memlane | Sh_shuffle.
Definition shape_of (i : imm) : shape :=
  match i with
  | I_none => Sh_none | I_zero => Sh_zero | I_u32 _ => Sh_u32 | I_u32x2 _ _ => Sh_u32x2 | I_s32 _ => Sh_s32 | I_s64 _ => Sh_s64
  | I_f32 _ => Sh_f32 | I_f64 _ => Sh_f64 | I_valty _ => Sh_valty | I_mem _ => Sh_mem | I_heap _ => Sh_heap | I_v128 _ => Sh_v128
  | I_lane _ => Sh_lane | I_memlane _ _ => Sh_memlane | I_shuffle _ => Sh_shuffle
  end.

(* None: an immediate the model does not cover (heap types other than func / extern) *)
Definition enc_imm (i : imm) : option (list N) :=
  match i with
  | I_none => Some []
  | I_zero => Some [0]
  | I_u32 a => Some (enc_u a)
  | I_u32x2 a b => Some (enc_u a ++ enc_u b)
  | I_s32 z | I_s64 z => Some (enc_s z)
  | I_f32 n => Some (le_bytes 4 n)
  | I_f64 n => Some (le_bytes 8 n)
  | I_valty t => Some (enc_u 1 ++ [valty_byte t])
  | I_mem m => Some (enc_memarg m)
  | I_heap HT_Func => Some [112]
  | I_heap HT_Extern => Some [111]
  | I_heap (HT_Other _) => None
  | I_v128 n => Some (le_bytes 16 n)
  | I_lane l => Some [l]
  | I_memlane m l => Some (enc_memarg m ++ [l])
  | I_shuffle ls => Some ls
  end.
Definition dec_imm (s : shape) (bs : list N) : option (imm * list N) :=
  match s with
  | Sh_none => Some (I_none, bs)
  | Sh_zero => match bs with b :: r => if b =? 0 then Some (I_zero, r) else None | [] => None end
  | Sh_u32 => match dec_u bs with Some (a, r) => Some (I_u32 a, r) | None => None end
  | Sh_u32x2 => match dec_u bs with
                | Some (a, r) => match dec_u r with Some (b, r') => Some (I_u32x2 a b, r') | None => None end
                | None => None
                end
  | Sh_s32 => match dec_s bs with Some (z, r) => Some (I_s32 z, r) | None => None end
  | Sh_s64 => match dec_s bs with Some (z, r) => Some (I_s64 z, r) | None => None end
  | Sh_f32 => match le_val 4 bs with Some (n, r) => Some (I_f32 n, r) | None => None end
  | Sh_f64 => match le_val 8 bs with Some (n, r) => Some (I_f64 n, r) | None => None end
  | Sh_valty => match dec_u bs with
                | Some (k, b :: r) => if k =? 1 then match valty_of_byte b with Some t => Some (I_valty t, r) | None => None end else None
                | _ => None
                end
  | Sh_mem => match dec_memarg bs with Some (m, r) => Some (I_mem m, r) | None => None end
  | Sh_heap => match bs with
               | b :: r => if b =? 112 then Some (I_heap HT_Func, r) else if b =? 111 then Some (I_heap HT_Extern, r) else None
               | [] => None
               end
  | Sh_v128 => match le_val 16 bs with Some (n, r) => Some (I_v128 n, r) | None => None end
  | Sh_lane => match bs with b :: r => Some (I_lane b, r) | [] => None end
  | Sh_memlane => match dec_memarg bs with
                  | Some (m, b :: r) => Some (I_memlane m b, r)
                  | _ => None
                  end
  | Sh_shuffle => match take_bytes 16 bs with Some (l, r) => Some (I_shuffle l, r) | None => None end
  end.

(* the ranges the encodings carry: u32 indices, s32 / s64 constants, u64 offsets, alignment exponent below 64, bytes *)
Definition u32_ok (n : N) : bool := n <? 2 ^ 32.
Definition wf_memarg (m : w_memarg) : bool := (wa_align m <? 64) && (wa_offset m <? 2 ^ 64) && u32_ok (wa_memory m).
Definition wf_i (i : imm) : bool :=
  match i with
  | I_none | I_zero => true
  | I_u32 a => u32_ok a
  | I_u32x2 a b => u32_ok a && u32_ok b
  | I_s32 z => ((- 2 ^ 31 <=? z) && (z <? 2 ^ 31))%Z
  | I_s64 z => ((- 2 ^ 63 <=? z) && (z <? 2 ^ 63))%Z
  | I_f32 n => n <? 2 ^ 32
  | I_f64 n => n <? 2 ^ 64
  | I_valty _ => true
  | I_mem m => wf_memarg m
  | I_heap h => match h with HT_Other _ => false | _ => true end
  | I_v128 n => n <? 2 ^ 128
  | I_lane l => l <? 256
  | I_memlane m l => wf_memarg m && (l <? 256)
  | I_shuffle ls => (length ls =? 16)%nat
  end.

(* ------------------------------------------------------------------ opcodes *)
(* key = (first byte, sub-opcode); the sub-opcode is only written after a prefix byte *)
Definition is_prefix (b : N) : bool := (b =? 252) || (b =? 253) || (b =? 254).
Definition enc_key (k : N * N) : list N := if is_prefix (fst k) then fst k :: enc_u (snd k) else [fst k].
Definition dec_key (bs : list N) : option ((N * N) * list N) :=
  match bs with
  | [] => None
  | b :: r => if is_prefix b then match dec_u r with Some (s, r') => Some ((b, s), r') | None => None end
              else Some ((b, 0), r)
  end.
Definition key_eqb (a b : N * N) : bool := (fst a =? fst b) && (snd a =? snd b).

Record oprow := { r_tag : N; r_key : N * N; r_shape : shape; r_mk : imm -> option wop }.
Definition row_none k key (o : wop) := {| r_tag := k; r_key := key; r_shape := Sh_none; r_mk := fun i => match i with I_none => Some o | _ => None end |}.
Definition row_zero k key (o : wop) := {| r_tag := k; r_key := key; r_shape := Sh_zero; r_mk := fun i => match i with I_zero => Some o | _ => None end |}.
Definition row_u32 k key (c : N -> wop) := {| r_tag := k; r_key := key; r_shape := Sh_u32; r_mk := fun i => match i with I_u32 a => Some (c a) | _ => None end |}.
Definition row_u32x2 k key (c : N -> N -> wop) := {| r_tag := k; r_key := key; r_shape := Sh_u32x2; r_mk := fun i => match i with I_u32x2 a b => Some (c a b) | _ => None end |}.
Definition row_s32 k key (c : Z -> wop) := {| r_tag := k; r_key := key; r_shape := Sh_s32; r_mk := fun i => match i with I_s32 z => Some (c z) | _ => None end |}.
Definition row_s64 k key (c : Z -> wop) := {| r_tag := k; r_key := key; r_shape := Sh_s64; r_mk := fun i => match i with I_s64 z => Some (c z) | _ => None end |}.
Definition row_f32 k key (c : N -> wop) := {| r_tag := k; r_key := key; r_shape := Sh_f32; r_mk := fun i => match i with I_f32 n => Some (c n) | _ => None end |}.
Definition row_f64 k key (c : N -> wop) := {| r_tag := k; r_key := key; r_shape := Sh_f64; r_mk := fun i => match i with I_f64 n => Some (c n) | _ => None end |}.
Definition row_valty k key (c : valty -> wop) := {| r_tag := k; r_key := key; r_shape := Sh_valty; r_mk := fun i => match i with I_valty t => Some (c t) | _ => None end |}.
Definition row_mem k key (c : w_memarg -> wop) := {| r_tag := k; r_key := key; r_shape := Sh_mem; r_mk := fun i => match i with I_mem m => Some (c m) | _ => None end |}.
Definition row_heap k key (c : heapty -> wop) := {| r_tag := k; r_key := key; r_shape := Sh_heap; r_mk := fun i => match i with I_heap h => Some (c h) | _ => None end |}.
Definition row_v128 k key (c : N -> wop) := {| r_tag := k; r_key := key; r_shape := Sh_v128; r_mk := fun i => match i with I_v128 n => Some (c n) | _ => None end |}.
Definition row_lane k key (c : N -> wop) := {| r_tag := k; r_key := key; r_shape := Sh_lane; r_mk := fun i => match i with I_lane l => Some (c l) | _ => None end |}.
Definition row_memlane k key (c : w_memarg -> N -> wop) := {| r_tag := k; r_key := key; r_shape := Sh_memlane; r_mk := fun i => match i with I_memlane m l => Some (c m l) | _ => None end |}.
Definition row_shuffle k key (c : list N -> wop) := {| r_tag := k; r_key := key; r_shape := Sh_shuffle; r_mk := fun i => match i with I_shuffle ls => Some (c ls) | _ => None end |}.

