
Definition find_tag (k : N) : option oprow := find (fun r => r_tag r =? k) optable.
Definition find_key (k : N * N) : option oprow := find (fun r => key_eqb (r_key r) k) optable.

(* the operators the table knows *)
Definition covered (o : wop) : bool := match find_tag (fst (op_split o)) with Some _ => true | None => false end.
Definition wf_op (o : wop) : bool := wf_i (snd (op_split o)).

(* the operators without immediates, with their bytes (for inspection; [enc_op] goes through [optable]) *)
Definition simple_ops : list (wop * list N) :=
  flat_map (fun r => match r_shape r, r_mk r I_none with Sh_none, Some o => [(o, enc_key (r_key r))] | _, _ => [] end) optable.

Definition enc_op (o : wop) : option (list N) :=
  match find_tag (fst (op_split o)) with
  | Some row => match enc_imm (snd (op_split o)) with Some bs => Some (enc_key (r_key row) ++ bs) | None => None end
  | None => None
  end.
Definition dec_op (bs : list N) : option (wop * list N) :=
  match dec_key bs with
  | Some (key, r) =>
      match find_key key with
      | Some row =>
          match dec_imm (r_shape row) r with
          | Some (i, r') => match r_mk row i with Some o => Some (o, r') | None => None end
          | None => None
          end
      | None => None
      end
  | None => None
  end.

(* ------------------------------------------------------------------ instructions *)
Definition enc_ins (i : wins) : option (list N) :=
  match i with
  | WOp o => enc_op o
  | WBlock bt => Some (2 :: enc_blockty bt)
  | WLoop bt => Some (3 :: enc_blockty bt)
  | WIf bt => Some (4 :: enc_blockty bt)
  | WElse => Some [5]
  | WEnd => Some [11]
  | WBr d => Some (12 :: enc_u d)
  | WBrIf d => Some (13 :: enc_u d)
  | WBrTable ds d => Some (14 :: enc_u (lenB ds) ++ flat_map enc_u ds ++ enc_u d)
  | WNop => Some [1]
  end.
Fixpoint dec_u_list (k : nat) (bs : list N) : option (list N * list N) :=
  match k with
  | O => Some ([], bs)
  | S k' => match dec_u bs with
            | Some (x, r) => match dec_u_list k' r with Some (l, r') => Some (x :: l, r') | None => None end
            | None => None
            end
  end.
Definition is_ctl (b : N) : bool :=
  (b =? 1) || (b =? 2) || (b =? 3) || (b =? 4) || (b =? 5) || (b =? 11) || (b =? 12) || (b =? 13) || (b =? 14).
Definition dec_ins (bs : list N) : option (wins * list N) :=
  match bs with
  | [] => None
  | b :: r =>
      if b =? 1 then Some (WNop, r)
      else if b =? 2 then match dec_blockty r with Some (bt, r') => Some (WBlock bt, r') | None => None end
      else if b =? 3 then match dec_blockty r with Some (bt, r') => Some (WLoop bt, r') | None => None end
      else if b =? 4 then match dec_blockty r with Some (bt, r') => Some (WIf bt, r') | None => None end
      else if b =? 5 then Some (WElse, r)
      else if b =? 11 then Some (WEnd, r)
      else if b =? 12 then match dec_u r with Some (d, r') => Some (WBr d, r') | None => None end
      else if b =? 13 then match dec_u r with Some (d, r') => Some (WBrIf d, r') | None => None end
      else if b =? 14 then
        match dec_u r with
        | Some (k, r1) =>
            match dec_u_list (N.to_nat k) r1 with
            | Some (ds, r2) => match dec_u r2 with Some (d, r') => Some (WBrTable ds d, r') | None => None end
            | None => None
            end
        | None => None
        end
      else match dec_op bs with Some (o, r') => Some (WOp o, r') | None => None end
  end.

Definition wf_blockty (b : blockty) : bool := match b with BT_Func i => u32_ok i | _ => true end.
Definition wf_imm (i : wins) : bool :=
  match i with
  | WOp o => wf_op o
  | WBlock bt | WLoop bt | WIf bt => wf_blockty bt
  | WBr d | WBrIf d => u32_ok d
  | WBrTable ds d => forallb u32_ok ds && u32_ok d && u32_ok (lenB ds)
  | _ => true
  end.

Definition ilen_model (i : wins) : option N := match enc_ins i with Some bs => Some (lenB bs) | None => None end.

(* ------------------------------------------------------------------ bodies *)
Fixpoint enc_inss (ops : list wins) : option (list N) :=
  match ops with
  | [] => Some []
  | i :: r => match enc_ins i, enc_inss r with Some a, Some b => Some (a ++ b) | _, _ => None end
  end.
Definition enc_local (p : N * valty) : list N := enc_u (fst p) ++ [valty_byte (snd p)].
Definition enc_locals (l : list (N * valty)) : list N := enc_u (lenB l) ++ flat_map enc_local l.
Definition enc_body (locals : list (N * valty)) (ops : list wins) : option (list N) :=
  match enc_inss ops with Some bs => Some (enc_locals locals ++ bs) | None => None end.
(* ranges of a whole body: group counts and the number of groups are u32, every instruction's immediates are in range *)
Definition wf_local (p : N * valty) : bool := u32_ok (fst p).
Definition wf_body (locals : list (N * valty)) (ops : list wins) : bool :=
  forallb wf_local locals && u32_ok (lenB locals) && forallb wf_imm ops.

Fixpoint dec_local_groups (k : nat) (bs : list N) : option (list (N * valty) * list N) :=
  match k with
  | O => Some ([], bs)
  | S k' => match dec_u bs with
            | Some (n, b :: r) =>
                match valty_of_byte b with
                | Some t => match dec_local_groups k' r with Some (l, r') => Some ((n, t) :: l, r') | None => None end
                | None => None
                end
            | _ => None
            end
  end.
Definition dec_locals (bs : list N) : option (list (N * valty) * list N) :=
  match dec_u bs with Some (k, r) => dec_local_groups (N.to_nat k) r | None => None end.
(* the operators reader runs until the bytes of the body are used up *)
Fixpoint dec_inss (fuel : nat) (bs : list N) : option (list wins) :=
  match bs with
  | [] => Some []
  | _ :: _ =>
      match fuel with
      | O => None
      | S f => match dec_ins bs with
               | Some (i, r) => match dec_inss f r with Some l => Some (i :: l) | None => None end
               | None => None
               end
      end
  end.
Definition dec_body (fuel : nat) (bs : list N) : option (list (N * valty) * list wins) :=
  match dec_locals bs with
  | Some (ls, r) => match dec_inss fuel r with Some ops => Some (ls, ops) | None => None end
  | None => None
  end.

(* the reader with positions: every instruction together with the offset (relative to the start of the body) at which it was
   read - what wasmparser's original_position() gives and walrus turns into InstrLocIds.  Works for padded input too. *)
Fixpoint dec_inss_at (fuel : nat) (cur : N) (bs : list N) : option (list (wins * N)) :=
  match bs with
  | [] => Some []
  | _ :: _ =>
      match fuel with
      | O => None
      | S f => match dec_ins bs with
               | Some (i, r) => match dec_inss_at f (cur + (lenB bs - lenB r)) r with Some l => Some ((i, cur) :: l) | None => None end
               | None => None
               end
      end
  end.
Definition dec_body_at (fuel : nat) (bs : list N) : option (list (N * valty) * list (wins * N)) :=
  match dec_locals bs with
  | Some (ls, r) => match dec_inss_at fuel (lenB bs - lenB r) r with Some ops => Some (ls, ops) | None => None end
  | None => None
  end.

(* where every instruction of a body starts, relative to the start of the body (what the harness reads off wasmparser) *)
Fixpoint ins_offsets (cur : N) (ops : list wins) : option (list N) :=
  match ops with
  | [] => Some []
  | i :: r => match ilen_model i with
              | Some n => match ins_offsets (cur + n) r with Some l => Some (cur :: l) | None => None end
              | None => None
              end
  end.

(* ------------------------------------------------------------------ the code section: bodies inside the framing of Model/Frame.v *)
Definition fbody : Type := list (N * valty) * list wins.
Fixpoint enc_bodies (bodies : list fbody) : option (list (list N)) :=
  match bodies with
  | [] => Some []
  | b :: r => match enc_body (fst b) (snd b), enc_bodies r with Some x, Some l => Some (x :: l) | _, _ => None end
  end.
Definition enc_code (bodies : list fbody) : option (list N) :=
  match enc_bodies bodies with Some l => Some (code_payload l) | None => None end.
Fixpoint dec_bodies (bs : list (list N)) : option (list fbody) :=
  match bs with
  | [] => Some []
  | b :: r => match dec_body (length b) b, dec_bodies r with Some x, Some l => Some (x :: l) | _, _ => None end
  end.
Definition dec_code (payload : list N) : option (list fbody) :=
  match split_code payload with Some l => dec_bodies l | None => None end.
