"""Further generators; each adds a file under coq/Gen and a section in the report.

G7  attribute plumbing of tables / memories / globals:
      parse side: the argument lists of add_import_* / add_local in parse_imports / parse_tables /
                  parse_memories / parse_globals, through the fn parameters, down to the struct literal;
      emit side:  the wasm_encoder::{TableType, MemoryType, GlobalType} struct literals of the Emit impls.
    -> coq/Gen/Attrs.v : gen_parse_* / gen_emit_* functions over the records of Model/ModuleM.v.
G5  module/config.rs get_wasmparser_wasm_features -> coq/Gen/Features.v.
"""
import os, re
from tt import *


class Refuse(Exception):
    pass


def src_tree(repo, rel):
    p = os.path.join(repo, rel)
    return p, tree(tokenize(open(p).read()))


def fn_params(t, name):
    """parameter names of `fn name(...)` (without self)"""
    for i, x in enumerate(t):
        if is_id(x, 'fn') and i + 1 < len(t) and is_id(t[i + 1], name):
            for u in t[i + 2:]:
                if is_g(u, '()'):
                    out = []
                    for p in split(u.items, ','):
                        p = [q for q in p if not is_p(q, '&') and not is_id(q, 'mut')]
                        if not p or is_id(p[0], 'self'): continue
                        out.append(p[0].s)
                    return out
    for x in t:
        if isinstance(x, Group):
            r = fn_params(x.items, name)
            if r is not None: return r
    return None


def find_calls(items, pred):
    """all (callee token texts, args Group) with pred(prefix tokens) true, searched recursively"""
    out = []
    for i, x in enumerate(items):
        if is_g(x, '()') and i > 0 and is_id(items[i - 1]):
            j = i - 1; pre = [items[j]]
            while j - 2 >= 0 and is_p(items[j - 1], '.') or (j - 2 >= 0 and is_p(items[j - 1], '::')):
                pre = [items[j - 2], items[j - 1]] + pre; j -= 2
            if pred(text(pre).replace(' ', '')): out.append((text(pre).replace(' ', ''), x))
        if isinstance(x, Group): out += find_calls(x.items, pred)
    return out


def struct_lits(items, name):
    """all struct literals `name { f: e, g }` (recursively): list of {field: tokens}"""
    out = []
    for i, x in enumerate(items):
        if is_g(x, '{}') and i > 0 and is_id(items[i - 1], name) and not (i > 1 and (is_id(items[i - 2], 'struct') or is_id(items[i - 2], 'for') or is_id(items[i - 2], 'impl'))):
            d = {}
            for f in split(x.items, ','):
                if not f: continue
                if len(f) == 1: d[f[0].s] = f
                else: d[f[0].s] = f[2:]
            out.append(d)
        if isinstance(x, Group): out += struct_lits(x.items, name)
    return out


def fn_body(t, name):
    return find_fn(t, name)


# ---------------------------------------------------------------- expression translation
WP_FIELDS = {
    'table': {'element_type': 'wt_elem', 'table64': 'wt_64', 'initial': 'wt_init', 'maximum': 'wt_max'},
    'memory': {'memory64': 'wm_64', 'shared': 'wm_shared', 'initial': 'wm_init', 'maximum': 'wm_max', 'page_size_log2': 'wm_page'},
    'global': {'content_type': 'wg_ty', 'mutable': 'wg_mut', 'shared': 'wg_shared'},
}
IR_FIELDS = {
    'table': {'table64': 'tb_64', 'initial': 'tb_init', 'maximum': 'tb_max', 'element_ty': 'tb_elem', 'import': 'tb_import', 'elem_segments': 'tb_segs', 'name': 'tb_name'},
    'memory': {'shared': 'me_shared', 'memory64': 'me_64', 'initial': 'me_init', 'maximum': 'me_max', 'page_size_log2': 'me_page', 'import': 'me_import', 'data_segments': 'me_segs', 'name': 'me_name'},
    'global': {'ty': 'gl_ty', 'mutable': 'gl_mut', 'shared': 'gl_shared', 'kind': 'gl_kind', 'name': 'gl_name'},
}
ENC_FIELDS = {
    'table': {'element_type': 'wt_elem', 'table64': 'wt_64', 'minimum': 'wt_init', 'maximum': 'wt_max'},
    'memory': {'memory64': 'wm_64', 'shared': 'wm_shared', 'minimum': 'wm_init', 'maximum': 'wm_max', 'page_size_log2': 'wm_page'},
    'global': {'val_type': 'wg_ty', 'mutable': 'wg_mut', 'shared': 'wg_shared'},
}
RECORD = {'table': ('mtable', 'wtable'), 'memory': ('mmem', 'wmem'), 'global': ('mglobal', 'wglobalty')}
IR_ORDER = {'table': ['tb_64', 'tb_init', 'tb_max', 'tb_elem', 'tb_import', 'tb_segs', 'tb_name'],
            'memory': ['me_shared', 'me_64', 'me_init', 'me_max', 'me_page', 'me_import', 'me_segs', 'me_name'],
            'global': ['gl_ty', 'gl_mut', 'gl_shared', 'gl_kind', 'gl_name']}
W_ORDER = {'table': ['wt_elem', 'wt_64', 'wt_init', 'wt_max'], 'memory': ['wm_64', 'wm_shared', 'wm_init', 'wm_max', 'wm_page'], 'global': ['wg_ty', 'wg_mut', 'wg_shared']}


def wp_expr(kind, toks, var):
    """an argument of the parse-side call: an expression over the wasmparser type value `var`"""
    s = text(toks).replace(' ', '')
    for pre in (var + '.ty.', var + '.'):
        for suf in ('', '.try_into()?'):
            for f, c in WP_FIELDS[kind].items():
                if s == pre + f + suf: return '(%s x)' % c
    m = re.fullmatch(r'ValType::parse\(&%s(?:\.ty)?\.(\w+)\)\?' % re.escape(var), s)
    if m and m.group(1) in WP_FIELDS[kind]: return '(%s x)' % WP_FIELDS[kind][m.group(1)]
    if s.startswith('ConstExpr::eval('): return 'init'
    if s in ('entry.module', 'entry.name'): return None
    raise Refuse('parse-side attribute expression not understood: ' + s)


def lit_expr(kind, toks, env):
    """a field initialiser inside the walrus struct literal, over the fn parameters in env"""
    s = text(toks).replace(' ', '')
    if s in env: return env[s]
    if s == 'id': return None
    if s in ('Default::default()',): return '[]'
    if s == 'None': return 'None'
    if s in ('true', 'false'): return s
    m = re.fullmatch(r'Some\((\w+)\)', s)
    if m and m.group(1) in env: return '(Some %s)' % env[m.group(1)]
    m = re.fullmatch(r'GlobalKind::Import\((\w+)\)', s)
    if m and m.group(1) in env: return '(GK_Import %s)' % env[m.group(1)]
    m = re.fullmatch(r'GlobalKind::Local\((\w+)\)', s)
    if m and m.group(1) in env: return '(GK_Local %s)' % env[m.group(1)]
    raise Refuse('struct literal field not understood: ' + s)


def enc_expr(kind, toks, var):
    s = text(toks).replace(' ', '')
    for v in var:
        m = re.fullmatch(re.escape(v) + r'\.(\w+)', s)
        if m and m.group(1) in IR_FIELDS[kind]: return '(%s y)' % IR_FIELDS[kind][m.group(1)]
        m = re.fullmatch(re.escape(v) + r'\.(\w+)\.to_wasmencoder_type\(\)', s)
        if m and m.group(1) in IR_FIELDS[kind]: return '(%s y)' % IR_FIELDS[kind][m.group(1)]
        m = re.fullmatch(r'match' + re.escape(v) + r'\.(\w+)\{RefType::Externref=>wasm_encoder::RefType::EXTERNREF,RefType::Funcref=>wasm_encoder::RefType::FUNCREF,?\}', s)
        if m and m.group(1) in IR_FIELDS[kind]: return '(%s y)' % IR_FIELDS[kind][m.group(1)]
        m = re.fullmatch(r'match' + re.escape(v) + r'\.(\w+)\{RefType::Externref=>wasm_encoder::RefType::FUNCREF,RefType::Funcref=>wasm_encoder::RefType::EXTERNREF,?\}', s)
        if m and m.group(1) in IR_FIELDS[kind]: return '(match %s y with RT_Externref => RT_Funcref | RT_Funcref => RT_Externref end)' % IR_FIELDS[kind][m.group(1)]
    if s in ('true', 'false', 'None'): return s
    raise Refuse('emit-side attribute expression not understood: ' + s)


def gen_attrs(repo, out, report):
    imp_p, imp_t = src_tree(repo, 'src/module/imports.rs')
    files = {'table': src_tree(repo, 'src/module/tables.rs'), 'memory': src_tree(repo, 'src/module/memories.rs'), 'global': src_tree(repo, 'src/module/globals.rs')}
    plural = {'table': 'tables', 'memory': 'memories', 'global': 'globals'}
    wpvar = {'table': 't', 'memory': 'm', 'global': 'g'}
    typeref = {'table': 'Table', 'memory': 'Memory', 'global': 'Global'}
    struct = {'table': 'Table', 'memory': 'Memory', 'global': 'Global'}
    enc_ty = {'table': 'TableType', 'memory': 'MemoryType', 'global': 'GlobalType'}
    o = ['(* GENERATED by /verif/translator/gen_more.py (G7) from src/module/{imports,tables,memories,globals}.rs -- do not edit *)',
         'From Coq Require Import List NArith Bool. Import ListNotations.', 'From WV Require Import Gen.Ops Model.ModuleM.', 'Open Scope N_scope.']
    rep = {}
    for kind in ('table', 'memory', 'global'):
        p, t = files[kind]
        mrec, wrec = RECORD[kind]

        def plumb(outer_args, outer_fn_tree, outer_fn, inner_recv, inner_fn, var, extra_env):
            """outer call args -> params of outer_fn -> inner call args -> params of inner_fn -> struct literal"""
            env = dict(extra_env)
            if outer_fn is not None:
                ps = fn_params(outer_fn_tree, outer_fn)
                if ps is None: raise Refuse('fn %s not found' % outer_fn)
                if len(ps) != len(outer_args): raise Refuse('%s: %d arguments for %d parameters' % (outer_fn, len(outer_args), len(ps)))
                for pn, a in zip(ps, outer_args):
                    e = wp_expr(kind, a, var)
                    if e is not None: env[pn] = e
                body = fn_body(outer_fn_tree, outer_fn)
                calls = find_calls(body.items, lambda s: s == 'self.%s.%s' % (plural[kind], inner_fn))
                if len(calls) != 1: raise Refuse('%s: expected one call to self.%s.%s' % (outer_fn, plural[kind], inner_fn))
                inner_args = split(calls[0][1].items, ',')
                env2 = {}
                ps2 = fn_params(t, inner_fn)
                if ps2 is None or len(ps2) != len(inner_args): raise Refuse('%s.%s: arity mismatch' % (plural[kind], inner_fn))
                for pn, a in zip(ps2, inner_args):
                    s = text(a).replace(' ', '')
                    if s in env: env2[pn] = env[s]
                    else: raise Refuse('%s: argument %s of %s is not a parameter' % (outer_fn, s, inner_fn))
            else:
                ps2 = fn_params(t, inner_fn)
                if ps2 is None or len(ps2) != len(outer_args): raise Refuse('%s.%s: arity mismatch' % (plural[kind], inner_fn))
                env2 = dict(extra_env)
                for pn, a in zip(ps2, outer_args):
                    e = wp_expr(kind, a, var)
                    if e is not None: env2[pn] = e
            lits = struct_lits(fn_body(t, inner_fn).items, struct[kind])
            if len(lits) != 1: raise Refuse('%s.%s: expected one %s literal' % (plural[kind], inner_fn, struct[kind]))
            fields = {}
            for f, toks in lits[0].items():
                if f == 'id': continue
                if f not in IR_FIELDS[kind]: raise Refuse('%s literal has unknown field %s' % (struct[kind], f))
                fields[IR_FIELDS[kind][f]] = lit_expr(kind, toks, env2)
            missing = [f for f in IR_ORDER[kind] if f not in fields]
            if missing: raise Refuse('%s literal lacks %s' % (struct[kind], missing))
            return '{| ' + '; '.join('%s := %s' % (f, fields[f]) for f in IR_ORDER[kind]) + ' |}'

        # ---- parse: imported
        pi = fn_body(imp_t, 'parse_imports')
        calls = find_calls(pi.items, lambda s: s == 'self.add_import_' + kind)
        if len(calls) != 1: raise Refuse('parse_imports: expected one call to add_import_' + kind)
        args = split(calls[0][1].items, ',')
        imp_env = {'import': 'imp', 'import_id': 'imp'}
        # the import id is allocated inside add_import_<kind>: `let import = self.imports.arena.next_id();`
        rec_i = plumb(args, imp_t, 'add_import_' + kind, plural[kind], 'add_import', wpvar[kind], imp_env)
        o.append('Definition gen_parse_%s_import (x : %s) (imp : N) : %s := %s.' % (kind, wrec, mrec, rec_i))
        # ---- parse: local
        pl = fn_body(t, 'parse_' + plural[kind])
        calls = find_calls(pl.items, lambda s: s == 'self.%s.add_local' % plural[kind])
        if len(calls) != 1: raise Refuse('parse_%s: expected one call to add_local' % plural[kind])
        args = split(calls[0][1].items, ',')
        var = {'table': 't', 'memory': 'm', 'global': 'g'}[kind]
        rec_l = plumb(args, None, None, plural[kind], 'add_local', var, {})
        if kind == 'global':
            o.append('Definition gen_parse_global_local (x : wglobalty) (init : mconst) : mglobal := %s.' % rec_l)
        else:
            o.append('Definition gen_parse_%s_local (x : %s) : %s := %s.' % (kind, wrec, mrec, rec_l))
        # ---- emit: imported (imports.rs) and local (<kind>s.rs)
        def enc(lit, vars_):
            fields = {}
            for f, toks in lit.items():
                if f == 'shared' and kind == 'table':
                    if text(toks) != 'false': raise Refuse('TableType.shared is not the literal false')
                    continue
                if f not in ENC_FIELDS[kind]: raise Refuse('%s literal has unknown field %s' % (enc_ty[kind], f))
                fields[ENC_FIELDS[kind][f]] = enc_expr(kind, toks, vars_)
            missing = [f for f in W_ORDER[kind] if f not in fields]
            if missing: raise Refuse('%s literal lacks %s' % (enc_ty[kind], missing))
            return '{| ' + '; '.join('%s := %s' % (f, fields[f]) for f in W_ORDER[kind]) + ' |}'
        li = struct_lits(imp_t, enc_ty[kind])
        if len(li) != 1: raise Refuse('imports.rs: expected one wasm_encoder::%s literal' % enc_ty[kind])
        o.append('Definition gen_emit_%s_import (y : %s) : %s := %s.' % (kind, mrec, wrec, enc(li[0], ['table', 'mem', 'g', 'memory', 'global'])))
        ll = struct_lits(t, enc_ty[kind])
        if len(ll) != 1: raise Refuse('%s.rs: expected one wasm_encoder::%s literal' % (plural[kind], enc_ty[kind]))
        o.append('Definition gen_emit_%s_local (y : %s) : %s := %s.' % (kind, mrec, wrec, enc(ll[0], ['table', 'memory', 'global', 'mem', 'g'])))
        rep[kind] = 'ok'
    content = '\n'.join(o) + '\n'
    path = os.path.join(out, 'Attrs.v')
    try:
        if open(path).read() == content: return rep
    except OSError: pass
    open(path, 'w').write(content)
    return rep


def gen_features(repo, out, report):
    p, t = src_tree(repo, 'src/module/config.rs')
    body = fn_body(t, 'get_wasmparser_wasm_features')
    if body is None: raise Refuse('get_wasmparser_wasm_features not found')
    always, unstable = [], []
    def collect(items, dst):
        for i, x in enumerate(items):
            if is_id(x, 'features') and i + 3 < len(items) and is_p(items[i + 1], '.') and is_id(items[i + 2], 'insert') and is_g(items[i + 3], '()'):
                s = text(items[i + 3].items).replace(' ', '')
                m = re.fullmatch(r'WasmFeatures::(\w+)', s)
                if not m: raise Refuse('feature expression not understood: ' + s)
                dst.append(m.group(1))
    collect(body.items, always)
    # the single `if !self.only_stable_features { ... }`
    ifs = [i for i, x in enumerate(body.items) if is_id(x, 'if')]
    if len(ifs) != 1: raise Refuse('get_wasmparser_wasm_features: expected exactly one `if`')
    i = ifs[0]; cond = []
    j = i + 1
    while not is_g(body.items[j], '{}'): cond.append(body.items[j]); j += 1
    if text(cond).replace(' ', '') != '!self.only_stable_features': raise Refuse('feature guard not understood: ' + text(cond))
    collect(body.items[j].items, unstable)
    if not any(is_id(x, 'WasmFeatures') for x in body.items[:6]) and 'empty' not in text(body.items[:12]): raise Refuse('feature set does not start from WasmFeatures::empty()')
    names = sorted(set(always + unstable))
    o = ['(* GENERATED by /verif/translator/gen_more.py (G5) from src/module/config.rs -- do not edit *)', 'From Coq Require Import List. Import ListNotations.',
         'Inductive feature := ' + ' | '.join('F_' + n for n in names) + '.',
         'Definition features_stable : list feature := [%s].' % '; '.join('F_' + n for n in always),
         'Definition features_default : list feature := features_stable ++ [%s].' % '; '.join('F_' + n for n in unstable)]
    content = '\n'.join(o) + '\n'
    path = os.path.join(out, 'Features.v')
    try:
        if open(path).read() == content: return {'stable': always, 'unstable_only': unstable}
    except OSError: pass
    open(path, 'w').write(content)
    return {'stable': always, 'unstable_only': unstable}


def gen_gate(repo, out, report):
    """G6: the validation gate.  From Module::parse (src/module/mod.rs): for every arm of `match payload?` record what
    happens to that payload kind BEFORE walrus consumes it; from LocalFunction::parse / parse_local_functions: that
    every operator and every locals declaration is handed to the function validator before it is consumed."""
    p, t = src_tree(repo, 'src/module/mod.rs')
    body = fn_body(t, 'parse')
    if body is None: raise Refuse('Module::parse not found')
    m = find_match(body.items, lambda sc: text(sc).replace(' ', '') == 'payload?')
    if m is None: raise Refuse('`match payload?` not found in Module::parse')
    table = []   # (kind, class, validator method)
    def flat(items):
        for x in items:
            if isinstance(x, Group):
                yield x
                for y in flat(x.items): yield y
            else: yield x
    for pat, b in arms(m):
        kinds = re.findall(r'Payload :: (\w+)', text(pat))
        if not kinds: raise Refuse('payload arm without Payload:: pattern: ' + text(pat)[:80])
        toks = list(flat(b))
        # position of the first validator call that is followed by `?` (possibly through .context(..))
        vpos, vmeth = None, None
        for i, x in enumerate(toks):
            if is_id(x, 'validator') and i + 3 < len(toks) and is_p(toks[i + 1], '.') and toks[i + 2].k == 'id' and is_g(toks[i + 3], '()'):
                vpos, vmeth = i, toks[i + 2].s; break
        # first use of the payload by walrus: `ret . x`, `local_functions . push`, `name_sections . push`, `debug_sections . push`
        upos = None
        for i, x in enumerate(toks):
            if isinstance(x, Tok) and x.k == 'id' and x.s in ('ret', 'local_functions', 'name_sections', 'debug_sections') and i + 1 < len(toks) and is_p(toks[i + 1], '.'):
                upos = i; break
        has_bail = any(isinstance(x, Tok) and x.k == 'id' and x.s in ('bail!', 'unreachable!') for x in toks)
        def question_after(i):
            # a `?` must follow the call expression (allowing `.context(..)`) before the statement ends
            depth_items = toks[i:]
            for y in depth_items:
                if is_p(y, ';'): return False
                if is_p(y, '?'): return True
            return False
        for k in kinds:
            if k == 'CustomSection':
                if vpos is not None: raise Refuse('custom sections are not expected to be validated')
                cls, meth = 'AK_Custom', ''
            elif vpos is not None and question_after(vpos) and (upos is None or vpos < upos):
                cls, meth = ('AK_ValidatedThenRejected' if has_bail and upos is None and vmeth not in ('end', 'version') else 'AK_Validated'), vmeth
            elif has_bail and upos is None:
                cls, meth = 'AK_Rejected', ''
            else:
                cls, meth = 'AK_Unchecked', ''
            table.append((k, cls, meth))
    # function bodies
    p2, t2 = src_tree(repo, 'src/module/functions/local_function/mod.rs')
    b2 = fn_body(t2, 'parse')
    if b2 is None: raise Refuse('LocalFunction::parse not found')
    toks = list(flat(b2.items))
    def first(pred):
        for i, x in enumerate(toks):
            if pred(i, x): return i
        return None
    i_op = first(lambda i, x: is_id(x, 'validator') and i + 2 < len(toks) and is_p(toks[i + 1], '.') and is_id(toks[i + 2], 'op'))
    i_app = first(lambda i, x: is_id(x, 'append_instruction'))
    i_fin = first(lambda i, x: is_id(x, 'validator') and i + 2 < len(toks) and is_p(toks[i + 1], '.') and is_id(toks[i + 2], 'finish'))
    def q_after(i):
        for y in toks[i:]:
            if is_p(y, ';'): return False
            if is_p(y, '?'): return True
        return False
    op_first = i_op is not None and i_app is not None and i_op < i_app and q_after(i_op)
    finish_checked = i_fin is not None and q_after(i_fin)
    p3, t3 = src_tree(repo, 'src/module/functions/mod.rs')
    b3 = fn_body(t3, 'parse_local_functions')
    if b3 is None: raise Refuse('parse_local_functions not found')
    toks3 = list(flat(b3.items))
    # the declared locals: inside the `for` whose header reads the number of local declarations (`get_binary_reader` ..
    # `read_var_u32`), `validator.define_locals(..)?` must come before the first `locals.add`
    i_rd = None
    for i, x in enumerate(toks3):
        if is_id(x, 'get_binary_reader'): i_rd = i; break
    locals_first = False
    if i_rd is not None:
        i_def = None; i_loc = None
        for i in range(i_rd, len(toks3)):
            x = toks3[i]
            if i_def is None and is_id(x, 'define_locals'): i_def = i
            if i_loc is None and is_id(x, 'locals') and i + 2 < len(toks3) and is_p(toks3[i + 1], '.') and is_id(toks3[i + 2], 'add'): i_loc = i
        def q3(i):
            for y in toks3[i:]:
                if is_p(y, ';'): return False
                if is_p(y, '?'): return True
            return False
        # nothing may leave or skip the iteration between the reads of a locals group and its validation (an early `continue` for, say, empty
        # groups would let an unvalidated value type through)
        no_early_exit = i_def is not None and not any(is_id(toks3[j], 'continue') or is_id(toks3[j], 'break') or is_id(toks3[j], 'return') for j in range(i_rd, i_def))
        locals_first = i_def is not None and q3(i_def) and (i_loc is None or i_def < i_loc) and no_early_exit
    # the binary reader is configured with the same feature set as the validator (`parser.set_features(wasm_features)`),
    # and both get the set computed by get_wasmparser_wasm_features
    btoks = list(flat(body.items))
    def has_seq(ts, names):
        for i in range(len(ts) - len(names) + 1):
            if all((is_id(ts[i + j], n) if n.isidentifier() else is_p(ts[i + j], n)) for j, n in enumerate(names)): return i
        return None
    i_set = has_seq(btoks, ['parser', '.', 'set_features'])
    i_loop = has_seq(btoks, ['parser', '.', 'parse_all'])
    reader_features = i_set is not None and i_loop is not None and i_set < i_loop and 'wasm_features' in text(btoks[i_set:i_set + 5])
    validator_features = has_seq(btoks, ['Validator', '::', 'new_with_features']) is not None
    kinds = [k for k, _, _ in table]
    if len(set(kinds)) != len(kinds): raise Refuse('a payload kind occurs in two arms')
    meths = sorted(set(mm for _, _, mm in table if mm))
    o = ['(* GENERATED by /verif/translator/gen_more.py (G6) from src/module/mod.rs, src/module/functions/mod.rs and',
         '   src/module/functions/local_function/mod.rs -- do not edit *)', 'From Coq Require Import List Bool. Import ListNotations.',
         'Inductive payload_kind := ' + ' | '.join('PK_' + k for k in kinds) + '.',
         'Inductive vmethod := ' + ' | '.join('VM_' + mm for mm in meths) + '.',
         'Inductive arm_kind := AK_Validated (m : vmethod) | AK_ValidatedThenRejected (m : vmethod) | AK_Rejected | AK_Custom | AK_Unchecked.',
         'Definition all_payload_kinds : list payload_kind := [%s].' % '; '.join('PK_' + k for k in kinds),
         'Definition arm (k : payload_kind) : arm_kind :=\n  match k with\n' + '\n'.join('  | PK_%s => %s' % (k, c + (' VM_' + mm if mm else '')) for k, c, mm in table) + '\n  end.',
         'Definition operator_validated_before_use : bool := %s.' % ('true' if op_first else 'false'),
         'Definition body_end_validated : bool := %s.' % ('true' if finish_checked else 'false'),
         'Definition locals_validated_before_use : bool := %s.' % ('true' if locals_first else 'false'),
         'Definition reader_uses_configured_features : bool := %s.' % ('true' if reader_features else 'false'),
         'Definition validator_uses_configured_features : bool := %s.' % ('true' if validator_features else 'false')]
    content = '\n'.join(o) + '\n'
    path = os.path.join(out, 'Gate.v')
    try:
        if open(path).read() != content: open(path, 'w').write(content)
    except OSError: open(path, 'w').write(content)
    return {'arms': len(table), 'classes': {c: sum(1 for _, cc, _ in table if cc == c) for c in sorted(set(c for _, c, _ in table))}, 'operator_validated_before_use': op_first, 'body_end_validated': finish_checked, 'locals_validated_before_use': locals_first, 'reader_uses_configured_features': reader_features, 'validator_uses_configured_features': validator_features}


def gen_par(repo, out, report):
    """G8: every `maybe_parallel!` site and the combinator chain applied to it.  Only order-preserving / order-free
    shapes are understood: `.map(closure).collect::<Vec<_>>()` (rayon's indexed collect) and `.any(closure)`."""
    sites = []
    import glob
    for path in sorted(glob.glob(os.path.join(repo, 'src', '**', '*.rs'), recursive=True)):
        rel = os.path.relpath(path, repo)
        src = open(path).read()
        if 'maybe_parallel!' not in src: continue
        toks = tokenize(src)
        try: t = tree(toks)
        except Exception as e: raise Refuse('cannot read %s: %s' % (rel, e))
        def walk(items):
            for i, x in enumerate(items):
                if is_id(x, 'maybe_parallel!') and i + 1 < len(items) and isinstance(items[i + 1], Group):
                    if i > 0 and is_id(items[i - 1], 'macro_rules!'): continue
                    chain = []; j = i + 2
                    while j + 1 < len(items) and is_p(items[j], '.') and isinstance(items[j + 1], Tok) and items[j + 1].k == 'id':
                        name = items[j + 1].s; j += 2
                        # optional turbofish
                        tf = ''
                        if j < len(items) and is_p(items[j], '::'):
                            k = j + 1; depth = 0; buf = []
                            while k < len(items):
                                buf.append(items[k]);
                                if is_p(items[k], '<'): depth += 1
                                if is_p(items[k], '<<'): depth += 2
                                if is_p(items[k], '>') or is_p(items[k], '>>'):
                                    depth -= 2 if is_p(items[k], '>>') else 1
                                    if depth <= 0: break
                                k += 1
                            tf = text(buf).replace(' ', ''); j = k + 1
                        if j < len(items) and is_g(items[j], '()'): j += 1
                        chain.append(name + (('::' + tf) if tf else ''))
                    sites.append((rel, text(items[i + 1].items).replace(' ', ''), chain))
                if isinstance(x, Group): walk(x.items)
        walk(t)
    kinds = []
    for rel, arg, chain in sites:
        if chain[:2] == ['map', 'collect::<Vec<_>>']: kinds.append('PS_MapCollectVec')
        elif chain[:1] == ['any']: kinds.append('PS_Any')
        else: raise Refuse('parallel site %s %s uses a combinator chain that is not understood: %s' % (rel, arg, chain))
    o = ['(* GENERATED by /verif/translator/gen_more.py (G8) from every maybe_parallel! site under src/ -- do not edit *)', 'From Coq Require Import List. Import ListNotations.',
         'Inductive par_shape := PS_MapCollectVec | PS_Any.',
         'Definition par_sites : list par_shape := [%s].' % '; '.join(kinds),
         '(* ' + ' | '.join('%s %s %s' % (r, a, '.'.join(c)) for r, a, c in sites) + ' *)']
    content = '\n'.join(o) + '\n'
    path = os.path.join(out, 'ParSites.v')
    try:
        if open(path).read() != content: open(path, 'w').write(content)
    except OSError: open(path, 'w').write(content)
    return {'sites': [{'file': r, 'arg': a, 'chain': c} for r, a, c in sites]}


def gen_sorts(repo, out, report):
    """G9: the sort calls that fix every emission order: (file, function, receiver, normalised call text).  The models sort
    with exactly these keys (Model/Locals.v sort_ids, Model/EmitM.v sort_funcs / sort_types / sort_nm, Model/CodeMap.v sort_ranges,
    Model/Dwarf.v tables); the expected text is pinned by a theorem, so a changed key or a dropped sort breaks the tie."""
    wanted = [('src/module/functions/local_function/mod.rs', 'emit_locals', 'used_locals', 'SS_used_locals'),
              ('src/module/functions/mod.rs', 'used_local_functions', 'functions', 'SS_local_functions'),
              ('src/module/types.rs', 'emit', 'tys', 'SS_types'),
              ('src/module/functions/mod.rs', 'emit', 'function_ranges', 'SS_function_ranges'),
              ('src/module/debug/expression.rs', 'new', 'address_convert_table', 'SS_dwarf_ranges'),
              ('src/module/debug/expression.rs', 'new', 'instrument_address_convert_table', 'SS_dwarf_instrs')]
    res = []
    def flat(items):
        for x in items:
            if isinstance(x, Group):
                yield x
                for y in flat(x.items): yield y
            else: yield x
    for rel, fn, recv, tag in wanted:
        p, t = src_tree(repo, rel)
        # the function may exist several times in a file (impl blocks): take every body and look for the receiver
        found = None
        def bodies(items, acc):
            for i, x in enumerate(items):
                if is_id(x, 'fn') and i + 1 < len(items) and is_id(items[i + 1], fn):
                    for u in items[i + 2:]:
                        if is_g(u, '{}'): acc.append(u); break
                if isinstance(x, Group): bodies(x.items, acc)
        acc = []; bodies(t, acc)
        for b in acc:
            toks = list(flat(b.items))
            for i, x in enumerate(toks):
                if is_id(x, recv) and i + 3 < len(toks) and is_p(toks[i + 1], '.') and isinstance(toks[i + 2], Tok) and toks[i + 2].s.startswith('sort') and is_g(toks[i + 3], '()'):
                    found = (toks[i + 2].s + '(' + text(toks[i + 3].items).replace(' ', '') + ')').replace('(*', '( *'); break   # no comment opener inside Coq strings
            if found: break
        res.append((tag, rel, fn, recv, found or 'NO_SORT'))
    # the name section: every per-kind vector is sorted by index
    p, t = src_tree(repo, 'src/module/mod.rs')
    b = fn_body(t, 'emit_name_section')
    if b is None: raise Refuse('emit_name_section not found')
    toks = list(flat(b.items)); nm = []
    for i, x in enumerate(toks):
        if isinstance(x, Tok) and x.k == 'id' and i + 3 < len(toks) and is_p(toks[i + 1], '.') and isinstance(toks[i + 2], Tok) and toks[i + 2].s.startswith('sort') and is_g(toks[i + 3], '()'):
            nm.append((x.s, toks[i + 2].s + '(' + text(toks[i + 3].items).replace(' ', '') + ')'))
    o = ['(* GENERATED by /verif/translator/gen_more.py (G9): the sort calls that fix emission orders -- do not edit *)', 'From Coq Require Import List String. Import ListNotations. Open Scope string_scope.',
         'Inductive sort_site := ' + ' | '.join(tag for tag, *_ in res) + '.',
         'Definition sort_call (s : sort_site) : string :=\n  match s with\n' + '\n'.join('  | %s => "%s"' % (tag, call.replace('"', "'")) for tag, _, _, _, call in res) + '\n  end.',
         'Definition name_section_sorts : list (string * string) := [%s].' % '; '.join('("%s", "%s")' % (a, c) for a, c in nm)]
    content = '\n'.join(o) + '\n'
    path = os.path.join(out, 'SortKeys.v')
    try:
        if open(path).read() != content: open(path, 'w').write(content)
    except OSError: open(path, 'w').write(content)
    return {'sorts': [{'site': tag, 'call': call} for tag, _, _, _, call in res], 'name_section': nm}


def skeleton(items, ctx, out, is_event):
    """control skeleton of a function body: every `event` (a token position satisfying is_event) with the chain of
    enclosing match arms / if conditions / loops, as normalised text"""
    i = 0; n = len(items)
    def upto_block(j):
        # the body is the first `{..}` group that is not part of a struct pattern (`if let K { .. } = e {body}`)
        hdr = []
        while j < n and not (is_g(items[j], '{}') and not (j + 1 < n and is_p(items[j + 1], '='))): hdr.append(items[j]); j += 1
        return hdr, j
    while i < n:
        x = items[i]
        if is_id(x, 'match'):
            hdr, j = upto_block(i + 1)
            if j < n:
                for pat, body in arms(items[j]):
                    skeleton(body, ctx + ['match %s: %s' % (text(hdr).replace(' ', ''), text(pat).replace(' ', ''))], out, is_event)
                i = j + 1; continue
        if is_id(x, 'if') or is_id(x, 'while') or is_id(x, 'for'):
            hdr, j = upto_block(i + 1)
            if j < n:
                label = '%s %s' % (x.s, text(hdr).replace(' ', ''))
                skeleton(items[j].items, ctx + [label], out, is_event)
                i = j + 1
                if x.s == 'if' and i < n and is_id(items[i], 'else'):
                    if i + 1 < n and is_g(items[i + 1], '{}'):
                        skeleton(items[i + 1].items, ctx + ['else-of ' + label], out, is_event); i += 2
                    else:
                        i += 1   # `else if`: handled by the next iteration with the same ctx (flattened chain)
                continue
        ev = is_event(items, i)
        if ev: out.append((' > '.join(ctx), ev))
        if isinstance(x, Group): skeleton(x.items, ctx, out, is_event)
        i += 1

def gen_skeletons(repo, out, report):
    """G10: the push / insert / delete skeleton of passes::used (Used::new and UsedVisitor) and passes::gc::run: which
    entity is pushed or deleted under which match arm / condition.  Pinned by theorems of C06 / C07: the GC model
    (Model/GC.v roots, succ, used, gc) is written against exactly this skeleton."""
    def ev_used(items, i):
        x = items[i]
        if is_id(x, 'stack') and not (i > 0 and is_p(items[i - 1], '.')) and i + 3 < len(items) and is_p(items[i + 1], '.') and isinstance(items[i + 2], Tok) and items[i + 2].s.startswith('push_') and is_g(items[i + 3], '()'):
            return items[i + 2].s + '(' + text(items[i + 3].items).replace(' ', '') + ')'
        if is_id(x, 'stack') and i + 7 < len(items) and is_p(items[i + 1], '.') and is_id(items[i + 2], 'used') and is_p(items[i + 3], '.') and is_p(items[i + 5], '.') and is_id(items[i + 6], 'insert'):
            return 'used.' + items[i + 4].s + '.insert(' + text(items[i + 7].items).replace(' ', '') + ')'
        if is_id(x, 'self') and i + 5 < len(items) and is_p(items[i + 1], '.') and is_id(items[i + 2], 'stack') and is_p(items[i + 3], '.') and isinstance(items[i + 4], Tok) and items[i + 4].s.startswith('push_'):
            return 'visitor:' + items[i + 4].s + '(' + text(items[i + 5].items).replace(' ', '') + ')'
        if is_id(x, 'section') and i + 2 < len(items) and is_p(items[i + 1], '.') and is_id(items[i + 2], 'add_gc_roots'): return 'custom.add_gc_roots'
        if is_id(x, 'dfs_in_order'): return 'dfs_in_order'
        return None
    p, t = src_tree(repo, 'src/passes/used.rs')
    def all_bodies(items, name, acc):
        for i, x in enumerate(items):
            if is_id(x, 'fn') and i + 1 < len(items) and is_id(items[i + 1], name):
                for u in items[i + 2:]:
                    if is_g(u, '{}'): acc.append(u); break
            if isinstance(x, Group): all_bodies(x.items, name, acc)
    cands = []; all_bodies(t, 'new', cands)
    body = next((b for b in cands if 'exports' in text(b.items)), None)
    if body is None: raise Refuse('Used::new not found')
    used = []; skeleton(body.items, [], used, ev_used)
    vis = []
    # the UsedVisitor methods
    src = open(os.path.join(repo, 'src/passes/used.rs')).read()
    for m in re.finditer(r'fn (visit_\w+)\s*\(', src):
        b = fn_body(t, m.group(1))
        if b is not None:
            tmp = []; skeleton(b.items, [m.group(1)], tmp, ev_used); vis += tmp
    def ev_gc(items, i):
        x = items[i]
        if (is_id(x, 'module') or is_id(x, 'm')) and not (i > 0 and is_p(items[i - 1], '.')) and i + 5 < len(items) and is_p(items[i + 1], '.') and isinstance(items[i + 2], Tok) and is_p(items[i + 3], '.') and isinstance(items[i + 4], Tok) and items[i + 4].s in ('delete', 'remove') and is_g(items[i + 5], '()'):
            return items[i + 2].s + '.' + items[i + 4].s + '(' + text(items[i + 5].items).replace(' ', '') + ')'
        return None
    p2, t2 = src_tree(repo, 'src/passes/gc.rs')
    b2 = fn_body(t2, 'run')
    if b2 is None: raise Refuse('gc::run not found')
    gcs = []; skeleton(b2.items, [], gcs, ev_gc)
    # the last step of the pass: which functions get declared in the new declared element segment
    def ev_decl(items, i):
        x = items[i]
        if isinstance(x, Tok) and x.k == 'id' and x.s in ('insert', 'remove', 'add', 'sort', 'sort_unstable') and i >= 1 and is_p(items[i - 1], '.') and i + 1 < len(items) and is_g(items[i + 1], '()'):
            j = i - 2; pre = []
            while j >= 0 and isinstance(items[j], Tok) and (items[j].k == 'id' or is_p(items[j], '.')) or (j >= 0 and isinstance(items[j], Tok) and items[j].s.isdigit()): pre.insert(0, items[j].s); j -= 1
            return ''.join(pre) + '.' + x.s + '(' + text(items[i + 1].items).replace(' ', '') + ')'
        if is_id(x, 'dfs_in_order'): return 'dfs_in_order'
        if is_id(x, 'return'): return 'return'
        return None
    for i, x in enumerate(b2.items):
        if is_id(x, 'declare_referenced_funcs') and i + 1 < len(b2.items) and is_g(b2.items[i + 1], '()'): gcs.append(('', 'declare_referenced_funcs(' + text(b2.items[i + 1].items).replace(' ', '') + ')'))
    b3 = fn_body(t2, 'declare_referenced_funcs')
    if b3 is None: raise Refuse('gc::declare_referenced_funcs not found')
    decl = []; skeleton(b3.items, [], decl, ev_decl)
    vis = vis   # unchanged
    def coq_list(l): return '[' + '; '.join('("%s", "%s")' % (a.replace('"', "'"), b.replace('"', "'")) for a, b in l) + ']'
    o = ['(* GENERATED by /verif/translator/gen_more.py (G10): control skeleton of src/passes/used.rs and src/passes/gc.rs -- do not edit *)',
         'From Coq Require Import List String. Import ListNotations. Open Scope string_scope.',
         'Definition used_new_skeleton : list (string * string) :=\n  ' + coq_list(used) + '.',
         'Definition used_visitor_skeleton : list (string * string) :=\n  ' + coq_list(vis) + '.',
         'Definition gc_run_skeleton : list (string * string) :=\n  ' + coq_list(gcs) + '.',
         'Definition gc_declare_skeleton : list (string * string) :=\n  ' + coq_list(decl) + '.']
    content = '\n'.join(o) + '\n'
    path = os.path.join(out, 'GcSkeleton.v')
    try:
        if open(path).read() != content: open(path, 'w').write(content)
    except OSError: open(path, 'w').write(content)
    return {'used_new': len(used), 'used_visitor': len(vis), 'gc_run': len(gcs), 'gc_declare': len(decl)}


def gen_config_emit(repo, out, report):
    """G11: every setter of ModuleConfig as the list of its field assignments (field, right-hand side);
    G12: the skeleton of Module::emit_wasm: which section emitter / custom-section step runs under which condition, in order.
    Pinned by theorems of C14 / C12 / C08: Model/EmitM.v emits the sections in exactly this order under exactly these switches."""
    p, t = src_tree(repo, 'src/module/config.rs')
    src = open(p).read()
    setters = []
    for m in re.finditer(r'pub fn (\w+)\s*(?:<[^>]*>)?\s*\(\s*&mut self', src):
        name = m.group(1)
        b = fn_body(t, name)
        if b is None: raise Refuse('config setter %s: body not found' % name)
        assigns = []
        def walk(items):
            for i, x in enumerate(items):
                if is_id(x, 'self') and i + 3 < len(items) and is_p(items[i + 1], '.') and isinstance(items[i + 2], Tok) and is_p(items[i + 3], '=') and not (i + 4 < len(items) and is_p(items[i + 4], '=')):
                    rhs = []
                    for y in items[i + 4:]:
                        if is_p(y, ';'): break
                        rhs.append(y)
                    assigns.append((items[i + 2].s, text(rhs).replace(' ', '')))
                if isinstance(x, Group): walk(x.items)
        walk(b.items)
        setters.append((name, assigns))
    if not setters: raise Refuse('no ModuleConfig setters found')
    p2, t2 = src_tree(repo, 'src/module/mod.rs')
    b = fn_body(t2, 'emit_wasm')
    if b is None: raise Refuse('emit_wasm not found')
    def ev_emit(items, i):
        x = items[i]
        if isinstance(x, Tok) and x.k == 'id' and x.s in ('emit', 'emit_func_section', 'emit_data_count', 'emit_name_section', 'apply_code_transform') and i + 1 < len(items) and is_g(items[i + 1], '()'):
            recv = ''
            if i >= 2 and is_p(items[i - 1], '.') and isinstance(items[i - 2], Tok): recv = items[i - 2].s + '.'
            return recv + x.s
        if is_id(x, 'section') and i >= 2 and is_p(items[i - 1], '.') and is_id(items[i - 2], 'wasm_module') and i + 1 < len(items) and is_g(items[i + 1], '()'):
            inner = text(items[i + 1].items).replace(' ', '')
            m2 = re.match(r'&wasm_encoder::(\w+)', inner)
            return 'section(' + (m2.group(1) if m2 else inner) + ')'
        if is_id(x, 'take') and i + 1 < len(items) and is_g(items[i + 1], '()'): return 'take(' + text(items[i + 1].items).replace(' ', '') + ')'
        if is_id(x, 'self') and i + 3 < len(items) and is_p(items[i + 1], '.') and is_id(items[i + 2], 'customs') and is_p(items[i + 3], '='): return 'self.customs=' + text([y for y in items[i + 4:i + 5]]).replace(' ', '')
        if is_id(x, 'continue'): return 'continue'
        return None
    sk = []; skeleton(b.items, [], sk, ev_emit)
    def coq_list(l): return '[' + '; '.join('("%s", "%s")' % (a.replace('"', "'").replace('(*', '( *'), c.replace('"', "'").replace('(*', '( *')) for a, c in l) + ']'
    o = ['(* GENERATED by /verif/translator/gen_more.py (G11, G12): ModuleConfig setters and the skeleton of Module::emit_wasm -- do not edit *)',
         'From Coq Require Import List String. Import ListNotations. Open Scope string_scope.',
         'Definition config_setters : list (string * list (string * string)) :=\n  [' + ';\n   '.join('("%s", %s)' % (n, coq_list(a)) for n, a in setters) + '].',
         'Definition emit_wasm_skeleton : list (string * string) :=\n  ' + coq_list(sk) + '.']
    content = '\n'.join(o) + '\n'
    path = os.path.join(out, 'ConfigEmit.v')
    try:
        if open(path).read() != content: open(path, 'w').write(content)
    except OSError: open(path, 'w').write(content)
    return {'setters': len(setters), 'emit_wasm_steps': len(sk)}


def gen_valtypes(repo, out, report):
    """G13: src/ty.rs ValType::parse (wasmparser -> walrus) and ValType::to_wasmencoder_type (walrus -> wasm-encoder), arm by arm,
    nested `match` on the reference type flattened.  -> coq/Gen/ValTypes.v: gen_vt_parse / gen_vt_emit over the model's valty."""
    p, t = src_tree(repo, 'src/ty.rs')
    W = {'I32': 'VT_I32', 'I64': 'VT_I64', 'F32': 'VT_F32', 'F64': 'VT_F64', 'V128': 'VT_V128', 'Funcref': 'VT_Funcref', 'Externref': 'VT_Externref'}
    X = {'I32': 'X_I32', 'I64': 'X_I64', 'F32': 'X_F32', 'F64': 'X_F64', 'V128': 'X_V128', 'FUNCREF': 'X_Funcref', 'EXTERNREF': 'X_Externref'}
    def leaf(toks, table, what):
        # the last identifier of a path / constructor application names the case: ValType::Ref(RefType::Externref) -> Externref
        ids = [x.s for x in flat_tokens(toks) if isinstance(x, Tok) and x.k == 'id']
        for i in reversed(ids):
            if i in table: return table[i]
        raise Refuse('%s: cannot read the case of `%s`' % (what, text(toks)))
    def flat_tokens(items):
        for x in items:
            if isinstance(x, Group):
                for y in flat_tokens(x.items): yield y
            else: yield x
    def table_of(fn, src_tab, dst_tab, what):
        b = fn_body(t, fn)
        if b is None: raise Refuse('ty.rs: fn %s not found' % fn)
        m = find_match(b.items, lambda sc: True)
        if m is None: raise Refuse('ty.rs: %s has no match' % fn)
        res = []
        def walk(g, prefix):
            for pat, body in arms(g):
                if len(pat) == 1 and (is_p(pat[0], '_') or is_id(pat[0], '_')):
                    res.append(('_', 'ERR' if any(isinstance(x, Tok) and x.s in ('bail', 'bail!') for x in flat_tokens(body)) else None)); continue
                inner = None
                for k, x in enumerate(body):
                    if is_id(x, 'match'):
                        for y in body[k + 1:]:
                            if is_g(y, '{}'): inner = y; break
                        break
                if inner is None and len(body) == 1 and is_g(body[0], '{}'):
                    bb = body[0].items
                    for k, x in enumerate(bb):
                        if is_id(x, 'match'):
                            for y in bb[k + 1:]:
                                if is_g(y, '{}'): inner = y; break
                            break
                if inner is not None: walk(inner, pat); continue
                if any(isinstance(x, Tok) and x.s in ('bail', 'bail!') for x in flat_tokens(body)): res.append((leaf(pat, src_tab, what), 'ERR'))
                else: res.append((leaf(pat, src_tab, what), leaf(body, dst_tab, what)))
        walk(m, [])
        return res
    parse = table_of('parse', X, W, 'ValType::parse')
    emit = table_of('to_wasmencoder_type', W, X, 'ValType::to_wasmencoder_type')
    o = ['(* GENERATED by /verif/translator/gen_more.py (G13): src/ty.rs value-type conversions -- do not edit *)',
         'From WV Require Import Gen.Ops.',
         '(* the value types of wasmparser / wasm-encoder that walrus knows; every other reference type is X_OtherRef *)',
         'Inductive xvalty := X_I32 | X_I64 | X_F32 | X_F64 | X_V128 | X_Funcref | X_Externref | X_OtherRef.',
         'Definition gen_vt_parse (x : xvalty) : option valty :=\n  match x with\n' + '\n'.join('  | %s => %s' % (a, 'None' if b == 'ERR' else 'Some ' + b) for a, b in parse if a != '_') + '\n  | _ => None\n  end.',
         'Definition gen_vt_emit (v : valty) : xvalty :=\n  match v with\n' + '\n'.join('  | %s => %s' % (a, b) for a, b in emit) + '\n  end.']
    if not any(a == '_' and b == 'ERR' for a, b in parse): raise Refuse('ValType::parse: the catch-all arm no longer rejects')
    content = '\n'.join(o) + '\n'
    path = os.path.join(out, 'ValTypes.v')
    try:
        if open(path).read() != content: open(path, 'w').write(content)
    except OSError: open(path, 'w').write(content)
    return {'parse_arms': len(parse), 'emit_arms': len(emit)}


def gen_parse_skeleton(repo, out, report):
    """G14: the skeleton of Module::parse: under which Payload arm / condition which validator method and which parse_* step runs, in order,
    and the steps after the payload loop.  Pinned by a theorem (Proofs/ParsePinned.v): Model/ParseM.v [parse_sec] / [parseM] follow it."""
    p, t = src_tree(repo, 'src/module/mod.rs')
    b = fn_body(t, 'parse')
    if b is None: raise Refuse('Module::parse not found')
    def ev(items, i):
        x = items[i]
        if isinstance(x, Tok) and x.k == 'id' and i >= 2 and is_p(items[i - 1], '.') and isinstance(items[i - 2], Tok) and i + 1 < len(items) and is_g(items[i + 1], '()'):
            recv = items[i - 2].s
            if recv == 'validator': return 'validator.' + x.s
            if recv == 'ret' and (x.s.startswith('parse_') or x.s in ('declare_local_functions', 'reserve_data')): return 'ret.' + x.s
            if recv == 'customs' and x.s == 'add': return 'customs.add'
            if recv == 'producers' and x.s == 'add_processed_by': return 'producers.add_processed_by'
            if recv in ('name_sections', 'debug_sections') and x.s == 'push': return recv + '.push'
        if is_id(x, 'ret') and i + 3 < len(items) and is_p(items[i + 1], '.') and isinstance(items[i + 2], Tok) and is_p(items[i + 3], '=') and not (i + 4 < len(items) and is_p(items[i + 4], '=')):
            return 'ret.' + items[i + 2].s + '='
        if isinstance(x, Tok) and x.s in ('bail', 'bail!'): return 'bail'
        if is_id(x, 'on_parse') and i + 1 < len(items) and is_g(items[i + 1], '()'): return 'on_parse(..)'
        return None
    sk = []; skeleton(b.items, [], sk, ev)
    # the arms of the custom-section dispatch `match s.name()` (an arm that consumes a section silently has no event above)
    cm = find_match(b.items, lambda sc: text(sc).replace(' ', '') == 's.name()')
    if cm is None: raise Refuse('Module::parse: the custom-section dispatch `match s.name()` was not found')
    for pat, body in arms(cm): sk.append(('custom-section dispatch arm', text(pat).replace(' ', '')))
    def coq_list(l): return '[' + ';\n   '.join('("%s", "%s")' % (a.replace('"', "'").replace('(*', '( *'), c.replace('"', "'")) for a, c in l) + ']'
    o = ['(* GENERATED by /verif/translator/gen_more.py (G14): the skeleton of Module::parse -- do not edit *)',
         'From Coq Require Import List String. Import ListNotations. Open Scope string_scope.',
         'Definition parse_skeleton : list (string * string) :=\n  ' + coq_list(sk) + '.']
    content = '\n'.join(o) + '\n'
    path = os.path.join(out, 'ParseSkeleton.v')
    try:
        if open(path).read() != content: open(path, 'w').write(content)
    except OSError: open(path, 'w').write(content)
    return {'steps': len(sk)}


def gen_traversal_calls(repo, out, report):
    """G15: the functions called inside the two traversal drivers of src/ir/traversals.rs (every `name(` that is not a method call, a macro or a
    constructor pattern).  A driver that calls itself or the other driver recurses on the call stack; pinned by a theorem of C16."""
    p, t = src_tree(repo, 'src/ir/traversals.rs')
    res = []
    def flat(items):
        for x in items:
            if isinstance(x, Group):
                yield x
                for y in flat(x.items): yield y
            else: yield x
    for fn in ('dfs_in_order', 'dfs_pre_order_mut'):
        b = fn_body(t, fn)
        if b is None: raise Refuse('traversals.rs: fn %s not found' % fn)
        toks = list(flat(b.items)); calls = []
        for i, x in enumerate(toks):
            if isinstance(x, Tok) and x.k == 'id' and i + 1 < len(toks) and is_g(toks[i + 1], '()') and not (i > 0 and (is_p(toks[i - 1], '.') or is_p(toks[i - 1], '::'))) and x.s[0].islower() and not x.s.endswith('!') and x.s not in ('if', 'while', 'for', 'match', 'let', 'loop', 'return', 'in', 'mut', 'ref', 'as'):
                if x.s not in calls: calls.append(x.s)
        res.append((fn, calls))
    o = ['(* GENERATED by /verif/translator/gen_more.py (G15): free functions called by the traversal drivers -- do not edit *)',
         'From Coq Require Import List String. Import ListNotations. Open Scope string_scope.',
         'Definition traversal_calls : list (string * list string) :=\n  [' + ';\n   '.join('("%s", [%s])' % (fn, '; '.join('"%s"' % c for c in calls)) for fn, calls in res) + '].']
    content = '\n'.join(o) + '\n'
    path = os.path.join(out, 'TraversalCalls.v')
    try:
        if open(path).read() != content: open(path, 'w').write(content)
    except OSError: open(path, 'w').write(content)
    return {fn: calls for fn, calls in res}


def run(repo, out, report, g):
    try:
        report['attrs'] = gen_attrs(repo, out, report)
        report['features'] = gen_features(repo, out, report)
        report['gate'] = gen_gate(repo, out, report)
        report['par'] = gen_par(repo, out, report)
        report['sorts'] = gen_sorts(repo, out, report)
        report['gc_skeleton'] = gen_skeletons(repo, out, report)
        report['config_emit'] = gen_config_emit(repo, out, report)
        report['valtypes'] = gen_valtypes(repo, out, report)
        report['parse_skeleton'] = gen_parse_skeleton(repo, out, report)
        report['traversal_calls'] = gen_traversal_calls(repo, out, report)
    except Refuse as e:
        import gen
        raise gen.Refuse(str(e))
