"""Further generators (G4..G8); each adds a file under coq/Gen and a section in the report."""


def run(repo, out, report, g):
    pass
