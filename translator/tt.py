"""Tiny Rust tokenizer + token-tree builder (enough for walrus' match tables)."""
import re
TOK = re.compile(r'''
   (?P<ws>\s+|//[^\n]*|/\*.*?\*/)
 | (?P<str>b?"(?:\\.|[^"\\])*")
 | (?P<char>'(?:\\.|[^'\\])')
 | (?P<life>'[A-Za-z_][A-Za-z0-9_]*)
 | (?P<num>0x[0-9a-fA-F_]+(?:[iu](?:8|16|32|64|128|size))?|[0-9][0-9_]*(?:\.[0-9_]+)?(?:[iuf](?:8|16|32|64|128|size))?)
 | (?P<id>[A-Za-z_][A-Za-z0-9_]*!?)
 | (?P<p>=>|::|->|<<=|>>=|<<|>>|==|!=|<=|>=|&&|\|\||\+=|-=|\|=|&=|\.\.=|\.\.|[-+*/%^&|!=<>.,;:#?@$~(){}\[\]])
''', re.X | re.S)
class Group:
    def __init__(self, d, items, pos): self.d=d; self.items=items; self.pos=pos
    def __repr__(self): return self.d[0]+' '.join(map(repr,self.items))+self.d[1]
class Tok:
    def __init__(self, k, s, pos): self.k=k; self.s=s; self.pos=pos
    def __repr__(self): return self.s
def tokenize(src):
    out=[]; i=0
    while i < len(src):
        m=TOK.match(src,i)
        if not m: raise SyntaxError('bad char at %d: %r'%(i,src[i:i+20]))
        k=m.lastgroup
        if k!='ws': out.append(Tok(k,m.group(),i))
        i=m.end()
    return out
CLOSE={'(' :')','[':']','{':'}'}
def tree(toks):
    stack=[[]]; opens=[]
    for t in toks:
        if t.k=='p' and t.s in CLOSE: stack.append([]); opens.append(t)
        elif t.k=='p' and t.s in CLOSE.values():
            o=opens.pop(); assert CLOSE[o.s]==t.s,(o.s,t.s,t.pos)
            items=stack.pop(); stack[-1].append(Group(o.s+t.s,items,o.pos))
        else: stack[-1].append(t)
    assert len(stack)==1
    return stack[0]
def is_p(t,s): return isinstance(t,Tok) and t.k=='p' and t.s==s
def is_id(t,s=None): return isinstance(t,Tok) and t.k=='id' and (s is None or t.s==s)
def is_g(t,d): return isinstance(t,Group) and t.d==d
def split(items, sep):
    """split a token list on top-level separator punctuation"""
    out=[[]]
    for t in items:
        if is_p(t,sep): out.append([])
        else: out[-1].append(t)
    if out and not out[-1]: out.pop()
    return out
def text(items): return ' '.join(repr(t) for t in items)
def find_fn(items, name):
    """return the body Group of `fn name`"""
    for i,t in enumerate(items):
        if is_id(t,'fn') and i+1<len(items) and is_id(items[i+1],name):
            for u in items[i+2:]:
                if is_g(u,'{}'): return u
    for t in items:
        if isinstance(t,Group):
            r=find_fn(t.items,name)
            if r: return r
    return None
def find_match(items, scrut_pred):
    """find `match <scrut> { ... }` whose scrutinee tokens satisfy scrut_pred; returns arms Group"""
    for i,t in enumerate(items):
        if is_id(t,'match'):
            j=i+1; sc=[]
            while j<len(items) and not is_g(items[j],'{}'): sc.append(items[j]); j+=1
            if j<len(items) and scrut_pred(sc): return items[j]
    for t in items:
        if isinstance(t,Group):
            r=find_match(t.items,scrut_pred)
            if r: return r
    return None
def arms(g):
    """split match arms: list of (pattern tokens, body tokens)"""
    out=[]; items=g.items; i=0
    while i < len(items):
        pat=[]
        while i<len(items) and not is_p(items[i],'=>'): pat.append(items[i]); i+=1
        if i>=len(items): break
        i+=1
        body=[]
        if is_g(items[i],'{}'):
            body=[items[i]]; i+=1
            if i<len(items) and is_p(items[i],','): i+=1
        else:
            while i<len(items) and not is_p(items[i],','): body.append(items[i]); i+=1
            i+=1
        out.append((pat,body))
    return out
